(* C10: the real-number instance of the model of Model/C10_RealOps.v and the lemmas about it.
   `**` is instantiated by [pwR] (defined exactly where CPython's float ** returns a float for
   a non-negative base; a negative base is treated as undefined, which is stricter than Python),
   math.exp by [exp], math.sqrt by [sqrt]; the guard constant 1e-14 is an arbitrary [eps >= 0]. *)
From Coq Require Import List Bool Reals Lra Lia.
From DV Require Import Model.C10_RealOps.
Import ListNotations.
Local Open Scope R_scope.

(* ---------------------------------------------------------------------------------------- *)
(* real power                                                                               *)
(* ---------------------------------------------------------------------------------------- *)
Definition pwR (b e : R) : res R :=
  if Rlt_dec 0 b then Ok (Rpower b e)
  else if Req_EM_T b 0 then
    (if Rlt_dec 0 e then Ok 0 else if Req_EM_T e 0 then Ok 1 else Raise ZeroDiv)
  else Raise TypeErr.

Lemma Rpower_1_l e : Rpower 1 e = 1.
Proof. unfold Rpower. rewrite ln_1, Rmult_0_r. apply exp_0. Qed.

Lemma Rpower_pos b e : 0 < Rpower b e.
Proof. unfold Rpower. apply exp_pos. Qed.

Lemma Rpower_le1 b e : 0 < b <= 1 -> 0 <= e -> Rpower b e <= 1.
Proof.
  intros Hb He. rewrite <- (Rpower_1_l e). apply Rle_Rpower_l; lra.
Qed.

Lemma Rpower_ge1 b e : 1 <= b -> 0 <= e -> 1 <= Rpower b e.
Proof.
  intros Hb He. rewrite <- (Rpower_1_l e) at 1. apply Rle_Rpower_l; lra.
Qed.

Lemma Rpower_neg_le1 b e : 1 <= b -> e <= 0 -> 0 < Rpower b e <= 1.
Proof.
  intros Hb He. split; [apply Rpower_pos|].
  replace e with (- - e) by lra. rewrite Rpower_Ropp.
  assert (H : 1 <= Rpower b (- e)) by (apply Rpower_ge1; lra).
  rewrite <- Rinv_1. apply Rinv_le_contravar; lra.
Qed.

(* base in [0,1], positive exponent: defined, result in [0,1] *)
Lemma pwR_unit b e : 0 <= b <= 1 -> 0 < e -> exists r, pwR b e = Ok r /\ 0 <= r <= 1.
Proof.
  intros Hb He. unfold pwR. destruct (Rlt_dec 0 b) as [Hp|Hn].
  - eexists; split; [reflexivity|]. split; [left; apply Rpower_pos|apply Rpower_le1; lra].
  - destruct (Req_EM_T b 0) as [E|N]; [|exfalso; lra].
    destruct (Rlt_dec 0 e); [|exfalso; lra]. exists 0. split; [reflexivity|lra].
Qed.

(* non-negative base, positive exponent: defined, result >= 0 *)
Lemma pwR_nonneg b e : 0 <= b -> 0 < e -> exists r, pwR b e = Ok r /\ 0 <= r.
Proof.
  intros Hb He. unfold pwR. destruct (Rlt_dec 0 b) as [Hp|Hn].
  - eexists; split; [reflexivity|]. left; apply Rpower_pos.
  - destruct (Req_EM_T b 0) as [E|N]; [|exfalso; lra].
    destruct (Rlt_dec 0 e); [|exfalso; lra]. exists 0. split; [reflexivity|lra].
Qed.

(* positive base: always defined and positive *)
Lemma pwR_pos b e : 0 < b -> pwR b e = Ok (Rpower b e) /\ 0 < Rpower b e.
Proof.
  intros Hb. unfold pwR. destruct (Rlt_dec 0 b); [|exfalso; lra]. split; [reflexivity|apply Rpower_pos].
Qed.

(* ---------------------------------------------------------------------------------------- *)
(* the instance                                                                             *)
(* ---------------------------------------------------------------------------------------- *)
Definition Rltb (x y : R) : bool := if Rlt_dec x y then true else false.
Definition Rleb (x y : R) : bool := if Rle_dec x y then true else false.
Definition Rsame (x y : R) : bool := if Req_EM_T x y then true else false.
Definition Rdiv' (a b : R) : res R := if Req_EM_T b 0 then Raise ZeroDiv else Ok (a / b).

Lemma Rltb_true x y : Rltb x y = true <-> x < y.
Proof. unfold Rltb. destruct (Rlt_dec x y); split; intros; try discriminate; tauto. Qed.
Lemma Rltb_false x y : Rltb x y = false <-> y <= x.
Proof. unfold Rltb. destruct (Rlt_dec x y); split; intros; try discriminate; try lra; reflexivity. Qed.
Lemma Rleb_true x y : Rleb x y = true <-> x <= y.
Proof. unfold Rleb. destruct (Rle_dec x y); split; intros; try discriminate; tauto. Qed.
Lemma Rleb_false x y : Rleb x y = false <-> y < x.
Proof. unfold Rleb. destruct (Rle_dec x y); split; intros; try discriminate; try lra; reflexivity. Qed.

Definition ROps (eps : R) : ops R := {|
  o_add := Rplus; o_sub := Rminus; o_mul := Rmult; o_div := Rdiv';
  o_neg := Ropp; o_abs := Rabs; o_ltb := Rltb; o_leb := Rleb; o_same := Rsame;
  o_c0 := 0; o_half := / 2; o_one := 1; o_two := 2; o_eps := eps;
  o_sqrt := sqrt; o_ofnat := INR;
  o_pw := fun b e => lift (pwR b e);
  o_exp := fun a => ret (exp a) |}.

(* ---------------------------------------------------------------------------------------- *)
(* monad plumbing                                                                           *)
(* ---------------------------------------------------------------------------------------- *)
Definition pure_ok {A} (m : M R A) (a : A) : Prop := forall s, m s = Ok (a, s).

Lemma pure_ret {A} (a : A) : pure_ok (ret a) a.
Proof. intro s; reflexivity. Qed.
Lemma pure_bind {A B} (m : M R A) (f : A -> M R B) a b :
  pure_ok m a -> pure_ok (f a) b -> pure_ok (bind m f) b.
Proof. intros Hm Hf s. unfold bind. rewrite Hm. apply Hf. Qed.
Lemma pure_lift {A} (a : A) : pure_ok (lift (Ok a)) a.
Proof. intro s; reflexivity. Qed.
Lemma pure_div a b : b <> 0 -> pure_ok (lift (Rdiv' a b)) (a / b).
Proof. intros Hb s. unfold lift, Rdiv'. destruct (Req_EM_T b 0); [contradiction|reflexivity]. Qed.
Lemma pure_pw b e r : pwR b e = Ok r -> pure_ok (lift (pwR b e)) r.
Proof. intros H s. unfold lift. rewrite H. reflexivity. Qed.

Lemma bind_pure {A B} (m : M R A) (f : A -> M R B) a s : pure_ok m a -> bind m f s = f a s.
Proof. intro H. unfold bind. rewrite H. reflexivity. Qed.
Lemma bind_draw {B} (f : R -> M R B) u s : bind draw_random f (ERandom u :: s) = f u s.
Proof. reflexivity. Qed.
Lemma bind_ret {T A B} (a : A) (f : A -> M T B) s : bind (ret a) f s = f a s.
Proof. reflexivity. Qed.

(* draws *)
Definition in01 (u : R) : Prop := 0 <= u < 1.
Definition rs (us : list R) : stream R := map ERandom us.
Definition draws_ok (s : stream R) : Prop :=
  Forall (fun e => match e with ERandom u => in01 u | _ => True end) s.

Lemma draws_ok_rs us : Forall in01 us -> draws_ok (rs us).
Proof. induction 1; constructor; auto. Qed.

(* [spec k m Q]: on every stream of at least k draws from [0,1) the action returns normally,
   consumes at most k of them, and its result satisfies Q *)
Definition spec {A} (k : nat) (m : M R A) (Q : A -> Prop) : Prop :=
  forall us, Forall in01 us -> (k <= length us)%nat ->
  exists a pre us', us = pre ++ us' /\ (length pre <= k)%nat /\ m (rs us) = Ok (a, rs us') /\ Q a.

Lemma spec_weaken {A} k k' (m : M R A) (Q Q' : A -> Prop) :
  (k <= k')%nat -> (forall a, Q a -> Q' a) -> spec k m Q -> spec k' m Q'.
Proof.
  intros Hk HQ H us Hus Hlen. destruct (H us Hus ltac:(lia)) as (a & pre & us' & E & Hp & Hm & Ha).
  exists a, pre, us'. repeat split; auto; lia.
Qed.

Lemma spec_ret {A} (a : A) (Q : A -> Prop) : Q a -> spec 0 (ret a) Q.
Proof. intros HQ us _ _. exists a, [], us. repeat split; auto. Qed.

Lemma spec_pure {A} (m : M R A) a (Q : A -> Prop) : pure_ok m a -> Q a -> spec 0 m Q.
Proof. intros Hm HQ us _ _. exists a, [], us. repeat split; auto. Qed.

Lemma spec_bind {A B} k1 k2 (m : M R A) (f : A -> M R B) (Q1 : A -> Prop) (Q2 : B -> Prop) :
  spec k1 m Q1 -> (forall a, Q1 a -> spec k2 (f a) Q2) -> spec (k1 + k2) (bind m f) Q2.
Proof.
  intros Hm Hf us Hus Hlen.
  destruct (Hm us Hus ltac:(lia)) as (a & pre & us' & E & Hp & Em & Ha).
  assert (Hus' : Forall in01 us') by (subst us; apply Forall_app in Hus; tauto).
  assert (Hl' : (k2 <= length us')%nat) by (subst us; rewrite app_length in Hlen; lia).
  destruct (Hf a Ha us' Hus' Hl') as (b & pre' & us'' & E' & Hp' & Ef & Hb).
  exists b, (pre ++ pre'), us''. repeat split; auto.
  - subst us us'. now rewrite app_assoc.
  - rewrite app_length; lia.
  - unfold bind. rewrite Em. exact Ef.
Qed.

Lemma spec_draw : spec 1 draw_random in01.
Proof.
  intros us Hus Hlen. destruct us as [|u us]; [simpl in Hlen; lia|].
  inversion Hus; subst. exists u, [u], us. split; [reflexivity|]. split; [simpl; lia|].
  split; [reflexivity|assumption].
Qed.

(* ---------------------------------------------------------------------------------------- *)
(* min / max / clip                                                                         *)
(* ---------------------------------------------------------------------------------------- *)
Section WithEps.
Variable eps : R.
Hypothesis eps_nonneg : 0 <= eps.
Notation O := (ROps eps).

Lemma pymin_spec a b : pymin O a b = Rmin a b.
Proof.
  unfold pymin; cbn. unfold Rltb, Rmin. destruct (Rlt_dec b a), (Rle_dec a b); lra.
Qed.
Lemma pymax_spec a b : pymax O a b = Rmax a b.
Proof.
  unfold pymax; cbn. unfold Rltb, Rmax. destruct (Rlt_dec a b), (Rle_dec a b); lra.
Qed.
Lemma clip_in c xl xu : xl <= xu -> xl <= clip O c xl xu <= xu.
Proof.
  intros H. unfold clip. rewrite pymin_spec, pymax_spec.
  unfold Rmin, Rmax. destruct (Rle_dec c xl), (Rle_dec _ xu); lra.
Qed.
Lemma clip_id c xl xu : xl <= c <= xu -> clip O c xl xu = c.
Proof.
  intros H. unfold clip. rewrite pymin_spec, pymax_spec.
  unfold Rmin, Rmax. destruct (Rle_dec c xl), (Rle_dec _ xu); lra.
Qed.

(* ---------------------------------------------------------------------------------------- *)
(* cxBlend                                                                                  *)
(* ---------------------------------------------------------------------------------------- *)
Definition blend_post (alpha x1 x2 : R) (c : R * R) : Prop :=
  fst c + snd c = x1 + x2 /\
  Rmin x1 x2 - alpha * (Rmax x1 x2 - Rmin x1 x2) <= fst c <= Rmax x1 x2 + alpha * (Rmax x1 x2 - Rmin x1 x2) /\
  Rmin x1 x2 - alpha * (Rmax x1 x2 - Rmin x1 x2) <= snd c <= Rmax x1 x2 + alpha * (Rmax x1 x2 - Rmin x1 x2).

Lemma blend_interval_aux alpha u x1 x2 : 0 <= alpha -> in01 u ->
  let gamma := (1 + 2 * alpha) * u - alpha in
  let lo := Rmin x1 x2 - alpha * (Rmax x1 x2 - Rmin x1 x2) in
  let hi := Rmax x1 x2 + alpha * (Rmax x1 x2 - Rmin x1 x2) in
  lo <= (1 - gamma) * x1 + gamma * x2 <= hi.
Proof.
  intros Ha [Hu0 Hu1]; cbv zeta.
  assert (Hg : - alpha <= (1 + 2 * alpha) * u - alpha <= 1 + alpha) by nra.
  set (g := (1 + 2 * alpha) * u - alpha) in *.
  unfold Rmin, Rmax. destruct (Rle_dec x1 x2); nra.
Qed.

(* the sum needs nothing about the draw (any event value) *)
Lemma blend_gene_sum alpha x1 x2 s c1 c2 s' :
  blend_gene O alpha x1 x2 s = Ok ((c1, c2), s') -> c1 + c2 = x1 + x2.
Proof.
  unfold blend_gene, bind, draw_random. destruct s as [|[u| | |] s]; try discriminate.
  cbn. intros E; inversion E; subst. ring.
Qed.

Lemma blend_gene_spec alpha x1 x2 : 0 <= alpha ->
  spec 1 (blend_gene O alpha x1 x2) (blend_post alpha x1 x2).
Proof.
  intros Ha. unfold blend_gene.
  eapply spec_weaken with (k := (1 + 0)%nat); [lia|intros a H; exact H|].
  eapply spec_bind; [apply spec_draw|]. intros u Hu. apply spec_ret.
  unfold blend_post; cbn [fst snd o_add o_sub o_mul o_one o_two ROps].
  split; [ring|]. split.
  - apply (blend_interval_aux alpha u x1 x2 Ha Hu).
  - pose proof (blend_interval_aux alpha u x2 x1 Ha Hu) as H. cbv zeta in H.
    rewrite (Rmin_comm x2 x1), (Rmax_comm x2 x1) in H.
    replace ((1 + 2 * alpha) * u - alpha) with ((1 + 2 * alpha) * u - alpha) in H by reflexivity.
    lra.
Qed.


(* ---------------------------------------------------------------------------------------- *)
(* helpers for stepping through an action                                                   *)
(* ---------------------------------------------------------------------------------------- *)
Lemma spec_ret_any {A} k (a : A) (Q : A -> Prop) : Q a -> spec k (ret a) Q.
Proof. intro H. eapply spec_weaken with (k := 0%nat); [lia|intros ? HH; exact HH|]. now apply spec_ret. Qed.

Lemma spec_pure_bind {A B} k (m : M R A) (f : A -> M R B) a (Q : B -> Prop) :
  pure_ok m a -> spec k (f a) Q -> spec k (bind m f) Q.
Proof.
  intros Hm Hf us Hus Hlen. destruct (Hf us Hus Hlen) as (b & pre & us' & E & Hp & Ef & Hb).
  exists b, pre, us'. repeat split; auto. unfold bind. rewrite Hm. exact Ef.
Qed.

Lemma spec_draw_bind {B} k (f : R -> M R B) (Q : B -> Prop) :
  (forall u, in01 u -> spec k (f u) Q) -> spec (S k) (bind draw_random f) Q.
Proof.
  intros H. change (S k) with (1 + k)%nat. eapply spec_bind; [apply spec_draw|exact H].
Qed.

Ltac rsimp := cbn [o_add o_sub o_mul o_div o_neg o_abs o_ltb o_leb o_same o_c0 o_half o_one o_two
                   o_eps o_sqrt o_ofnat o_pw o_exp ROps] in *.

(* ---------------------------------------------------------------------------------------- *)
(* cxSimulatedBinary                                                                        *)
(* ---------------------------------------------------------------------------------------- *)
(* c1 + c2 = x1 + x2 whatever the draw and whatever beta *)
Lemma sbx_gene_sum eta x1 x2 s c1 c2 s' :
  sbx_gene O eta x1 x2 s = Ok ((c1, c2), s') -> c1 + c2 = x1 + x2.
Proof.
  unfold sbx_gene, bind, draw_random. destruct s as [|[u| | |] s]; try discriminate.
  rsimp.
  destruct (if Rleb u (/ 2) then _ else _) as [[beta0 s0]| |]; try discriminate.
  destruct (lift (Rdiv' 1 (eta + 1)) s0) as [[ex s1]| |]; try discriminate.
  destruct (lift (pwR beta0 ex) s1) as [[beta s2]| |]; try discriminate.
  unfold ret. intros E; inversion E; subst. field.
Qed.

Lemma sbx_gene_spec eta x1 x2 : 0 <= eta ->
  spec 1 (sbx_gene O eta x1 x2) (fun c => fst c + snd c = x1 + x2).
Proof.
  intros He. unfold sbx_gene. apply spec_draw_bind. intros rand [Hr0 Hr1]. rsimp.
  assert (Hex : 0 < 1 / (eta + 1)) by (apply Rdiv_lt_0_compat; lra).
  assert (Hb0 : exists b0, pure_ok (if Rleb rand (/ 2) then ret (2 * rand)
                                    else lift (Rdiv' 1 (2 * (1 - rand)))) b0 /\ 0 <= b0).
  { destruct (Rleb rand (/ 2)).
    - exists (2 * rand). split; [apply pure_ret|lra].
    - exists (1 / (2 * (1 - rand))). split; [apply pure_div; lra|].
      left. apply Rdiv_lt_0_compat; lra. }
  destruct Hb0 as (b0 & Pb0 & Hb0).
  eapply spec_pure_bind; [exact Pb0|].
  eapply spec_pure_bind; [apply pure_div; lra|].
  destruct (pwR_nonneg b0 _ Hb0 Hex) as (beta & Eb & _).
  eapply spec_pure_bind; [apply pure_pw; exact Eb|].
  apply spec_ret_any. cbn [fst snd]. field.
Qed.

(* ---------------------------------------------------------------------------------------- *)
(* cxSimulatedBinaryBounded                                                                 *)
(* ---------------------------------------------------------------------------------------- *)
(* every divisor is non-zero and every power base is in its domain *)
Lemma betaq_ok eta rand num den : 0 <= eta -> in01 rand -> 0 <= num -> 0 < den ->
  exists bq, pure_ok (sbxb_betaq O eta rand num den) bq /\ 0 <= bq.
Proof.
  intros He [Hr0 Hr1] Hn Hd. unfold sbxb_betaq. rsimp.
  assert (Hq : 0 <= 2 * num / den) by (apply Rmult_le_pos; [lra|left; now apply Rinv_0_lt_compat]).
  set (beta := 1 + 2 * num / den) in *.
  assert (Hbeta : 1 <= beta) by (unfold beta; lra).
  destruct (pwR_pos beta (- (eta + 1)) ltac:(lra)) as [Ep _].
  destruct (Rpower_neg_le1 beta (- (eta + 1)) Hbeta ltac:(lra)) as [Hp0 Hp1].
  set (p := Rpower beta (- (eta + 1))) in *.
  assert (Hex : 0 < 1 / (eta + 1)) by (apply Rdiv_lt_0_compat; lra).
  assert (Ha : 1 <= 2 - p < 2) by lra.
  destruct (Rleb rand (1 / (2 - p))) eqn:Eia.
  - assert (Hra : 0 <= rand * (2 - p)) by (apply Rmult_le_pos; lra).
    destruct (pwR_nonneg _ _ Hra Hex) as (bq & Ebq & Hbq).
    exists bq. split; [|exact Hbq].
    eapply pure_bind; [apply pure_div; lra|]. fold beta.
    eapply pure_bind; [apply pure_pw; exact Ep|]. fold p.
    eapply pure_bind; [apply pure_div; lra|]. rewrite Eia.
    eapply pure_bind; [apply pure_div; lra|]. apply pure_pw; exact Ebq.
  - assert (Hra : rand * (2 - p) < 2) by nra.
    assert (Hb : 0 < 1 / (2 - rand * (2 - p))) by (apply Rdiv_lt_0_compat; lra).
    destruct (pwR_pos _ (1 / (eta + 1)) Hb) as [Ebq Hbq].
    eexists. split; [|left; exact Hbq].
    eapply pure_bind; [apply pure_div; lra|]. fold beta.
    eapply pure_bind; [apply pure_pw; exact Ep|]. fold p.
    eapply pure_bind; [apply pure_div; lra|]. rewrite Eia.
    eapply pure_bind; [apply pure_div; lra|].
    eapply pure_bind; [apply pure_div; lra|]. apply pure_pw; exact Ebq.
Qed.

Definition inb (xl xu c : R) : Prop := xl <= c <= xu.

Lemma sbxb_gene_spec eta xl xu a b : 0 <= eta -> inb xl xu a -> inb xl xu b ->
  spec 3 (sbxb_gene O eta xl xu a b) (fun c => inb xl xu (fst c) /\ inb xl xu (snd c)).
Proof.
  intros He Ha Hb. unfold inb in *. unfold sbxb_gene. apply spec_draw_bind. intros u1 Hu1. rsimp.
  destruct (Rleb u1 (/ 2)); [|apply spec_ret_any; cbn; tauto].
  destruct (Rltb eps (Rabs (a - b))) eqn:Eg; [|apply spec_ret_any; cbn; tauto].
  apply Rltb_true in Eg.
  assert (Hab : a <> b).
  { intro E. subst b. rewrite Rminus_diag_eq in Eg by reflexivity. rewrite Rabs_R0 in Eg. lra. }
  rewrite pymin_spec, pymax_spec.
  assert (Hx : xl <= Rmin a b /\ Rmin a b < Rmax a b /\ Rmax a b <= xu).
  { unfold Rmin, Rmax. destruct (Rle_dec a b); lra. }
  set (x1 := Rmin a b) in *. set (x2 := Rmax a b) in *.
  apply spec_draw_bind. intros rand Hrand.
  destruct (betaq_ok eta rand (x1 - xl) (x2 - x1) He Hrand ltac:(lra) ltac:(lra)) as (bq1 & P1 & _).
  destruct (betaq_ok eta rand (xu - x2) (x2 - x1) He Hrand ltac:(lra) ltac:(lra)) as (bq2 & P2 & _).
  eapply spec_pure_bind; [exact P1|].
  eapply spec_pure_bind; [exact P2|].
  apply spec_draw_bind. intros u3 _.
  assert (Hlu : xl <= xu) by lra.
  destruct (Rleb u3 (/ 2)); apply spec_ret_any; cbn [fst snd]; split; apply clip_in; exact Hlu.
Qed.

(* ---------------------------------------------------------------------------------------- *)
(* mutPolynomialBounded                                                                     *)
(* ---------------------------------------------------------------------------------------- *)
Lemma poly_gene_spec eta indpb xl xu x : 0 <= eta -> xl < xu -> inb xl xu x ->
  spec 2 (poly_gene O eta indpb xl xu x) (inb xl xu).
Proof.
  intros He Hlu Hx. unfold inb in *. unfold poly_gene. apply spec_draw_bind. intros u _. rsimp.
  destruct (Rleb u indpb); [|apply spec_ret_any; exact Hx].
  assert (Hd : 0 < xu - xl) by lra.
  eapply spec_pure_bind; [apply pure_div; lra|].
  eapply spec_pure_bind; [apply pure_div; lra|].
  apply spec_draw_bind. intros rand [Hr0 Hr1].
  eapply spec_pure_bind; [apply pure_div; lra|].
  assert (Hex : 0 < 1 / (eta + 1)) by (apply Rdiv_lt_0_compat; lra).
  assert (Hd1 : 0 <= (x - xl) / (xu - xl) <= 1).
  { split; [apply Rmult_le_pos; [lra|left; now apply Rinv_0_lt_compat]|].
    apply Rmult_le_reg_r with (xu - xl); [lra|]. unfold Rdiv. rewrite Rmult_assoc, Rinv_l; lra. }
  assert (Hd2 : 0 <= (xu - x) / (xu - xl) <= 1).
  { split; [apply Rmult_le_pos; [lra|left; now apply Rinv_0_lt_compat]|].
    apply Rmult_le_reg_r with (xu - xl); [lra|]. unfold Rdiv. rewrite Rmult_assoc, Rinv_l; lra. }
  destruct (Rltb rand (/ 2)) eqn:Eh.
  - apply Rltb_true in Eh.
    destruct (pwR_unit (1 - (x - xl) / (xu - xl)) (eta + 1) ltac:(lra) ltac:(lra)) as (p & Ep & Hp).
    assert (Hval : 0 <= 2 * rand + (1 - 2 * rand) * p) by nra.
    destruct (pwR_nonneg _ _ Hval Hex) as (q & Eq & _).
    eapply spec_pure_bind.
    { eapply pure_bind; [apply pure_pw; exact Ep|].
      eapply pure_bind; [apply pure_pw; exact Eq|]. apply pure_ret. }
    apply spec_ret_any. apply clip_in; lra.
  - apply Rltb_false in Eh.
    destruct (pwR_unit (1 - (xu - x) / (xu - xl)) (eta + 1) ltac:(lra) ltac:(lra)) as (p & Ep & Hp).
    assert (Hval : 0 <= 2 * (1 - rand) + 2 * (rand - / 2) * p) by nra.
    destruct (pwR_nonneg _ _ Hval Hex) as (q & Eq & _).
    eapply spec_pure_bind.
    { eapply pure_bind; [apply pure_pw; exact Ep|].
      eapply pure_bind; [apply pure_pw; exact Eq|]. apply pure_ret. }
    apply spec_ret_any. apply clip_in; lra.
Qed.


(* ---------------------------------------------------------------------------------------- *)
(* loops: two parents, locus by locus                                                       *)
(* ---------------------------------------------------------------------------------------- *)
(* [locus2 P l1 l2 c1 c2]: at every locus below the shorter parent P relates the parents' genes to
   the children's; past it both children are the parents unchanged *)
Fixpoint locus2 (P : R -> R -> R * R -> Prop) (l1 l2 c1 c2 : list R) : Prop :=
  match l1, l2 with
  | x1 :: r1, x2 :: r2 =>
      match c1, c2 with
      | y1 :: r1', y2 :: r2' => P x1 x2 (y1, y2) /\ locus2 P r1 r2 r1' r2'
      | _, _ => False
      end
  | _, _ => c1 = l1 /\ c2 = l2
  end.

Lemma locus2_length P l1 l2 c1 c2 : locus2 P l1 l2 c1 c2 -> length c1 = length l1 /\ length c2 = length l2.
Proof.
  revert l2 c1 c2; induction l1 as [|x1 r1 IH]; intros l2 c1 c2 H.
  - destruct H; subst; auto.
  - destruct l2 as [|x2 r2]; [destruct H; subst; auto|].
    destruct c1 as [|y1 r1']; [contradiction|]. destruct c2 as [|y2 r2']; [contradiction|].
    destruct H as [_ H]. destruct (IH _ _ _ H). simpl; split; congruence.
Qed.

Lemma locus2_nth P l1 l2 c1 c2 : locus2 P l1 l2 c1 c2 ->
  forall i, (i < Nat.min (length l1) (length l2))%nat ->
  P (nth i l1 0) (nth i l2 0) (nth i c1 0, nth i c2 0).
Proof.
  revert l2 c1 c2; induction l1 as [|x1 r1 IH]; intros l2 c1 c2 H i Hi; [simpl in Hi; lia|].
  destruct l2 as [|x2 r2]; [simpl in Hi; lia|].
  destruct c1 as [|y1 r1']; [contradiction|]. destruct c2 as [|y2 r2']; [contradiction|].
  destruct H as [H0 H]. destruct i as [|i]; [exact H0|]. simpl in Hi. simpl. apply (IH _ _ _ H). lia.
Qed.

Lemma locus2_rest P l1 l2 c1 c2 : locus2 P l1 l2 c1 c2 ->
  forall i, (Nat.min (length l1) (length l2) <= i)%nat ->
  nth i c1 0 = nth i l1 0 /\ nth i c2 0 = nth i l2 0.
Proof.
  revert l2 c1 c2; induction l1 as [|x1 r1 IH]; intros l2 c1 c2 H i Hi.
  - destruct H; subst; auto.
  - destruct l2 as [|x2 r2]; [destruct H; subst; auto|].
    destruct c1 as [|y1 r1']; [contradiction|]. destruct c2 as [|y2 r2']; [contradiction|].
    destruct H as [_ H]. destruct i as [|i]; [simpl in Hi; lia|]. simpl in Hi. simpl.
    apply (IH _ _ _ H). lia.
Qed.

Lemma zip2M_spec k (f : R -> R -> M R (R * R)) (P : R -> R -> R * R -> Prop) :
  (forall x1 x2, spec k (f x1 x2) (P x1 x2)) ->
  forall l1 l2, spec (k * Nat.min (length l1) (length l2)) (zip2M f l1 l2)
                     (fun c => locus2 P l1 l2 (fst c) (snd c)).
Proof.
  intros Hf. induction l1 as [|x1 r1 IH]; intros l2.
  - apply spec_ret_any. simpl. auto.
  - destruct l2 as [|x2 r2]; [apply spec_ret_any; simpl; auto|].
    cbn [zip2M length Nat.min]. rewrite Nat.mul_succ_r, Nat.add_comm.
    eapply spec_bind; [apply Hf|]. intros [c1 c2] Hc.
    eapply spec_weaken with (k := (k * Nat.min (length r1) (length r2) + 0)%nat); [lia|intros a Ha; exact Ha|].
    eapply spec_bind; [apply IH|]. intros [r1' r2'] Hr. apply spec_ret. cbn [fst snd] in *. simpl. auto.
Qed.

(* partial correctness: any event stream *)
Lemma zip2M_inv (f : R -> R -> M R (R * R)) (P : R -> R -> R * R -> Prop) :
  (forall x1 x2 s c s', f x1 x2 s = Ok (c, s') -> P x1 x2 c) ->
  forall l1 l2 s c1 c2 s', zip2M f l1 l2 s = Ok ((c1, c2), s') -> locus2 P l1 l2 c1 c2.
Proof.
  intros Hf. induction l1 as [|x1 r1 IH]; intros l2 s c1 c2 s' E.
  - cbn in E. inversion E; subst. simpl; auto.
  - destruct l2 as [|x2 r2]; [cbn in E; inversion E; subst; simpl; auto|].
    cbn [zip2M] in E. unfold bind at 1 in E.
    destruct (f x1 x2 s) as [[[y1 y2] s1]| |] eqn:Ef; try discriminate.
    unfold bind at 1 in E.
    destruct (zip2M f r1 r2 s1) as [[[r1' r2'] s2]| |] eqn:Er; try discriminate.
    cbn in E. inversion E; subst. simpl. split; [eapply Hf; eauto|eapply IH; eauto].
Qed.

(* ---------------------------------------------------------------------------------------- *)
(* bounds                                                                                   *)
(* ---------------------------------------------------------------------------------------- *)
(* the list `low` / `up` stands for: repeat(x, size) or the sequence itself *)
Definition bvals (b : bnd (T:=R)) (n : nat) : list R :=
  match b with Scalar x => repeat x n | PerGene l => l end.
(* a sequence bound must be at least `size` long (otherwise IndexError) *)
Definition bnd_long (b : bnd (T:=R)) (n : nat) : Prop :=
  match b with Scalar _ => True | PerGene l => (n <= length l)%nat end.

Lemma expand_ok b n : bnd_long b n -> pure_ok (expand b n) (bvals b n).
Proof.
  destruct b as [x|l]; intros H s; [reflexivity|]. cbn [expand bnd_long bvals] in *.
  destruct (Nat.ltb_spec (length l) n); [lia|reflexivity].
Qed.

Lemma bvals_length b n : bnd_long b n -> (n <= length (bvals b n))%nat.
Proof. destruct b; cbn; [rewrite repeat_length; lia|auto]. Qed.

(* gene i lies within [lows_i, ups_i] wherever all three exist *)
Fixpoint inbl (lows ups l : list R) : Prop :=
  match lows, ups, l with
  | xl :: lo, xu :: up, x :: r => inb xl xu x /\ inbl lo up r
  | _, _, _ => True
  end.
(* lows_i < ups_i wherever both exist *)
Fixpoint ltl (lows ups : list R) : Prop :=
  match lows, ups with
  | xl :: lo, xu :: up => xl < xu /\ ltl lo up
  | _, _ => True
  end.

Lemma inbl_nth lows ups l : inbl lows ups l ->
  forall i, (i < length lows)%nat -> (i < length ups)%nat -> (i < length l)%nat ->
  inb (nth i lows 0) (nth i ups 0) (nth i l 0).
Proof.
  revert ups l; induction lows as [|xl lo IH]; intros ups l H i H1 H2 H3; [simpl in H1; lia|].
  destruct ups as [|xu up]; [simpl in H2; lia|]. destruct l as [|x r]; [simpl in H3; lia|].
  destruct H as [H0 H]. destruct i; [exact H0|]. simpl in *. apply IH; auto; lia.
Qed.

(* post-condition of the bounded two-parent loop *)
Fixpoint post2b (lows ups l1 l2 c1 c2 : list R) : Prop :=
  match lows, ups, l1, l2 with
  | xl :: lo, xu :: up, _ :: r1, _ :: r2 =>
      match c1, c2 with
      | y1 :: r1', y2 :: r2' => inb xl xu y1 /\ inb xl xu y2 /\ post2b lo up r1 r2 r1' r2'
      | _, _ => False
      end
  | _, _, _, _ => c1 = l1 /\ c2 = l2
  end.

Lemma zip2bM_sbxb eta lows : forall ups l1 l2, 0 <= eta -> inbl lows ups l1 -> inbl lows ups l2 ->
  spec (3 * length lows) (zip2bM (sbxb_gene O eta) lows ups l1 l2)
       (fun c => post2b lows ups l1 l2 (fst c) (snd c)).
Proof.
  induction lows as [|xl lo IH]; intros ups l1 l2 He H1 H2.
  - apply spec_ret_any. simpl; auto.
  - destruct ups as [|xu up]; [apply spec_ret_any; simpl; auto|].
    destruct l1 as [|a r1]; [apply spec_ret_any; simpl; auto|].
    destruct l2 as [|b r2]; [apply spec_ret_any; simpl; auto|].
    destruct H1 as [Ha H1]. destruct H2 as [Hb H2].
    cbn [zip2bM length]. rewrite Nat.mul_succ_r, Nat.add_comm.
    eapply spec_bind; [apply (sbxb_gene_spec eta xl xu a b He Ha Hb)|]. intros [c1 c2] [Hc1 Hc2].
    eapply spec_weaken with (k := (3 * length lo + 0)%nat); [lia|intros x Hx; exact Hx|].
    eapply spec_bind; [apply (IH up r1 r2 He H1 H2)|]. intros [r1' r2'] Hr. apply spec_ret.
    cbn [fst snd] in *. simpl. auto.
Qed.

Lemma post2b_length lows : forall ups l1 l2 c1 c2, post2b lows ups l1 l2 c1 c2 ->
  length c1 = length l1 /\ length c2 = length l2.
Proof.
  induction lows as [|xl lo IH]; intros ups l1 l2 c1 c2 H; [destruct H; subst; auto|].
  destruct ups as [|xu up]; [destruct H; subst; auto|].
  destruct l1 as [|a r1]; [destruct H; subst; auto|].
  destruct l2 as [|b r2]; [destruct H; subst; auto|].
  destruct c1 as [|y1 r1']; [contradiction|]. destruct c2 as [|y2 r2']; [contradiction|].
  destruct H as (_ & _ & H). destruct (IH _ _ _ _ _ H). simpl; split; congruence.
Qed.

(* children in bounds wherever the parents were; everything past the loop untouched *)
Lemma post2b_inbl lows : forall ups l1 l2 c1 c2, post2b lows ups l1 l2 c1 c2 ->
  inbl lows ups l1 -> inbl lows ups l2 -> inbl lows ups c1 /\ inbl lows ups c2.
Proof.
  induction lows as [|xl lo IH]; intros ups l1 l2 c1 c2 H H1 H2; [simpl; auto|].
  destruct ups as [|xu up]; [simpl; auto|].
  destruct l1 as [|a r1]; [destruct H; subst; simpl; auto|].
  destruct l2 as [|b r2]; [destruct H; subst; simpl; auto|].
  destruct c1 as [|y1 r1']; [contradiction|]. destruct c2 as [|y2 r2']; [contradiction|].
  destruct H as (Ha & Hb & H). destruct H1 as [_ H1]. destruct H2 as [_ H2].
  destruct (IH _ _ _ _ _ H H1 H2). simpl; auto.
Qed.

Lemma post2b_rest lows : forall ups l1 l2 c1 c2, post2b lows ups l1 l2 c1 c2 ->
  forall i, (Nat.min (Nat.min (length lows) (length ups)) (Nat.min (length l1) (length l2)) <= i)%nat ->
  nth i c1 0 = nth i l1 0 /\ nth i c2 0 = nth i l2 0.
Proof.
  induction lows as [|xl lo IH]; intros ups l1 l2 c1 c2 H i Hi; [destruct H; subst; auto|].
  destruct ups as [|xu up]; [destruct H; subst; auto|].
  destruct l1 as [|a r1]; [destruct H; subst; auto|].
  destruct l2 as [|b r2]; [destruct H; subst; auto|].
  destruct c1 as [|y1 r1']; [contradiction|]. destruct c2 as [|y2 r2']; [contradiction|].
  destruct H as (_ & _ & H). destruct i as [|i]; [simpl in Hi; lia|]. simpl in Hi. simpl.
  apply (IH _ _ _ _ _ H). lia.
Qed.

(* the operator *)
Definition sbxb_bounds (low up : bnd (T:=R)) (size : nat) : list R * list R :=
  (firstn size (bvals low size), firstn size (bvals up size)).

Lemma cx_sbx_bounded_spec eta low up ind1 ind2 :
  let size := Nat.min (length ind1) (length ind2) in
  let lows := fst (sbxb_bounds low up size) in
  let ups := snd (sbxb_bounds low up size) in
  0 <= eta -> bnd_long low size -> bnd_long up size ->
  inbl lows ups ind1 -> inbl lows ups ind2 ->
  spec (3 * size) (cx_sbx_bounded O eta low up ind1 ind2)
    (fun c => length (fst c) = length ind1 /\ length (snd c) = length ind2 /\
              inbl lows ups (fst c) /\ inbl lows ups (snd c) /\
              forall i, (size <= i)%nat -> nth i (fst c) 0 = nth i ind1 0 /\ nth i (snd c) 0 = nth i ind2 0).
Proof.
  intros size lows ups He Hl Hu H1 H2. unfold cx_sbx_bounded. fold size.
  eapply spec_pure_bind; [apply expand_ok; exact Hl|].
  eapply spec_pure_bind; [apply expand_ok; exact Hu|].
  assert (Ll : length lows = size).
  { unfold lows, sbxb_bounds; cbn [fst]. rewrite firstn_length. pose proof (bvals_length low size Hl). lia. }
  assert (Lu : length ups = size).
  { unfold ups, sbxb_bounds; cbn [snd]. rewrite firstn_length. pose proof (bvals_length up size Hu). lia. }
  eapply spec_weaken; [| |apply (zip2bM_sbxb eta lows ups ind1 ind2 He H1 H2)]; [rewrite Ll; lia|].
  intros [c1 c2] Hp. cbn [fst snd] in *.
  destruct (post2b_length _ _ _ _ _ _ Hp) as [L1 L2].
  destruct (post2b_inbl _ _ _ _ _ _ Hp H1 H2) as [B1 B2].
  repeat split; auto; apply (post2b_rest _ _ _ _ _ _ Hp); rewrite Ll, Lu; fold size; lia.
Qed.


(* ---------------------------------------------------------------------------------------- *)
(* mutPolynomialBounded: the operator                                                       *)
(* ---------------------------------------------------------------------------------------- *)
(* lows_i < ups_i wherever a gene exists *)
Fixpoint ltl3 (lows ups l : list R) : Prop :=
  match lows, ups, l with
  | xl :: lo, xu :: up, _ :: r => xl < xu /\ ltl3 lo up r
  | _, _, _ => True
  end.

Fixpoint post1b (lows ups l c : list R) : Prop :=
  match lows, ups, l with
  | xl :: lo, xu :: up, _ :: r =>
      match c with y :: r' => inb xl xu y /\ post1b lo up r r' | [] => False end
  | _, _, _ => c = l
  end.

Lemma map2bM_poly eta indpb lows : forall ups l, 0 <= eta -> ltl3 lows ups l -> inbl lows ups l ->
  spec (2 * length l) (map2bM (poly_gene O eta indpb) lows ups l) (fun c => post1b lows ups l c).
Proof.
  induction lows as [|xl lo IH]; intros ups l He Hlt Hin.
  - apply spec_ret_any. reflexivity.
  - destruct ups as [|xu up]; [apply spec_ret_any; reflexivity|].
    destruct l as [|x r]; [apply spec_ret_any; reflexivity|].
    destruct Hlt as [Hlt0 Hlt]. destruct Hin as [Hin0 Hin].
    cbn [map2bM length]. rewrite Nat.mul_succ_r, Nat.add_comm.
    eapply spec_bind; [apply (poly_gene_spec eta indpb xl xu x He Hlt0 Hin0)|]. intros y Hy.
    eapply spec_weaken with (k := (2 * length r + 0)%nat); [lia|intros a Ha; exact Ha|].
    eapply spec_bind; [apply (IH up r He Hlt Hin)|]. intros r' Hr. apply spec_ret. simpl. auto.
Qed.

Lemma post1b_length lows : forall ups l c, post1b lows ups l c -> length c = length l.
Proof.
  induction lows as [|xl lo IH]; intros ups l c H; [simpl in H; subst; auto|].
  destruct ups as [|xu up]; [simpl in H; subst; auto|].
  destruct l as [|x r]; [simpl in H; subst; auto|].
  destruct c as [|y r']; [contradiction|]. destruct H as [_ H]. simpl. f_equal. eapply IH; eauto.
Qed.

Lemma post1b_inbl lows : forall ups l c, post1b lows ups l c -> inbl lows ups c.
Proof.
  induction lows as [|xl lo IH]; intros ups l c H; [simpl; auto|].
  destruct ups as [|xu up]; [simpl; auto|].
  destruct l as [|x r]; [simpl in H; subst; simpl; auto|].
  destruct c as [|y r']; [contradiction|]. destruct H as [H0 H]. simpl. split; [exact H0|eapply IH; eauto].
Qed.

Lemma mut_poly_spec eta low up indpb ind :
  let size := length ind in
  let lows := bvals low size in
  let ups := bvals up size in
  0 <= eta -> bnd_long low size -> bnd_long up size ->
  ltl3 lows ups ind -> inbl lows ups ind ->
  spec (2 * size) (mut_poly O eta low up indpb ind)
       (fun c => length c = length ind /\ inbl lows ups c).
Proof.
  intros size lows ups He Hl Hu Hlt Hin. unfold mut_poly. fold size.
  eapply spec_pure_bind; [apply expand_ok; exact Hl|].
  eapply spec_pure_bind; [apply expand_ok; exact Hu|].
  eapply spec_weaken; [| |apply (map2bM_poly eta indpb lows ups ind He Hlt Hin)]; [fold size; lia|].
  intros c Hp. split; [eapply post1b_length; eauto|eapply post1b_inbl; eauto].
Qed.

(* every gene of the mutant is within its bounds: index form *)
Lemma inbl_all lows ups l : (length l <= length lows)%nat -> (length l <= length ups)%nat ->
  inbl lows ups l -> forall i, (i < length l)%nat -> inb (nth i lows 0) (nth i ups 0) (nth i l 0).
Proof. intros H1 H2 H i Hi. apply inbl_nth; auto; lia. Qed.

(* ---------------------------------------------------------------------------------------- *)
(* mutGaussian                                                                              *)
(* ---------------------------------------------------------------------------------------- *)
Lemma expand_inv b n s l s' : expand (T:=R) b n s = Ok (l, s') -> s' = s.
Proof.
  destruct b as [x|l0]; cbn [expand]; [intros E; inversion E; auto|].
  destruct (Nat.ltb (length l0) n); [discriminate|intros E; inversion E; auto].
Qed.

Lemma map2bM_length (f : R -> R -> R -> M R R) ms : forall ss l s c s',
  map2bM f ms ss l s = Ok (c, s') -> length c = length l.
Proof.
  induction ms as [|m ms' IH]; intros ss l s c s' E; [cbn in E; inversion E; auto|].
  destruct ss as [|sg ss']; [cbn in E; inversion E; auto|].
  destruct l as [|x r]; [cbn in E; inversion E; auto|].
  cbn [map2bM] in E. unfold bind at 1 in E.
  destruct (f m sg x s) as [[y s1]| |]; try discriminate.
  unfold bind at 1 in E. destruct (map2bM f ms' ss' r s1) as [[r' s2]| |] eqn:Er; try discriminate.
  cbn in E. inversion E; subst. simpl. f_equal. eapply IH; eauto.
Qed.

Lemma draws_ok_tail e s : draws_ok (e :: s) -> draws_ok s.
Proof. intro H; inversion H; auto. Qed.

(* a loop whose body leaves each gene alone leaves the list alone *)
Lemma map2bM_id (f : R -> R -> R -> M R R) :
  (forall m sg x s y s', draws_ok s -> f m sg x s = Ok (y, s') -> y = x /\ draws_ok s') ->
  forall ms ss l s c s', draws_ok s -> map2bM f ms ss l s = Ok (c, s') -> c = l /\ draws_ok s'.
Proof.
  intros Hf. induction ms as [|m ms' IH]; intros ss l s c s' Hs E; [cbn in E; inversion E; subst; auto|].
  destruct ss as [|sg ss']; [cbn in E; inversion E; subst; auto|].
  destruct l as [|x r]; [cbn in E; inversion E; subst; auto|].
  cbn [map2bM] in E. unfold bind at 1 in E.
  destruct (f m sg x s) as [[y s1]| |] eqn:Ef; try discriminate.
  destruct (Hf _ _ _ _ _ _ Hs Ef) as [-> Hs1].
  unfold bind at 1 in E. destruct (map2bM f ms' ss' r s1) as [[r' s2]| |] eqn:Er; try discriminate.
  cbn in E. inversion E; subst. destruct (IH _ _ _ _ _ Hs1 Er) as [-> Hs2]. auto.
Qed.

Lemma gauss_gene_indpb0 m sg x s y s' :
  draws_ok s -> gauss_gene O 0 m sg x s = Ok (y, s') -> y = x /\ draws_ok s'.
Proof.
  intros Hs. unfold gauss_gene, bind, draw_random. destruct s as [|[u| | |] s]; try discriminate.
  rsimp. inversion Hs as [|? ? Hu Hs0]; subst. destruct Hu as [Hu0 _].
  assert (E : Rltb u 0 = false) by (apply Rltb_false; exact Hu0). rewrite E.
  cbn. intros H; inversion H; subst. auto.
Qed.

Lemma mut_gaussian_length mu sigma indpb ind s c s' :
  mut_gaussian O mu sigma indpb ind s = Ok (c, s') -> length c = length ind.
Proof.
  unfold mut_gaussian, bind. destruct (expand mu (length ind) s) as [[ms s1]| |]; try discriminate.
  destruct (expand sigma (length ind) s1) as [[ss s2]| |]; try discriminate.
  apply map2bM_length.
Qed.

Lemma mut_gaussian_indpb0 mu sigma ind s c s' : draws_ok s ->
  mut_gaussian O mu sigma 0 ind s = Ok (c, s') -> c = ind.
Proof.
  intros Hs. unfold mut_gaussian, bind.
  destruct (expand mu (length ind) s) as [[ms s1]| |] eqn:E1; try discriminate.
  apply expand_inv in E1; subst s1.
  destruct (expand sigma (length ind) s) as [[ss s2]| |] eqn:E2; try discriminate.
  apply expand_inv in E2; subst s2.
  intros E. eapply map2bM_id in E; [tauto| |exact Hs].
  intros; eapply gauss_gene_indpb0; eauto.
Qed.

(* with indpb = 0 and one draw per gene the operator returns normally, unchanged *)
Lemma gauss_gene_indpb0_spec m sg x : spec 1 (gauss_gene O 0 m sg x) (fun y => y = x).
Proof.
  unfold gauss_gene. apply spec_draw_bind. intros u [Hu0 _]. rsimp.
  assert (E : Rltb u 0 = false) by (apply Rltb_false; exact Hu0). rewrite E. now apply spec_ret.
Qed.

Lemma map2bM_spec_id (f : R -> R -> R -> M R R) :
  (forall m sg x, spec 1 (f m sg x) (fun y => y = x)) ->
  forall ms ss l, spec (length l) (map2bM f ms ss l) (fun c => c = l).
Proof.
  intros Hf. induction ms as [|m ms' IH]; intros ss l; [now apply spec_ret_any|].
  destruct ss as [|sg ss']; [now apply spec_ret_any|]. destruct l as [|x r]; [now apply spec_ret_any|].
  cbn [map2bM length]. change (S (length r)) with (1 + length r)%nat.
  eapply spec_bind; [apply Hf|]. intros y ->.
  eapply spec_weaken with (k := (length r + 0)%nat); [lia|intros a Ha; exact Ha|].
  eapply spec_bind; [apply IH|]. intros r' ->. now apply spec_ret.
Qed.

Lemma mut_gaussian_indpb0_spec mu sigma ind :
  bnd_long mu (length ind) -> bnd_long sigma (length ind) ->
  spec (length ind) (mut_gaussian O mu sigma 0 ind) (fun c => c = ind).
Proof.
  intros Hm Hs. unfold mut_gaussian.
  eapply spec_pure_bind; [apply expand_ok; exact Hm|].
  eapply spec_pure_bind; [apply expand_ok; exact Hs|].
  apply map2bM_spec_id. intros; apply gauss_gene_indpb0_spec.
Qed.

(* ---------------------------------------------------------------------------------------- *)
(* mutESLogNormal                                                                           *)
(* ---------------------------------------------------------------------------------------- *)
(* strategy i is multiplied by a strictly positive factor (an exponential) or left alone *)
Definition scaled (a b : R) : Prop := exists k, 0 < k /\ b = a * k.

Lemma eslog_loop_inv t t0n indpb g : forall st s g' st' s',
  eslog_loop O t t0n indpb g st s = Ok ((g', st'), s') ->
  length g' = length g /\ Forall2 scaled st st'.
Proof.
  induction g as [|x g IH]; intros st s g' st' s' E.
  - cbn in E. inversion E; subst. split; [reflexivity|].
    clear. induction st'; constructor; auto. exists 1. split; lra.
  - cbn [eslog_loop] in E. unfold bind at 1, draw_random at 1 in E.
    destruct s as [|[u| | |] s]; try discriminate. rsimp.
    destruct (Rltb u indpb).
    + destruct st as [|sg st]; [discriminate|].
      unfold bind at 1, draw_gauss at 1 in E. destruct s as [|[|m0 s0 n1| |] s]; try discriminate.
      destruct (o_same R O m0 0 && o_same R O s0 1); try discriminate.
      unfold bind at 1, ret at 1 in E.
      unfold bind at 1, draw_gauss at 1 in E. destruct s as [|[|m1 s1 n2| |] s]; try discriminate.
      destruct (o_same R O m1 0 && o_same R O s1 1); try discriminate.
      unfold bind at 1 in E.
      destruct (eslog_loop O t t0n indpb g st s) as [[[gr sr] s2]| |] eqn:Er; try discriminate.
      cbn in E. inversion E; subst. destruct (IH _ _ _ _ _ Er) as [L F].
      split; [simpl; congruence|]. constructor; [|exact F].
      exists (exp (t0n + t * n1)). split; [apply exp_pos|reflexivity].
    + destruct st as [|sg st].
      * unfold bind at 1 in E.
        destruct (eslog_loop O t t0n indpb g [] s) as [[[gr sr] s2]| |] eqn:Er; try discriminate.
        cbn in E. inversion E; subst. destruct (IH _ _ _ _ _ Er) as [L F].
        split; [simpl; congruence|exact F].
      * unfold bind at 1 in E.
        destruct (eslog_loop O t t0n indpb g st s) as [[[gr sr] s2]| |] eqn:Er; try discriminate.
        cbn in E. inversion E; subst. destruct (IH _ _ _ _ _ Er) as [L F].
        split; [simpl; congruence|]. constructor; [|exact F]. exists 1. split; lra.
Qed.

Lemma eslog_loop_indpb0 t t0n g : forall st s g' st' s', draws_ok s ->
  eslog_loop O t t0n 0 g st s = Ok ((g', st'), s') -> g' = g /\ st' = st.
Proof.
  induction g as [|x g IH]; intros st s g' st' s' Hs E.
  - cbn in E. inversion E; subst. auto.
  - cbn [eslog_loop] in E. unfold bind at 1, draw_random at 1 in E.
    destruct s as [|[u| | |] s]; try discriminate. rsimp.
    inversion Hs as [|? ? Hu Hs0]; subst. destruct Hu as [Hu0 _].
    assert (Eu : Rltb u 0 = false) by (apply Rltb_false; exact Hu0). rewrite Eu in E.
    destruct st as [|sg st]; unfold bind at 1 in E.
    + destruct (eslog_loop O t t0n 0 g [] s) as [[[gr sr] s2]| |] eqn:Er; try discriminate.
      cbn in E. inversion E; subst. destruct (IH _ _ _ _ _ Hs0 Er) as [-> ->]. auto.
    + destruct (eslog_loop O t t0n 0 g st s) as [[[gr sr] s2]| |] eqn:Er; try discriminate.
      cbn in E. inversion E; subst. destruct (IH _ _ _ _ _ Hs0 Er) as [-> ->]. auto.
Qed.

Lemma Forall2_scaled_length st st' : Forall2 scaled st st' -> length st' = length st.
Proof. induction 1; simpl; congruence. Qed.

Lemma Forall2_scaled_pos st st' : Forall2 scaled st st' ->
  forall i, 0 < nth i st 0 -> 0 < nth i st' 0.
Proof.
  induction 1 as [|a b l l' [k [Hk ->]] _ IH]; intros i Hi; [destruct i; simpl in *; lra|].
  destruct i; simpl in *; [now apply Rmult_lt_0_compat|now apply IH].
Qed.

Lemma mut_es_lognormal_inv c indpb g st s g' st' s' :
  mut_es_lognormal O c indpb g st s = Ok ((g', st'), s') ->
  length g' = length g /\ length st' = length st /\ Forall2 scaled st st'.
Proof.
  unfold mut_es_lognormal. rsimp. unfold bind at 1.
  destruct (lift _ s) as [[t s1]| |]; try discriminate.
  unfold bind at 1. destruct (lift _ s1) as [[t0 s2]| |]; try discriminate.
  unfold bind at 1. destruct (draw_gauss O 0 1 s2) as [[n s3]| |]; try discriminate.
  intros E. destruct (eslog_loop_inv _ _ _ _ _ _ _ _ _ E) as [L F].
  split; [exact L|]. split; [now apply Forall2_scaled_length|exact F].
Qed.

Lemma draw_gauss_inv mu sg s r s' : draw_gauss O mu sg s = Ok (r, s') -> exists e, s = e :: s'.
Proof.
  unfold draw_gauss. destruct s as [|[|m0 s0 n| |] s]; try discriminate.
  destruct (_ && _); try discriminate. intros E; inversion E; subst. eauto.
Qed.

Lemma lift_inv {A} (r : res A) s a s' : lift (T:=R) r s = Ok (a, s') -> s' = s.
Proof. unfold lift. destruct r; try discriminate. intros E; inversion E; auto. Qed.

Lemma mut_es_lognormal_indpb0 c g st s g' st' s' : draws_ok s ->
  mut_es_lognormal O c 0 g st s = Ok ((g', st'), s') -> g' = g /\ st' = st.
Proof.
  intros Hs. unfold mut_es_lognormal. rsimp. unfold bind at 1.
  destruct (lift _ s) as [[t s1]| |] eqn:E1; try discriminate. apply lift_inv in E1; subst s1.
  unfold bind at 1. destruct (lift _ s) as [[t0 s2]| |] eqn:E2; try discriminate. apply lift_inv in E2; subst s2.
  unfold bind at 1. destruct (draw_gauss O 0 1 s) as [[n s3]| |] eqn:E3; try discriminate.
  apply draw_gauss_inv in E3. destruct E3 as [e ->]. apply draws_ok_tail in Hs.
  intros E. eapply eslog_loop_indpb0; eauto.
Qed.

(* ---------------------------------------------------------------------------------------- *)
(* cxESBlend                                                                                *)
(* ---------------------------------------------------------------------------------------- *)
(* at every locus below the shortest of the four lists P holds for the genes and for the
   strategies; past it nothing changes *)
Fixpoint locus4 (P : R -> R -> R * R -> Prop) (g1 s1 g2 s2 a b c d : list R) : Prop :=
  match g1, s1, g2, s2 with
  | x1 :: g1', t1 :: s1', x2 :: g2', t2 :: s2' =>
      match a, b, c, d with
      | y1 :: a', u1 :: b', y2 :: c', u2 :: d' =>
          P x1 x2 (y1, y2) /\ P t1 t2 (u1, u2) /\ locus4 P g1' s1' g2' s2' a' b' c' d'
      | _, _, _, _ => False
      end
  | _, _, _, _ => a = g1 /\ b = s1 /\ c = g2 /\ d = s2
  end.

Lemma cx_es_blend_inv alpha : forall g1 s1 g2 s2 s a b c d s',
  cx_es_blend O alpha g1 s1 g2 s2 s = Ok ((a, b, c, d), s') ->
  locus4 (fun x1 x2 c => fst c + snd c = x1 + x2) g1 s1 g2 s2 a b c d.
Proof.
  induction g1 as [|x1 g1 IH]; intros s1 g2 s2 s a b c d s' E; [cbn in E; inversion E; subst; simpl; auto|].
  destruct s1 as [|t1 s1]; [cbn in E; inversion E; subst; simpl; auto|].
  destruct g2 as [|x2 g2]; [cbn in E; inversion E; subst; simpl; auto|].
  destruct s2 as [|t2 s2]; [cbn in E; inversion E; subst; simpl; auto|].
  cbn [cx_es_blend] in E. unfold bind at 1 in E.
  destruct (blend_gene O alpha x1 x2 s) as [[[y1 y2] sa]| |] eqn:E1; try discriminate.
  unfold bind at 1 in E.
  destruct (blend_gene O alpha t1 t2 sa) as [[[u1 u2] sb]| |] eqn:E2; try discriminate.
  unfold bind at 1 in E.
  destruct (cx_es_blend O alpha g1 s1 g2 s2 sb) as [[[[[a' b'] c'] d'] sc]| |] eqn:E3; try discriminate.
  cbn in E. inversion E; subst. simpl.
  split; [eapply blend_gene_sum; eauto|]. split; [eapply blend_gene_sum; eauto|]. eapply IH; eauto.
Qed.

Lemma cx_es_blend_spec alpha : 0 <= alpha -> forall g1 s1 g2 s2,
  spec (2 * length g1) (cx_es_blend O alpha g1 s1 g2 s2)
       (fun r => let '(a, b, c, d) := r in locus4 (blend_post alpha) g1 s1 g2 s2 a b c d).
Proof.
  intros Ha. induction g1 as [|x1 g1 IH]; intros s1 g2 s2; [apply spec_ret_any; simpl; auto|].
  destruct s1 as [|t1 s1]; [apply spec_ret_any; simpl; auto|].
  destruct g2 as [|x2 g2]; [apply spec_ret_any; simpl; auto|].
  destruct s2 as [|t2 s2]; [apply spec_ret_any; simpl; auto|].
  cbn [cx_es_blend length].
  replace (2 * S (length g1))%nat with (1 + (1 + (2 * length g1 + 0)))%nat by lia.
  eapply spec_bind; [apply (blend_gene_spec alpha x1 x2 Ha)|]. intros [y1 y2] H1.
  eapply spec_bind; [apply (blend_gene_spec alpha t1 t2 Ha)|]. intros [u1 u2] H2.
  eapply spec_bind; [apply IH|]. intros [[[a b] c] d] H3. apply spec_ret. simpl. auto.
Qed.

(* ---------------------------------------------------------------------------------------- *)
(* object level: the operators return the individuals (and strategy lists) they were given  *)
(* ---------------------------------------------------------------------------------------- *)
Definition same_obj (i o : indiv (T:=R)) : Prop := iuid o = iuid i /\ suid o = suid i.

Lemma bind_inv {A B} (m : M R A) (f : A -> M R B) s b s' :
  bind m f s = Ok (b, s') -> exists a s1, m s = Ok (a, s1) /\ f a s1 = Ok (b, s').
Proof. unfold bind. destruct (m s) as [[a s1]| |]; try discriminate. eauto. Qed.

Lemma op_blend_same alpha i1 i2 s o1 o2 s' :
  op_blend O alpha i1 i2 s = Ok ((o1, o2), s') ->
  same_obj i1 o1 /\ same_obj i2 o2 /\ strat o1 = strat i1 /\ strat o2 = strat i2.
Proof.
  unfold op_blend. intros E. apply bind_inv in E. destruct E as ([g1 g2] & s1 & _ & E).
  cbn in E. inversion E; subst. unfold same_obj; cbn. auto.
Qed.
Lemma op_sbx_same eta i1 i2 s o1 o2 s' :
  op_sbx O eta i1 i2 s = Ok ((o1, o2), s') ->
  same_obj i1 o1 /\ same_obj i2 o2 /\ strat o1 = strat i1 /\ strat o2 = strat i2.
Proof.
  unfold op_sbx. intros E. apply bind_inv in E. destruct E as ([g1 g2] & s1 & _ & E).
  cbn in E. inversion E; subst. unfold same_obj; cbn. auto.
Qed.
Lemma op_sbx_bounded_same eta low up i1 i2 s o1 o2 s' :
  op_sbx_bounded O eta low up i1 i2 s = Ok ((o1, o2), s') ->
  same_obj i1 o1 /\ same_obj i2 o2 /\ strat o1 = strat i1 /\ strat o2 = strat i2.
Proof.
  unfold op_sbx_bounded. intros E. apply bind_inv in E. destruct E as ([g1 g2] & s1 & _ & E).
  cbn in E. inversion E; subst. unfold same_obj; cbn. auto.
Qed.
Lemma op_es_blend_same alpha i1 i2 s o1 o2 s' :
  op_es_blend O alpha i1 i2 s = Ok ((o1, o2), s') -> same_obj i1 o1 /\ same_obj i2 o2.
Proof.
  unfold op_es_blend. intros E. apply bind_inv in E. destruct E as ([[[g1 t1] g2] t2] & s1 & _ & E).
  cbn in E. inversion E; subst. unfold same_obj; cbn. auto.
Qed.
Lemma op_gaussian_same mu sigma indpb i s o s' :
  op_gaussian O mu sigma indpb i s = Ok (o, s') -> same_obj i o /\ strat o = strat i.
Proof.
  unfold op_gaussian. intros E. apply bind_inv in E. destruct E as (g & s1 & _ & E).
  cbn in E. inversion E; subst. unfold same_obj; cbn. auto.
Qed.
Lemma op_poly_same eta low up indpb i s o s' :
  op_poly O eta low up indpb i s = Ok (o, s') -> same_obj i o /\ strat o = strat i.
Proof.
  unfold op_poly. intros E. apply bind_inv in E. destruct E as (g & s1 & _ & E).
  cbn in E. inversion E; subst. unfold same_obj; cbn. auto.
Qed.
Lemma op_es_lognormal_same c indpb i s o s' :
  op_es_lognormal O c indpb i s = Ok (o, s') -> same_obj i o.
Proof.
  unfold op_es_lognormal. intros E. apply bind_inv in E. destruct E as ([g t] & s1 & _ & E).
  cbn in E. inversion E; subst. unfold same_obj; cbn. auto.
Qed.


(* ---------------------------------------------------------------------------------------- *)
(* operator-level statements in index form                                                  *)
(* ---------------------------------------------------------------------------------------- *)
Definition sum_kept (l1 l2 c1 c2 : list R) : Prop :=
  length c1 = length l1 /\ length c2 = length l2 /\
  forall i, nth i c1 0 + nth i c2 0 = nth i l1 0 + nth i l2 0.

Lemma locus2_sum_kept l1 l2 c1 c2 :
  locus2 (fun x1 x2 c => fst c + snd c = x1 + x2) l1 l2 c1 c2 -> sum_kept l1 l2 c1 c2.
Proof.
  intros H. destruct (locus2_length _ _ _ _ _ H) as [L1 L2]. split; [exact L1|]. split; [exact L2|].
  intros i. destruct (Nat.lt_ge_cases i (Nat.min (length l1) (length l2))) as [Hi|Hi].
  - apply (locus2_nth _ _ _ _ _ H i Hi).
  - destruct (locus2_rest _ _ _ _ _ H i Hi) as [-> ->]. reflexivity.
Qed.

Lemma cx_blend_sum alpha l1 l2 s c1 c2 s' :
  cx_blend O alpha l1 l2 s = Ok ((c1, c2), s') -> sum_kept l1 l2 c1 c2.
Proof.
  intros E. apply locus2_sum_kept. eapply zip2M_inv; [|exact E].
  intros x1 x2 s0 [y1 y2] s1 E0. cbn. eapply blend_gene_sum; eauto.
Qed.

Lemma cx_sbx_sum eta l1 l2 s c1 c2 s' :
  cx_sbx O eta l1 l2 s = Ok ((c1, c2), s') -> sum_kept l1 l2 c1 c2.
Proof.
  intros E. apply locus2_sum_kept. eapply zip2M_inv; [|exact E].
  intros x1 x2 s0 [y1 y2] s1 E0. cbn. eapply sbx_gene_sum; eauto.
Qed.

(* children inside the parental interval widened by alpha * width, sums kept, tails untouched *)
Definition blend_ok (alpha : R) (l1 l2 c1 c2 : list R) : Prop :=
  sum_kept l1 l2 c1 c2 /\
  (forall i, (i < Nat.min (length l1) (length l2))%nat ->
     let lo := Rmin (nth i l1 0) (nth i l2 0) in
     let hi := Rmax (nth i l1 0) (nth i l2 0) in
     lo - alpha * (hi - lo) <= nth i c1 0 <= hi + alpha * (hi - lo) /\
     lo - alpha * (hi - lo) <= nth i c2 0 <= hi + alpha * (hi - lo)) /\
  (forall i, (Nat.min (length l1) (length l2) <= i)%nat ->
     nth i c1 0 = nth i l1 0 /\ nth i c2 0 = nth i l2 0).

Lemma locus2_blend_ok alpha l1 l2 c1 c2 : locus2 (blend_post alpha) l1 l2 c1 c2 -> blend_ok alpha l1 l2 c1 c2.
Proof.
  intros H. split; [|split].
  - apply locus2_sum_kept. revert H. clear. revert l2 c1 c2.
    induction l1 as [|x1 r1 IH]; intros l2 c1 c2 H; [exact H|].
    destruct l2 as [|x2 r2]; [exact H|].
    destruct c1 as [|y1 r1']; [contradiction|]. destruct c2 as [|y2 r2']; [contradiction|].
    destruct H as [[H0 _] H]. split; [exact H0|apply IH; exact H].
  - intros i Hi. pose proof (locus2_nth _ _ _ _ _ H i Hi) as (_ & A & B). cbn [fst snd] in *. split; assumption.
  - apply (locus2_rest _ _ _ _ _ H).
Qed.

Lemma cx_blend_spec alpha l1 l2 : 0 <= alpha ->
  spec (Nat.min (length l1) (length l2)) (cx_blend O alpha l1 l2)
       (fun c => blend_ok alpha l1 l2 (fst c) (snd c)).
Proof.
  intros Ha. unfold cx_blend.
  eapply spec_weaken; [| |apply (zip2M_spec 1 _ (blend_post alpha))].
  - lia.
  - intros c Hc. apply locus2_blend_ok. exact Hc.
  - intros x1 x2. apply blend_gene_spec; exact Ha.
Qed.

Lemma cx_sbx_spec eta l1 l2 : 0 <= eta ->
  spec (Nat.min (length l1) (length l2)) (cx_sbx O eta l1 l2)
       (fun c => sum_kept l1 l2 (fst c) (snd c)).
Proof.
  intros He. unfold cx_sbx.
  eapply spec_weaken; [| |apply (zip2M_spec 1 _ (fun x1 x2 c => fst c + snd c = x1 + x2))].
  - lia.
  - intros c Hc. apply locus2_sum_kept. exact Hc.
  - intros x1 x2. apply sbx_gene_spec; exact He.
Qed.

(* what [spec] says, spelled out *)
Lemma spec_elim {A} k (m : M R A) (Q : A -> Prop) : spec k m Q ->
  forall us, Forall in01 us -> (k <= length us)%nat ->
  exists a us', m (rs us) = Ok (a, rs us') /\ Q a /\ Forall in01 us' /\
                (length us' <= length us <= length us' + k)%nat.
Proof.
  intros H us Hus Hlen. destruct (H us Hus Hlen) as (a & pre & us' & E & Hp & Hm & Ha).
  exists a, us'. split; [exact Hm|]. split; [exact Ha|]. subst us.
  split; [apply Forall_app in Hus; tauto|]. rewrite app_length. lia.
Qed.


(* cxESBlend in index form *)
Definition min4 (g1 s1 g2 s2 : list R) : nat :=
  Nat.min (Nat.min (length g1) (length s1)) (Nat.min (length g2) (length s2)).

Lemma locus4_split P : forall g1 s1 g2 s2 a b c d, locus4 P g1 s1 g2 s2 a b c d ->
  (length a = length g1 /\ length b = length s1 /\ length c = length g2 /\ length d = length s2) /\
  (forall i, (i < min4 g1 s1 g2 s2)%nat ->
     P (nth i g1 0) (nth i g2 0) (nth i a 0, nth i c 0) /\ P (nth i s1 0) (nth i s2 0) (nth i b 0, nth i d 0)) /\
  (forall i, (min4 g1 s1 g2 s2 <= i)%nat ->
     nth i a 0 = nth i g1 0 /\ nth i b 0 = nth i s1 0 /\ nth i c 0 = nth i g2 0 /\ nth i d 0 = nth i s2 0).
Proof.
  unfold min4.
  induction g1 as [|x1 g1 IH]; intros s1 g2 s2 a b c d H.
  { destruct H as (-> & -> & -> & ->). split; [auto|]. split; [intros i Hi; simpl in Hi; lia|intros i _; auto]. }
  destruct s1 as [|t1 s1].
  { destruct H as (-> & -> & -> & ->). split; [auto|]. split; [intros i Hi; simpl in Hi; lia|intros i _; auto]. }
  destruct g2 as [|x2 g2].
  { destruct H as (-> & -> & -> & ->). split; [auto|]. split; [intros i Hi; simpl in Hi; lia|intros i _; auto]. }
  destruct s2 as [|t2 s2].
  { destruct H as (-> & -> & -> & ->). split; [auto|]. split; [intros i Hi; simpl in Hi; lia|intros i _; auto]. }
  destruct a as [|y1 a]; [contradiction|]. destruct b as [|u1 b]; [contradiction|].
  destruct c as [|y2 c]; [contradiction|]. destruct d as [|u2 d]; [contradiction|].
  destruct H as (H1 & H2 & H). destruct (IH _ _ _ _ _ _ _ H) as ((La & Lb & Lc & Ld) & Hlt & Hge).
  split; [simpl; repeat split; congruence|]. split.
  - intros [|i] Hi; [simpl; auto|]. simpl in Hi. simpl. apply Hlt. lia.
  - intros [|i] Hi; [simpl in Hi; lia|]. simpl in Hi. simpl. apply Hge. lia.
Qed.

Lemma cx_es_blend_sum alpha g1 s1 g2 s2 s a b c d s' :
  cx_es_blend O alpha g1 s1 g2 s2 s = Ok ((a, b, c, d), s') ->
  sum_kept g1 g2 a c /\ sum_kept s1 s2 b d.
Proof.
  intros E. apply cx_es_blend_inv in E. apply locus4_split in E.
  destruct E as ((La & Lb & Lc & Ld) & Hlt & Hge). split.
  - split; [exact La|]. split; [exact Lc|]. intros i.
    destruct (Nat.lt_ge_cases i (min4 g1 s1 g2 s2)) as [Hi|Hi];
      [destruct (Hlt i Hi) as [A _]; exact A|destruct (Hge i Hi) as (-> & _ & -> & _); reflexivity].
  - split; [exact Lb|]. split; [exact Ld|]. intros i.
    destruct (Nat.lt_ge_cases i (min4 g1 s1 g2 s2)) as [Hi|Hi];
      [destruct (Hlt i Hi) as [_ B]; exact B|destruct (Hge i Hi) as (_ & -> & _ & ->); reflexivity].
Qed.

Definition within (alpha x1 x2 c : R) : Prop :=
  Rmin x1 x2 - alpha * (Rmax x1 x2 - Rmin x1 x2) <= c <= Rmax x1 x2 + alpha * (Rmax x1 x2 - Rmin x1 x2).

Lemma cx_es_blend_spec_idx alpha g1 s1 g2 s2 : 0 <= alpha ->
  spec (2 * length g1) (cx_es_blend O alpha g1 s1 g2 s2)
    (fun r => let '(a, b, c, d) := r in
       sum_kept g1 g2 a c /\ sum_kept s1 s2 b d /\
       (forall i, (i < min4 g1 s1 g2 s2)%nat ->
          within alpha (nth i g1 0) (nth i g2 0) (nth i a 0) /\ within alpha (nth i g1 0) (nth i g2 0) (nth i c 0) /\
          within alpha (nth i s1 0) (nth i s2 0) (nth i b 0) /\ within alpha (nth i s1 0) (nth i s2 0) (nth i d 0)) /\
       (forall i, (min4 g1 s1 g2 s2 <= i)%nat ->
          nth i a 0 = nth i g1 0 /\ nth i b 0 = nth i s1 0 /\ nth i c 0 = nth i g2 0 /\ nth i d 0 = nth i s2 0)).
Proof.
  intros Ha. eapply spec_weaken; [| |apply (cx_es_blend_spec alpha Ha g1 s1 g2 s2)]; [lia|].
  intros [[[a b] c] d] H. apply locus4_split in H. destruct H as ((La & Lb & Lc & Ld) & Hlt & Hge).
  assert (S1 : sum_kept g1 g2 a c).
  { split; [exact La|]. split; [exact Lc|]. intros i.
    destruct (Nat.lt_ge_cases i (min4 g1 s1 g2 s2)) as [Hi|Hi];
      [destruct (Hlt i Hi) as [(A & _) _]; exact A|destruct (Hge i Hi) as (-> & _ & -> & _); reflexivity]. }
  assert (S2 : sum_kept s1 s2 b d).
  { split; [exact Lb|]. split; [exact Ld|]. intros i.
    destruct (Nat.lt_ge_cases i (min4 g1 s1 g2 s2)) as [Hi|Hi];
      [destruct (Hlt i Hi) as [_ (B & _)]; exact B|destruct (Hge i Hi) as (_ & -> & _ & ->); reflexivity]. }
  split; [exact S1|]. split; [exact S2|]. split; [|exact Hge].
  intros i Hi. destruct (Hlt i Hi) as [(_ & A1 & A2) (_ & B1 & B2)]. cbn [fst snd] in *.
  unfold within. repeat split; lra.
Qed.

(* ---------------------------------------------------------------------------------------- *)
(* over R the final clamp never acts: beta_q <= beta, delta_q within [-delta_1, delta_2]     *)
(* ---------------------------------------------------------------------------------------- *)
Lemma Rpower_root_le y b e : 0 < y -> 0 < b -> 0 < e -> y <= Rpower b e -> Rpower y (1 / e) <= b.
Proof.
  intros Hy Hb He H.
  assert (H1 : Rpower y (1 / e) <= Rpower (Rpower b e) (1 / e)).
  { apply Rle_Rpower_l; [left; apply Rdiv_lt_0_compat; lra|lra]. }
  rewrite Rpower_mult in H1. replace (e * (1 / e)) with 1 in H1 by (field; lra).
  rewrite Rpower_1 in H1; assumption.
Qed.

Lemma Rpower_root_ge y b e : 0 < y -> 0 < b -> 0 < e -> Rpower b e <= y -> b <= Rpower y (1 / e).
Proof.
  intros Hy Hb He H.
  assert (H1 : Rpower (Rpower b e) (1 / e) <= Rpower y (1 / e)).
  { apply Rle_Rpower_l; [left; apply Rdiv_lt_0_compat; lra|split; [apply Rpower_pos|exact H]]. }
  rewrite Rpower_mult in H1. replace (e * (1 / e)) with 1 in H1 by (field; lra).
  rewrite Rpower_1 in H1; assumption.
Qed.

(* beta_q never exceeds beta = 1 + 2*num/den *)
Lemma betaq_le_beta eta rand num den : 0 <= eta -> in01 rand -> 0 <= num -> 0 < den ->
  exists bq, pure_ok (sbxb_betaq O eta rand num den) bq /\ 0 <= bq <= 1 + 2 * num / den.
Proof.
  intros He [Hr0 Hr1] Hn Hd. unfold sbxb_betaq. rsimp.
  assert (Hq : 0 <= 2 * num / den) by (apply Rmult_le_pos; [lra|left; now apply Rinv_0_lt_compat]).
  set (beta := 1 + 2 * num / den) in *.
  assert (Hbeta : 1 <= beta) by (unfold beta; lra).
  destruct (pwR_pos beta (- (eta + 1)) ltac:(lra)) as [Ep _].
  destruct (Rpower_neg_le1 beta (- (eta + 1)) Hbeta ltac:(lra)) as [Hp0 Hp1].
  assert (HP : Rpower beta (- (eta + 1)) = / Rpower beta (eta + 1)) by apply Rpower_Ropp.
  set (p := Rpower beta (- (eta + 1))) in *.
  assert (Hex : 0 < 1 / (eta + 1)) by (apply Rdiv_lt_0_compat; lra).
  assert (Ha : 1 <= 2 - p < 2) by lra.
  destruct (Rleb rand (1 / (2 - p))) eqn:Eia.
  - apply Rleb_true in Eia.
    assert (Hra : 0 <= rand * (2 - p) <= 1).
    { split; [apply Rmult_le_pos; lra|].
      apply Rmult_le_compat_r with (r := 2 - p) in Eia; [|lra].
      replace (1 / (2 - p) * (2 - p)) with 1 in Eia by (field; lra). exact Eia. }
    destruct (pwR_unit _ _ Hra Hex) as (bq & Ebq & Hbq).
    exists bq. split; [|lra].
    eapply pure_bind; [apply pure_div; lra|]. fold beta.
    eapply pure_bind; [apply pure_pw; exact Ep|]. fold p.
    eapply pure_bind; [apply pure_div; lra|].
    assert (Eb : Rleb rand (1 / (2 - p)) = true) by (apply Rleb_true; exact Eia). rewrite Eb.
    eapply pure_bind; [apply pure_div; lra|]. apply pure_pw; exact Ebq.
  - assert (Hra : rand * (2 - p) < 2) by nra.
    assert (Hb : 0 < 1 / (2 - rand * (2 - p))) by (apply Rdiv_lt_0_compat; lra).
    destruct (pwR_pos _ (1 / (eta + 1)) Hb) as [Ebq Hbq].
    eexists. split.
    + eapply pure_bind; [apply pure_div; lra|]. fold beta.
      eapply pure_bind; [apply pure_pw; exact Ep|]. fold p.
      eapply pure_bind; [apply pure_div; lra|]. rewrite Eia.
      eapply pure_bind; [apply pure_div; lra|].
      eapply pure_bind; [apply pure_div; lra|]. apply pure_pw; exact Ebq.
    + split; [left; exact Hbq|].
      apply Rpower_root_le; [exact Hb|lra|lra|].
      (* 1/(2 - rand*alpha) <= beta^(eta+1) = 1/p  <=  p <= 2 - rand*alpha  <=  rand <= 1 *)
      assert (HPpos : 0 < Rpower beta (eta + 1)) by apply Rpower_pos.
      assert (EP : Rpower beta (eta + 1) = 1 / p).
      { rewrite HP. field. apply Rgt_not_eq. exact HPpos. }
      rewrite EP. unfold Rdiv. rewrite !Rmult_1_l.
      apply Rinv_le_contravar; [exact Hp0|]. nra.
Qed.

(* shape of the bounded-SBX children over R: either the parents unchanged, or the two unclipped values
   c1 <= midpoint <= c2, both already inside [xl, xu] — the final clamp only ever corrects rounding *)
Definition sbxb_shape (xl xu a b : R) (c : R * R) : Prop :=
  c = (a, b) \/
  exists c1 c2, (c = (c1, c2) \/ c = (c2, c1)) /\
                xl <= c1 <= (a + b) / 2 /\ (a + b) / 2 <= c2 <= xu.

Lemma sbxb_gene_shape eta xl xu a b : 0 <= eta -> inb xl xu a -> inb xl xu b ->
  spec 3 (sbxb_gene O eta xl xu a b) (sbxb_shape xl xu a b).
Proof.
  intros He Ha Hb. unfold inb in *. unfold sbxb_gene. apply spec_draw_bind. intros u1 Hu1. rsimp.
  destruct (Rleb u1 (/ 2)); [|apply spec_ret_any; left; reflexivity].
  destruct (Rltb eps (Rabs (a - b))) eqn:Eg; [|apply spec_ret_any; left; reflexivity].
  apply Rltb_true in Eg.
  assert (Hab : a <> b).
  { intro E. subst b. rewrite Rminus_diag_eq in Eg by reflexivity. rewrite Rabs_R0 in Eg. lra. }
  rewrite pymin_spec, pymax_spec.
  assert (Hx : xl <= Rmin a b /\ Rmin a b < Rmax a b /\ Rmax a b <= xu /\ Rmin a b + Rmax a b = a + b).
  { unfold Rmin, Rmax. destruct (Rle_dec a b); lra. }
  set (x1 := Rmin a b) in *. set (x2 := Rmax a b) in *.
  destruct Hx as (Hx1 & Hx12 & Hx2 & Hsum).
  apply spec_draw_bind. intros rand Hrand.
  destruct (betaq_le_beta eta rand (x1 - xl) (x2 - x1) He Hrand ltac:(lra) ltac:(lra)) as (bq1 & P1 & Hq1a & Hq1b).
  destruct (betaq_le_beta eta rand (xu - x2) (x2 - x1) He Hrand ltac:(lra) ltac:(lra)) as (bq2 & P2 & Hq2a & Hq2b).
  eapply spec_pure_bind; [exact P1|].
  eapply spec_pure_bind; [exact P2|].
  apply spec_draw_bind. intros u3 _.
  assert (Hd : 0 < x2 - x1) by lra.
  assert (K1 : bq1 * (x2 - x1) <= (x2 - x1) + 2 * (x1 - xl)).
  { apply Rmult_le_compat_r with (r := x2 - x1) in Hq1b; [|lra].
    replace ((1 + 2 * (x1 - xl) / (x2 - x1)) * (x2 - x1)) with ((x2 - x1) + 2 * (x1 - xl)) in Hq1b by (field; lra).
    exact Hq1b. }
  assert (K2 : bq2 * (x2 - x1) <= (x2 - x1) + 2 * (xu - x2)).
  { apply Rmult_le_compat_r with (r := x2 - x1) in Hq2b; [|lra].
    replace ((1 + 2 * (xu - x2) / (x2 - x1)) * (x2 - x1)) with ((x2 - x1) + 2 * (xu - x2)) in Hq2b by (field; lra).
    exact Hq2b. }
  assert (K1' : 0 <= bq1 * (x2 - x1)) by (apply Rmult_le_pos; lra).
  assert (K2' : 0 <= bq2 * (x2 - x1)) by (apply Rmult_le_pos; lra).
  set (c1 := / 2 * (x1 + x2 - bq1 * (x2 - x1))).
  set (c2 := / 2 * (x1 + x2 + bq2 * (x2 - x1))).
  assert (C1 : xl <= c1 <= (a + b) / 2) by (unfold c1; lra).
  assert (C2 : (a + b) / 2 <= c2 <= xu) by (unfold c2; lra).
  rewrite (clip_id c1 xl xu) by lra. rewrite (clip_id c2 xl xu) by lra.
  destruct (Rleb u3 (/ 2)); apply spec_ret_any; right; exists c1, c2; (split; [auto|]); split; assumption.
Qed.

(* polynomial mutation: delta_q lies in [-delta_1, delta_2], so x + delta_q*(xu-xl) is inside [xl, xu] before the clamp *)
Lemma poly_gene_shape eta indpb xl xu x : 0 <= eta -> xl < xu -> inb xl xu x ->
  spec 2 (poly_gene O eta indpb xl xu x)
       (fun y => y = x \/ exists dq, - ((x - xl) / (xu - xl)) <= dq <= (xu - x) / (xu - xl) /\
                                     y = x + dq * (xu - xl) /\ xl <= y <= xu).
Proof.
  intros He Hlu Hx. unfold inb in *. unfold poly_gene. apply spec_draw_bind. intros u _. rsimp.
  destruct (Rleb u indpb); [|apply spec_ret_any; left; reflexivity].
  assert (Hd : 0 < xu - xl) by lra.
  eapply spec_pure_bind; [apply pure_div; lra|].
  eapply spec_pure_bind; [apply pure_div; lra|].
  apply spec_draw_bind. intros rand [Hr0 Hr1].
  eapply spec_pure_bind; [apply pure_div; lra|].
  assert (Hex : 0 < 1 / (eta + 1)) by (apply Rdiv_lt_0_compat; lra).
  set (d1 := (x - xl) / (xu - xl)). set (d2 := (xu - x) / (xu - xl)).
  assert (Hd1 : 0 <= d1 <= 1).
  { unfold d1. split; [apply Rmult_le_pos; [lra|left; now apply Rinv_0_lt_compat]|].
    apply Rmult_le_reg_r with (xu - xl); [lra|]. unfold Rdiv. rewrite Rmult_assoc, Rinv_l; lra. }
  assert (Hd2 : 0 <= d2 <= 1).
  { unfold d2. split; [apply Rmult_le_pos; [lra|left; now apply Rinv_0_lt_compat]|].
    apply Rmult_le_reg_r with (xu - xl); [lra|]. unfold Rdiv. rewrite Rmult_assoc, Rinv_l; lra. }
  assert (E1 : d1 * (xu - xl) = x - xl) by (unfold d1; field; lra).
  assert (E2 : d2 * (xu - xl) = xu - x) by (unfold d2; field; lra).
  (* root of something between xy^(eta+1) and 1 lies between xy and 1 *)
  assert (Root : forall xy p val q, 0 <= xy <= 1 -> pwR xy (eta + 1) = Ok p -> p <= val <= 1 -> 0 <= val ->
                 pwR val (1 / (eta + 1)) = Ok q -> xy <= q <= 1).
  { intros xy p val q Hxy Ep Hval Hv0 Eq. unfold pwR in Ep, Eq.
    destruct (Rlt_dec 0 val) as [Hvp|Hvn].
    - inversion Eq; subst q. split; [|apply Rpower_le1; lra].
      destruct (Rlt_dec 0 xy) as [Hxp|Hxn].
      + inversion Ep; subst p. apply Rpower_root_ge; lra.
      + left. eapply Rle_lt_trans; [|apply Rpower_pos]. lra.
    - assert (val = 0) by lra. subst val.
      destruct (Req_EM_T 0 0); [|lra]. destruct (Rlt_dec 0 (1 / (eta + 1))); [|lra].
      inversion Eq; subst q.
      destruct (Rlt_dec 0 xy) as [Hxp|Hxn].
      + inversion Ep; subst p. pose proof (Rpower_pos xy (eta + 1)). lra.
      + lra. }
  destruct (Rltb rand (/ 2)) eqn:Eh.
  - apply Rltb_true in Eh.
    destruct (pwR_unit (1 - d1) (eta + 1) ltac:(lra) ltac:(lra)) as (p & Ep & Hp).
    assert (Hval : p <= 2 * rand + (1 - 2 * rand) * p <= 1) by nra.
    destruct (pwR_nonneg (2 * rand + (1 - 2 * rand) * p) _ ltac:(lra) Hex) as (q & Eq & _).
    destruct (Root (1 - d1) p _ q ltac:(lra) Ep Hval ltac:(lra) Eq) as [Hq1 Hq2].
    eapply spec_pure_bind.
    { eapply pure_bind; [apply pure_pw; exact Ep|].
      eapply pure_bind; [apply pure_pw; exact Eq|]. apply pure_ret. }
    assert (B : xl <= x + (q - 1) * (xu - xl) <= xu) by nra.
    rewrite clip_id by exact B.
    apply spec_ret_any. right. exists (q - 1). fold d1 d2. repeat split; lra.
  - apply Rltb_false in Eh.
    destruct (pwR_unit (1 - d2) (eta + 1) ltac:(lra) ltac:(lra)) as (p & Ep & Hp).
    assert (Hval : p <= 2 * (1 - rand) + 2 * (rand - / 2) * p <= 1) by nra.
    destruct (pwR_nonneg (2 * (1 - rand) + 2 * (rand - / 2) * p) _ ltac:(lra) Hex) as (q & Eq & _).
    destruct (Root (1 - d2) p _ q ltac:(lra) Ep Hval ltac:(lra) Eq) as [Hq1 Hq2].
    eapply spec_pure_bind.
    { eapply pure_bind; [apply pure_pw; exact Ep|].
      eapply pure_bind; [apply pure_pw; exact Eq|]. apply pure_ret. }
    assert (B : xl <= x + (1 - q) * (xu - xl) <= xu) by nra.
    rewrite clip_id by exact B.
    apply spec_ret_any. right. exists (1 - q). fold d1 d2. repeat split; lra.
Qed.

(* mutESLogNormal with indpb = 0 on a non-empty individual returns normally (one gauss, one random per gene) *)
Lemma eslog_loop_indpb0_spec t t0n g : forall st,
  spec (length g) (eslog_loop O t t0n 0 g st) (fun r => r = (g, st)).
Proof.
  induction g as [|x g IH]; intros st; [now apply spec_ret_any|].
  cbn [eslog_loop length]. apply spec_draw_bind. intros u [Hu0 _]. rsimp.
  assert (E : Rltb u 0 = false) by (apply Rltb_false; exact Hu0). rewrite E.
  destruct st as [|sg st].
  - eapply spec_weaken with (k := (length g + 0)%nat); [lia|intros a Ha; exact Ha|].
    eapply spec_bind; [apply (IH [])|]. intros [gr sr] Hr. inversion Hr; subst. now apply spec_ret.
  - eapply spec_weaken with (k := (length g + 0)%nat); [lia|intros a Ha; exact Ha|].
    eapply spec_bind; [apply (IH st)|]. intros [gr sr] Hr. inversion Hr; subst. now apply spec_ret.
Qed.

Lemma mut_es_lognormal_indpb0_defined c g st z us :
  g <> [] -> Forall in01 us -> (length g <= length us)%nat ->
  exists us', mut_es_lognormal O c 0 g st (EGauss 0 1 z :: rs us) = Ok ((g, st), rs us').
Proof.
  intros Hg Hus Hlen. unfold mut_es_lognormal. rsimp.
  assert (Hn : 0 < INR (length g)).
  { apply lt_0_INR. destruct g; [contradiction|simpl; lia]. }
  assert (H1 : sqrt (2 * sqrt (INR (length g))) <> 0).
  { apply Rgt_not_eq. apply sqrt_lt_R0. pose proof (sqrt_lt_R0 _ Hn). lra. }
  assert (H2 : sqrt (2 * INR (length g)) <> 0).
  { apply Rgt_not_eq. apply sqrt_lt_R0. lra. }
  rewrite (bind_pure _ _ _ _ (pure_div c _ H1)).
  rewrite (bind_pure _ _ _ _ (pure_div c _ H2)).
  unfold bind at 1, draw_gauss at 1. rsimp. unfold Rsame.
  destruct (Req_EM_T 0 0); [|lra]. destruct (Req_EM_T 1 1); [|lra]. cbn [andb].
  destruct (eslog_loop_indpb0_spec (c / sqrt (2 * sqrt (INR (length g))))
              (c / sqrt (2 * INR (length g)) * z) g st us Hus Hlen) as (r & pre & us' & _ & _ & E & Hr).
  subst r. exists us'. exact E.
Qed.

Lemma cx_sbx_bounded_defined_in_bounds : forall eta low up ind1 ind2,
  0 <= eta ->
  let size := Nat.min (length ind1) (length ind2) in
  let lows := firstn size (bvals low size) in
  let ups := firstn size (bvals up size) in
  bnd_long low size -> bnd_long up size ->
  inbl lows ups ind1 -> inbl lows ups ind2 ->
  forall us, Forall in01 us -> (3 * size <= length us)%nat ->
  exists c1 c2 us',
    cx_sbx_bounded O eta low up ind1 ind2 (rs us) = Ok ((c1, c2), rs us') /\
    length c1 = length ind1 /\ length c2 = length ind2 /\
    inbl lows ups c1 /\ inbl lows ups c2 /\
    (forall i, (i < size)%nat -> nth i lows 0 <= nth i c1 0 <= nth i ups 0 /\
                                 nth i lows 0 <= nth i c2 0 <= nth i ups 0) /\
    (forall i, (size <= i)%nat -> nth i c1 0 = nth i ind1 0 /\ nth i c2 0 = nth i ind2 0).
Proof.
  intros eta low up ind1 ind2 He size lows ups Hl Hu H1 H2 us Hus Hlen.
  destruct (spec_elim _ _ _ (cx_sbx_bounded_spec eta low up ind1 ind2 He Hl Hu H1 H2) us Hus Hlen)
    as ([c1 c2] & us' & E & (L1 & L2 & B1 & B2 & Hrest) & _ & _).
  exists c1, c2, us'. cbn [fst snd] in *. repeat (split; [assumption|]). split; [|exact Hrest].
  assert (Ll : length lows = size).
  { unfold lows. rewrite firstn_length. pose proof (bvals_length low size Hl). lia. }
  assert (Lu : length ups = size).
  { unfold ups. rewrite firstn_length. pose proof (bvals_length up size Hu). lia. }
  intros i Hi. split; apply inbl_nth; auto; unfold size in *; lia.
Qed.

Lemma mut_poly_defined_in_bounds : forall eta low up indpb ind,
  0 <= eta ->
  let size := length ind in
  let lows := bvals low size in
  let ups := bvals up size in
  bnd_long low size -> bnd_long up size ->
  ltl3 lows ups ind ->                       (* low_i < up_i at every gene *)
  inbl lows ups ind ->                       (* low_i <= x_i <= up_i *)
  forall us, Forall in01 us -> (2 * size <= length us)%nat ->
  exists c us',
    mut_poly O eta low up indpb ind (rs us) = Ok (c, rs us') /\
    length c = length ind /\
    forall i, (i < length ind)%nat -> nth i lows 0 <= nth i c 0 <= nth i ups 0.
Proof.
  intros eta low up indpb ind He size lows ups Hl Hu Hlt Hin us Hus Hlen.
  destruct (spec_elim _ _ _ (mut_poly_spec eta low up indpb ind He Hl Hu Hlt Hin) us Hus Hlen)
    as (c & us' & E & (L & B) & _ & _).
  exists c, us'. split; [exact E|]. split; [exact L|].
  intros i Hi. apply inbl_nth; auto.
  - pose proof (bvals_length low size Hl). unfold lows, size in *. lia.
  - pose proof (bvals_length up size Hu). unfold ups, size in *. lia.
  - lia.
Qed.

Lemma mut_es_lognormal_strategy_pos : forall c indpb g st s g' st' s',
  mut_es_lognormal O c indpb g st s = Ok ((g', st'), s') ->
  forall i, 0 < nth i st 0 -> 0 < nth i st' 0.
Proof.
  intros c indpb g st s g' st' s' E.
  apply Forall2_scaled_pos. eapply mut_es_lognormal_inv; eauto.
Qed.

End WithEps.
