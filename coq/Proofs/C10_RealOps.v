(* C10: the real-number instance of the model of Model/C10_RealOps.v and the lemmas about it.
   `**` is instantiated by [pwR] (defined exactly where CPython's float ** returns a float for
   a non-negative base; a negative base is treated as undefined, which is stricter than Python),
   math.exp by [exp], math.sqrt by [sqrt]; the guard constant 1e-14 is an arbitrary [eps >= 0]. *)
From Coq Require Import List Bool Reals Lra Lia.
From DV Require Import Model.C10_RealOps.
Import ListNotations.
Local Open Scope R_scope.

(* ---------------------------------------------------------------------------------------- *)
(* real power                                                                               *)
(* ---------------------------------------------------------------------------------------- *)
Definition pwR (b e : R) : res R :=
  if Rlt_dec 0 b then Ok (Rpower b e)
  else if Req_EM_T b 0 then
    (if Rlt_dec 0 e then Ok 0 else if Req_EM_T e 0 then Ok 1 else Raise ZeroDiv)
  else Raise TypeErr.

Lemma Rpower_1_l e : Rpower 1 e = 1.
Proof. unfold Rpower. rewrite ln_1, Rmult_0_r. apply exp_0. Qed.

Lemma Rpower_pos b e : 0 < Rpower b e.
Proof. unfold Rpower. apply exp_pos. Qed.

Lemma Rpower_le1 b e : 0 < b <= 1 -> 0 <= e -> Rpower b e <= 1.
Proof.
  intros Hb He. rewrite <- (Rpower_1_l e). apply Rle_Rpower_l; lra.
Qed.

Lemma Rpower_ge1 b e : 1 <= b -> 0 <= e -> 1 <= Rpower b e.
Proof.
  intros Hb He. rewrite <- (Rpower_1_l e) at 1. apply Rle_Rpower_l; lra.
Qed.

Lemma Rpower_neg_le1 b e : 1 <= b -> e <= 0 -> 0 < Rpower b e <= 1.
Proof.
  intros Hb He. split; [apply Rpower_pos|].
  replace e with (- - e) by lra. rewrite Rpower_Ropp.
  assert (H : 1 <= Rpower b (- e)) by (apply Rpower_ge1; lra).
  rewrite <- Rinv_1. apply Rinv_le_contravar; lra.
Qed.

(* base in [0,1], positive exponent: defined, result in [0,1] *)
Lemma pwR_unit b e : 0 <= b <= 1 -> 0 < e -> exists r, pwR b e = Ok r /\ 0 <= r <= 1.
Proof.
  intros Hb He. unfold pwR. destruct (Rlt_dec 0 b) as [Hp|Hn].
  - eexists; split; [reflexivity|]. split; [left; apply Rpower_pos|apply Rpower_le1; lra].
  - destruct (Req_EM_T b 0) as [E|N]; [|exfalso; lra].
    destruct (Rlt_dec 0 e); [|exfalso; lra]. exists 0. split; [reflexivity|lra].
Qed.

(* non-negative base, positive exponent: defined, result >= 0 *)
Lemma pwR_nonneg b e : 0 <= b -> 0 < e -> exists r, pwR b e = Ok r /\ 0 <= r.
Proof.
  intros Hb He. unfold pwR. destruct (Rlt_dec 0 b) as [Hp|Hn].
  - eexists; split; [reflexivity|]. left; apply Rpower_pos.
  - destruct (Req_EM_T b 0) as [E|N]; [|exfalso; lra].
    destruct (Rlt_dec 0 e); [|exfalso; lra]. exists 0. split; [reflexivity|lra].
Qed.

(* positive base: always defined and positive *)
Lemma pwR_pos b e : 0 < b -> pwR b e = Ok (Rpower b e) /\ 0 < Rpower b e.
Proof.
  intros Hb. unfold pwR. destruct (Rlt_dec 0 b); [|exfalso; lra]. split; [reflexivity|apply Rpower_pos].
Qed.

(* ---------------------------------------------------------------------------------------- *)
(* the instance                                                                             *)
(* ---------------------------------------------------------------------------------------- *)
Definition Rltb (x y : R) : bool := if Rlt_dec x y then true else false.
Definition Rleb (x y : R) : bool := if Rle_dec x y then true else false.
Definition Rsame (x y : R) : bool := if Req_EM_T x y then true else false.
Definition Rdiv' (a b : R) : res R := if Req_EM_T b 0 then Raise ZeroDiv else Ok (a / b).

Lemma Rltb_true x y : Rltb x y = true <-> x < y.
Proof. unfold Rltb. destruct (Rlt_dec x y); split; intros; try discriminate; tauto. Qed.
Lemma Rltb_false x y : Rltb x y = false <-> y <= x.
Proof. unfold Rltb. destruct (Rlt_dec x y); split; intros; try discriminate; try lra; reflexivity. Qed.
Lemma Rleb_true x y : Rleb x y = true <-> x <= y.
Proof. unfold Rleb. destruct (Rle_dec x y); split; intros; try discriminate; tauto. Qed.
Lemma Rleb_false x y : Rleb x y = false <-> y < x.
Proof. unfold Rleb. destruct (Rle_dec x y); split; intros; try discriminate; try lra; reflexivity. Qed.

Definition ROps (eps : R) : ops R := {|
  o_add := Rplus; o_sub := Rminus; o_mul := Rmult; o_div := Rdiv';
  o_neg := Ropp; o_abs := Rabs; o_ltb := Rltb; o_leb := Rleb; o_same := Rsame;
  o_c0 := 0; o_half := / 2; o_one := 1; o_two := 2; o_eps := eps;
  o_sqrt := sqrt; o_ofnat := INR;
  o_pw := fun b e => lift (pwR b e);
  o_exp := fun a => ret (exp a) |}.

(* ---------------------------------------------------------------------------------------- *)
(* monad plumbing                                                                           *)
(* ---------------------------------------------------------------------------------------- *)
Definition pure_ok {A} (m : M R A) (a : A) : Prop := forall s, m s = Ok (a, s).

Lemma pure_ret {A} (a : A) : pure_ok (ret a) a.
Proof. intro s; reflexivity. Qed.
Lemma pure_bind {A B} (m : M R A) (f : A -> M R B) a b :
  pure_ok m a -> pure_ok (f a) b -> pure_ok (bind m f) b.
Proof. intros Hm Hf s. unfold bind. rewrite Hm. apply Hf. Qed.
Lemma pure_lift {A} (a : A) : pure_ok (lift (Ok a)) a.
Proof. intro s; reflexivity. Qed.
Lemma pure_div a b : b <> 0 -> pure_ok (lift (Rdiv' a b)) (a / b).
Proof. intros Hb s. unfold lift, Rdiv'. destruct (Req_EM_T b 0); [contradiction|reflexivity]. Qed.
Lemma pure_pw b e r : pwR b e = Ok r -> pure_ok (lift (pwR b e)) r.
Proof. intros H s. unfold lift. rewrite H. reflexivity. Qed.

Lemma bind_pure {A B} (m : M R A) (f : A -> M R B) a s : pure_ok m a -> bind m f s = f a s.
Proof. intro H. unfold bind. rewrite H. reflexivity. Qed.
Lemma bind_draw {B} (f : R -> M R B) u s : bind draw_random f (ERandom u :: s) = f u s.
Proof. reflexivity. Qed.
Lemma bind_ret {T A B} (a : A) (f : A -> M T B) s : bind (ret a) f s = f a s.
Proof. reflexivity. Qed.

(* draws *)
Definition in01 (u : R) : Prop := 0 <= u < 1.
Definition rs (us : list R) : stream R := map ERandom us.
Definition draws_ok (s : stream R) : Prop :=
  Forall (fun e => match e with ERandom u => in01 u | _ => True end) s.

Lemma draws_ok_rs us : Forall in01 us -> draws_ok (rs us).
Proof. induction 1; constructor; auto. Qed.

(* [spec k m Q]: on every stream of at least k draws from [0,1) the action returns normally,
   consumes at most k of them, and its result satisfies Q *)
Definition spec {A} (k : nat) (m : M R A) (Q : A -> Prop) : Prop :=
  forall us, Forall in01 us -> (k <= length us)%nat ->
  exists a pre us', us = pre ++ us' /\ (length pre <= k)%nat /\ m (rs us) = Ok (a, rs us') /\ Q a.

Lemma spec_weaken {A} k k' (m : M R A) (Q Q' : A -> Prop) :
  (k <= k')%nat -> (forall a, Q a -> Q' a) -> spec k m Q -> spec k' m Q'.
Proof.
  intros Hk HQ H us Hus Hlen. destruct (H us Hus ltac:(lia)) as (a & pre & us' & E & Hp & Hm & Ha).
  exists a, pre, us'. repeat split; auto; lia.
Qed.

Lemma spec_ret {A} (a : A) (Q : A -> Prop) : Q a -> spec 0 (ret a) Q.
Proof. intros HQ us _ _. exists a, [], us. repeat split; auto. Qed.

Lemma spec_pure {A} (m : M R A) a (Q : A -> Prop) : pure_ok m a -> Q a -> spec 0 m Q.
Proof. intros Hm HQ us _ _. exists a, [], us. repeat split; auto. Qed.

Lemma spec_bind {A B} k1 k2 (m : M R A) (f : A -> M R B) (Q1 : A -> Prop) (Q2 : B -> Prop) :
  spec k1 m Q1 -> (forall a, Q1 a -> spec k2 (f a) Q2) -> spec (k1 + k2) (bind m f) Q2.
Proof.
  intros Hm Hf us Hus Hlen.
  destruct (Hm us Hus ltac:(lia)) as (a & pre & us' & E & Hp & Em & Ha).
  assert (Hus' : Forall in01 us') by (subst us; apply Forall_app in Hus; tauto).
  assert (Hl' : (k2 <= length us')%nat) by (subst us; rewrite app_length in Hlen; lia).
  destruct (Hf a Ha us' Hus' Hl') as (b & pre' & us'' & E' & Hp' & Ef & Hb).
  exists b, (pre ++ pre'), us''. repeat split; auto.
  - subst us us'. now rewrite app_assoc.
  - rewrite app_length; lia.
  - unfold bind. rewrite Em. exact Ef.
Qed.

Lemma spec_draw : spec 1 draw_random in01.
Proof.
  intros us Hus Hlen. destruct us as [|u us]; [simpl in Hlen; lia|].
  inversion Hus; subst. exists u, [u], us. split; [reflexivity|]. split; [simpl; lia|].
  split; [reflexivity|assumption].
Qed.

(* ---------------------------------------------------------------------------------------- *)
(* min / max / clip                                                                         *)
(* ---------------------------------------------------------------------------------------- *)
Section WithEps.
Variable eps : R.
Hypothesis eps_nonneg : 0 <= eps.
Notation O := (ROps eps).

Lemma pymin_spec a b : pymin O a b = Rmin a b.
Proof.
  unfold pymin; cbn. unfold Rltb, Rmin. destruct (Rlt_dec b a), (Rle_dec a b); lra.
Qed.
Lemma pymax_spec a b : pymax O a b = Rmax a b.
Proof.
  unfold pymax; cbn. unfold Rltb, Rmax. destruct (Rlt_dec a b), (Rle_dec a b); lra.
Qed.
Lemma clip_in c xl xu : xl <= xu -> xl <= clip O c xl xu <= xu.
Proof.
  intros H. unfold clip. rewrite pymin_spec, pymax_spec.
  unfold Rmin, Rmax. destruct (Rle_dec c xl), (Rle_dec _ xu); lra.
Qed.
Lemma clip_id c xl xu : xl <= c <= xu -> clip O c xl xu = c.
Proof.
  intros H. unfold clip. rewrite pymin_spec, pymax_spec.
  unfold Rmin, Rmax. destruct (Rle_dec c xl), (Rle_dec _ xu); lra.
Qed.

(* ---------------------------------------------------------------------------------------- *)
(* cxBlend                                                                                  *)
(* ---------------------------------------------------------------------------------------- *)
Definition blend_post (alpha x1 x2 : R) (c : R * R) : Prop :=
  fst c + snd c = x1 + x2 /\
  Rmin x1 x2 - alpha * (Rmax x1 x2 - Rmin x1 x2) <= fst c <= Rmax x1 x2 + alpha * (Rmax x1 x2 - Rmin x1 x2) /\
  Rmin x1 x2 - alpha * (Rmax x1 x2 - Rmin x1 x2) <= snd c <= Rmax x1 x2 + alpha * (Rmax x1 x2 - Rmin x1 x2).

Lemma blend_interval_aux alpha u x1 x2 : 0 <= alpha -> in01 u ->
  let gamma := (1 + 2 * alpha) * u - alpha in
  let lo := Rmin x1 x2 - alpha * (Rmax x1 x2 - Rmin x1 x2) in
  let hi := Rmax x1 x2 + alpha * (Rmax x1 x2 - Rmin x1 x2) in
  lo <= (1 - gamma) * x1 + gamma * x2 <= hi.
Proof.
  intros Ha [Hu0 Hu1]; cbv zeta.
  assert (Hg : - alpha <= (1 + 2 * alpha) * u - alpha <= 1 + alpha) by nra.
  set (g := (1 + 2 * alpha) * u - alpha) in *.
  unfold Rmin, Rmax. destruct (Rle_dec x1 x2); nra.
Qed.

(* the sum needs nothing about the draw (any event value) *)
Lemma blend_gene_sum alpha x1 x2 s c1 c2 s' :
  blend_gene O alpha x1 x2 s = Ok ((c1, c2), s') -> c1 + c2 = x1 + x2.
Proof.
  unfold blend_gene, bind, draw_random. destruct s as [|[u| | |] s]; try discriminate.
  cbn. intros E; inversion E; subst. ring.
Qed.

Lemma blend_gene_spec alpha x1 x2 : 0 <= alpha ->
  spec 1 (blend_gene O alpha x1 x2) (blend_post alpha x1 x2).
Proof.
  intros Ha. unfold blend_gene.
  eapply spec_weaken with (k := (1 + 0)%nat); [lia|intros a H; exact H|].
  eapply spec_bind; [apply spec_draw|]. intros u Hu. apply spec_ret.
  unfold blend_post; cbn [fst snd o_add o_sub o_mul o_one o_two ROps].
  split; [ring|]. split.
  - apply (blend_interval_aux alpha u x1 x2 Ha Hu).
  - pose proof (blend_interval_aux alpha u x2 x1 Ha Hu) as H. cbv zeta in H.
    rewrite (Rmin_comm x2 x1), (Rmax_comm x2 x1) in H.
    replace ((1 + 2 * alpha) * u - alpha) with ((1 + 2 * alpha) * u - alpha) in H by reflexivity.
    lra.
Qed.

End WithEps.
