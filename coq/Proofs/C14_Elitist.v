(* C14 — the generic model of Model/C14_exec.v instantiated with a real closed field; order and
   sorting lemmas; theorems about StrategyOnePlusLambda (elitism over any history, success rate,
   step size, default parameters).  exp is an oracle (section variable) with the hypothesis
   0 < exp x; numpy.around is an arbitrary function. *)
From mathcomp Require Import all_ssreflect all_algebra.
From mathcomp Require Import ring.
From Coq Require Import ZArith.
From DV Require Import Model.C14_exec.
Import Order.TTheory GRing.Theory Num.Theory.
Set Implicit Arguments. Unset Strict Implicit. Unset Printing Implicit Defensive.
Local Open Scope ring_scope.

Section RealInstance.
Variable R : rcfType.
Variable exp_ : R -> R.
Variable round_ : R -> R.

(* binary, so that simplifying a large literal never builds a unary number *)
Fixpoint PtoR (p : positive) : R :=
  match p with
  | xH => 1
  | xO p => PtoR p *+ 2
  | xI p => PtoR p *+ 2 + 1
  end.

Lemma PtoRE p : PtoR p = (Pos.to_nat p)%:R.
Proof.
elim: p => [p IH|p IH|] /=; rewrite ?IH ?Pos2Nat.inj_xI ?Pos2Nat.inj_xO ?Pos2Nat.inj_1 //.
  by rewrite -[in RHS]addn1 natrD multE natrM mulr_natl.
by rewrite multE natrM mulr_natl.
Qed.

Lemma PtoR_gt0 p : 0 < PtoR p.
Proof. by rewrite PtoRE ltr0n; apply/ssrnat.ltP; exact: Pos2Nat.is_pos. Qed.

Definition ZtoR (z : Z) : R :=
  match z with
  | Z0 => 0
  | Zpos p => PtoR p
  | Zneg p => - PtoR p
  end.

Definition ROps : Ops R :=
  mkOps R +%R (fun x y => x - y) *%R (fun x y => x / y) Num.sqrt exp_ Num.norm
        (fun x y => x < y) (fun x y => x <= y) ZtoR round_.

Lemma ofnatE n : ofnat ROps n = n%:R.
Proof.
rewrite /ofnat /kz /=; case: n => [|n] //=.
by rewrite PtoRE SuccNat2Pos.id_succ.
Qed.

Lemma c0E : c0 ROps = 0. Proof. by []. Qed.
Lemma c1E : c1 ROps = 1. Proof. by []. Qed.
Lemma kzE p : kz ROps (Zpos p) = (Pos.to_nat p)%:R.
Proof. by rewrite -PtoRE. Qed.

Lemma c2E : c2 ROps = 2%:R.
Proof. by rewrite /c2 kzE; congr (_%:R). Qed.

(* ---- lexicographic comparison of weighted values ---- *)
Notation lle := (lex_le ROps).
Notation llt := (lex_lt ROps).

Lemma lex_le_refl a : lle a a.
Proof. by elim: a => //= x a IH; rewrite ltxx. Qed.

Lemma lex_lt_le a b : llt a b = ~~ lle b a.
Proof.
elim: a b => [|x a IH] [|y b] //=.
case: (ltrgtP x y) => //= _; exact: IH.
Qed.

Lemma lex_le_total a b : lle a b || lle b a.
Proof.
elim: a b => [|x a IH] [|y b] //=.
by case: (ltrgtP x y) => //= _.
Qed.

Lemma lex_le_trans b a c : lle a b -> lle b c -> lle a c.
Proof.
elim: a b c => [|x a IH] [|y b] [|z c] //=.
case: (ltrgtP x y) => // [xy|->].
  case: (ltrgtP y z) => // [yz _ _|<- _ _]; first by rewrite (lt_trans xy yz).
  by rewrite xy.
case: (ltrgtP y z) => // _; exact: IH.
Qed.

Lemma lex_lt_irr a : llt a a = false.
Proof. by rewrite lex_lt_le lex_le_refl. Qed.


(* ---- list.sort(reverse=True): the head is the first maximum ---- *)
Section SortDesc.
Variables (A : eqType) (le : A -> A -> bool).
Hypothesis le_total : forall x y, le x y || le y x.
Hypothesis le_trans : forall y x z, le x y -> le y z -> le x z.
Let lt x y := ~~ le y x.

Fixpoint first_max (l : seq A) : option A :=
  match l with
  | [::] => None
  | x :: l' => match first_max l' with
               | None => Some x
               | Some m => if lt x m then Some m else Some x
               end
  end.

Lemma ohead_insert x s :
  ohead (insert_desc lt x s) = match ohead s with None => Some x | Some m => if lt x m then Some m else Some x end.
Proof. by case: s => //= y s; case: ifP. Qed.

Lemma ohead_sort_desc l : ohead (sort_desc lt l) = first_max l.
Proof. by elim: l => //= x l IH; rewrite ohead_insert -/(sort_desc lt l) IH. Qed.

Lemma size_insert x s : size (insert_desc lt x s) = (size s).+1.
Proof. by elim: s => //= y s IH; case: ifP => //= _; rewrite IH. Qed.

Lemma size_sort_desc l : size (sort_desc lt l) = size l.
Proof. by elim: l => //= x l IH; rewrite size_insert -/(sort_desc lt l) IH. Qed.

Lemma mem_insert x s y : (y \in insert_desc lt x s) = (y == x) || (y \in s).
Proof.
elim: s => //= z s IH; case: ifP => _; rewrite !inE ?IH //.
by rewrite orbCA.
Qed.

Lemma mem_sort_desc l y : (y \in sort_desc lt l) = (y \in l).
Proof. by elim: l => //= x l IH; rewrite mem_insert -/(sort_desc lt l) IH inE. Qed.

Lemma count_insert P x s : count P (insert_desc lt x s) = addn (P x) (count P s).
Proof. by elim: s => //= y s IH; case: ifP => //= _; rewrite IH addnCA. Qed.

Lemma count_sort_desc P l : count P (sort_desc lt l) = count P l.
Proof. by elim: l => //= x l IH; rewrite count_insert -/(sort_desc lt l) IH. Qed.

Lemma le_refl_of_total x : le x x.
Proof. by have := le_total x x; rewrite orbb. Qed.

Lemma first_max_ub l m : first_max l = Some m -> (m \in l) /\ all (fun y => le y m) l.
Proof.
elim: l m => //= x l IH m.
case E: (first_max l) => [m'|]; last first.
  case=> <-; case: l E {IH} => [_|y l] /=; first by rewrite inE eqxx le_refl_of_total.
  by case: (first_max l) => [?|] //; case: ifP.
have [inl ub] := IH _ E.
case: ifP => [ltx|nlt] [<-].
  rewrite inE inl orbT ub andbT; split=> //.
  by move: ltx; rewrite /lt; case/orP: (le_total x m') => ->.
rewrite inE eqxx le_refl_of_total /=; split=> //.
move/negbFE: nlt => m'x; apply/allP => y yl.
exact: (le_trans (allP ub _ yl) m'x).
Qed.

Lemma first_max_none l : first_max l = None -> l = [::].
Proof. by case: l => //= x l; case: (first_max l) => [m|] //; case: ifP. Qed.
End SortDesc.

Lemma eq_sort_desc (A : Type) (lt1 lt2 : A -> A -> bool) l :
  (forall x y, lt1 x y = lt2 x y) -> sort_desc lt1 l = sort_desc lt2 l.
Proof.
move=> E; elim: l => //= x l ->; elim: (sort_desc lt2 l) => //= y s ->.
by rewrite E.
Qed.

Lemma count_ifE (A : Type) (f : A -> bool) l : count_if f l = count f l.
Proof. by elim: l => //= x l ->; case: (f x). Qed.

Lemma List_mapE (A B : Type) (f : A -> B) l : List.map f l = map f l.
Proof. by elim: l => //= x l ->. Qed.

Lemma List_filterE (A : Type) (p : A -> bool) l : List.filter p l = filter p l.
Proof. by elim: l => //= x l ->. Qed.

(* ======================================================================================== *)
(* StrategyOnePlusLambda                                                                     *)
(* ======================================================================================== *)
Notation pindR := (pind (T:=R)).
Definition ind_le (a b : pindR) : bool := lle a.2 b.2.
Lemma ind_le_total a b : ind_le a b || ind_le b a. Proof. exact: lex_le_total. Qed.
Lemma ind_le_trans b a c : ind_le a b -> ind_le b c -> ind_le a c. Proof. exact: lex_le_trans. Qed.

Lemma sort_key_eq (pop : seq pindR) :
  sort_desc (fun a b => llt a.2 b.2) pop = sort_desc (fun a b => ~~ ind_le b a) pop.
Proof. by apply: eq_sort_desc => a b; rewrite lex_lt_le. Qed.


Notation first_best := (first_max ind_le).

(* what one update does, field by field *)
Lemma plain_update_spec P st pop st' sorted :
  plain_update ROps P st pop = Some (st', sorted) ->
  exists best : pindR,
  [/\ first_best pop = Some best,
      sorted = sort_desc (fun a b => llt a.2 b.2) pop,
      ps_psucc st' = (1 - pp_cp P) * ps_psucc st
                     + pp_cp P * ((count (fun ind : pindR => lle (ps_pfit st) ind.2) pop)%:R / (pp_lambda P)%:R),
      ps_sigma st' = ps_sigma st * exp_ (1 / pp_d P * (ps_psucc st' - pp_ptarg P) / (1 - pp_ptarg P)) &
      ps_A st' = cholesky ROps (ps_C st')] /\
      if lle (ps_pfit st) best.2 then
        [/\ ps_parent st' = best.1, ps_pfit st' = best.2 &
            if ps_psucc st' < pp_pthresh P then
              ps_pc st' = vadd ROps (vscale ROps (1 - pp_cc P) (ps_pc st))
                            (vscale ROps (Num.sqrt (pp_cc P * (2%:R - pp_cc P)))
                                    (vdivs ROps (vsub ROps best.1 (ps_parent st)) (ps_sigma st))) /\
              ps_C st' = madd ROps (mscale ROps (1 - pp_ccov P) (ps_C st))
                                   (mscale ROps (pp_ccov P) (outer ROps (ps_pc st') (ps_pc st')))
            else
              ps_pc st' = vscale ROps (1 - pp_cc P) (ps_pc st) /\
              ps_C st' = madd ROps (mscale ROps (1 - pp_ccov P) (ps_C st))
                            (mscale ROps (pp_ccov P)
                               (madd ROps (outer ROps (ps_pc st') (ps_pc st'))
                                          (mscale ROps (pp_cc P * (2%:R - pp_cc P)) (ps_C st))))]
      else [/\ ps_parent st' = ps_parent st, ps_pfit st' = ps_pfit st, ps_pc st' = ps_pc st & ps_C st' = ps_C st].
Proof.
rewrite /plain_update; cbv zeta.
set sorted0 := sort_desc _ pop.
have hd : ohead sorted0 = first_best pop by rewrite /sorted0 sort_key_eq ohead_sort_desc.
rewrite count_ifE.
have -> : count (fun ind : pindR => lle (ps_pfit st) ind.2) sorted0 =
          count (fun ind : pindR => lle (ps_pfit st) ind.2) pop.
  by rewrite /sorted0 sort_key_eq count_sort_desc.
case E: sorted0 hd => [|best rest] // hd.
rewrite /psucc_step /sigma_step !ofnatE !c1E !c2E.
case: ifP => Hle.
  case: ifP => Hth [<- <-] /=; exists best; rewrite -hd Hle /=; (split; first by split);
    split=> //; move: Hth => /= ->; by split.
case=> <- <- /=; exists best; rewrite -hd Hle; split=> //.
Qed.


(* --- one update: elitism --- *)
Lemma plain_update_elitist P st pop st' sorted :
  plain_update ROps P st pop = Some (st', sorted) ->
  [/\ lle (ps_pfit st) (ps_pfit st'),
      all (fun ind : pindR => lle ind.2 (ps_pfit st')) pop &
      (ps_parent st', ps_pfit st') = (ps_parent st, ps_pfit st) \/
      exists2 ind : pindR, ind \in pop & (ps_parent st', ps_pfit st') = ind /\ lle (ps_pfit st) ind.2].
Proof.
move/plain_update_spec => [best [[fb _ _ _ _]]].
have [bin ub] := first_max_ub ind_le_total ind_le_trans fb.
case: ifP => Hle.
  case=> -> -> _; split=> //; right; exists best => //; split=> //.
  by case: best {fb bin ub Hle}.
case=> -> -> _ _; split; rewrite ?lex_le_refl //; last by left.
have lt : lle best.2 (ps_pfit st).
  by have := lex_le_total best.2 (ps_pfit st); rewrite Hle orbF.
by apply/allP => ind /(allP ub) h; apply: lex_le_trans lt.
Qed.

(* replacement happens exactly under  parent.fitness <= best offspring fitness *)
Lemma plain_update_replaced_iff P st pop st' sorted best :
  plain_update ROps P st pop = Some (st', sorted) -> first_best pop = Some best ->
  (ps_parent st', ps_pfit st') = (if lle (ps_pfit st) best.2 then best else (ps_parent st, ps_pfit st)).
Proof.
move/plain_update_spec => [best' [[fb _ _ _ _]]] + fb2; move: fb; rewrite fb2 => -[<-].
by case: ifP => _ [-> ->] //; case: best {fb2}.
Qed.

(* --- success rate and step size --- *)
Lemma convex01 (c p q : R) : 0 <= c <= 1 -> 0 <= p <= 1 -> 0 <= q <= 1 -> 0 <= (1 - c) * p + c * q <= 1.
Proof.
move=> /andP[c0 c1] /andP[p0 p1] /andP[q0 q1].
have c1' : 0 <= 1 - c by rewrite subr_ge0.
rewrite addr_ge0 ?mulr_ge0 //=.
have h1 : (1 - c) * p <= 1 - c by rewrite ler_pimulr.
have h2 : c * q <= c by rewrite ler_pimulr.
by rewrite (le_trans (ler_add h1 h2)) // subrK.
Qed.

Lemma frac01 (k n : nat) : (k <= n)%nat -> (0 < n)%nat -> 0 <= (k%:R / n%:R : R) <= 1.
Proof.
move=> kn n0; have n0' : 0 < n%:R :> R by rewrite ltr0n.
by rewrite divr_ge0 ?ler0n //= ler_pdivr_mulr // mul1r ler_nat.
Qed.

Lemma plain_update_psucc P st pop st' sorted :
  plain_update ROps P st pop = Some (st', sorted) ->
  0 <= pp_cp P <= 1 -> size pop = pp_lambda P ->
  0 <= ps_psucc st <= 1 -> 0 <= ps_psucc st' <= 1.
Proof.
move=> H cp sz ps; have [best [[fb _ -> _ _] _]] := plain_update_spec H.
apply: convex01 => //; apply: frac01; first by rewrite -sz count_size.
by rewrite -sz; case: (pop) fb.
Qed.

Hypothesis exp_pos : forall x, 0 < exp_ x.

Lemma plain_update_sigma P st pop st' sorted :
  plain_update ROps P st pop = Some (st', sorted) -> 0 < ps_sigma st -> 0 < ps_sigma st'.
Proof.
move=> H s0; have [best [[_ _ _ -> _] _]] := plain_update_spec H.
by rewrite mulr_gt0.
Qed.

(* --- histories --- *)
Lemma size_plain_generate st (arz : seq (seq R)) : size (plain_generate ROps st arz) = size arz.
Proof. by rewrite /plain_generate List_mapE size_map. Qed.

Section History.
Variables (P : pparams (T:=R)) (evalf : seq R -> seq R).

Definition matches (st : pstate (T:=R)) := ps_pfit st = evalf (ps_parent st).

Lemma plain_round_inv st arz st' sorted :
  plain_round ROps P evalf st arz = Some (st', sorted) -> matches st ->
  [/\ matches st', lle (ps_pfit st) (ps_pfit st'),
      all (fun f => lle f (ps_pfit st')) (map evalf (plain_generate ROps st arz)) &
      ps_pfit st' = ps_pfit st \/ ps_pfit st' \in map evalf (plain_generate ROps st arz)].
Proof.
rewrite /plain_round List_mapE => H m.
have [mono ub from] := plain_update_elitist H; split=> //.
- by rewrite /matches; case: from => [[-> ->] //|[ind /mapP[x _ ->] [[-> ->] _]]].
- by rewrite all_map; move: ub; rewrite all_map.
- case: from => [[_ ->]|[ind /mapP[x xin ->] [[_ ->] _]]]; [by left|right].
  by apply/mapP; exists x.
Qed.

Lemma plain_run_inv st draws log st' log' pfit0 :
  plain_run ROps P evalf st draws log = Some (st', log') ->
  matches st -> all (fun f => lle f (ps_pfit st)) log -> ps_pfit st \in pfit0 :: log ->
  [/\ matches st', lle (ps_pfit st) (ps_pfit st'),
      all (fun f => lle f (ps_pfit st')) log', ps_pfit st' \in pfit0 :: log' &
      exists extra, log' = log ++ extra].
Proof.
elim: draws st log => [|arz draws IH] st log /=.
  by case=> <- <- m ub inl; split=> //; rewrite ?lex_le_refl //; exists [::]; rewrite cats0.
case R1: (plain_round _ _ _ _ _) => [[st1 sorted]|] // Hrun m ub inl.
have [m1 mono1 ub1 from1] := plain_round_inv R1 m.
rewrite List_mapE in Hrun.
have ub' : all (fun f => lle f (ps_pfit st1)) (log ++ map evalf (plain_generate ROps st arz)).
  rewrite all_cat ub1 andbT; apply/allP => f /(allP ub) h; exact: (lex_le_trans h mono1).
have in' : ps_pfit st1 \in pfit0 :: log ++ map evalf (plain_generate ROps st arz).
  case: from1 => [->|h]; first by move: inl; rewrite !inE mem_cat => /orP[->|->] //; rewrite orbT.
  by rewrite inE mem_cat h !orbT.
have [m' mono' ub2 in2 [extra E]] := IH st1 _ Hrun m1 ub' in'.
split=> //; first exact: (lex_le_trans mono1 mono').
by exists (map evalf (plain_generate ROps st arz) ++ extra); rewrite E catA.
Qed.


(* the three elitism clauses over a whole history, from the initial state *)
Theorem plain_history_elitist st0 draws st log :
  plain_run ROps P evalf st0 draws [::] = Some (st, log) -> matches st0 ->
  [/\ matches st,
      all (fun f => lle f (ps_pfit st)) (ps_pfit st0 :: log) &
      ps_pfit st \in ps_pfit st0 :: log].
Proof.
move=> H m; have [] := plain_run_inv (pfit0 := ps_pfit st0) H m; rewrite ?inE ?eqxx //.
by move=> m' mono ub inl _; split=> //=; rewrite mono.
Qed.

Lemma plain_run_cat st d1 d2 log :
  plain_run ROps P evalf st (d1 ++ d2) log =
  match plain_run ROps P evalf st d1 log with
  | Some (st1, log1) => plain_run ROps P evalf st1 d2 log1
  | None => None
  end.
Proof.
elim: d1 st log => //= arz d1 IH st log.
by case: (plain_round _ _ _ _ _) => [[st1 _]|].
Qed.

(* the parent's fitness never gets worse between any two points of a history *)
Theorem plain_history_monotone st0 d1 d2 st2 log2 :
  plain_run ROps P evalf st0 (d1 ++ d2) [::] = Some (st2, log2) -> matches st0 ->
  exists st1 log1, plain_run ROps P evalf st0 d1 [::] = Some (st1, log1) /\ lle (ps_pfit st1) (ps_pfit st2).
Proof.
rewrite plain_run_cat; case H1: (plain_run _ _ _ _ d1 _) => [[st1 log1]|] // H2 m.
exists st1, log1; split=> //.
have [m1 _ ub1 in1 _] := plain_run_inv (pfit0 := ps_pfit st0) H1 m isT (mem_head _ _).
by have [] := plain_run_inv (pfit0 := ps_pfit st0) H2 m1 ub1 in1.
Qed.

(* success rate in [0,1] and step size positive along any history whose draws have lambda rows *)
Theorem plain_history_psucc_sigma st0 draws st log :
  plain_run ROps P evalf st0 draws [::] = Some (st, log) ->
  0 <= pp_cp P <= 1 -> all (fun arz : seq (seq R) => size arz == pp_lambda P) draws ->
  0 <= ps_psucc st0 <= 1 -> 0 < ps_sigma st0 ->
  0 <= ps_psucc st <= 1 /\ 0 < ps_sigma st.
Proof.
move: [::] => log0.
elim: draws st0 log0 => [|arz draws IH] st0 log0 /=; first by case=> <- _.
case R1: (plain_round _ _ _ _ _) => [[st1 sorted]|] // Hrun cp /andP[/eqP sz szs] ps s0.
apply: (IH _ _ Hrun cp szs).
  apply: (plain_update_psucc R1 cp _ ps).
  by rewrite List_mapE size_map size_plain_generate.
exact: (plain_update_sigma R1 s0).
Qed.

End History.

(* --- default parameters (computeParams) are in range --- *)
Lemma cp_formula_range (ptarg lam : R) : 0 < ptarg -> 0 < lam ->
  0 < ptarg * lam / (2%:R + ptarg * lam) < 1.
Proof.
move=> p0 l0; have pl : 0 < ptarg * lam by rewrite mulr_gt0.
have den : 0 < 2%:R + ptarg * lam by rewrite addr_gt0 // ltr0n.
by rewrite divr_gt0 //= ltr_pdivr_mulr // mul1r ltr_addr ltr0n.
Qed.

Lemma ptarg_formula_range (lam : R) : 0 <= lam -> 0 < 1 / (5%:R + Num.sqrt lam / 2%:R) < 1.
Proof.
move=> l0; have den : 1 < 5%:R + Num.sqrt lam / 2%:R.
  by rewrite ltr_paddr ?divr_ge0 ?sqrtr_ge0 ?ler0n // ltr1n.
have den0 : 0 < 5%:R + Num.sqrt lam / 2%:R by rewrite (lt_trans ltr01).
by rewrite divr_gt0 ?ltr01 //= ltr_pdivr_mulr // mul1r.
Qed.

Theorem plain_defaults_ok dim lam : (0 < lam)%nat ->
  let P := plain_defaults ROps dim lam in
  [/\ 0 < pp_cp P < 1, 0 < pp_ptarg P < 1, 0 < pp_d P, 0 < pp_ccov P < 1 & 0 < pp_cc P <= 1].
Proof.
move=> l0; cbv zeta; rewrite /plain_defaults.
have l0' : 0 < lam%:R :> R by rewrite ltr0n.
have pt := ptarg_formula_range (ltW l0').
have five : kz ROps 5 = 5%:R by rewrite kzE; congr (_%:R).
have six : kz ROps 6 = 6%:R by rewrite kzE; congr (_%:R).
rewrite !ofnatE !c1E !c2E five six /=; split.
- by apply: cp_formula_range => //; case/andP: pt.
- exact: pt.
- by apply: ltr_paddr; rewrite ?ltr01 // divr_ge0 ?ler0n // mulr_ge0 ?ler0n.
- have den : 0 < (dim * dim)%:R + 6%:R :> R by rewrite -natrD ltr0n addn_gt0 orbT.
  by rewrite divr_gt0 ?ltr0n //= ltr_pdivr_mulr // mul1r -natrD ltr_nat ltn_addl.
- have den : 0 < dim%:R + 2%:R :> R by rewrite -natrD ltr0n addn_gt0 orbT.
  by rewrite divr_gt0 ?ltr0n //= ler_pdivr_mulr // mul1r -natrD ler_nat leq_addl.
Qed.

End RealInstance.
