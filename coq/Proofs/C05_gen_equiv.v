(* Tie (T) of property C05: the definitions regenerated from deap/tools/emo.py (coq/Gen/C05_gen.v,
   written by harness/c05_py2coq.py on every run) compute the hand-written model the C05 theorems
   are stated about.  Compiled on every run, after regeneration.

   Form of the statements (refinement, for EVERY argument and EVERY attribute table):
       gen_f args t = Some (r, t')   ->   r = Model.f args  /\  t' = what the model says is written
   i.e. whenever the code returns normally it returns what the model returns.  No hypothesis about
   lengths or index ranges is needed: a subscript that did not raise was in range (inversion,
   Proofs/C05_GenRt.v).  A function the translator refused is the hand model itself in Gen/C05_gen.v
   (placeholder); the first alternative of each proof below covers that case.

   The scripts do not depend on the names of locals, on pure subexpressions being named or inlined
   (`let` is reduced first), on the number / order of the reads a statement makes (`minv` inverts
   whatever chain of binds it finds, `same_reads` identifies repeated reads), on `float("inf")`
   being hoisted.  A changed comparison, index, constant, slice bound, sort key or order of the
   writes makes the final `reflexivity` fail: a broken obligation. *)
From Coq Require Import List ZArith Bool Arith Lia Permutation.
From DV Require Import Base.PyList Base.C05_Sort Base.C05_List Model.C05_Nsga2 Model.C05_Spec Model.C05_Full
  Model.C05_GenRt Proofs.C05_GenRt Proofs.C05_Nsga2 Gen.C05_gen.
Import ListNotations.

Section Equiv.
  Variable o : numops.
  Notation indV := (ind (V o)).

  (* one pass of `for i in range(nobj)` on the loop-carried pair as the translator orders it
     (order of first assignment in the source: distances, crowd) *)
  Definition step_sw (nobj : nat) (st : list (D o) * list (centry o)) (i : nat) :=
    let r := crowd_step o nobj (snd st, fst st) i in (snd r, fst r).

  (* a sort key that reads element[0][i] is key_i *)
  Ltac key_refines :=
    let Hk := fresh "Hk" in
    intros ? ? ? _ Hk; cbv beta zeta in Hk; minv; split; [cbn [key_i]; reads_to_nth; reflexivity | reflexivity].

  Ltac sort_inv K0 :=
    match goal with
    | Hs : sort_keyM _ _ _ _ _ = Some _ |- _ =>
        let Hsort := fresh "Hsort" in
        apply (sort_keyM_inv o _ _ K0) in Hs; [destruct Hs as [Hsort ->] | key_refines]
    end.

  (* the model's crowd_step against what the inverted reads say: crowd[0], crowd[-1], the range test *)
  Ltac crowd_head :=
    try unfold step_sw; unfold crowd_step, centry in *; cbn [fst snd];
    match goal with
    | Hsort : ?c = sort_st _ _ _ |- _ =>
        rewrite <- Hsort; clear Hsort;
        destruct c as [|first rest];
        [match goal with H : nth_error [] _ = Some _ |- _ => cbn in H; discriminate H end|];
        match goal with H : nth_error (_ :: _) 0 = Some _ |- _ => cbn in H; injection H as <- end;
        match goal with H : nth_error ?l (length ?l - 1) = Some _ |- _ => rewrite (nth_error_last l _ first H) end
    end;
    cbn [key_i]; reads_to_nth;
    match goal with E : veqb _ _ _ = _ |- _ => rewrite E end;
    cbn [fst snd].

  Lemma assign_cons (x : indV) rest :
    assign_crowding o (x :: rest) =
    fst (fold_left (step_sw (length (vals x))) (seq 0 (length (vals x)))
                   (repeat (dzero o) (length (x :: rest)),
                    map (fun it : nat * indV => (vals (snd it), fst it)) (enumerate (x :: rest)))).
  Proof.
    unfold step_sw. rewrite fold_left_swap. cbn zeta. cbn [fst snd].
    rewrite map_enumerate_swap. reflexivity.
  Qed.

  (* ... and when the source assigns crowd before distances the pair is carried as in the model *)
  Lemma assign_cons_cd (x : indV) rest :
    assign_crowding o (x :: rest) =
    snd (fold_left (crowd_step o (length (vals x))) (seq 0 (length (vals x)))
                   (map (fun it : nat * indV => (vals (snd it), fst it)) (enumerate (x :: rest)),
                    repeat (dzero o) (length (x :: rest)))).
  Proof. cbn [assign_crowding]. rewrite map_enumerate_swap. reflexivity. Qed.

  (* body of `for prev, cur, next in zip(crowd[:-2], crowd[1:-1], crowd[2:])` is the model's bump *)
  Ltac bump_body :=
    let Hb := fresh "Hb" in
    intros [[? ?] ?] ? ? ? ? _ Hb; cbv beta zeta in Hb; cbn [fst snd] in Hb; minv;
    cbn [bump fst snd key_i]; reads_to_nth; split; reflexivity.

  (* body of `for i in range(nobj)` is step_sw *)
  Ltac obj_body :=
    let Hb := fresh "Hb" in let Hin := fresh "Hin" in
    intros ? ? ? ? ? Hin Hb; cbv beta zeta in Hb; minv;
    match type of Hin with
    | In ?i (seq 0 (length (vals ?a))) =>
        sort_inv (key_i o i); same_reads;
        first
          [ (* crowd[-1][0][i] == crowd[0][0][i]: continue *)
            solve [crowd_head; split; reflexivity]
          | (* the loop over the triples *)
            match goal with
            | Hl : for_list (zip3 _ _ _) _ _ _ = Some _,
              H1 : nth_error ?c 0 = Some ?first, H2 : nth_error ?c (length ?c - 1) = Some ?lst |- _ =>
                apply (for_list_inv_pure o
                         (bump o i (vnorm o (length (vals a)) (vsub o (key_i o i lst) (key_i o i first))))) in Hl;
                [ destruct Hl as [-> ->];
                  rewrite sl_m2, sl_1_m1, sl_2;
                  match goal with |- context [zip3 (removelast (removelast ?c)) _ _] => fold (triples c) end;
                  crowd_head; split; reflexivity
                | bump_body ]
            end ]
    end.

  Ltac assign_main :=
    match goal with
    | Hl : for_list (seq 0 ?n) _ _ _ = Some _ |- _ =>
        (* the loop-carried pair in either order of first assignment *)
        first [ apply (for_list_inv_pure o (step_sw n)) in Hl | apply (for_list_inv_pure o (crowd_step o n)) in Hl ];
        [destruct Hl as [-> ->] | clear; obj_body]
    end;
    (* the loop that writes the attributes *)
    match goal with
    | Hl : for_list (enumerate _) _ _ _ = Some _, H0 : nth_error ?inds 0 = Some ?a |- _ =>
        apply (for_list_inv o (fun _ _ => tt) (fun t p => cd_upd o t (uid (nth (fst p) inds a)) (snd p))) in Hl;
        [ destruct Hl as [_ ->]
        | let Hb := fresh "Hb" in
          intros ? ? ? ? ? _ Hb; cbv beta zeta in Hb; minv; reads_to_nth; split; reflexivity ]
    end;
    match goal with
    | H0 : nth_error ?inds 0 = Some _ |- _ => destruct inds as [|x rest]; [discriminate H0|]; injection H0 as <-
    end;
    first [ rewrite <- assign_cons | rewrite <- assign_cons_cd ];
    apply write_enum; rewrite assign_crowding_length; apply le_n.

  (* len(individuals) == 0: return *)
  Ltac assign_empty :=
    match goal with
    | E : (length ?l =? 0) = true |- _ => apply Nat.eqb_eq in E; destruct l; [reflexivity|discriminate E]
    end.

  Theorem gen_assign_refines (inds : list indV) t u t' :
    gen_assignCrowdingDist o inds t = Some (u, t') -> t' = write_cd o t inds (assign_crowding o inds).
  Proof.
    unfold gen_assignCrowdingDist. intro H.
    first [ (* the translator refused: the definition is the hand model *)
            solve [unfold model_assignCrowdingDist in H; inversion H; reflexivity]
          | cbv beta zeta in H; minv; first [ solve [assign_empty] | solve [assign_main] ] ].
  Qed.

  (* ---------------------------------------------------------------------------------------------- *)
  (* selNSGA2                                                                                        *)
  (* ---------------------------------------------------------------------------------------------- *)
  Variable s_std s_log : sorter o.

  (* the model with k an integer, as the source has it *)
  Lemma sel_nsga2_alt (fronts : list (list indV)) (kz : Z) :
    sel_nsga2 o fronts (Z.to_nat kz) =
    let chosen := concat (removelast fronts) in
    let k' := (kz - Z.of_nat (length chosen))%Z in
    if (0 <? k')%Z then
      match fronts with
      | [] => None
      | f0 :: _ =>
          let lastf := last fronts f0 in
          Some (chosen ++ map fst (firstn (Z.to_nat k')
                   (sort_st_rev (dltb o) snd (combine lastf (assign_crowding o lastf)))))
      end
    else Some chosen.
  Proof.
    unfold sel_nsga2. cbv zeta.
    set (L := Z.of_nat (length (concat (removelast fronts)))).
    assert (0 <= L)%Z by (unfold L; lia).
    destruct (0 <? kz - L)%Z eqn:E.
    - apply Z.ltb_lt in E. rewrite Z2Nat.id by lia.
      assert (E' : (0 <? kz - L)%Z = true) by (apply Z.ltb_lt; lia). rewrite E'. reflexivity.
    - apply Z.ltb_ge in E.
      assert (E' : (0 <? Z.of_nat (Z.to_nat kz) - L)%Z = false) by (apply Z.ltb_ge; lia).
      rewrite E'. reflexivity.
  Qed.

  (* sorted(pareto_fronts[-1], key=attrgetter("fitness.crowding_dist"), reverse=True)[:n] reads the attribute table;
     when the table holds, for the last front, the distances just assigned, this is the model's cut *)
  Lemma cut_by_table (K0 : indV -> D o) (lastf : list indV) n :
    map K0 lastf = assign_crowding o lastf ->
    firstn n (sort_st_rev (dltb o) K0 lastf) =
    map fst (firstn n (sort_st_rev (dltb o) snd (combine lastf (assign_crowding o lastf)))).
  Proof.
    intros <-. fold (dec K0 lastf). now rewrite sort_rev_dec, <- firstn_map, dec_fst.
  Qed.

  Lemma fronts_split (fronts : list (list indV)) lastf :
    nth_error fronts (length fronts - 1) = Some lastf -> exists init, fronts = init ++ [lastf].
  Proof.
    intro H. exists (removelast fronts). destruct fronts as [|f0 r]; [discriminate H|].
    rewrite <- (nth_error_last _ _ f0 H). apply app_removelast_last. discriminate.
  Qed.

  Lemma sel_snoc_z init (lastf : list indV) kz :
    (0 < kz - Z.of_nat (length (concat init)))%Z ->
    sel_nsga2 o (init ++ [lastf]) (Z.to_nat kz) =
    Some (concat init ++ map fst (firstn (Z.to_nat (kz - Z.of_nat (length (concat init))))
                                         (sort_st_rev (dltb o) snd (combine lastf (assign_crowding o lastf))))).
  Proof.
    intro Hk. rewrite sel_snoc. cbv zeta. rewrite Z2Nat.id by lia.
    apply Z.ltb_lt in Hk. rewrite Hk. reflexivity.
  Qed.

  Ltac sel_loop :=
    match goal with
    | Hl : for_list _ _ _ _ = Some _ |- _ =>
        apply (for_list_inv o (fun _ _ => tt) (fun t f => write_cd o t f (assign_crowding o f))) in Hl;
        [ destruct Hl as [_ ->]
        | let Hb := fresh "Hb" in
          intros ? ? ? ? ? _ Hb; cbv beta zeta in Hb; minv;
          match goal with Hg : gen_assignCrowdingDist _ _ _ = Some _ |- _ => apply gen_assign_refines in Hg; subst end;
          split; reflexivity ]
    end.

  Ltac sel_sorter :=
    match goal with
    | |- exists _, pick_sorter _ _ _ ?nd ?inds ?k = _ /\ _ =>
        match goal with
        | Hs : ?f inds k = Some ?fr |- _ =>
            exists fr; split;
            [ destruct nd; cbn [nd_is pick_sorter] in *; try discriminate; assumption | split; [reflexivity|] ]
        end
    end.

  (* k - len(chosen) <= 0: nothing is taken from the last front *)
  Ltac sel_whole :=
    intros _; rewrite sel_nsga2_alt; cbv zeta; rewrite <- sl_m1;
    match goal with E : (0 <? _)%Z = false |- _ => rewrite E end; reflexivity.

  (* the key of the final sort reads the attribute table and leaves it alone *)
  Ltac sel_sort :=
    try match goal with
        | Hs : sort_keyM _ _ _ _ ?T = Some _ |- _ =>
            apply (sort_keyM_inv o _ _ (fun x => match T (uid x) with Some d => d | None => dzero o end)) in Hs;
            [ destruct Hs as [-> ->]
            | let Hk := fresh "Hk" in intros ? ? ? _ Hk; minv; split; [|reflexivity];
              match goal with Hr : _ = Some _ |- _ => now rewrite Hr end ]
        end.

  Ltac sel_cut :=
    let ND := fresh "ND" in
    match goal with
    | Hn : nth_error ?fr (length ?fr - 1) = Some ?lastf |- _ =>
        let init := fresh "init" in
        destruct (fronts_split fr lastf Hn) as (init & ->); clear Hn;
        rewrite ?sl_m1, ?removelast_last in *;
        intros ND; rewrite last_last in ND;
        match goal with E : (0 <? _)%Z = true |- _ => apply Z.ltb_lt in E; rewrite (sel_snoc_z _ _ _ E) end;
        rewrite sl_to_pos by lia;
        f_equal; f_equal; symmetry; apply cut_by_table;
        rewrite fold_left_app; cbn [fold_left];
        apply read_after_write; [exact ND | apply assign_crowding_length]
    end.

  Theorem gen_sel_refines (inds : list indV) (k : Z) nd t r t' :
    gen_selNSGA2 o s_std s_log inds k nd t = Some (r, t') ->
    exists fronts, pick_sorter o s_std s_log nd inds k = Some fronts /\
                   t' = write_fronts o t fronts /\
                   (NoDup (uids (last fronts [])) -> sel_nsga2 o fronts (Z.to_nat k) = Some r).
  Proof.
    unfold gen_selNSGA2. intro H.
    first [ (* the translator refused: the definition is the hand model *)
            solve [ unfold model_selNSGA2 in H;
                    destruct (pick_sorter o s_std s_log nd inds k) as [fr|]; [|discriminate H];
                    destruct (sel_nsga2 o fr (Z.to_nat k)) as [r0|] eqn:E; [|discriminate H];
                    destruct (k <? 0)%Z; [discriminate H|]; injection H as <- <-;
                    exists fr; repeat split; auto ]
          | cbv beta zeta in H; minv; sel_loop; sel_sort; sel_sorter; first [ solve [sel_whole] | solve [sel_cut] ] ].
  Qed.
End Equiv.
