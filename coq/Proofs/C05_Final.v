(* Glue: the property theorems of Props/C05.v that combine several lemmas. *)
From Coq Require Import List ZArith QArith Bool Permutation.
From DV Require Import Base.PyList Model.C05_Nsga2 Model.C05_Spec Model.C05_CrowdSpec
     Proofs.C05_Spec Proofs.C05_Nsga2 Proofs.C05_QInst Proofs.C05_Crowding Proofs.C05_FloatOrd Proofs.C05_Depth.
Import ListNotations.
Local Open Scope nat_scope.

Lemma nsga2_defined o (pop : list (ind (V o))) k fronts :
  fronts_correct pop k fronts -> exists r, sel_nsga2 o fronts k = Some r.
Proof. exact (sel_defined_aux o pop fronts k). Qed.

Lemma refs_nodup o (pop : list (ind (V o))) k fronts r :
  wf_pop pop -> fronts_correct pop k fronts -> sel_nsga2 o fronts k = Some r ->
  (forall x, In x r -> In x pop) /\ NoDup (uids r).
Proof. intros W F S. split; [exact (refs o pop k fronts r F S)|exact (nodup o pop k fronts r W F S)]. Qed.

Lemma crowding_cut_q (pop : list (ind Q)) k fronts r :
  wf_pop pop -> fronts_correct pop k fronts -> sel_nsga2 q_ops fronts k = Some r ->
  forall lastf, lastf = last fronts [] ->
  forall x dx y dy,
    In (x, dx) (combine lastf (assign_crowding q_ops lastf)) ->
    In (y, dy) (combine lastf (assign_crowding q_ops lastf)) ->
    In (uid x) (uids r) -> ~ In (uid y) (uids r) -> qinf_ge dx dy.
Proof.
  intros W F S lastf E x dx y dy Ix Iy Sx Ny. apply qinf_ltb_ge.
  apply (crowding_cut q_ops pop k fronts r W F S (fun _ => True)
           (fun a b _ _ => qinf_ltb_asym a b) (fun a b c _ _ _ => qinf_ltb_ntrans a b c)
           lastf E (proj2 (Forall_forall _ _) (fun _ _ => I)) x dx y dy Ix Iy Sx Ny).
Qed.

Lemma crowding_cut_float (pop : list (ind PrimFloat.float)) k fronts r :
  wf_pop pop -> fronts_correct pop k fronts -> sel_nsga2 f_ops fronts k = Some r ->
  forall lastf, lastf = last fronts [] ->
  Forall (fun d => PrimFloat.is_nan d = false) (assign_crowding f_ops lastf) ->
  forall x dx y dy,
    In (x, dx) (combine lastf (assign_crowding f_ops lastf)) ->
    In (y, dy) (combine lastf (assign_crowding f_ops lastf)) ->
    In (uid x) (uids r) -> ~ In (uid y) (uids r) -> PrimFloat.ltb dx dy = false.
Proof.
  intros W F S lastf E NN x dx y dy Ix Iy Sx Ny.
  exact (crowding_cut f_ops pop k fronts r W F S not_nan fltb_asym fltb_ntrans lastf E NN x dx y dy Ix Iy Sx Ny).
Qed.

Lemma lmin_lmax_spec (l : list Q) : l <> [] ->
  In (lmin l) l /\ In (lmax l) l /\ forall w, In w l -> (lmin l <= w)%Q /\ (w <= lmax l)%Q.
Proof.
  intros N. split; [apply lmin_in, N|split; [apply lmax_in, N|]].
  intros w I. split; [apply lmin_le, I|apply lmax_ge, I].
Qed.

Lemma fronts_correct_decided (A : Type) (pop : list (ind A)) k fu :
  wf_pop_b pop = true -> fronts_correct_b pop k fu = true ->
  wf_pop pop /\ fronts_correct pop k (map (select pop) fu).
Proof.
  intros W F. pose proof (wf_pop_b_sound pop W) as W'.
  split; [exact W'|exact (fronts_correct_b_sound pop k fu W' F)].
Qed.

Lemma layers_partition (A : Type) (pop : list (ind A)) :
  Permutation (concat (layers pop)) pop /\
  (wf_pop pop -> forall x, In x pop -> depth pop x < length (layers pop)).
Proof. split; [apply layers_perm|intros W x; apply depth_lt, W]. Qed.

Lemma depth_dominance (A : Type) (pop : list (ind A)) : wf_pop pop ->
  (forall x y, In x pop -> In y pop -> dom (wv y) (wv x) = true -> depth pop y < depth pop x) /\
  (forall x d, In x pop -> depth pop x = S d ->
     exists y, In y pop /\ dom (wv y) (wv x) = true /\ depth pop y = d).
Proof. exact (Proofs.C05_Depth.depth_is_dominance_depth pop). Qed.
