(* C03 — the runner of the composed model (Corr/C03_Full.v) validates the hypotheses of the theorems of
   Props/C03_full.v on every recorded run it accepts, and the compared state is the result of the very
   functions full_simple / full_plus / full_comma the theorems speak about. *)
From Coq Require Import List ZArith Bool Arith Lia PrimFloat.
From DV Require Model.C02_Variation.
From DV Require Import Base.Corr Model.C03_Loops Proofs.C03_Loops Model.C03_Full Proofs.C03_Compose
                       Corr.C03 Proofs.C03_Corr Corr.C03_Full.
Import ListNotations.
Local Open Scope nat_scope.

Lemma heap_of_finit_ok p objs pop : finit_ok_b p objs pop = true -> finit_ok (ev_fun p) (heap_of objs) pop.
Proof.
  unfold finit_ok_b. intro H. apply andb_prop in H. destruct H as [H1 H2].
  rewrite forallb_forall in H1, H2. constructor.
  - intros u Hu. exact Hu.
  - unfold V.pop_ok. apply Forall_forall. intros u Hu. apply Nat.ltb_lt. exact (H1 u Hu).
  - intros u v _ _ E. exact E.
  - apply Forall_forall. intros u Hu. specialize (H2 u Hu). unfold V.fit_of. cbn.
    destruct (nth_error objs u) as [[g [f|]]|]; cbn; [right|left; reflexivity|discriminate].
    apply zl_eqb_eq in H2. rewrite H2. reflexivity.
Qed.

Lemma sel_in_b_sound n k sel : sel_in_b n k sel = true -> sel_in n k sel.
Proof.
  unfold sel_in_b, sel_in. intro H. apply andb_prop in H. destruct H as [H1 H2].
  apply Nat.eqb_eq in H1. split; [exact H1|]. apply Forall_forall. intros i Hi.
  rewrite forallb_forall in H2. apply Nat.ltb_lt. exact (H2 i Hi).
Qed.

Lemma forallb_sel_in n k sels : forallb (sel_in_b n k) sels = true -> Forall (sel_in n k) sels.
Proof.
  intro H. rewrite forallb_forall in H. apply Forall_forall. intros s Hs. apply sel_in_b_sound. exact (H s Hs).
Qed.

(* the selection contract of the theorems, per loop *)
Definition sels_ok (k : fkind) (n mu lam : nat) (sels : list (list nat)) : Prop :=
  match k with
  | FSimple => Forall (sel_in n n) sels
  | FPlus => sels_plus n mu lam sels
  | FComma => Forall (sel_in lam mu) sels
  end.

Lemma pres_plus_tail n mu lam : forall r gen, 2 <= gen -> Forall (sel_in (mu + lam) mu) r ->
  pres (fun gen => sel_in (plus_size n mu gen + lam) mu) gen r.
Proof.
  induction r as [|x r IH]; intros gen G H; cbn; [exact I|]. inversion H; subst. split.
  - unfold plus_size. destruct (Nat.eqb_spec gen 1); [lia|assumption].
  - apply IH; [lia|assumption].
Qed.

Lemma sels_ok_b_sound k n mu lam sels : sels_ok_b k n mu lam sels = true -> sels_ok k n mu lam sels.
Proof.
  destruct k; cbn.
  - apply forallb_sel_in.
  - destruct sels as [|s1 r]; [intros _; exact I|]. intro H. apply andb_prop in H. destruct H as [H1 H2].
    unfold sels_plus. cbn. split; [apply sel_in_b_sound; exact H1|].
    apply pres_plus_tail; [lia|apply forallb_sel_in; exact H2].
  - apply forallb_sel_in.
Qed.

Lemma script_ok_b_sound script : script_ok_b script = true ->
  forall k x y, V.ret_distinct (V.ma_r1 (mate_of script k x y)) (V.ma_r2 (mate_of script k x y)).
Proof.
  intros H k x y. unfold mate_of. destruct (nth_error script k) as [[i1 i2 o1 o2 r1 r2|i1 o1 r]|] eqn:E; cbn; try exact I.
  destruct (obj_eqb x i1 && obj_eqb y i2); cbn; [|exact I].
  unfold script_ok_b in H. rewrite forallb_forall in H. specialize (H _ (nth_error_In _ _ E)). cbn in H.
  destruct r1, r2; cbn in *; try exact I; discriminate.
Qed.

(* an accepted returning run: the hypotheses hold and the compared state is the model's run *)
Theorem check_full_validates k ngen p w mu lambda_ cxpb mutpb objs pop draws script sels oc ol os ofin oi :
  check (CFull k ngen p w mu lambda_ cxpb mutpb objs pop draws script sels oc ol os ofin oi) = true ->
  finit_ok (ev_fun p) (heap_of objs) pop /\
  (forall j x y, V.ret_distinct (V.ma_r1 (mate_of script j x y)) (V.ma_r2 (mate_of script j x y))) /\
  sels_ok k (length pop) mu (Z.to_nat lambda_) (map os_idx sels) /\
  length sels = ngen /\
  exists e, full_kind p w script k mu lambda_ cxpb mutpb (heap_of objs) draws pop (map os_idx sels) = FOk e /\
            state_matches (fview e) oc ol os ofin = true /\ f_dr e = [] /\ f_kc e = length script /\ oi = true.
Proof.
  cbn [check]. intro H.
  apply andb_prop in H. destruct H as [H H4]. apply andb_prop in H. destruct H as [H H3].
  apply andb_prop in H. destruct H as [H1 H2].
  split; [apply heap_of_finit_ok; exact H1|]. split; [apply script_ok_b_sound; exact H2|].
  split; [apply sels_ok_b_sound; exact H3|].
  destruct (full_kind p w script k mu lambda_ cxpb mutpb (heap_of objs) draws pop (map os_idx sels)) as [e|] eqn:E; [|discriminate].
  destruct (fcheck_gens _ k mu 1 _ sels) as [e'|]; [|discriminate].
  apply andb_prop in H4. destruct H4 as [H4 _]. apply andb_prop in H4. destruct H4 as [H4 Hk].
  apply andb_prop in H4. destruct H4 as [H4 Hd]. apply andb_prop in H4. destruct H4 as [H4 Hi].
  apply andb_prop in H4. destruct H4 as [Hn Hm].
  split; [apply Nat.eqb_eq; exact Hn|]. exists e. split; [reflexivity|]. split; [exact Hm|].
  split; [destruct (f_dr e); [reflexivity|discriminate]|]. split; [apply Nat.eqb_eq; exact Hk|exact Hi].
Qed.

(* end to end: for every recorded run of the implementation that the runner accepts, the state of the
   composed model that agrees with everything observed satisfies the invariants -- with no hypothesis
   left about what varAnd / varOr returned *)
Theorem accepted_full_simple_run ngen p w mu lambda_ cxpb mutpb objs pop draws script sels oc ol os ofin oi :
  check (CFull FSimple ngen p w mu lambda_ cxpb mutpb objs pop draws script sels oc ol os ofin oi) = true ->
  exists e, full_simple (ev_fun p) (wfle w) PrimFloat.ltb (mate_of script) (mut_of script) cxpb mutpb
                        (heap_of objs) draws pop (map os_idx sels) = FOk e /\
    InvC (ev_fun p) (fview e) /\ InvH (ev_fun p) (wfle w) (fview e) /\
    length (f_log e) = S ngen /\ length (f_pop e) = length pop /\
    state_matches (fview e) oc ol os ofin = true.
Proof.
  intro H. destruct (check_full_validates _ _ _ _ _ _ _ _ _ _ _ _ _ _ _ _ _ _ H) as [Hi [Md [Hs [Ln [e [E [Sm _]]]]]]].
  cbn in E, Hs. exists e. split; [exact E|].
  pose proof E as E'. rewrite <- (app_nil_r (map os_idx sels)) in E', Hs.
  destruct (full_simple_every_boundary (ev_fun p) (wfle w) PrimFloat.ltb (mate_of script) (mut_of script) Md
              cxpb mutpb (heap_of objs) draws pop (map os_idx sels) [] e Hi Hs E') as [b [Eb [Iv [Ll [Lp _]]]]].
  destruct (full_simple_hof (ev_fun p) (wfle w) PrimFloat.ltb (mate_of script) (mut_of script) (wfle_total w) (wfle_trans w)
              cxpb mutpb (heap_of objs) draws pop (map os_idx sels) [] e Md Hi Hs E') as [b' [Eb' Ih]].
  rewrite E in Eb, Eb'. inversion Eb; subst b. inversion Eb'; subst b'.
  rewrite map_length, Ln in Ll. auto.
Qed.

Theorem accepted_full_plus_run ngen p w mu lambda_ cxpb mutpb objs pop draws script sels oc ol os ofin oi :
  check (CFull FPlus ngen p w mu lambda_ cxpb mutpb objs pop draws script sels oc ol os ofin oi) = true ->
  exists e, full_plus (ev_fun p) (wfle w) PrimFloat.ltb PrimFloat.leb PrimFloat.add 1%float (mate_of script) (mut_of script)
                      lambda_ cxpb mutpb (heap_of objs) draws pop (map os_idx sels) = FOk e /\
    InvC (ev_fun p) (fview e) /\ InvH (ev_fun p) (wfle w) (fview e) /\
    length (f_log e) = S ngen /\ length (f_pop e) = match ngen with 0 => length pop | _ => mu end /\
    state_matches (fview e) oc ol os ofin = true.
Proof.
  intro H. destruct (check_full_validates _ _ _ _ _ _ _ _ _ _ _ _ _ _ _ _ _ _ H) as [Hi [_ [Hs [Ln [e [E [Sm _]]]]]]].
  cbn in E, Hs. exists e. split; [exact E|].
  pose proof E as E'. rewrite <- (app_nil_r (map os_idx sels)) in E', Hs.
  destruct (full_plus_every_boundary (ev_fun p) (wfle w) PrimFloat.ltb PrimFloat.leb PrimFloat.add 1%float (mate_of script) (mut_of script)
              mu lambda_ cxpb mutpb (heap_of objs) draws pop (map os_idx sels) [] e Hi Hs E') as [b [Eb [Iv [Ll [Lp _]]]]].
  destruct (full_plus_hof (ev_fun p) (wfle w) PrimFloat.ltb PrimFloat.leb PrimFloat.add 1%float (mate_of script) (mut_of script)
              (wfle_total w) (wfle_trans w) mu lambda_ cxpb mutpb (heap_of objs) draws pop (map os_idx sels) [] e Hi Hs E') as [b' [Eb' Ih]].
  rewrite E in Eb, Eb'. inversion Eb; subst b. inversion Eb'; subst b'.
  rewrite map_length, Ln in Ll. split; [exact Iv|]. split; [exact Ih|]. split; [exact Ll|]. split; [|exact Sm].
  rewrite Lp. subst ngen. destruct sels; reflexivity.
Qed.

Theorem accepted_full_comma_run ngen p w mu lambda_ cxpb mutpb objs pop draws script sels oc ol os ofin oi :
  check (CFull FComma ngen p w mu lambda_ cxpb mutpb objs pop draws script sels oc ol os ofin oi) = true ->
  exists e, full_comma (ev_fun p) (wfle w) PrimFloat.ltb PrimFloat.leb PrimFloat.add 1%float (mate_of script) (mut_of script)
                       mu lambda_ cxpb mutpb (heap_of objs) draws pop (map os_idx sels) = FOk e /\
    InvC (ev_fun p) (fview e) /\ InvH (ev_fun p) (wfle w) (fview e) /\
    length (f_log e) = S ngen /\ length (f_pop e) = match ngen with 0 => length pop | _ => mu end /\
    state_matches (fview e) oc ol os ofin = true.
Proof.
  intro H. destruct (check_full_validates _ _ _ _ _ _ _ _ _ _ _ _ _ _ _ _ _ _ H) as [Hi [_ [Hs [Ln [e [E [Sm _]]]]]]].
  cbn in E, Hs. exists e. split; [exact E|].
  pose proof E as E'. rewrite <- (app_nil_r (map os_idx sels)) in E', Hs.
  destruct (full_comma_every_boundary (ev_fun p) (wfle w) PrimFloat.ltb PrimFloat.leb PrimFloat.add 1%float (mate_of script) (mut_of script)
              mu lambda_ cxpb mutpb (heap_of objs) draws pop (map os_idx sels) [] e Hi Hs E') as [b [Eb [Iv [Ll [Lp _]]]]].
  destruct (full_comma_hof (ev_fun p) (wfle w) PrimFloat.ltb PrimFloat.leb PrimFloat.add 1%float (mate_of script) (mut_of script)
              (wfle_total w) (wfle_trans w) mu lambda_ cxpb mutpb (heap_of objs) draws pop (map os_idx sels) [] e Hi Hs E') as [b' [Eb' Ih]].
  rewrite E in Eb, Eb'. inversion Eb; subst b. inversion Eb'; subst b'.
  rewrite map_length, Ln in Ll. split; [exact Iv|]. split; [exact Ih|]. split; [exact Ll|]. split; [|exact Sm].
  rewrite Lp. subst ngen. destruct sels; reflexivity.
Qed.
