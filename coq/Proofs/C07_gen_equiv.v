(* C07 — tie (T): the definitions regenerated from the working-tree source of deap/tools/emo.py
   (coq/Gen/C07_gen.v, written by harness/c07_py2coq.py on every run) are equal to the hand model the C07
   theorems are stated about, for all arguments (and all draw lists).
   The proofs go through characterising lemmas of the loops that are generic in the loop guard / body (any
   guard and body that are pointwise equal to the model's), so that renamed locals, `j = j - 1` for `j -= 1`,
   a different order of the loop-carried variables etc. still go through; every script also accepts the
   alias a refused function is emitted as. *)
From Coq Require Import List ZArith QArith Bool Lia.
From DV Require Import Base.PyList Base.C07_Num Model.C07_Spea2 Model.C07_RefPoints Model.C07_GenRt Gen.C07_gen
                       Proofs.C07_SelectGen Proofs.C07_Spea2 Proofs.C07_RefPoints.
Import ListNotations.
Local Open Scope nat_scope.

Section Equiv.
Context {T : Type} (Op : numops T).

Ltac side := intros; cbv beta zeta; first [reflexivity | lia | f_equal; lia].

(* while array[j] > x: j -= 1 *)
Lemma while_scan_down fuel (arr : list T) x (c : Z -> bool) (b : Z -> Z) j :
  (forall j, c j = n_ltb Op x (getz Op arr j)) -> (forall j, b j = (j - 1)%Z) ->
  while_ fuel c b j = scan_down Op fuel arr x j.
Proof.
  intros Hc Hb. revert j. induction fuel as [|f IH]; intro j; cbn; [reflexivity|].
  rewrite Hc. destruct (n_ltb Op x (getz Op arr j)); [|reflexivity]. rewrite Hb. apply IH.
Qed.

(* while array[i] < x: i += 1 *)
Lemma while_scan_up fuel (arr : list T) x (c : Z -> bool) (b : Z -> Z) i :
  (forall i, c i = n_ltb Op (getz Op arr i) x) -> (forall i, b i = (i + 1)%Z) ->
  while_ fuel c b i = scan_up Op fuel arr x i.
Proof.
  intros Hc Hb. revert i. induction fuel as [|f IH]; intro i; cbn; [reflexivity|].
  rewrite Hc. destruct (n_ltb Op (getz Op arr i) x); [|reflexivity]. rewrite Hb. apply IH.
Qed.

Ltac scans :=
  repeat first
    [ erewrite while_scan_down by side
    | erewrite while_scan_up by side ].

Theorem gen_partition_eq (arr : list T) (b e : Z) :
  gen_partition Op arr b e = partition Op arr b e.
Proof.
  first [ solve [unfold gen_partition; reflexivity] | idtac "gen_partition: regenerated" ].
  all: unfold gen_partition, partition; cbv zeta.
  all: generalize (getz Op arr b) as x; intro x.
  all: generalize (S (length arr)) as n; intro n.
  all: generalize (b - 1)%Z as i; generalize (e + 1)%Z as j.
  all: revert arr; induction n as [|n IH]; intros arr j i; [reflexivity|].
  all: cbn [loop_ret part_loop]; cbv beta iota zeta; scans.
  all: match goal with |- context [(?a <? ?b)%Z] => destruct (a <? b)%Z end; [|reflexivity].
  all: unfold swapz, setz in *; apply IH.
Qed.

Theorem gen_randomizedPartition_eq (arr : list T) (b e : Z) (ds : list Z) :
  gen_randomizedPartition Op arr b e ds
  = let '(r, ds') := randint b e ds in (rand_partition Op arr b e r, ds').
Proof.
  first [ solve [unfold gen_randomizedPartition; reflexivity] | idtac "gen_randomizedPartition: regenerated" ].
  all: unfold gen_randomizedPartition; destruct (randint b e ds) as [r d]; cbv zeta.
  all: rewrite gen_partition_eq; unfold rand_partition, swapz, setz.
  all: match goal with |- context [partition Op ?a ?x ?y] => destruct (partition Op a x y) end.
  all: reflexivity.
Qed.

Theorem gen_randomizedSelect_eq (fuel : nat) (arr : list T) (b e i : Z) (ds : list Z) :
  gen_randomizedSelect Op fuel arr b e i ds = rand_select Op fuel arr b e i ds.
Proof.
  first [ solve [unfold gen_randomizedSelect; reflexivity] | idtac "gen_randomizedSelect: regenerated" ].
  all: revert arr b e i ds; induction fuel as [|f IH]; intros arr b e i ds; [reflexivity|].
  all: cbn [gen_randomizedSelect rand_select].
  all: destruct (b =? e)%Z; [reflexivity|].
  all: rewrite gen_randomizedPartition_eq; unfold randint.
  all: destruct ds as [|r d]; cbv zeta;
      (match goal with |- context [rand_partition Op ?a ?x ?y ?z] => destruct (rand_partition Op a x y z) as [arr' q] end);
      cbv beta iota zeta;
      repeat (match goal with |- context [(?a <? ?k)%Z] => destruct (Z.ltb_spec a k) end);
      try lia; rewrite IH; f_equal; lia.
Qed.

(* ---- selSPEA2 (lines 725-743 and the branch structure; the two archive branches are separate units) ---- *)
Lemma pair_step_lengths w st p :
  length (fst (pair_step Op w st p)) = length (fst st) /\ length (snd (pair_step Op w st p)) = length (snd st).
Proof.
  destruct st as [S_ D], p as [i j]. unfold pair_step, incr, push.
  destruct (dominates Op (nth i w []) (nth j w [])); [cbn; now rewrite !set_nth_length|].
  destruct (dominates Op (nth j w []) (nth i w [])); cbn; now rewrite ?set_nth_length.
Qed.

Lemma phase1_lengths w N : length (fst (phase1 Op w N)) = N /\ length (snd (phase1 Op w N)) = N.
Proof.
  unfold phase1.
  assert (G : forall ps st, length (fst (fold_left (pair_step Op w) ps st)) = length (fst st) /\
                            length (snd (fold_left (pair_step Op w) ps st)) = length (snd st)).
  { induction ps as [|p ps IH]; intro st; [split; reflexivity|]. cbn [fold_left].
    destruct (IH (pair_step Op w st p)) as [A B]. destruct (pair_step_lengths w st p) as [C D]. split; congruence. }
  destruct (G (pairs N) (repeat 0%nat N, repeat [] N)) as [A B]. cbn [fst snd] in *. rewrite repeat_length in *. auto.
Qed.

Lemma pair_eta {A B} (p : A * B) : (let '(a, b) := p in (a, b)) = p.
Proof. now destruct p. Qed.
Lemma map_const_seq {A} (c : A) s n : map (fun _ => c) (seq s n) = repeat c n.
Proof. revert s. induction n as [|n IH]; intro s; [reflexivity|]. cbn. now rewrite IH. Qed.
Lemma nth_map_snd (inds : list (list T * list T)) i : nth i (map snd inds) [] = snd (nth i inds (@nil T, @nil T)).
Proof. exact (map_nth snd inds (@nil T, @nil T) i). Qed.

Local Notation zero := (n_ofZ Op 0%Z).

(* for l in range(L): val = a[l] - b[l]; dist += val * val *)
Lemma sqdist_loop (a b : list T) L (F : nat -> T -> T) :
  length a = L -> length b = L ->
  (forall l acc, F l acc = n_add Op acc (n_mul Op (n_sub Op (nth l a zero) (nth l b zero)) (n_sub Op (nth l a zero) (nth l b zero)))) ->
  for_ (seq 0 L) F zero = sqdist Op a b.
Proof.
  intros Ha Hb HF. unfold sqdist. rewrite (zip_nth_seq a b zero zero L Ha Hb).
  unfold for_. generalize (seq 0 L) as xs. generalize zero at 1 4 as acc. intros acc xs. revert acc.
  induction xs as [|x xs IH]; intro acc; [reflexivity|]. cbn [map fold_left fst snd]. rewrite HF. apply IH.
Qed.

(* distances = [0.0] * N; for j in range(i+1, N): distances[j] = g j *)
Lemma dist_row_loop (vals : list (list T)) N i (g : nat -> T) :
  i < N -> (forall j, i < j < N -> g j = sqdist Op (nth i vals []) (nth j vals [])) ->
  for_ (seq (S i) (N - S i)) (fun j d => set_nth d j (g j)) (repeat zero N) = dist_row Op vals N i.
Proof.
  intros Hi Hg.
  destruct (for_set_range_spec g zero (N - S i) (S i) (repeat zero N)) as [L Hn]; [rewrite repeat_length; lia|].
  rewrite repeat_length in L.
  apply (nth_ext _ _ zero zero); [unfold dist_row; now rewrite L, tab_length|].
  intros j Hj. rewrite L in Hj. rewrite Hn. unfold dist_row. rewrite nth_tab by exact Hj.
  destruct (Nat.ltb_spec i j) as [Lt|Ge].
  - destruct (Nat.leb_spec (S i) j); [|lia]. destruct (Nat.ltb_spec j (S i + (N - S i))); [|lia]. cbn [andb]. apply Hg. lia.
  - destruct (Nat.leb_spec (S i) j); [lia|]. cbn [andb]. apply nth_repeat.
Qed.

Lemma nth_map_fst (inds : list (list T * list T)) i : nth i (map fst inds) [] = fst (nth i inds (@nil T, @nil T)).
Proof. exact (map_nth fst inds (@nil T, @nil T) i). Qed.

Lemma skipn_nth_cons {A} (l : list A) a d : a < length l -> skipn a l = nth a l d :: skipn (S a) l.
Proof.
  revert l. induction a as [|a IH]; intros l H; destruct l as [|x r]; cbn in H; try lia; [reflexivity|].
  cbn [skipn nth]. apply IH. lia.
Qed.

(* the loop over i of the "archive too small" branch, generic in the body: it only has to select the k-th distance
   of row i with the shared draw list and add the density to fits[i] *)
Lemma fill_loop (vals : list (list T)) N (fits : list nat)
      (BODY : nat -> list (pynum T) * list Z -> list (pynum T) * list Z) :
  length fits = N ->
  (forall i st ds, i < N -> length st = N ->
     BODY i (st, ds) = let '(kth, d1) := rand_select Op (S N) (dist_row Op vals N i) 0%Z (Z.of_nat N - 1)%Z (rank_of N) ds in
                       (set_nth st i (padd Op (nth i st (PI 0)) (PF (density Op kth))), d1)) ->
  forall n a pre ds, length pre = a -> a + n <= N ->
    for_ (seq a n) BODY (pre ++ map PI (skipn a fits), ds)
    = let '(keys, d) := fill_keys Op vals N (seq a n) fits ds in (pre ++ map PF keys ++ map PI (skipn (a + n) fits), d).
Proof.
  intros Lf HB. induction n as [|n IH]; intros a pre ds La Han.
  - cbn. now rewrite Nat.add_0_r.
  - cbn [seq]. unfold for_ in *. cbn [fold_left fill_keys].
    rewrite HB; [|lia|rewrite app_length, map_length, skipn_length; lia].
    destruct (rand_select Op (S N) (dist_row Op vals N a) 0 (Z.of_nat N - 1) (rank_of N) ds) as [kth d1].
    rewrite (skipn_nth_cons fits a 0) by lia. cbn [map].
    rewrite app_nth2 by lia. rewrite La, Nat.sub_diag. cbn [nth padd pn_val].
    rewrite (set_nth_app_mid pre _ _ _ a La).
    set (key := n_add Op (n_ofZ Op (Z.of_nat (nth a fits 0))) (density Op kth)).
    change (pre ++ PF key :: map PI (skipn (S a) fits)) with (pre ++ [PF key] ++ map PI (skipn (S a) fits)).
    rewrite app_assoc. rewrite (IH (S a) (pre ++ [PF key]) d1); [|rewrite app_length; cbn; lia|lia].
    destruct (fill_keys Op vals N (seq (S a) n) fits d1) as [ks d2]. cbn [map app].
    rewrite <- app_assoc. cbn [app]. replace (S a + n) with (a + S n) by lia. reflexivity.
Qed.

(* the two archive branches: regenerated units or aliases of the model's branch functions *)
(* the two archive branches: regenerated units or aliases of the model's branch functions *)
Theorem gen_selSPEA2_fill_eq (inds : list (list T * list T)) k N L K fits chosen ds :
  N = length inds -> K = rank_of N -> length fits = N -> (forall ind, In ind inds -> length (fst ind) = L) ->
  length chosen < k ->
  gen_selSPEA2_fill Op inds k N L K fits chosen ds = fill_branch Op (map fst inds) N k fits chosen ds.
Proof.
  intros HN HK Lf HL Hk.
  first [ solve [unfold gen_selSPEA2_fill; reflexivity] | idtac "gen_selSPEA2_fill: regenerated";
  unfold gen_selSPEA2_fill, fill_branch; cbv zeta;
  (* the loop over i: k-th distance of row i, density added to fits[i] *)
  match goal with |- context [for_ (seq 0 N) ?F (map PI fits, ds)] =>
    assert (P : for_ (seq 0 N) F (map PI fits, ds)
                = let '(keys, d) := fill_keys Op (map fst inds) N (seq 0 N) fits ds in (map PF keys, d));
    [ rewrite (fill_loop (map fst inds) N fits _ Lf) with (pre := []) (a := 0); [| |reflexivity|lia];
      [ cbn [app plus]; destruct (fill_keys Op (map fst inds) N (seq 0 N) fits ds) as [keys d];
        rewrite skipn_all2 by lia; cbn [map]; now rewrite app_nil_r
      | intros i st ds' Hi Ls; cbv beta iota zeta; rewrite ?Nat.add_1_r;
        match goal with |- context [for_ (seq (S i) (N - S i)) (fun j d => set_nth d j (@?g j)) (repeat zero N)] =>
          rewrite (dist_row_loop (map fst inds) N i g Hi) end;
        [ unfold dist_row at 1; rewrite tab_length; rewrite gen_randomizedSelect_eq; subst K;
          destruct (rand_select Op (S N) (dist_row Op (map fst inds) N i) 0 (Z.of_nat N - 1) (rank_of N) ds') as [kth d1];
          reflexivity
        | intros j Hj; cbv beta; rewrite !nth_map_fst;
          apply (sqdist_loop (fst (nth i inds (@nil T, @nil T))) (fst (nth j inds (@nil T, @nil T))) L);
          [ apply HL, nth_In; lia | apply HL, nth_In; lia | intros; reflexivity ] ] ]
    | rewrite P; clear P ] end;
  pose proof (fill_keys_length Op (map fst inds) N fits (seq 0 N) ds) as LK;
  destruct (fill_keys Op (map fst inds) N (seq 0 N) fits ds) as [keys d]; cbn [fst] in LK; rewrite seq_length in LK;
  f_equal; f_equal;
  (* the (fits[i], i) tuples of the individuals not yet chosen, sorted; the first k - len(chosen) *)
  unfold py_firstn; destruct (Z.ltb_spec (Z.of_nat k - Z.of_nat (length chosen)) 0); [lia|];
  replace (Z.to_nat (Z.of_nat k - Z.of_nat (length chosen))) with (k - length chosen) by lia;
  match goal with |- context [sort_pn Op ?l] => set (l1 := l) end;
  transitivity (map snd (firstn (k - length chosen) (map (pn_conv Op) (sort_pn Op l1))));
  [ rewrite firstn_map, map_map; apply map_ext; intros [a b]; reflexivity | ];
  rewrite sort_pn_conv; f_equal; f_equal; f_equal;
  rewrite (zip_nth_seq keys (seq 0 N) zero 0 N LK (seq_length _ _)), filter_map_comm; cbn [snd];
  unfold l1; rewrite map_map;
  assert (Fe : filter (fun x : nat => negb (memb (nth x (seq 0 N) 0) chosen)) (seq 0 N)
               = filter (fun x_ : nat => negb (memb x_ chosen)) (seq 0 N))
    by (apply filter_ext_in; intros x Hx; apply in_seq in Hx; rewrite seq_nth by lia; reflexivity);
  rewrite Fe; apply map_ext_in; intros x Hx; apply filter_In in Hx; destruct Hx as [Hx _]; apply in_seq in Hx;
  unfold pn_conv; cbn [fst snd]; rewrite seq_nth by lia; cbn [plus]; f_equal;
  rewrite (nth_indep _ (PI 0) (PF zero)) by (rewrite map_length; lia);
  rewrite (map_nth PF keys zero x); reflexivity ].
Qed.

(* ---- the "archive too large" branch ---- *)
Definition set2 {A} (D : list (list A)) (i j : nat) (v : A) : list (list A) := set_nth D i (set_nth (nth i D []) j v).
Definition mat {A} (N : nat) (M : list (list A)) : Prop := length M = N /\ forall i, i < N -> length (nth i M []) = N.

Lemma set2_mat {A} N (M : list (list A)) i j v : mat N M -> mat N (set2 M i j v).
Proof.
  intros [L R]. unfold set2. split; [now rewrite set_nth_length|]. intros p Hp.
  destruct (Nat.eq_dec i p) as [->|Ne].
  - rewrite nth_set_nth_same by lia. rewrite set_nth_length. now apply R.
  - rewrite nth_set_nth_other by exact Ne. now apply R.
Qed.

Lemma nth2_set2 {A} N (M : list (list A)) i j v p q d : mat N M -> i < N -> j < N ->
  nth q (nth p (set2 M i j v) []) d = if Nat.eqb p i && Nat.eqb q j then v else nth q (nth p M []) d.
Proof.
  intros [L R] Hi Hj. unfold set2.
  destruct (Nat.eqb_spec p i) as [->|Ne]; cbn [andb].
  - rewrite nth_set_nth_same by lia. destruct (Nat.eqb_spec q j) as [->|Nq].
    + rewrite nth_set_nth_same; [reflexivity|rewrite R; lia].
    + rewrite nth_set_nth_other by congruence. reflexivity.
  - rewrite nth_set_nth_other by congruence. reflexivity.
Qed.

(* two successive x[a][b] = v; x[c][d] = w *)
Lemma dset_spec N (M : list (list T)) a b v c d w : mat N M -> a < N -> b < N -> c < N -> d < N ->
  mat N (set2 (set2 M a b v) c d w) /\
  forall p q, nth q (nth p (set2 (set2 M a b v) c d w) []) zero =
    if Nat.eqb p c && Nat.eqb q d then w else if Nat.eqb p a && Nat.eqb q b then v else nth q (nth p M []) zero.
Proof.
  intros MM Ha Hb Hc Hd. split; [now apply set2_mat, set2_mat|]. intros p q.
  rewrite (nth2_set2 N) by (try apply set2_mat; assumption). rewrite (nth2_set2 N) by assumption. reflexivity.
Qed.

Lemma for_seq_inv {S} (P : nat -> S -> Prop) (f : nat -> S -> S) : forall n a s,
  P a s -> (forall i s, a <= i < a + n -> P i s -> P (Datatypes.S i) (f i s)) -> P (a + n) (for_ (seq a n) f s).
Proof.
  induction n as [|n IH]; intros a s H0 Hs.
  - rewrite Nat.add_0_r. exact H0.
  - cbn [seq]. unfold for_ in *. cbn [fold_left]. replace (a + Datatypes.S n) with (Datatypes.S a + n) by lia.
    apply IH; [apply Hs; [lia|exact H0]|]. intros i s' Hi. apply Hs. lia.
Qed.

Lemma mat_ext {A} N (M M' : list (list A)) d : mat N M -> mat N M' ->
  (forall p q, p < N -> q < N -> nth q (nth p M []) d = nth q (nth p M' []) d) -> M = M'.
Proof.
  intros [L R] [L' R'] H. apply (nth_ext _ _ [] []); [congruence|]. intros p Hp. rewrite L in Hp.
  apply (nth_ext _ _ d d); [rewrite R, R' by exact Hp; reflexivity|]. intros q Hq. rewrite R in Hq by exact Hp. now apply H.
Qed.

Ltac bdec := repeat match goal with
  | |- context [Nat.eqb ?a ?b] =>
      first [ replace (Nat.eqb a b) with true by (symmetry; apply Nat.eqb_eq; lia)
            | replace (Nat.eqb a b) with false by (symmetry; apply Nat.eqb_neq; lia) ]
  | |- context [Nat.ltb ?a ?b] =>
      first [ replace (Nat.ltb a b) with true by (symmetry; apply Nat.ltb_lt; lia)
            | replace (Nat.ltb a b) with false by (symmetry; apply Nat.ltb_ge; lia) ]
  end; cbn [andb orb].
Ltac cmp x y := destruct (lt_eq_lt_dec x y) as [[?|?]|?].
Ltac bfin := bdec; rewrite ?andb_false_r, ?andb_true_r, ?orb_false_r, ?orb_true_r; try reflexivity;
  repeat (match goal with |- context [if ?b then _ else _] => destruct b end); reflexivity.

(* for i in range(N): for j in range(i+1, N): D[i][j] = D[j][i] = g i j;  D[i][i] = c *)
Lemma sym_matrix_loop N (g : nat -> nat -> T) (c : T) (D0 : list (list T)) :
  mat N D0 -> (forall p q, p < N -> q < N -> nth q (nth p D0 []) zero = zero) ->
  let D := for_ (seq 0 N) (fun i D =>
             set2 (for_ (seq (S i) (N - S i)) (fun j D => set2 (set2 D i j (g i j)) j i (g i j)) D) i i c) D0 in
  mat N D /\ forall p q, p < N -> q < N ->
    nth q (nth p D []) zero = if Nat.eqb p q then c else if Nat.ltb p q then g p q else g q p.
Proof.
  intros M0 Z0. cbv zeta.
  set (F := fun p q => if Nat.eqb p q then c else if Nat.ltb p q then g p q else g q p).
  set (P := fun (a : nat) (D : list (list T)) => mat N D /\ forall p q, p < N -> q < N ->
              nth q (nth p D []) zero = if Nat.ltb p a || Nat.ltb q a then F p q else zero).
  assert (G : P (0 + N) (for_ (seq 0 N) (fun i D =>
             set2 (for_ (seq (S i) (N - S i)) (fun j D => set2 (set2 D i j (g i j)) j i (g i j)) D) i i c) D0)).
  { apply for_seq_inv.
    - split; [exact M0|]. intros p q Hp Hq. cbn. now apply Z0.
    - intros i D Hi [MD HD].
      set (Q := fun (b : nat) (D' : list (list T)) => mat N D' /\ forall p q, p < N -> q < N ->
                  nth q (nth p D' []) zero =
                  if Nat.ltb p i || Nat.ltb q i then F p q
                  else if (Nat.eqb p i && Nat.ltb i q && Nat.ltb q b) || (Nat.eqb q i && Nat.ltb i p && Nat.ltb p b) then F p q
                  else zero).
      assert (GI : Q (S i + (N - S i)) (for_ (seq (S i) (N - S i)) (fun j D => set2 (set2 D i j (g i j)) j i (g i j)) D)).
      { apply for_seq_inv.
        - split; [exact MD|]. intros p q Hp Hq. rewrite HD by assumption.
          cmp p i; cmp q i; subst; bdec; reflexivity.
        - intros j D' Hj [MD' HD']. split; [now apply set2_mat, set2_mat|]. intros p q Hp Hq.
          rewrite (nth2_set2 N) by (try apply set2_mat; try assumption; lia).
          rewrite (nth2_set2 N) by (try assumption; lia). rewrite HD' by assumption. unfold F.
          cmp p i; cmp q i; subst; try (cmp p j; subst); try (cmp q j; subst); try (exfalso; lia); bdec; reflexivity. }
      destruct GI as [MI HI]. split; [now apply set2_mat|]. intros p q Hp Hq.
      rewrite (nth2_set2 N) by (try assumption; lia). rewrite HI by assumption. unfold F.
      cmp p i; cmp q i; subst; try (cmp p q; subst); try (exfalso; lia); bdec; reflexivity. }
  destruct G as [MG HG]. split; [exact MG|]. intros p q Hp Hq. rewrite HG by assumption.
  destruct (Nat.ltb_spec p (0 + N)); [reflexivity|lia].
Qed.

Lemma sym_matrix_loop_F N (g : nat -> nat -> T) (c : T) (D0 : list (list T)) (F : nat -> list (list T) -> list (list T)) :
  (forall i D, F i D = set2 (for_ (seq (i + 1) (N - (i + 1))) (fun j D => set2 (set2 D i j (g i j)) j i (g i j)) D) i i c) ->
  mat N D0 -> (forall p q, p < N -> q < N -> nth q (nth p D0 []) zero = zero) ->
  mat N (for_ (seq 0 N) F D0) /\ forall p q, p < N -> q < N ->
    nth q (nth p (for_ (seq 0 N) F D0) []) zero = if Nat.eqb p q then c else if Nat.ltb p q then g p q else g q p.
Proof.
  intros HF M0 Z0.
  rewrite (for_ext (seq 0 N) F (fun i D => set2 (for_ (seq (S i) (N - S i)) (fun j D => set2 (set2 D i j (g i j)) j i (g i j)) D) i i c)).
  - exact (sym_matrix_loop N g c D0 M0 Z0).
  - intros i D _. rewrite HF, Nat.add_1_r. reflexivity.
Qed.

Lemma set_nth_nth_id {A} (l : list A) i d : i < length l -> set_nth l i (nth i l d) = l.
Proof. revert i. induction l as [|x r IH]; intros i H; [cbn in H; lia|]. destruct i; cbn; [reflexivity|]. f_equal. apply IH. cbn in H. lia. Qed.

Lemma ins_rev_len (drow : list T) j : forall rl, length (ins_rev Op drow j rl) = S (length rl).
Proof. induction rl as [|e rl IH]; cbn; [reflexivity|]. destruct (n_ltb Op (nth j drow zero) (nth e drow zero)); cbn; [now rewrite IH|reflexivity]. Qed.

(* m = j; while m > 0 and d[j] < d[row[m-1]]: row[m] = row[m-1]; m -= 1;  row[m] = j   on row i of SI:
   one insertion step of the hand model on the reversed prefix; generic in the guard C and the step B *)
Lemma ins_while (drow : list T) (j : nat) (SI0 : list (list nat)) (i : nat)
      (C : list (list nat) * Z -> bool) (B : list (list nat) * Z -> list (list nat) * Z) :
  i < length SI0 ->
  (forall SI m, C (SI, m) = (0 <? m)%Z && n_ltb Op (nth j drow zero) (nth (nth (Z.to_nat (m - 1)) (nth i SI []) 0) drow zero)) ->
  (forall SI m, B (SI, m) = (set_nth SI i (set_nth (nth i SI []) (Z.to_nat m) (nth (Z.to_nat (m - 1)) (nth i SI []) 0)), (m - 1)%Z)) ->
  forall fuel s1 rl x zeros, length rl < fuel ->
    let '(SI', m') := while_ fuel C B (set_nth SI0 i (rev rl ++ x :: rev s1 ++ zeros), Z.of_nat (length rl)) in
    set_nth SI' i (set_nth (nth i SI' []) (Z.to_nat m') j) = set_nth SI0 i (rev (s1 ++ ins_rev Op drow j rl) ++ zeros).
Proof.
  intros Hi HC HB. induction fuel as [|f IH]; intros s1 rl x zeros Hf; [lia|].
  cbn [while_]. rewrite HC. rewrite nth_set_nth_same by exact Hi.
  destruct rl as [|e rest].
  - cbn [length]. change (Z.of_nat 0) with 0%Z. rewrite Z.ltb_irrefl. cbn [andb]. rewrite nth_set_nth_same by exact Hi.
    rewrite set_nth_set_nth. cbn [rev app ins_rev Z.to_nat set_nth]. rewrite rev_app_distr. reflexivity.
  - cbn [length] in *. destruct (Z.ltb_spec 0 (Z.of_nat (S (length rest)))); [|lia]. cbn [andb].
    replace (Z.to_nat (Z.of_nat (S (length rest)) - 1)) with (length rest) by lia.
    cbn [rev]. rewrite <- app_assoc. cbn [app].
    rewrite (app_nth2 (rev rest)) by (rewrite rev_length; lia). rewrite rev_length, Nat.sub_diag. cbn [nth].
    cbn [ins_rev]. destruct (n_ltb Op (nth j drow zero) (nth e drow zero)).
    + rewrite HB. rewrite nth_set_nth_same by exact Hi. rewrite set_nth_set_nth.
      replace (Z.to_nat (Z.of_nat (S (length rest)) - 1)) with (length rest) by lia.
      rewrite (app_nth2 (rev rest)) by (rewrite rev_length; lia). rewrite rev_length, Nat.sub_diag. cbn [nth].
      rewrite Nat2Z.id.
      change (rev rest ++ e :: x :: rev s1 ++ zeros) with (rev rest ++ [e] ++ x :: rev s1 ++ zeros).
      rewrite app_assoc. rewrite (set_nth_app_mid (rev rest ++ [e])) by (rewrite app_length, rev_length; cbn; lia).
      rewrite <- app_assoc. cbn [app].
      replace (Z.of_nat (S (length rest)) - 1)%Z with (Z.of_nat (length rest)) by lia.
      specialize (IH (s1 ++ [e]) rest e zeros ltac:(lia)).
      rewrite rev_app_distr in IH. cbn [rev app] in IH.
      destruct (while_ f C B (set_nth SI0 i (rev rest ++ e :: e :: rev s1 ++ zeros), Z.of_nat (length rest))) as [SI' m'].
      rewrite IH. rewrite <- app_assoc. reflexivity.
    + rewrite nth_set_nth_same by exact Hi. rewrite set_nth_set_nth. rewrite Nat2Z.id.
      change (rev rest ++ e :: x :: rev s1 ++ zeros) with (rev rest ++ [e] ++ x :: rev s1 ++ zeros).
      rewrite app_assoc. rewrite (set_nth_app_mid (rev rest ++ [e])) by (rewrite app_length, rev_length; cbn; lia).
      rewrite rev_app_distr. cbn [rev]. rewrite <- !app_assoc. reflexivity.
Qed.

Lemma ins_step (drow : list T) (j : nat) (SI0 : list (list nat)) (i : nat)
      (C : list (list nat) * Z -> bool) (B : list (list nat) * Z -> list (list nat) * Z) fuel rl N :
  i < length SI0 ->
  (forall SI m, C (SI, m) = (0 <? m)%Z && n_ltb Op (nth j drow zero) (nth (nth (Z.to_nat (m - 1)) (nth i SI []) 0) drow zero)) ->
  (forall SI m, B (SI, m) = (set_nth SI i (set_nth (nth i SI []) (Z.to_nat m) (nth (Z.to_nat (m - 1)) (nth i SI []) 0)), (m - 1)%Z)) ->
  length rl = j -> j < fuel -> j < N ->
  (let '(SI', m') := while_ fuel C B (set_nth SI0 i (rev rl ++ repeat 0 (N - j)), Z.of_nat j) in
   set_nth SI' i (set_nth (nth i SI' []) (Z.to_nat m') j))
  = set_nth SI0 i (rev (ins_rev Op drow j rl) ++ repeat 0 (N - S j)).
Proof.
  intros Hi HC HB Hl Hf Hn. subst j.
  replace (N - length rl) with (S (N - S (length rl))) by lia. cbn [repeat].
  pose proof (ins_while drow (length rl) SI0 i C B Hi HC HB fuel [] rl 0 (repeat 0 (N - S (length rl))) Hf) as H.
  cbn [rev app] in H.
  destruct (while_ fuel C B (set_nth SI0 i (rev rl ++ 0 :: repeat 0 (N - S (length rl))), Z.of_nat (length rl))) as [SI' m'].
  exact H.
Qed.

(* for j in range(1, N): <insert j into the sorted prefix of row i>   = the hand model's sorted_row *)
Lemma sorted_row_loop (drow : list T) N (SI0 : list (list nat)) i (JB : nat -> list (list nat) -> list (list nat)) :
  1 <= N -> i < length SI0 ->
  (forall j rl, 1 <= j < N -> length rl = j ->
     JB j (set_nth SI0 i (rev rl ++ repeat 0 (N - j))) = set_nth SI0 i (rev (ins_rev Op drow j rl) ++ repeat 0 (N - S j))) ->
  nth i SI0 [] = repeat 0 N ->
  for_ (seq 1 (N - 1)) JB SI0 = set_nth SI0 i (sorted_row Op drow N).
Proof.
  intros HN Hi HJ H0.
  set (rlj := fun j => fold_left (fun rl j => ins_rev Op drow j rl) (seq 1 (j - 1)) [0]).
  assert (G : (fun j SI => length (rlj j) = j /\ SI = set_nth SI0 i (rev (rlj j) ++ repeat 0 (N - j))) (1 + (N - 1)) (for_ (seq 1 (N - 1)) JB SI0)).
  { apply for_seq_inv.
    - split; [reflexivity|]. cbn [rlj Nat.sub seq fold_left rev app].
      replace (0 :: repeat 0 (N - 1)) with (repeat 0 N) by (replace N with (S (N - 1)) at 1 by lia; reflexivity).
      rewrite <- H0. symmetry. apply set_nth_nth_id. exact Hi.
    - intros j SI Hj [Lr ->]. assert (E : rlj (S j) = ins_rev Op drow j (rlj j)).
      { unfold rlj. replace (S j - 1) with (S (j - 1)) by lia. rewrite seq_S, fold_left_app. cbn [fold_left].
        replace (1 + (j - 1)) with j by lia. reflexivity. }
      split; [rewrite E, ins_rev_len; lia|]. rewrite E. apply HJ; [lia|exact Lr]. }
  destruct G as [_ ->]. replace (1 + (N - 1)) with N by lia. rewrite Nat.sub_diag. cbn [repeat]. rewrite app_nil_r.
  reflexivity.
Qed.

(* for i in range(N): <sort row i>  on sorted_indices = [[0] * N for i in range(N)] *)
Lemma sorted_rows_loop N (D : list (list T)) (IB : nat -> list (list nat) -> list (list nat)) :
  (forall i SI, i < N -> length SI = N -> nth i SI [] = repeat 0 N -> IB i SI = set_nth SI i (sorted_row Op (nth i D []) N)) ->
  for_ (seq 0 N) IB (map (fun _ => repeat 0 N) (seq 0 N)) = tab N (fun i => sorted_row Op (nth i D []) N).
Proof.
  intro HI.
  assert (G : (fun a SI => length SI = N /\ (forall p, p < a -> nth p SI [] = sorted_row Op (nth p D []) N)
                           /\ (forall p, a <= p < N -> nth p SI [] = repeat 0 N)) (0 + N)
              (for_ (seq 0 N) IB (map (fun _ => repeat 0 N) (seq 0 N)))).
  { apply for_seq_inv.
    - split; [now rewrite map_length, seq_length|]. split; [intros p Hp; lia|]. intros p Hp.
      rewrite map_const_seq. rewrite (nth_indep _ [] (repeat 0 N)) by (rewrite repeat_length; lia). apply nth_repeat.
    - intros i SI Hi [L [Hlo Hhi]]. rewrite HI; [|lia|exact L|apply Hhi; lia].
      split; [now rewrite set_nth_length|]. split.
      + intros p Hp. destruct (Nat.eq_dec i p) as [->|Ne]; [now rewrite nth_set_nth_same by lia|].
        rewrite nth_set_nth_other by exact Ne. apply Hlo. lia.
      + intros p Hp. rewrite nth_set_nth_other by lia. apply Hhi. lia. }
  destruct G as [L [Hlo _]]. apply (nth_ext _ _ [] []); [now rewrite L, tab_length|].
  intros p Hp. rewrite L in Hp. rewrite nth_tab by exact Hp. apply Hlo. lia.
Qed.

(* for j in range(1, size): if a < b: min_pos = i; break  elif a > b: break *)
Lemma row_less_brk (js : list nat) (ri : nat -> T) (rm : nat -> nat -> T) i mp (F : nat -> nat -> ctl nat nat) :
  (forall j mp', F j mp' = if n_ltb Op (ri j) (rm mp' j) then Ret i
                           else if n_ltb Op (rm mp' j) (ri j) then Ret mp' else Next mp') ->
  for_brk js F mp = if row_less Op js ri (rm mp) then i else mp.
Proof.
  intro HF. induction js as [|j js IH]; [reflexivity|]. cbn [for_brk row_less]. rewrite HF.
  destruct (n_ltb Op (ri j) (rm mp j)); [reflexivity|]. destruct (n_ltb Op (rm mp j) (ri j)); [reflexivity|]. apply IH.
Qed.

Lemma for_pair_split {A S1 S2} (xs : list A) (f : A -> S1 -> S1) (g : A -> S2 -> S2) s1 s2 :
  for_ xs (fun x st => (f x (fst st), g x (snd st))) (s1, s2) = (for_ xs f s1, for_ xs g s2).
Proof. revert s1 s2. induction xs as [|x xs IH]; intros s1 s2; [reflexivity|]. unfold for_ in *. cbn [fold_left fst snd]. apply IH. Qed.

(* for i in range(N): D[i][mp] = inf; D[mp][i] = inf *)
Lemma inf_loop N (D : list (list T)) mp (inf : T) : mat N D -> mp < N ->
  for_ (seq 0 N) (fun i D => set2 (set2 D i mp inf) mp i inf) D
  = tab N (fun i => tab N (fun x => if Nat.eqb i mp || Nat.eqb x mp then inf else nth x (nth i D []) zero)).
Proof.
  intros MD Hmp.
  assert (G : (fun a D' => mat N D' /\ forall p q, p < N -> q < N -> nth q (nth p D' []) zero =
                 if (Nat.eqb p mp && Nat.ltb q a) || (Nat.eqb q mp && Nat.ltb p a) then inf else nth q (nth p D []) zero)
              (0 + N) (for_ (seq 0 N) (fun i D => set2 (set2 D i mp inf) mp i inf) D)).
  { apply for_seq_inv.
    - split; [exact MD|]. intros p q Hp Hq. bdec. rewrite !andb_false_r. reflexivity.
    - intros i D' Hi [MD' HD']. split; [now apply set2_mat, set2_mat|]. intros p q Hp Hq.
      rewrite (nth2_set2 N) by (try apply set2_mat; try assumption; lia).
      rewrite (nth2_set2 N) by (try assumption; lia). rewrite HD' by assumption.
      cmp p mp; cmp q mp; cmp p i; cmp q i; subst; try (exfalso; lia); bfin. }
  destruct G as [MG HG]. apply (mat_ext N _ _ zero MG).
  - split; [apply tab_length|]. intros i Hi. rewrite nth_tab by exact Hi. apply tab_length.
  - intros p q Hp Hq. rewrite HG by assumption. rewrite nth_tab by exact Hp. rewrite nth_tab by exact Hq.
    cmp p mp; cmp q mp; subst; bfin.
Qed.

Lemma inf_loop_swapped N (D : list (list T)) mp (inf : T) : mat N D -> mp < N ->
  for_ (seq 0 N) (fun i D => set2 (set2 D mp i inf) i mp inf) D
  = for_ (seq 0 N) (fun i D => set2 (set2 D i mp inf) mp i inf) D.
Proof.
  intros MD Hmp. apply (for_ext_inv (mat N)); [exact MD|]. intros i D' Hi MD'. apply in_seq in Hi.
  destruct (dset_spec N D' mp i inf i mp inf MD') as [M1 H1]; try lia.
  destruct (dset_spec N D' i mp inf mp i inf MD') as [M2 H2]; try lia.
  split; [|exact M2]. apply (mat_ext N _ _ zero M1 M2). intros p q Hp Hq. rewrite H1, H2.
  cmp p i; cmp q i; cmp p mp; cmp q mp; subst; try (exfalso; lia); bfin.
Qed.

Lemma bubble_noop mp size : forall r a j, size - 1 <= j -> bubble mp size a r j = a :: r.
Proof.
  induction r as [|b r IH]; intros a j H; [reflexivity|]. cbn [bubble].
  destruct (Nat.ltb_spec j (size - 1)); [lia|]. rewrite andb_false_r. cbn [andb]. f_equal. apply IH. lia.
Qed.

(* for j in range(j0, size-1): if row[j] == mp: row[j] = row[j+1]; row[j+1] = mp   = the hand model's bubble *)
Lemma bubble_loop mp size (RS : nat -> list nat -> list nat) :
  (forall j row, RS j row = if Nat.eqb (nth j row 0) mp then set_nth (set_nth row j (nth (j + 1) row 0)) (j + 1) mp else row) ->
  forall n j0 pre a r, length pre = j0 -> 1 <= j0 -> j0 + n = Nat.max j0 (size - 1) -> j0 + n <= length pre + length r ->
  for_ (seq j0 n) RS (pre ++ a :: r) = pre ++ bubble mp size a r j0.
Proof.
  intro HR. induction n as [|n IH]; intros j0 pre a r Lp Hj Hn Hlen.
  - cbn. rewrite bubble_noop by lia. reflexivity.
  - cbn [seq]. unfold for_ in *. cbn [fold_left]. rewrite HR.
    destruct r as [|b r']; [cbn in Hlen; lia|].
    rewrite app_nth2 by lia. rewrite Lp, Nat.sub_diag. cbn [nth bubble].
    destruct (Nat.leb_spec 1 j0); [|lia]. destruct (Nat.ltb_spec j0 (size - 1)); [|lia]. cbn [andb].
    destruct (Nat.eqb_spec a mp) as [->|Ne].
    + rewrite (app_nth2 pre) by lia. replace (j0 + 1 - length pre) with 1 by lia. cbn [nth].
      rewrite (set_nth_app_mid pre _ _ _ j0 Lp).
      change (pre ++ b :: b :: r') with (pre ++ [b] ++ b :: r'). rewrite app_assoc.
      rewrite (set_nth_app_mid (pre ++ [b])) by (rewrite app_length; cbn; lia).
      rewrite (IH (S j0) (pre ++ [b]) mp r'); [now rewrite <- app_assoc|rewrite app_length; cbn; lia|lia|lia|rewrite app_length; cbn in *; lia].
    + change (pre ++ a :: b :: r') with (pre ++ [a] ++ b :: r'). rewrite app_assoc.
      rewrite (IH (S j0) (pre ++ [a]) b r'); [now rewrite <- app_assoc|rewrite app_length; cbn; lia|lia|lia|rewrite app_length; cbn in *; lia].
Qed.

Lemma row_lift i (RS : nat -> list nat -> list nat) (JS : nat -> list (list nat) -> list (list nat)) js :
  (forall j SI, i < length SI -> JS j SI = set_nth SI i (RS j (nth i SI []))) ->
  forall SI, i < length SI -> for_ js JS SI = set_nth SI i (for_ js RS (nth i SI [])).
Proof.
  intro H. induction js as [|j js IH]; intros SI Hi.
  - cbn. symmetry. apply set_nth_nth_id. exact Hi.
  - unfold for_ in *. cbn [fold_left]. rewrite H by exact Hi. rewrite IH by (now rewrite set_nth_length).
    rewrite nth_set_nth_same by exact Hi. apply set_nth_set_nth.
Qed.

Definition bub_step (mp : nat) (j : nat) (row : list nat) : list nat :=
  if Nat.eqb (nth j row 0) mp then set_nth (set_nth row j (nth (j + 1) row 0)) (j + 1) mp else row.

Lemma bubble_row_loop mp sz (row : list nat) N : length row = N -> sz <= N ->
  for_ (seq 1 (sz - 1 - 1)) (bub_step mp) row = bubble_row mp sz row.
Proof.
  intros L Hs. destruct row as [|a0 [|b r']].
  - cbn in L. subst N. replace (sz - 1 - 1) with 0 by lia. reflexivity.
  - cbn in L. subst N. replace (sz - 1 - 1) with 0 by lia. reflexivity.
  - change (a0 :: b :: r') with ([a0] ++ b :: r').
    rewrite (bubble_loop mp sz (bub_step mp)) with (j0 := 1); [reflexivity|intros; reflexivity|reflexivity|lia|lia|cbn in *; lia].
Qed.

(* for i in range(N): <bubble min_pos one position towards the end of row i> *)
Lemma bubble_rows N mp sz (SI : list (list nat)) (IS : nat -> list (list nat) -> list (list nat)) :
  mat N SI -> sz <= N ->
  (forall i SI', i < N -> length SI' = N ->
     IS i SI' = set_nth SI' i (for_ (seq 1 (sz - 1 - 1)) (bub_step mp) (nth i SI' []))) ->
  for_ (seq 0 N) IS SI = tab N (fun i => bubble_row mp sz (nth i SI [])).
Proof.
  intros [LS RS] Hs HI.
  rewrite (for_ext_inv (fun f => length f = N) _ _ (fun i f => set_nth f i ((fun i row => for_ (seq 1 (sz - 1 - 1)) (bub_step mp) row) i (nth i f [])))).
  - rewrite (for_each_entry [] (fun i row => for_ (seq 1 (sz - 1 - 1)) (bub_step mp) row) N SI LS).
    unfold tab. apply map_ext_in. intros i Hi. apply in_seq in Hi. apply (bubble_row_loop mp sz _ N); [apply RS; lia|exact Hs].
  - exact LS.
  - intros i f Hi Lf. apply in_seq in Hi. split; [apply HI; [lia|exact Lf]|now rewrite set_nth_length].
Qed.

Lemma inf_loop_F N (D : list (list T)) mp (inf : T) (F : nat -> list (list T) -> list (list T)) :
  ((forall i D, F i D = set2 (set2 D i mp inf) mp i inf) \/ (forall i D, F i D = set2 (set2 D mp i inf) i mp inf)) ->
  mat N D -> mp < N ->
  for_ (seq 0 N) F D = tab N (fun i => tab N (fun x => if Nat.eqb i mp || Nat.eqb x mp then inf else nth x (nth i D []) zero)).
Proof.
  intros [HF|HF] M H.
  - rewrite (for_ext _ F (fun i D => set2 (set2 D i mp inf) mp i inf)) by (intros; apply HF). now apply inf_loop.
  - rewrite (for_ext _ F (fun i D => set2 (set2 D mp i inf) i mp inf)) by (intros; apply HF).
    rewrite inf_loop_swapped by assumption. now apply inf_loop.
Qed.

Lemma for_pair_split' {A S1 S2} (xs : list A) (F : A -> S1 * S2 -> S1 * S2) (f : A -> S1 -> S1) (g : A -> S2 -> S2) s1 s2 :
  (forall x a b, F x (a, b) = (f x a, g x b)) -> for_ xs F (s1, s2) = (for_ xs f s1, for_ xs g s2).
Proof. intro H. revert s1 s2. induction xs as [|x xs IH]; intros s1 s2; [reflexivity|]. unfold for_ in *. cbn [fold_left]. rewrite H. apply IH. Qed.

Lemma find_min_lt (D : list (list T)) SI N sz : 1 <= N -> find_min Op D SI N sz < N.
Proof.
  intro HN. unfold find_min.
  assert (G : forall xs mp, mp < N -> (forall x, In x xs -> x < N) ->
            fold_left (fun min_pos i => if row_less Op (seq 1 (sz - 1)) (fun j => get2 Op D i (nth j (nth i SI []) 0))
                                              (fun j => get2 Op D min_pos (nth j (nth min_pos SI []) 0)) then i else min_pos) xs mp < N).
  { induction xs as [|x xs IH]; intros mp Hm Hx; [exact Hm|]. cbn [fold_left]. apply IH.
    - destruct (row_less Op _ _ _); [apply Hx; now left|exact Hm].
    - intros y Hy. apply Hx. now right. }
  apply G; [lia|]. intros x Hx. apply in_seq in Hx. lia.
Qed.

Definition ts_embed (s : tstate (T:=T)) : list (list T) * list (list nat) * Z * list nat :=
  (ts_D s, ts_SI s, Z.of_nat (ts_size s), ts_rem s).
Definition ts_inv (N : nat) (s : tstate (T:=T)) : Prop := mat N (ts_D s) /\ mat N (ts_SI s) /\ ts_size s <= N.

Lemma trunc_step_inv N s : 1 <= N -> ts_inv N s -> ts_inv N (trunc_step Op N s).
Proof.
  intros HN [MD [[LS RS] Hs]]. unfold trunc_step, ts_inv. cbn [ts_D ts_SI ts_size]. split; [|split; [|lia]].
  - split; [apply tab_length|]. intros i Hi. rewrite nth_tab by exact Hi. apply tab_length.
  - split; [apply tab_length|]. intros i Hi. rewrite nth_tab by exact Hi.
    specialize (RS i Hi). destruct (nth i (ts_SI s) []) as [|a r]; [cbn in RS; lia|].
    cbn [bubble_row]. rewrite bubble_length. exact RS.
Qed.

(* while size > k: <one truncation step>   = trunc_loop (size - k) of the hand model; generic in guard and body *)
Lemma trunc_while N k (C : list (list T) * list (list nat) * Z * list nat -> bool)
      (BODY : list (list T) * list (list nat) * Z * list nat -> list (list T) * list (list nat) * Z * list nat) :
  1 <= N ->
  (forall D SI size rem, C (D, SI, size, rem) = (Z.of_nat k <? size)%Z) ->
  (forall s, ts_inv N s -> 1 <= ts_size s -> BODY (ts_embed s) = ts_embed (trunc_step Op N s)) ->
  forall n fuel s, ts_inv N s -> ts_size s = k + n -> n <= fuel ->
  while_ fuel C BODY (ts_embed s) = ts_embed (trunc_loop Op n N s).
Proof.
  intros HN HC HB. induction n as [|n IH]; intros fuel s Hi Hs Hf.
  - cbn [trunc_loop]. destruct fuel as [|f]; [reflexivity|]. cbn [while_]. unfold ts_embed at 1. rewrite HC.
    destruct (Z.ltb_spec (Z.of_nat k) (Z.of_nat (ts_size s))); [lia|reflexivity].
  - destruct fuel as [|f]; [lia|]. cbn [while_ trunc_loop]. unfold ts_embed at 1. rewrite HC.
    destruct (Z.ltb_spec (Z.of_nat k) (Z.of_nat (ts_size s))); [|lia].
    change (ts_D s, ts_SI s, Z.of_nat (ts_size s), ts_rem s) with (ts_embed s). rewrite HB; [|exact Hi|lia].
    apply IH; [now apply trunc_step_inv|unfold trunc_step; cbn [ts_size]; lia|lia].
Qed.

Lemma sorted_row_len (row : list T) N : 1 <= N -> length (sorted_row Op row N) = N.
Proof.
  intro HN. unfold sorted_row. rewrite rev_length.
  assert (G : forall xs rl, length (fold_left (fun rl j => ins_rev Op row j rl) xs rl) = length rl + length xs).
  { induction xs as [|x xs IH]; intro rl; cbn [fold_left length]; [lia|]. rewrite IH, ins_rev_len. lia. }
  rewrite G, seq_length. cbn. lia.
Qed.

Theorem gen_selSPEA2_trunc_eq (inds : list (list T * list T)) k L chosen :
  (forall ind, In ind inds -> length (fst ind) = L) -> (forall c, In c chosen -> c < length inds) -> k < length chosen ->
  gen_selSPEA2_trunc Op inds k L chosen = trunc_branch Op (map fst inds) k chosen.
Proof.
  intros HL Hc Hk.
  first [ solve [unfold gen_selSPEA2_trunc; reflexivity] | idtac "gen_selSPEA2_trunc: regenerated";
  unfold gen_selSPEA2_trunc, trunc_branch, trunc_init; cbv zeta;
  set (N := length chosen) in *;
  assert (HN1 : 1 <= N) by lia;
  assert (Hlen : forall p, p < N -> length (fst (nth (nth p chosen 0) inds (@nil T, @nil T))) = L)
    by (intros p Hp; apply HL, nth_In, Hc, nth_In; exact Hp);
  (* the distance matrix *)
  match goal with |- context [for_ (seq 0 N) ?F (map (fun _ => repeat zero N) (seq 0 N))] =>
    assert (P1 : for_ (seq 0 N) F (map (fun _ => repeat zero N) (seq 0 N)) = dist_matrix Op (map fst inds) chosen N);
    [ evar (g : nat -> nat -> T); evar (c : T);
      destruct (sym_matrix_loop_F N g c (map (fun _ => repeat zero N) (seq 0 N)) F) as [MG HG];
      [ intros i D; cbv zeta; unfold set2, g, c; reflexivity
      | split; [now rewrite map_length, seq_length|]; intros i Hi; rewrite map_const_seq;
        rewrite (nth_indep _ [] (repeat zero N)) by (rewrite repeat_length; lia); rewrite nth_repeat; apply repeat_length
      | intros p q Hp Hq; rewrite map_const_seq;
        rewrite (nth_indep _ [] (repeat zero N)) by (rewrite repeat_length; lia); rewrite nth_repeat; apply nth_repeat
      | apply (mat_ext N _ _ zero MG);
        [ unfold dist_matrix; split; [apply tab_length|]; intros p Hp; rewrite nth_tab by exact Hp; apply tab_length
        | intros p q Hp Hq; rewrite HG by assumption; unfold dist_matrix; rewrite nth_tab by exact Hp; rewrite nth_tab by exact Hq;
          destruct (Nat.eqb p q); [reflexivity|]; rewrite !nth_map_fst;
          destruct (Nat.ltb p q); unfold g; apply sqdist_loop; try (apply Hlen; assumption); intros; reflexivity ] ]
    | rewrite P1; clear P1 ] end;
  set (DM := dist_matrix Op (map fst inds) chosen N);
  (* the sorted index rows *)
  match goal with |- context [for_ (seq 0 N) ?F (map (fun _ => repeat 0 N) (seq 0 N))] =>
    assert (P2 : for_ (seq 0 N) F (map (fun _ => repeat 0 N) (seq 0 N)) = tab N (fun i => sorted_row Op (nth i DM []) N));
    [ apply sorted_rows_loop; intros i SI Hi LS H0; apply sorted_row_loop; [lia|lia| |exact H0];
      intros j rl Hj Lr; cbv beta zeta;
      apply ins_step; [rewrite LS; exact Hi|intros; reflexivity|intros; reflexivity|exact Lr|lia|lia]
    | rewrite P2; clear P2 ] end;
  (* the truncation loop *)
  set (s0 := mkts DM (tab N (fun i => sorted_row Op (nth i DM []) N)) N []);
  match goal with |- context [while_ (S N) ?C ?B (?D0, ?SI0, Z.of_nat N, ?r0)] =>
    assert (P3 : while_ (S N) C B (D0, SI0, Z.of_nat N, r0) = ts_embed (trunc_loop Op (N - k) N s0));
    [ change (DM, tab N (fun i => sorted_row Op (nth i DM []) N), Z.of_nat N, @nil nat) with (ts_embed s0);
      apply (trunc_while N k); [exact HN1|intros; reflexivity| | |cbn; lia|lia];
      [ intros [D SI sz rem] [MD [MS Hs]] H1; cbn [ts_D ts_SI ts_size ts_rem] in *;
        unfold ts_embed, trunc_step; cbn [ts_D ts_SI ts_size ts_rem]; cbv beta iota zeta;
        rewrite ?Nat2Z.id; replace (Z.to_nat (Z.of_nat sz - 1)) with (sz - 1) by lia;
        match goal with |- context [for_ (seq 1 (N - 1)) ?F1 0] =>
          assert (FM : for_ (seq 1 (N - 1)) F1 0 = find_min Op D SI N sz);
          [ unfold find_min;
            change (fold_left ?f (seq 1 (N - 1)) 0) with (for_ (seq 1 (N - 1)) (fun i mp => f mp i) 0);
            apply for_ext; intros i mp _; cbv beta;
            apply (row_less_brk (seq 1 (sz - 1)) (fun j => get2 Op D i (nth j (nth i SI []) 0))
                                (fun mp' j => get2 Op D mp' (nth j (nth mp' SI []) 0)) i mp);
            intros; reflexivity
          | rewrite FM; clear FM ] end;
        set (mp := find_min Op D SI N sz);
        assert (Hmp : mp < N) by (apply find_min_lt; exact HN1);
        evar (f : nat -> list (list T) -> list (list T)); evar (g : nat -> list (list nat) -> list (list nat));
        match goal with |- context [for_ (seq 0 N) ?F2 (D, SI)] => rewrite (for_pair_split' (seq 0 N) F2 f g D SI) end;
          [|intros x a b; unfold f, g; reflexivity];
        unfold f, g; clear f g; cbv beta iota;
        rewrite (inf_loop_F N D mp (n_inf Op)); [|first [left; intros; reflexivity|right; intros; reflexivity]|exact MD|exact Hmp];
        rewrite (bubble_rows N mp sz SI); [|exact MS|exact Hs|];
        [ f_equal; f_equal; lia
        | intros i SI' Hi LS'; apply (row_lift i (bub_step mp)); [|rewrite LS'; exact Hi];
          intros j S0 Hi0; unfold bub_step; destruct (Nat.eqb (nth j (nth i S0 []) 0) mp);
          [ rewrite nth_set_nth_same by exact Hi0; apply set_nth_set_nth
          | symmetry; apply set_nth_nth_id; exact Hi0 ] ]
      | unfold ts_inv, s0; cbn [ts_D ts_SI ts_size]; split; [|split; [|lia]];
        [ unfold DM, dist_matrix; split; [apply tab_length|]; intros i Hi; rewrite nth_tab by exact Hi; apply tab_length
        | split; [apply tab_length|]; intros i Hi; rewrite nth_tab by exact Hi; apply sorted_row_len; exact HN1 ] ]
    | rewrite P3; clear P3 ] end;
  unfold ts_embed; cbv beta iota; reflexivity ].
Qed.

Ltac dd := (* the dominance tests of one pair *)
  repeat match goal with |- context [dominates Op ?a ?b] => destruct (dominates Op a b) end.

(* for i, ind_i in enumerate(individuals): for j, ind_j in enumerate(individuals[i+1:], i+1): ...
   = the fold of pair_step over pairs N; generic in how the body is written: it only has to compute
   pair_step on every pair i < j < N *)
Ltac spea2_phase1 inds N w :=
  match goal with |- context [for_ ?xs ?F (repeat 0%nat N, ?D0)] =>
    let P1 := fresh "P1" in
    assert (P1 : for_ xs F (repeat 0%nat N, D0) = phase1 Op w N) by
     (rewrite ?(for_enum (@nil T, @nil T)); rewrite ?map_const_seq; unfold phase1;
      change (fold_left (pair_step Op w) (pairs N)) with (for_ (pairs N) (fun p st => pair_step Op w st p));
      unfold pairs; rewrite for_flat_map; fold N;
      apply for_ext; (let i := fresh "i" in let st := fresh "st" in let Hi := fresh "Hi" in
      intros i st Hi; apply in_seq in Hi;
      cbv beta iota zeta; destruct st as [? ?]; rewrite ?pair_eta;
      rewrite for_map, ?(for_enum (@nil T, @nil T)), ?skipn_length, ?Nat.add_1_r; fold N;
      apply for_ext; (let j := fresh "j" in let st' := fresh "st" in let Hj := fresh "Hj" in
      intros j st' Hj; apply in_seq in Hj;
      cbv beta iota zeta; destruct st' as [? ?];
      rewrite ?nth_skipn; try (replace (S i + (j - S i))%nat with j by lia); rewrite ?Nat.sub_0_r;
      unfold pair_step, w; rewrite !nth_map_snd; unfold incr, push;
      dd; rewrite ?Nat.add_1_r; reflexivity)));
    rewrite P1; clear P1
  end.

(* for i in range(N): for j in dominating_inds[i]: fits[i] += strength_fits[j]   = raw_fits *)
Ltac spea2_phase2 N S_ D LD :=
  match goal with |- context [for_ (seq 0 N) ?F (repeat 0%nat N)] =>
    let P2 := fresh "P2" in
    assert (P2 : for_ (seq 0 N) F (repeat 0%nat N) = raw_fits S_ D) by
     (pose (h := fun (i : nat) (a : nat) => fold_left (fun acc j => (acc + nth j S_ 0)%nat) (nth i D []) a);
      rewrite (for_ext_inv (fun f => length f = N) _ _ (fun i f => set_nth f i (h i (nth i f 0%nat))));
      [ rewrite (for_each_entry 0%nat h N) by apply repeat_length;
        unfold raw_fits; rewrite (map_nth_seq _ D []), LD; apply map_ext_in;
        (let i := fresh "i" in let Hi := fresh "Hi" in intros i Hi; apply in_seq in Hi; unfold h; now rewrite nth_repeat)
      | apply repeat_length
      | let i := fresh "i" in let f := fresh "f" in let Hi := fresh "Hi" in let Lf := fresh "Lf" in
        intros i f Hi Lf; apply in_seq in Hi; cbv beta zeta; split; [|now rewrite set_nth_length];
        unfold h; apply (for_accum_entry (nth i D []) (fun j => nth j S_ 0%nat)); lia ]);
    rewrite P2; clear P2
  end.

Ltac spea2_main inds k Hsame :=
  let N := fresh "N" in let w := fresh "w" in let LS := fresh "LS" in let LD := fresh "LD" in
  let S_ := fresh "S_" in let D := fresh "D" in
  unfold gen_selSPEA2, spea2; cbv zeta; rewrite map_length;
  set (N := length inds); set (w := map snd inds);
  spea2_phase1 inds N w;
  destruct (phase1_lengths w N) as [LS LD]; destruct (phase1 Op w N) as [S_ D]; cbn [fst snd] in LS, LD;
  spea2_phase2 N S_ D LD;
  (* chosen_indices = [i for i in range(N) if fits[i] < 1] *)
  match goal with |- context [filter ?F (seq 0 N)] =>
    let P3 := fresh "P3" in
    assert (P3 : filter F (seq 0 N) = nd_indices (raw_fits S_ D)) by
      (unfold nd_indices; replace (length (raw_fits S_ D)) with N by (unfold raw_fits; now rewrite map_length);
       apply filter_ext; intro; reflexivity);
    rewrite P3; clear P3 end;
  rewrite ?pair_eta;
  destruct (Nat.ltb_spec (length (nd_indices (raw_fits S_ D))) k);
  [ rewrite gen_selSPEA2_fill_eq;
    [ reflexivity | reflexivity | reflexivity | unfold raw_fits; rewrite map_length; exact LD
    | let ind := fresh "ind" in let Hin := fresh "Hin" in
      intros ind Hin; apply Hsame; [exact Hin|apply nth_In; destruct inds; [contradiction|cbn; lia]]
    | assumption ]
  | destruct (Nat.ltb_spec k (length (nd_indices (raw_fits S_ D))));
    [ rewrite gen_selSPEA2_trunc_eq;
      [ reflexivity
      | let ind := fresh "ind" in let Hin := fresh "Hin" in
        intros ind Hin; apply Hsame; [exact Hin|apply nth_In; destruct inds; [contradiction|cbn; lia]]
      | let c := fresh "c" in let Hc := fresh "Hc" in
        intros c Hc; unfold nd_indices in Hc; apply filter_In in Hc; destruct Hc as [Hc _]; apply in_seq in Hc;
        unfold raw_fits in Hc; rewrite map_length, LD in Hc; unfold N in Hc; lia
      | assumption ]
    | reflexivity ] ].

(* all individuals have the same number of fitness values (what `L = len(individuals[0].fitness.values)` stands for) *)
Definition values_same_length (inds : list (list T * list T)) : Prop :=
  forall a b, In a inds -> In b inds -> length (fst a) = length (fst b).

Theorem gen_selSPEA2_eq (inds : list (list T * list T)) (k : nat) (ds : list Z) :
  values_same_length inds ->
  gen_selSPEA2 Op inds k ds = spea2 Op (map fst inds) (map snd inds) k ds.
Proof.
  intro Hsame.
  first [ solve [unfold gen_selSPEA2, gen_selSPEA2_fill, gen_selSPEA2_trunc; reflexivity]
        | idtac "gen_selSPEA2: regenerated"; spea2_main inds k Hsame ].
Qed.

End Equiv.

(* ---- uniform_reference_points: the nested generator and the function itself ---- *)
Section Refs.
Context {T : Type} (Op : numops T).

Lemma gen_num_prefix rem : forall left pre, gen_num rem left pre = map (app pre) (gen_num rem left []).
Proof.
  induction rem as [|rem IH]; intros left pre; cbn [gen_num].
  - reflexivity.
  - rewrite !flat_map_concat_map, concat_map, map_map. f_equal. apply map_ext. intro i.
    rewrite (IH _ (pre ++ [i])), (IH _ ([] ++ [i])), map_map. apply map_ext. intro r. now rewrite app_assoc.
Qed.

Lemma zrange_0_nat n : zrange 0 (Z.of_nat n) = map Z.of_nat (seq 0 n).
Proof. unfold zrange. rewrite Z.sub_0_r, Nat2Z.id. apply map_ext. intro i. lia. Qed.

Lemma snd_let {A B} (p : A * B) : (let '(_, b) := p in b) = snd p.
Proof. now destruct p. Qed.

Lemma firstn_set_nth {A} (l : list A) d v : firstn d (set_nth l d v) = firstn d l.
Proof. revert d. induction l as [|x r IH]; intro d; destruct d; cbn; [reflexivity..|]. now rewrite IH. Qed.

Lemma firstn_S_set_nth {A} (l : list A) d v : d < length l -> firstn (S d) (set_nth l d v) = firstn d l ++ [v].
Proof.
  revert d. induction l as [|x r IH]; intros d H; [cbn in H; lia|]. destruct d; [reflexivity|].
  cbn [set_nth firstn app]. cbn in H. f_equal. apply IH. lia.
Qed.

(* for i in ...: ref[depth] = ..; points.extend(<something that only depends on an invariant P of ref>):
   generic in the loop body F — it only has to append R i and keep P *)
Lemma refs_loop_char (F : Z -> list T * list (list T) -> list T * list (list T)) (R : nat -> list (list T))
      (P : list T -> Prop) xs :
  (forall i ref pts, In i xs -> P ref -> exists ref', F (Z.of_nat i) (ref, pts) = (ref', pts ++ R i) /\ P ref') ->
  forall ref pts, P ref -> snd (for_ (map Z.of_nat xs) F (ref, pts)) = pts ++ flat_map R xs.
Proof.
  induction xs as [|x xs IH]; intros H ref pts Hp; [cbn; now rewrite app_nil_r|].
  cbn [map flat_map]. unfold for_ in *. cbn [fold_left].
  destruct (H x ref pts (or_introl eq_refl) Hp) as [ref' [E Hp']]. rewrite E.
  rewrite IH; [now rewrite app_assoc| |exact Hp']. intros i r p Hi. apply H. now right.
Qed.

(* gen_refs_recursive(ref, nobj, left, total, depth) with depth < nobj = len(ref) and enough fuel: the first `depth`
   entries of ref followed by numerator / total, over the model's numerators gen_num *)
Theorem gen_refs_eq : forall fuel n d l total (ref : list T),
  d < n -> length ref = n -> n - d <= fuel ->
  gen_refs_recursive Op fuel ref (Z.of_nat n) (Z.of_nat l) total (Z.of_nat d)
  = gen_refs_model Op fuel ref (Z.of_nat n) (Z.of_nat l) total (Z.of_nat d).
Proof.
  first [ solve [intros; unfold gen_refs_recursive; reflexivity] | idtac "gen_refs_recursive: regenerated";
  induction fuel as [|fuel IH]; intros n d l total ref Hd Hl Hf; [lia|];
  cbn [gen_refs_recursive]; cbv zeta; unfold gen_refs_model; rewrite !Nat2Z.id;
  destruct (Z.eqb_spec (Z.of_nat d) (Z.of_nat n - 1)) as [E|E];
  [ (* depth == nobj - 1 *)
    replace (n - 1 - d) with 0 by lia; cbn [gen_num map app]; f_equal; unfold setz; rewrite Nat2Z.id;
    rewrite <- (firstn_all (set_nth ref d _)), set_nth_length, Hl; replace n with (S d) by lia;
    apply firstn_S_set_nth; lia
  | (* the loop over i in range(left + 1) *)
    rewrite ?pair_eta, snd_let;
    replace (Z.of_nat l + 1)%Z with (Z.of_nat (S l)) by lia; rewrite zrange_0_nat;
    replace (n - 1 - d) with (S (n - 1 - S d)) by lia; cbn [gen_num];
    pose (dv := fun i : nat => n_div Op (n_ofZ Op (Z.of_nat i)) (n_ofZ Op total));
    pose (R := fun i : nat => map (fun nums => firstn d ref ++ dv i :: map dv nums) (gen_num (n - 1 - S d) (l - i) []));
    rewrite (refs_loop_char _ R (fun r => length r = n /\ firstn d r = firstn d ref));
    [ cbn [app]; rewrite !flat_map_concat_map, concat_map, map_map;
      f_equal; apply map_ext; intro i;
      rewrite (gen_num_prefix _ _ [i]), map_map; reflexivity
    | intros i r pts Hi [Lr Fr]; apply in_seq in Hi; cbv beta iota zeta;
      eexists; split; [|split];
      [ f_equal; f_equal;
        replace (Z.of_nat l - Z.of_nat i)%Z with (Z.of_nat (l - i)) by lia;
        replace (Z.of_nat d + 1)%Z with (Z.of_nat (S d)) by lia;
        rewrite IH; [|lia|unfold setz; now rewrite set_nth_length|lia];
        unfold gen_refs_model, setz; rewrite !Nat2Z.id; rewrite firstn_S_set_nth by lia; rewrite Fr;
        unfold R; apply map_ext; intro nums; rewrite <- app_assoc; reflexivity
      | unfold setz; now rewrite set_nth_length
      | unfold setz; rewrite Nat2Z.id, firstn_set_nth; exact Fr ]
    | split; [exact Hl|reflexivity] ] ] ].
Qed.

Theorem gen_uniform_reference_points_eq (nobj p : nat) (sc : option T) : 1 <= nobj ->
  gen_uniform_reference_points Op (Z.of_nat nobj) (Z.of_nat p) sc = ref_points Op nobj p sc.
Proof.
  intro Hn.
  first [ solve [unfold gen_uniform_reference_points; rewrite !Nat2Z.id; reflexivity]
        | idtac "gen_uniform_reference_points: regenerated" ].
  all: unfold gen_uniform_reference_points; cbv zeta.
  all: change 0%Z with (Z.of_nat 0); rewrite !Nat2Z.id.
  all: rewrite gen_refs_eq by (rewrite ?repeat_length; lia).
  all: unfold gen_refs_model; rewrite !Nat2Z.id; cbn [firstn app]; rewrite Nat.sub_0_r.
  all: unfold ref_points, ref_points_raw, ref_num, scale_points.
  all: destruct sc as [s|]; rewrite ?map_map; apply map_ext; intro row; rewrite ?map_map; reflexivity.
Qed.

End Refs.

(* ---- the C07 theorems about _partition / _randomizedSelect, on the regenerated definitions ---- *)
Section Thms.
Context {T : Type} (Op : numops T).
Hypothesis lt_irrefl : forall x, n_ltb Op x x = false.
Hypothesis lt_trans : forall x y z, n_ltb Op x y = true -> n_ltb Op y z = true -> n_ltb Op x z = true.
Hypothesis nlt_trans : forall x y z, n_ltb Op x y = false -> n_ltb Op y z = false -> n_ltb Op x z = false.
Local Open Scope Z_scope.

(* Hoare partition: same length, same multiset on [b,e] (every count preserved), nothing outside [b,e]
   touched, b <= q < e, everything in [b,q] is <= everything in [q+1,e] *)
Theorem gen_partition_post (arr : list T) (b e : Z) :
  0 <= b -> b < e -> e < Z.of_nat (length arr) ->
  let '(arr', q) := gen_partition Op arr b e in ppost Op arr b e arr' q.
Proof.
  intros Hb Hbe He. rewrite gen_partition_eq.
  exact (partition_spec Op lt_irrefl lt_trans nlt_trans arr b e Hb Hbe He).
Qed.

Theorem gen_rand_select_rank : forall fuel arr b e i draws,
  0 <= b -> b <= e -> e < Z.of_nat (length arr) -> 0 <= i <= e - b -> e - b + 1 <= Z.of_nat fuel ->
  draws_valid Op fuel arr b e i draws = true ->
  rank_ok Op arr b e i (fst (gen_randomizedSelect Op fuel arr b e i draws)).
Proof.
  intros. rewrite gen_randomizedSelect_eq.
  apply (rand_select_rank Op lt_irrefl lt_trans nlt_trans); assumption.
Qed.

End Thms.

Theorem gen_rand_select_is_kth : forall (arr : list qx) (i : Z) draws,
  (0 <= i < Z.of_nat (length arr))%Z ->
  draws_valid qx_ops (S (length arr)) arr 0 (Z.of_nat (length arr) - 1) i draws = true ->
  let v := fst (gen_randomizedSelect qx_ops (S (length arr)) arr 0 (Z.of_nat (length arr) - 1) i draws) in
  qx_ltb (kth_smallest qx_ops arr i) v = false /\ qx_ltb v (kth_smallest qx_ops arr i) = false.
Proof.
  intros arr i draws Hi Hd. rewrite gen_randomizedSelect_eq.
  exact (rand_select_is_kth qx_ops qx_lt_irrefl qx_lt_trans qx_nlt_trans arr i draws Hi Hd).
Qed.

(* C07_spea2_generic on the regenerated selSPEA2: individuals = (fitness.values, fitness.wvalues) *)
Theorem gen_spea2_spec {T} (Op : numops T) :
  (forall x y, n_ltb Op x y = true -> n_ltb Op y x = false) ->
  forall (inds : list (list T * list T)) k draws, values_same_length inds -> dist_ok Op (map fst inds) ->
  (1 <= k <= length inds)%nat ->
  let wvals := map snd inds in
  let r := fst (gen_selSPEA2 Op inds k draws) in
  length r = k /\ NoDup r /\ (forall i, In i r -> (i < length inds)%nat) /\
  ((length (nd_list Op wvals) <= k)%nat -> incl (nd_list Op wvals) r) /\
  ((k <= length (nd_list Op wvals))%nat -> incl r (nd_list Op wvals)).
Proof.
  intros H inds k draws Hs Hd Hk. cbv zeta. rewrite gen_selSPEA2_eq by exact Hs.
  assert (Hk' : (1 <= k <= length (map snd inds))%nat) by (now rewrite map_length).
  generalize (spea2_spec Op H (map fst inds) (map snd inds) k draws Hd Hk'). cbv zeta. rewrite map_length. exact (fun x => x).
Qed.

(* exact instance, finite fitness values: the distance hypothesis is discharged *)
Theorem gen_spea2_exact : forall (vq : list (list Q)) (wvals : list (list qx)) k draws,
  (forall a b, In a vq -> In b vq -> length a = length b) ->
  length vq = length wvals -> (1 <= k <= length wvals)%nat ->
  let r := fst (gen_selSPEA2 qx_ops (combine (map (map QF) vq) wvals) k draws) in
  length r = k /\ NoDup r /\ (forall i, In i r -> (i < length wvals)%nat) /\
  ((length (nd_list qx_ops wvals) <= k)%nat -> incl (nd_list qx_ops wvals) r) /\
  ((k <= length (nd_list qx_ops wvals))%nat -> incl r (nd_list qx_ops wvals)).
Proof.
  intros vq wvals k draws Hs HL Hk. cbv zeta.
  assert (E1 : map fst (combine (map (map QF) vq) wvals) = map (map QF) vq).
  { clear Hk Hs. revert wvals HL. induction vq as [|v vq IH]; intros [|w ws] HL; cbn in *; try discriminate; [reflexivity|].
    f_equal. apply IH. congruence. }
  assert (E2 : map snd (combine (map (map QF) vq) wvals) = wvals).
  { clear Hk E1 Hs. revert wvals HL. induction vq as [|v vq IH]; intros [|w ws] HL; cbn in *; try discriminate; [reflexivity|].
    f_equal. apply IH. congruence. }
  rewrite gen_selSPEA2_eq.
  2: { intros a b Ha Hb. apply (in_map fst) in Ha, Hb. rewrite E1 in Ha, Hb.
       apply in_map_iff in Ha, Hb. destruct Ha as [a' [<- Ha]], Hb as [b' [<- Hb]]. rewrite !map_length. now apply Hs. }
  rewrite E1, E2.
  exact (spea2_spec qx_ops qx_ltb_asym (map (map QF) vq) wvals k draws (dist_ok_qx vq) Hk).
Qed.

(* the reference-point theorems on the regenerated uniform_reference_points (exact rationals) *)
Definition gen_ref_points_q (nobj p : nat) (sc : option Q) : list (list Q) :=
  gen_uniform_reference_points q_ops (Z.of_nat nobj) (Z.of_nat p) sc.

Lemma gen_ref_points_q_eq nobj p sc : 1 <= nobj -> gen_ref_points_q nobj p sc = ref_points_q nobj p sc.
Proof. intro H. unfold gen_ref_points_q, ref_points_q. now apply gen_uniform_reference_points_eq. Qed.

Theorem gen_ref_points_count : forall nobj p sc, 1 <= nobj ->
  length (gen_ref_points_q nobj p sc) = binom (nobj + p - 1) p.
Proof. intros nobj p sc H. rewrite gen_ref_points_q_eq by exact H. now apply ref_points_count. Qed.

Theorem gen_ref_points_rows : forall nobj p sc row, 1 <= nobj -> 1 <= p ->
  match sc with Some s => (0 <= s)%Q /\ (s <= 1)%Q | None => True end ->
  In row (gen_ref_points_q nobj p sc) ->
  length row = nobj /\ Forall (fun x => (0 <= x)%Q) row /\ (qsum row == 1)%Q.
Proof.
  intros nobj p sc row H1 H2 Hs. rewrite gen_ref_points_q_eq by exact H1. destruct sc as [s|].
  - destruct Hs. now apply ref_points_scaled_rows.
  - now apply ref_points_rows.
Qed.

Theorem gen_ref_points_distinct : forall nobj p sc i j, 1 <= nobj -> 1 <= p ->
  match sc with Some s => ~ (s == 0)%Q | None => True end ->
  let pts := gen_ref_points_q nobj p sc in
  i < length pts -> j < length pts -> i <> j -> ~ Forall2 Qeq (nth i pts []) (nth j pts []).
Proof.
  intros nobj p sc i j H1 H2 Hs. cbv zeta. rewrite gen_ref_points_q_eq by exact H1. destruct sc as [s|].
  - now apply ref_points_scaled_distinct.
  - now apply ref_points_distinct.
Qed.

Theorem source_is_model :
  (forall {T} (Op : numops T) arr b e, gen_partition Op arr b e = partition Op arr b e) /\
  (forall {T} (Op : numops T) arr b e ds,
     gen_randomizedPartition Op arr b e ds = let '(r, ds') := randint b e ds in (rand_partition Op arr b e r, ds')) /\
  (forall {T} (Op : numops T) fuel arr b e i ds,
     gen_randomizedSelect Op fuel arr b e i ds = rand_select Op fuel arr b e i ds) /\
  (forall {T} (Op : numops T) inds k ds, values_same_length inds ->
     gen_selSPEA2 Op inds k ds = spea2 Op (map fst inds) (map snd inds) k ds) /\
  (forall {T} (Op : numops T) nobj p sc, 1 <= nobj ->
     gen_uniform_reference_points Op (Z.of_nat nobj) (Z.of_nat p) sc = ref_points Op nobj p sc).
Proof.
  split; [|split; [|split; [|split]]]; intros.
  - apply gen_partition_eq.
  - apply gen_randomizedPartition_eq.
  - apply gen_randomizedSelect_eq.
  - now apply gen_selSPEA2_eq.
  - now apply gen_uniform_reference_points_eq.
Qed.
