(* C07 — tie (T): the definitions regenerated from the working-tree source of deap/tools/emo.py
   (coq/Gen/C07_gen.v, written by harness/c07_py2coq.py on every run) are equal to the hand model the C07
   theorems are stated about, for all arguments (and all draw lists).
   The proofs go through characterising lemmas of the loops that are generic in the loop guard / body (any
   guard and body that are pointwise equal to the model's), so that renamed locals, `j = j - 1` for `j -= 1`,
   a different order of the loop-carried variables etc. still go through; every script also accepts the
   alias a refused function is emitted as. *)
From Coq Require Import List ZArith Bool Lia.
From DV Require Import Base.PyList Base.C07_Num Model.C07_Spea2 Model.C07_RefPoints Model.C07_GenRt Gen.C07_gen
                       Proofs.C07_SelectGen.
Import ListNotations.

Section Equiv.
Context {T : Type} (Op : numops T).

Ltac side := intros; cbv beta zeta; first [reflexivity | lia | f_equal; lia].

(* while array[j] > x: j -= 1 *)
Lemma while_scan_down fuel (arr : list T) x (c : Z -> bool) (b : Z -> Z) j :
  (forall j, c j = n_ltb Op x (getz Op arr j)) -> (forall j, b j = (j - 1)%Z) ->
  while_ fuel c b j = scan_down Op fuel arr x j.
Proof.
  intros Hc Hb. revert j. induction fuel as [|f IH]; intro j; cbn; [reflexivity|].
  rewrite Hc. destruct (n_ltb Op x (getz Op arr j)); [|reflexivity]. rewrite Hb. apply IH.
Qed.

(* while array[i] < x: i += 1 *)
Lemma while_scan_up fuel (arr : list T) x (c : Z -> bool) (b : Z -> Z) i :
  (forall i, c i = n_ltb Op (getz Op arr i) x) -> (forall i, b i = (i + 1)%Z) ->
  while_ fuel c b i = scan_up Op fuel arr x i.
Proof.
  intros Hc Hb. revert i. induction fuel as [|f IH]; intro i; cbn; [reflexivity|].
  rewrite Hc. destruct (n_ltb Op (getz Op arr i) x); [|reflexivity]. rewrite Hb. apply IH.
Qed.

Ltac scans :=
  repeat first
    [ erewrite while_scan_down by side
    | erewrite while_scan_up by side ].

Theorem gen_partition_eq (arr : list T) (b e : Z) :
  gen_partition Op arr b e = partition Op arr b e.
Proof.
  first [ solve [unfold gen_partition; reflexivity] | idtac "gen_partition: regenerated" ].
  all: unfold gen_partition, partition; cbv zeta.
  all: generalize (getz Op arr b) as x; intro x.
  all: generalize (S (length arr)) as n; intro n.
  all: generalize (b - 1)%Z as i; generalize (e + 1)%Z as j.
  all: revert arr; induction n as [|n IH]; intros arr j i; [reflexivity|].
  all: cbn [loop_ret part_loop]; cbv beta iota zeta; scans.
  all: match goal with |- context [(?a <? ?b)%Z] => destruct (a <? b)%Z end; [|reflexivity].
  all: unfold swapz, setz in *; apply IH.
Qed.

Theorem gen_randomizedPartition_eq (arr : list T) (b e : Z) (ds : list Z) :
  gen_randomizedPartition Op arr b e ds
  = let '(r, ds') := randint b e ds in (rand_partition Op arr b e r, ds').
Proof.
  first [ solve [unfold gen_randomizedPartition; reflexivity] | idtac "gen_randomizedPartition: regenerated" ].
  all: unfold gen_randomizedPartition; destruct (randint b e ds) as [r d]; cbv zeta.
  all: rewrite gen_partition_eq; unfold rand_partition, swapz, setz.
  all: match goal with |- context [partition Op ?a ?x ?y] => destruct (partition Op a x y) end.
  all: reflexivity.
Qed.

Theorem gen_randomizedSelect_eq (fuel : nat) (arr : list T) (b e i : Z) (ds : list Z) :
  gen_randomizedSelect Op fuel arr b e i ds = rand_select Op fuel arr b e i ds.
Proof.
  first [ solve [unfold gen_randomizedSelect; reflexivity] | idtac "gen_randomizedSelect: regenerated" ].
  all: revert arr b e i ds; induction fuel as [|f IH]; intros arr b e i ds; [reflexivity|].
  all: cbn [gen_randomizedSelect rand_select].
  all: destruct (b =? e)%Z; [reflexivity|].
  all: rewrite gen_randomizedPartition_eq; unfold randint.
  all: destruct ds as [|r d]; cbv zeta;
      (match goal with |- context [rand_partition Op ?a ?x ?y ?z] => destruct (rand_partition Op a x y z) as [arr' q] end);
      cbv beta iota zeta;
      (match goal with |- context [(?a <? ?b)%Z] => destruct (a <? b)%Z end); apply IH.
Qed.

End Equiv.

(* ---- the C07 theorems about _partition / _randomizedSelect, on the regenerated definitions ---- *)
Section Thms.
Context {T : Type} (Op : numops T).
Hypothesis lt_irrefl : forall x, n_ltb Op x x = false.
Hypothesis lt_trans : forall x y z, n_ltb Op x y = true -> n_ltb Op y z = true -> n_ltb Op x z = true.
Hypothesis nlt_trans : forall x y z, n_ltb Op x y = false -> n_ltb Op y z = false -> n_ltb Op x z = false.
Local Open Scope Z_scope.

(* Hoare partition: same length, same multiset on [b,e] (every count preserved), nothing outside [b,e]
   touched, b <= q < e, everything in [b,q] is <= everything in [q+1,e] *)
Theorem gen_partition_post (arr : list T) (b e : Z) :
  0 <= b -> b < e -> e < Z.of_nat (length arr) ->
  let '(arr', q) := gen_partition Op arr b e in ppost Op arr b e arr' q.
Proof.
  intros Hb Hbe He. rewrite gen_partition_eq.
  exact (partition_spec Op lt_irrefl lt_trans nlt_trans arr b e Hb Hbe He).
Qed.

Theorem gen_rand_select_rank : forall fuel arr b e i draws,
  0 <= b -> b <= e -> e < Z.of_nat (length arr) -> 0 <= i <= e - b -> e - b + 1 <= Z.of_nat fuel ->
  draws_valid Op fuel arr b e i draws = true ->
  rank_ok Op arr b e i (fst (gen_randomizedSelect Op fuel arr b e i draws)).
Proof.
  intros. rewrite gen_randomizedSelect_eq.
  apply (rand_select_rank Op lt_irrefl lt_trans nlt_trans); assumption.
Qed.

End Thms.

Theorem gen_rand_select_is_kth : forall (arr : list qx) (i : Z) draws,
  (0 <= i < Z.of_nat (length arr))%Z ->
  draws_valid qx_ops (S (length arr)) arr 0 (Z.of_nat (length arr) - 1) i draws = true ->
  let v := fst (gen_randomizedSelect qx_ops (S (length arr)) arr 0 (Z.of_nat (length arr) - 1) i draws) in
  qx_ltb (kth_smallest qx_ops arr i) v = false /\ qx_ltb v (kth_smallest qx_ops arr i) = false.
Proof.
  intros arr i draws Hi Hd. rewrite gen_randomizedSelect_eq.
  exact (rand_select_is_kth qx_ops qx_lt_irrefl qx_lt_trans qx_nlt_trans arr i draws Hi Hd).
Qed.

Theorem source_is_model :
  (forall {T} (Op : numops T) arr b e, gen_partition Op arr b e = partition Op arr b e) /\
  (forall {T} (Op : numops T) arr b e ds,
     gen_randomizedPartition Op arr b e ds = let '(r, ds') := randint b e ds in (rand_partition Op arr b e r, ds')) /\
  (forall {T} (Op : numops T) fuel arr b e i ds,
     gen_randomizedSelect Op fuel arr b e i ds = rand_select Op fuel arr b e i ds).
Proof.
  split; [|split]; intros.
  - apply gen_partition_eq.
  - apply gen_randomizedPartition_eq.
  - apply gen_randomizedSelect_eq.
Qed.
