(* C07 — tie (T): the definitions regenerated from the working-tree source of deap/tools/emo.py
   (coq/Gen/C07_gen.v, written by harness/c07_py2coq.py on every run) are equal to the hand model the C07
   theorems are stated about, for all arguments (and all draw lists).
   The proofs go through characterising lemmas of the loops that are generic in the loop guard / body (any
   guard and body that are pointwise equal to the model's), so that renamed locals, `j = j - 1` for `j -= 1`,
   a different order of the loop-carried variables etc. still go through; every script also accepts the
   alias a refused function is emitted as. *)
From Coq Require Import List ZArith QArith Bool Lia.
From DV Require Import Base.PyList Base.C07_Num Model.C07_Spea2 Model.C07_RefPoints Model.C07_GenRt Gen.C07_gen
                       Proofs.C07_SelectGen Proofs.C07_Spea2.
Import ListNotations.
Local Open Scope nat_scope.

Section Equiv.
Context {T : Type} (Op : numops T).

Ltac side := intros; cbv beta zeta; first [reflexivity | lia | f_equal; lia].

(* while array[j] > x: j -= 1 *)
Lemma while_scan_down fuel (arr : list T) x (c : Z -> bool) (b : Z -> Z) j :
  (forall j, c j = n_ltb Op x (getz Op arr j)) -> (forall j, b j = (j - 1)%Z) ->
  while_ fuel c b j = scan_down Op fuel arr x j.
Proof.
  intros Hc Hb. revert j. induction fuel as [|f IH]; intro j; cbn; [reflexivity|].
  rewrite Hc. destruct (n_ltb Op x (getz Op arr j)); [|reflexivity]. rewrite Hb. apply IH.
Qed.

(* while array[i] < x: i += 1 *)
Lemma while_scan_up fuel (arr : list T) x (c : Z -> bool) (b : Z -> Z) i :
  (forall i, c i = n_ltb Op (getz Op arr i) x) -> (forall i, b i = (i + 1)%Z) ->
  while_ fuel c b i = scan_up Op fuel arr x i.
Proof.
  intros Hc Hb. revert i. induction fuel as [|f IH]; intro i; cbn; [reflexivity|].
  rewrite Hc. destruct (n_ltb Op (getz Op arr i) x); [|reflexivity]. rewrite Hb. apply IH.
Qed.

Ltac scans :=
  repeat first
    [ erewrite while_scan_down by side
    | erewrite while_scan_up by side ].

Theorem gen_partition_eq (arr : list T) (b e : Z) :
  gen_partition Op arr b e = partition Op arr b e.
Proof.
  first [ solve [unfold gen_partition; reflexivity] | idtac "gen_partition: regenerated" ].
  all: unfold gen_partition, partition; cbv zeta.
  all: generalize (getz Op arr b) as x; intro x.
  all: generalize (S (length arr)) as n; intro n.
  all: generalize (b - 1)%Z as i; generalize (e + 1)%Z as j.
  all: revert arr; induction n as [|n IH]; intros arr j i; [reflexivity|].
  all: cbn [loop_ret part_loop]; cbv beta iota zeta; scans.
  all: match goal with |- context [(?a <? ?b)%Z] => destruct (a <? b)%Z end; [|reflexivity].
  all: unfold swapz, setz in *; apply IH.
Qed.

Theorem gen_randomizedPartition_eq (arr : list T) (b e : Z) (ds : list Z) :
  gen_randomizedPartition Op arr b e ds
  = let '(r, ds') := randint b e ds in (rand_partition Op arr b e r, ds').
Proof.
  first [ solve [unfold gen_randomizedPartition; reflexivity] | idtac "gen_randomizedPartition: regenerated" ].
  all: unfold gen_randomizedPartition; destruct (randint b e ds) as [r d]; cbv zeta.
  all: rewrite gen_partition_eq; unfold rand_partition, swapz, setz.
  all: match goal with |- context [partition Op ?a ?x ?y] => destruct (partition Op a x y) end.
  all: reflexivity.
Qed.

Theorem gen_randomizedSelect_eq (fuel : nat) (arr : list T) (b e i : Z) (ds : list Z) :
  gen_randomizedSelect Op fuel arr b e i ds = rand_select Op fuel arr b e i ds.
Proof.
  first [ solve [unfold gen_randomizedSelect; reflexivity] | idtac "gen_randomizedSelect: regenerated" ].
  all: revert arr b e i ds; induction fuel as [|f IH]; intros arr b e i ds; [reflexivity|].
  all: cbn [gen_randomizedSelect rand_select].
  all: destruct (b =? e)%Z; [reflexivity|].
  all: rewrite gen_randomizedPartition_eq; unfold randint.
  all: destruct ds as [|r d]; cbv zeta;
      (match goal with |- context [rand_partition Op ?a ?x ?y ?z] => destruct (rand_partition Op a x y z) as [arr' q] end);
      cbv beta iota zeta;
      (match goal with |- context [(?a <? ?b)%Z] => destruct (a <? b)%Z end); apply IH.
Qed.

(* ---- selSPEA2 (lines 725-743 and the branch structure; the two archive branches are separate units) ---- *)
Lemma pair_step_lengths w st p :
  length (fst (pair_step Op w st p)) = length (fst st) /\ length (snd (pair_step Op w st p)) = length (snd st).
Proof.
  destruct st as [S_ D], p as [i j]. unfold pair_step, incr, push.
  destruct (dominates Op (nth i w []) (nth j w [])); [cbn; now rewrite !set_nth_length|].
  destruct (dominates Op (nth j w []) (nth i w [])); cbn; now rewrite ?set_nth_length.
Qed.

Lemma phase1_lengths w N : length (fst (phase1 Op w N)) = N /\ length (snd (phase1 Op w N)) = N.
Proof.
  unfold phase1.
  assert (G : forall ps st, length (fst (fold_left (pair_step Op w) ps st)) = length (fst st) /\
                            length (snd (fold_left (pair_step Op w) ps st)) = length (snd st)).
  { induction ps as [|p ps IH]; intro st; [split; reflexivity|]. cbn [fold_left].
    destruct (IH (pair_step Op w st p)) as [A B]. destruct (pair_step_lengths w st p) as [C D]. split; congruence. }
  destruct (G (pairs N) (repeat 0%nat N, repeat [] N)) as [A B]. cbn [fst snd] in *. rewrite repeat_length in *. auto.
Qed.

Lemma pair_eta {A B} (p : A * B) : (let '(a, b) := p in (a, b)) = p.
Proof. now destruct p. Qed.
Lemma map_const_seq {A} (c : A) s n : map (fun _ => c) (seq s n) = repeat c n.
Proof. revert s. induction n as [|n IH]; intro s; [reflexivity|]. cbn. now rewrite IH. Qed.
Lemma nth_map_snd (inds : list (list T * list T)) i : nth i (map snd inds) [] = snd (nth i inds (@nil T, @nil T)).
Proof. exact (map_nth snd inds (@nil T, @nil T) i). Qed.

(* the two archive branches: regenerated units or aliases of the model's branch functions *)
Theorem gen_selSPEA2_fill_eq inds k N L K fits chosen ds :
  gen_selSPEA2_fill Op inds k N L K fits chosen ds = fill_branch Op (map fst inds) N k fits chosen ds.
Proof. unfold gen_selSPEA2_fill. reflexivity. Qed.

Theorem gen_selSPEA2_trunc_eq inds k L chosen :
  gen_selSPEA2_trunc Op inds k L chosen = trunc_branch Op (map fst inds) k chosen.
Proof. unfold gen_selSPEA2_trunc. reflexivity. Qed.

Ltac dd := (* the dominance tests of one pair *)
  repeat match goal with |- context [dominates Op ?a ?b] => destruct (dominates Op a b) end.

(* for i, ind_i in enumerate(individuals): for j, ind_j in enumerate(individuals[i+1:], i+1): ...
   = the fold of pair_step over pairs N; generic in how the body is written: it only has to compute
   pair_step on every pair i < j < N *)
Ltac spea2_phase1 inds N w :=
  match goal with |- context [for_ (enum 0 inds) ?F ?s0] =>
    let P1 := fresh "P1" in
    assert (P1 : for_ (enum 0 inds) F s0 = phase1 Op w N) by
     (rewrite (for_enum (@nil T, @nil T)); rewrite ?map_const_seq; unfold phase1;
      change (fold_left (pair_step Op w) (pairs N)) with (for_ (pairs N) (fun p st => pair_step Op w st p));
      unfold pairs; rewrite for_flat_map; fold N;
      apply for_ext; (let i := fresh "i" in let st := fresh "st" in let Hi := fresh "Hi" in
      intros i st Hi; apply in_seq in Hi;
      cbv beta iota zeta; destruct st as [? ?]; rewrite ?pair_eta;
      rewrite for_map, (for_enum (@nil T, @nil T)), skipn_length, ?Nat.add_1_r; fold N;
      apply for_ext; (let j := fresh "j" in let st' := fresh "st" in let Hj := fresh "Hj" in
      intros j st' Hj; apply in_seq in Hj;
      cbv beta iota zeta; destruct st' as [? ?];
      rewrite ?nth_skipn; replace (S i + (j - S i))%nat with j by lia; rewrite ?Nat.sub_0_r;
      unfold pair_step, w; rewrite !nth_map_snd; unfold incr, push;
      dd; rewrite ?Nat.add_1_r; reflexivity)));
    rewrite P1; clear P1
  end.

(* for i in range(N): for j in dominating_inds[i]: fits[i] += strength_fits[j]   = raw_fits *)
Ltac spea2_phase2 N S_ D LD :=
  match goal with |- context [for_ (seq 0 N) ?F (repeat 0%nat N)] =>
    let P2 := fresh "P2" in
    assert (P2 : for_ (seq 0 N) F (repeat 0%nat N) = raw_fits S_ D) by
     (pose (h := fun (i : nat) (a : nat) => fold_left (fun acc j => (acc + nth j S_ 0)%nat) (nth i D []) a);
      rewrite (for_ext_inv (fun f => length f = N) _ _ (fun i f => set_nth f i (h i (nth i f 0%nat))));
      [ rewrite (for_each_entry 0%nat h N) by apply repeat_length;
        unfold raw_fits; rewrite (map_nth_seq _ D []), LD; apply map_ext_in;
        (let i := fresh "i" in let Hi := fresh "Hi" in intros i Hi; apply in_seq in Hi; unfold h; now rewrite nth_repeat)
      | apply repeat_length
      | let i := fresh "i" in let f := fresh "f" in let Hi := fresh "Hi" in let Lf := fresh "Lf" in
        intros i f Hi Lf; apply in_seq in Hi; cbv beta zeta; split; [|now rewrite set_nth_length];
        unfold h; apply (for_accum_entry (nth i D []) (fun j => nth j S_ 0%nat)); lia ]);
    rewrite P2; clear P2
  end.

Ltac spea2_main inds :=
  let N := fresh "N" in let w := fresh "w" in let LS := fresh "LS" in let LD := fresh "LD" in
  let S_ := fresh "S_" in let D := fresh "D" in
  unfold gen_selSPEA2, spea2; cbv zeta; rewrite map_length;
  set (N := length inds); set (w := map snd inds);
  spea2_phase1 inds N w;
  destruct (phase1_lengths w N) as [LS LD]; destruct (phase1 Op w N) as [S_ D]; cbn [fst snd] in LS, LD;
  spea2_phase2 N S_ D LD;
  (* chosen_indices = [i for i in range(N) if fits[i] < 1] *)
  match goal with |- context [filter ?F (seq 0 N)] =>
    let P3 := fresh "P3" in
    assert (P3 : filter F (seq 0 N) = nd_indices (raw_fits S_ D)) by
      (unfold nd_indices; replace (length (raw_fits S_ D)) with N by (unfold raw_fits; now rewrite map_length);
       apply filter_ext; intro; reflexivity);
    rewrite P3; clear P3 end;
  rewrite ?pair_eta, ?gen_selSPEA2_fill_eq, ?gen_selSPEA2_trunc_eq;
  repeat match goal with |- context [(?a <? ?b)%nat] => destruct (a <? b)%nat end; reflexivity.

Theorem gen_selSPEA2_eq (inds : list (list T * list T)) (k : nat) (ds : list Z) :
  gen_selSPEA2 Op inds k ds = spea2 Op (map fst inds) (map snd inds) k ds.
Proof.
  first [ solve [unfold gen_selSPEA2; reflexivity] | idtac "gen_selSPEA2: regenerated"; spea2_main inds ].
Qed.

End Equiv.

(* ---- the C07 theorems about _partition / _randomizedSelect, on the regenerated definitions ---- *)
Section Thms.
Context {T : Type} (Op : numops T).
Hypothesis lt_irrefl : forall x, n_ltb Op x x = false.
Hypothesis lt_trans : forall x y z, n_ltb Op x y = true -> n_ltb Op y z = true -> n_ltb Op x z = true.
Hypothesis nlt_trans : forall x y z, n_ltb Op x y = false -> n_ltb Op y z = false -> n_ltb Op x z = false.
Local Open Scope Z_scope.

(* Hoare partition: same length, same multiset on [b,e] (every count preserved), nothing outside [b,e]
   touched, b <= q < e, everything in [b,q] is <= everything in [q+1,e] *)
Theorem gen_partition_post (arr : list T) (b e : Z) :
  0 <= b -> b < e -> e < Z.of_nat (length arr) ->
  let '(arr', q) := gen_partition Op arr b e in ppost Op arr b e arr' q.
Proof.
  intros Hb Hbe He. rewrite gen_partition_eq.
  exact (partition_spec Op lt_irrefl lt_trans nlt_trans arr b e Hb Hbe He).
Qed.

Theorem gen_rand_select_rank : forall fuel arr b e i draws,
  0 <= b -> b <= e -> e < Z.of_nat (length arr) -> 0 <= i <= e - b -> e - b + 1 <= Z.of_nat fuel ->
  draws_valid Op fuel arr b e i draws = true ->
  rank_ok Op arr b e i (fst (gen_randomizedSelect Op fuel arr b e i draws)).
Proof.
  intros. rewrite gen_randomizedSelect_eq.
  apply (rand_select_rank Op lt_irrefl lt_trans nlt_trans); assumption.
Qed.

End Thms.

Theorem gen_rand_select_is_kth : forall (arr : list qx) (i : Z) draws,
  (0 <= i < Z.of_nat (length arr))%Z ->
  draws_valid qx_ops (S (length arr)) arr 0 (Z.of_nat (length arr) - 1) i draws = true ->
  let v := fst (gen_randomizedSelect qx_ops (S (length arr)) arr 0 (Z.of_nat (length arr) - 1) i draws) in
  qx_ltb (kth_smallest qx_ops arr i) v = false /\ qx_ltb v (kth_smallest qx_ops arr i) = false.
Proof.
  intros arr i draws Hi Hd. rewrite gen_randomizedSelect_eq.
  exact (rand_select_is_kth qx_ops qx_lt_irrefl qx_lt_trans qx_nlt_trans arr i draws Hi Hd).
Qed.

(* C07_spea2_generic on the regenerated selSPEA2: individuals = (fitness.values, fitness.wvalues) *)
Theorem gen_spea2_spec {T} (Op : numops T) :
  (forall x y, n_ltb Op x y = true -> n_ltb Op y x = false) ->
  forall (inds : list (list T * list T)) k draws, dist_ok Op (map fst inds) -> (1 <= k <= length inds)%nat ->
  let wvals := map snd inds in
  let r := fst (gen_selSPEA2 Op inds k draws) in
  length r = k /\ NoDup r /\ (forall i, In i r -> (i < length inds)%nat) /\
  ((length (nd_list Op wvals) <= k)%nat -> incl (nd_list Op wvals) r) /\
  ((k <= length (nd_list Op wvals))%nat -> incl r (nd_list Op wvals)).
Proof.
  intros H inds k draws Hd Hk. cbv zeta. rewrite gen_selSPEA2_eq.
  assert (Hk' : (1 <= k <= length (map snd inds))%nat) by (now rewrite map_length).
  generalize (spea2_spec Op H (map fst inds) (map snd inds) k draws Hd Hk'). cbv zeta. rewrite map_length. exact (fun x => x).
Qed.

(* exact instance, finite fitness values: the distance hypothesis is discharged *)
Theorem gen_spea2_exact : forall (vq : list (list Q)) (wvals : list (list qx)) k draws,
  length vq = length wvals -> (1 <= k <= length wvals)%nat ->
  let r := fst (gen_selSPEA2 qx_ops (combine (map (map QF) vq) wvals) k draws) in
  length r = k /\ NoDup r /\ (forall i, In i r -> (i < length wvals)%nat) /\
  ((length (nd_list qx_ops wvals) <= k)%nat -> incl (nd_list qx_ops wvals) r) /\
  ((k <= length (nd_list qx_ops wvals))%nat -> incl r (nd_list qx_ops wvals)).
Proof.
  intros vq wvals k draws HL Hk. cbv zeta. rewrite gen_selSPEA2_eq.
  assert (E1 : map fst (combine (map (map QF) vq) wvals) = map (map QF) vq).
  { clear Hk. revert wvals HL. induction vq as [|v vq IH]; intros [|w ws] HL; cbn in *; try discriminate; [reflexivity|].
    f_equal. apply IH. congruence. }
  assert (E2 : map snd (combine (map (map QF) vq) wvals) = wvals).
  { clear Hk E1. revert wvals HL. induction vq as [|v vq IH]; intros [|w ws] HL; cbn in *; try discriminate; [reflexivity|].
    f_equal. apply IH. congruence. }
  rewrite E1, E2.
  exact (spea2_spec qx_ops qx_ltb_asym (map (map QF) vq) wvals k draws (dist_ok_qx vq) Hk).
Qed.

Theorem source_is_model :
  (forall {T} (Op : numops T) arr b e, gen_partition Op arr b e = partition Op arr b e) /\
  (forall {T} (Op : numops T) arr b e ds,
     gen_randomizedPartition Op arr b e ds = let '(r, ds') := randint b e ds in (rand_partition Op arr b e r, ds')) /\
  (forall {T} (Op : numops T) fuel arr b e i ds,
     gen_randomizedSelect Op fuel arr b e i ds = rand_select Op fuel arr b e i ds) /\
  (forall {T} (Op : numops T) inds k ds,
     gen_selSPEA2 Op inds k ds = spea2 Op (map fst inds) (map snd inds) k ds).
Proof.
  split; [|split; [|split]]; intros.
  - apply gen_partition_eq.
  - apply gen_randomizedPartition_eq.
  - apply gen_randomizedSelect_eq.
  - apply gen_selSPEA2_eq.
Qed.
