(* C14 — refinement: the list-of-rows matrices of the executable model read as mathcomp matrices;
   the model-level _rankOneUpdate (MO) and _rank1update (active) are the matrix-level rank-one
   updates of Proofs/C14_RankOne.v, hence keep the stored inverse exact and change A A^T by
   alpha * old + beta * v v^T; MO update keeps every stored inverse exact. *)
From Coq Require Import ZArith.
From mathcomp Require Import all_ssreflect all_algebra.
From mathcomp Require Import ring.
From DV Require Import Model.C14_exec Proofs.C14_RankOne Proofs.C14_Elitist Proofs.C14_MO.
Import Order.TTheory GRing.Theory Num.Theory.
Set Implicit Arguments. Unset Strict Implicit. Unset Printing Implicit Defensive.
Local Open Scope ring_scope.

(* Refinement: the list-of-rows matrices of the executable model, read as mathcomp matrices. *)
Section Refine.
Variable R : rcfType.
Variable exp_ : R -> R.
Variable round_ : R -> R.
Notation RO := (ROps exp_ round_).
Variable n : nat.

Definition vec_of (v : seq R) : 'cV[R]_n := \col_i nth 0 v i.
Definition mx_of (A : seq (seq R)) : 'M[R]_n := \matrix_(i, j) nth 0 (nth [::] A i) j.
Definition wfv (v : seq R) : bool := size v == n.
Definition wfm (A : seq (seq R)) : bool := (size A == n) && all wfv A.

Lemma List_nthE' (A : Type) (d : A) l i : List.nth i l d = nth d l i.
Proof. by elim: l i => [|x l IH] [|i] //=. Qed.

(* ---- map2 ---- *)
Lemma size_map2 (A B C : Type) (f : A -> B -> C) u v : size (map2 f u v) = minn (size u) (size v).
Proof. by elim: u v => [|x u IH] [|y v] //=; rewrite IH minnSS. Qed.

Lemma nth_map2 (A B C : Type) (f : A -> B -> C) da db dc u v i :
  (i < size u)%nat -> (i < size v)%nat -> nth dc (map2 f u v) i = f (nth da u i) (nth db v i).
Proof. by elim: u v i => [|x u IH] [|y v] [|i] //=; rewrite !ltnS; exact: IH. Qed.

Lemma wfv_map2 (f : R -> R -> R) u v : wfv u -> wfv v -> wfv (map2 f u v).
Proof. by rewrite /wfv size_map2 => /eqP -> /eqP ->; rewrite minnn. Qed.

(* ---- vectors ---- *)
Lemma vec_of_vadd u v : wfv u -> wfv v -> vec_of (vadd RO u v) = vec_of u + vec_of v.
Proof.
move=> /eqP su /eqP sv; apply/colP => i; rewrite !mxE /vadd.
by rewrite (nth_map2 _ 0 0) ?su ?sv.
Qed.

Lemma vec_of_vsub u v : wfv u -> wfv v -> vec_of (vsub RO u v) = vec_of u - vec_of v.
Proof.
move=> /eqP su /eqP sv; apply/colP => i; rewrite !mxE /vsub.
by rewrite (nth_map2 _ 0 0) ?su ?sv.
Qed.

Lemma nth_map0 (f : R -> R) v i : f 0 = 0 -> nth 0 [seq f x | x <- v] i = f (nth 0 v i).
Proof.
move=> f0; case: (ltnP i (size v)) => [lt|ge]; first exact: nth_map.
by rewrite !nth_default ?size_map.
Qed.

Lemma vec_of_vscale c v : vec_of (vscale RO c v) = c *: vec_of v.
Proof. by apply/colP => i; rewrite !mxE /vscale List_mapE (nth_map0 _ _ (mulr0 c)). Qed.

Lemma vec_of_vdivs v c : vec_of (vdivs RO v c) = c^-1 *: vec_of v.
Proof.
apply/colP => i; rewrite !mxE /vdivs List_mapE (@nth_map0 (fun x => x / c)) ?mul0r //=.
by rewrite mulrC.
Qed.

Lemma wfv_vscale c v : wfv (vscale RO c v) = wfv v.
Proof. by rewrite /wfv /vscale List_mapE size_map. Qed.
Lemma wfv_vdivs v c : wfv (vdivs RO v c) = wfv v.
Proof. by rewrite /wfv /vdivs List_mapE size_map. Qed.

(* ---- dot product ---- *)
Lemma fold_dot (l : seq (R * R)) a :
  List.fold_left (fun acc p => acc + p.1 * p.2) l a = a + \sum_(p <- l) p.1 * p.2.
Proof.
elim: l a => [|p l IH] a /=; first by rewrite big_nil addr0.
by rewrite IH big_cons addrA.
Qed.

Lemma List_combineE' (A B : Type) (l : seq A) (m : seq B) : List.combine l m = zip l m.
Proof. by elim: l m => [|x l IH] [|y m] //=; rewrite IH. Qed.

Lemma dotE u v : wfv u -> wfv v -> dot RO u v = \sum_(i < n) nth 0 u i * nth 0 v i.
Proof.
move=> /eqP su /eqP sv; rewrite /dot fold_dot List_combineE' c0E add0r.
rewrite (big_nth (0, 0)) size_zip su sv minnn big_mkord.
by apply: eq_bigr => i _; rewrite nth_zip ?su ?sv.
Qed.


(* ---- matrices ---- *)
Lemma wfm_row A (i : 'I_n) : wfm A -> wfv (nth [::] A i).
Proof. by case/andP=> /eqP sA /allP h; apply: h; rewrite mem_nth // sA. Qed.

Lemma vec_of_mv A v : wfm A -> wfv v -> vec_of (mv RO A v) = mx_of A *m vec_of v.
Proof.
move=> wA wv; apply/colP => i; rewrite !mxE /mv List_mapE.
have sA : size A = n by case/andP: wA => /eqP.
rewrite (nth_map [::]) ?sA // dotE ?wfm_row //.
by apply: eq_bigr => j _; rewrite !mxE.
Qed.

Lemma wfv_mv A v : wfm A -> wfv (mv RO A v).
Proof. by case/andP=> sA _; rewrite /wfv /mv List_mapE size_map. Qed.

Lemma mx_of_outer u v : wfv u -> wfv v -> mx_of (outer RO u v) = vec_of u *m (vec_of v)^T.
Proof.
move=> /eqP su /eqP sv; apply/matrixP => i j; rewrite !mxE big_ord1 !mxE /outer !List_mapE.
by rewrite (nth_map 0) ?su // List_mapE (nth_map 0) ?sv.
Qed.

Lemma wfm_outer u v : wfv u -> wfv v -> wfm (outer RO u v).
Proof.
move=> su sv; rewrite /wfm /outer List_mapE size_map -/(wfv u) su /=.
by apply/allP => r /mapP[x _ ->]; rewrite /wfv List_mapE size_map.
Qed.

Lemma mx_of_map2 (f : R -> R -> R) (g : 'M[R]_n -> 'M[R]_n -> 'M[R]_n) A B :
  (forall (X Y : 'M[R]_n) i j, g X Y i j = f (X i j) (Y i j)) ->
  wfm A -> wfm B -> mx_of (map2 (map2 f) A B) = g (mx_of A) (mx_of B).
Proof.
move=> gE wA wB; apply/matrixP => i j; rewrite gE !mxE.
have sA : size A = n by case/andP: wA => /eqP.
have sB : size B = n by case/andP: wB => /eqP.
rewrite (nth_map2 _ [::] [::]) ?sA ?sB //.
have /eqP sa := wfm_row i wA; have /eqP sb := wfm_row i wB.
by rewrite (nth_map2 _ 0 0) ?sa ?sb.
Qed.

Lemma wfm_map2 (f : R -> R -> R) A B : wfm A -> wfm B -> wfm (map2 (map2 f) A B).
Proof.
move=> wA wB; have sA : size A = n by case/andP: wA => /eqP.
have sB : size B = n by case/andP: wB => /eqP.
rewrite /wfm size_map2 sA sB minnn eqxx /=.
apply/(all_nthP [::]) => i; rewrite size_map2 sA sB minnn => lt.
rewrite (nth_map2 _ [::] [::]) ?sA ?sB //.
by apply: wfv_map2; [exact: (wfm_row (Ordinal lt) wA) | exact: (wfm_row (Ordinal lt) wB)].
Qed.

Lemma mx_of_madd A B : wfm A -> wfm B -> mx_of (madd RO A B) = mx_of A + mx_of B.
Proof. by move=> wA wB; rewrite /madd /vadd (mx_of_map2 (g := +%R)) // => X Y i j; rewrite mxE. Qed.
Lemma mx_of_msub A B : wfm A -> wfm B -> mx_of (msub RO A B) = mx_of A - mx_of B.
Proof.
move=> wA wB; rewrite /msub /vsub (mx_of_map2 (g := fun X Y => X - Y)) // => X Y i j.
by rewrite !mxE.
Qed.
Lemma wfm_madd A B : wfm A -> wfm B -> wfm (madd RO A B). Proof. exact: wfm_map2. Qed.
Lemma wfm_msub A B : wfm A -> wfm B -> wfm (msub RO A B). Proof. exact: wfm_map2. Qed.

Lemma mx_of_mscale c A : wfm A -> mx_of (mscale RO c A) = c *: mx_of A.
Proof.
move=> wA; apply/matrixP => i j; rewrite !mxE /mscale List_mapE.
have sA : size A = n by case/andP: wA => /eqP.
by rewrite (nth_map [::]) ?sA // /vscale List_mapE (nth_map0 _ _ (mulr0 c)).
Qed.
Lemma wfm_mscale c A : wfm A -> wfm (mscale RO c A).
Proof.
case/andP=> sA /allP h; rewrite /wfm /mscale List_mapE size_map sA /=.
by apply/allP => r /mapP[x /h xin ->]; rewrite wfv_vscale.
Qed.

(* ---- transposition and row-vector times matrix ---- *)
Lemma transposeE (A : seq (seq R)) : A != [::] -> all wfv A ->
  size (transpose A) = n /\
  forall j, (j < n)%nat ->
     size (nth [::] (transpose A) j) = size A /\
     forall i, (i < size A)%nat -> nth 0 (nth [::] (transpose A) j) i = nth 0 (nth [::] A i) j.
Proof.
elim: A => [|r A IH] // _ /= /andP[/eqP sr wA].
case: A IH wA => [|r' A] IH wA.
  rewrite List_mapE size_map sr; split=> // j lt.
  rewrite (nth_map 0) ?sr //=; split=> // i.
  by rewrite ltnS leqn0 => /eqP ->.
have [sT hT] := IH isT wA.
rewrite size_map2 sr sT minnn; split=> // j lt.
rewrite (nth_map2 _ 0 [::]) ?sr ?sT //.
have [sz hj] := hT j lt; split; first by rewrite /= sz.
by case=> [|i] //=; rewrite ltnS => /hj.
Qed.

Lemma vec_of_vm v A : wfm A -> wfv v -> vec_of (vm RO v A) = (mx_of A)^T *m vec_of v.
Proof.
move=> wA wv; case: (posnP n) => [n0|npos].
  by apply/colP => i; have := ltn_ord i; rewrite {2}n0 ltn0.
have sA : size A = n by case/andP: wA => /eqP.
have aA : all wfv A by case/andP: wA.
have neA : A != [::] by rewrite -size_eq0 sA -lt0n.
have [sT hT] := transposeE neA aA.
apply/colP => i; rewrite !mxE /vm /mv List_mapE (nth_map [::]) ?sT //.
have [szi hi] := hT i (ltn_ord i).
have wr : wfv (nth [::] (transpose A) i) by rewrite /wfv szi sA.
rewrite dotE //; apply: eq_bigr => j _; rewrite !mxE.
by rewrite hi // sA.
Qed.


(* ---- _rankOneUpdate of the model is the matrix-level rank-one update ---- *)
Lemma vmaxE (eps d : R) w :
  (eps < vmax RO d w) = (eps < d) || has (fun x => eps < x) w.
Proof.
rewrite /vmax; elim: w d => [|x w IH] d /=; first by rewrite orbF.
rewrite IH; case: (ltP d x) => [dx|xd].
  case: (ltP eps x) => [ex|xe] /=; first by rewrite orbT.
  by rewrite ltNge (le_trans (ltW dx) xe).
case: (ltP eps d) => [ed|de] //=.
by rewrite ltNge (le_trans xd de).
Qed.

Lemma fold_sq (w : seq R) a : List.fold_left (fun acc x => acc + x * x) w a = a + \sum_(x <- w) x * x.
Proof.
elim: w a => [|x w IH] a /=; first by rewrite big_nil addr0.
by rewrite IH big_cons addrA.
Qed.

Lemma norm_w2E w : wfv w -> List.fold_left (fun acc x => acc + x * x) w (c0 RO) = nrm2 (vec_of w).
Proof.
move=> /eqP sw; rewrite fold_sq c0E add0r nrm2_sum (big_nth 0) sw big_mkord.
by apply: eq_bigr => i _; rewrite mxE expr2.
Qed.

Definition eps20 : R := 1 / (kz RO 10000000000 * kz RO 10000000000).

Lemma kz_pos (z : Z) : Z.lt 0 z -> 0 < kz RO z.
Proof. by case: z => // p _; exact: PtoR_gt0. Qed.

Lemma eps20_ge0 : 0 <= eps20.
Proof. by rewrite /eps20 divr_ge0 ?ler01 // mulr_ge0 // ltW // kz_pos. Qed.

Notation model_rank_one := (C14_exec.mo_rank_one RO).
Notation matrix_rank_one := (C14_RankOne.mo_rank_one eps20).

Theorem mo_rank_one_refines invC A (alpha beta : R) v :
  wfm invC -> wfm A -> wfv v ->
  let: (iC', A') := model_rank_one invC A alpha beta v in
  [/\ wfm iC', wfm A' &
      (mx_of iC', mx_of A') = matrix_rank_one (mx_of invC) (mx_of A) alpha beta (vec_of v)].
Proof.
move=> wi wA wv; rewrite /C14_exec.mo_rank_one /C14_RankOne.mo_rank_one.
have ww : wfv (mv RO invC v) := wfv_mv v wi.
have wE : vec_of (mv RO invC v) = mx_of invC *m vec_of v := vec_of_mv wi wv.
set w := mv RO invC v in ww wE *.
have cond : [exists i : 'I_n, eps20 < (mx_of invC *m vec_of v) i 0] = has (fun x => eps20 < x) w.
  rewrite -wE; apply/existsP/hasP => [[i]|[x /(nthP 0)[i lt <-] h]].
    by rewrite mxE => h; exists (nth 0 w i) => //; rewrite mem_nth // (eqP ww).
  by rewrite (eqP ww) in lt; exists (Ordinal lt); rewrite mxE.
case E: w => [|w0 w'].
  by rewrite cond E.
rewrite -E !c1E -/eps20 /= vmaxE -cond.
have -> : (eps20 < w0) || [exists i, eps20 < (mx_of invC *m vec_of v) i 0] =
          [exists i, eps20 < (mx_of invC *m vec_of v) i 0].
  by rewrite cond E /= orbA orbb.
case: ifP => _ //.
have wwi : wfv (vm RO w invC).
  by rewrite /wfv /vm /mv List_mapE size_map; case: (posnP n) => [n0|np];
     [move: ww wi; rewrite /wfv /wfm n0 E | have [] := @transposeE invC _ _ => //;
      [by case/andP: wi => /eqP s _; rewrite -size_eq0 s -lt0n | by case/andP: wi | by move=> ->]].
split.
- by apply: wfm_msub; apply: wfm_mscale => //; exact: wfm_outer.
- by apply: wfm_madd; apply: wfm_mscale => //; exact: wfm_outer.
rewrite mx_of_msub ?mx_of_madd ?mx_of_mscale ?mx_of_outer ?wfm_mscale ?wfm_outer //.
rewrite norm_w2E // vec_of_vm // wE div1r -expr2.
by rewrite trmx_mul trmxK.
Qed.


(* the model's _rankOneUpdate keeps the stored inverse exact and is a rank-one covariance update *)
Corollary mo_rank_one_model_ok invC A (alpha beta : R) v :
  wfm invC -> wfm A -> wfv v -> mx_of invC *m mx_of A = 1%:M -> 0 < alpha -> 0 <= beta ->
  let: (iC', A') := model_rank_one invC A alpha beta v in
  [/\ wfm iC', wfm A', mx_of iC' *m mx_of A' = 1%:M &
      exists al be : R, [/\ 0 < al,
        mx_of A' *m (mx_of A')^T = al *: (mx_of A *m (mx_of A)^T) + be *: (vec_of v *m (vec_of v)^T) &
        (al, be) = (alpha, beta) \/ (al, be) = (1, 0)]].
Proof.
move=> wi wA wv ok a0 b0.
have := mo_rank_one_refines alpha beta wi wA wv.
have := mo_rank_one_ok (vec_of v) eps20_ge0 ok a0 b0.
case: (model_rank_one _ _ _ _ _) => iC' A' H [w1 w2 E]; rewrite -E in H.
by case: H => H1 H2; split.
Qed.

(* ---- update of the multi-objective strategy keeps every stored inverse factor exact ---- *)
Notation mindR := (mind (T:=R)).
Definition wf_ms (st : mstate (T:=R)) : Prop :=
  [/\ all wfv (ms_parents st), all wfm (ms_A st), all wfm (ms_invC st), all wfv (ms_pc st) &
      [/\ size (ms_A st) = size (ms_parents st), size (ms_invC st) = size (ms_parents st) &
          size (ms_pc st) = size (ms_parents st)]].
Definition inv_ok_ms (st : mstate (T:=R)) : bool :=
  all (fun p => mx_of p.1 *m mx_of p.2 == 1%:M) (zip (ms_invC st) (ms_A st)).

Lemma all_nth' (T' : Type) (p : pred T') d l i : all p l -> (i < size l)%nat -> p (List.nth i l d).
Proof. by rewrite List_nthE' => /all_nthP h lt; exact: h. Qed.

Theorem mo_update_core_inverse P st (chosen not_chosen : seq mindR) :
  wf_ms st -> inv_ok_ms st ->
  0 < mp_ccov P < 1 -> 0 <= mp_cc P <= 1 ->
  all (fun ind : mindR => (mi_pidx ind < size (ms_parents st))%nat && wfv (mi_x ind)) chosen ->
  let st' := mo_update_core RO P st chosen not_chosen in
  wf_ms st' /\ inv_ok_ms st'.
Proof.
move=> [wp wA wi wpc [sA si spc]] ok /andP[cv0 cv1] /andP[cc0 cc1] inr st'.
have := mo_update_core_aligned RO P st chosen not_chosen; rewrite -/st'.
case: (mo_loop_chosen _ _ _ _ _ _) => [[recs psL1] sgL1].
case: (mo_loop_not_chosen _ _ _ _ _) => psL sgL [[Ep _] [EA Ei] Epc _ _].
(* facts about one surviving individual *)
have one (ind : mindR) : (mi_pidx ind < size (ms_parents st))%nat && wfv (mi_x ind) ->
    [/\ wfm (entry RO P st (@mr_A R) (ms_A st) [::] ind),
        wfm (entry RO P st (@mr_invC R) (ms_invC st) [::] ind),
        wfv (entry RO P st (@mr_pc R) (ms_pc st) [::] ind) &
        mx_of (entry RO P st (@mr_invC R) (ms_invC st) [::] ind) *m
        mx_of (entry RO P st (@mr_A R) (ms_A st) [::] ind) = 1%:M].
  case/andP=> lt wx; set p := mi_pidx ind in lt *.
  have wAp : wfm (List.nth p (ms_A st) [::]) by apply: all_nth' => //; rewrite sA.
  have wip : wfm (List.nth p (ms_invC st) [::]) by apply: all_nth' => //; rewrite si.
  have wpcp : wfv (List.nth p (ms_pc st) [::]) by apply: all_nth' => //; rewrite spc.
  have wpp : wfv (List.nth p (ms_parents st) [::]) by apply: all_nth'.
  have okp : mx_of (List.nth p (ms_invC st) [::]) *m mx_of (List.nth p (ms_A st) [::]) = 1%:M.
    have ltz : (p < size (zip (ms_invC st) (ms_A st)))%nat by rewrite size_zip si sA minnn.
    have := all_nthP ([::], [::]) ok p ltz; rewrite nth_zip ?si ?sA //= => /eqP.
    by rewrite !List_nthE'.
  rewrite /entry; case: (mi_off ind); last by split.
  rewrite /offspring_rec -/p; cbv zeta.
  have a1 : 0 < 1 - mp_ccov P by rewrite subr_gt0.
  have a2 : 0 < 1 - mp_ccov P + mp_cc P * (2%:R - mp_cc P).
    by rewrite ltr_paddr // mulr_ge0 // subr_ge0 (le_trans cc1) // ler1n.
  case: ifP => _.
    set pc := vadd RO _ _.
    have wpc' : wfv pc.
      by apply: wfv_map2; rewrite ?wfv_vscale ?wfv_vdivs ?wfv_vscale //; exact: wfv_map2.
    have := mo_rank_one_model_ok wip wAp wpc' okp _ (ltW cv0).
    rewrite !c1E /=; move/(_ _ a1).
    by case: (model_rank_one _ _ _ _ _) => iC' A' [? ? ? _].
  set pc := vscale RO _ _.
  have wpc' : wfv pc by rewrite wfv_vscale.
  have := mo_rank_one_model_ok wip wAp wpc' okp _ (ltW cv0).
  rewrite !c1E !c2E /=; move/(_ _ a2).
  by case: (model_rank_one _ _ _ _ _) => iC' A' [? ? ? _].
have all_one (X : Type) (q : X -> bool) (f : mindR -> X) :
    (forall ind, (mi_pidx ind < size (ms_parents st))%nat && wfv (mi_x ind) -> q (f ind)) ->
    all q [seq f ind | ind <- chosen].
  by move=> h; rewrite all_map; apply: sub_all inr => ind /h.
split.
  split; rewrite ?Ep ?EA ?Ei ?Epc ?size_map //.
  - by rewrite all_map; apply: sub_all inr => ind /andP[].
  - by apply: all_one => ind /one [].
  - by apply: all_one => ind /one [].
  - by apply: all_one => ind /one [].
rewrite /inv_ok_ms Ei EA zip_map all_map; apply: sub_all inr => ind /one [_ _ _ /eqP] //.
Qed.


(* ---- active strategy: _rank1update keeps invA the inverse of A and is a rank-one update ---- *)
Lemma norm_sqrdE w : wfv w -> norm_sqrd RO w = nrm2 (vec_of w).
Proof.
move=> ww; rewrite /norm_sqrd /= -expr2 sqr_sqrtr dotE // ?nrm2_sum.
  by apply: eq_bigr => i _; rewrite mxE expr2.
by apply: sumr_ge0 => i _; rewrite -expr2 sqr_ge0.
Qed.

Notation aindR := (aind (T:=R)).

(* the vector w used by the covariance branch that _rank1update takes (None: no covariance update) *)
Definition r1_w (P : aparams (T:=R)) (st : astate (T:=R)) (ind : aindR) (ps : R) : option (seq R) :=
  let psucc := psucc_step RO (ap_cp P) (as_psucc st) ps in
  let cc := ap_cc P in
  if parent_le RO st (ai_fit ind) then
    if (oltb RO psucc (ap_pthresh P)) || allclose0 RO (as_pc st) then
      Some (mv RO (as_invA st) (vadd RO (vscale RO (osub RO (c1 RO) cc) (as_pc st))
                 (vscale RO (osqrt RO (omul RO cc (osub RO (c2 RO) cc))) (ai_y ind))))
    else Some (mv RO (as_invA st) (vscale RO (osub RO (c1 RO) cc) (as_pc st)))
  else if Nat.leb 5 (length (as_anc st)) && c_lt RO (ai_fit ind) (List.hd (mkFit [::] None) (as_anc st))
          && (oltb RO psucc (ap_pthresh P)) then Some (ai_z ind)
  else None.

Lemma act_pair a b nw A iA w : wfm A -> wfm iA -> wfv w ->
  let A' := madd RO (mscale RO a A) (mscale RO b (outer RO (mv RO A w) w)) in
  let iA' := msub RO (mscale RO (1 / a) iA)
                  (mscale RO (b / (a * a + a * b * nw)) (outer RO w (vm RO w iA))) in
  [/\ wfm A', wfm iA', mx_of A' = act_A a b (mx_of A) (vec_of w) &
      mx_of iA' = act_iA a b nw (mx_of iA) (vec_of w)].
Proof.
move=> wA wi ww A' iA'.
have wAw : wfv (mv RO A w) := wfv_mv w wA.
have wwi : wfv (vm RO w iA).
  rewrite /wfv /vm /mv List_mapE size_map; case: (posnP n) => [n0|np].
    have -> : iA = [::] by case/andP: wi => /eqP; rewrite n0 => /size0nil.
    by rewrite /= n0.
  have [|| ->] // := @transposeE iA; last by case/andP: wi.
  by case/andP: wi => /eqP s _; rewrite -size_eq0 s -lt0n.
split.
- by apply: wfm_madd; apply: wfm_mscale => //; exact: wfm_outer.
- by apply: wfm_msub; apply: wfm_mscale => //; exact: wfm_outer.
- by rewrite /A' mx_of_madd ?mx_of_mscale ?mx_of_outer ?wfm_mscale ?wfm_outer // vec_of_mv.
- rewrite /iA' mx_of_msub ?mx_of_mscale ?mx_of_outer ?wfm_mscale ?wfm_outer // vec_of_vm //.
  by rewrite /act_iA div1r -expr2 trmx_mul trmxK.
Qed.

Theorem rank1update_factors (P : aparams (T:=R)) (st : astate (T:=R)) (ind : aindR) (ps : R) :
  wfm (as_A st) -> wfm (as_invA st) -> wfv (as_pc st) -> wfv (ai_y ind) -> wfv (ai_z ind) ->
  mx_of (as_invA st) *m mx_of (as_A st) = 1%:M ->
  0 < ap_ccovp P < 1 -> ap_ccovp P * (1 + ap_cc P * (2%:R - ap_cc P)) < 1 -> 0 <= ap_ccovn P ->
  (forall w, r1_w P st ind ps = Some w -> nrm2 (vec_of w) != 0) ->
  let st' := rank1update RO P st ind ps in
  [/\ wfm (as_A st'), wfm (as_invA st'), wfv (as_pc st'),
      mx_of (as_invA st') *m mx_of (as_A st') = 1%:M &
      exists (alpha beta : R) (v : 'cV[R]_n), 0 < alpha /\
        mx_of (as_A st') *m (mx_of (as_A st'))^T =
          alpha *: (mx_of (as_A st) *m (mx_of (as_A st))^T) + beta *: (v *m v^T)].
Proof.
move=> wA wi wpc wy wz ok cp dlt cn0 nz.
rewrite /rank1update; cbv zeta; move: nz; rewrite /r1_w; cbv zeta.
rewrite /psucc_step !c1E !c2E /=.
case: ifP => _.
  case: ifP => _ nz.
  - set pc1 := vadd RO _ _; set w := mv RO _ pc1.
    have wpc1 : wfv pc1 by apply: wfv_map2; rewrite wfv_vscale.
    have ww : wfv w := wfv_mv pc1 wi.
    have wE : vec_of w = mx_of (as_invA st) *m vec_of pc1 := vec_of_mv wi wpc1.
    have nw0 : nrm2 (mx_of (as_invA st) *m vec_of pc1) != 0 by rewrite -wE; exact: nz.
    have [w1 w2 E1 E2] := act_pair (Num.sqrt (1 - ap_ccovp P))
       (Num.sqrt (1 - ap_ccovp P) / norm_sqrd RO w *
        (Num.sqrt (1 + ap_ccovp P / (1 - ap_ccovp P) * norm_sqrd RO w) - 1)) (norm_sqrd RO w) wA wi ww.
    have [H1 H2] := act_branch_success_low ok cp nw0.
    rewrite /=; split=> //; first by rewrite E1 E2 norm_sqrdE // wE.
    exists (1 - ap_ccovp P), (ap_ccovp P), (vec_of pc1); split; first by case/andP: cp => _; rewrite subr_gt0.
    by rewrite E1 norm_sqrdE // wE.
  - set pc2 := vscale RO _ _; set w := mv RO _ pc2.
    have wpc2 : wfv pc2 by rewrite wfv_vscale.
    have ww : wfv w := wfv_mv pc2 wi.
    have wE : vec_of w = mx_of (as_invA st) *m vec_of pc2 := vec_of_mv wi wpc2.
    have nw0 : nrm2 (mx_of (as_invA st) *m vec_of pc2) != 0 by rewrite -wE; exact: nz.
    have c0' : 0 < ap_ccovp P by case/andP: cp.
    set d := ap_ccovp P * _ in dlt *.
    have [w1 w2 E1 E2] := act_pair (Num.sqrt (1 - d))
       (Num.sqrt (1 - d) * (Num.sqrt (1 + ap_ccovp P * norm_sqrd RO w / (1 - d)) - 1) / norm_sqrd RO w)
       (norm_sqrd RO w) wA wi ww.
    have [H1 H2] := act_branch_success_high ok c0' dlt nw0.
    rewrite /=; split=> //; first by rewrite E1 E2 norm_sqrdE // wE.
    exists (1 - d), (ap_ccovp P), (vec_of pc2); split; first by rewrite subr_gt0.
    by rewrite E1 norm_sqrdE // wE.
case: ifP => _ nz; last first.
  rewrite /=; split=> //; exists 1, 0, (0 : 'cV[R]_n); split; first exact: ltr01.
  by rewrite scale1r scale0r addr0.
set w := ai_z ind.
have nw0 := nz _ erefl.
set ccovn := if _ then _ else _.
have [w1 w2 E1 E2] := act_pair (Num.sqrt (1 + ccovn))
   (Num.sqrt (1 + ccovn) / norm_sqrd RO w * (Num.sqrt (1 - ccovn / (1 + ccovn) * norm_sqrd RO w) - 1))
   (norm_sqrd RO w) wA wi wz.
have cE : ccovn = clamp_ccovn (ap_ccovn P) (nrm2 (vec_of w)).
  by rewrite /ccovn /clamp_ccovn -(norm_sqrdE wz) div1r.
have [H0 H1 H2] := act_branch_negative ok cn0 nw0.
rewrite /=; split=> //; first by rewrite E1 E2 cE norm_sqrdE.
exists (1 + clamp_ccovn (ap_ccovn P) (nrm2 (vec_of w))), (- clamp_ccovn (ap_ccovn P) (nrm2 (vec_of w))),
       (mx_of (as_A st) *m vec_of w); split.
  by apply: ltr_paddr; rewrite ?ltr01 // clamp_ccovn_ge0.
by rewrite E1 cE norm_sqrdE // scaleNr.
Qed.

End Refine.
