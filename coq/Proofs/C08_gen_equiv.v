(* Tie (T) of property C08: the methods regenerated from deap/tools/support.py (coq/Gen/C08_gen.v, written by
   harness/c08_py2coq.py on every run), instantiated at the value-level world, ARE the hand model
   Model/C08_Archive.v the C08 theorems are stated about, and instantiated at the heap-level world, the hand
   model Model/C08_Heap.v -- for every argument and every state.  Compiled on every run, after regeneration.

   Structure
   * loops: one lemma per loop shape, by induction on the list, generic in the loop body [body] under a
     hypothesis that says what [body] does in one iteration (for_ctl_fold: the outer loops and the removal loop
     are folds of the model's step function; scan_any / scan_any_idx / any_existsb: the similarity scan -- as
     for/else over the members, over their positions, or as any(...) -- is [existsb]; scan_loop / scan_loop_idx +
     scan_ctl_spec: the inner loop of ParetoFront.update -- over enumerate(self) or over range(len(self)) -- is
     [pf_scan]; rem_loop_h: the removal loop at the heap level);
   * [crush]: decides  lhs = rhs  between two programs by case analysis on what the programs themselves
     inspect, in execution order, after the calls of the other regenerated methods have been rewritten with
     their own equivalence lemmas and the loops with the loop lemmas.  It does not depend on the names of
     locals, on subexpressions being named or inlined, on `if`/`else` nesting against `continue`, on reads of
     the archive being repeated or shared, or on the order of independent statements that commute in the world
     at hand, or on index arithmetic written differently (align: linear arithmetic); changed comparisons, indices,
     constants or a changed order of effects do not go through.  The proofs are state by state: they cannot use
     invariants of reachable archives. *)
From Coq Require Import List ZArith Bool Lia.
From DV Require Import Base.PyTuple Base.PyList Model.C08_Archive Model.C08_Heap Model.C08_GenRt Gen.C08_gen
  Model.C08_GenApi.
Import ListNotations.
Local Open Scope Z_scope.

(* ---------------------------------------------------------------------------------------------- *)
(* crush                                                                                            *)
(* ---------------------------------------------------------------------------------------------- *)
Ltac match_head t kyes kno :=
  lazymatch t with
  | match ?x with _ => _ end => kyes x
  | ?f _ => match_head f kyes kno
  | _ => kno tt
  end.
Ltac head_scrut t k := match_head t ltac:(fun x => head_scrut x k) ltac:(fun _ => k t).
Ltac destruct_head t :=
  match_head t
    ltac:(fun x => head_scrut x ltac:(fun y => first [ is_var y; destruct y | let E := fresh "E" in destruct y eqn:E ]))
    ltac:(fun _ => fail).

Definition lift_u {S} (o : option S) : option (unit * S) :=
  match o with Some s => Some (tt, s) | None => None end.
Definition lift_n {S} (o : option S) : option (ctl unit * S) :=
  match o with Some s => Some (Next tt, s) | None => None end.

Ltac rt_unfold :=
  cbv beta iota zeta delta
    [bind ret raise get_items get_keys set_items set_keys fitness_of valM similarM deepcopyM bisect_rightM
     indexM delM modM floordivM run_u lift_u lift_n
     w_items w_keys w_set_items w_set_keys w_fitness w_val w_similar w_deepcopy st ref fref VW HW
     hlen negb andb orb];
  cbn [items keys hitems hkeys fst snd].

Ltac use_eqns :=
  repeat match goal with
         | E : ?x = _ |- context [match ?x with _ => _ end] => rewrite E
         end.

Lemma py_get_0 {A} (l : list A) : py_get l 0 = hd_error l.
Proof. destruct l; reflexivity. Qed.

Lemma py_del_slice_all {A} (l : list A) : py_del_slice l None None = [].
Proof.
  unfold py_del_slice, py_slice_assign, slice_adjust. cbn [Z.ltb Z.compare].
  replace (Z.max 0 (zlen l)) with (zlen l) by (unfold zlen; lia).
  unfold zlen. rewrite Nat2Z.id. cbn. apply skipn_all.
Qed.

Lemma is_empty_zlen {A} (l : list A) : is_empty l = (zlen l =? 0).
Proof. destruct l; reflexivity. Qed.

Ltac norm :=
  rt_unfold; rewrite ?map_id, ?py_get_0, ?py_del_slice_all, ?is_empty_zlen;
  repeat (progress use_eqns; rt_unfold).

(* the next things the two sides inspect are the same operation on integer expressions that are equal by linear
   arithmetic (n - 1 - k  for  n - (k + 1), ...): make them syntactically equal *)
Ltac with_head t k := match_head t ltac:(fun x => head_scrut x k) ltac:(fun _ => fail).
Ltac align l r :=
  with_head l ltac:(fun yl => with_head r ltac:(fun yr =>
    tryif constr_eq yl yr then fail
    else replace yr with yl by solve [ repeat (f_equal; try lia) ])).

Ltac crush_with rew :=
  repeat (norm;
          lazymatch goal with
          | |- ?l = ?r => first [ progress rew | align l r | destruct_head l | destruct_head r ]
          end);
  norm; try reflexivity; try congruence; try solve [ repeat (f_equal; try lia) ].


(* range(len(l)) and l[i] *)
Lemma py_range_len {B} (l : list B) : py_range3 0 (zlen l) 1 = map (fun k => Z.of_nat k) (seq 0 (length l)).
Proof.
  unfold py_range3, range_count, zlen. cbn [Z.ltb Z.compare].
  replace (Z.to_nat (if 0 <? Z.of_nat (length l) then (Z.of_nat (length l) - 0 - 1) / 1 + 1 else 0)) with (length l).
  - apply map_ext. intros k. lia.
  - destruct (0 <? Z.of_nat (length l)) eqn:E.
    + rewrite Z.div_1_r. lia.
    + apply Z.ltb_ge in E. destruct l; [reflexivity|cbn [length] in E; lia].
Qed.

Lemma py_get_mid {B} (p : list B) y r : py_get (p ++ y :: r) (zlen p) = Some y.
Proof.
  unfold py_get, zlen. rewrite app_length. cbn [length].
  replace (Z.of_nat (length p) <? 0) with false by (symmetry; apply Z.ltb_ge; lia).
  replace (Z.of_nat (length p) <? 0) with false by (symmetry; apply Z.ltb_ge; lia).
  replace (Z.of_nat (length p + S (length r)) <=? Z.of_nat (length p)) with false by (symmetry; apply Z.leb_gt; lia).
  cbn [orb]. rewrite Nat2Z.id. induction p as [|b0 p IH]; [reflexivity|exact IH].
Qed.


(* ---------------------------------------------------------------------------------------------- *)
(* loops, generic in the world and in the loop body                                                 *)
(* ---------------------------------------------------------------------------------------------- *)
Section Loops.
  Context {W : World}.

  Lemma fold_none {A S} (f : option S -> A -> option S) :
    (forall x, f None x = None) -> forall l, fold_left f l None = None.
  Proof. intros H l; induction l as [|x l IH]; cbn; [reflexivity|]. now rewrite H. Qed.

  (* a loop without carried locals whose body performs one step of the model (or raises) *)
  Lemma for_ctl_fold {A} (ostep : option (st W) -> A -> option (st W)) (body : A -> unit -> M (ctl unit)) :
    (forall x, ostep None x = None) ->
    (forall x u s, body x u s = lift_n (ostep (Some s) x)) ->
    forall l u s, for_ctl l body u s = lift_n (fold_left ostep l (Some s)).
  Proof.
    intros H0 H l; induction l as [|x l IH]; intros u s; cbn.
    - destruct u; reflexivity.
    - unfold bind. rewrite H. destruct (ostep (Some s) x) as [s'|]; cbn.
      + apply IH.
      + now rewrite fold_none.
  Qed.

  (* the similarity scan:  for y in l: if p(y): break  /  any(p(y) for y in l) *)
  Lemma scan_any {A} (p : A -> bool) (body : A -> unit -> M (ctl unit)) (s : st W) :
    (forall y u, body y u s = Some ((if p y then Break tt else Next tt), s)) ->
    forall l u, for_ctl l body u s = Some ((if existsb p l then Break tt else Next tt), s).
  Proof.
    intros H l; induction l as [|y l IH]; intros u; cbn.
    - destruct u; reflexivity.
    - unfold bind. rewrite H. destruct (p y); cbn; [reflexivity|apply IH].
  Qed.

  (* the same scan written over the positions:  for j in range(len(l)): if p(l[j]): break *)
  Lemma scan_any_idx {A} (p : A -> bool) (body : Z -> unit -> M (ctl unit)) (s : st W) (l : list A) :
    (forall i y u, py_get l i = Some y -> body i u s = Some ((if p y then Break tt else Next tt), s)) ->
    forall u, for_ctl (py_range3 0 (zlen l) 1) body u s = Some ((if existsb p l then Break tt else Next tt), s).
  Proof.
    intros H u. rewrite py_range_len.
    assert (G : forall r q u, l = q ++ r ->
              for_ctl (map (fun k => Z.of_nat k) (seq (length q) (length r))) body u s
              = Some ((if existsb p r then Break tt else Next tt), s)).
    { induction r as [|y r IH]; intros q u0 E; cbn [length seq map for_ctl existsb].
      - destruct u0; reflexivity.
      - unfold bind. rewrite (H (Z.of_nat (length q)) y u0) by (rewrite E; apply py_get_mid).
        destruct (p y); cbn; [reflexivity|].
        specialize (IH (q ++ [y]) tt). rewrite app_length in IH. cbn [length] in IH.
        replace (length q + 1)%nat with (S (length q)) in IH by lia.
        apply IH. rewrite E, <- app_assoc. reflexivity. }
    apply (G l [] u). reflexivity.
  Qed.

  (* the same scan with a flag instead of for/else:  flag = b0; for y in l: if p(y): flag = c; break *)
  Lemma scan_flag {A} (p : A -> bool) (c : bool) (body : A -> bool -> M (ctl bool)) (s : st W) :
    (forall y b, body y b s = Some ((if p y then Break c else Next b), s)) ->
    forall l b, for_ctl l body b s = Some ((if existsb p l then Break c else Next b), s).
  Proof.
    intros H l; induction l as [|y l IH]; intros b; cbn; [reflexivity|].
    unfold bind. rewrite H. destruct (p y); cbn; [reflexivity|apply IH].
  Qed.

  Lemma any_existsb {A} (p : A -> bool) (f : A -> M bool) (s : st W) :
    (forall y, f y s = Some (p y, s)) ->
    forall l, anyM f l s = Some (existsb p l, s).
  Proof.
    intros H l; induction l as [|y l IH]; cbn; [reflexivity|].
    unfold bind. rewrite H. destruct (p y); cbn; [reflexivity|apply IH].
  Qed.

  Lemma all_forallb {A} (p : A -> bool) (f : A -> M bool) (s : st W) :
    (forall y, f y s = Some (p y, s)) ->
    forall l, allM f l s = Some (forallb p l, s).
  Proof.
    intros H l; induction l as [|y l IH]; cbn; [reflexivity|].
    unfold bind. rewrite H. destruct (p y); cbn; [apply IH|reflexivity].
  Qed.
End Loops.


(* ---------------------------------------------------------------------------------------------- *)
(* the inner loop of ParetoFront.update                                                             *)
(* ---------------------------------------------------------------------------------------------- *)
Section Scan.
  Variable A : Type.
  Variable fit : A -> list Z.
  Variable sim : A -> A -> bool.
  Variable x : A.

  (* loop-carried locals, in the order of their first assignment in the loop body:
     is_dominated, dominates_one, to_remove, has_twin *)
  Definition S4 : Type := (bool * bool * list Z * bool)%type.

  Definition scan1 (i : Z) (y : A) (v : S4) : ctl S4 :=
    let '(isd, d1, tr, tw) := v in
    if negb d1 && fit_dom (fit y) (fit x) then Break (true, d1, tr, tw)
    else if fit_dom (fit x) (fit y) then Next (isd, true, tr ++ [i], tw)
    else if fit_eq (fit x) (fit y) && sim x y then Break (isd, d1, tr, true)
    else Next (isd, d1, tr, tw).

  Fixpoint scan_ctl (hs : list A) (i : Z) (v : S4) : ctl S4 :=
    match hs with
    | [] => Next v
    | y :: r => match scan1 i y v with
                | Next v' => scan_ctl r (i + 1) v'
                | c => c
                end
    end.

  Lemma scan_loop {W : World} (body : Z * A -> S4 -> M (ctl S4)) (s : st W) :
    (forall i y v, body (i, y) v s = Some (scan1 i y v, s)) ->
    forall hs i v, for_ctl (enumerate_from i hs) body v s = Some (scan_ctl hs i v, s).
  Proof.
    intros H hs; induction hs as [|y hs IH]; intros i v; cbn; [reflexivity|].
    unfold bind. rewrite H. destruct (scan1 i y v); cbn; [apply IH|reflexivity|reflexivity].
  Qed.

  (* the same loop written over the positions:  for i in range(len(l)): y = l[i]; ...  *)
  Lemma scan_loop_idx {W : World} (body : Z -> S4 -> M (ctl S4)) (s : st W) (l : list A) :
    (forall i y v, py_get l i = Some y -> body i v s = Some (scan1 i y v, s)) ->
    forall v, for_ctl (py_range3 0 (zlen l) 1) body v s = Some (scan_ctl l 0 v, s).
  Proof.
    intros H v. rewrite py_range_len.
    assert (G : forall r p v, l = p ++ r ->
              for_ctl (map (fun k => Z.of_nat k) (seq (length p) (length r))) body v s
              = Some (scan_ctl r (zlen p) v, s)).
    { induction r as [|y r IH]; intros p v0 E; cbn [length seq map for_ctl scan_ctl]; [reflexivity|].
      unfold bind. rewrite (H (Z.of_nat (length p)) y v0) by (rewrite E; apply py_get_mid).
      fold (zlen p). destruct (scan1 (zlen p) y v0); cbn; [|reflexivity|reflexivity].
      specialize (IH (p ++ [y]) s0). rewrite app_length in IH. cbn [length] in IH.
      replace (length p + 1)%nat with (S (length p)) in IH by lia.
      rewrite IH by (rewrite E, <- app_assoc; reflexivity).
      unfold zlen. rewrite app_length. cbn [length]. do 3 f_equal. lia. }
    apply (G l [] v). reflexivity.
  Qed.

  Lemma scan_ctl_spec : forall hs i d1 tr,
    match scan_ctl hs i (false, d1, tr, false) with
    | Next (isd, _, tr', tw) | Break (isd, _, tr', tw) => pf_scan A fit sim x hs i d1 tr = (isd, tw, tr')
    | Return => False
    end.
  Proof.
    induction hs as [|y hs IH]; intros i d1 tr; cbn [scan_ctl pf_scan scan1]; [reflexivity|].
    destruct (negb d1 && fit_dom (fit y) (fit x)); [reflexivity|].
    destruct (fit_dom (fit x) (fit y)); [apply IH|].
    destruct (fit_eq (fit x) (fit y) && sim x y); [reflexivity|apply IH].
  Qed.
End Scan.

(* ---------------------------------------------------------------------------------------------- *)
(* the value-level world: regenerated methods = Model/C08_Archive.v                                 *)
(* ---------------------------------------------------------------------------------------------- *)
Section Value.
  Variable ind : Type.
  Variable fitness : ind -> list Z.
  Variable similar : ind -> ind -> bool.
  Local Notation VWi := (VW ind fitness similar).

  Lemma gen_len_v : forall h, @gen_len VWi h = Some (hlen h, h).
  Proof. intros h. unfold gen_len, hlen. crush_with idtac. Qed.

  Lemma gen_getitem_v : forall i h,
    @gen_getitem VWi i h = match py_get (items h) i with Some x => Some (x, h) | None => None end.
  Proof. intros i h. unfold gen_getitem. crush_with idtac. Qed.

  Lemma gen_iter_v : forall h, @gen_iter VWi h = Some (items h, h).
  Proof. intros h. unfold gen_iter. crush_with idtac. Qed.

  Ltac rew_v := first [ rewrite gen_len_v | rewrite gen_getitem_v | rewrite gen_iter_v ].

  Lemma gen_insert_v : forall x h, @gen_insert VWi x h = Some (tt, insert ind fitness h x).
  Proof. intros x h. unfold gen_insert, insert, hlen. crush_with rew_v. Qed.

  Lemma gen_remove_v : forall i h, @gen_remove VWi i h = lift_u (remove ind h i).
  Proof. intros i h. unfold gen_remove, remove, lift_u, hlen. crush_with rew_v. Qed.

  Lemma gen_clear_v : forall h, @gen_clear VWi h = Some (tt, clear h).
  Proof. intros h. unfold gen_clear, clear. crush_with rew_v. Qed.

  Ltac rew_m := first [ rew_v | rewrite gen_insert_v | rewrite gen_remove_v | rewrite gen_clear_v ].

  (* the similarity scan of HallOfFame.update, as a for/else or as any(...) *)
  Ltac scan_sim x :=
    match goal with
    | |- context [for_ctl (py_range3 0 (zlen ?l) 1) ?b ?u ?s] =>
        rewrite (@scan_any_idx VWi _ (similar x) b s l) by (intros; crush_with rew_m)
    | |- context [for_ctl ?l ?b ?u ?s] =>
        rewrite (@scan_any VWi _ (similar x) b s) by (intros; crush_with rew_m)
    | |- context [for_ctl ?l ?b ?u ?s] =>
        first [ rewrite (@scan_flag VWi _ (similar x) false b s) by (intros; crush_with rew_m)
              | rewrite (@scan_flag VWi _ (similar x) true b s) by (intros; crush_with rew_m) ]
    | |- context [anyM ?f ?l ?s] =>
        rewrite (@any_existsb VWi _ (similar x) f s) by (intros; crush_with rew_m)
    end.

  Lemma gen_hof_update_v : forall m pop h,
    @gen_hof_update VWi m pop h = lift_u (hof_update ind fitness similar m h pop).
  Proof.
    intros m pop h. unfold gen_hof_update, hof_update, lift_u. rt_unfold.
    match goal with
    | |- context [for_ctl pop ?b ?u h] =>
        rewrite (@for_ctl_fold VWi _ (hof_step ind fitness similar m (hd_error pop)) b)
    end.
    - unfold lift_n. crush_with idtac.
    - reflexivity.
    - intros x u s. unfold hof_step, lift_n.
      crush_with ltac:(first [ rew_m | scan_sim x ]).
  Qed.

  (* the inner loop of ParetoFront.update is pf_scan; the removal loop is remove_all *)
  Ltac pf_loops x :=
    match goal with
    | |- context [for_ctl (enumerate_from ?i ?l) ?b ?v ?s] =>
        rewrite (@scan_loop ind fitness similar x VWi b s)
          by (intros ? ? [[[? ?] ?] ?]; unfold scan1; crush_with rew_m)
    | |- context [for_ctl (py_range3 0 (zlen ?l) 1) ?b ?v ?s] =>
        rewrite (@scan_loop_idx ind fitness similar x VWi b s l)
          by (intros ? ? [[[? ?] ?] ?] ?; unfold scan1; crush_with rew_m)
    | |- context [scan_ctl ind fitness similar x ?hs ?i (false, ?d1, ?tr, false)] =>
        let P := fresh "P" in
        pose proof (scan_ctl_spec ind fitness similar x hs i d1 tr) as P;
        destruct (scan_ctl ind fitness similar x hs i (false, d1, tr, false)) as [[[[? ?] ?] ?]|[[[? ?] ?] ?]|];
        [ rewrite P | rewrite P | destruct P ]
    | |- context [for_ctl ?l ?b ?u ?s] =>
        rewrite (@for_ctl_fold VWi _ (fun o i => match o with None => None | Some h' => remove ind h' i end) b)
          by first [ reflexivity | intros; crush_with rew_m ]
    end.

  Lemma gen_pf_update_v : forall pop h,
    @gen_pf_update VWi pop h = lift_u (pf_update ind fitness similar h pop).
  Proof.
    intros pop h. unfold gen_pf_update, pf_update, lift_u. rt_unfold.
    match goal with
    | |- context [for_ctl pop ?b ?u h] => rewrite (@for_ctl_fold VWi _ (pf_step ind fitness similar) b)
    end.
    - crush_with idtac.
    - reflexivity.
    - intros x u s. unfold pf_step, remove_all.
      crush_with ltac:(first [ rew_m | pf_loops x ]).
  Qed.
End Value.

(* histories: the regenerated methods packaged like the hand model (Model/C08_GenApi.v) *)
Section ValueApi.
  Variable ind : Type.
  Variable fitness : ind -> list Z.
  Variable similar : ind -> ind -> bool.

  Lemma gen_apply_op_eq : forall kind h o,
    gen_apply_op ind fitness similar kind h o = apply_op ind fitness similar kind h o.
  Proof.
    intros kind h [p|x|i|]; cbn [gen_apply_op apply_op]; unfold run_u.
    - destruct kind as [m|]; [rewrite gen_hof_update_v | rewrite gen_pf_update_v]; unfold lift_u;
        [destruct (hof_update ind fitness similar m h p) | destruct (pf_update ind fitness similar h p)]; reflexivity.
    - now rewrite gen_insert_v.
    - rewrite gen_remove_v. unfold lift_u. now destruct (remove ind h i).
    - now rewrite gen_clear_v.
  Qed.

  Lemma gen_trace_eq : forall kind ops h,
    gen_trace ind fitness similar kind h ops = trace ind fitness similar kind h ops.
  Proof.
    intros kind ops; induction ops as [|o r IH]; intros h; cbn [gen_trace trace]; [reflexivity|].
    rewrite gen_apply_op_eq. destruct (apply_op ind fitness similar kind h o); [now rewrite IH|reflexivity].
  Qed.

  Lemma fold_ext {S B} (f g : option S -> B -> option S) :
    (forall o b, f o b = g o b) -> forall l o, fold_left f l o = fold_left g l o.
  Proof. intros H l; induction l as [|b l IH]; intros o; cbn; [reflexivity|]. now rewrite H, IH. Qed.

  Lemma gen_hof_run_from_eq : forall m h0 batches,
    gen_hof_run_from ind fitness similar m h0 batches = hof_run_from ind fitness similar m h0 batches.
  Proof.
    intros m h0 batches. unfold gen_hof_run_from, hof_run_from. apply fold_ext.
    intros [h|] b; [|reflexivity]. unfold run_u. rewrite gen_hof_update_v. unfold lift_u.
    now destruct (hof_update ind fitness similar m h b).
  Qed.

  Lemma gen_pf_run_from_eq : forall h0 batches,
    gen_pf_run_from ind fitness similar h0 batches = pf_run_from ind fitness similar h0 batches.
  Proof.
    intros h0 batches. unfold gen_pf_run_from, pf_run_from. apply fold_ext.
    intros [h|] b; [|reflexivity]. unfold run_u. rewrite gen_pf_update_v. unfold lift_u.
    now destruct (pf_update ind fitness similar h b).
  Qed.

  Lemma gen_hof_run_eq : forall m batches,
    gen_hof_run ind fitness similar m batches = hof_run ind fitness similar m batches.
  Proof. intros. apply gen_hof_run_from_eq. Qed.

  Lemma gen_pf_run_eq : forall batches, gen_pf_run ind fitness similar batches = pf_run ind fitness similar batches.
  Proof. intros. apply gen_pf_run_from_eq. Qed.
End ValueApi.

(* ---------------------------------------------------------------------------------------------- *)
(* the heap-level world: regenerated methods = Model/C08_Heap.v                                     *)
(* ---------------------------------------------------------------------------------------------- *)
Section HeapLevel.
  Variable sim : obj -> obj -> bool.
  Local Notation HWi := (HW sim).

  Lemma gen_len_h : forall s, @gen_len HWi s = Some (zlen (hitems (snd s)), s).
  Proof. intros [hp a]. unfold gen_len. crush_with idtac. Qed.

  Lemma gen_getitem_h : forall i s,
    @gen_getitem HWi i s = match py_get (hitems (snd s)) i with Some x => Some (x, s) | None => None end.
  Proof. intros i [hp a]. unfold gen_getitem. crush_with idtac. Qed.

  Lemma gen_iter_h : forall s, @gen_iter HWi s = Some (hitems (snd s), s).
  Proof. intros [hp a]. unfold gen_iter. crush_with idtac. Qed.

  Ltac rew_h0 := first [ rewrite gen_len_h | rewrite gen_getitem_h | rewrite gen_iter_h ].

  Lemma gen_insert_h : forall x s, @gen_insert HWi x s = Some (tt, h_insert (fst s) (snd s) x).
  Proof. intros x [hp a]. unfold gen_insert, h_insert. crush_with rew_h0. Qed.

  Lemma gen_remove_h : forall i s,
    @gen_remove HWi i s = match h_remove (snd s) i with Some a' => Some (tt, (fst s, a')) | None => None end.
  Proof. intros i [hp a]. unfold gen_remove, h_remove. crush_with rew_h0. Qed.

  Lemma gen_clear_h : forall s, @gen_clear HWi s = Some (tt, (fst s, mkharch [] [])).
  Proof. intros [hp a]. unfold gen_clear. crush_with rew_h0. Qed.

  Ltac rew_h := first [ rew_h0 | rewrite gen_insert_h | rewrite gen_remove_h | rewrite gen_clear_h ].

  Ltac scan_sim_h x :=
    match goal with
    | |- context [for_ctl (py_range3 0 (zlen ?l) 1) ?b ?u (?hp, ?a)] =>
        rewrite (@scan_any_idx HWi _ (hsim sim hp x) b (hp, a) l) by (intros; crush_with rew_h)
    | |- context [for_ctl ?l ?b ?u (?hp, ?a)] =>
        rewrite (@scan_any HWi _ (hsim sim hp x) b (hp, a)) by (intros; crush_with rew_h)
    | |- context [for_ctl ?l ?b ?u (?hp, ?a)] =>
        first [ rewrite (@scan_flag HWi _ (hsim sim hp x) false b (hp, a)) by (intros; crush_with rew_h)
              | rewrite (@scan_flag HWi _ (hsim sim hp x) true b (hp, a)) by (intros; crush_with rew_h) ]
    | |- context [anyM ?f ?l (?hp, ?a)] =>
        rewrite (@any_existsb HWi _ (hsim sim hp x) f (hp, a)) by (intros; crush_with rew_h)
    end.

  Lemma gen_hof_update_h : forall m pop s,
    @gen_hof_update HWi m pop s = lift_u (h_hof_update sim m (fst s) (snd s) pop).
  Proof.
    intros m pop [hp a]. unfold gen_hof_update, h_hof_update, lift_u. rt_unfold.
    match goal with
    | |- context [for_ctl pop ?b ?u (hp, a)] =>
        rewrite (@for_ctl_fold HWi _ (h_hof_step sim m (hd_error pop)) b)
    end.
    - crush_with idtac.
    - reflexivity.
    - intros x u [hp' a']. unfold h_hof_step.
      crush_with ltac:(first [ rew_h | scan_sim_h x ]).
  Qed.

  (* the removal loop: the store is not touched *)
  Lemma rem_loop_h (body : Z -> unit -> @M HWi (ctl unit)) (hp : heap) :
    (forall i u a, body i u (hp, a) = match h_remove a i with
                                      | Some a' => Some (Next tt, (hp, a'))
                                      | None => None
                                      end) ->
    forall l u a, for_ctl l body u (hp, a) = match h_remove_all a l with
                                             | Some a' => Some (Next tt, (hp, a'))
                                             | None => None
                                             end.
  Proof.
    intros H l; induction l as [|i l IH]; intros u a; cbn [for_ctl].
    - destruct u; reflexivity.
    - unfold bind. rewrite H. unfold h_remove_all. cbn [fold_left].
      destruct (h_remove a i) as [a'|]; cbn.
      + apply IH.
      + rewrite fold_none by reflexivity. reflexivity.
  Qed.

  Ltac pf_loops_h x :=
    match goal with
    | |- context [for_ctl (enumerate_from ?i ?l) ?b ?v (?hp, ?a)] =>
        rewrite (@scan_loop nat (hfit hp) (hsim sim hp) x HWi b (hp, a))
          by (intros ? ? [[[? ?] ?] ?]; unfold scan1; crush_with rew_h)
    | |- context [for_ctl (py_range3 0 (zlen ?l) 1) ?b ?v (?hp, ?a)] =>
        rewrite (@scan_loop_idx nat (hfit hp) (hsim sim hp) x HWi b (hp, a) l)
          by (intros ? ? [[[? ?] ?] ?] ?; unfold scan1; crush_with rew_h)
    | |- context [scan_ctl nat ?f ?g x ?hs ?i (false, ?d1, ?tr, false)] =>
        let P := fresh "P" in
        pose proof (scan_ctl_spec nat f g x hs i d1 tr) as P;
        destruct (scan_ctl nat f g x hs i (false, d1, tr, false)) as [[[[? ?] ?] ?]|[[[? ?] ?] ?]|];
        [ rewrite P | rewrite P | destruct P ]
    | |- context [for_ctl ?l ?b ?u (?hp, ?a)] =>
        rewrite (rem_loop_h b hp) by (intros; crush_with rew_h)
    end.

  Lemma gen_pf_update_h : forall pop s,
    @gen_pf_update HWi pop s = lift_u (h_pf_update sim (fst s) (snd s) pop).
  Proof.
    intros pop [hp a]. unfold gen_pf_update, h_pf_update, lift_u. rt_unfold.
    match goal with
    | |- context [for_ctl pop ?b ?u (hp, a)] => rewrite (@for_ctl_fold HWi _ (h_pf_step sim) b)
    end.
    - crush_with idtac.
    - reflexivity.
    - intros x u [hp' a']. unfold h_pf_step.
      crush_with ltac:(first [ rew_h | pf_loops_h x ]).
  Qed.

  Lemma gen_h_apply_eq : forall kind s o, gen_h_apply sim kind s o = h_apply sim kind s o.
  Proof.
    intros kind [hp a] [l ob|p|x|i|]; cbn [gen_h_apply h_apply fst snd]; unfold run_u.
    - reflexivity.
    - destruct kind as [m|]; [rewrite gen_hof_update_h | rewrite gen_pf_update_h]; unfold lift_u; cbn [fst snd];
        [destruct (h_hof_update sim m hp a p) | destruct (h_pf_update sim hp a p)]; reflexivity.
    - now rewrite gen_insert_h.
    - rewrite gen_remove_h. cbn [fst snd]. now destruct (h_remove a i).
    - now rewrite gen_clear_h.
  Qed.

  Lemma gen_h_trace_eq : forall kind hops s, gen_h_trace sim kind s hops = h_trace sim kind s hops.
  Proof.
    intros kind hops; induction hops as [|o r IH]; intros s; cbn [gen_h_trace h_trace]; [reflexivity|].
    rewrite gen_h_apply_eq. destruct (h_apply sim kind s o); [now rewrite IH|reflexivity].
  Qed.
End HeapLevel.

Lemma gen_methods_v :
  forall (ind : Type) (fitness : ind -> list Z) (similar : ind -> ind -> bool) (h : hof ind),
  (forall x, @gen_insert (VW ind fitness similar) x h = Some (tt, insert ind fitness h x)) /\
  (forall i, @gen_remove (VW ind fitness similar) i h = lift_u (remove ind h i)) /\
  @gen_clear (VW ind fitness similar) h = Some (tt, clear h) /\
  (forall m pop, @gen_hof_update (VW ind fitness similar) m pop h = lift_u (hof_update ind fitness similar m h pop)) /\
  (forall pop, @gen_pf_update (VW ind fitness similar) pop h = lift_u (pf_update ind fitness similar h pop)).
Proof.
  intros. split; [|split; [|split; [|split]]]; intros;
    [apply gen_insert_v | apply gen_remove_v | apply gen_clear_v | apply gen_hof_update_v | apply gen_pf_update_v].
Qed.
