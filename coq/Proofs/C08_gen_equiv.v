(* Tie (T) of property C08: the methods regenerated from deap/tools/support.py (coq/Gen/C08_gen.v, written by
   harness/c08_py2coq.py on every run), instantiated at the value-level world, ARE the hand model
   Model/C08_Archive.v the C08 theorems are stated about, and instantiated at the heap-level world, the hand
   model Model/C08_Heap.v -- for every argument and every state.  Compiled on every run, after regeneration.

   Structure
   * loops: one lemma per loop shape, by induction on the list, generic in the loop body [body] under a
     hypothesis that says what [body] does in one iteration (for_ctl_fold: the outer loops and the removal loop
     are folds of the model's step function; scan_any / any_existsb: the similarity scan is [existsb];
     scan_loop + scan_ctl_spec: the inner loop of ParetoFront.update is [pf_scan]);
   * [crush]: decides  lhs = rhs  between two programs by case analysis on what the programs themselves
     inspect, in execution order, after the calls of the other regenerated methods have been rewritten with
     their own equivalence lemmas and the loops with the loop lemmas.  It does not depend on the names of
     locals, on subexpressions being named or inlined, on `if`/`else` nesting against `continue`, on reads of
     the archive being repeated or shared, or on the order of independent statements that commute in the world
     at hand; changed comparisons, indices, constants or a changed order of effects do not go through. *)
From Coq Require Import List ZArith Bool Lia.
From DV Require Import Base.PyTuple Base.PyList Model.C08_Archive Model.C08_Heap Model.C08_GenRt Gen.C08_gen
  Model.C08_GenApi.
Import ListNotations.
Local Open Scope Z_scope.

(* ---------------------------------------------------------------------------------------------- *)
(* crush                                                                                            *)
(* ---------------------------------------------------------------------------------------------- *)
Ltac match_head t kyes kno :=
  lazymatch t with
  | match ?x with _ => _ end => kyes x
  | ?f _ => match_head f kyes kno
  | _ => kno tt
  end.
Ltac head_scrut t k := match_head t ltac:(fun x => head_scrut x k) ltac:(fun _ => k t).
Ltac destruct_head t :=
  match_head t
    ltac:(fun x => head_scrut x ltac:(fun y => first [ is_var y; destruct y | let E := fresh "E" in destruct y eqn:E ]))
    ltac:(fun _ => fail).

Definition lift_u {S} (o : option S) : option (unit * S) :=
  match o with Some s => Some (tt, s) | None => None end.
Definition lift_n {S} (o : option S) : option (ctl unit * S) :=
  match o with Some s => Some (Next tt, s) | None => None end.

Ltac rt_unfold :=
  cbv beta iota zeta delta
    [bind ret raise get_items get_keys set_items set_keys fitness_of valM similarM deepcopyM bisect_rightM
     indexM delM modM floordivM run_u lift_u lift_n
     w_items w_keys w_set_items w_set_keys w_fitness w_val w_similar w_deepcopy st ref fref VW HW
     hlen negb andb orb is_empty];
  cbn [items keys hitems hkeys fst snd].

Ltac use_eqns :=
  repeat match goal with
         | E : ?x = _ |- context [match ?x with _ => _ end] => rewrite E
         end.

Lemma py_get_0 {A} (l : list A) : py_get l 0 = hd_error l.
Proof. destruct l; reflexivity. Qed.

Lemma py_del_slice_all {A} (l : list A) : py_del_slice l None None = [].
Proof.
  unfold py_del_slice, py_slice_assign, slice_adjust. cbn [Z.ltb Z.compare].
  replace (Z.max 0 (zlen l)) with (zlen l) by (unfold zlen; lia).
  unfold zlen. rewrite Nat2Z.id. cbn. apply skipn_all.
Qed.

Ltac norm := rt_unfold; rewrite ?map_id, ?py_get_0, ?py_del_slice_all; use_eqns.

Ltac crush_with rew :=
  repeat (norm;
          lazymatch goal with
          | |- ?l = ?r => first [ progress rew | destruct_head l | destruct_head r ]
          end);
  norm; try reflexivity; try congruence.


(* ---------------------------------------------------------------------------------------------- *)
(* loops, generic in the world and in the loop body                                                 *)
(* ---------------------------------------------------------------------------------------------- *)
Section Loops.
  Context {W : World}.

  Lemma fold_none {A S} (f : option S -> A -> option S) :
    (forall x, f None x = None) -> forall l, fold_left f l None = None.
  Proof. intros H l; induction l as [|x l IH]; cbn; [reflexivity|]. now rewrite H. Qed.

  (* a loop without carried locals whose body performs one step of the model (or raises) *)
  Lemma for_ctl_fold {A} (ostep : option (st W) -> A -> option (st W)) (body : A -> unit -> M (ctl unit)) :
    (forall x, ostep None x = None) ->
    (forall x u s, body x u s = lift_n (ostep (Some s) x)) ->
    forall l u s, for_ctl l body u s = lift_n (fold_left ostep l (Some s)).
  Proof.
    intros H0 H l; induction l as [|x l IH]; intros u s; cbn.
    - destruct u; reflexivity.
    - unfold bind. rewrite H. destruct (ostep (Some s) x) as [s'|]; cbn.
      + apply IH.
      + now rewrite fold_none.
  Qed.

  (* the similarity scan:  for y in l: if p(y): break  /  any(p(y) for y in l) *)
  Lemma scan_any {A} (p : A -> bool) (body : A -> unit -> M (ctl unit)) (s : st W) :
    (forall y u, body y u s = Some ((if p y then Break tt else Next tt), s)) ->
    forall l u, for_ctl l body u s = Some ((if existsb p l then Break tt else Next tt), s).
  Proof.
    intros H l; induction l as [|y l IH]; intros u; cbn.
    - destruct u; reflexivity.
    - unfold bind. rewrite H. destruct (p y); cbn; [reflexivity|apply IH].
  Qed.

  Lemma any_existsb {A} (p : A -> bool) (f : A -> M bool) (s : st W) :
    (forall y, f y s = Some (p y, s)) ->
    forall l, anyM f l s = Some (existsb p l, s).
  Proof.
    intros H l; induction l as [|y l IH]; cbn; [reflexivity|].
    unfold bind. rewrite H. destruct (p y); cbn; [reflexivity|apply IH].
  Qed.

  Lemma all_forallb {A} (p : A -> bool) (f : A -> M bool) (s : st W) :
    (forall y, f y s = Some (p y, s)) ->
    forall l, allM f l s = Some (forallb p l, s).
  Proof.
    intros H l; induction l as [|y l IH]; cbn; [reflexivity|].
    unfold bind. rewrite H. destruct (p y); cbn; [apply IH|reflexivity].
  Qed.
End Loops.

(* ---------------------------------------------------------------------------------------------- *)
(* the value-level world: regenerated methods = Model/C08_Archive.v                                 *)
(* ---------------------------------------------------------------------------------------------- *)
Section Value.
  Variable ind : Type.
  Variable fitness : ind -> list Z.
  Variable similar : ind -> ind -> bool.
  Local Notation VWi := (VW ind fitness similar).

  Lemma gen_len_v : forall h, @gen_len VWi h = Some (hlen h, h).
  Proof. intros h. unfold gen_len, hlen. crush_with idtac. Qed.

  Lemma gen_getitem_v : forall i h,
    @gen_getitem VWi i h = match py_get (items h) i with Some x => Some (x, h) | None => None end.
  Proof. intros i h. unfold gen_getitem. crush_with idtac. Qed.

  Lemma gen_iter_v : forall h, @gen_iter VWi h = Some (items h, h).
  Proof. intros h. unfold gen_iter. crush_with idtac. Qed.

  Ltac rew_v := first [ rewrite gen_len_v | rewrite gen_getitem_v | rewrite gen_iter_v ].

  Lemma gen_insert_v : forall x h, @gen_insert VWi x h = Some (tt, insert ind fitness h x).
  Proof. intros x h. unfold gen_insert, insert, hlen. crush_with rew_v. Qed.

  Lemma gen_remove_v : forall i h, @gen_remove VWi i h = lift_u (remove ind h i).
  Proof. intros i h. unfold gen_remove, remove, lift_u, hlen. crush_with rew_v. Qed.

  Lemma gen_clear_v : forall h, @gen_clear VWi h = Some (tt, clear h).
  Proof. intros h. unfold gen_clear, clear. crush_with rew_v. Qed.

  Ltac rew_m := first [ rew_v | rewrite gen_insert_v | rewrite gen_remove_v | rewrite gen_clear_v ].

  (* the similarity scan of HallOfFame.update, as a for/else or as any(...) *)
  Ltac scan_sim x :=
    match goal with
    | |- context [for_ctl ?l ?b ?u ?s] =>
        rewrite (@scan_any VWi _ (similar x) b s) by (intros; crush_with rew_m)
    | |- context [anyM ?f ?l ?s] =>
        rewrite (@any_existsb VWi _ (similar x) f s) by (intros; crush_with rew_m)
    end.

  Lemma gen_hof_update_v : forall m pop h,
    @gen_hof_update VWi m pop h = lift_u (hof_update ind fitness similar m h pop).
  Proof.
    intros m pop h. unfold gen_hof_update, hof_update, lift_u. rt_unfold.
    match goal with
    | |- context [for_ctl pop ?b ?u h] =>
        rewrite (@for_ctl_fold VWi _ (hof_step ind fitness similar m (hd_error pop)) b)
    end.
    - unfold lift_n. crush_with idtac.
    - reflexivity.
    - intros x u s. unfold hof_step, lift_n.
      crush_with ltac:(first [ rew_m | scan_sim x ]).
  Qed.
End Value.
