(* Proofs about the C05 model (Model/C05_Nsga2.v) relative to the specification Model/C05_Spec.v:
   the structural part (size, references, no duplicates, front priority, single cut front,
   crowding order inside the cut front).  Valid for every arithmetic instance `o`. *)
From Coq Require Import List ZArith Bool Lia Permutation Arith.
From DV Require Import Base.Corr Base.PyList Base.C05_Sort Base.C05_List
     Model.C05_Nsga2 Model.C05_Spec Proofs.C05_Spec.
Import ListNotations.

(* ---------- depth and prefixes of the layer list (no arithmetic involved) ---------- *)
Section DepthPrefix.
  Context {A : Type}.
  Notation indA := (ind A).

  Lemma depth_prefix (ls : list (list indA)) : forall m u,
    In u (uids (concat ls)) ->
    (In u (uids (concat (firstn m ls))) <-> depth_in ls u < m).
  Proof.
    induction ls as [|l r IH]; intros m u I; [contradiction|].
    destruct m as [|m]; [cbn; split; [contradiction|lia]|].
    cbn [firstn concat depth_in]. unfold uids in *. cbn [concat] in I. rewrite map_app in *.
    fold (uids l) in *. destruct (mem_uid u l) eqn:M.
    - apply mem_uid_in in M. split; [lia|]. intros _. apply in_or_app. left; exact M.
    - assert (NM : ~ In u (uids l)) by (intro X; apply mem_uid_in in X; congruence).
      apply in_app_or in I. destruct I as [I|I]; [contradiction|].
      specialize (IH m u I). unfold uids in IH. split.
      + intro H. apply in_app_or in H. destruct H as [H|H]; [contradiction|]. apply IH in H. lia.
      + intro H. apply in_or_app. right. apply IH. lia.
  Qed.

  Lemma uidperm_concat (l L : list (list indA)) :
    Forall2 (fun f l => Permutation (uids f) (uids l)) l L ->
    Permutation (uids (concat l)) (uids (concat L)).
  Proof.
    induction 1; cbn; [constructor|]. unfold uids in *. rewrite !map_app. apply Permutation_app; assumption.
  Qed.

  Lemma total_firstn_le (ls : list (list indA)) m : total (firstn m ls) <= total ls.
  Proof.
    unfold total. rewrite <- (firstn_skipn m ls) at 2. rewrite concat_app, app_length. lia.
  Qed.

  Lemma total_snoc (l : list (list indA)) x : total (l ++ [x]) = total l + length x.
  Proof. unfold total. rewrite concat_snoc, app_length. reflexivity. Qed.

  Lemma uids_length (l : list indA) : length (uids l) = length l.
  Proof. apply map_length. Qed.

  (* what fronts_correct gives for k > 0, in the shape the selection code uses *)
  Lemma fronts_shape (pop : list indA) k fronts :
    fronts_correct pop (S k) fronts ->
    exists m init lastf,
      fronts = init ++ [lastf] /\
      Permutation (uids (concat init)) (uids (concat (firstn m (layers pop)))) /\
      Permutation (uids (concat init ++ lastf)) (uids (concat (firstn (S m) (layers pop)))) /\
      length (concat init) < Nat.min (S k) (length pop) /\
      Nat.min (S k) (length pop) <= length (concat init) + length lastf /\
      length (concat init) + length lastf <= length pop.
  Proof.
    intros [_ [m [Lf [F2 [Lo Hi]]]]].
    assert (NE : fronts <> []) by (intro E; subst; discriminate).
    rewrite (app_removelast_last [] NE) in F2.
    set (init := removelast fronts) in *. set (lastf := last fronts []) in *.
    pose proof (Forall2_length _ _ _ F2) as L2. rewrite app_length in L2. change (length [lastf]) with 1 in L2.
    assert (Li : length init = m).
    { unfold init. rewrite removelast_firstn_len, firstn_length. lia. }
    assert (Lm : m < length (layers pop)).
    { rewrite firstn_length in L2. lia. }
    rewrite (firstn_S_snoc m _ [] Lm) in F2.
    apply Forall2_snoc_inv in F2. destruct F2 as [L1 [y [E [F1 Ry]]]].
    apply app_inj_tail in E. destruct E as [<- <-].
    exists m, init, lastf. split; [apply (app_removelast_last [] NE)|].
    pose proof (uidperm_concat _ _ F1) as P1.
    assert (P2 : Permutation (uids (concat init ++ lastf))
                             (uids (concat (firstn (S m) (layers pop))))).
    { rewrite (firstn_S_snoc m _ [] Lm), concat_snoc. unfold uids in *. rewrite !map_app.
      apply Permutation_app; assumption. }
    split; [exact P1|]. split; [exact P2|].
    assert (C1 : length (concat init) = total (firstn m (layers pop))).
    { unfold total. rewrite <- (uids_length (concat init)), <- (uids_length (concat (firstn m _))).
      apply Permutation_length, P1. }
    assert (C2 : length (concat init) + length lastf = total (firstn (S m) (layers pop))).
    { unfold total. rewrite <- app_length, <- (uids_length (concat init ++ lastf)), <- (uids_length (concat (firstn (S m) _))).
      apply Permutation_length, P2. }
    pose proof (total_firstn_le (layers pop) (S m)) as T. rewrite total_layers in T.
    lia.
  Qed.
End DepthPrefix.

Lemma k_cases (k : nat) : k = 0 \/ exists k0, k = S k0.
Proof. destruct k; [left; reflexivity|right; eexists; reflexivity]. Qed.

Section Generic.
  Variable o : numops.
  Notation indV := (ind (V o)).

  (* ---------- assignCrowdingDist returns one distance per individual ---------- *)
  Lemma bump_length i norm d t : length (bump o i norm d t) = length d.
  Proof. destruct t as [[p c] x]. unfold bump. apply set_nth_length. Qed.

  Lemma fold_bump_length i norm ts : forall d, length (fold_left (bump o i norm) ts d) = length d.
  Proof. induction ts as [|t ts IH]; intro d; cbn; [reflexivity|]. rewrite IH. apply bump_length. Qed.

  Lemma crowd_step_length nobj st i : length (snd (crowd_step o nobj st i)) = length (snd st).
  Proof.
    unfold crowd_step. destruct (sort_st _ _ _) as [|first rest]; [reflexivity|].
    destruct (veqb o _ _); cbn [snd]; rewrite ?fold_bump_length, !set_nth_length; reflexivity.
  Qed.

  Lemma fold_step_length nobj is : forall st,
    length (snd (fold_left (crowd_step o nobj) is st)) = length (snd st).
  Proof. induction is as [|i is IH]; intro st; cbn; [reflexivity|]. rewrite IH. apply crowd_step_length. Qed.

  Lemma assign_crowding_length (front : list indV) : length (assign_crowding o front) = length front.
  Proof.
    destruct front as [|x0 r]; [reflexivity|]. unfold assign_crowding.
    rewrite fold_step_length. cbn [snd]. apply repeat_length.
  Qed.

  (* ---------- shape of the selection ---------- *)
  (* the last front in the order sorted(front, key=crowding_dist, reverse=True) *)
  Definition keyed (lastf : list indV) := combine lastf (assign_crowding o lastf).
  Definition cut_sorted (lastf : list indV) : list (indV * D o) := sort_st_rev (dltb o) snd (keyed lastf).

  Lemma keyed_fst lastf : map fst (keyed lastf) = lastf.
  Proof. apply combine_fst. symmetry. apply assign_crowding_length. Qed.

  Lemma cut_sorted_perm lastf : Permutation (map fst (cut_sorted lastf)) lastf.
  Proof.
    rewrite <- (keyed_fst lastf) at 2. apply Permutation_map, Permutation_sym, sort_st_rev_perm.
  Qed.

  Lemma sel_snoc init lastf k :
    let k' := (Z.of_nat k - Z.of_nat (length (concat init)))%Z in
    sel_nsga2 o (init ++ [lastf]) k =
    Some (if (0 <? k')%Z then concat init ++ map fst (firstn (Z.to_nat k') (cut_sorted lastf)) else concat init).
  Proof.
    intro k'. unfold sel_nsga2. rewrite removelast_last. fold k'.
    destruct (0 <? k')%Z; [|reflexivity].
    destruct (init ++ [lastf]) eqn:E; [destruct init; discriminate|].
    rewrite <- E, last_last. reflexivity.
  Qed.

  Lemma sel_nil k : sel_nsga2 o [] k = if (0 <? Z.of_nat k)%Z then None else Some [].
  Proof. unfold sel_nsga2. cbn. rewrite Z.sub_0_r. reflexivity. Qed.

  (* ---------- the contract, relative to fronts_correct ---------- *)
  Section Contract.
    Variables (pop : list indV) (k : nat) (fronts : list (list indV)) (r : list indV).
    Hypothesis W : wf_pop pop.
    Hypothesis FC : fronts_correct pop k fronts.
    Hypothesis SEL : sel_nsga2 o fronts k = Some r.

    Definition selected (y : indV) : Prop := In (uid y) (uids r).

    (* no IndexError *)
    Lemma sel_defined_aux : forall fr k', fronts_correct pop k' fr -> exists r', sel_nsga2 o fr k' = Some r'.
    Proof.
      intros fr k' F. destruct k' as [|k0].
      - destruct F as [_ ->]. rewrite sel_nil. cbn. eauto.
      - destruct (fronts_shape pop k0 fr F) as [m [init [lastf [-> _]]]]. rewrite sel_snoc. eauto.
    Qed.

    (* k = 0 *)
    Lemma sel_k0 : k = 0 -> r = [].
    Proof.
      intro K. subst k. destruct FC as [_ E]. subst fronts. rewrite sel_nil in SEL. cbn in SEL. congruence.
    Qed.

    (* k > 0: explicit form of the result *)
    Lemma sel_shape k0 : k = S k0 ->
      exists m init lastf n',
        fronts = init ++ [lastf] /\
        r = concat init ++ map fst (firstn n' (cut_sorted lastf)) /\
        n' = k - length (concat init) /\ 0 < n' /\
        Permutation (uids (concat init)) (uids (concat (firstn m (layers pop)))) /\
        Permutation (uids (concat init ++ lastf)) (uids (concat (firstn (S m) (layers pop)))) /\
        Nat.min k (length pop) <= length (concat init) + length lastf /\
        length (concat init) + length lastf <= length pop.
    Proof.
      intro K. subst k. destruct (fronts_shape pop k0 fronts FC) as [m [init [lastf [E [P1 [P2 [Lo [Hi Le]]]]]]]].
      exists m, init, lastf, (S k0 - length (concat init)).
      subst fronts. rewrite sel_snoc in SEL. cbv zeta in SEL.
      remember (Z.of_nat (S k0) - Z.of_nat (length (concat init)))%Z as kz eqn:Ekz.
      assert (G : (0 <? kz)%Z = true) by (apply Z.ltb_lt; lia).
      assert (En : Z.to_nat kz = S k0 - length (concat init)) by lia.
      rewrite G, En in SEL. injection SEL as <-.
      repeat split; try assumption; lia.
    Qed.

    Theorem size_min : length r = Nat.min k (length pop).
    Proof.
      destruct (k_cases k) as [K|[k0 K]]; [rewrite (sel_k0 K), K; reflexivity|].
      destruct (sel_shape k0 K) as [m [init [lastf [n' [_ [-> [En [Pos [_ [_ [Hi Le]]]]]]]]]]].
      rewrite app_length, map_length, firstn_length.
      assert (L : length (cut_sorted lastf) = length lastf).
      { rewrite <- (map_length fst). apply Permutation_length, cut_sorted_perm. }
      rewrite L. lia.
    Qed.

    (* r and what was dropped from the cut front, together, are the fronts *)
    Lemma sel_in_fronts x : In x r -> In x (concat fronts).
    Proof.
      destruct (k_cases k) as [K|[k0 K]]; [rewrite (sel_k0 K); contradiction|].
      destruct (sel_shape k0 K) as [m [init [lastf [n' [-> [-> _]]]]]].
      rewrite concat_snoc. intro I. apply in_app_or in I. apply in_or_app.
      destruct I as [I|I]; [left; exact I|right].
      eapply Permutation_in; [apply cut_sorted_perm|]. rewrite <- firstn_map in I. eapply in_firstn, I.
    Qed.

    Theorem refs : forall x, In x r -> In x pop.
    Proof.
      intros x I. apply sel_in_fronts in I. apply in_concat in I. destruct I as [f [If Ix]].
      destruct FC as [M _]. eapply M; eassumption.
    Qed.

    Lemma prefix_nodup m : NoDup (uids (concat (firstn m (layers pop)))).
    Proof.
      pose proof (layers_nodup pop W) as N. rewrite <- (firstn_skipn m (layers pop)) in N.
      rewrite concat_app in N. unfold uids in *. rewrite map_app in N. apply nodup_app_inv in N. tauto.
    Qed.

    Theorem nodup : NoDup (uids r).
    Proof.
      destruct (k_cases k) as [K|[k0 K]]; [rewrite (sel_k0 K); constructor|].
      destruct (sel_shape k0 K) as [m [init [lastf [n' [_ [-> [_ [_ [_ [P2 _]]]]]]]]]].
      assert (N : NoDup (uids (concat init ++ map fst (cut_sorted lastf)))).
      { eapply Permutation_NoDup; [|apply (prefix_nodup (S m))].
        apply Permutation_sym. eapply perm_trans; [|exact P2].
        unfold uids. apply Permutation_map, Permutation_app_head, cut_sorted_perm. }
      unfold uids in *. rewrite map_app in *. apply nodup_app_inv in N. destruct N as [N1 [N2 N3]].
      apply nodup_app_intro; [exact N1| |].
      - rewrite <- firstn_map, <- firstn_map. apply nodup_firstn. rewrite map_map in N2. rewrite map_map. exact N2.
      - intros u I1 I2. apply (N3 u I1). rewrite <- !firstn_map in I2. eapply in_firstn. rewrite map_map in *. exact I2.
    Qed.

    (* depth facts for selected / excluded individuals *)
    Lemma pop_uid_in_layers y : In y pop -> In (uid y) (uids (concat (layers pop))).
    Proof.
      intro I. unfold uids. apply in_map. eapply Permutation_in; [apply Permutation_sym, layers_perm|exact I].
    Qed.

    Lemma cut_exists :
      exists c, (forall x, In x r -> depth pop x <= c) /\
                (forall y, In y pop -> depth pop y < c -> selected y).
    Proof.
      destruct (k_cases k) as [K|[k0 K]].
      - exists 0. rewrite (sel_k0 K). split; [intros ? []|intros; lia].
      - destruct (sel_shape k0 K) as [m [init [lastf [n' [Ef [Er [_ [_ [P1 [P2 _]]]]]]]]]].
        exists m. split.
        + intros x I. pose proof (refs x I) as Ip. apply sel_in_fronts in I. rewrite Ef, concat_snoc in I.
          assert (H : depth_in (layers pop) (uid x) < S m).
          { apply depth_prefix; [apply pop_uid_in_layers, Ip|].
            eapply Permutation_in; [exact P2|]. unfold uids. apply in_map, I. }
          unfold depth. lia.
        + intros y Iy Dy. unfold selected. rewrite Er. unfold uids. rewrite map_app. apply in_or_app. left.
          eapply Permutation_in; [apply Permutation_sym, P1|].
          apply depth_prefix; [apply pop_uid_in_layers, Iy|exact Dy].
    Qed.

    Theorem front_priority : forall x y, In x r -> In y pop -> ~ selected y -> depth pop x <= depth pop y.
    Proof.
      destruct cut_exists as [c [H1 H2]]. intros x y Ix Iy Ny.
      specialize (H1 x Ix). destruct (Nat.lt_ge_cases (depth pop y) c) as [L|G]; [|lia].
      exfalso. apply Ny, H2; assumption.
    Qed.

    Theorem one_partial_front :
      exists c, forall y, In y pop ->
        (depth pop y < c -> selected y) /\ (c < depth pop y -> ~ selected y).
    Proof.
      destruct cut_exists as [c [H1 H2]]. exists c. intros y Iy. split; [apply H2, Iy|].
      intros G S. unfold selected in S. unfold uids in S. apply in_map_iff in S. destruct S as [x [E Ix]].
      specialize (H1 x Ix). unfold depth in *. rewrite E in H1. lia.
    Qed.

    (* crowding order inside the cut front, for a comparison that is a strict weak order on a
       domain P containing the distances assigned to the last front *)
    Section Cut.
      Variable P : D o -> Prop.
      Hypothesis lt_asym : forall a b, P a -> P b -> dltb o a b = true -> dltb o b a = false.
      Hypothesis lt_ntrans : forall a b c, P a -> P b -> P c ->
        dltb o b a = false -> dltb o c b = false -> dltb o c a = false.

      Theorem crowding_cut :
        forall lastf, lastf = last fronts [] ->
        Forall P (assign_crowding o lastf) ->
        forall x dx y dy, In (x, dx) (keyed lastf) -> In (y, dy) (keyed lastf) ->
          selected x -> ~ selected y -> dltb o dx dy = false.
      Proof.
        intros lastf0 EL FP x dx y dy Ix Iy Sx Ny.
        destruct (k_cases k) as [K|[k0 K]].
        { exfalso. unfold selected in Sx. rewrite (sel_k0 K) in Sx. contradiction. }
        destruct (sel_shape k0 K) as [m [init [lastf [n' [Ef [Er [_ [_ [_ [P2 _]]]]]]]]]].
        assert (H : lastf0 = lastf) by (rewrite EL, Ef; apply last_last). clear EL. subst lastf0.
        assert (N : NoDup (uids (concat init ++ lastf))).
        { eapply Permutation_NoDup; [apply Permutation_sym, P2|apply prefix_nodup]. }
        unfold uids in N. rewrite map_app in N. apply nodup_app_inv in N. destruct N as [_ [N2 N3]].
        assert (FPk : Forall (fun e => P (snd e)) (keyed lastf)).
        { apply Forall_forall. intros [z dz] Iz. rewrite Forall_forall in FP. apply FP.
          eapply in_combine_r, Iz. }
        apply (sort_st_rev_cut (dltb o) snd P lt_asym lt_ntrans (keyed lastf) n' FPk (x, dx) (y, dy)).
        - (* (x,dx) is among the kept ones *)
          unfold selected in Sx. rewrite Er in Sx. unfold uids in Sx. rewrite map_app in Sx.
          apply in_app_or in Sx. destruct Sx as [Sx|Sx].
          + exfalso. apply (N3 (uid x) Sx). apply in_map. eapply in_combine_l, Ix.
          + apply in_map_iff in Sx. destruct Sx as [x' [E Ix']]. apply in_map_iff in Ix'.
            destruct Ix' as [[x'' d'] [E' I']]. cbn in E'. subst x''.
            assert (Q : (x', d') = (x, dx)).
            { apply (combine_inj_key uid lastf (assign_crowding o lastf)); [exact N2| |exact Ix|exact E].
              eapply Permutation_in; [apply Permutation_sym, (sort_st_rev_perm (dltb o) snd)|]. eapply in_firstn, I'. }
            rewrite <- Q. exact I'.
        - (* (y,dy) is among the dropped ones *)
          assert (Iy' : In (y, dy) (cut_sorted lastf)).
          { eapply Permutation_in; [apply (sort_st_rev_perm (dltb o) snd)|exact Iy]. }
          unfold cut_sorted in Iy'. rewrite <- (firstn_skipn n' (sort_st_rev _ _ _)) in Iy'.
          apply in_app_or in Iy'. destruct Iy' as [Iy'|Iy']; [|exact Iy'].
          exfalso. apply Ny. unfold selected. rewrite Er. unfold uids. rewrite map_app. apply in_or_app. right.
          apply in_map_iff. exists y. split; [reflexivity|]. apply in_map_iff. exists (y, dy). split; [reflexivity|exact Iy'].
      Qed.
    End Cut.
  End Contract.
End Generic.
