(* Proofs about the C05 model (Model/C05_Nsga2.v) relative to the specification Model/C05_Spec.v. *)
From Coq Require Import List ZArith QArith Bool Lia Permutation.
From DV Require Import Base.Corr Base.PyList Base.C05_Sort Model.C05_Nsga2 Model.C05_Spec.
Import ListNotations.

Section Generic.
  Variable o : numops.

  Lemma sel_some fronts k : fronts <> [] -> exists r, sel_nsga2 o fronts k = Some r.
  Proof.
    intro H. unfold sel_nsga2. destruct (_ <? _)%Z; [|eauto].
    destruct fronts; [congruence|eauto].
  Qed.
End Generic.
