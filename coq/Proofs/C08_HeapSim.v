(* The heap-level model (objects, references, in-place modification, deepcopy = allocation)
   simulates the value-level model: what an observer sees of the archive is the value-level
   archive of the snapshots taken at each call, whatever the user does to his objects later. *)
From Coq Require Import List ZArith Bool Lia.
From DV Require Import Base.PyTuple Base.PyList Model.C01_Fitness Model.C08_Archive Model.C08_Heap
  Proofs.C08_Lists.
Import ListNotations.
Local Open Scope Z_scope.

(* ---------- map commutes with the Python list primitives ---------- *)
Lemma map_ins_nth {A B} (f : A -> B) l k v : map f (ins_nth l k v) = ins_nth (map f l) k (f v).
Proof. revert l; induction k as [|k IH]; intro l; destruct l; cbn; try reflexivity. now rewrite IH. Qed.

Lemma map_del_nth {A B} (f : A -> B) l k : map f (del_nth l k) = del_nth (map f l) k.
Proof. revert k; induction l as [|x l IH]; intro k; destruct k; cbn; try reflexivity. now rewrite IH. Qed.

Lemma map_py_insert {A B} (f : A -> B) l i v : map f (py_insert l i v) = py_insert (map f l) i (f v).
Proof. unfold py_insert. rewrite zlen_map. apply map_ins_nth. Qed.

Lemma map_py_del {A B} (f : A -> B) l i :
  py_del (map f l) i = match py_del l i with Some r => Some (map f r) | None => None end.
Proof.
  unfold py_del. rewrite zlen_map. cbv zeta.
  destruct ((_ <? 0) || (_ <=? _)); [reflexivity|]. now rewrite map_del_nth.
Qed.

Lemma map_py_get {A B} (f : A -> B) l i :
  py_get (map f l) i = match py_get l i with Some r => Some (f r) | None => None end.
Proof.
  unfold py_get. rewrite zlen_map. cbv zeta.
  destruct ((_ <? 0) || (_ <=? _)); [reflexivity|]. rewrite nth_error_map.
  destruct (nth_error l _); reflexivity.
Qed.

Lemma existsb_map {A B} (f : A -> B) g l : existsb g (map f l) = existsb (fun x => g (f x)) l.
Proof. induction l as [|x l IH]; cbn; [reflexivity|]. now rewrite IH. Qed.

Lemma Forall_ins_nth {A} (P : A -> Prop) l k v : P v -> Forall P l -> Forall P (ins_nth l k v).
Proof.
  intros Hv. revert l; induction k as [|k IH]; intros l Hl.
  - destruct l; cbn; constructor; assumption.
  - destruct l as [|x l]; cbn.
    + constructor; [assumption|constructor].
    + inversion Hl; subst. constructor; auto.
Qed.

Lemma Forall_py_insert {A} (P : A -> Prop) l i v : P v -> Forall P l -> Forall P (py_insert l i v).
Proof. intros. unfold py_insert. now apply Forall_ins_nth. Qed.

Lemma Forall_del_nth {A} (P : A -> Prop) l k : Forall P l -> Forall P (del_nth l k).
Proof.
  revert k; induction l as [|x l IH]; intros k H; destruct k; cbn; try assumption; inversion H; subst; auto.
Qed.

Lemma Forall_py_del {A} (P : A -> Prop) l i r : py_del l i = Some r -> Forall P l -> Forall P r.
Proof.
  unfold py_del. cbv zeta. destruct ((_ <? 0) || (_ <=? _)); [discriminate|].
  intros E H. inversion E; subst. now apply Forall_del_nth.
Qed.

Lemma firstn_set_nth {A} (l : list A) n k v : firstn n (set_nth l k v) = set_nth (firstn n l) k v.
Proof.
  revert n k; induction l as [|x l IH]; intros n k; destruct n, k; cbn; try reflexivity.
  now rewrite IH.
Qed.

Lemma nth_set_nth_other {A} (l : list A) k v j d : j <> k -> nth j (set_nth l k v) d = nth j l d.
Proof.
  revert k j; induction l as [|x l IH]; intros k j H; destruct k, j; cbn; try reflexivity; try congruence.
  apply IH. congruence.
Qed.

Lemma nth_firstn {A} (l : list A) n j d : (j < n)%nat -> nth j (firstn n l) d = nth j l d.
Proof.
  revert n j; induction l as [|x l IH]; intros n j H; destruct n, j; cbn; try reflexivity; try lia.
  apply IH. lia.
Qed.

Section Sim.
  Variable sim : obj -> obj -> bool.
  Variable nu : nat.                         (* the user's objects are the locations < nu *)

  Notation view := (view).
  Notation h_insert := (h_insert).

  (* archive references point to objects the archive allocated itself *)
  Definition arch_loc (hp : heap) (l : nat) : Prop := (nu <= l < length hp)%nat.
  Definition wf (hp : heap) (a : harch) : Prop :=
    (nu <= length hp)%nat /\ Forall (arch_loc hp) (hkeys a) /\ Forall (arch_loc hp) (hitems a).

  Lemma deref_app hp e l : (l < length hp)%nat -> deref (hp ++ e) l = deref hp l.
  Proof. intro H. unfold deref. now apply app_nth1. Qed.

  Lemma deref_new hp o : deref (hp ++ [o]) (length hp) = o.
  Proof. unfold deref. rewrite app_nth2 by lia. now rewrite Nat.sub_diag. Qed.

  Lemma map_ext_locs {B} (f g : nat -> B) (P : nat -> Prop) ls :
    (forall l, P l -> f l = g l) -> Forall P ls -> map f ls = map g ls.
  Proof. intros H F. induction F as [|l ls Hl _ IH]; cbn; [reflexivity|]. now rewrite H, IH. Qed.

  Lemma arch_loc_mono hp hp' l : (length hp <= length hp')%nat -> arch_loc hp l -> arch_loc hp' l.
  Proof. unfold arch_loc. lia. Qed.

  Lemma wf_mono hp hp' a : (length hp <= length hp')%nat -> wf hp a -> wf hp' a.
  Proof.
    intros L (H1 & H2 & H3). repeat split; [lia| |]; eapply Forall_impl; try eassumption;
      intros l; now apply arch_loc_mono.
  Qed.

  (* views only depend on the objects behind the archive's own references *)
  Lemma view_ext hp hp' a : wf hp a ->
    (forall l, arch_loc hp l -> deref hp' l = deref hp l) -> view (hp', a) = view (hp, a).
  Proof.
    intros (_ & Hk & Hi) E. unfold view. f_equal.
    - apply (map_ext_locs _ _ (arch_loc hp)); [|assumption]. intros l Hl. unfold hfit. now rewrite E.
    - apply (map_ext_locs _ _ (arch_loc hp)); assumption.
  Qed.

  (* ---------- insert ---------- *)
  Lemma h_insert_sim hp a x : wf hp a -> (x < length hp)%nat ->
    let st' := h_insert hp a x in
    view st' = insert obj o_wv (view (hp, a)) (deref hp x) /\
    wf (fst st') (snd st') /\ fst st' = hp ++ [deref hp x].
  Proof.
    intros W Hx. pose proof W as (Hn & Hk & Hi). unfold C08_Heap.h_insert. cbv zeta. cbn [fst snd].
    set (hp' := hp ++ [deref hp x]).
    assert (Ek : map (hfit hp') (hkeys a) = map (hfit hp) (hkeys a)).
    { apply (map_ext_locs _ _ (arch_loc hp)); [|assumption]. intros l [_ Hl]. unfold hfit, hp'. now rewrite deref_app. }
    assert (Ei : map (deref hp') (hitems a) = map (deref hp) (hitems a)).
    { apply (map_ext_locs _ _ (arch_loc hp)); [|assumption]. intros l [_ Hl]. unfold hp'. now rewrite deref_app. }
    assert (En : hfit hp' (length hp) = o_wv (deref hp x)) by (unfold hfit, hp'; now rewrite deref_new).
    assert (Ln : length hp' = S (length hp)) by (unfold hp'; rewrite app_length; cbn; lia).
    split; [|split; [|reflexivity]].
    - unfold view, insert. cbn [keys items hkeys hitems]. unfold hlen. cbn [items].
      rewrite !map_py_insert, Ek, Ei, En, zlen_map. f_equal. unfold hp'. now rewrite deref_new.
    - assert (Hnew : arch_loc hp' (length hp)) by (unfold arch_loc; lia).
      repeat split; [lia| |]; cbn [hkeys hitems]; apply Forall_py_insert; try assumption;
        eapply Forall_impl; try eassumption; intro l; apply arch_loc_mono; lia.
  Qed.

  (* ---------- remove ---------- *)
  Lemma h_remove_sim hp a i :
    remove obj (view (hp, a)) i =
    match h_remove a i with Some a' => Some (view (hp, a')) | None => None end.
  Proof.
    unfold remove, h_remove, view, hlen. cbn [keys items]. rewrite zlen_map.
    destruct (zlen (hitems a) =? 0); [reflexivity|].
    rewrite !map_py_del. destruct (py_del (hkeys a) _); [|reflexivity].
    destruct (py_del (hitems a) i); reflexivity.
  Qed.

  Lemma h_remove_wf hp a i a' : wf hp a -> h_remove a i = Some a' -> wf hp a'.
  Proof.
    intros (Hn & Hk & Hi). unfold h_remove. destruct (_ =? 0); [discriminate|].
    destruct (py_del (hkeys a) _) as [ks|] eqn:E1; [|discriminate].
    destruct (py_del (hitems a) i) as [its|] eqn:E2; [|discriminate].
    intro E. inversion E; subst. repeat split; [assumption| |]; cbn; eapply Forall_py_del; eassumption.
  Qed.

  (* ---------- one state of the simulation ---------- *)
  (* u: the user's objects as they are now *)
  Definition user_ok (u hp : heap) : Prop := length u = nu /\ firstn nu hp = u.

  Lemma user_deref u hp l : user_ok u hp -> (l < nu)%nat -> deref hp l = deref u l.
  Proof. intros [_ <-] H. unfold deref. symmetry. now apply nth_firstn. Qed.

  Lemma user_ok_app u hp e : (nu <= length hp)%nat -> user_ok u hp -> user_ok u (hp ++ e).
  Proof. intros Hn [L E]. split; [assumption|]. rewrite firstn_app. replace (nu - length hp)%nat with 0%nat by lia. cbn. now rewrite app_nil_r. Qed.

  (* ---------- HallOfFame.update ---------- *)
  Lemma h_hof_step_sim m u hp a p0 x : wf hp a -> user_ok u hp -> (x < nu)%nat ->
    (forall p, p0 = Some p -> (p < nu)%nat) ->
    match h_hof_step sim m p0 (Some (hp, a)) x with
    | Some (hp', a') =>
        hof_step obj o_wv sim m (option_map (deref u) p0) (Some (view (hp, a))) (deref u x) = Some (view (hp', a'))
        /\ wf hp' a' /\ user_ok u hp'
    | None =>
        hof_step obj o_wv sim m (option_map (deref u) p0) (Some (view (hp, a))) (deref u x) = None
    end.
  Proof.
    intros W U Hx Hp. pose proof W as (Hn & Hk & Hi).
    assert (Ex : deref hp x = deref u x) by (now apply user_deref).
    unfold h_hof_step, hof_step. unfold hlen.
    change (items (view (hp, a))) with (map (deref hp) (hitems a)). rewrite zlen_map.
    destruct ((zlen (hitems a) =? 0) && negb (m =? 0)).
    { destruct p0 as [p|]; cbn [option_map]; [|reflexivity].
      assert (Hpn : (p < nu)%nat) by (now apply Hp).
      destruct (h_insert_sim hp a p W ltac:(lia)) as (V & W' & Ehp).
      destruct (h_insert hp a p) as [hp' a'] eqn:Eins. cbn [fst snd] in *.
      rewrite <- (user_deref u hp p U Hpn). split; [now rewrite V|]. split; [assumption|].
      subst hp'. now apply user_ok_app. }
    rewrite map_py_get. destruct (py_get (hitems a) (-1)) as [worst|]; [|reflexivity].
    rewrite <- Ex. change (o_wv (deref hp x)) with (hfit hp x). change (o_wv (deref hp worst)) with (hfit hp worst).
    destruct (fit_gt (hfit hp x) (hfit hp worst) || (zlen (hitems a) <? m)); [|auto].
    rewrite existsb_map. change (fun x0 => sim (deref hp x) (deref hp x0)) with (hsim sim hp x).
    destruct (existsb (hsim sim hp x) (hitems a)); [auto|].
    assert (G : forall a1, wf hp a1 ->
      match Some (h_insert hp a1 x) with
      | Some (hp', a') => Some (insert obj o_wv (view (hp, a1)) (deref hp x)) = Some (view (hp', a')) /\ wf hp' a' /\ user_ok u hp'
      | None => False end).
    { intros a1 W1. destruct (h_insert_sim hp a1 x W1 ltac:(lia)) as (V & W' & Ehp).
      destruct (h_insert hp a1 x) as [hp' a'] eqn:Eins. cbn [fst snd] in *.
      split; [now rewrite V|]. split; [assumption|]. subst hp'. now apply user_ok_app. }
    destruct (zlen (hitems a) >=? m).
    - rewrite h_remove_sim. destruct (h_remove a (-1)) as [a1|] eqn:Er; [|reflexivity].
      apply G. eapply h_remove_wf; eassumption.
    - apply (G a W).
  Qed.

  Lemma h_hof_fold_sim m u p0 : (forall p, p0 = Some p -> (p < nu)%nat) ->
    forall pop hp a, Forall (fun l => (l < nu)%nat) pop -> wf hp a -> user_ok u hp ->
    match fold_left (h_hof_step sim m p0) pop (Some (hp, a)) with
    | Some (hp', a') =>
        fold_left (hof_step obj o_wv sim m (option_map (deref u) p0)) (map (deref u) pop) (Some (view (hp, a)))
          = Some (view (hp', a')) /\ wf hp' a' /\ user_ok u hp'
    | None =>
        fold_left (hof_step obj o_wv sim m (option_map (deref u) p0)) (map (deref u) pop) (Some (view (hp, a))) = None
    end.
  Proof.
    intros Hp. induction pop as [|x r IH]; intros hp a F W U; cbn [fold_left map]; [auto|].
    inversion F as [|? ? Hx Fr]; subst.
    pose proof (h_hof_step_sim m u hp a p0 x W U Hx Hp) as S.
    destruct (h_hof_step sim m p0 (Some (hp, a)) x) as [[hp1 a1]|].
    - destruct S as (E & W1 & U1). rewrite E. now apply IH.
    - rewrite S. clear. induction r as [|y r IHr]; cbn; [reflexivity|exact IHr].
  Qed.

  Lemma fold_none {A B} (f : option A -> B -> option A) (Hf : forall b, f None b = None) l :
    fold_left f l None = None.
  Proof. induction l as [|b l IH]; cbn; [reflexivity|]. now rewrite Hf. Qed.

  Lemma h_hof_update_sim m u pop hp a : Forall (fun l => (l < nu)%nat) pop -> wf hp a -> user_ok u hp ->
    match h_hof_update sim m hp a pop with
    | Some (hp', a') => hof_update obj o_wv sim m (view (hp, a)) (map (deref u) pop) = Some (view (hp', a'))
                        /\ wf hp' a' /\ user_ok u hp'
    | None => hof_update obj o_wv sim m (view (hp, a)) (map (deref u) pop) = None
    end.
  Proof.
    intros F W U. unfold h_hof_update, hof_update.
    replace (hd_error (map (deref u) pop)) with (option_map (deref u) (hd_error pop)) by (destruct pop; reflexivity).
    apply h_hof_fold_sim; try assumption.
    intros p E. destruct pop as [|q r]; [discriminate|]. inversion E; subst. now inversion F.
  Qed.

  (* ---------- ParetoFront.update ---------- *)
  Lemma pf_scan_map hp x : forall hs i d tr,
    pf_scan nat (hfit hp) (hsim sim hp) x hs i d tr =
    pf_scan obj o_wv sim (deref hp x) (map (deref hp) hs) i d tr.
  Proof.
    induction hs as [|h r IH]; intros i d tr; cbn [pf_scan map]; [reflexivity|].
    unfold hfit, hsim. rewrite !IH. reflexivity.
  Qed.

  Lemma h_remove_all_sim hp idx : forall a, wf hp a ->
    match h_remove_all a idx with
    | Some a' => remove_all obj (view (hp, a)) idx = Some (view (hp, a')) /\ wf hp a'
    | None => remove_all obj (view (hp, a)) idx = None
    end.
  Proof.
    unfold h_remove_all, remove_all. induction idx as [|i r IH]; intros a W; cbn [fold_left]; [auto|].
    rewrite h_remove_sim. destruct (h_remove a i) as [a1|] eqn:E.
    - apply IH. eapply h_remove_wf; eassumption.
    - rewrite !fold_none; auto.
  Qed.

  Lemma h_pf_step_sim u hp a x : wf hp a -> user_ok u hp -> (x < nu)%nat ->
    match h_pf_step sim (Some (hp, a)) x with
    | Some (hp', a') => pf_step obj o_wv sim (Some (view (hp, a))) (deref u x) = Some (view (hp', a'))
                        /\ wf hp' a' /\ user_ok u hp'
    | None => pf_step obj o_wv sim (Some (view (hp, a))) (deref u x) = None
    end.
  Proof.
    intros W U Hx. pose proof W as (Hn & _ & _).
    assert (Ex : deref hp x = deref u x) by (now apply user_deref).
    unfold h_pf_step, pf_step.
    change (items (view (hp, a))) with (map (deref hp) (hitems a)). rewrite <- Ex, <- pf_scan_map.
    destruct (pf_scan nat (hfit hp) (hsim sim hp) x (hitems a) 0 false []) as [[isd tw] tr].
    pose proof (h_remove_all_sim hp (rev tr) a W) as S.
    destruct (h_remove_all a (rev tr)) as [a1|]; [|now rewrite S].
    destruct S as [E W1]. rewrite E. destruct (negb isd && negb tw); [|auto].
    destruct (h_insert_sim hp a1 x W1 ltac:(lia)) as (V & W' & Ehp).
    destruct (h_insert hp a1 x) as [hp' a'] eqn:Eins. cbn [fst snd] in *.
    split; [now rewrite V|]. split; [assumption|]. subst hp'. now apply user_ok_app.
  Qed.

  Lemma h_pf_update_sim u : forall pop hp a, Forall (fun l => (l < nu)%nat) pop -> wf hp a -> user_ok u hp ->
    match h_pf_update sim hp a pop with
    | Some (hp', a') => pf_update obj o_wv sim (view (hp, a)) (map (deref u) pop) = Some (view (hp', a'))
                        /\ wf hp' a' /\ user_ok u hp'
    | None => pf_update obj o_wv sim (view (hp, a)) (map (deref u) pop) = None
    end.
  Proof.
    unfold h_pf_update, pf_update. induction pop as [|x r IH]; intros hp a F W U; cbn [fold_left map]; [auto|].
    inversion F as [|? ? Hx Fr]; subst.
    pose proof (h_pf_step_sim u hp a x W U Hx) as S.
    destruct (h_pf_step sim (Some (hp, a)) x) as [[hp1 a1]|].
    - destruct S as (E & W1 & U1). rewrite E. now apply IH.
    - rewrite S. rewrite !fold_none; auto.
  Qed.

  (* ---------- whole histories ---------- *)
  Definition hop_ok (o : hop) : Prop :=
    match o with
    | HSet l _ => (l < nu)%nat
    | HUpdate p => Forall (fun l => (l < nu)%nat) p
    | HInsert x => (x < nu)%nat
    | HRemove _ => True
    | HClear => True
    end.

  Lemma set_user u hp a l ob : wf hp a -> user_ok u hp -> (l < nu)%nat ->
    view (set_nth hp l ob, a) = view (hp, a) /\ wf (set_nth hp l ob) a /\ user_ok (set_nth u l ob) (set_nth hp l ob).
  Proof.
    intros W U Hl. split; [|split].
    - apply view_ext; [assumption|]. intros l' [H1 _]. unfold deref. apply nth_set_nth_other. lia.
    - eapply wf_mono; [|eassumption]. rewrite set_nth_length. lia.
    - destruct U as [L E]. split; [now rewrite set_nth_length|]. rewrite firstn_set_nth. now rewrite E.
  Qed.

  Theorem heap_simulation kind : forall hops u hp a, Forall hop_ok hops -> wf hp a -> user_ok u hp ->
    map (option_map view) (h_trace sim kind (hp, a) hops) = vtrace sim kind u (view (hp, a)) hops.
  Proof.
    induction hops as [|o r IH]; intros u hp a F W U; [reflexivity|].
    inversion F as [|? ? Ho Fr]; subst. cbn [h_trace vtrace].
    destruct o as [l ob|p|x|i|]; cbn [h_apply abs_op apply_op hop_ok] in *.
    - destruct (set_user u hp a l ob W U Ho) as (V & W' & U').
      cbn [map option_map]. rewrite <- V at 1. f_equal. rewrite <- V. now apply IH.
    - destruct kind as [m|].
      + pose proof (h_hof_update_sim m u p hp a Ho W U) as S.
        destruct (h_hof_update sim m hp a p) as [[hp' a']|].
        * destruct S as (E & W' & U'). rewrite E. cbn [map option_map]. f_equal. now apply IH.
        * now rewrite S.
      + pose proof (h_pf_update_sim u p hp a Ho W U) as S.
        destruct (h_pf_update sim hp a p) as [[hp' a']|].
        * destruct S as (E & W' & U'). rewrite E. cbn [map option_map]. f_equal. now apply IH.
        * now rewrite S.
    - pose proof W as (Hn & _ & _).
      destruct (h_insert_sim hp a x W ltac:(lia)) as (V & W' & Ehp).
      destruct (h_insert hp a x) as [hp' a'] eqn:Eins. cbn [fst snd] in *.
      rewrite <- (user_deref u hp x U Ho), <- V. cbn [map option_map]. f_equal.
      apply IH; [assumption|assumption|]. subst hp'. now apply user_ok_app.
    - rewrite h_remove_sim. destruct (h_remove a i) as [a'|] eqn:E; [|reflexivity].
      cbn [map option_map]. f_equal. apply IH; try assumption. eapply h_remove_wf; eassumption.
    - cbn [map option_map]. f_equal. apply (IH u hp (mkharch [] [])); try assumption.
      destruct W as (Hn & _ & _). repeat split; [assumption|constructor|constructor].
  Qed.

  (* starting from a store that holds only the user's objects and an empty archive *)
  Corollary heap_simulation_init kind u hops : length u = nu -> Forall hop_ok hops ->
    map (option_map view) (h_trace sim kind (u, mkharch [] []) hops) = vtrace sim kind u empty hops.
  Proof.
    intros L F. apply (heap_simulation kind hops u u (mkharch [] [])); [assumption| |].
    - repeat split; [lia|constructor|constructor].
    - split; [assumption|]. rewrite <- L. apply firstn_all.
  Qed.
End Sim.
