(* crowding_formula: on a front whose values are pairwise distinct in every objective, the
   exact-rational instance of assign_crowding computes Model/C05_CrowdSpec.crowd_spec
   (infinite at the extremes of any objective, otherwise the sum of neighbour gaps divided by
   nobj * range). *)
From Coq Require Import List ZArith QArith Bool Lia Permutation Arith Setoid.
From DV Require Import Base.PyList Base.C05_Sort Base.C05_List Model.C05_Nsga2 Model.C05_CrowdSpec
     Proofs.C05_QInst Proofs.C05_Bump Proofs.C05_Nsga2.
Import ListNotations.
Local Open Scope Q_scope.

(* ---------- min / max of a list ---------- *)
Lemma qmin2_cases a b : (qmin2 a b = a /\ a <= b) \/ (qmin2 a b = b /\ b <= a).
Proof.
  unfold qmin2. destruct (Qle_bool a b) eqn:E.
  - left. split; [reflexivity|apply Qle_bool_iff, E].
  - right. split; [reflexivity|]. apply Qlt_le_weak, Qnot_le_lt. intro L. apply Qle_bool_iff in L. congruence.
Qed.

Lemma qmax2_cases a b : (qmax2 a b = b /\ a <= b) \/ (qmax2 a b = a /\ b <= a).
Proof.
  unfold qmax2. destruct (Qle_bool a b) eqn:E.
  - left. split; [reflexivity|apply Qle_bool_iff, E].
  - right. split; [reflexivity|]. apply Qlt_le_weak, Qnot_le_lt. intro L. apply Qle_bool_iff in L. congruence.
Qed.

Lemma fold_qmin2_spec r : forall a,
  (fold_left qmin2 r a = a \/ In (fold_left qmin2 r a) r) /\ fold_left qmin2 r a <= a /\
  forall w, In w r -> fold_left qmin2 r a <= w.
Proof.
  induction r as [|b r IH]; intro a; cbn [fold_left].
  - split; [left; reflexivity|split; [apply Qle_refl|intros ? []]].
  - destruct (IH (qmin2 a b)) as [H1 [H2 H3]].
    destruct (qmin2_cases a b) as [[E L]|[E L]]; rewrite E in *.
    + split; [destruct H1 as [H1|H1]; [left; exact H1|right; right; exact H1]|].
      split; [exact H2|]. intros w [<-|I]; [eapply Qle_trans; eassumption|auto].
    + split; [destruct H1 as [H1|H1]; [right; left; symmetry; exact H1|right; right; exact H1]|].
      split; [eapply Qle_trans; eassumption|]. intros w [<-|I]; [exact H2|auto].
Qed.

Lemma fold_qmax2_spec r : forall a,
  (fold_left qmax2 r a = a \/ In (fold_left qmax2 r a) r) /\ a <= fold_left qmax2 r a /\
  forall w, In w r -> w <= fold_left qmax2 r a.
Proof.
  induction r as [|b r IH]; intro a; cbn [fold_left].
  - split; [left; reflexivity|split; [apply Qle_refl|intros ? []]].
  - destruct (IH (qmax2 a b)) as [H1 [H2 H3]].
    destruct (qmax2_cases a b) as [[E L]|[E L]]; rewrite E in *.
    + split; [destruct H1 as [H1|H1]; [right; left; symmetry; exact H1|right; right; exact H1]|].
      split; [eapply Qle_trans; eassumption|]. intros w [<-|I]; [exact H2|auto].
    + split; [destruct H1 as [H1|H1]; [left; exact H1|right; right; exact H1]|].
      split; [exact H2|]. intros w [<-|I]; [eapply Qle_trans; eassumption|auto].
Qed.

Lemma lmin_in l : l <> [] -> In (lmin l) l.
Proof.
  destruct l as [|a r]; [congruence|]. intros _. cbn [lmin].
  destruct (fold_qmin2_spec r a) as [[H|H] _]; [left; symmetry; exact H|right; exact H].
Qed.

Lemma lmin_le l w : In w l -> lmin l <= w.
Proof.
  destruct l as [|a r]; [contradiction|]. cbn [lmin]. destruct (fold_qmin2_spec r a) as [_ [H2 H3]].
  intros [<-|I]; [exact H2|auto].
Qed.

Lemma lmax_in l : l <> [] -> In (lmax l) l.
Proof.
  destruct l as [|a r]; [congruence|]. intros _. cbn [lmax].
  destruct (fold_qmax2_spec r a) as [[H|H] _]; [left; symmetry; exact H|right; exact H].
Qed.

Lemma lmax_ge l w : In w l -> w <= lmax l.
Proof.
  destruct l as [|a r]; [contradiction|]. cbn [lmax]. destruct (fold_qmax2_spec r a) as [_ [H2 H3]].
  intros [<-|I]; [exact H2|auto].
Qed.

Lemma lmin_unique l m : In m l -> (forall w, In w l -> m <= w) -> m == lmin l.
Proof.
  intros I H. assert (N : l <> []) by (intro E; subst; contradiction).
  apply Qle_antisym; [apply H, lmin_in, N|apply lmin_le, I].
Qed.

Lemma lmax_unique l m : In m l -> (forall w, In w l -> w <= m) -> m == lmax l.
Proof.
  intros I H. assert (N : l <> []) by (intro E; subst; contradiction).
  apply Qle_antisym; [apply lmax_ge, I|apply H, lmax_in, N].
Qed.

(* ---------- qinf_eq ---------- *)
Lemma qinf_eq_refl a : qinf_eq a a.
Proof. destruct a; cbn; [apply Qeq_refl|exact I]. Qed.

Lemma qinf_eq_trans a b c : qinf_eq a b -> qinf_eq b c -> qinf_eq a c.
Proof. destruct a, b, c; cbn; try tauto. apply Qeq_trans. Qed.

Lemma qinf_add_compat a a' t t' : qinf_eq a a' -> t == t' -> qinf_eq (qinf_add a (Fin t)) (qinf_add a' (Fin t')).
Proof.
  destruct a as [x|], a' as [y|]; unfold qinf_add, qinf_eq; try tauto.
  intros E1 E2. rewrite !Qred_correct, E1, E2. reflexivity.
Qed.

(* ---------- one objective ---------- *)
Section Step.
  Variables (front : list (ind Q)) (i nobj : nat).
  Let n := length front.
  Let col := vcol i front.
  Notation K := (key_i q_ops i).
  Let crowd0 : list (centry q_ops) := combine (map vals front) (seq 0 n).

  Hypothesis Hd : distinct_col col.

  Lemma col_length : length col = n.
  Proof. unfold col, vcol. apply map_length. Qed.

  Lemma crowd_keys_gen (fr : list (ind Q)) : forall s0,
    map K (combine (map vals fr) (seq s0 (length fr))) = vcol i fr.
  Proof. induction fr as [|x fr IH]; intro s0; cbn; [reflexivity|]. f_equal. apply IH. Qed.

  Lemma crowd_idx_gen (fr : list (ind Q)) : forall s0 e,
    In e (combine (map vals fr) (seq s0 (length fr))) ->
    (s0 <= snd e)%nat /\ (snd e - s0 < length fr)%nat /\ K e = nth (snd e - s0) (vcol i fr) 0.
  Proof.
    induction fr as [|x fr IH]; intros s0 e I; [contradiction|].
    cbn [map length seq combine] in I. destruct I as [<-|I].
    - cbn [snd fst]. rewrite Nat.sub_diag. cbn. split; [lia|split; [lia|reflexivity]].
    - destruct (IH (S s0) e I) as [H1 [H2 H3]]. split; [lia|]. split; [cbn [length]; lia|].
      replace (snd e - s0)%nat with (S (snd e - S s0)) by lia. cbn [vcol map nth]. exact H3.
  Qed.

  Lemma crowd0_keys : map K crowd0 = col.
  Proof. apply crowd_keys_gen. Qed.

  Lemma crowd0_snd : map snd crowd0 = seq 0 n.
  Proof. apply combine_snd. rewrite map_length, seq_length. reflexivity. Qed.

  Lemma crowd0_idx e : In e crowd0 -> (snd e < n)%nat /\ K e = nth (snd e) col 0.
  Proof.
    intro I. destruct (crowd_idx_gen front 0 e I) as [_ [H2 H3]]. rewrite Nat.sub_0_r in *. split; assumption.
  Qed.

  (* ---- the sorted crowd ---- *)
  Variable s : list (centry q_ops).
  Hypothesis Ps : Permutation s crowd0.
  Hypothesis Ss : sorted_asc qltb K s.

  Lemma s_nodup : NoDup (map snd s).
  Proof.
    eapply Permutation_NoDup; [apply Permutation_sym, Permutation_map, Ps|]. rewrite crowd0_snd. apply seq_NoDup.
  Qed.

  Lemma s_idx e : In e s -> (snd e < n)%nat /\ K e = nth (snd e) col 0.
  Proof. intro I. apply crowd0_idx. eapply Permutation_in; eassumption. Qed.

  Lemma s_keys_in e : In e s -> In (K e) col.
  Proof.
    intro I. rewrite <- crowd0_keys. apply in_map. eapply Permutation_in; eassumption.
  Qed.

  Lemma col_from_s w : In w col -> exists e, In e s /\ K e = w.
  Proof.
    intro I. rewrite <- crowd0_keys in I. apply in_map_iff in I. destruct I as [e [E Ie]].
    exists e. split; [eapply Permutation_in; [apply Permutation_sym, Ps|exact Ie]|exact E].
  Qed.

  Lemma s_le l1 l2 a b : s = l1 ++ l2 -> In a l1 -> In b l2 -> K a <= K b.
  Proof.
    intros E Ia Ib. apply qltb_ge. rewrite E in Ss. eapply (sorted_asc_app qltb K); eassumption.
  Qed.

  Lemma s_lt l1 l2 a b : s = l1 ++ l2 -> In a l1 -> In b l2 -> K a < K b.
  Proof.
    intros E Ia Ib. pose proof (s_le l1 l2 a b E Ia Ib) as L.
    apply Qle_lteq in L. destruct L as [L|L]; [exact L|exfalso].
    assert (Isa : In a s) by (rewrite E; apply in_or_app; left; exact Ia).
    assert (Isb : In b s) by (rewrite E; apply in_or_app; right; exact Ib).
    destruct (s_idx a Isa) as [La Ka]. destruct (s_idx b Isb) as [Lb Kb].
    rewrite Ka, Kb in L. revert L. apply Hd; rewrite ?col_length; try assumption.
    pose proof s_nodup as N. rewrite E, map_app in N. apply nodup_app_inv in N. destruct N as [_ [_ D]].
    intro Q. apply (D (snd a)); [apply in_map, Ia|rewrite Q; apply in_map, Ib].
  Qed.

  Lemma hd_is_min first rest : s = first :: rest -> K first == lmin col.
  Proof.
    intro E. apply lmin_unique; [apply s_keys_in; rewrite E; left; reflexivity|].
    intros w Iw. destruct (col_from_s w Iw) as [e [Ie <-]]. rewrite E in Ie. destruct Ie as [<-|Ie]; [apply Qle_refl|].
    apply (s_le [first] rest); [exact E|left; reflexivity|exact Ie].
  Qed.

  Lemma last_is_max l1 lst : s = l1 ++ [lst] -> K lst == lmax col.
  Proof.
    intro E. apply lmax_unique; [apply s_keys_in; rewrite E; apply in_or_app; right; left; reflexivity|].
    intros w Iw. destruct (col_from_s w Iw) as [e [Ie <-]]. rewrite E in Ie. apply in_app_or in Ie.
    destruct Ie as [Ie|[<-|[]]]; [|apply Qle_refl].
    apply (s_le l1 [lst]); [exact E|exact Ie|left; reflexivity].
  Qed.

  (* neighbours of an interior element are the next smaller / next larger values of the column *)
  Lemma next_is_succ l1 c x l2 : s = l1 ++ c :: x :: l2 -> K x == lmin (filter (fun w => qltb (K c) w) col).
  Proof.
    intro E. assert (Ix : In x s) by (rewrite E; apply in_or_app; right; right; left; reflexivity).
    assert (E2 : s = (l1 ++ [c]) ++ x :: l2) by (rewrite <- app_assoc; exact E).
    apply lmin_unique.
    - apply filter_In. split; [apply s_keys_in, Ix|]. apply qltb_lt.
      apply (s_lt _ _ c x E2); [apply in_or_app; right; left; reflexivity|left; reflexivity].
    - intros w Iw. apply filter_In in Iw. destruct Iw as [Iw Lw]. apply qltb_lt in Lw.
      destruct (col_from_s w Iw) as [e [Ie <-]]. rewrite E2 in Ie. apply in_app_or in Ie. destruct Ie as [Ie|Ie].
      + exfalso. apply in_app_or in Ie. destruct Ie as [Ie|[<-|[]]].
        * apply (Qlt_not_le _ _ Lw). apply (s_le l1 (c :: x :: l2)); [exact E|exact Ie|left; reflexivity].
        * apply (Qlt_irrefl _ Lw).
      + destruct Ie as [<-|Ie]; [apply Qle_refl|].
        apply (s_le (l1 ++ [c; x]) l2); [rewrite <- app_assoc; exact E|apply in_or_app; right; right; left; reflexivity|exact Ie].
  Qed.

  Lemma prev_is_pred l1 p c l2 : s = l1 ++ p :: c :: l2 -> K p == lmax (filter (fun w => qltb w (K c)) col).
  Proof.
    intro E. assert (Ip : In p s) by (rewrite E; apply in_or_app; right; left; reflexivity).
    assert (E2 : s = (l1 ++ [p]) ++ c :: l2) by (rewrite <- app_assoc; exact E).
    apply lmax_unique.
    - apply filter_In. split; [apply s_keys_in, Ip|]. apply qltb_lt.
      apply (s_lt _ _ p c E2); [apply in_or_app; right; left; reflexivity|left; reflexivity].
    - intros w Iw. apply filter_In in Iw. destruct Iw as [Iw Lw]. apply qltb_lt in Lw.
      destruct (col_from_s w Iw) as [e [Ie <-]]. rewrite E2 in Ie. apply in_app_or in Ie. destruct Ie as [Ie|Ie].
      + apply in_app_or in Ie. destruct Ie as [Ie|[<-|[]]]; [|apply Qle_refl].
        apply (s_le l1 (p :: c :: l2)); [exact E|exact Ie|left; reflexivity].
      + exfalso. destruct Ie as [<-|Ie]; [apply (Qlt_irrefl _ Lw)|].
        apply (Qlt_not_le _ _ Lw). apply (s_le (l1 ++ [p; c]) l2); [rewrite <- app_assoc; exact E|apply in_or_app; right; right; left; reflexivity|exact Ie].
  Qed.

  (* ---- what one pass of the loop body does to the distances ---- *)
  Definition step_dist (dist : list qinf) : list qinf :=
    match s with
    | [] => dist
    | first :: _ =>
        let lst := last s first in
        let d2 := set_nth (set_nth dist (snd first) Inf) (snd lst) Inf in
        if Qeq_bool (K lst) (K first) then d2
        else fold_left (bump q_ops i (Qred (inject_Z (Z.of_nat nobj) * Qred (K lst - K first)))) (triples s) d2
    end.

  Variable dist : list qinf.
  Hypothesis Ld : length dist = n.

  Lemma mids_not_ends l1 p c x l2 e :
    s = l1 ++ p :: c :: x :: l2 -> In e (l1 ++ [p]) \/ In e (x :: l2) -> snd c <> snd e.
  Proof.
    intros E [I|I] Q; pose proof s_nodup as N; rewrite E in N.
    - replace (l1 ++ p :: c :: x :: l2) with ((l1 ++ [p]) ++ c :: x :: l2) in N by (rewrite <- app_assoc; reflexivity).
      rewrite map_app in N. apply nodup_app_inv in N. destruct N as [_ [_ D]].
      apply (D (snd e)); [apply in_map, I|rewrite <- Q; left; reflexivity].
    - replace (l1 ++ p :: c :: x :: l2) with ((l1 ++ [p; c]) ++ x :: l2) in N by (rewrite <- app_assoc; reflexivity).
      rewrite map_app in N. apply nodup_app_inv in N. destruct N as [_ [_ D]].
      apply (D (snd c)); [apply in_map, in_or_app; right; right; left; reflexivity|rewrite Q; apply in_map, I].
  Qed.

  Lemma step_extreme_first first rest :
    s = first :: rest -> nth (snd first) (step_dist dist) Inf = Inf.
  Proof.
    intro E. assert (Lf : (snd first < n)%nat) by (apply s_idx; rewrite E; left; reflexivity).
    unfold step_dist. rewrite E. rewrite <- E.
    set (lst := last s first).
    assert (D2 : nth (snd first) (set_nth (set_nth dist (snd first) Inf) (snd lst) Inf) Inf = Inf).
    { destruct (Nat.eq_dec (snd first) (snd lst)) as [Q|Q].
      - rewrite <- Q. apply nth_set_nth_eq. rewrite set_nth_length, Ld. exact Lf.
      - rewrite nth_set_nth_neq by exact Q. apply nth_set_nth_eq. rewrite Ld. exact Lf. }
    destruct (Qeq_bool _ _); [exact D2|].
    rewrite (fold_bump_untouched q_ops i _ (triples s) _ (snd first) Inf); [exact D2|].
    intros [[p c] x] It. cbn [fst snd]. rewrite triples_eq in It. apply triples_rec_mid in It.
    destruct It as [l1 [l2 E']]. apply (mids_not_ends l1 p c x l2 first E').
    left. rewrite E in E'. destruct l1 as [|b l1']; cbn in E'; injection E' as -> _; [left; reflexivity|left; reflexivity].
  Qed.

  Lemma step_extreme_last l1 lst :
    s = l1 ++ [lst] -> nth (snd lst) (step_dist dist) Inf = Inf.
  Proof.
    intro E. assert (Ll : (snd lst < n)%nat) by (apply s_idx; rewrite E; apply in_or_app; right; left; reflexivity).
    unfold step_dist. destruct s as [|first rest] eqn:Es; [destruct l1; discriminate|].
    rewrite <- Es in *. assert (EL : last s first = lst) by (rewrite E; apply last_last). rewrite EL.
    assert (D2 : nth (snd lst) (set_nth (set_nth dist (snd first) Inf) (snd lst) Inf) Inf = Inf).
    { apply nth_set_nth_eq. rewrite set_nth_length, Ld. exact Ll. }
    destruct (Qeq_bool _ _); [exact D2|].
    rewrite (fold_bump_untouched q_ops i _ (triples s) _ (snd lst) Inf); [exact D2|].
    intros [[p c] x] It. cbn [fst snd]. rewrite triples_eq in It. apply triples_rec_mid in It.
    destruct It as [l1' [l2 E']]. apply (mids_not_ends l1' p c x l2 lst E').
    right. rewrite <- EL. rewrite E' at 1. rewrite last_app_cons.
    change (last (p :: c :: x :: l2) first) with (last (x :: l2) first).
    apply last_cons_in.
  Qed.

  Lemma step_interior l1 p c x l2 :
    s = l1 ++ p :: c :: x :: l2 ->
    qinf_eq (nth (snd c) (step_dist dist) Inf)
            (qinf_add (nth (snd c) dist Inf) (Fin (gap_term nobj col (K c)))) /\
    extreme col (K c) = false.
  Proof.
    intro E. assert (Ic : In c s) by (rewrite E; apply in_or_app; right; right; left; reflexivity).
    destruct (s_idx c Ic) as [Lc Kc].
    destruct s as [|first rest] eqn:Es; [destruct l1; discriminate|]. rewrite <- Es in *.
    set (lst := last s first).
    assert (If : In first (l1 ++ [p])).
    { rewrite Es in E. destruct l1 as [|b l1']; cbn in E; injection E as -> _; left; reflexivity. }
    assert (Il : In lst (x :: l2)).
    { unfold lst. rewrite E at 1. rewrite last_app_cons.
      change (last (p :: c :: x :: l2) first) with (last (x :: l2) first). apply last_cons_in. }
    assert (E3 : s = (l1 ++ [p]) ++ c :: x :: l2) by (rewrite <- app_assoc; exact E).
    assert (E4 : s = (l1 ++ [p; c]) ++ x :: l2) by (rewrite <- app_assoc; exact E).
    assert (Lfc : K first < K c) by (apply (s_lt _ _ first c E3); [exact If|left; reflexivity]).
    assert (Lcl : K c < K lst) by (apply (s_lt _ _ c lst E4); [apply in_or_app; right; right; left; reflexivity|exact Il]).
    assert (Emin : K first == lmin col) by (apply (hd_is_min first rest Es)).
    assert (Emax : K lst == lmax col).
    { apply (last_is_max (removelast s)). unfold lst. apply app_removelast_last. rewrite Es; discriminate. }
    split.
    - unfold step_dist. rewrite Es. rewrite <- Es. fold lst.
      assert (NE : Qeq_bool (K lst) (K first) = false).
      { destruct (Qeq_bool (K lst) (K first)) eqn:B; [|reflexivity]. apply Qeq_bool_iff in B.
        exfalso. rewrite B in Lcl. apply (Qlt_irrefl (K c)). eapply Qlt_trans; eassumption. }
      rewrite NE, triples_eq, E.
      rewrite (fold_bump_interior q_ops i _ l1 p c x l2).
      + rewrite !nth_set_nth_neq.
        * cbn [dadd vdiv vsub q_ops]. apply qinf_add_compat; [apply qinf_eq_refl|].
          unfold gap_term. rewrite !Qred_correct.
          rewrite <- (next_is_succ (l1 ++ [p]) c x l2) by (rewrite <- app_assoc; exact E).
          rewrite <- (prev_is_pred l1 p c (x :: l2) E).
          rewrite <- Emin, <- Emax. reflexivity.
        * apply (mids_not_ends l1 p c x l2 first E). left; exact If.
        * apply (mids_not_ends l1 p c x l2 lst E). right; exact Il.
      + pose proof s_nodup as N. rewrite E in N. exact N.
      + rewrite !set_nth_length. exact (eq_ind_r (fun z => (snd c < z)%nat) Lc Ld).
    - unfold extreme. apply orb_false_iff. split.
      + destruct (Qeq_bool (K c) (lmin col)) eqn:B; [|reflexivity]. apply Qeq_bool_iff in B.
        exfalso. rewrite B, <- Emin in Lfc. apply (Qlt_irrefl _ Lfc).
      + destruct (Qeq_bool (K c) (lmax col)) eqn:B; [|reflexivity]. apply Qeq_bool_iff in B.
        exfalso. rewrite B, <- Emax in Lcl. apply (Qlt_irrefl _ Lcl).
  Qed.

  (* the loop body, for every individual of the front *)
  Lemma step_spec j : (j < n)%nat ->
    qinf_eq (nth j (step_dist dist) Inf)
            (if extreme col (nth j col 0) then Inf
             else qinf_add (nth j dist Inf) (Fin (gap_term nobj col (nth j col 0)))).
  Proof.
    intro Lj. assert (Ij : In j (map snd s)).
    { eapply Permutation_in; [apply Permutation_sym, Permutation_map, Ps|]. rewrite crowd0_snd. apply in_seq. lia. }
    apply in_map_iff in Ij. destruct Ij as [c [Ec Ic]]. subst j.
    destruct (s_idx c Ic) as [_ Kc]. rewrite <- Kc.
    apply in_split in Ic. destruct Ic as [l1 [l2 E]].
    destruct l1 as [|a l1'] using rev_ind.
    - (* first: minimum *)
      cbn [app] in E. rewrite (step_extreme_first c l2 E).
      assert (X : extreme col (K c) = true).
      { unfold extreme. apply orb_true_iff. left. apply Qeq_bool_iff. apply (hd_is_min c l2 E). }
      rewrite X. exact I.
    - clear IHl1'. destruct l2 as [|x l2'].
      + (* last: maximum *)
        rewrite (step_extreme_last (l1' ++ [a]) c E).
        assert (X : extreme col (K c) = true).
        { unfold extreme. apply orb_true_iff. right. apply Qeq_bool_iff. apply (last_is_max (l1' ++ [a]) c E). }
        rewrite X. exact I.
      + rewrite <- app_assoc in E. cbn [app] in E.
        destruct (step_interior l1' a c x l2' E) as [H X]. rewrite X. exact H.
  Qed.
End Step.

(* ---------- all objectives ---------- *)
Lemma crowd_step_q nobj crowd dist i :
  crowd_step q_ops nobj (crowd, dist) i =
  (sort_st qltb (key_i q_ops i) crowd, step_dist i nobj (sort_st qltb (key_i q_ops i) crowd) dist).
Proof.
  unfold crowd_step, step_dist. cbn [fst snd].
  change (sort_st (vltb q_ops) (key_i q_ops i) crowd) with (sort_st qltb (key_i q_ops i) crowd).
  generalize (sort_st qltb (key_i q_ops i) crowd). intros [|first rest]; [reflexivity|].
  change (veqb q_ops) with Qeq_bool.
  destruct (Qeq_bool _ _); reflexivity.
Qed.

Lemma sort_q_sorted i crowd : sorted_asc qltb (key_i q_ops i) (sort_st qltb (key_i q_ops i) crowd).
Proof.
  apply (sort_st_sorted qltb (key_i q_ops i) (fun _ => True)).
  - intros a b _ _. apply qltb_asym.
  - intros a b c _ _ _. apply qltb_ntrans.
  - apply Forall_forall. intros; exact I.
Qed.

Section Formula.
  Variables (front : list (ind Q)) (nobj : nat).
  Let n := length front.
  Let crowd0 : list (centry q_ops) := combine (map vals front) (seq 0 n).

  Definition ext_at (j i : nat) : bool := extreme (vcol i front) (nth j (vcol i front) 0).
  Definition gap_at (j i : nat) : Q := gap_term nobj (vcol i front) (nth j (vcol i front) 0).
  Definition acc_step (j : nat) (a : qinf) (i : nat) : qinf :=
    if ext_at j i then Inf else qinf_add a (Fin (gap_at j i)).

  Lemma fold_spec objs : forall crowd dist (acc : nat -> qinf),
    (forall i, In i objs -> distinct_col (vcol i front)) ->
    Permutation crowd crowd0 -> length dist = n ->
    (forall j, (j < n)%nat -> qinf_eq (nth j dist Inf) (acc j)) ->
    forall j, (j < n)%nat ->
      qinf_eq (nth j (snd (fold_left (crowd_step q_ops nobj) objs (crowd, dist))) Inf)
              (fold_left (acc_step j) objs (acc j)).
  Proof.
    induction objs as [|i objs IH]; intros crowd dist acc Hd Pc Ld Ha j Lj; [apply Ha, Lj|].
    cbn [fold_left]. rewrite crowd_step_q.
    set (s := sort_st qltb (key_i q_ops i) crowd).
    assert (Ps : Permutation s crowd0).
    { eapply perm_trans; [apply Permutation_sym, sort_st_perm|exact Pc]. }
    apply (IH s (step_dist i nobj s dist) (fun j => acc_step j (acc j) i)).
    - intros i' I'. apply Hd. right; exact I'.
    - exact Ps.
    - pose proof (crowd_step_length q_ops nobj (crowd, dist) i) as L. rewrite crowd_step_q in L. cbn [snd] in L.
      fold s in L. exact (eq_trans L Ld).
    - intros j' Lj'. unfold acc_step, ext_at, gap_at.
      eapply qinf_eq_trans.
      + apply (step_spec front i nobj (Hd i (or_introl eq_refl)) s Ps (sort_q_sorted i crowd) dist Ld j' Lj').
      + destruct (extreme _ _); [exact I|]. apply qinf_add_compat; [apply Ha, Lj'|reflexivity].
    - exact Lj.
  Qed.

  Lemma acc_inf objs j : fold_left (acc_step j) objs Inf = Inf.
  Proof.
    induction objs as [|i objs IH]; [reflexivity|]. cbn [fold_left]. unfold acc_step at 2.
    destruct (ext_at j i); exact IH.
  Qed.

  Lemma acc_closed objs j : forall a,
    qinf_eq (fold_left (acc_step j) objs (Fin a))
            (if existsb (ext_at j) objs then Inf
             else Fin (a + fold_right Qplus 0 (map (gap_at j) objs))).
  Proof.
    induction objs as [|i objs IH]; intro a; cbn [fold_left existsb map fold_right].
    - unfold qinf_eq. rewrite Qplus_0_r. reflexivity.
    - unfold acc_step at 2. destruct (ext_at j i); cbn [orb].
      + rewrite acc_inf. exact I.
      + unfold qinf_add. eapply qinf_eq_trans; [apply IH|].
        destruct (existsb (ext_at j) objs); [exact I|]. unfold qinf_eq.
        rewrite Qred_correct. ring.
  Qed.
End Formula.

Lemma nth_repeat_lt {A} (a d : A) n j : (j < n)%nat -> nth j (repeat a n) d = a.
Proof. revert j; induction n as [|n IH]; intros [|j] L; cbn; try lia; [reflexivity|]. apply IH. lia. Qed.

Theorem crowding_formula (front : list (ind Q)) (j : nat) :
  (forall i, (i < front_nobj front)%nat -> distinct_col (vcol i front)) ->
  (j < length front)%nat ->
  qinf_eq (nth j (assign_crowding q_ops front) Inf) (crowd_spec front j).
Proof.
  intros Hd Lj. destruct front as [|x0 r]; [cbn in Lj; lia|].
  set (front := x0 :: r) in *. unfold assign_crowding. fold front.
  set (nobj := length (vals x0)).
  eapply qinf_eq_trans.
  - apply (fold_spec front nobj (seq 0 nobj) _ _ (fun _ => Fin 0)).
    + intros i Ii. apply Hd. apply in_seq in Ii. unfold front_nobj, front. fold nobj. lia.
    + apply Permutation_refl.
    + apply repeat_length.
    + intros j' Lj'. rewrite nth_repeat_lt by exact Lj'. apply qinf_eq_refl.
    + exact Lj.
  - eapply qinf_eq_trans; [apply acc_closed|].
    unfold crowd_spec. change (front_nobj front) with nobj. cbv zeta.
    change (fun i => extreme (vcol i front) (nth j (vcol i front) 0)) with (ext_at front j).
    destruct (existsb (ext_at front j) (seq 0 nobj)); [exact I|].
    unfold qinf_eq. rewrite Qplus_0_l. reflexivity.
Qed.
