(* Lemmas about Model/C19_Penalty.v (deap/tools/constraint.py).  Property statements are in Props/C19.v. *)
From Coq Require Import List QArith Bool Arith Lia Lqa.
From DV Require Import Base.C19_PyRt Model.C19_Penalty.
Import ListNotations.
Local Open Scope Q_scope.

(* ---------------------------------------------------------------------------------------------
   specification vocabulary
   --------------------------------------------------------------------------------------------- *)

(* the sign the code derives from a weight: `1 if w >= 0 else -1` *)
Definition sgn (w : Q) : Q := if py_ge w 0 then 1 else -1.

(* k-th component of a "scalar or per-objective" quantity: a scalar counts for every objective *)
Definition vnth (k : nat) (v : val) : Q :=
  match v with VNum q => q | VRep q => q | VTup l => nth k l 0 end.

(* a per-objective quantity has the right number of components (scalars always fit) *)
Definition fits (n : nat) (v : val) : Prop :=
  match v with VTup l => length l = n | _ => True end.

(* number of components a quantity contributes to a zip against n objectives *)
Definition vlen (n : nat) (v : val) : nat :=
  match v with VTup l => length l | _ => n end.

(* user-supplied quantities are numbers or tuples (not itertools.repeat objects) *)
Definition num_or_tup (v : val) : Prop := match v with VRep _ => False | _ => True end.
Definition not_num (v : val) : Prop := match v with VNum _ => False | _ => True end.

(* what `if not isinstance(x, Sequence): x = repeat(x)` leaves in x *)
Definition norm (v : val) : val := match v with VNum q => VRep q | _ => v end.

Definition it_of (v : val) : iter Q :=
  match v with VTup l => Fin l | VRep q => Rep q | VNum q => Rep q end.

Definition zip3v (A : val) (S : list Q) (D : val) : list (Q * Q * Q) :=
  match izip (izip (it_of A) (Fin S)) (it_of D) with Fin l => l | Rep _ => [] end.

Definition pen_d : Q * Q * Q -> Q := fun '(d, w, dist) => d - w * dist.
Definition pen_c (alpha : Q) : Q * Q * Q -> Q := fun '(f, w, d) => f - w * alpha * d.

Definition zeros (w : list Q) : val := VTup (map (fun _ => 0) w).

(* ---------------------------------------------------------------------------------------------
   lists
   --------------------------------------------------------------------------------------------- *)
Lemma zip_fin_length {A B} (a : list A) (b : list B) :
  length (zip_fin a b) = Nat.min (length a) (length b).
Proof. revert b; induction a; destruct b; cbn; auto. Qed.

Lemma zip_fin_nth {A B} (a : list A) (b : list B) k da db :
  (k < length a)%nat -> (k < length b)%nat ->
  nth k (zip_fin a b) (da, db) = (nth k a da, nth k b db).
Proof.
  revert b k; induction a as [|x a IH]; destruct b as [|y b]; cbn; intros k Ha Hb; try lia.
  destruct k; [reflexivity|]. apply IH; lia.
Qed.

Lemma map_pair_l_nth {A B} (x : A) (l : list B) k da db :
  (k < length l)%nat -> nth k (map (fun y => (x, y)) l) (da, db) = (x, nth k l db).
Proof.
  revert k; induction l as [|y l IH]; cbn; intros k H; [lia|].
  destruct k; [reflexivity|]. apply IH; lia.
Qed.

Lemma map_pair_r_nth {A B} (y : B) (l : list A) k da db :
  (k < length l)%nat -> nth k (map (fun x => (x, y)) l) (da, db) = (nth k l da, y).
Proof.
  revert k; induction l as [|x l IH]; cbn; intros k H; [lia|].
  destruct k; [reflexivity|]. apply IH; lia.
Qed.

Lemma nth_zeros (w : list Q) k : nth k (map (fun _ : Q => 0) w) 0 = 0.
Proof. revert k; induction w; destruct k; cbn; auto. Qed.

Lemma nth_map_in {A} (g : A -> Q) (l : list A) k d :
  (k < length l)%nat -> nth k (map g l) 0 = g (nth k l d).
Proof.
  intro H. rewrite (nth_indep (map g l) 0 (g d)) by (rewrite map_length; exact H).
  apply map_nth.
Qed.

(* ---------------------------------------------------------------------------------------------
   zip3v: zip(A, S, D) where A and D are scalars-as-repeat or tuples and S is a tuple
   --------------------------------------------------------------------------------------------- *)
Lemma zip3v_length A S D :
  length (zip3v A S D) = Nat.min (Nat.min (vlen (length S) A) (length S)) (vlen (length S) D).
Proof.
  unfold zip3v; destruct A as [a|la|a], D as [d|ld|d]; cbn;
    rewrite ?zip_fin_length, ?map_length, ?zip_fin_length, ?map_length; lia.
Qed.

Lemma zip3v_length_fits A S D :
  fits (length S) A -> fits (length S) D -> length (zip3v A S D) = length S.
Proof.
  intros HA HD. rewrite zip3v_length.
  destruct A, D; cbn in *; rewrite ?HA, ?HD; lia.
Qed.

Lemma zip3v_nth A S D k :
  (k < length (zip3v A S D))%nat ->
  nth k (zip3v A S D) (0, 0, 0) = (vnth k A, nth k S 0, vnth k D).
Proof.
  intro H. pose proof (zip3v_length A S D) as L. rewrite L in H. clear L.
  unfold zip3v; destruct A as [a|la|a], D as [d|ld|d]; cbn in *;
    repeat first
      [ rewrite zip_fin_nth by (rewrite ?zip_fin_length, ?map_length; lia)
      | rewrite map_pair_r_nth by (rewrite ?zip_fin_length, ?map_length; lia)
      | rewrite map_pair_l_nth by (rewrite ?zip_fin_length, ?map_length; lia) ];
    reflexivity.
Qed.

(* ---------------------------------------------------------------------------------------------
   arithmetic of the penalty
   --------------------------------------------------------------------------------------------- *)
Lemma sgn_nonneg w : 0 <= w -> sgn w = 1.
Proof. intro H. unfold sgn, py_ge. apply Qle_bool_iff in H. rewrite H. reflexivity. Qed.

Lemma sgn_neg w : w < 0 -> sgn w = -1.
Proof.
  intro H. unfold sgn, py_ge. destruct (Qle_bool 0 w) eqn:E; [|reflexivity].
  apply Qle_bool_iff in E. lra.
Qed.

Lemma sgn_cases w : (0 <= w /\ sgn w = 1) \/ (w < 0 /\ sgn w = -1).
Proof.
  destruct (Qlt_le_dec w 0) as [H|H]; [right|left]; split; auto using sgn_neg, sgn_nonneg.
Qed.

(* moved in the worse direction: never better than the base value *)
Lemma pen_never_better base w d :
  0 <= d ->
  (0 <= w -> base - sgn w * d <= base) /\ (w < 0 -> base <= base - sgn w * d).
Proof.
  intro Hd; split; intro Hw; [rewrite (sgn_nonneg w Hw)|rewrite (sgn_neg w Hw)]; lra.
Qed.

Lemma pen_monotone base w d d' :
  d <= d' ->
  (0 <= w -> base - sgn w * d' <= base - sgn w * d) /\
  (w < 0 -> base - sgn w * d <= base - sgn w * d').
Proof.
  intro Hd; split; intro Hw; [rewrite (sgn_nonneg w Hw)|rewrite (sgn_neg w Hw)]; lra.
Qed.

Lemma penc_never_better base w alpha d :
  0 <= alpha -> 0 <= d ->
  (0 <= w -> base - sgn w * alpha * d <= base) /\ (w < 0 -> base <= base - sgn w * alpha * d).
Proof.
  intros Ha Hd. pose proof (Qmult_le_0_compat _ _ Ha Hd) as P.
  split; intro Hw; [rewrite (sgn_nonneg w Hw)|rewrite (sgn_neg w Hw)]; lra.
Qed.

Lemma penc_monotone base w alpha d d' :
  0 <= alpha -> d <= d' ->
  (0 <= w -> base - sgn w * alpha * d' <= base - sgn w * alpha * d) /\
  (w < 0 -> base - sgn w * alpha * d <= base - sgn w * alpha * d').
Proof.
  intros Ha Hd.
  assert (P : alpha * d <= alpha * d').
  { setoid_replace (alpha * d) with (d * alpha) by ring.
    setoid_replace (alpha * d') with (d' * alpha) by ring.
    apply Qmult_le_compat_r; assumption. }
  split; intro Hw; [rewrite (sgn_nonneg w Hw)|rewrite (sgn_neg w Hw)]; lra.
Qed.

(* in DEAP's own terms: the weighted value w * r (what Fitness compares) never exceeds w * base *)
Lemma pen_weighted_never_better base w p :
  0 <= p -> w * (base - sgn w * p) <= w * base.
Proof.
  intro Hp. destruct (sgn_cases w) as [[Hw E]|[Hw E]]; rewrite E.
  - pose proof (Qmult_le_0_compat _ _ Hw Hp). lra.
  - assert (0 <= (- w) * p) by (apply Qmult_le_0_compat; lra). lra.
Qed.

(* ---------------------------------------------------------------------------------------------
   the wrappers
   --------------------------------------------------------------------------------------------- *)
Section Wrappers.
  Context {I Args : Type} (W : I -> list Q).
  Local Notation M := (M I Args).

  (* --- __init__ --- *)
  Lemma delta_init_ok (feas : I -> bool) delta dist :
    num_or_tup delta ->
    delta_init (Args := Args) feas delta dist = (Ok (mk_delta_self feas (norm delta) dist), []).
  Proof. destruct delta; cbn; intros H; [reflexivity|reflexivity|destruct H]. Qed.

  Lemma delta_init_repeat_stuck (feas : I -> bool) q dist :
    delta_init (I := I) (Args := Args) feas (VRep q) dist = (Exc Stuck, []).
  Proof. reflexivity. Qed.

  Lemma closest_init_ok (feas : I -> bool) fbl alpha dist :
    closest_init (Args := Args) feas fbl alpha dist = (Ok (mk_closest_self feas fbl alpha dist), []).
  Proof. reflexivity. Qed.

  (* --- feasible individuals --- *)
  Lemma delta_feasible (self : delta_self I) func i (a : Args) :
    d_fbty_fct self i = true ->
    delta_wrapper W self func i a = (Ok (func i a), [EFeas i; EEval i a]).
  Proof. intro H. unfold delta_wrapper, bind, call_feasibility. rewrite H. reflexivity. Qed.

  Lemma closest_feasible (self : closest_self I) func i (a : Args) :
    c_fbty_fct self i = true ->
    closest_wrapper W self func i a = (Ok (func i a), [EFeas i; EEval i a]).
  Proof. intro H. unfold closest_wrapper, bind, call_feasibility. rewrite H. reflexivity. Qed.

  (* --- infeasible, DeltaPenalty --- *)
  Definition dist1_val (self : delta_self I) (i : I) : val :=
    match d_dist_fct self with None => zeros (W i) | Some f => f i end.
  Definition dist1_log (self : delta_self I) (i : I) : list (event I Args) :=
    match d_dist_fct self with None => [] | Some _ => [EDist1 i] end.

  (* no evaluator call, whatever else happens (errors included) *)
  Lemma delta_infeasible_calls (self : delta_self I) func i (a : Args) :
    d_fbty_fct self i = false ->
    calls (snd (delta_wrapper W self func i a)) = [].
  Proof.
    intro H. unfold delta_wrapper, bind, call_feasibility. rewrite H.
    destruct self as [fb delta [f|]]; cbn.
    - destruct (f i) as [x|xs|x]; cbn; destruct delta; reflexivity.
    - destruct delta; reflexivity.
  Qed.

  Lemma delta_infeasible (self : delta_self I) func i (a : Args) :
    d_fbty_fct self i = false ->
    not_num (d_delta self) ->
    num_or_tup (dist1_val self i) ->
    delta_wrapper W self func i a =
      (Ok (VTup (map pen_d (zip3v (d_delta self) (map sgn (W i)) (dist1_val self i)))),
       EFeas i :: dist1_log self i).
  Proof.
    intros H Hd Hx. unfold delta_wrapper, bind, call_feasibility. rewrite H.
    unfold dist1_val, dist1_log in *.
    destruct self as [fb delta [f|]]; cbn in *.
    - destruct (f i) as [x|xs|x]; cbn in *; try contradiction;
        destruct delta; cbn in *; try contradiction; reflexivity.
    - destruct delta; cbn in *; try contradiction; reflexivity.
  Qed.

  (* what happens outside the hypotheses *)
  Lemma delta_infeasible_bad_dist (self : delta_self I) func i (a : Args) f q :
    d_fbty_fct self i = false -> d_dist_fct self = Some f -> f i = VRep q ->
    fst (delta_wrapper W self func i a) = Exc Stuck.
  Proof.
    intros H E F. unfold delta_wrapper, bind, call_feasibility. rewrite H.
    destruct self as [fb delta d]; cbn in *. subst d. cbn. rewrite F. reflexivity.
  Qed.

  (* --- infeasible, ClosestValidPenalty --- *)
  Definition dist2_val (self : closest_self I) (i : I) : val :=
    match c_dist_fct self with None => zeros (W i) | Some g => g (c_fbl_fct self i) i end.
  Definition dist2_log (self : closest_self I) (i : I) : list (event I Args) :=
    match c_dist_fct self with None => [] | Some _ => [EDist2 (c_fbl_fct self i) i] end.

  (* exactly one evaluator call, on the closest valid point, whatever else happens *)
  Lemma closest_infeasible_calls (self : closest_self I) func i (a : Args) :
    c_fbty_fct self i = false ->
    calls (snd (closest_wrapper W self func i a)) = [(c_fbl_fct self i, a)].
  Proof.
    intro H. unfold closest_wrapper, bind, call_feasibility. rewrite H.
    destruct self as [fb fbl alpha d]; cbn.
    destruct (func (fbl i) a) as [x|xs|x]; cbn; try reflexivity.
    destruct (Nat.eqb (length (map _ (W i))) (length xs)); cbn; try reflexivity.
    destruct d as [g|]; cbn; [destruct (g (fbl i) i); reflexivity|reflexivity].
  Qed.

  Lemma closest_infeasible (self : closest_self I) func i (a : Args) fv :
    c_fbty_fct self i = false ->
    func (c_fbl_fct self i) a = VTup fv ->
    length fv = length (W i) ->
    num_or_tup (dist2_val self i) ->
    closest_wrapper W self func i a =
      (Ok (VTup (map (pen_c (c_alpha self)) (zip3v (VTup fv) (map sgn (W i)) (dist2_val self i)))),
       [EFeas i; EClosest i; EEval (c_fbl_fct self i) a] ++ dist2_log self i).
  Proof.
    intros H F L Hx. unfold closest_wrapper, bind, call_feasibility. rewrite H.
    unfold dist2_val, dist2_log in *.
    destruct self as [fb fbl alpha d]; cbn in *. rewrite F. cbn.
    rewrite map_length, L, Nat.eqb_refl. cbn.
    destruct d as [g|]; cbn in *.
    - destruct (g (fbl i) i) as [x|xs|x]; cbn in *; try contradiction; reflexivity.
    - reflexivity.
  Qed.

  (* the explicit size check *)
  Lemma closest_length_mismatch (self : closest_self I) func i (a : Args) fv :
    c_fbty_fct self i = false ->
    func (c_fbl_fct self i) a = VTup fv ->
    length fv <> length (W i) ->
    closest_wrapper W self func i a =
      (Exc IndexError, [EFeas i; EClosest i; EEval (c_fbl_fct self i) a]).
  Proof.
    intros H F L. unfold closest_wrapper, bind, call_feasibility. rewrite H.
    destruct self as [fb fbl alpha d]; cbn in *. rewrite F. cbn.
    rewrite map_length. destruct (Nat.eqb_spec (length (W i)) (length fv)) as [E|E]; [congruence|].
    reflexivity.
  Qed.

  (* an evaluator returning a bare number: len() fails *)
  Lemma closest_scalar_fitness (self : closest_self I) func i (a : Args) q :
    c_fbty_fct self i = false ->
    func (c_fbl_fct self i) a = VNum q ->
    closest_wrapper W self func i a =
      (Exc TypeError, [EFeas i; EClosest i; EEval (c_fbl_fct self i) a]).
  Proof.
    intros H F. unfold closest_wrapper, bind, call_feasibility. rewrite H.
    destruct self as [fb fbl alpha d]; cbn in *. rewrite F. reflexivity.
  Qed.

  (* --- componentwise reading of the results --- *)
  Lemma pen_d_nth A w D k :
    (k < length (zip3v A (map sgn w) D))%nat ->
    nth k (map pen_d (zip3v A (map sgn w) D)) 0 = vnth k A - sgn (nth k w 0) * vnth k D.
  Proof.
    intro H. rewrite (nth_map_in pen_d _ k (0, 0, 0)) by exact H.
    rewrite zip3v_nth by exact H. cbn.
    assert (K : (k < length w)%nat).
    { rewrite zip3v_length, map_length in H. lia. }
    rewrite (nth_indep (map sgn w) 0 (sgn 0)) by (rewrite map_length; exact K).
    rewrite map_nth. reflexivity.
  Qed.

  Lemma pen_c_nth alpha A w D k :
    (k < length (zip3v A (map sgn w) D))%nat ->
    nth k (map (pen_c alpha) (zip3v A (map sgn w) D)) 0 =
      vnth k A - sgn (nth k w 0) * alpha * vnth k D.
  Proof.
    intro H. rewrite (nth_map_in (pen_c alpha) _ k (0, 0, 0)) by exact H.
    rewrite zip3v_nth by exact H. cbn.
    assert (K : (k < length w)%nat).
    { rewrite zip3v_length, map_length in H. lia. }
    rewrite (nth_indep (map sgn w) 0 (sgn 0)) by (rewrite map_length; exact K).
    rewrite map_nth. reflexivity.
  Qed.

  Lemma vnth_zeros w k : vnth k (zeros w) = 0.
  Proof. apply nth_zeros. Qed.

  Lemma fits_zeros w : fits (length w) (zeros w).
  Proof. cbn. apply map_length. Qed.
End Wrappers.

(* ---------------------------------------------------------------------------------------------
   user-level statements: decorator construction (__init__) + one call of the decorated function
   --------------------------------------------------------------------------------------------- *)
Section Theorems.
  Context {I Args : Type} (W : I -> list Q).

  (* the distance an individual is charged: absent distance function = 0 on every objective *)
  Definition dval1 (dist : option (I -> val)) (i : I) : val :=
    match dist with None => zeros (W i) | Some f => f i end.
  Definition dlog1 (dist : option (I -> val)) (i : I) : list (event I Args) :=
    match dist with None => [] | Some _ => [EDist1 i] end.
  Definition dval2 (dist : option (I -> I -> val)) (v i : I) : val :=
    match dist with None => zeros (W i) | Some g => g v i end.
  Definition dlog2 (dist : option (I -> I -> val)) (v i : I) : list (event I Args) :=
    match dist with None => [] | Some _ => [EDist2 v i] end.

  Lemma vnth_norm k v : vnth k (norm v) = vnth k v.
  Proof. destruct v; reflexivity. Qed.
  Lemma vlen_norm n v : vlen n (norm v) = vlen n v.
  Proof. destruct v; reflexivity. Qed.
  Lemma not_num_norm v : not_num (norm v).
  Proof. destruct v; exact Logic.I. Qed.

  Lemma bind_init_nil {A B} (x : A) (k : A -> M I Args B) : bind (Ok x, []) k = k x.
  Proof. unfold bind. destruct (k x). reflexivity. Qed.

  Lemma delta_penalty_unfold feas delta dist func i (a : Args) :
    num_or_tup delta ->
    delta_penalty W feas delta dist func i a =
      delta_wrapper W (mk_delta_self feas (norm delta) dist) func i a.
  Proof. intro H. unfold delta_penalty. rewrite (delta_init_ok feas delta dist H).
    exact (bind_init_nil _ (fun s => delta_wrapper W s func i a)). Qed.

  Lemma closest_penalty_unfold feas fbl alpha dist func i (a : Args) :
    closest_valid_penalty W feas fbl alpha dist func i a =
      closest_wrapper W (mk_closest_self feas fbl alpha dist) func i a.
  Proof. unfold closest_valid_penalty. rewrite closest_init_ok.
    exact (bind_init_nil _ (fun s => closest_wrapper W s func i a)). Qed.

  (* feasible_passthrough *)
  Lemma feasible_passthrough_delta feas delta dist func i (a : Args) :
    num_or_tup delta -> feas i = true ->
    delta_penalty W feas delta dist func i a = (Ok (func i a), [EFeas i; EEval i a]).
  Proof. intros Hd H. rewrite delta_penalty_unfold by exact Hd. apply delta_feasible. exact H. Qed.

  Lemma feasible_passthrough_closest feas fbl alpha dist func i (a : Args) :
    feas i = true ->
    closest_valid_penalty W feas fbl alpha dist func i a = (Ok (func i a), [EFeas i; EEval i a]).
  Proof. intros H. rewrite closest_penalty_unfold. apply closest_feasible. exact H. Qed.

  (* delta_no_eval *)
  Lemma delta_no_eval feas delta dist func i (a : Args) :
    feas i = false ->
    calls (snd (delta_penalty W feas delta dist func i a)) = [].
  Proof.
    intro H. destruct delta as [q|l|q].
    - rewrite delta_penalty_unfold by exact Logic.I. apply delta_infeasible_calls. exact H.
    - rewrite delta_penalty_unfold by exact Logic.I. apply delta_infeasible_calls. exact H.
    - reflexivity.
  Qed.

  (* delta_formula, with zip truncation explicit *)
  Lemma delta_formula feas delta dist func i (a : Args) :
    feas i = false -> num_or_tup delta -> num_or_tup (dval1 dist i) ->
    let n := length (W i) in
    exists r,
      delta_penalty W feas delta dist func i a = (Ok (VTup r), EFeas i :: dlog1 dist i) /\
      length r = Nat.min (Nat.min (vlen n delta) n) (vlen n (dval1 dist i)) /\
      (fits n delta -> fits n (dval1 dist i) -> length r = n) /\
      forall k, (k < length r)%nat ->
        nth k r 0 = vnth k delta - sgn (nth k (W i) 0) * vnth k (dval1 dist i).
  Proof.
    intros H Hd Hx n. subst n.
    exists (map pen_d (zip3v (norm delta) (map sgn (W i)) (dval1 dist i))).
    split; [|split; [|split]].
    - rewrite delta_penalty_unfold by exact Hd.
      apply (delta_infeasible W (mk_delta_self feas (norm delta) dist) func i a H (not_num_norm delta) Hx).
    - rewrite map_length, zip3v_length, map_length, vlen_norm. reflexivity.
    - intros F1 F2. rewrite map_length. rewrite <- (map_length sgn (W i)).
      apply zip3v_length_fits; rewrite map_length; [destruct delta; exact F1|exact F2].
    - intros k Hk. rewrite map_length in Hk. rewrite pen_d_nth by exact Hk.
      rewrite vnth_norm. reflexivity.
  Qed.

  (* closest_formula *)
  Lemma closest_formula feas fbl alpha dist func i (a : Args) fv :
    feas i = false ->
    func (fbl i) a = VTup fv -> length fv = length (W i) ->
    num_or_tup (dval2 dist (fbl i) i) ->
    let n := length (W i) in
    exists r,
      closest_valid_penalty W feas fbl alpha dist func i a =
        (Ok (VTup r), [EFeas i; EClosest i; EEval (fbl i) a] ++ dlog2 dist (fbl i) i) /\
      length r = Nat.min n (vlen n (dval2 dist (fbl i) i)) /\
      (fits n (dval2 dist (fbl i) i) -> length r = n) /\
      forall k, (k < length r)%nat ->
        nth k r 0 = nth k fv 0 - sgn (nth k (W i) 0) * alpha * vnth k (dval2 dist (fbl i) i).
  Proof.
    intros H F L Hx n. subst n.
    exists (map (pen_c alpha) (zip3v (VTup fv) (map sgn (W i)) (dval2 dist (fbl i) i))).
    split; [|split; [|split]].
    - rewrite closest_penalty_unfold.
      apply (closest_infeasible W (mk_closest_self feas fbl alpha dist) func i a fv H F L Hx).
    - rewrite map_length, zip3v_length, map_length. cbn. rewrite L. lia.
    - intros F2. rewrite map_length. rewrite <- (map_length sgn (W i)).
      apply zip3v_length_fits; rewrite map_length; [exact L|exact F2].
    - intros k Hk. rewrite map_length in Hk. rewrite pen_c_nth by exact Hk. reflexivity.
  Qed.

  (* one evaluator call, on the closest valid point, never on the infeasible individual itself *)
  Lemma closest_one_call feas fbl alpha dist func i (a : Args) :
    feas i = false ->
    calls (snd (closest_valid_penalty W feas fbl alpha dist func i a)) = [(fbl i, a)].
  Proof.
    intro H. rewrite closest_penalty_unfold.
    apply (closest_infeasible_calls W (mk_closest_self feas fbl alpha dist) func i a H).
  Qed.

  Lemma closest_size_check feas fbl alpha dist func i (a : Args) fv :
    feas i = false -> func (fbl i) a = VTup fv -> length fv <> length (W i) ->
    closest_valid_penalty W feas fbl alpha dist func i a =
      (Exc IndexError, [EFeas i; EClosest i; EEval (fbl i) a]).
  Proof.
    intros H F L. rewrite closest_penalty_unfold.
    apply (closest_length_mismatch W (mk_closest_self feas fbl alpha dist) func i a fv H F L).
  Qed.

  (* never_better *)
  Lemma delta_never_better feas delta dist func i (a : Args) r log :
    feas i = false -> num_or_tup delta -> num_or_tup (dval1 dist i) ->
    (forall k, 0 <= vnth k (dval1 dist i)) ->
    delta_penalty W feas delta dist func i a = (Ok (VTup r), log) ->
    forall k, (k < length r)%nat ->
      let w := nth k (W i) 0 in
      (0 <= w -> nth k r 0 <= vnth k delta) /\
      (w < 0 -> vnth k delta <= nth k r 0) /\
      w * nth k r 0 <= w * vnth k delta.
  Proof.
    intros H Hd Hx Hpos E k Hk w.
    destruct (delta_formula feas delta dist func i a H Hd Hx) as (r' & E' & _ & _ & F).
    rewrite E' in E. injection E as <- _.
    rewrite (F k Hk). fold w.
    destruct (pen_never_better (vnth k delta) w _ (Hpos k)) as [P1 P2].
    split; [exact P1|split; [exact P2|]].
    apply pen_weighted_never_better. apply Hpos.
  Qed.

  Lemma closest_never_better feas fbl alpha dist func i (a : Args) fv r log :
    feas i = false -> func (fbl i) a = VTup fv -> length fv = length (W i) ->
    num_or_tup (dval2 dist (fbl i) i) ->
    0 <= alpha -> (forall k, 0 <= vnth k (dval2 dist (fbl i) i)) ->
    closest_valid_penalty W feas fbl alpha dist func i a = (Ok (VTup r), log) ->
    forall k, (k < length r)%nat ->
      let w := nth k (W i) 0 in
      (0 <= w -> nth k r 0 <= nth k fv 0) /\
      (w < 0 -> nth k fv 0 <= nth k r 0) /\
      w * nth k r 0 <= w * nth k fv 0.
  Proof.
    intros H Fv L Hx Ha Hpos E k Hk w.
    destruct (closest_formula feas fbl alpha dist func i a fv H Fv L Hx) as (r' & E' & _ & _ & F).
    rewrite E' in E. injection E as <- _.
    rewrite (F k Hk). fold w.
    destruct (penc_never_better (nth k fv 0) w alpha _ Ha (Hpos k)) as [P1 P2].
    split; [exact P1|split; [exact P2|]].
    setoid_replace (sgn w * alpha * vnth k (dval2 dist (fbl i) i))
      with (sgn w * (alpha * vnth k (dval2 dist (fbl i) i))) by ring.
    apply pen_weighted_never_better. apply Qmult_le_0_compat; [exact Ha|apply Hpos].
  Qed.

  (* monotone_in_distance: two distance functions, the second at least as large on every objective *)
  Lemma delta_monotone feas delta (dist dist' : option (I -> val)) func i (a : Args) r r' log log' :
    feas i = false -> num_or_tup delta ->
    num_or_tup (dval1 dist i) -> num_or_tup (dval1 dist' i) ->
    (forall k, vnth k (dval1 dist i) <= vnth k (dval1 dist' i)) ->
    delta_penalty W feas delta dist func i a = (Ok (VTup r), log) ->
    delta_penalty W feas delta dist' func i a = (Ok (VTup r'), log') ->
    forall k, (k < length r)%nat -> (k < length r')%nat ->
      let w := nth k (W i) 0 in
      (0 <= w -> nth k r' 0 <= nth k r 0) /\ (w < 0 -> nth k r 0 <= nth k r' 0).
  Proof.
    intros H Hd Hx Hx' Hle E E' k Hk Hk' w.
    destruct (delta_formula feas delta dist func i a H Hd Hx) as (r1 & E1 & _ & _ & F1).
    destruct (delta_formula feas delta dist' func i a H Hd Hx') as (r2 & E2 & _ & _ & F2).
    rewrite E1 in E. injection E as <- _. rewrite E2 in E'. injection E' as <- _.
    rewrite (F1 k Hk), (F2 k Hk'). fold w.
    apply pen_monotone. apply Hle.
  Qed.

  Lemma closest_monotone feas fbl alpha (dist dist' : option (I -> I -> val)) func i (a : Args) fv r r' log log' :
    feas i = false -> func (fbl i) a = VTup fv -> length fv = length (W i) ->
    num_or_tup (dval2 dist (fbl i) i) -> num_or_tup (dval2 dist' (fbl i) i) ->
    0 <= alpha ->
    (forall k, vnth k (dval2 dist (fbl i) i) <= vnth k (dval2 dist' (fbl i) i)) ->
    closest_valid_penalty W feas fbl alpha dist func i a = (Ok (VTup r), log) ->
    closest_valid_penalty W feas fbl alpha dist' func i a = (Ok (VTup r'), log') ->
    forall k, (k < length r)%nat -> (k < length r')%nat ->
      let w := nth k (W i) 0 in
      (0 <= w -> nth k r' 0 <= nth k r 0) /\ (w < 0 -> nth k r 0 <= nth k r' 0).
  Proof.
    intros H Fv L Hx Hx' Ha Hle E E' k Hk Hk' w.
    destruct (closest_formula feas fbl alpha dist func i a fv H Fv L Hx) as (r1 & E1 & _ & _ & F1).
    destruct (closest_formula feas fbl alpha dist' func i a fv H Fv L Hx') as (r2 & E2 & _ & _ & F2).
    rewrite E1 in E. injection E as <- _. rewrite E2 in E'. injection E' as <- _.
    rewrite (F1 k Hk), (F2 k Hk'). fold w.
    apply penc_monotone; [exact Ha|apply Hle].
  Qed.

  (* the run-time library's error values Stuck / NonTermination are unreachable from numbers and tuples *)
  Lemma delta_total feas delta dist func i (a : Args) :
    num_or_tup delta -> (feas i = false -> num_or_tup (dval1 dist i)) ->
    exists v, fst (delta_penalty W feas delta dist func i a) = Ok v.
  Proof.
    intros Hd Hx. destruct (feas i) eqn:H.
    - rewrite feasible_passthrough_delta by assumption. eexists; reflexivity.
    - destruct (delta_formula feas delta dist func i a H Hd (Hx eq_refl)) as (r & E & _).
      rewrite E. eexists; reflexivity.
  Qed.
End Theorems.

(* ---------------------------------------------------------------------------------------------
   further consequences (M4)
   --------------------------------------------------------------------------------------------- *)
Section More.
  Context {I Args : Type} (W : I -> list Q).

  (* for an infeasible individual DeltaPenalty's outcome and log do not depend on the evaluation
     function or on the extra arguments at all *)
  Lemma delta_ignores_evaluator feas delta dist (func func' : I -> Args -> val) i (a a' : Args) :
    feas i = false ->
    delta_penalty W feas delta dist func i a = delta_penalty W feas delta dist func' i a'.
  Proof.
    intro H. unfold delta_penalty.
    destruct (delta_init (Args := Args) feas delta dist) as [[s|e] l] eqn:E; [|reflexivity].
    assert (Hs : d_fbty_fct s i = false).
    { destruct delta; cbn in E; inversion E; subst; exact H. }
    unfold bind. unfold delta_wrapper, bind, call_feasibility. rewrite Hs. reflexivity.
  Qed.

  (* ClosestValidPenalty depends on the evaluation function only through its value at the closest
     valid point: the infeasible individual itself is never evaluated *)
  Lemma closest_only_valid_point feas fbl alpha dist (func func' : I -> Args -> val) i (a : Args) :
    feas i = false ->
    func (fbl i) a = func' (fbl i) a ->
    closest_valid_penalty W feas fbl alpha dist func i a =
    closest_valid_penalty W feas fbl alpha dist func' i a.
  Proof.
    intros H E. rewrite !closest_penalty_unfold.
    unfold closest_wrapper, bind, call_feasibility, call_closest, call_func. cbn. rewrite H, E. reflexivity.
  Qed.

  (* no distance function: exactly the constant / exactly the closest valid fitness (as numbers) *)
  Lemma delta_without_distance feas delta func i (a : Args) :
    feas i = false -> num_or_tup delta ->
    exists r, delta_penalty W feas delta None func i a = (Ok (VTup r), [EFeas i]) /\
      forall k, (k < length r)%nat -> nth k r 0 == vnth k delta.
  Proof.
    intros H Hd.
    destruct (delta_formula W feas delta None func i a H Hd Logic.I) as (r & E & _ & _ & F).
    exists r. split; [exact E|]. intros k Hk. rewrite (F k Hk). cbn [dval1].
    rewrite vnth_zeros. ring.
  Qed.

  Lemma closest_without_penalty feas fbl alpha dist func i (a : Args) fv :
    feas i = false -> func (fbl i) a = VTup fv -> length fv = length (W i) ->
    num_or_tup (dval2 W dist (fbl i) i) ->
    dist = None \/ alpha == 0 ->
    exists r log, closest_valid_penalty W feas fbl alpha dist func i a = (Ok (VTup r), log) /\
      forall k, (k < length r)%nat -> nth k r 0 == nth k fv 0.
  Proof.
    intros H F L Hx Hz.
    destruct (closest_formula W feas fbl alpha dist func i a fv H F L Hx) as (r & E & _ & _ & G).
    exists r. eexists. split; [exact E|]. intros k Hk. rewrite (G k Hk).
    destruct Hz as [-> | Ha].
    - cbn [dval2]. rewrite vnth_zeros. ring.
    - rewrite Ha. ring.
  Qed.

  (* strictly worse as soon as the charged distance is positive and the weight is non-zero *)
  Lemma delta_strictly_worse feas delta dist func i (a : Args) r log :
    feas i = false -> num_or_tup delta -> num_or_tup (dval1 W dist i) ->
    delta_penalty W feas delta dist func i a = (Ok (VTup r), log) ->
    forall k, (k < length r)%nat -> 0 < vnth k (dval1 W dist i) ->
      let w := nth k (W i) 0 in
      (0 < w -> nth k r 0 < vnth k delta) /\ (w < 0 -> vnth k delta < nth k r 0).
  Proof.
    intros H Hd Hx E k Hk Hpos w.
    destruct (delta_formula W feas delta dist func i a H Hd Hx) as (r' & E' & _ & _ & F).
    rewrite E' in E. injection E as <- _. rewrite (F k Hk). fold w.
    split; intro Hw.
    - rewrite (sgn_nonneg w) by lra. lra.
    - rewrite (sgn_neg w Hw). lra.
  Qed.

  Lemma closest_strictly_worse feas fbl alpha dist func i (a : Args) fv r log :
    feas i = false -> func (fbl i) a = VTup fv -> length fv = length (W i) ->
    num_or_tup (dval2 W dist (fbl i) i) ->
    closest_valid_penalty W feas fbl alpha dist func i a = (Ok (VTup r), log) ->
    forall k, (k < length r)%nat -> 0 < alpha -> 0 < vnth k (dval2 W dist (fbl i) i) ->
      let w := nth k (W i) 0 in
      (0 < w -> nth k r 0 < nth k fv 0) /\ (w < 0 -> nth k fv 0 < nth k r 0).
  Proof.
    intros H Fv L Hx E k Hk Ha Hpos w.
    destruct (closest_formula W feas fbl alpha dist func i a fv H Fv L Hx) as (r' & E' & _ & _ & F).
    rewrite E' in E. injection E as <- _. rewrite (F k Hk). fold w.
    pose proof (Qmult_lt_0_compat _ _ Ha Hpos) as P.
    split; intro Hw.
    - rewrite (sgn_nonneg w) by lra. lra.
    - rewrite (sgn_neg w Hw). lra.
  Qed.
End More.
