(* The exact-rational instance: the order on distances (Q with +infinity) is a strict weak order,
   so the crowding-cut theorem holds for it without side conditions. *)
From Coq Require Import List ZArith QArith Bool Lia.
From DV Require Import Model.C05_Nsga2.
Import ListNotations.

Lemma qltb_lt a b : qltb a b = true <-> a < b.
Proof.
  unfold qltb. rewrite negb_true_iff. split.
  - intro H. apply Qnot_le_lt. intro L. apply Qle_bool_iff in L. congruence.
  - intro H. destruct (Qle_bool b a) eqn:E; [|reflexivity]. apply Qle_bool_iff in E. exfalso. eapply Qlt_not_le; eassumption.
Qed.

Lemma qltb_ge a b : qltb a b = false <-> b <= a.
Proof.
  unfold qltb. rewrite negb_false_iff. apply Qle_bool_iff.
Qed.

Lemma qltb_asym a b : qltb a b = true -> qltb b a = false.
Proof. rewrite qltb_lt, qltb_ge. apply Qlt_le_weak. Qed.

Lemma qltb_ntrans a b c : qltb b a = false -> qltb c b = false -> qltb c a = false.
Proof. rewrite !qltb_ge. intros; eapply Qle_trans; eassumption. Qed.

Lemma qinf_ltb_asym a b : qinf_ltb a b = true -> qinf_ltb b a = false.
Proof. destruct a, b; cbn; try discriminate; try reflexivity. apply qltb_asym. Qed.

Lemma qinf_ltb_ntrans a b c : qinf_ltb b a = false -> qinf_ltb c b = false -> qinf_ltb c a = false.
Proof. destruct a, b, c; cbn; try discriminate; try reflexivity. apply qltb_ntrans. Qed.

(* a >= b on distances *)
Definition qinf_ge (a b : qinf) : Prop :=
  match a, b with
  | Inf, _ => True
  | Fin _, Inf => False
  | Fin x, Fin y => y <= x
  end.

Lemma qinf_ltb_ge a b : qinf_ltb a b = false <-> qinf_ge a b.
Proof. destruct a, b; cbn; try tauto; [apply qltb_ge|split; [discriminate|tauto]]. Qed.
