(* Lemmas and proofs for C09, part 3: cxOrdered (DESIGN Appendix A4).
   In indices rotated by b+1 the main loop is an in-place filter: step i reads rotated position i
   of the list being written and writes rotated position j <= i, so every read still sees the
   original gene; the writes never reach the segment [a, b]. *)
From Coq Require Import List ZArith QArith Bool Lia ZifyBool Permutation Arith.
From DV Require Import Base.PyList Base.C09_Lists Model.C09_SeqOps Proofs.C09_SeqOps Proofs.C09_Perm.
Import ListNotations.
Local Open Scope Z_scope.

(* ------------------------------------------------------------------ list helpers *)
Lemma filter_perm {A} (f : A -> bool) (l l' : list A) : Permutation l l' -> Permutation (filter f l) (filter f l').
Proof.
  induction 1; cbn.
  - constructor.
  - destruct (f x); auto.
  - destruct (f x), (f y); auto. apply perm_swap.
  - etransitivity; eassumption.
Qed.

Lemma filter_true {A} (f : A -> bool) l : (forall x, In x l -> f x = true) -> filter f l = l.
Proof.
  induction l as [|x l IH]; intro H; [reflexivity|]. cbn. rewrite (H x) by (left; reflexivity).
  f_equal. apply IH. intros y Hy. apply H. right; exact Hy.
Qed.

Lemma filter_false {A} (f : A -> bool) l : (forall x, In x l -> f x = false) -> filter f l = [].
Proof.
  induction l as [|x l IH]; intro H; [reflexivity|]. cbn. rewrite (H x) by (left; reflexivity).
  apply IH. intros y Hy. apply H. right; exact Hy.
Qed.

Lemma filter_len_le {A} (f : A -> bool) l : (length (filter f l) <= length l)%nat.
Proof. induction l as [|x l IH]; cbn; [lia|]. destruct (f x); cbn; lia. Qed.

Lemma firstn_S_nth {A} (l : list A) i x : nth_error l i = Some x -> firstn (S i) l = firstn i l ++ [x].
Proof.
  revert i; induction l as [|y l IH]; intros [|i] H; try discriminate.
  - cbn in H. inversion H. reflexivity.
  - cbn in H. cbn [firstn app]. f_equal. now apply IH.
Qed.

Lemma firstn_plus {A} (l : list A) a c : firstn (a + c) l = firstn a l ++ firstn c (skipn a l).
Proof.
  revert l; induction a as [|a IH]; intro l; [reflexivity|].
  destruct l; [cbn; now rewrite firstn_nil|]. cbn. f_equal. apply IH.
Qed.

Lemma app_eq_len {A} (a b c d : list A) : a ++ b = c ++ d -> length a = length c -> a = c /\ b = d.
Proof.
  revert c; induction a as [|x a IH]; intros [|y c] E L; try discriminate; [auto|].
  cbn in E. inversion E; subst. destruct (IH c H1) as [-> ->]; [cbn in L; lia|]. auto.
Qed.

Lemma set_nth_app_len {A} (K t : list A) x : set_nth (K ++ t) (length K) x = K ++ set_nth t 0 x.
Proof. induction K as [|y K IH]; [reflexivity|]. cbn. f_equal. exact IH. Qed.

Lemma In_seg_nth (l : list Z) s c x : In x (firstn c (skipn s l)) ->
  exists k, (s <= k < s + c)%nat /\ (k < length l)%nat /\ nth k l 0 = x.
Proof.
  intro H. destruct (In_nth _ _ 0 H) as (j & Hj & E).
  rewrite firstn_length, skipn_length in Hj.
  exists (s + j)%nat. split; [lia|]. split; [lia|].
  assert (N : nth_error (firstn c (skipn s l)) j = Some x).
  { rewrite <- E. apply nth_error_nth'. rewrite firstn_length, skipn_length. lia. }
  rewrite nth_error_firstn, nth_error_skipn in N by lia. now apply nth_error_nth.
Qed.

Lemma znth_repeat_true n v : znth true (repeat true n) v = true.
Proof. unfold znth. apply nth_repeat. Qed.

(* ------------------------------------------------------------------ swapping a range locus by locus *)
Lemma wp_swap_range {A} (L1 L2 : list A) a b : 0 <= a <= b -> b <= zlen L1 -> b <= zlen L2 ->
  wp (for_each (py_range3 a b 1) swap_at (L1, L2))
     (fun c => mids_swapped L1 L2 (fst c) (snd c) (Z.to_nat a) (Z.to_nat b)).
Proof.
  intros Hab H1 H2.
  set (na := Z.to_nat a). set (nb := Z.to_nat b).
  apply (wp_for_each (fun (k : nat) (s : list A * list A) =>
           length (fst s) = length L1 /\ length (snd s) = length L2 /\
           forall i, nth_error (fst s) i = (if (na <=? i)%nat && (i <? na + k)%nat then nth_error L2 i else nth_error L1 i) /\
                     nth_error (snd s) i = (if (na <=? i)%nat && (i <? na + k)%nat then nth_error L1 i else nth_error L2 i))).
  - cbn [fst snd]. split; [reflexivity|]. split; [reflexivity|]. intro i.
    replace ((na <=? i)%nat && (i <? na + 0)%nat) with false by lia. auto.
  - intros k i [l1 l2] Hk (E1 & E2 & H). cbn [fst snd] in *.
    apply nth_error_py_range3 in Hk; [|lia]. destruct Hk as [-> Hk].
    eapply wp_conseq; [apply wp_swap_at; unfold zlen in *; lia|].
    intros c (x1 & x2 & N1 & N2 & ->). cbn [fst snd].
    replace (Z.to_nat (a + Z.of_nat k)) with (na + k)%nat in * by lia.
    rewrite !set_nth_length. split; [exact E1|]. split; [exact E2|]. intro i.
    rewrite !nth_error_set_nth.
    destruct (Nat.eqb_spec i (na + k)) as [->|Hne].
    + replace (na + k <? length l1)%nat with true by (unfold zlen in *; lia).
      replace (na + k <? length l2)%nat with true by (unfold zlen in *; lia).
      replace ((na <=? na + k)%nat && (na + k <? na + S k)%nat) with true by lia.
      destruct (H (na + k)%nat) as [Ha Hb].
      replace ((na <=? na + k)%nat && (na + k <? na + k)%nat) with false in * by lia.
      rewrite <- Ha, <- Hb. auto.
    + destruct (H i) as [Ha Hb].
      replace ((na <=? i)%nat && (i <? na + S k)%nat) with ((na <=? i)%nat && (i <? na + k)%nat) by lia.
      auto.
  - intros [c1 c2] (E1 & E2 & H). cbn [fst snd] in *.
    rewrite py_range3_length in H by lia.
    replace (na + Z.to_nat (b - a))%nat with nb in H by lia.
    split; apply nth_error_ext; intro i; rewrite nth_error_mid3 by (unfold zlen in *; lia);
      destruct (H i) as [Ha Hb]; assumption.
Qed.

(* ------------------------------------------------------------------ rotation by b+1 *)
Section Rotation.
Variables (n b : Z).
Hypothesis Hb : 0 <= b < n.

Definition rr (t : Z) : Z := (t + b + 1) mod n.

Lemma rr_explicit t : 0 <= t < n -> rr t = if t + b + 1 <? n then t + b + 1 else t + b + 1 - n.
Proof.
  intro Ht. unfold rr. destruct (t + b + 1 <? n) eqn:E.
  - apply Z.mod_small. lia.
  - symmetry. apply (Z.mod_unique _ _ 1); [left; lia|lia].
Qed.

Lemma rr_range t : 0 <= t < n -> 0 <= rr t < n.
Proof. intro Ht. rewrite rr_explicit by exact Ht. destruct (t + b + 1 <? n) eqn:E; lia. Qed.

Lemma rr_inj t u : 0 <= t < n -> 0 <= u < n -> rr t = rr u -> t = u.
Proof.
  intros Ht Hu. rewrite !rr_explicit by assumption.
  destruct (t + b + 1 <? n) eqn:E1, (u + b + 1 <? n) eqn:E2; lia.
Qed.

Definition Rot (l : list Z) : list Z := skipn (Z.to_nat (b + 1)) l ++ firstn (Z.to_nat (b + 1)) l.

Lemma Rot_length l : length (Rot l) = length l.
Proof. unfold Rot. rewrite app_length, skipn_length, firstn_length. lia. Qed.

Lemma Rot_perm l : Permutation (Rot l) l.
Proof. unfold Rot. rewrite Permutation_app_comm. now rewrite firstn_skipn. Qed.

Lemma nth_error_Rot l t : zlen l = n -> 0 <= t < n -> nth_error (Rot l) (Z.to_nat t) = Some (zn l (rr t)).
Proof.
  intros L Ht. unfold Rot. rewrite rr_explicit by exact Ht. unfold zlen in L.
  destruct (t + b + 1 <? n) eqn:E.
  - rewrite nth_error_app1 by (rewrite skipn_length; lia).
    rewrite nth_error_skipn. unfold znth.
    replace (Z.to_nat (b + 1) + Z.to_nat t)%nat with (Z.to_nat (t + b + 1)) by lia.
    apply nth_error_nth'. lia.
  - rewrite nth_error_app2 by (rewrite skipn_length; lia).
    rewrite skipn_length. rewrite nth_error_firstn by lia. unfold znth.
    replace (Z.to_nat t - (length l - Z.to_nat (b + 1)))%nat with (Z.to_nat (t + b + 1 - n)) by lia.
    apply nth_error_nth'. lia.
Qed.

Lemma Rot_zset l j x : zlen l = n -> 0 <= j < n -> Rot (zset l (rr j) x) = set_nth (Rot l) (Z.to_nat j) x.
Proof.
  intros L Hj. apply nth_error_ext. intro k.
  pose proof (rr_range j Hj) as Rj.
  rewrite nth_error_set_nth, Rot_length.
  destruct (Nat.lt_ge_cases k (Z.to_nat n)) as [Hk|Hk].
  - replace k with (Z.to_nat (Z.of_nat k)) at 1 3 by lia.
    rewrite !nth_error_Rot by (rewrite ?zlen_zset; lia).
    pose proof (rr_range (Z.of_nat k)) as Rk.
    rewrite znth_zset by lia.
    destruct (Nat.eqb_spec k (Z.to_nat j)) as [->|Hne].
    + replace (Z.of_nat (Z.to_nat j)) with j by lia. rewrite Z.eqb_refl.
      replace (Z.to_nat j <? length l)%nat with true by (unfold zlen in L; lia). reflexivity.
    + destruct (Z.eqb_spec (rr (Z.of_nat k)) (rr j)) as [E|E]; [|reflexivity].
      apply rr_inj in E; lia.
  - replace (k =? Z.to_nat j)%nat with false by lia.
    transitivity (@None Z); [|symmetry]; apply nth_error_None; rewrite Rot_length; unfold zset;
      rewrite ?set_nth_length; unfold zlen in L; lia.
Qed.

(* state of one `ox_move` loop after i steps: the kept genes of the first i rotated positions,
   packed at the front of the rotated list; everything behind them still original *)
Definition ox_inv (orig : list Z) (keep : Z -> bool) (i : nat) (s : list Z * Z) : Prop :=
  zlen (fst s) = n /\
  snd s = b + 1 + zlen (filter keep (firstn i (Rot orig))) /\
  Rot (fst s) = filter keep (firstn i (Rot orig)) ++ skipn (length (filter keep (firstn i (Rot orig)))) (Rot orig).

Lemma ox_inv_init orig keep : zlen orig = n -> ox_inv orig keep 0%nat (orig, b + 1).
Proof. intro L. split; [exact L|]. cbn. split; [unfold zlen; cbn; lia|reflexivity]. Qed.

Lemma wp_ox_move orig holes (i : nat) s :
  zlen orig = n -> (forall t, 0 <= t < n -> 0 <= zn orig t < n) -> zlen holes = n ->
  (i < Z.to_nat n)%nat ->
  ox_inv orig (fun v => negb (znth true holes v)) i s ->
  wp (ox_move n b (Z.of_nat i) holes s) (ox_inv orig (fun v => negb (znth true holes v)) (S i)).
Proof.
  intros Lo Ro Lh Hi. destruct s as [l k]. intros (L & Hk & HR). cbn [fst snd] in *.
  set (keep := fun v => negb (znth true holes v)) in *.
  set (R := Rot orig) in *. set (K := filter keep (firstn i R)) in *.
  assert (Hti : 0 <= Z.of_nat i < n) by lia.
  pose proof (rr_range _ Hti) as Rri.
  assert (LR : length R = Z.to_nat n) by (unfold R; rewrite Rot_length; unfold zlen in Lo; lia).
  assert (HK : (length K <= i)%nat).
  { unfold K. etransitivity; [apply filter_len_le|]. rewrite firstn_length. lia. }
  (* the read sees the original gene *)
  assert (NR : nth_error R i = Some (zn orig (rr (Z.of_nat i)))).
  { unfold R. replace i with (Z.to_nat (Z.of_nat i)) at 1 by lia. now apply nth_error_Rot. }
  assert (Ex : zn l (rr (Z.of_nat i)) = zn orig (rr (Z.of_nat i))).
  { assert (N1 : nth_error (Rot l) i = Some (zn l (rr (Z.of_nat i)))).
    { replace i with (Z.to_nat (Z.of_nat i)) at 1 by lia. now apply nth_error_Rot. }
    rewrite HR in N1. rewrite nth_error_app2 in N1 by lia. rewrite nth_error_skipn in N1.
    replace (length K + (i - length K))%nat with i in N1 by lia. congruence. }
  set (x := zn orig (rr (Z.of_nat i))) in *.
  assert (Rx : 0 <= x < n) by (apply Ro; exact Rri).
  assert (HS : firstn (S i) R = firstn i R ++ [x]) by (now apply firstn_S_nth).
  unfold ox_move. change ((Z.of_nat i + b + 1) mod n) with (rr (Z.of_nat i)).
  apply wp_bind. apply (wp_getZ 0); [lia|]. rewrite Ex.
  apply wp_bind. apply (wp_getZ true); [lia|].
  unfold ox_inv. cbn [fst snd]. fold R. rewrite HS, filter_app. fold K. cbn [filter]. fold (keep x).
  unfold keep at 1.
  destruct (negb (znth true holes x)) eqn:Ek.
  - apply wp_bind. apply (wp_getZ 0); [lia|]. rewrite Ex.
    assert (Hj : 0 <= zlen K < n) by (unfold zlen; lia).
    assert (Ekm : k mod n = rr (zlen K)) by (unfold rr; rewrite Hk; f_equal; lia).
    rewrite Ekm. pose proof (rr_range _ Hj) as Rrj.
    apply wp_bind. apply wp_setZ; [lia|].
    apply wp_ret. cbn [fst snd]. unfold keep. rewrite Ek.
    split; [rewrite zlen_zset; exact L|].
    split; [rewrite zlen_app; change (zlen [x]) with 1; lia|].
    rewrite Rot_zset by assumption. rewrite HR.
    replace (Z.to_nat (zlen K)) with (length K) by (unfold zlen; lia).
    rewrite set_nth_app_len.
    assert (NJ : nth_error R (length K) = Some (nth (length K) R 0)) by (apply nth_error_nth'; lia).
    rewrite (skipn_cons_nth _ _ _ NJ). cbn [set_nth].
    rewrite app_length. cbn [length]. rewrite <- app_assoc. cbn [app].
    now replace (length K + 1)%nat with (S (length K)) by lia.
  - apply wp_ret. cbn [fst snd]. unfold keep. rewrite Ek. rewrite app_nil_r.
    split; [exact L|]. split; [exact Hk|exact HR].
Qed.

End Rotation.

(* ------------------------------------------------------------------ the hole tables *)
Definition outside (a b i : Z) : Prop := i < a \/ i > b.

Definition holes_spec (n a b : Z) (other : list Z) (holes : list bool) : Prop :=
  zlen holes = n /\
  forall v, 0 <= v < n ->
    (znth true holes v = false <-> exists i, 0 <= i < n /\ outside a b i /\ zn other i = v).

Lemma wp_ox_holes n a b p1 p2 : zlen p1 = n -> zlen p2 = n ->
  (forall t, 0 <= t < n -> 0 <= zn p1 t < n) -> (forall t, 0 <= t < n -> 0 <= zn p2 t < n) ->
  wp (ox_holes n a b p1 p2) (fun hs => holes_spec n a b p2 (fst hs) /\ holes_spec n a b p1 (snd hs)).
Proof.
  intros L1 L2 R1 R2. unfold ox_holes.
  assert (Hn : n = Z.of_nat (Z.to_nat n)) by (pose proof (zlen_nonneg p1); lia).
  rewrite Hn at 1.
  set (spec := fun (k : Z) (other : list Z) (holes : list bool) =>
         zlen holes = n /\
         forall v, 0 <= v < n ->
           (znth true holes v = false <-> exists i, 0 <= i < k /\ outside a b i /\ zn other i = v)).
  apply (wp_for_each (fun (k : nat) (hs : list bool * list bool) =>
           spec (Z.of_nat k) p2 (fst hs) /\ spec (Z.of_nat k) p1 (snd hs))).
  - cbn [fst snd]. unfold spec. rewrite !zlen_repeat.
    split; (split; [lia|]); intros v Hv; rewrite znth_repeat_true;
      (split; [discriminate|intros (i & Hi & _); lia]).
  - intros k i [h1 h2] Hk [[Lh1 S1] [Lh2 S2]]. cbn [fst snd] in *.
    apply nth_error_py_range in Hk. destruct Hk as [-> Hk].
    assert (Hkn : 0 <= Z.of_nat k < n) by lia.
    pose proof (R1 _ Hkn) as Rv1. pose proof (R2 _ Hkn) as Rv2.
    destruct ((Z.of_nat k <? a) || (Z.of_nat k >? b)) eqn:E.
    + apply wp_bind. apply (wp_getZ 0); [lia|].
      apply wp_bind. apply wp_setZ; [lia|].
      apply wp_bind. apply (wp_getZ 0); [lia|].
      apply wp_bind. apply wp_setZ; [lia|].
      apply wp_ret. cbn [fst snd]. unfold spec. rewrite !zlen_zset.
      split; (split; [assumption|]); intros v Hv; rewrite znth_zset by lia.
      * destruct (Z.eqb_spec v (zn p2 (Z.of_nat k))) as [->|Hne].
        -- split; [intros _|reflexivity]. exists (Z.of_nat k). unfold outside. split; [lia|]. split; [lia|reflexivity].
        -- rewrite (S1 v Hv). split; intros (i & Hi & Ho & Ei).
           ++ exists i. split; [lia|auto].
           ++ exists i. split; [|auto]. destruct (Z.eq_dec i (Z.of_nat k)) as [->|]; [congruence|lia].
      * destruct (Z.eqb_spec v (zn p1 (Z.of_nat k))) as [->|Hne].
        -- split; [intros _|reflexivity]. exists (Z.of_nat k). unfold outside. split; [lia|]. split; [lia|reflexivity].
        -- rewrite (S2 v Hv). split; intros (i & Hi & Ho & Ei).
           ++ exists i. split; [lia|auto].
           ++ exists i. split; [|auto]. destruct (Z.eq_dec i (Z.of_nat k)) as [->|]; [congruence|lia].
    + apply wp_ret. cbn [fst snd]. unfold spec.
      split; (split; [assumption|]); intros v Hv.
      * rewrite (S1 v Hv). split; intros (i & Hi & Ho & Ei); exists i; (split; [|auto]); unfold outside in Ho; lia.
      * rewrite (S2 v Hv). split; intros (i & Hi & Ho & Ei); exists i; (split; [|auto]); unfold outside in Ho; lia.
  - intros [h1 h2] [[Lh1 S1] [Lh2 S2]]. cbn [fst snd] in *. rewrite py_range_length, <- Hn in *.
    split; split; assumption.
Qed.

(* ------------------------------------------------------------------ counting and the final algebra *)
Section Final.
Variables (n a b : Z).
Hypothesis Hab : 0 <= a <= b.
Hypothesis Hbn : b < n.

Let na := Z.to_nat a.
Let nb1 := Z.to_nat (b + 1).

Definition seg (l : list Z) : list Z := firstn (nb1 - na) (skipn na l).
Definition out (l : list Z) : list Z := firstn na l ++ skipn nb1 l.
Definition xrot (l : list Z) : list Z := skipn nb1 l ++ firstn na l.

Lemma Rot_split l : Rot b l = xrot l ++ seg l.
Proof.
  unfold Rot, xrot, seg. fold nb1. rewrite <- app_assoc. f_equal.
  replace nb1 with (na + (nb1 - na))%nat at 1 by (unfold na, nb1; lia).
  apply firstn_plus.
Qed.

Lemma xrot_length l : zlen l = n -> length (xrot l) = (Z.to_nat n - (nb1 - na))%nat.
Proof. intro L. unfold xrot. rewrite app_length, skipn_length, firstn_length. unfold zlen in L. unfold na, nb1. lia. Qed.

Lemma whole_split l : zlen l = n -> l = firstn na l ++ seg l ++ skipn nb1 l.
Proof. intro L. unfold seg. apply mid_split. unfold na, nb1. lia. Qed.

(* keep = "occurs in the other parent outside [a, b]" selects exactly the outside part of that parent *)
Lemma filter_keep_other other holes : is_perm other -> zlen other = n -> holes_spec n a b other holes ->
  filter (fun v => negb (znth true holes v)) other = out other.
Proof.
  intros P L [Lh S].
  destruct (is_perm_zn other P) as (R & I & _). rewrite L in *.
  assert (Kt : forall k, (k < length other)%nat -> outside a b (Z.of_nat k) ->
               negb (znth true holes (nth k other 0)) = true).
  { intros k Hk Ho. assert (Hkn : 0 <= Z.of_nat k < n) by (unfold zlen in L; lia).
    pose proof (R _ Hkn) as Rv. unfold znth in Rv. rewrite Nat2Z.id in Rv.
    apply negb_true_iff. apply (S _ Rv). exists (Z.of_nat k). split; [exact Hkn|]. split; [exact Ho|].
    unfold znth. now rewrite Nat2Z.id. }
  assert (Kf : forall k, (k < length other)%nat -> ~ outside a b (Z.of_nat k) ->
               negb (znth true holes (nth k other 0)) = false).
  { intros k Hk Ho. assert (Hkn : 0 <= Z.of_nat k < n) by (unfold zlen in L; lia).
    pose proof (R _ Hkn) as Rv. unfold znth in Rv. rewrite Nat2Z.id in Rv.
    apply negb_false_iff. destruct (znth true holes (nth k other 0)) eqn:E; [reflexivity|exfalso].
    apply (S _ Rv) in E. destruct E as (i & Hi & Hoi & Ei).
    assert (i = Z.of_nat k).
    { apply I; [exact Hi|exact Hkn|]. rewrite Ei. unfold znth. now rewrite Nat2Z.id. }
    subst i. exact (Ho Hoi). }
  rewrite (whole_split other L) at 1. rewrite !filter_app. unfold out.
  rewrite filter_true, filter_false, filter_true; [reflexivity| | |].
  - intros x Hx. rewrite <- (firstn_all (skipn nb1 other)) in Hx.
    apply In_seg_nth in Hx. destruct Hx as (k & Hk & Hkl & <-).
    apply Kt; [exact Hkl|]. unfold outside, nb1 in *. lia.
  - intros x Hx. unfold seg in Hx. apply In_seg_nth in Hx. destruct Hx as (k & Hk & Hkl & <-).
    apply Kf; [exact Hkl|]. unfold outside, na, nb1 in *. lia.
  - intros x Hx. change (firstn na other) with (firstn na (skipn 0 other)) in Hx.
    apply In_seg_nth in Hx. destruct Hx as (k & Hk & Hkl & <-).
    apply Kt; [exact Hkl|]. unfold outside, na in *. lia.
Qed.

Lemma out_length l : zlen l = n -> length (out l) = (Z.to_nat n - (nb1 - na))%nat.
Proof. intro L. unfold out. rewrite app_length, skipn_length, firstn_length. unfold zlen in L. unfold na, nb1. lia. Qed.

(* one child: L = own list after the main loop, Lo = the other list after its main loop *)
Lemma ox_child own other holes L Lo :
  is_perm own -> is_perm other -> zlen own = n -> zlen other = n ->
  holes_spec n a b other holes ->
  zlen L = n -> zlen Lo = n ->
  (let K := filter (fun v => negb (znth true holes v)) (Rot b own) in
   Rot b L = K ++ skipn (length K) (Rot b own)) ->
  seg Lo = seg other ->
  Permutation (firstn na L ++ seg Lo ++ skipn nb1 L) own.
Proof.
  intros Pown Poth Lown Loth HS LL LLo HR Hseg. cbv zeta in HR.
  set (keep := fun v => negb (znth true holes v)) in *.
  set (K := filter keep (Rot b own)) in *.
  assert (PK : Permutation K (out other)).
  { unfold K. rewrite <- (filter_keep_other other holes Poth Loth HS). fold keep.
    apply filter_perm. rewrite Rot_perm.
    apply is_perm_same_length; [exact Pown|exact Poth|]. unfold zlen in *. lia. }
  assert (LK : length K = length (xrot L)).
  { rewrite (Permutation_length PK), out_length, xrot_length by assumption. reflexivity. }
  rewrite Rot_split in HR. apply app_eq_len in HR; [|symmetry; exact LK].
  destruct HR as [HX _].
  rewrite Hseg.
  transitivity (seg other ++ xrot L); [unfold xrot; perm_solve|].
  rewrite HX, PK. unfold out.
  transitivity other.
  - rewrite (whole_split other Loth) at 4. perm_solve.
  - apply is_perm_same_length; [exact Poth|exact Pown|]. unfold zlen in *. lia.
Qed.

(* the segment [a, b] is never written by the main loop *)
Lemma ox_segment own other holes L :
  is_perm own -> is_perm other -> zlen own = n -> zlen other = n ->
  holes_spec n a b other holes -> zlen L = n ->
  (let K := filter (fun v => negb (znth true holes v)) (Rot b own) in
   Rot b L = K ++ skipn (length K) (Rot b own)) ->
  seg L = seg own.
Proof.
  intros Pown Poth Lown Loth HS LL HR. cbv zeta in HR.
  set (keep := fun v => negb (znth true holes v)) in *.
  set (K := filter keep (Rot b own)) in *.
  assert (PK : Permutation K (out other)).
  { unfold K. rewrite <- (filter_keep_other other holes Poth Loth HS). fold keep.
    apply filter_perm. rewrite Rot_perm.
    apply is_perm_same_length; [exact Pown|exact Poth|]. unfold zlen in *. lia. }
  assert (LK : length K = length (xrot L)).
  { rewrite (Permutation_length PK), out_length, xrot_length by assumption. reflexivity. }
  assert (LK' : length K = length (xrot own)).
  { rewrite LK, !xrot_length by assumption. reflexivity. }
  rewrite Rot_split in HR. apply app_eq_len in HR; [|symmetry; exact LK].
  destruct HR as [_ HSg]. rewrite HSg.
  rewrite (Rot_split own), LK'. rewrite skipn_app, Nat.sub_diag, skipn_all. reflexivity.
Qed.

End Final.

Lemma seg_eq_nth a b l l' i : seg a b l = seg a b l' ->
  (Z.to_nat a <= i < Z.to_nat (b + 1))%nat -> nth_error l i = nth_error l' i.
Proof.
  intros E Hi.
  assert (H : forall m, nth_error (seg a b m) (i - Z.to_nat a) = nth_error m i).
  { intro m. unfold seg. rewrite nth_error_firstn by lia. rewrite nth_error_skipn. f_equal. lia. }
  rewrite <- (H l), <- (H l'), E. reflexivity.
Qed.

(* ------------------------------------------------------------------ cxOrdered *)
(* both children are permutations of their parents' genes, and on the segment [a, b] each child
   holds the other parent's genes *)
Definition ordered_post (p1 p2 : list Z) (c : list Z * list Z) : Prop :=
  perm_post p1 p2 c /\
  exists a b : nat, (a < b < length p1)%nat /\
    forall i, (a <= i <= b)%nat -> swapped_at p1 p2 (fst c) (snd c) i.

Lemma wp_cxOrdered p1 p2 : is_perm p1 -> is_perm p2 -> length p1 = length p2 -> (2 <= length p1)%nat ->
  wp (cxOrdered p1 p2) (ordered_post p1 p2).
Proof.
  intros P1 P2 E Hn2. unfold cxOrdered.
  assert (L2 : zlen p2 = zlen p1) by (unfold zlen; lia).
  rewrite L2, Z.min_id. set (n := zlen p1) in *.
  assert (Hn : 2 <= n) by (unfold n, zlen; lia).
  destruct (is_perm_zn p1 P1) as (R1 & _ & _). destruct (is_perm_zn p2 P2) as (R2 & _ & _).
  rewrite L2 in R2. fold n in R1, R2.
  apply wp_bind. apply wp_sample2; [exact Hn|]. intros a0 b0 Ha0 Hb0 Hne.
  set (ab := if a0 >? b0 then (b0, a0) else (a0, b0)).
  assert (Hab : 0 <= fst ab < snd ab /\ snd ab < n) by (unfold ab; destruct (a0 >? b0) eqn:G; cbn [fst snd]; lia).
  destruct ab as [a b]. cbn [fst snd] in Hab.
  apply wp_bind. eapply wp_conseq; [apply (wp_ox_holes n a b p1 p2); auto|].
  intros [h1 h2] [HS1 HS2]. cbn [fst snd] in *.
  apply wp_bind.
  set (keep1 := fun v => negb (znth true h1 v)). set (keep2 := fun v => negb (znth true h2 v)).
  assert (Hnn : n = Z.of_nat (Z.to_nat n)) by lia.
  rewrite Hnn at 1.
  apply (wp_for_each (fun (i : nat) (s : (list Z * Z) * (list Z * Z)) =>
           ox_inv n b p1 keep1 i (fst s) /\ ox_inv n b p2 keep2 i (snd s))).
  - cbn [fst snd]. split; apply ox_inv_init; auto.
  - intros k i [s1 s2] Hk [I1 I2]. cbn [fst snd] in *.
    apply nth_error_py_range in Hk. destruct Hk as [-> Hk].
    assert (Hbb : 0 <= b < n) by lia.
    apply wp_bind. eapply wp_conseq.
    { apply (wp_ox_move n b Hbb p1 h1 k s1); [reflexivity|exact R1|apply HS1|lia|exact I1]. }
    intros s1' I1'.
    apply wp_bind. eapply wp_conseq.
    { apply (wp_ox_move n b Hbb p2 h2 k s2); [exact L2|exact R2|apply HS2|lia|exact I2]. }
    intros s2' I2'.
    apply wp_ret. split; assumption.
  - intros [[l1 k1] [l2 k2]] [I1 I2]. cbn [fst snd] in *.
    rewrite py_range_length in I1, I2.
    destruct I1 as (LL1 & _ & HR1). destruct I2 as (LL2 & _ & HR2). cbn [fst snd] in *.
    assert (F1 : firstn (Z.to_nat n) (Rot b p1) = Rot b p1) by (apply firstn_all2; unfold Rot; rewrite app_length, skipn_length, firstn_length; unfold n, zlen; lia).
    assert (F2 : firstn (Z.to_nat n) (Rot b p2) = Rot b p2) by (apply firstn_all2; unfold Rot; rewrite app_length, skipn_length, firstn_length; unfold n, zlen in *; lia).
    rewrite F1 in HR1. rewrite F2 in HR2.
    eapply wp_conseq; [apply (wp_swap_range l1 l2 a (b + 1)); lia|].
    intros [c1 c2] MS. pose proof MS as [Ec1 Ec2]. cbn [fst snd] in *.
    assert (Hab' : 0 <= a <= b) by lia. assert (Hbn : b < n) by lia.
    pose proof (ox_segment n a b Hab' Hbn p1 p2 h1 l1 P1 P2 eq_refl L2 HS1 LL1 HR1) as G1.
    pose proof (ox_segment n a b Hab' Hbn p2 p1 h2 l2 P2 P1 L2 eq_refl HS2 LL2 HR2) as G2.
    split.
    + subst c1 c2. split; cbn [fst snd].
      * apply (ox_child n a b Hab' Hbn p1 p2 h1 l1 l2); auto.
      * apply (ox_child n a b Hab' Hbn p2 p1 h2 l2 l1); auto.
    + exists (Z.to_nat a), (Z.to_nat b). split; [unfold n, zlen in *; lia|].
      intros i Hi. cbn [fst snd].
      assert (Hi' : (Z.to_nat a <= i < Z.to_nat (b + 1))%nat) by lia.
      destruct (mids_swapped_locus l1 l2 c1 c2 (Z.to_nat a) (Z.to_nat (b + 1))
                  ltac:(lia) ltac:(unfold zlen in *; lia) ltac:(unfold zlen in *; lia) MS i) as [Sw _].
      destruct (Sw Hi') as [S1 S2]. split.
      * rewrite S1. exact (seg_eq_nth a b l2 p2 i G2 Hi').
      * rewrite S2. exact (seg_eq_nth a b l1 p1 i G1 Hi').
Qed.
