(* C03 — composition of the loop theorems (Proofs/C03_Loops.v) with C02's theorems about varAnd /
   varOr (Proofs/C02_Variation.v), for the composed model Model/C03_Full.v.

   Method: a simulation.  `Rel h st` relates the heap of the composed model to a store of the loop
   model: the store is the heap read on the LIVE objects (those the loop ever had in a population or
   an offspring list; objects allocated and dropped inside varAnd / varOr are not in the store), and
   no two live individuals share a Fitness object.  One generation of the composed model is one
   generation of the loop model whose variation answer is what C02's var_and / var_or returned;
   the C02 theorems (parents untouched, offspring independent, valid => copy of a parent, count)
   are exactly what is needed to establish the variation contract off_ok / off_invalid_distinct
   and to re-establish Rel.  By induction over the generations the whole run is a run of the loop
   model satisfying run_ok, so the theorems of Proofs/C03_Loops.v apply, and their conclusions are
   read back on the heap (fview). *)
From Coq Require Import List ZArith Bool Arith Lia.
From DV Require Model.C02_Variation Proofs.C02_Variation Proofs.C02_Progress.
From DV Require Import Model.C03_Loops Proofs.C03_Loops Model.C03_Full.
Import ListNotations.
Local Open Scope nat_scope.

Module VP := DV.Proofs.C02_Variation.
Module VG := DV.Proofs.C02_Progress.

Section Compose.
Context {G F T : Type}.
Variable evaluate : G -> F.
Variable fle : F -> F -> bool.
Variables ltb leb : T -> T -> bool.
Variable add : T -> T -> T.
Variable one : T.
Variable mate_o : nat -> G * option F -> G * option F -> V.mate_ans G F.
Variable mut_o : nat -> G * option F -> V.mut_ans G F.

Notation heap := (V.heap G F).
Notation ind := (@ind G F).
Notation store := (@store G F).
Notation state := (@state G F).
Notation fstate := (@fstate G F T).
Notation ans := (@ans G F).
Notation fres := (@fres G F T).

(* ------------------------------------------------------------------ *)
(* reading the heap *)

Definition cont (h : heap) (u : nat) : ind := mkind (V.geno (V.ind_at h u)) (V.fit_of h u).

Lemma view_some (h : heap) u : u < V.ni h -> view h u = Some (cont h u).
Proof. intro H. unfold view. apply Nat.ltb_lt in H. rewrite H. reflexivity. Qed.

Lemma view_none (h : heap) u : V.ni h <= u -> view h u = None.
Proof. intro H. unfold view. destruct (Nat.ltb_spec u (V.ni h)); [lia|reflexivity]. Qed.

Lemma view_inv (h : heap) u i : view h u = Some i -> u < V.ni h /\ i = cont h u.
Proof.
  unfold view. destruct (Nat.ltb_spec u (V.ni h)); [|discriminate].
  intro E; inversion E; subst. auto.
Qed.

(* the loop model's read-only functions look at the store only at the members of their list *)
Lemma invalid_of_ext (st st' : store) l :
  (forall u, In u l -> st u = st' u) -> invalid_of st l = invalid_of st' l.
Proof.
  intro H. unfold invalid_of. apply filter_ext_in. intros u Hu. unfold is_invalid. rewrite (H u Hu). reflexivity.
Qed.

Lemma fits_of_ext (st st' : store) l :
  (forall u, In u l -> st u = st' u) -> fits_of st l = fits_of st' l.
Proof.
  induction l as [|u r IH]; intro H; [reflexivity|]. unfold fits_of in *. cbn.
  rewrite (H u (or_introl eq_refl)). f_equal. apply IH. intros v Hv. apply H. right; exact Hv.
Qed.

Lemma hof_update_ext best (st st' : store) l :
  (forall u, In u l -> st u = st' u) -> hof_update fle best st l = hof_update fle best st' l.
Proof. intro H. unfold hof_update. rewrite (fits_of_ext st st' l H). reflexivity. Qed.

Lemma snap_ext (st st' : store) l :
  (forall u, In u l -> st u = st' u) -> snap st l = snap st' l.
Proof. intro H. unfold snap. apply map_ext_in. intros u Hu. rewrite (H u Hu). reflexivity. Qed.

(* ------------------------------------------------------------------ *)
(* the simulation relation between heap and store *)

Record Rel (h : heap) (st : store) : Prop := mkRel {
  rel_wf : V.wf_heap h;
  (* a live object is allocated and the store holds what the heap holds *)
  rel_dom : forall u i, st u = Some i -> u < V.ni h /\ i = cont h u;
  (* live individuals own their Fitness object *)
  rel_inj : forall u v i j, st u = Some i -> st v = Some j ->
            V.fitref (V.ind_at h u) = V.fitref (V.ind_at h v) -> u = v }.

Definition live (st : store) (u : uid) : Prop := st u <> None.

Lemma live_some (st : store) u : live st u -> exists i, st u = Some i.
Proof. unfold live. destruct (st u) as [i|]; [eauto|congruence]. Qed.

Lemma rel_view h st u : Rel h st -> live st u -> st u = view h u.
Proof.
  intros R L. destruct (live_some st u L) as [i E]. destruct (rel_dom h st R u i E) as [H1 H2].
  rewrite E, (view_some h u H1), H2. reflexivity.
Qed.

Lemma rel_view_on h st l : Rel h st -> Forall (live st) l -> forall u, In u l -> view h u = st u.
Proof. intros R L u Hu. rewrite Forall_forall in L. symmetry. apply rel_view; auto. Qed.

(* ind.fitness.values = f on a live individual *)
Lemma rel_set_fit h st u i f :
  Rel h st -> st u = Some i -> Rel (set_fit h u f) (upd st u (mkind (geno i) (Some f))).
Proof.
  intros R E. destruct (rel_dom h st R u i E) as [Hu Hi].
  assert (Dom : forall v j, upd st u (mkind (geno i) (Some f)) v = Some j -> exists j', st v = Some j').
  { intros v j. unfold upd. destruct (Nat.eqb_spec v u) as [->|N]; eauto. }
  constructor.
  - exact (rel_wf h st R).
  - intros v j Hv. unfold upd in Hv. destruct (Nat.eqb_spec v u) as [->|N].
    + inversion Hv; subst j. split; [exact Hu|]. unfold cont, V.fit_of, set_fit; cbn.
      rewrite VP.upd_same. rewrite Hi. reflexivity.
    + destruct (rel_dom h st R v j Hv) as [H1 H2]. split; [exact H1|]. rewrite H2.
      unfold cont, V.fit_of, set_fit; cbn. rewrite VP.upd_other; [reflexivity|].
      intro Eq. apply N. eapply (rel_inj h st R); eassumption.
  - intros v w j k Hv Hw. destruct (Dom v j Hv) as [j' Hv']. destruct (Dom w k Hw) as [k' Hw'].
    cbn. apply (rel_inj h st R v w j' k' Hv' Hw').
Qed.

Lemma live_upd (st : store) u i v : live st v -> live (upd st u i) v.
Proof. unfold live, upd. destruct (Nat.eqb v u); congruence. Qed.

(* evaluation on the heap = evaluation in the store *)
Lemma eval_sim l : forall h st, Rel h st -> Forall (live st) l ->
  Rel (fst (eval_heap evaluate h l)) (fst (eval_list evaluate st l)) /\
  snd (eval_heap evaluate h l) = snd (eval_list evaluate st l).
Proof.
  induction l as [|u r IH]; intros h st R L; cbn [eval_heap eval_list fst snd]; [auto|].
  inversion L as [|? ? Lu Lr]; subst. destruct (live_some st u Lu) as [i E]. rewrite E.
  destruct (rel_dom h st R u i E) as [Hu Hi].
  apply Nat.ltb_lt in Hu. rewrite Hu.
  assert (Eg : V.geno (V.ind_at h u) = geno i) by (rewrite Hi; reflexivity).
  rewrite Eg.
  pose proof (rel_set_fit h st u i (evaluate (geno i)) R E) as R1.
  specialize (IH _ _ R1).
  destruct IH as [IH1 IH2].
  { eapply Forall_impl; [|exact Lr]. intros v Hv. apply live_upd. exact Hv. }
  destruct (eval_heap evaluate (set_fit h u (evaluate (geno i))) r) as [h'' log1].
  destruct (eval_list evaluate (upd st u (mkind (geno i) (Some (evaluate (geno i))))) r) as [st'' log2].
  cbn in *. split; [exact IH1|]. rewrite IH2. reflexivity.
Qed.

Lemma eval_list_live (st : store) l u : live st u -> live (fst (eval_list evaluate st l)) u.
Proof.
  unfold live. intros H N. pose proof (eval_list_same_geno evaluate l st u) as S.
  rewrite N in S. destruct (st u); [discriminate|congruence].
Qed.

(* ------------------------------------------------------------------ *)
(* states *)

Record SRel (fs : fstate) (cs : state) : Prop := mkSRel {
  sr_rel : Rel (f_hp fs) (s_st cs);
  sr_pop : f_pop fs = s_pop cs;
  sr_calls : f_calls fs = s_calls cs;
  sr_log : f_log fs = s_log cs;
  sr_shown : f_shown fs = s_shown cs;
  sr_best : f_best fs = s_best cs;
  sr_live : Forall (live (s_st cs)) (s_pop cs) }.

(* the tail of a generation *)
Lemma ffinish_sim gen (fs : fstate) (cs : state) h1 st1 d1 k1 off newpop :
  f_calls fs = s_calls cs -> f_log fs = s_log cs -> f_shown fs = s_shown cs -> f_best fs = s_best cs ->
  Rel h1 st1 -> Forall (live st1) off -> Forall (live st1) newpop ->
  SRel (ffinish evaluate fle gen fs h1 d1 k1 off newpop) (finish_gen evaluate fle gen cs st1 off newpop).
Proof.
  intros Ec El Es Eb R Loff Lnew. unfold ffinish, finish_gen.
  rewrite (invalid_of_ext (view h1) st1 off (rel_view_on h1 st1 off R Loff)).
  assert (Linv : Forall (live st1) (invalid_of st1 off)).
  { apply Forall_forall. intros u Hu. rewrite Forall_forall in Loff. apply Loff.
    apply (invalid_of_incl st1 off). exact Hu. }
  destruct (eval_sim (invalid_of st1 off) h1 st1 R Linv) as [R2 Elog].
  pose proof (fun u => eval_list_live st1 (invalid_of st1 off) u) as Lv.
  destruct (eval_heap evaluate h1 (invalid_of st1 off)) as [h2 log1].
  destruct (eval_list evaluate st1 (invalid_of st1 off)) as [st2 log2].
  cbn in R2, Elog, Lv. subst log2.
  assert (Loff2 : Forall (live st2) off) by (eapply Forall_impl; [|exact Loff]; intros; apply Lv; assumption).
  assert (Lnew2 : Forall (live st2) newpop) by (eapply Forall_impl; [|exact Lnew]; intros; apply Lv; assumption).
  rewrite (hof_update_ext (f_best fs) (view h2) st2 off (rel_view_on h2 st2 off R2 Loff2)).
  rewrite (snap_ext (view h2) st2 newpop (rel_view_on h2 st2 newpop R2 Lnew2)).
  rewrite Ec, El, Es, Eb.
  constructor; cbn; try reflexivity; assumption.
Qed.

(* ------------------------------------------------------------------ *)
(* what the C02 theorems say about one call of varAnd / varOr, in one record *)

Definition contents (h : heap) (off : list nat) : list (uid * ind) := map (fun o => (o, cont h o)) off.

Record var_post (h0 : heap) (inp : list nat) (h : heap) (lg : list V.event) (off : list nat) : Prop := mk_var_post {
  vp_wf : V.wf_heap h;
  vp_ni : V.ni h0 <= V.ni h;
  vp_unt : V.untouched h0 inp h;                 (* C02 parents_untouched *)
  vp_ind : V.independent h0 h off;               (* C02 offspring_independent *)
  vp_varied : V.varied_invalid h lg off;         (* C02 varied_invalid *)
  vp_valid : forall o f, In o off -> V.fit_of h o = Some f ->   (* C02 valid_is_parent_copy *)
     ~ V.varied lg o /\
     exists p, In p inp /\ V.geno (V.ind_at h o) = V.geno (V.ind_at h0 p) /\ V.fit_of h0 p = Some f }.

Lemma shape_wf (h0 h : heap) : V.wf_heap h0 -> VP.shape G F h0 h -> V.wf_heap h.
Proof.
  intros W S u Hu. destruct (Nat.lt_ge_cases u (V.ni h0)) as [L|L].
  - rewrite (VP.sh_old_ind G F h0 h S u L). pose proof (W u L). pose proof (VP.sh_nf G F h0 h S). lia.
  - apply (VP.sh_new_ref G F h0 h S). lia.
Qed.

Lemma var_and_post (h0 : heap) inp cxpb mutpb d k0 s' off :
  (forall k x y, V.ret_distinct (V.ma_r1 (mate_o k x y)) (V.ma_r2 (mate_o k x y))) ->
  V.wf_heap h0 -> V.pop_ok h0 inp ->
  V.var_and ltb (mate_at mate_o k0) (mut_at mut_o k0) cxpb mutpb (V.start h0 d) inp = (s', inr off) ->
  var_post h0 inp (V.hp s') (V.lg s') off /\ length off = length inp.
Proof.
  intros Hd W P H.
  assert (D : forall k x y, V.ret_distinct (V.ma_r1 (mate_at mate_o k0 k x y)) (V.ma_r2 (mate_at mate_o k0 k x y)))
    by (intros k x y; apply Hd).
  destruct (VP.var_and_inv G F T ltb _ _ h0 inp W P D cxpb mutpb d s' _ H) as [Sh _].
  split.
  - constructor.
    + exact (shape_wf h0 _ W Sh).
    + exact (VP.sh_ni G F h0 _ Sh).
    + exact (VP.and_parents_untouched G F T ltb _ _ h0 inp W P D cxpb mutpb d s' _ H).
    + exact (VP.and_offspring_independent G F T ltb _ _ h0 inp W P D cxpb mutpb d s' _ H off eq_refl).
    + exact (VP.and_varied_invalid G F T ltb _ _ h0 inp W P D cxpb mutpb d s' _ H off eq_refl).
    + intros o f Ho Hf.
      destruct (VP.and_valid_is_parent_copy G F T ltb _ _ h0 inp W P D cxpb mutpb d s' _ H off eq_refl o f Ho Hf)
        as [Nv [p [Hp [_ [Hg Hf0]]]]].
      split; [exact Nv|]. exists p. auto.
  - exact (VP.and_offspring_count G F T ltb _ _ h0 inp W P D cxpb mutpb d s' _ H off eq_refl).
Qed.

Lemma var_or_post (h0 : heap) inp lambda_ cxpb mutpb d k0 s' off :
  V.wf_heap h0 -> V.pop_ok h0 inp ->
  V.var_or ltb leb add one (mate_at mate_o k0) (mut_at mut_o k0) lambda_ cxpb mutpb (V.start h0 d) inp = (s', inr off) ->
  var_post h0 inp (V.hp s') (V.lg s') off /\ length off = Z.to_nat lambda_.
Proof.
  intros W P H.
  destruct (VP.var_or_inv G F T ltb leb add one _ _ h0 inp W P lambda_ cxpb mutpb d s' _ H) as [Sh _].
  split.
  - constructor.
    + exact (shape_wf h0 _ W Sh).
    + exact (VP.sh_ni G F h0 _ Sh).
    + exact (VP.or_parents_untouched G F T ltb _ _ h0 inp W P leb add one lambda_ cxpb mutpb d s' _ H).
    + exact (VP.or_offspring_independent G F T ltb _ _ h0 inp W P leb add one lambda_ cxpb mutpb d s' _ H off eq_refl).
    + exact (VP.or_varied_invalid G F T ltb _ _ h0 inp W P leb add one lambda_ cxpb mutpb d s' _ H off eq_refl).
    + intros o f Ho Hf.
      destruct (VP.or_valid_is_parent_copy G F T ltb _ _ h0 inp W P leb add one lambda_ cxpb mutpb d s' _ H off eq_refl o f Ho Hf)
        as [Nv [p [Hp [_ [Hg Hf0]]]]].
      split; [exact Nv|]. exists p. auto.
  - exact (VP.or_offspring_count G F T ltb _ _ h0 inp W P leb add one lambda_ cxpb mutpb d s' _ H off eq_refl).
Qed.

Lemma contents_fst h off : map fst (contents h off) = off.
Proof. unfold contents. rewrite map_map. cbn. apply map_id. Qed.

Lemma contents_in h off u i : In (u, i) (contents h off) <-> In u off /\ i = cont h u.
Proof.
  unfold contents. rewrite in_map_iff. split.
  - intros [o [E Ho]]. inversion E; subst. auto.
  - intros [Ho ->]. exists u. auto.
Qed.

Lemma NoDup_map_fst_filter {B} (f : uid * B -> bool) (l : list (uid * B)) :
  NoDup (map fst l) -> NoDup (map fst (filter f l)).
Proof.
  induction l as [|x r IH]; intro N; cbn; [constructor|].
  cbn in N. inversion N as [|? ? N1 N2]; subst. destruct (f x); cbn; [|auto].
  constructor; [|auto]. intro I. apply N1. apply in_map_iff in I. destruct I as [y [E I]].
  apply filter_In in I. apply in_map_iff. exists y. split; [exact E|exact (proj1 I)].
Qed.

Lemma untouched_cont (h0 h : heap) inp u :
  V.wf_heap h0 -> V.untouched h0 inp h -> u < V.ni h0 -> cont h u = cont h0 u.
Proof.
  intros W [U1 [U2 _]] Hu. unfold cont, V.fit_of. rewrite (U1 u Hu). rewrite (U2 _ (W u Hu)). reflexivity.
Qed.

(* the C02 post-condition establishes the variation contract of the loop model and re-establishes Rel *)
Lemma var_post_sim (h0 : heap) (st : store) inp (h : heap) lg off :
  Rel h0 st -> Forall (live st) inp -> var_post h0 inp h lg off ->
  off_ok st inp (contents h off) /\ off_invalid_distinct (contents h off) /\
  Rel h (add_objs st (contents h off)) /\
  Forall (live (add_objs st (contents h off))) off /\
  (forall u, live st u -> live (add_objs st (contents h off)) u).
Proof.
  intros R Linp [Wf Ni Unt [Nd [Hfresh [Hold Hnew]]] _ Hvalid].
  assert (Fresh : forall o, In o off -> st o = None).
  { intros o Ho. destruct (st o) as [i|] eqn:E; [|reflexivity].
    destruct (rel_dom h0 st R o i E) as [L _]. destruct (Hfresh o Ho) as [[L' _] _]. lia. }
  assert (O : off_ok st inp (contents h off)).
  { constructor.
    - intros u i I. apply contents_in in I. left. apply Fresh. exact (proj1 I).
    - intros u i i' I I'. apply contents_in in I. apply contents_in in I'. destruct I as [_ ->], I' as [_ ->]. reflexivity.
    - intros u i f I Hf. apply contents_in in I. destruct I as [Hu ->]. cbn in Hf.
      destruct (Hvalid u f Hu Hf) as [_ [p [Hp [Hg Hf0]]]].
      rewrite Forall_forall in Linp. destruct (live_some st p (Linp p Hp)) as [ip Ep].
      destruct (rel_dom h0 st R p ip Ep) as [_ ->].
      exists p, (cont h0 p). cbn. auto. }
  assert (Look : forall u, In u off -> add_objs st (contents h off) u = Some (cont h u)).
  { intros u Hu. eapply off_ok_lookup; [exact O|]. apply contents_in. auto. }
  assert (Cases : forall u i, add_objs st (contents h off) u = Some i ->
            (In u off /\ i = cont h u) \/ (~ In u off /\ st u = Some i)).
  { intros u i E. destruct (in_dec Nat.eq_dec u off) as [I|N].
    - left. rewrite (Look u I) in E. inversion E. auto.
    - right. rewrite add_objs_notin in E by (rewrite contents_fst; exact N). auto. }
  split; [exact O|]. split.
  { unfold off_invalid_distinct. apply NoDup_map_fst_filter. rewrite contents_fst. exact Nd. }
  split; [|split].
  - constructor.
    + exact Wf.
    + intros u i E. destruct (Cases u i E) as [[I ->]|[N E']].
      * destruct (Hfresh u I) as [[_ L] _]. auto.
      * destruct (rel_dom h0 st R u i E') as [L ->]. split; [lia|].
        symmetry. eapply untouched_cont; [exact (rel_wf h0 st R)|exact Unt|exact L].
    + intros u v i j Eu Ev Eq.
      destruct Unt as [U1 _].
      destruct (Cases u i Eu) as [[Iu _]|[Nu Eu']], (Cases v j Ev) as [[Iv _]|[Nv Ev']].
      * destruct (Nat.eq_dec u v) as [|D]; [assumption|]. exfalso.
        apply (Hnew u v (V.LFit (V.fitref (V.ind_at h u))) Iu Iv D); unfold V.reach.
        -- right; left; reflexivity.
        -- right; left. rewrite Eq. reflexivity.
      * exfalso. destruct (rel_dom h0 st R v j Ev') as [Lv _].
        apply (Hold u v (V.LFit (V.fitref (V.ind_at h u))) Iu Lv); unfold V.reach.
        -- right; left; reflexivity.
        -- right; left. rewrite Eq. reflexivity.
      * exfalso. destruct (rel_dom h0 st R u i Eu') as [Lu _].
        apply (Hold v u (V.LFit (V.fitref (V.ind_at h v))) Iv Lu); unfold V.reach.
        -- right; left; reflexivity.
        -- right; left. rewrite Eq. reflexivity.
      * destruct (rel_dom h0 st R u i Eu') as [Lu _]. destruct (rel_dom h0 st R v j Ev') as [Lv _].
        rewrite (U1 u Lu), (U1 v Lv) in Eq. eapply (rel_inj h0 st R); eassumption.
  - apply Forall_forall. intros u Hu. unfold live. rewrite (Look u Hu). discriminate.
  - intros u Lu. destruct (live_some st u Lu) as [i E]. unfold live.
    rewrite (off_ok_extends st inp _ O u i E). discriminate.
Qed.

(* ------------------------------------------------------------------ *)
(* one generation of the composed model is one generation of the loop model *)

(* the selection contract: the requested number of positions, all inside the argument list (of length n) *)
Definition sel_in (n k : nat) (sel : list nat) : Prop := length sel = k /\ Forall (fun i => i < n) sel.

Lemma pop_ok_live h st l : Rel h st -> Forall (live st) l -> V.pop_ok h l.
Proof.
  intros R L. unfold V.pop_ok. eapply Forall_impl; [|exact L]. intros u Lu.
  destruct (live_some st u Lu) as [i E]. exact (proj1 (rel_dom h st R u i E)).
Qed.

Lemma live_incl (st : store) l l' : incl l l' -> Forall (live st) l' -> Forall (live st) l.
Proof. intros I Fl. apply Forall_forall. intros u Hu. rewrite Forall_forall in Fl. auto. Qed.

(* the answer of the loop model's variation oracle that a call of var_and / var_or amounts to *)
Definition var_ans (sel : list nat) (s1 : V.st G F T) (off : list nat) : ans :=
  mkans sel (contents (V.hp s1) off).

Section Distinct.
(* the hypothesis C02 needs for varAnd: toolbox.mate returns two different objects *)
Hypothesis mate_distinct : forall k x y, V.ret_distinct (V.ma_r1 (mate_o k x y)) (V.ma_r2 (mate_o k x y)).

Lemma fstep_simple_sim cxpb mutpb gen (fs : fstate) (cs : state) sel fs' :
  SRel fs cs -> sel_in (length (s_pop cs)) (length (s_pop cs)) sel ->
  fstep_simple evaluate fle ltb mate_o mut_o cxpb mutpb gen fs sel = FOk fs' ->
  exists s1 off,
    call_var_and ltb mate_o mut_o cxpb mutpb fs (select_by (f_pop fs) sel) = (s1, inr off) /\
    var_post (f_hp fs) (select_by (f_pop fs) sel) (V.hp s1) (V.lg s1) off /\
    length off = length (f_pop fs) /\
    ans_ok_simple cs (var_ans sel s1 off) /\ off_invalid_distinct (a_off (var_ans sel s1 off)) /\
    SRel fs' (step_simple evaluate fle gen cs (var_ans sel s1 off)).
Proof.
  intros S [Sl Sr] H. pose proof S as [R Ep Ec El Es Eb Lv].
  unfold fstep_simple in H.
  destruct (call_var_and ltb mate_o mut_o cxpb mutpb fs (select_by (f_pop fs) sel)) as [s1 [e0|off]] eqn:Ev;
    [discriminate|].
  inversion H; subst fs'; clear H. exists s1, off. split; [reflexivity|].
  unfold call_var_and in Ev. rewrite Ep in *.
  assert (Lsel : Forall (live (s_st cs)) (select_by (s_pop cs) sel))
    by (eapply live_incl; [apply select_by_incl; exact Sr|exact Lv]).
  destruct (var_and_post _ _ _ _ _ _ _ _ mate_distinct (rel_wf _ _ R) (pop_ok_live _ _ _ R Lsel) Ev) as [VPo Len].
  destruct (var_post_sim _ _ _ _ _ _ R Lsel VPo) as [O [D [R' [Loff Lext]]]].
  split; [exact VPo|]. split; [rewrite Len, select_by_length; exact Sl|].
  split; [|split; [exact D|]].
  - split; [split; assumption|]. split; [exact O|]. cbn. unfold contents.
    rewrite map_length, Len, select_by_length. reflexivity.
  - unfold step_simple, var_ans. cbn [a_off]. rewrite contents_fst. apply ffinish_sim; assumption.
Qed.

End Distinct.

Lemma fstep_plus_sim mu lambda_ cxpb mutpb gen (fs : fstate) (cs : state) sel fs' :
  SRel fs cs -> sel_in (length (s_pop cs) + Z.to_nat lambda_) mu sel ->
  fstep_plus evaluate fle ltb leb add one mate_o mut_o lambda_ cxpb mutpb gen fs sel = FOk fs' ->
  exists s1 off,
    call_var_or ltb leb add one mate_o mut_o lambda_ cxpb mutpb fs (f_pop fs) = (s1, inr off) /\
    var_post (f_hp fs) (f_pop fs) (V.hp s1) (V.lg s1) off /\ length off = Z.to_nat lambda_ /\
    ans_ok_plus mu (Z.to_nat lambda_) cs (var_ans sel s1 off) /\
    off_invalid_distinct (a_off (var_ans sel s1 off)) /\
    SRel fs' (step_plus evaluate fle gen cs (var_ans sel s1 off)).
Proof.
  intros S [Sl Sr] H. pose proof S as [R Ep Ec El Es Eb Lv].
  unfold fstep_plus in H.
  destruct (call_var_or ltb leb add one mate_o mut_o lambda_ cxpb mutpb fs (f_pop fs)) as [s1 [e0|off]] eqn:Ev;
    [discriminate|].
  inversion H; subst fs'; clear H. exists s1, off. split; [reflexivity|].
  unfold call_var_or in Ev. rewrite Ep in *.
  destruct (var_or_post _ _ _ _ _ _ _ _ _ (rel_wf _ _ R) (pop_ok_live _ _ _ R Lv) Ev) as [VPo Len].
  destruct (var_post_sim _ _ _ _ _ _ R Lv VPo) as [O [D [R' [Loff Lext]]]].
  assert (Sr' : Forall (fun i => i < length (s_pop cs ++ off)) sel).
  { assert (E : length (s_pop cs ++ off) = length (s_pop cs) + Z.to_nat lambda_) by (rewrite app_length; f_equal; exact Len).
    rewrite E. exact Sr. }
  split; [exact VPo|]. split; [exact Len|]. split; [|split; [exact D|]].
  - split; [exact O|]. cbn. split; [unfold contents; rewrite map_length; exact Len|].
    rewrite contents_fst. split; assumption.
  - unfold step_plus, var_ans. cbn [a_off a_sel]. rewrite contents_fst. apply ffinish_sim; try assumption.
    eapply live_incl; [apply select_by_incl; exact Sr'|].
    apply Forall_app. split; [|exact Loff]. eapply Forall_impl; [|exact Lv]. exact Lext.
Qed.

Lemma fstep_comma_sim mu lambda_ cxpb mutpb gen (fs : fstate) (cs : state) sel fs' :
  SRel fs cs -> sel_in (Z.to_nat lambda_) mu sel ->
  fstep_comma evaluate fle ltb leb add one mate_o mut_o lambda_ cxpb mutpb gen fs sel = FOk fs' ->
  exists s1 off,
    call_var_or ltb leb add one mate_o mut_o lambda_ cxpb mutpb fs (f_pop fs) = (s1, inr off) /\
    var_post (f_hp fs) (f_pop fs) (V.hp s1) (V.lg s1) off /\ length off = Z.to_nat lambda_ /\
    ans_ok_comma mu (Z.to_nat lambda_) cs (var_ans sel s1 off) /\
    off_invalid_distinct (a_off (var_ans sel s1 off)) /\
    SRel fs' (step_comma evaluate fle gen cs (var_ans sel s1 off)).
Proof.
  intros S [Sl Sr] H. pose proof S as [R Ep Ec El Es Eb Lv].
  unfold fstep_comma in H.
  destruct (call_var_or ltb leb add one mate_o mut_o lambda_ cxpb mutpb fs (f_pop fs)) as [s1 [e0|off]] eqn:Ev;
    [discriminate|].
  inversion H; subst fs'; clear H. exists s1, off. split; [reflexivity|].
  unfold call_var_or in Ev. rewrite Ep in *.
  destruct (var_or_post _ _ _ _ _ _ _ _ _ (rel_wf _ _ R) (pop_ok_live _ _ _ R Lv) Ev) as [VPo Len].
  destruct (var_post_sim _ _ _ _ _ _ R Lv VPo) as [O [D [R' [Loff Lext]]]].
  assert (Sr' : Forall (fun i => i < length off) sel).
  { rewrite <- Len in Sr. exact Sr. }
  split; [exact VPo|]. split; [exact Len|]. split; [|split; [exact D|]].
  - split; [exact O|]. cbn. split; [unfold contents; rewrite map_length; exact Len|].
    rewrite contents_fst. split; assumption.
  - unfold step_comma, var_ans. cbn [a_off a_sel]. rewrite contents_fst. apply ffinish_sim; try assumption.
    eapply live_incl; [apply select_by_incl; exact Sr'|exact Loff].
Qed.

(* tools.selBest reads the fitnesses of the members of its argument only *)
Lemma insert_desc_ext (st st' : store) x l :
  (forall y, In y (x :: l) -> st y = st' y) -> insert_desc fle st x l = insert_desc fle st' x l.
Proof.
  induction l as [|y r IH]; intro H; [reflexivity|]. cbn.
  unfold fit_lt. rewrite (H x (or_introl eq_refl)), (H y (or_intror (or_introl eq_refl))).
  rewrite IH; [reflexivity|]. intros z [Hz|Hz]; apply H; [left; exact Hz|right; right; exact Hz].
Qed.

Lemma insert_desc_incl (st : store) x l z : In z (insert_desc fle st x l) -> z = x \/ In z l.
Proof.
  induction l as [|y r IH]; cbn.
  - intros [E|[]]. left; auto.
  - destruct (fit_lt fle st x y); cbn.
    + intros [E|Hz]; [right; left; exact E|]. destruct (IH Hz) as [E|Hr]; [left; exact E|right; right; exact Hr].
    + intros [E|[E|Hz]]; [left; auto|right; left; exact E|right; right; exact Hz].
Qed.

Lemma sort_desc_sub (st : store) l z : In z (sort_desc fle st l) -> In z l.
Proof.
  induction l as [|x r IH]; [auto|]. intro H.
  change (In z (insert_desc fle st x (sort_desc fle st r))) in H. apply insert_desc_incl in H.
  destruct H as [E|H]; [left; auto|right; apply IH; exact H].
Qed.

Lemma sort_desc_ext (st st' : store) l :
  (forall u, In u l -> st u = st' u) -> sort_desc fle st l = sort_desc fle st' l.
Proof.
  induction l as [|x r IH]; intro H; [reflexivity|].
  change (insert_desc fle st x (sort_desc fle st r) = insert_desc fle st' x (sort_desc fle st' r)).
  rewrite <- IH by (intros u Hu; apply H; right; exact Hu).
  apply insert_desc_ext. intros y [E|Hy]; apply H; [left; exact E|right; eapply sort_desc_sub; exact Hy].
Qed.

Lemma sel_best_ext (st st' : store) l k :
  (forall u, In u l -> st u = st' u) -> sel_best fle st l k = sel_best fle st' l k.
Proof. intro H. unfold sel_best. rewrite (sort_desc_ext st st' l H). reflexivity. Qed.

Lemma sel_best_sub (st : store) l k : incl (sel_best fle st l k) l.
Proof.
  intros z Hz. unfold sel_best in Hz. apply (sort_desc_sub st l z).
  revert Hz. generalize (sort_desc fle st l). intro m. revert k. induction m as [|a m IH]; intros [|k]; cbn; try (intro H0; exact (False_ind _ H0)).
  intros [E|H]; [left; exact E|right; eapply IH; exact H].
Qed.

Lemma fstep_plus_best_sim mu lambda_ cxpb mutpb gen (fs : fstate) (cs : state) x fs' :
  SRel fs cs ->
  fstep_plus_best evaluate fle ltb leb add one mate_o mut_o mu lambda_ cxpb mutpb gen fs x = FOk fs' ->
  exists s1 off,
    call_var_or ltb leb add one mate_o mut_o lambda_ cxpb mutpb fs (f_pop fs) = (s1, inr off) /\
    off_ok (s_st cs) (s_pop cs) (contents (V.hp s1) off) /\ length off = Z.to_nat lambda_ /\
    SRel fs' (step_plus_best evaluate fle mu gen cs (var_ans [] s1 off)).
Proof.
  intros S H. pose proof S as [R Ep Ec El Es Eb Lv].
  unfold fstep_plus_best in H.
  destruct (call_var_or ltb leb add one mate_o mut_o lambda_ cxpb mutpb fs (f_pop fs)) as [s1 [e0|off]] eqn:Ev;
    [discriminate|].
  inversion H; subst fs'; clear H. exists s1, off. split; [reflexivity|].
  unfold call_var_or in Ev. rewrite Ep in *.
  destruct (var_or_post _ _ _ _ _ _ _ _ _ (rel_wf _ _ R) (pop_ok_live _ _ _ R Lv) Ev) as [VPo Len].
  destruct (var_post_sim _ _ _ _ _ _ R Lv VPo) as [O [D [R' [Loff Lext]]]].
  split; [exact O|]. split; [exact Len|].
  unfold step_plus_best, var_ans. cbn [a_off a_sel]. rewrite contents_fst.
  set (st1 := add_objs (s_st cs) (contents (V.hp s1) off)) in *.
  assert (Lall : Forall (live st1) (s_pop cs ++ off)).
  { apply Forall_app. split; [|exact Loff]. eapply Forall_impl; [|exact Lv]. exact Lext. }
  rewrite (invalid_of_ext (view (V.hp s1)) st1 off (rel_view_on _ _ off R' Loff)).
  assert (Linv : Forall (live st1) (invalid_of st1 off)).
  { eapply live_incl; [apply invalid_of_incl|exact Loff]. }
  destruct (eval_sim (invalid_of st1 off) _ _ R' Linv) as [R2 _].
  assert (Lall2 : Forall (live (fst (eval_list evaluate st1 (invalid_of st1 off)))) (s_pop cs ++ off)).
  { eapply Forall_impl; [|exact Lall]. intros u Hu. apply eval_list_live. exact Hu. }
  rewrite (sel_best_ext _ _ (s_pop cs ++ off) mu (rel_view_on _ _ _ R2 Lall2)).
  apply ffinish_sim; try assumption.
  eapply live_incl; [apply sel_best_sub|exact Lall].
Qed.

Lemma insert_desc_len (st : store) x l : length (insert_desc fle st x l) = S (length l).
Proof. induction l as [|y r IH]; cbn; [reflexivity|]. destruct (fit_lt fle st x y); cbn; [rewrite IH|]; reflexivity. Qed.

Lemma sort_desc_len (st : store) l : length (sort_desc fle st l) = length l.
Proof.
  induction l as [|x r IH]; [reflexivity|].
  change (length (insert_desc fle st x (sort_desc fle st r)) = S (length r)). rewrite insert_desc_len, IH. reflexivity.
Qed.

Lemma ffinish_pop gen (fs : fstate) h1 (d1 : list (V.draw T)) k1 off newpop :
  f_pop (ffinish evaluate fle gen fs h1 d1 k1 off newpop) = newpop.
Proof. unfold ffinish. destruct (eval_heap evaluate h1 (invalid_of (view h1) off)). reflexivity. Qed.

(* a generation with tools.selBest is a generation of eaMuPlusLambda for some selection answer *)
Lemma fstep_plus_best_is_plus mu lambda_ cxpb mutpb gen (fs : fstate) x fs' :
  fstep_plus_best evaluate fle ltb leb add one mate_o mut_o mu lambda_ cxpb mutpb gen fs x = FOk fs' ->
  exists sel, fstep_plus evaluate fle ltb leb add one mate_o mut_o lambda_ cxpb mutpb gen fs sel = FOk fs' /\
              length sel = length (f_pop fs') /\ length (f_pop fs') <= mu /\
              (exists s1 off, call_var_or ltb leb add one mate_o mut_o lambda_ cxpb mutpb fs (f_pop fs) = (s1, inr off) /\
                 Forall (fun i => i < length (f_pop fs) + length off) sel /\
                 length (f_pop fs') = Nat.min mu (length (f_pop fs) + length off)).
Proof.
  unfold fstep_plus_best, fstep_plus.
  destruct (call_var_or ltb leb add one mate_o mut_o lambda_ cxpb mutpb fs (f_pop fs)) as [s1 [e0|off]] eqn:Ev;
    [discriminate|].
  set (h2 := fst (eval_heap evaluate (V.hp s1) (invalid_of (view (V.hp s1)) off))).
  intro H; inversion H; subst fs'; clear H.
  destruct (incl_select_by (f_pop fs ++ off) (sel_best fle (view h2) (f_pop fs ++ off) mu) (sel_best_sub _ _ _))
    as [idxs [E Fi]].
  exists idxs. rewrite <- E.
  assert (Lb : length (sel_best fle (view h2) (f_pop fs ++ off) mu) = Nat.min mu (length (f_pop fs) + length off)).
  { unfold sel_best. rewrite firstn_length, sort_desc_len, app_length. reflexivity. }
  split; [reflexivity|]. rewrite ffinish_pop. split; [rewrite E; symmetry; apply select_by_length|].
  split; [rewrite Lb; apply Nat.le_min_l|].
  exists s1, off. split; [reflexivity|]. split; [rewrite <- app_length; exact Fi|exact Lb].
Qed.

(* ------------------------------------------------------------------ *)
(* runs of the composed model *)

Lemma frun_app {A} (step : nat -> fstate -> A -> fres) l1 : forall l2 gen (s e : fstate),
  frun step gen s (l1 ++ l2) = FOk e ->
  exists b, frun step gen s l1 = FOk b /\ frun step (gen + length l1) b l2 = FOk e.
Proof.
  induction l1 as [|a r IH]; intros l2 gen s e H; cbn in *.
  - exists s. rewrite Nat.add_0_r. auto.
  - destruct (step gen s a) as [s1|] eqn:E; [|discriminate].
    destruct (IH _ _ _ _ H) as [b [H1 H2]]. exists b. split; [exact H1|].
    replace (gen + S (length r)) with (S gen + length r) by lia. exact H2.
Qed.

Lemma frun_app_intro {A} (step : nat -> fstate -> A -> fres) l1 : forall l2 gen (s b e : fstate),
  frun step gen s l1 = FOk b -> frun step (gen + length l1) b l2 = FOk e ->
  frun step gen s (l1 ++ l2) = FOk e.
Proof.
  induction l1 as [|a r IH]; intros l2 gen s b e H1 H2; cbn in *.
  - inversion H1; subst. rewrite Nat.add_0_r in H2. exact H2.
  - destruct (step gen s a) as [s1|] eqn:E; [|discriminate].
    eapply IH; [exact H1|]. replace (S gen + length r) with (gen + S (length r)) by lia. exact H2.
Qed.

(* a generation appends one record and one call log *)
Definition appends (s s' : fstate) : Prop :=
  exists r c, f_log s' = f_log s ++ [r] /\ f_calls s' = f_calls s ++ [c].

Lemma ffinish_appends gen (fs : fstate) h1 (d1 : list (V.draw T)) k1 off newpop :
  appends fs (ffinish evaluate fle gen fs h1 d1 k1 off newpop).
Proof.
  unfold appends, ffinish. destruct (eval_heap evaluate h1 (invalid_of (view h1) off)) as [h2 log]. cbn. eauto.
Qed.

Lemma frun_history {A} (step : nat -> fstate -> A -> fres) :
  (forall gen s a s', step gen s a = FOk s' -> appends s s') ->
  forall l gen (s e : fstate), frun step gen s l = FOk e ->
  exists rs cs, f_log e = f_log s ++ rs /\ f_calls e = f_calls s ++ cs /\
                length rs = length l /\ length cs = length l.
Proof.
  intros Hstep. induction l as [|a r IH]; intros gen s e H; cbn in H.
  - inversion H; subst. exists [], []. rewrite !app_nil_r. auto.
  - destruct (step gen s a) as [s1|] eqn:E; [|discriminate].
    destruct (IH _ _ _ H) as [rs [cs [E1 [E2 [L1 L2]]]]].
    destruct (Hstep _ _ _ _ E) as [r0 [c0 [F1 F2]]].
    exists (r0 :: rs), (c0 :: cs). rewrite E1, E2, F1, F2, <- !app_assoc. cbn. auto.
Qed.

Lemma fstep_simple_appends cxpb mutpb gen (s : fstate) a s' :
  fstep_simple evaluate fle ltb mate_o mut_o cxpb mutpb gen s a = FOk s' -> appends s s'.
Proof.
  unfold fstep_simple. destruct (call_var_and _ _ _ _ _ _ _) as [s1 [e|off]]; [discriminate|].
  intro H; inversion H. apply ffinish_appends.
Qed.

Lemma fstep_plus_appends lambda_ cxpb mutpb gen (s : fstate) a s' :
  fstep_plus evaluate fle ltb leb add one mate_o mut_o lambda_ cxpb mutpb gen s a = FOk s' -> appends s s'.
Proof.
  unfold fstep_plus. destruct (call_var_or _ _ _ _ _ _ _ _ _ _ _) as [s1 [e|off]]; [discriminate|].
  intro H; inversion H. apply ffinish_appends.
Qed.

Lemma fstep_comma_appends lambda_ cxpb mutpb gen (s : fstate) a s' :
  fstep_comma evaluate fle ltb leb add one mate_o mut_o lambda_ cxpb mutpb gen s a = FOk s' -> appends s s'.
Proof.
  unfold fstep_comma. destruct (call_var_or _ _ _ _ _ _ _ _ _ _ _) as [s1 [e|off]]; [discriminate|].
  intro H; inversion H. apply ffinish_appends.
Qed.

Section RunSim.
Context {A : Type}.
Variable fstep : nat -> fstate -> A -> fres.
Variable cstep : nat -> state -> ans -> state.
Variable okc : state -> ans -> Prop.
Variable pre : nat -> A -> Prop.        (* the selection contract for the answer of generation gen *)
Variable P : nat -> state -> Prop.      (* what the contract is relative to (population size) *)

Fixpoint pres (gen : nat) (l : list A) : Prop :=
  match l with [] => True | x :: r => pre gen x /\ pres (S gen) r end.

Lemma pres_app l1 : forall l2 gen, pres gen (l1 ++ l2) -> pres gen l1.
Proof. induction l1 as [|a r IH]; intros l2 gen H; cbn in *; [exact I|]. destruct H as [H1 H2]. split; [exact H1|eapply IH; exact H2]. Qed.

Lemma pres_app_r l1 : forall l2 gen, pres gen (l1 ++ l2) -> pres (gen + length l1) l2.
Proof.
  induction l1 as [|a r IH]; intros l2 gen H; cbn in *; [rewrite Nat.add_0_r; exact H|].
  destruct H as [_ H2]. replace (gen + S (length r)) with (S gen + length r) by lia. apply IH. exact H2.
Qed.

Hypothesis step_sim : forall gen fs cs x fs',
  SRel fs cs -> P gen cs -> pre gen x -> fstep gen fs x = FOk fs' ->
  exists a, okc cs a /\ off_invalid_distinct (a_off a) /\ SRel fs' (cstep gen cs a) /\ P (S gen) (cstep gen cs a).

Lemma frun_sim : forall l gen (fs : fstate) (cs : state) (fe : fstate),
  SRel fs cs -> P gen cs -> pres gen l -> frun fstep gen fs l = FOk fe ->
  exists answers, length answers = length l /\ run_ok cstep okc gen cs answers /\
     Forall (fun a => off_invalid_distinct (a_off a)) answers /\
     SRel fe (run_from cstep gen cs answers).
Proof.
  induction l as [|x r IH]; intros gen fs cs fe S Pc Hp H; cbn in H.
  - inversion H; subst. exists []. cbn. auto.
  - destruct Hp as [Hp1 Hp2]. destruct (fstep gen fs x) as [fs1|] eqn:E; [|discriminate].
    destruct (step_sim gen fs cs x fs1 S Pc Hp1 E) as [a [Oa [Da [S1 P1]]]].
    destruct (IH _ _ _ _ S1 P1 Hp2 H) as [answers [L [Ok [Ds Sf]]]].
    exists (a :: answers). cbn. split; [lia|]. split; [split; assumption|]. split; [constructor; assumption|exact Sf].
Qed.

End RunSim.

Lemma pres_const {A} (pre0 : A -> Prop) l : forall gen, Forall pre0 l -> pres (fun _ => pre0) gen l.
Proof. induction l as [|a r IH]; intros gen H; cbn; [exact I|]. inversion H; subst. split; [assumption|apply IH; assumption]. Qed.

(* ------------------------------------------------------------------ *)
(* the initial heap and generation 0 *)

(* what the loops need of the caller's population:
   every individual has a Fitness object, the members are allocated objects, two different members do
   not share a Fitness object, a fitness set beforehand equals evaluate(genotype) *)
Record finit_ok (h0 : heap) (pop : list uid) : Prop := mk_finit_ok {
  fi_wf : V.wf_heap h0;
  fi_pop : V.pop_ok h0 pop;
  fi_own : forall u v, In u pop -> In v pop ->
           V.fitref (V.ind_at h0 u) = V.fitref (V.ind_at h0 v) -> u = v;
  fi_honest : Forall (fun u => V.fit_of h0 u = None \/
                               V.fit_of h0 u = Some (evaluate (V.geno (V.ind_at h0 u)))) pop }.

(* the live objects at the start: the members of the population *)
Definition st_of (h : heap) (pop : list uid) : store :=
  fun u => if existsb (Nat.eqb u) pop then view h u else None.

Lemma st_of_inv h pop u i : st_of h pop u = Some i -> In u pop /\ u < V.ni h /\ i = cont h u.
Proof.
  unfold st_of. destruct (existsb (Nat.eqb u) pop) eqn:E; [|discriminate].
  apply existsb_exists in E. destruct E as [v [Hv Ev]]. apply Nat.eqb_eq in Ev. subst v.
  intro H. apply view_inv in H. destruct H as [H1 H2]. auto.
Qed.

Lemma st_of_in h pop u : In u pop -> u < V.ni h -> st_of h pop u = Some (cont h u).
Proof.
  intros I L. unfold st_of.
  assert (E : existsb (Nat.eqb u) pop = true) by (apply existsb_exists; exists u; split; [exact I|apply Nat.eqb_refl]).
  rewrite E. apply view_some. exact L.
Qed.

Lemma init_sim h0 pop : finit_ok h0 pop ->
  Rel h0 (st_of h0 pop) /\ init_ok evaluate (st_of h0 pop) pop /\ Forall (live (st_of h0 pop)) pop.
Proof.
  intros [W Po Own Hon]. unfold V.pop_ok in Po. split; [|split].
  - constructor.
    + exact W.
    + intros u i E. apply st_of_inv in E. destruct E as [_ [L E]]. auto.
    + intros u v i j Eu Ev. apply st_of_inv in Eu. apply st_of_inv in Ev.
      apply Own; [exact (proj1 Eu)|exact (proj1 Ev)].
  - unfold init_ok. apply Forall_forall. intros u Hu. rewrite Forall_forall in Po, Hon.
    exists (cont h0 u). split; [apply st_of_in; auto|]. cbn. exact (Hon u Hu).
  - apply Forall_forall. intros u Hu. rewrite Forall_forall in Po. unfold live.
    rewrite (st_of_in h0 pop u Hu (Po u Hu)). discriminate.
Qed.

Lemma gen0_sim h0 (d : list (V.draw T)) pop : finit_ok h0 pop ->
  SRel (fgen0 evaluate fle (finit h0 d pop)) (gen0 evaluate fle (init (st_of h0 pop) pop)).
Proof.
  intro H. destruct (init_sim h0 pop H) as [R [_ L]]. unfold fgen0, gen0.
  apply (ffinish_sim 0 (finit h0 d pop) (init (st_of h0 pop) pop)); try reflexivity; assumption.
Qed.

(* ------------------------------------------------------------------ *)
(* reading the invariants of the loop model back on the heap *)

Lemma InvC_fview (fs : fstate) (cs : state) : SRel fs cs -> InvC evaluate cs -> InvC evaluate (fview fs).
Proof.
  intros [R Ep Ec El Es Eb Lv] [A B C D E H J].
  assert (V0 : forall u, In u (s_pop cs) -> view (f_hp fs) u = s_st cs u) by (apply rel_view_on; assumption).
  constructor; unfold fview; cbn; rewrite ?Ep, ?Ec, ?El, ?Es; try assumption.
  - apply Forall_forall. intros u Hu. rewrite Forall_forall in A. destruct (A u Hu) as [i [H1 H2]].
    exists i. rewrite (V0 u Hu). auto.
  - destruct E as [E|[l [r [E1 E2]]]]; [left; exact E|right]. exists l, r. split; [exact E1|].
    rewrite E2. symmetry. apply snap_ext. exact V0.
Qed.

Lemma fview_history (b e : fstate) rs cs :
  f_log e = f_log b ++ rs -> f_calls e = f_calls b ++ cs -> extends_history (fview b) (fview e).
Proof. intros H1 H2. exists rs, cs. auto. Qed.

(* ------------------------------------------------------------------ *)
(* who is evaluated in a generation, in the vocabulary of the heap and of C02's call log *)

Definition invalid_in (h : heap) (o : nat) : bool :=
  match V.fit_of h o with None => true | Some _ => false end.

(* the generation leading from b to s' called varAnd / varOr on inp, which returned off in state s1:
   evaluate was called exactly on the offspring whose fitness was invalid then, in order, each once, with
   their genotype; nevals is that number; every offspring that went through mate / mutate is among them,
   and an offspring that was not evaluated went through no operator and carries the genotype and the
   valid fitness of a member of inp *)
Definition fcalls_exact (b s' : fstate) (gen : nat) (inp : list uid) (s1 : V.st G F T) (off : list nat) : Prop :=
  exists log r,
    f_calls s' = f_calls b ++ [log] /\ f_log s' = f_log b ++ [r] /\
    map fst log = filter (invalid_in (V.hp s1)) off /\ NoDup (map fst log) /\
    Forall (fun c => snd c = V.geno (V.ind_at (V.hp s1) (fst c))) log /\
    r_gen r = gen /\ r_nevals r = length log /\
    (forall o, In o off -> V.varied (V.lg s1) o -> In o (map fst log)) /\
    (forall o, In o off -> ~ In o (map fst log) ->
       ~ V.varied (V.lg s1) o /\
       exists p f, In p inp /\ V.fit_of (f_hp b) p = Some f /\ V.fit_of (V.hp s1) o = Some f /\
                   V.geno (V.ind_at (V.hp s1) o) = V.geno (V.ind_at (f_hp b) p)).

Lemma filter_contents h off :
  map fst (filter inv_content (contents h off)) = filter (invalid_in h) off.
Proof.
  induction off as [|o r IH]; [reflexivity|].
  change (contents h (o :: r)) with ((o, cont h o) :: contents h r).
  cbn [filter]. unfold inv_content at 1, invalid_in at 1. cbn [snd cont fit].
  destruct (V.fit_of h o); cbn [map fst]; rewrite IH; reflexivity.
Qed.

Lemma fcalls_of (b s' : fstate) (cs cs' : state) gen inp s1 off :
  SRel b cs -> SRel s' cs' -> var_post (f_hp b) inp (V.hp s1) (V.lg s1) off ->
  calls_exact cs cs' gen (contents (V.hp s1) off) -> off_invalid_distinct (contents (V.hp s1) off) ->
  fcalls_exact b s' gen inp s1 off.
Proof.
  intros S S' VPo [log [r [E1 [E2 [E3 [E4 [E5 [E6 E7]]]]]]]] D.
  rewrite filter_contents in E3.
  exists log, r.
  split; [rewrite (sr_calls _ _ S'), (sr_calls _ _ S); exact E1|].
  split; [rewrite (sr_log _ _ S'), (sr_log _ _ S); exact E2|].
  split; [exact E3|]. split; [exact (E7 D)|]. split.
  { eapply Forall_impl; [|exact E4]. intros c [i [I [_ Gi]]]. apply contents_in in I. destruct I as [_ ->]. symmetry. exact Gi. }
  split; [exact E5|]. split; [exact E6|]. split.
  - intros o Ho Hv. rewrite E3. apply filter_In. split; [exact Ho|]. unfold invalid_in.
    rewrite (vp_varied _ _ _ _ _ VPo o Ho Hv). reflexivity.
  - intros o Ho Hn. destruct (V.fit_of (V.hp s1) o) as [f|] eqn:Ef.
    + destruct (vp_valid _ _ _ _ _ VPo o f Ho Ef) as [Nv [p [Hp [Hg Hf]]]].
      split; [exact Nv|]. exists p, f. auto.
    + exfalso. apply Hn. rewrite E3. apply filter_In. split; [exact Ho|]. unfold invalid_in. rewrite Ef. reflexivity.
Qed.

(* ------------------------------------------------------------------ *)
(* eaSimple *)

Section Simple.
Hypothesis mate_distinct : forall k x y, V.ret_distinct (V.ma_r1 (mate_o k x y)) (V.ma_r2 (mate_o k x y)).
Variables cxpb mutpb : T.

Notation fsimple := (full_simple evaluate fle ltb mate_o mut_o cxpb mutpb).
Notation fstep := (fstep_simple evaluate fle ltb mate_o mut_o cxpb mutpb).

(* a run of the composed model that returns is a run of the loop model whose oracle answers satisfy
   their contracts *)
Lemma full_simple_link h0 d pop sels (b : fstate) :
  finit_ok h0 pop -> Forall (sel_in (length pop) (length pop)) sels ->
  fsimple h0 d pop sels = FOk b ->
  exists answers, length answers = length sels /\
    init_ok evaluate (st_of h0 pop) pop /\
    run_ok (step_simple evaluate fle) ans_ok_simple 1 (gen0 evaluate fle (init (st_of h0 pop) pop)) answers /\
    Forall (fun a => off_invalid_distinct (a_off a)) answers /\
    SRel b (ea_simple evaluate fle (st_of h0 pop) pop answers).
Proof.
  intros Hi Hs H. unfold full_simple in H. destruct (init_sim h0 pop Hi) as [_ [I0 _]].
  destruct (frun_sim fstep (step_simple evaluate fle) ans_ok_simple
              (fun _ => sel_in (length pop) (length pop)) (fun _ cs => length (s_pop cs) = length pop))
    with (l := sels) (gen := 1) (fs := fgen0 evaluate fle (finit h0 d pop))
         (cs := gen0 evaluate fle (init (st_of h0 pop) pop)) (fe := b) as [answers [L [Ok [Ds Sf]]]].
  - intros gen fs cs x fs' S Pc Hp E. rewrite <- Pc in Hp.
    destruct (fstep_simple_sim mate_distinct cxpb mutpb gen fs cs x fs' S Hp E) as [s1 [off [_ [_ [Lo [Oa [Da S1]]]]]]].
    exists (var_ans x s1 off). split; [exact Oa|]. split; [exact Da|]. split; [exact S1|].
    unfold step_simple. rewrite finish_gen_pop. unfold var_ans. cbn [a_off]. rewrite contents_fst.
    rewrite <- Pc, <- (sr_pop _ _ S). exact Lo.
  - apply gen0_sim. exact Hi.
  - cbv beta. rewrite gen0_pop. reflexivity.
  - apply pres_const. exact Hs.
  - exact H.
  - exists answers. auto.
Qed.

Theorem full_simple_every_boundary h0 d pop sels1 sels2 (e : fstate) :
  finit_ok h0 pop -> Forall (sel_in (length pop) (length pop)) (sels1 ++ sels2) ->
  fsimple h0 d pop (sels1 ++ sels2) = FOk e ->
  exists b, fsimple h0 d pop sels1 = FOk b /\
    InvC evaluate (fview b) /\ length (f_log b) = S (length sels1) /\
    length (f_pop b) = length pop /\ extends_history (fview b) (fview e).
Proof.
  intros Hi Hs H. unfold full_simple in H. destruct (frun_app _ _ _ _ _ _ H) as [b [H1 H2]].
  exists b. split; [exact H1|]. apply Forall_app in Hs. destruct Hs as [Hs1 _].
  destruct (full_simple_link h0 d pop sels1 b Hi Hs1 H1) as [answers [L [I0 [Ok [_ S]]]]].
  destruct (simple_inv evaluate fle _ pop answers I0 Ok) as [Iv [Ll Lp]].
  split; [eapply InvC_fview; eassumption|]. split; [rewrite (sr_log _ _ S), Ll, L; reflexivity|].
  split; [rewrite (sr_pop _ _ S); exact Lp|].
  destruct (frun_history _ (fstep_simple_appends cxpb mutpb) _ _ _ _ H2) as [rs [cs [E1 [E2 _]]]].
  eapply fview_history; eassumption.
Qed.

Theorem full_simple_calls h0 d pop sels1 sel (b s' : fstate) :
  finit_ok h0 pop -> Forall (sel_in (length pop) (length pop)) (sels1 ++ [sel]) ->
  fsimple h0 d pop sels1 = FOk b -> fstep (S (length sels1)) b sel = FOk s' ->
  exists s1 off,
    call_var_and ltb mate_o mut_o cxpb mutpb b (select_by (f_pop b) sel) = (s1, inr off) /\
    f_pop s' = off /\ length off = length pop /\
    fcalls_exact b s' (S (length sels1)) (select_by (f_pop b) sel) s1 off.
Proof.
  intros Hi Hs H1 H2. apply Forall_app in Hs. destruct Hs as [Hs1 Hs2]. inversion Hs2 as [|? ? Hsel _]; subst.
  destruct (full_simple_link h0 d pop sels1 b Hi Hs1 H1) as [answers [L [I0 [Ok [_ S]]]]].
  destruct (simple_inv evaluate fle _ pop answers I0 Ok) as [_ [_ Lp]].
  rewrite <- Lp in Hsel.
  destruct (fstep_simple_sim mate_distinct cxpb mutpb _ b _ sel s' S Hsel H2) as [s1 [off [Ev [VPo [Lo [Oa [Da S1]]]]]]].
  exists s1, off. split; [exact Ev|]. split.
  { rewrite (sr_pop _ _ S1). unfold step_simple. rewrite finish_gen_pop. unfold var_ans. cbn [a_off]. apply contents_fst. }
  split; [rewrite Lo, (sr_pop _ _ S); exact Lp|].
  eapply fcalls_of; [exact S|exact S1|exact VPo| |exact Da].
  apply (simple_calls evaluate fle _ _ (var_ans sel s1 off) Oa).
Qed.

End Simple.

(* ------------------------------------------------------------------ *)
(* eaMuPlusLambda *)

(* the selection answers of a mu+lambda run: generation 1 selects among len(population) + lambda_
   individuals, the later ones among mu + lambda_ *)
Definition plus_size (n mu gen : nat) : nat := if gen =? 1 then n else mu.
Definition sels_plus (n mu lam : nat) (sels : list (list nat)) : Prop :=
  pres (fun gen => sel_in (plus_size n mu gen + lam) mu) 1 sels.

Section Plus.
Variable mu : nat.
Variable lambda_ : Z.
Variables cxpb mutpb : T.
Notation lam := (Z.to_nat lambda_).
Notation fplus := (full_plus evaluate fle ltb leb add one mate_o mut_o lambda_ cxpb mutpb).
Notation fstep := (fstep_plus evaluate fle ltb leb add one mate_o mut_o lambda_ cxpb mutpb).

Lemma fplus_run_sim n : forall sels gen (fs : fstate) (cs : state) (b : fstate),
  1 <= gen -> SRel fs cs -> length (s_pop cs) = plus_size n mu gen ->
  pres (fun gen => sel_in (plus_size n mu gen + lam) mu) gen sels ->
  frun fstep gen fs sels = FOk b ->
  exists answers, length answers = length sels /\
    run_ok (step_plus evaluate fle) (ans_ok_plus mu lam) gen cs answers /\
    Forall (fun a => off_invalid_distinct (a_off a)) answers /\
    SRel b (run_from (step_plus evaluate fle) gen cs answers).
Proof.
  intros sels gen fs cs b G1 S Pc Hp H.
  apply (frun_sim fstep (step_plus evaluate fle) (ans_ok_plus mu lam)
           (fun gen => sel_in (plus_size n mu gen + lam) mu)
           (fun gen cs => 1 <= gen /\ length (s_pop cs) = plus_size n mu gen)) with (fs := fs); auto.
  clear. intros gen fs cs x fs' SR [G1 Pc] Hp E. rewrite <- Pc in Hp.
  destruct (fstep_plus_sim mu lambda_ cxpb mutpb gen fs cs x fs' SR Hp E) as [s1 [off [_ [_ [Lo [Oa [Da S1]]]]]]].
  exists (var_ans x s1 off). split; [exact Oa|]. split; [exact Da|]. split; [exact S1|]. split; [lia|].
  unfold step_plus. rewrite finish_gen_pop, select_by_length. unfold var_ans. cbn [a_sel].
  unfold plus_size. destruct (Nat.eqb_spec (S gen) 1); [lia|]. exact (proj1 Hp).
Qed.

Lemma full_plus_link h0 d pop sels (b : fstate) :
  finit_ok h0 pop -> sels_plus (length pop) mu lam sels ->
  fplus h0 d pop sels = FOk b ->
  exists answers, length answers = length sels /\
    init_ok evaluate (st_of h0 pop) pop /\
    run_ok (step_plus evaluate fle) (ans_ok_plus mu lam) 1 (gen0 evaluate fle (init (st_of h0 pop) pop)) answers /\
    Forall (fun a => off_invalid_distinct (a_off a)) answers /\
    SRel b (ea_plus evaluate fle (st_of h0 pop) pop answers).
Proof.
  intros Hi Hs H. unfold full_plus in H. destruct (init_sim h0 pop Hi) as [_ [I0 _]].
  assert (L0 : length (s_pop (gen0 evaluate fle (init (st_of h0 pop) pop))) = plus_size (length pop) mu 1)
    by (rewrite gen0_pop; reflexivity).
  destruct (fplus_run_sim (length pop) sels 1 _ _ b (le_n 1) (gen0_sim h0 d pop Hi) L0 Hs H)
    as [answers [L [Ok [Ds Sf]]]].
  exists answers. auto.
Qed.

Theorem full_plus_every_boundary h0 d pop sels1 sels2 (e : fstate) :
  finit_ok h0 pop -> sels_plus (length pop) mu lam (sels1 ++ sels2) ->
  fplus h0 d pop (sels1 ++ sels2) = FOk e ->
  exists b, fplus h0 d pop sels1 = FOk b /\
    InvC evaluate (fview b) /\ length (f_log b) = S (length sels1) /\
    length (f_pop b) = match sels1 with [] => length pop | _ => mu end /\
    extends_history (fview b) (fview e).
Proof.
  intros Hi Hs H. unfold full_plus in H. destruct (frun_app _ _ _ _ _ _ H) as [b [H1 H2]].
  exists b. split; [exact H1|]. apply pres_app in Hs.
  destruct (full_plus_link h0 d pop sels1 b Hi Hs H1) as [answers [L [I0 [Ok [_ S]]]]].
  destruct (plus_inv evaluate fle mu lam _ pop answers I0 Ok) as [Iv [Ll Lp]].
  split; [eapply InvC_fview; eassumption|]. split; [rewrite (sr_log _ _ S), Ll, L; reflexivity|].
  split.
  { rewrite (sr_pop _ _ S), Lp. destruct answers, sels1; cbn in L; try discriminate; reflexivity. }
  destruct (frun_history _ (fstep_plus_appends lambda_ cxpb mutpb) _ _ _ _ H2) as [rs [cs [E1 [E2 _]]]].
  eapply fview_history; eassumption.
Qed.

Theorem full_plus_calls h0 d pop sels1 sel (b s' : fstate) :
  finit_ok h0 pop -> sels_plus (length pop) mu lam (sels1 ++ [sel]) ->
  fplus h0 d pop sels1 = FOk b -> fstep (S (length sels1)) b sel = FOk s' ->
  exists s1 off,
    call_var_or ltb leb add one mate_o mut_o lambda_ cxpb mutpb b (f_pop b) = (s1, inr off) /\
    f_pop s' = select_by (f_pop b ++ off) sel /\ length off = lam /\ length (f_pop s') = mu /\
    fcalls_exact b s' (S (length sels1)) (f_pop b) s1 off.
Proof.
  intros Hi Hs H1 H2.
  assert (H : fplus h0 d pop (sels1 ++ [sel]) = FOk s').
  { unfold full_plus in *. eapply frun_app_intro; [exact H1|]. cbn. rewrite H2. reflexivity. }
  destruct (full_plus_link h0 d pop sels1 b Hi (pres_app _ _ _ _ Hs) H1) as [answers [L [I0 [Ok [_ S]]]]].
  destruct (full_plus_every_boundary h0 d pop (sels1 ++ [sel]) [] s' Hi) as [b' [Hb' [_ [_ [Lp' _]]]]];
    [rewrite app_nil_r; exact Hs|rewrite app_nil_r; exact H|].
  rewrite H in Hb'. inversion Hb'; subst b'.
  destruct (plus_inv evaluate fle mu lam _ pop answers I0 Ok) as [_ [_ Lp]].
  assert (Hsel : sel_in (length (s_pop (ea_plus evaluate fle (st_of h0 pop) pop answers)) + lam) mu sel).
  { rewrite Lp. unfold sels_plus in Hs. apply pres_app_r in Hs. destruct Hs as [Hs _].
    replace (match answers with [] => length pop | _ :: _ => mu end) with (plus_size (length pop) mu (1 + length sels1)); [exact Hs|].
    unfold plus_size. destruct answers, sels1; cbn in L; try discriminate; reflexivity. }
  destruct (fstep_plus_sim mu lambda_ cxpb mutpb _ b _ sel s' S Hsel H2) as [s1 [off [Ev [VPo [Lo [Oa [Da S1]]]]]]].
  exists s1, off. split; [exact Ev|]. split.
  { rewrite (sr_pop _ _ S1). unfold step_plus. rewrite finish_gen_pop. unfold var_ans. cbn [a_off a_sel].
    rewrite contents_fst, (sr_pop _ _ S). reflexivity. }
  split; [exact Lo|]. split.
  { rewrite Lp'. destruct sels1; reflexivity. }
  eapply fcalls_of; [exact S|exact S1|exact VPo| |exact Da].
  apply (plus_calls evaluate fle mu lam _ _ (var_ans sel s1 off) Oa).
Qed.

End Plus.

(* ------------------------------------------------------------------ *)
(* eaMuCommaLambda *)

Section Comma.
Variable mu : nat.
Variable lambda_ : Z.
Variables cxpb mutpb : T.
Notation lam := (Z.to_nat lambda_).
Notation fcomma := (full_comma evaluate fle ltb leb add one mate_o mut_o mu lambda_ cxpb mutpb).
Notation fstep := (fstep_comma evaluate fle ltb leb add one mate_o mut_o lambda_ cxpb mutpb).

Lemma full_comma_unfold h0 d pop sels (b : fstate) :
  fcomma h0 d pop sels = FOk b ->
  (Z.of_nat mu <= lambda_)%Z /\ frun fstep 1 (fgen0 evaluate fle (finit h0 d pop)) sels = FOk b.
Proof.
  unfold full_comma. destruct (Z.leb_spec (Z.of_nat mu) lambda_); [auto|discriminate].
Qed.

Lemma full_comma_fold h0 d pop sels (b : fstate) :
  (Z.of_nat mu <= lambda_)%Z -> frun fstep 1 (fgen0 evaluate fle (finit h0 d pop)) sels = FOk b ->
  fcomma h0 d pop sels = FOk b.
Proof.
  intros L H. unfold full_comma. destruct (Z.leb_spec (Z.of_nat mu) lambda_); [exact H|lia].
Qed.

Lemma full_comma_link h0 d pop sels (b : fstate) :
  finit_ok h0 pop -> Forall (sel_in lam mu) sels ->
  fcomma h0 d pop sels = FOk b ->
  exists answers, length answers = length sels /\
    init_ok evaluate (st_of h0 pop) pop /\
    run_ok (step_comma evaluate fle) (ans_ok_comma mu lam) 1 (gen0 evaluate fle (init (st_of h0 pop) pop)) answers /\
    Forall (fun a => off_invalid_distinct (a_off a)) answers /\
    SRel b (ea_comma evaluate fle (st_of h0 pop) pop answers).
Proof.
  intros Hi Hs H. apply full_comma_unfold in H. destruct H as [_ H]. destruct (init_sim h0 pop Hi) as [_ [I0 _]].
  destruct (frun_sim fstep (step_comma evaluate fle) (ans_ok_comma mu lam)
              (fun _ => sel_in lam mu) (fun _ _ => True))
    with (l := sels) (gen := 1) (fs := fgen0 evaluate fle (finit h0 d pop))
         (cs := gen0 evaluate fle (init (st_of h0 pop) pop)) (fe := b) as [answers [L [Ok [Ds Sf]]]].
  - intros gen fs cs x fs' SR _ Hp E.
    destruct (fstep_comma_sim mu lambda_ cxpb mutpb gen fs cs x fs' SR Hp E) as [s1 [off [_ [_ [Lo [Oa [Da S1]]]]]]].
    exists (var_ans x s1 off). auto.
  - apply gen0_sim. exact Hi.
  - exact I.
  - apply pres_const. exact Hs.
  - exact H.
  - exists answers. auto.
Qed.

Theorem full_comma_every_boundary h0 d pop sels1 sels2 (e : fstate) :
  finit_ok h0 pop -> Forall (sel_in lam mu) (sels1 ++ sels2) ->
  fcomma h0 d pop (sels1 ++ sels2) = FOk e ->
  exists b, fcomma h0 d pop sels1 = FOk b /\
    InvC evaluate (fview b) /\ length (f_log b) = S (length sels1) /\
    length (f_pop b) = match sels1 with [] => length pop | _ => mu end /\
    extends_history (fview b) (fview e).
Proof.
  intros Hi Hs H. destruct (full_comma_unfold _ _ _ _ _ H) as [Lm H']. destruct (frun_app _ _ _ _ _ _ H') as [b [H1 H2]].
  exists b. pose proof (full_comma_fold _ _ _ _ _ Lm H1) as Hb. split; [exact Hb|].
  apply Forall_app in Hs. destruct Hs as [Hs1 _].
  destruct (full_comma_link h0 d pop sels1 b Hi Hs1 Hb) as [answers [L [I0 [Ok [_ SR]]]]].
  destruct (comma_inv evaluate fle mu lam _ pop answers I0 Ok) as [Iv [Ll Lp]].
  split; [eapply InvC_fview; eassumption|]. split; [rewrite (sr_log _ _ SR), Ll, L; reflexivity|].
  split.
  { rewrite (sr_pop _ _ SR), Lp. destruct answers, sels1; cbn in L; try discriminate; reflexivity. }
  destruct (frun_history _ (fstep_comma_appends lambda_ cxpb mutpb) _ _ _ _ H2) as [rs [cs [E1 [E2 _]]]].
  eapply fview_history; eassumption.
Qed.

Theorem full_comma_calls h0 d pop sels1 sel (b s' : fstate) :
  finit_ok h0 pop -> Forall (sel_in lam mu) (sels1 ++ [sel]) ->
  fcomma h0 d pop sels1 = FOk b -> fstep (S (length sels1)) b sel = FOk s' ->
  exists s1 off,
    call_var_or ltb leb add one mate_o mut_o lambda_ cxpb mutpb b (f_pop b) = (s1, inr off) /\
    f_pop s' = select_by off sel /\ length off = lam /\ length (f_pop s') = mu /\
    fcalls_exact b s' (S (length sels1)) (f_pop b) s1 off.
Proof.
  intros Hi Hs H1 H2. apply Forall_app in Hs. destruct Hs as [Hs1 Hs2]. inversion Hs2 as [|? ? Hsel _]; subst.
  destruct (full_comma_link h0 d pop sels1 b Hi Hs1 H1) as [answers [L [I0 [Ok [_ SR]]]]].
  destruct (fstep_comma_sim mu lambda_ cxpb mutpb _ b _ sel s' SR Hsel H2) as [s1 [off [Ev [VPo [Lo [Oa [Da S1]]]]]]].
  exists s1, off. split; [exact Ev|].
  assert (Ep : f_pop s' = select_by off sel).
  { rewrite (sr_pop _ _ S1). unfold step_comma. rewrite finish_gen_pop. unfold var_ans. cbn [a_off a_sel].
    rewrite contents_fst. reflexivity. }
  split; [exact Ep|]. split; [exact Lo|]. split; [rewrite Ep, select_by_length; exact (proj1 Hsel)|].
  eapply fcalls_of; [exact SR|exact S1|exact VPo| |exact Da].
  apply (comma_calls evaluate fle mu lam _ _ (var_ans sel s1 off) Oa).
Qed.

End Comma.

(* ------------------------------------------------------------------ *)
(* hall of fame; mu+lambda with truncation selection *)

Section Order.
Hypothesis fle_total : forall a b, fle a b = true \/ fle b a = true.
Hypothesis fle_trans : forall a b c, fle a b = true -> fle b c = true -> fle a c = true.

Lemma InvH_fview (fs : fstate) (cs : state) : SRel fs cs -> InvH evaluate fle cs -> InvH evaluate fle (fview fs).
Proof.
  intros [R Ep Ec El Es Eb Lv] [A B C D].
  assert (V0 : forall u, In u (s_pop cs) -> view (f_hp fs) u = s_st cs u) by (apply rel_view_on; assumption).
  constructor; unfold fview; cbn; rewrite ?Ep, ?Ec, ?El, ?Es, ?Eb; try assumption.
  apply Forall_forall. intros u Hu. rewrite Forall_forall in D. rewrite (V0 u Hu). exact (D u Hu).
Qed.

Theorem full_simple_hof cxpb mutpb h0 d pop sels1 sels2 (e : fstate) :
  (forall k x y, V.ret_distinct (V.ma_r1 (mate_o k x y)) (V.ma_r2 (mate_o k x y))) ->
  finit_ok h0 pop -> Forall (sel_in (length pop) (length pop)) (sels1 ++ sels2) ->
  full_simple evaluate fle ltb mate_o mut_o cxpb mutpb h0 d pop (sels1 ++ sels2) = FOk e ->
  exists b, full_simple evaluate fle ltb mate_o mut_o cxpb mutpb h0 d pop sels1 = FOk b /\
            InvH evaluate fle (fview b).
Proof.
  intros Md Hi Hs H. unfold full_simple in H. destruct (frun_app _ _ _ _ _ _ H) as [b [H1 _]].
  exists b. split; [exact H1|]. apply Forall_app in Hs. destruct Hs as [Hs1 _].
  destruct (full_simple_link Md cxpb mutpb h0 d pop sels1 b Hi Hs1 H1) as [answers [_ [I0 [Ok [_ SR]]]]].
  eapply InvH_fview; [exact SR|]. apply simple_hof; assumption.
Qed.

Theorem full_plus_hof mu lambda_ cxpb mutpb h0 d pop sels1 sels2 (e : fstate) :
  finit_ok h0 pop -> sels_plus (length pop) mu (Z.to_nat lambda_) (sels1 ++ sels2) ->
  full_plus evaluate fle ltb leb add one mate_o mut_o lambda_ cxpb mutpb h0 d pop (sels1 ++ sels2) = FOk e ->
  exists b, full_plus evaluate fle ltb leb add one mate_o mut_o lambda_ cxpb mutpb h0 d pop sels1 = FOk b /\
            InvH evaluate fle (fview b).
Proof.
  intros Hi Hs H. unfold full_plus in H. destruct (frun_app _ _ _ _ _ _ H) as [b [H1 _]].
  exists b. split; [exact H1|]. apply pres_app in Hs.
  destruct (full_plus_link mu lambda_ cxpb mutpb h0 d pop sels1 b Hi Hs H1) as [answers [_ [I0 [Ok [_ SR]]]]].
  eapply InvH_fview; [exact SR|]. eapply plus_hof; eassumption.
Qed.

Theorem full_comma_hof mu lambda_ cxpb mutpb h0 d pop sels1 sels2 (e : fstate) :
  finit_ok h0 pop -> Forall (sel_in (Z.to_nat lambda_) mu) (sels1 ++ sels2) ->
  full_comma evaluate fle ltb leb add one mate_o mut_o mu lambda_ cxpb mutpb h0 d pop (sels1 ++ sels2) = FOk e ->
  exists b, full_comma evaluate fle ltb leb add one mate_o mut_o mu lambda_ cxpb mutpb h0 d pop sels1 = FOk b /\
            InvH evaluate fle (fview b).
Proof.
  intros Hi Hs H. destruct (full_comma_unfold _ _ _ _ _ _ _ _ _ H) as [Lm H']. destruct (frun_app _ _ _ _ _ _ H') as [b [H1 _]].
  exists b. pose proof (full_comma_fold _ _ _ _ _ _ _ _ _ Lm H1) as Hb. split; [exact Hb|].
  apply Forall_app in Hs. destruct Hs as [Hs1 _].
  destruct (full_comma_link mu lambda_ cxpb mutpb h0 d pop sels1 b Hi Hs1 Hb) as [answers [_ [I0 [Ok [_ SR]]]]].
  eapply InvH_fview; [exact SR|]. eapply comma_hof; eassumption.
Qed.

End Order.

(* ------------------------------------------------------------------ *)
(* eaMuPlusLambda with toolbox.select = tools.selBest *)

Section PlusBest.
Variable mu : nat.
Variable lambda_ : Z.
Variables cxpb mutpb : T.
Notation lam := (Z.to_nat lambda_).
Notation fbest := (full_plus_best evaluate fle ltb leb add one mate_o mut_o mu lambda_ cxpb mutpb).
Notation fstepb := (fstep_plus_best evaluate fle ltb leb add one mate_o mut_o mu lambda_ cxpb mutpb).
Notation fstep := (fstep_plus evaluate fle ltb leb add one mate_o mut_o lambda_ cxpb mutpb).

(* such a run IS a run of eaMuPlusLambda for selection answers that satisfy the selection contract
   (selBest needs mu <= len(population) + lambda_ to return mu individuals) *)
Lemma frun_best_is_plus n : mu <= n + lam -> forall (l : list unit) gen (fs : fstate) (cs : state) (e : fstate),
  1 <= gen -> SRel fs cs -> length (f_pop fs) = plus_size n mu gen ->
  frun fstepb gen fs l = FOk e ->
  exists sels, length sels = length l /\
    pres (fun gen => sel_in (plus_size n mu gen + lam) mu) gen sels /\
    frun fstep gen fs sels = FOk e.
Proof.
  intros Mu. induction l as [|x r IH]; intros gen fs cs e G1 SR Lp H; cbn in H.
  - exists []. cbn. auto.
  - destruct (fstepb gen fs x) as [fs1|] eqn:E; [|discriminate].
    destruct (fstep_plus_best_is_plus mu lambda_ cxpb mutpb gen fs x fs1 E)
      as [sel [Hp [Ls [_ [s1 [off [Ev [Fi Lm]]]]]]]].
    destruct (fstep_plus_best_sim mu lambda_ cxpb mutpb gen fs cs x fs1 SR E) as [s1' [off' [Ev' [_ [Lo S1]]]]].
    rewrite Ev in Ev'. inversion Ev'; subst s1' off'. clear Ev'.
    assert (Lo' : length off = lam) by exact Lo.
    assert (Sz : mu <= plus_size n mu gen + lam) by (unfold plus_size; destruct (gen =? 1); lia).
    assert (L1 : length (f_pop fs1) = mu) by (rewrite Lm, Lp, Lo'; lia).
    destruct (IH (S gen) fs1 _ e (le_S _ _ G1) S1) as [sels [L [Hps Hr]]]; [|exact H|].
    { rewrite L1. unfold plus_size. destruct (Nat.eqb_spec (S gen) 1); [lia|reflexivity]. }
    exists (sel :: sels). cbn. split; [lia|]. split.
    + split; [|exact Hps]. split; [rewrite Ls; exact L1|]. rewrite <- Lp, <- Lo'. exact Fi.
    + rewrite Hp. exact Hr.
Qed.

Theorem full_plus_best_is_plus h0 d pop ngen (e : fstate) :
  finit_ok h0 pop -> mu <= length pop + lam ->
  fbest h0 d pop ngen = FOk e ->
  exists sels, length sels = ngen /\ sels_plus (length pop) mu lam sels /\
    full_plus evaluate fle ltb leb add one mate_o mut_o lambda_ cxpb mutpb h0 d pop sels = FOk e.
Proof.
  intros Hi Mu H. unfold full_plus_best in H.
  destruct (frun_best_is_plus (length pop) Mu (repeat tt ngen) 1 _ _ e (le_n 1) (gen0_sim h0 d pop Hi)) as [sels [L [Hp Hr]]].
  - unfold fgen0. rewrite ffinish_pop. reflexivity.
  - exact H.
  - exists sels. rewrite repeat_length in L. auto.
Qed.

Section Elitist.
Hypothesis fle_total : forall a b, fle a b = true \/ fle b a = true.
Hypothesis fle_trans : forall a b c, fle a b = true -> fle b c = true -> fle a c = true.

(* at every generation: each fitness present in the population before is matched or beaten by a
   member of the population afterwards, so the best fitness never gets worse *)
Theorem full_plus_best_elitist h0 d pop ngen (b s' : fstate) :
  finit_ok h0 pop -> mu <= length pop + lam -> 1 <= mu ->
  fbest h0 d pop ngen = FOk b -> fstepb (S ngen) b tt = FOk s' ->
  forall x f, In x (f_pop b) -> V.fit_of (f_hp b) x = Some f ->
  exists y fy, In y (f_pop s') /\ V.fit_of (f_hp s') y = Some fy /\ fle f fy = true.
Proof.
  intros Hi Mu M1 Hb Hs x f Hx Hf.
  destruct (full_plus_best_is_plus h0 d pop ngen b Hi Mu Hb) as [sels [_ [Hp Hr]]].
  destruct (full_plus_link mu lambda_ cxpb mutpb h0 d pop sels b Hi Hp Hr) as [answers [_ [I0 [Ok [_ SR]]]]].
  destruct (plus_inv evaluate fle mu lam _ pop answers I0 Ok) as [Iv _].
  destruct (fstep_plus_best_sim mu lambda_ cxpb mutpb _ b _ tt s' SR Hs) as [s1 [off [_ [O [_ S1]]]]].
  set (cs := ea_plus evaluate fle (st_of h0 pop) pop answers) in *.
  assert (Lx : live (s_st cs) x).
  { pose proof (sr_live _ _ SR) as Lv. rewrite Forall_forall in Lv. apply Lv. rewrite <- (sr_pop _ _ SR). exact Hx. }
  destruct (live_some _ _ Lx) as [i Ei]. destruct (rel_dom _ _ (sr_rel _ _ SR) x i Ei) as [_ Hi'].
  assert (Fi : fit i = Some f) by (rewrite Hi'; exact Hf).
  destruct (plus_best_elitist evaluate fle fle_total fle_trans mu (S ngen) cs (var_ans [] s1 off) Iv O M1 x i f)
    as [y [iy [fy [Hy [Sy [Fy Le]]]]]]; [rewrite <- (sr_pop _ _ SR); exact Hx|exact Ei|exact Fi|].
  exists y, fy. split; [rewrite (sr_pop _ _ S1); exact Hy|]. split; [|exact Le].
  destruct (rel_dom _ _ (sr_rel _ _ S1) y iy Sy) as [_ Hy']. rewrite Hy' in Fy. exact Fy.
Qed.

End Elitist.
End PlusBest.

(* ------------------------------------------------------------------ *)
(* when eaSimple returns: varAnd consumes len//2 + len values of random.random() per generation
   and never raises (C02_varAnd_total), so with ngen * (len//2 + len) values the run returns *)

Theorem full_simple_total_run cxpb mutpb :
  (forall k x y, V.ret_distinct (V.ma_r1 (mate_o k x y)) (V.ma_r2 (mate_o k x y))) ->
  forall sels gen (fs : fstate) (cs : state) n us rest,
  SRel fs cs -> length (s_pop cs) = n -> Forall (sel_in n n) sels ->
  f_dr fs = map V.DRandom us ++ rest -> length us = length sels * (Nat.div2 n + n) ->
  exists e, frun (fstep_simple evaluate fle ltb mate_o mut_o cxpb mutpb) gen fs sels = FOk e /\ f_dr e = rest.
Proof.
  intros Md. induction sels as [|sel r IH]; intros gen fs cs n us rest SR Ln Hs Hd Lu; cbn [frun].
  - destruct us; [|discriminate]. exists fs. auto.
  - inversion Hs as [|? ? Hsel Hr]; subst. cbn in Lu.
    set (m := Nat.div2 (length (s_pop cs)) + length (s_pop cs)) in *.
    assert (L1 : length (firstn m us) = m) by (rewrite firstn_length; lia).
    assert (L2 : length (skipn m us) = length r * m) by (rewrite skipn_length; lia).
    assert (Hd' : f_dr fs = map V.DRandom (firstn m us) ++ (map V.DRandom (skipn m us) ++ rest)).
    { rewrite Hd, app_assoc, <- map_app, firstn_skipn. reflexivity. }
    destruct (VG.and_total G F T ltb (mate_at mate_o (f_kc fs)) (mut_at mut_o (f_kc fs)) cxpb mutpb (f_hp fs)
                (select_by (f_pop fs) sel) (firstn m us) (map V.DRandom (skipn m us) ++ rest)) as [s1 [off [Ev Ed]]].
    { rewrite select_by_length, (proj1 Hsel). exact L1. }
    assert (E : fstep_simple evaluate fle ltb mate_o mut_o cxpb mutpb gen fs sel =
                FOk (ffinish evaluate fle gen fs (V.hp s1) (V.dr s1) (f_kc fs + V.kc s1) off off)).
    { unfold fstep_simple, call_var_and. rewrite Hd', Ev. reflexivity. }
    rewrite E.
    destruct (fstep_simple_sim Md cxpb mutpb gen fs cs sel _ SR Hsel E) as [s1' [off' [_ [_ [Lo [_ [_ S1]]]]]]].
    eapply (IH (S gen) _ _ (length (s_pop cs)) (skipn m us) rest S1).
    + unfold step_simple. rewrite finish_gen_pop. unfold var_ans. cbn [a_off]. rewrite contents_fst.
      transitivity (length (f_pop fs)); [exact Lo|rewrite (sr_pop _ _ SR); reflexivity].
    + exact Hr.
    + unfold ffinish. destruct (eval_heap evaluate (V.hp s1) (invalid_of (view (V.hp s1)) off)). cbn. exact Ed.
    + exact L2.
Qed.

Lemma ffinish_dr gen (fs : fstate) h1 (d1 : list (V.draw T)) k1 off newpop :
  f_dr (ffinish evaluate fle gen fs h1 d1 k1 off newpop) = d1.
Proof. unfold ffinish. destruct (eval_heap evaluate h1 (invalid_of (view h1) off)). reflexivity. Qed.

(* eaSimple returns for every ngen whenever the stream holds ngen * (len//2 + len) values of random() *)
Theorem full_simple_total cxpb mutpb h0 pop sels us rest :
  (forall k x y, V.ret_distinct (V.ma_r1 (mate_o k x y)) (V.ma_r2 (mate_o k x y))) ->
  finit_ok h0 pop -> Forall (sel_in (length pop) (length pop)) sels ->
  length us = length sels * (Nat.div2 (length pop) + length pop) ->
  exists e, full_simple evaluate fle ltb mate_o mut_o cxpb mutpb h0 (map V.DRandom us ++ rest) pop sels = FOk e /\
            f_dr e = rest.
Proof.
  intros Md Hi Hs Lu. unfold full_simple.
  eapply (full_simple_total_run cxpb mutpb Md sels 1 _ _ (length pop) us rest (gen0_sim h0 _ pop Hi)).
  - rewrite gen0_pop. reflexivity.
  - exact Hs.
  - unfold fgen0. rewrite ffinish_dr. reflexivity.
  - exact Lu.
Qed.

(* ------------------------------------------------------------------ *)
(* the statements that carry the composition, for Props *)

(* C02's theorems about one call of varAnd establish the variation contract of the loop model
   (off_ok, off_invalid_distinct) for the answer "the returned objects with their contents", and the
   heap after the call is again related to the store extended by that answer *)
Theorem var_and_contract (h0 : heap) (st : store) inp cxpb mutpb d k0 s' off :
  (forall k x y, V.ret_distinct (V.ma_r1 (mate_o k x y)) (V.ma_r2 (mate_o k x y))) ->
  Rel h0 st -> Forall (live st) inp ->
  V.var_and ltb (mate_at mate_o k0) (mut_at mut_o k0) cxpb mutpb (V.start h0 d) inp = (s', inr off) ->
  off_ok st inp (contents (V.hp s') off) /\ off_invalid_distinct (contents (V.hp s') off) /\
  length off = length inp /\ Rel (V.hp s') (add_objs st (contents (V.hp s') off)).
Proof.
  intros Md R L H.
  destruct (var_and_post h0 inp cxpb mutpb d k0 s' off Md (rel_wf _ _ R) (pop_ok_live _ _ _ R L) H) as [VPo Len].
  destruct (var_post_sim _ _ _ _ _ _ R L VPo) as [O [D [R' _]]]. auto.
Qed.

Theorem var_or_contract (h0 : heap) (st : store) inp lambda_ cxpb mutpb d k0 s' off :
  Rel h0 st -> Forall (live st) inp ->
  V.var_or ltb leb add one (mate_at mate_o k0) (mut_at mut_o k0) lambda_ cxpb mutpb (V.start h0 d) inp = (s', inr off) ->
  off_ok st inp (contents (V.hp s') off) /\ off_invalid_distinct (contents (V.hp s') off) /\
  length off = Z.to_nat lambda_ /\ Rel (V.hp s') (add_objs st (contents (V.hp s') off)).
Proof.
  intros R L H.
  destruct (var_or_post h0 inp lambda_ cxpb mutpb d k0 s' off (rel_wf _ _ R) (pop_ok_live _ _ _ R L) H) as [VPo Len].
  destruct (var_post_sim _ _ _ _ _ _ R L VPo) as [O [D [R' _]]]. auto.
Qed.

(* generation 0: exactly the members of the caller's list with an invalid fitness are evaluated, in
   order, with their genotype (each once when they are distinct objects -- the known finding) *)
Theorem full_gen0_calls h0 (d : list (V.draw T)) pop :
  finit_ok h0 pop ->
  let s' := fgen0 evaluate fle (finit h0 d pop) in
  exists log r,
    f_calls s' = [log] /\ f_log s' = [r] /\
    map fst log = filter (invalid_in h0) pop /\
    Forall (fun c => snd c = V.geno (V.ind_at h0 (fst c))) log /\
    r_gen r = 0 /\ r_nevals r = length log /\
    (NoDup (filter (invalid_in h0) pop) -> NoDup (map fst log)).
Proof.
  intros Hi. cbv zeta. pose proof (gen0_sim h0 d pop Hi) as SR.
  destruct (gen0_calls evaluate fle (st_of h0 pop) pop) as [log [r [E1 [E2 [E3 [E4 [E5 [E6 E7]]]]]]]].
  assert (Ef : invalid_of (st_of h0 pop) pop = filter (invalid_in h0) pop).
  { unfold invalid_of. apply filter_ext_in. intros u Hu. unfold is_invalid, invalid_in.
    pose proof (fi_pop _ _ Hi) as Po. unfold V.pop_ok in Po. rewrite Forall_forall in Po.
    rewrite (st_of_in h0 pop u Hu (Po u Hu)). reflexivity. }
  rewrite Ef in E3, E7.
  exists log, r. rewrite (sr_calls _ _ SR), (sr_log _ _ SR).
  split; [exact E1|]. split; [exact E2|]. split; [exact E3|]. split; [|auto].
  eapply Forall_impl; [|exact E4]. intros c [i [Si Gi]]. apply st_of_inv in Si. destruct Si as [_ [_ ->]].
  symmetry. exact Gi.
Qed.

End Compose.
