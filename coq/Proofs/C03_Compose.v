(* C03 — composition of the loop theorems (Proofs/C03_Loops.v) with C02's theorems about varAnd /
   varOr (Proofs/C02_Variation.v), for the composed model Model/C03_Full.v.

   Method: a simulation.  `Rel h st` relates the heap of the composed model to a store of the loop
   model: the store is the heap read on the LIVE objects (those the loop ever had in a population or
   an offspring list; objects allocated and dropped inside varAnd / varOr are not in the store), and
   no two live individuals share a Fitness object.  One generation of the composed model is one
   generation of the loop model whose variation answer is what C02's var_and / var_or returned;
   the C02 theorems (parents untouched, offspring independent, valid => copy of a parent, count)
   are exactly what is needed to establish the variation contract off_ok / off_invalid_distinct
   and to re-establish Rel.  By induction over the generations the whole run is a run of the loop
   model satisfying run_ok, so the theorems of Proofs/C03_Loops.v apply, and their conclusions are
   read back on the heap (fview). *)
From Coq Require Import List ZArith Bool Arith Lia.
From DV Require Model.C02_Variation Proofs.C02_Variation.
From DV Require Import Model.C03_Loops Proofs.C03_Loops Model.C03_Full.
Import ListNotations.
Local Open Scope nat_scope.

Module VP := DV.Proofs.C02_Variation.

Section Compose.
Context {G F T : Type}.
Variable evaluate : G -> F.
Variable fle : F -> F -> bool.
Variables ltb leb : T -> T -> bool.
Variable add : T -> T -> T.
Variable one : T.
Variable mate_o : nat -> G * option F -> G * option F -> V.mate_ans G F.
Variable mut_o : nat -> G * option F -> V.mut_ans G F.

Notation heap := (V.heap G F).
Notation ind := (@ind G F).
Notation store := (@store G F).
Notation state := (@state G F).
Notation fstate := (@fstate G F T).
Notation ans := (@ans G F).

(* ------------------------------------------------------------------ *)
(* reading the heap *)

Definition cont (h : heap) (u : nat) : ind := mkind (V.geno (V.ind_at h u)) (V.fit_of h u).

Lemma view_some (h : heap) u : u < V.ni h -> view h u = Some (cont h u).
Proof. intro H. unfold view. apply Nat.ltb_lt in H. rewrite H. reflexivity. Qed.

Lemma view_none (h : heap) u : V.ni h <= u -> view h u = None.
Proof. intro H. unfold view. destruct (Nat.ltb_spec u (V.ni h)); [lia|reflexivity]. Qed.

Lemma view_inv (h : heap) u i : view h u = Some i -> u < V.ni h /\ i = cont h u.
Proof.
  unfold view. destruct (Nat.ltb_spec u (V.ni h)); [|discriminate].
  intro E; inversion E; subst. auto.
Qed.

(* the loop model's read-only functions look at the store only at the members of their list *)
Lemma invalid_of_ext (st st' : store) l :
  (forall u, In u l -> st u = st' u) -> invalid_of st l = invalid_of st' l.
Proof.
  intro H. unfold invalid_of. apply filter_ext_in. intros u Hu. unfold is_invalid. rewrite (H u Hu). reflexivity.
Qed.

Lemma fits_of_ext (st st' : store) l :
  (forall u, In u l -> st u = st' u) -> fits_of st l = fits_of st' l.
Proof.
  induction l as [|u r IH]; intro H; [reflexivity|]. unfold fits_of in *. cbn.
  rewrite (H u (or_introl eq_refl)). f_equal. apply IH. intros v Hv. apply H. right; exact Hv.
Qed.

Lemma hof_update_ext best (st st' : store) l :
  (forall u, In u l -> st u = st' u) -> hof_update fle best st l = hof_update fle best st' l.
Proof. intro H. unfold hof_update. rewrite (fits_of_ext st st' l H). reflexivity. Qed.

Lemma snap_ext (st st' : store) l :
  (forall u, In u l -> st u = st' u) -> snap st l = snap st' l.
Proof. intro H. unfold snap. apply map_ext_in. intros u Hu. rewrite (H u Hu). reflexivity. Qed.

(* ------------------------------------------------------------------ *)
(* the simulation relation between heap and store *)

Record Rel (h : heap) (st : store) : Prop := mkRel {
  rel_wf : V.wf_heap h;
  (* a live object is allocated and the store holds what the heap holds *)
  rel_dom : forall u i, st u = Some i -> u < V.ni h /\ i = cont h u;
  (* live individuals own their Fitness object *)
  rel_inj : forall u v i j, st u = Some i -> st v = Some j ->
            V.fitref (V.ind_at h u) = V.fitref (V.ind_at h v) -> u = v }.

Definition live (st : store) (u : uid) : Prop := st u <> None.

Lemma live_some (st : store) u : live st u -> exists i, st u = Some i.
Proof. unfold live. destruct (st u) as [i|]; [eauto|congruence]. Qed.

Lemma rel_view h st u : Rel h st -> live st u -> st u = view h u.
Proof.
  intros R L. destruct (live_some st u L) as [i E]. destruct (rel_dom h st R u i E) as [H1 H2].
  rewrite E, (view_some h u H1), H2. reflexivity.
Qed.

Lemma rel_view_on h st l : Rel h st -> Forall (live st) l -> forall u, In u l -> view h u = st u.
Proof. intros R L u Hu. rewrite Forall_forall in L. symmetry. apply rel_view; auto. Qed.

(* ind.fitness.values = f on a live individual *)
Lemma rel_set_fit h st u i f :
  Rel h st -> st u = Some i -> Rel (set_fit h u f) (upd st u (mkind (geno i) (Some f))).
Proof.
  intros R E. destruct (rel_dom h st R u i E) as [Hu Hi].
  assert (Dom : forall v j, upd st u (mkind (geno i) (Some f)) v = Some j -> exists j', st v = Some j').
  { intros v j. unfold upd. destruct (Nat.eqb_spec v u) as [->|N]; eauto. }
  constructor.
  - exact (rel_wf h st R).
  - intros v j Hv. unfold upd in Hv. destruct (Nat.eqb_spec v u) as [->|N].
    + inversion Hv; subst j. split; [exact Hu|]. unfold cont, V.fit_of, set_fit; cbn.
      rewrite VP.upd_same. rewrite Hi. reflexivity.
    + destruct (rel_dom h st R v j Hv) as [H1 H2]. split; [exact H1|]. rewrite H2.
      unfold cont, V.fit_of, set_fit; cbn. rewrite VP.upd_other; [reflexivity|].
      intro Eq. apply N. eapply (rel_inj h st R); eassumption.
  - intros v w j k Hv Hw. destruct (Dom v j Hv) as [j' Hv']. destruct (Dom w k Hw) as [k' Hw'].
    cbn. apply (rel_inj h st R v w j' k' Hv' Hw').
Qed.

Lemma live_upd (st : store) u i v : live st v -> live (upd st u i) v.
Proof. unfold live, upd. destruct (Nat.eqb v u); congruence. Qed.

(* evaluation on the heap = evaluation in the store *)
Lemma eval_sim l : forall h st, Rel h st -> Forall (live st) l ->
  Rel (fst (eval_heap evaluate h l)) (fst (eval_list evaluate st l)) /\
  snd (eval_heap evaluate h l) = snd (eval_list evaluate st l).
Proof.
  induction l as [|u r IH]; intros h st R L; cbn [eval_heap eval_list fst snd]; [auto|].
  inversion L as [|? ? Lu Lr]; subst. destruct (live_some st u Lu) as [i E]. rewrite E.
  destruct (rel_dom h st R u i E) as [Hu Hi].
  apply Nat.ltb_lt in Hu. rewrite Hu.
  assert (Eg : V.geno (V.ind_at h u) = geno i) by (rewrite Hi; reflexivity).
  rewrite Eg.
  pose proof (rel_set_fit h st u i (evaluate (geno i)) R E) as R1.
  specialize (IH _ _ R1).
  destruct IH as [IH1 IH2].
  { eapply Forall_impl; [|exact Lr]. intros v Hv. apply live_upd. exact Hv. }
  destruct (eval_heap evaluate (set_fit h u (evaluate (geno i))) r) as [h'' log1].
  destruct (eval_list evaluate (upd st u (mkind (geno i) (Some (evaluate (geno i))))) r) as [st'' log2].
  cbn in *. split; [exact IH1|]. rewrite IH2. reflexivity.
Qed.

Lemma eval_list_live (st : store) l u : live st u -> live (fst (eval_list evaluate st l)) u.
Proof.
  unfold live. intros H N. pose proof (eval_list_same_geno evaluate l st u) as S.
  rewrite N in S. destruct (st u); [discriminate|congruence].
Qed.

(* ------------------------------------------------------------------ *)
(* states *)

Record SRel (fs : fstate) (cs : state) : Prop := mkSRel {
  sr_rel : Rel (f_hp fs) (s_st cs);
  sr_pop : f_pop fs = s_pop cs;
  sr_calls : f_calls fs = s_calls cs;
  sr_log : f_log fs = s_log cs;
  sr_shown : f_shown fs = s_shown cs;
  sr_best : f_best fs = s_best cs;
  sr_live : Forall (live (s_st cs)) (s_pop cs) }.

(* the tail of a generation *)
Lemma ffinish_sim gen (fs : fstate) (cs : state) h1 st1 d1 k1 off newpop :
  f_calls fs = s_calls cs -> f_log fs = s_log cs -> f_shown fs = s_shown cs -> f_best fs = s_best cs ->
  Rel h1 st1 -> Forall (live st1) off -> Forall (live st1) newpop ->
  SRel (ffinish evaluate fle gen fs h1 d1 k1 off newpop) (finish_gen evaluate fle gen cs st1 off newpop).
Proof.
  intros Ec El Es Eb R Loff Lnew. unfold ffinish, finish_gen.
  rewrite (invalid_of_ext (view h1) st1 off (rel_view_on h1 st1 off R Loff)).
  assert (Linv : Forall (live st1) (invalid_of st1 off)).
  { apply Forall_forall. intros u Hu. rewrite Forall_forall in Loff. apply Loff.
    apply (invalid_of_incl st1 off). exact Hu. }
  destruct (eval_sim (invalid_of st1 off) h1 st1 R Linv) as [R2 Elog].
  pose proof (fun u => eval_list_live st1 (invalid_of st1 off) u) as Lv.
  destruct (eval_heap evaluate h1 (invalid_of st1 off)) as [h2 log1].
  destruct (eval_list evaluate st1 (invalid_of st1 off)) as [st2 log2].
  cbn in R2, Elog, Lv. subst log2.
  assert (Loff2 : Forall (live st2) off) by (eapply Forall_impl; [|exact Loff]; intros; apply Lv; assumption).
  assert (Lnew2 : Forall (live st2) newpop) by (eapply Forall_impl; [|exact Lnew]; intros; apply Lv; assumption).
  rewrite (hof_update_ext (f_best fs) (view h2) st2 off (rel_view_on h2 st2 off R2 Loff2)).
  rewrite (snap_ext (view h2) st2 newpop (rel_view_on h2 st2 newpop R2 Lnew2)).
  rewrite Ec, El, Es, Eb.
  constructor; cbn; try reflexivity; assumption.
Qed.

(* ------------------------------------------------------------------ *)
(* what the C02 theorems say about one call of varAnd / varOr, in one record *)

Definition contents (h : heap) (off : list nat) : list (uid * ind) := map (fun o => (o, cont h o)) off.

Record var_post (h0 : heap) (inp : list nat) (h : heap) (lg : list V.event) (off : list nat) : Prop := mk_var_post {
  vp_wf : V.wf_heap h;
  vp_ni : V.ni h0 <= V.ni h;
  vp_unt : V.untouched h0 inp h;                 (* C02 parents_untouched *)
  vp_ind : V.independent h0 h off;               (* C02 offspring_independent *)
  vp_varied : V.varied_invalid h lg off;         (* C02 varied_invalid *)
  vp_valid : forall o f, In o off -> V.fit_of h o = Some f ->   (* C02 valid_is_parent_copy *)
     ~ V.varied lg o /\
     exists p, In p inp /\ V.geno (V.ind_at h o) = V.geno (V.ind_at h0 p) /\ V.fit_of h0 p = Some f }.

Lemma shape_wf (h0 h : heap) : V.wf_heap h0 -> VP.shape G F h0 h -> V.wf_heap h.
Proof.
  intros W S u Hu. destruct (Nat.lt_ge_cases u (V.ni h0)) as [L|L].
  - rewrite (VP.sh_old_ind G F h0 h S u L). pose proof (W u L). pose proof (VP.sh_nf G F h0 h S). lia.
  - apply (VP.sh_new_ref G F h0 h S). lia.
Qed.

Lemma var_and_post (h0 : heap) inp cxpb mutpb d k0 s' off :
  (forall k x y, V.ret_distinct (V.ma_r1 (mate_o k x y)) (V.ma_r2 (mate_o k x y))) ->
  V.wf_heap h0 -> V.pop_ok h0 inp ->
  V.var_and ltb (mate_at mate_o k0) (mut_at mut_o k0) cxpb mutpb (V.start h0 d) inp = (s', inr off) ->
  var_post h0 inp (V.hp s') (V.lg s') off /\ length off = length inp.
Proof.
  intros Hd W P H.
  assert (D : forall k x y, V.ret_distinct (V.ma_r1 (mate_at mate_o k0 k x y)) (V.ma_r2 (mate_at mate_o k0 k x y)))
    by (intros k x y; apply Hd).
  destruct (VP.var_and_inv G F T ltb _ _ h0 inp W P D cxpb mutpb d s' _ H) as [Sh _].
  split.
  - constructor.
    + exact (shape_wf h0 _ W Sh).
    + exact (VP.sh_ni G F h0 _ Sh).
    + exact (VP.and_parents_untouched G F T ltb _ _ h0 inp W P D cxpb mutpb d s' _ H).
    + exact (VP.and_offspring_independent G F T ltb _ _ h0 inp W P D cxpb mutpb d s' _ H off eq_refl).
    + exact (VP.and_varied_invalid G F T ltb _ _ h0 inp W P D cxpb mutpb d s' _ H off eq_refl).
    + intros o f Ho Hf.
      destruct (VP.and_valid_is_parent_copy G F T ltb _ _ h0 inp W P D cxpb mutpb d s' _ H off eq_refl o f Ho Hf)
        as [Nv [p [Hp [_ [Hg Hf0]]]]].
      split; [exact Nv|]. exists p. auto.
  - exact (VP.and_offspring_count G F T ltb _ _ h0 inp W P D cxpb mutpb d s' _ H off eq_refl).
Qed.

Lemma var_or_post (h0 : heap) inp lambda_ cxpb mutpb d k0 s' off :
  V.wf_heap h0 -> V.pop_ok h0 inp ->
  V.var_or ltb leb add one (mate_at mate_o k0) (mut_at mut_o k0) lambda_ cxpb mutpb (V.start h0 d) inp = (s', inr off) ->
  var_post h0 inp (V.hp s') (V.lg s') off /\ length off = Z.to_nat lambda_.
Proof.
  intros W P H.
  destruct (VP.var_or_inv G F T ltb leb add one _ _ h0 inp W P lambda_ cxpb mutpb d s' _ H) as [Sh _].
  split.
  - constructor.
    + exact (shape_wf h0 _ W Sh).
    + exact (VP.sh_ni G F h0 _ Sh).
    + exact (VP.or_parents_untouched G F T ltb _ _ h0 inp W P leb add one lambda_ cxpb mutpb d s' _ H).
    + exact (VP.or_offspring_independent G F T ltb _ _ h0 inp W P leb add one lambda_ cxpb mutpb d s' _ H off eq_refl).
    + exact (VP.or_varied_invalid G F T ltb _ _ h0 inp W P leb add one lambda_ cxpb mutpb d s' _ H off eq_refl).
    + intros o f Ho Hf.
      destruct (VP.or_valid_is_parent_copy G F T ltb _ _ h0 inp W P leb add one lambda_ cxpb mutpb d s' _ H off eq_refl o f Ho Hf)
        as [Nv [p [Hp [_ [Hg Hf0]]]]].
      split; [exact Nv|]. exists p. auto.
  - exact (VP.or_offspring_count G F T ltb _ _ h0 inp W P leb add one lambda_ cxpb mutpb d s' _ H off eq_refl).
Qed.

Lemma contents_fst h off : map fst (contents h off) = off.
Proof. unfold contents. rewrite map_map. cbn. apply map_id. Qed.

Lemma contents_in h off u i : In (u, i) (contents h off) <-> In u off /\ i = cont h u.
Proof.
  unfold contents. rewrite in_map_iff. split.
  - intros [o [E Ho]]. inversion E; subst. auto.
  - intros [Ho ->]. exists u. auto.
Qed.

Lemma NoDup_map_fst_filter {B} (f : uid * B -> bool) (l : list (uid * B)) :
  NoDup (map fst l) -> NoDup (map fst (filter f l)).
Proof.
  induction l as [|x r IH]; intro N; cbn; [constructor|].
  cbn in N. inversion N as [|? ? N1 N2]; subst. destruct (f x); cbn; [|auto].
  constructor; [|auto]. intro I. apply N1. apply in_map_iff in I. destruct I as [y [E I]].
  apply filter_In in I. apply in_map_iff. exists y. split; [exact E|exact (proj1 I)].
Qed.

Lemma untouched_cont (h0 h : heap) inp u :
  V.wf_heap h0 -> V.untouched h0 inp h -> u < V.ni h0 -> cont h u = cont h0 u.
Proof.
  intros W [U1 [U2 _]] Hu. unfold cont, V.fit_of. rewrite (U1 u Hu). rewrite (U2 _ (W u Hu)). reflexivity.
Qed.

(* the C02 post-condition establishes the variation contract of the loop model and re-establishes Rel *)
Lemma var_post_sim (h0 : heap) (st : store) inp (h : heap) lg off :
  Rel h0 st -> Forall (live st) inp -> var_post h0 inp h lg off ->
  off_ok st inp (contents h off) /\ off_invalid_distinct (contents h off) /\
  Rel h (add_objs st (contents h off)) /\
  Forall (live (add_objs st (contents h off))) off /\
  (forall u, live st u -> live (add_objs st (contents h off)) u).
Proof.
  intros R Linp [Wf Ni Unt [Nd [Hfresh [Hold Hnew]]] _ Hvalid].
  assert (Fresh : forall o, In o off -> st o = None).
  { intros o Ho. destruct (st o) as [i|] eqn:E; [|reflexivity].
    destruct (rel_dom h0 st R o i E) as [L _]. destruct (Hfresh o Ho) as [[L' _] _]. lia. }
  assert (O : off_ok st inp (contents h off)).
  { constructor.
    - intros u i I. apply contents_in in I. left. apply Fresh. exact (proj1 I).
    - intros u i i' I I'. apply contents_in in I. apply contents_in in I'. destruct I as [_ ->], I' as [_ ->]. reflexivity.
    - intros u i f I Hf. apply contents_in in I. destruct I as [Hu ->]. cbn in Hf.
      destruct (Hvalid u f Hu Hf) as [_ [p [Hp [Hg Hf0]]]].
      rewrite Forall_forall in Linp. destruct (live_some st p (Linp p Hp)) as [ip Ep].
      destruct (rel_dom h0 st R p ip Ep) as [_ ->].
      exists p, (cont h0 p). cbn. auto. }
  assert (Look : forall u, In u off -> add_objs st (contents h off) u = Some (cont h u)).
  { intros u Hu. eapply off_ok_lookup; [exact O|]. apply contents_in. auto. }
  assert (Cases : forall u i, add_objs st (contents h off) u = Some i ->
            (In u off /\ i = cont h u) \/ (~ In u off /\ st u = Some i)).
  { intros u i E. destruct (in_dec Nat.eq_dec u off) as [I|N].
    - left. rewrite (Look u I) in E. inversion E. auto.
    - right. rewrite add_objs_notin in E by (rewrite contents_fst; exact N). auto. }
  split; [exact O|]. split.
  { unfold off_invalid_distinct. apply NoDup_map_fst_filter. rewrite contents_fst. exact Nd. }
  split; [|split].
  - constructor.
    + exact Wf.
    + intros u i E. destruct (Cases u i E) as [[I ->]|[N E']].
      * destruct (Hfresh u I) as [[_ L] _]. auto.
      * destruct (rel_dom h0 st R u i E') as [L ->]. split; [lia|].
        symmetry. eapply untouched_cont; [exact (rel_wf h0 st R)|exact Unt|exact L].
    + intros u v i j Eu Ev Eq.
      destruct Unt as [U1 _].
      destruct (Cases u i Eu) as [[Iu _]|[Nu Eu']], (Cases v j Ev) as [[Iv _]|[Nv Ev']].
      * destruct (Nat.eq_dec u v) as [|D]; [assumption|]. exfalso.
        apply (Hnew u v (V.LFit (V.fitref (V.ind_at h u))) Iu Iv D); unfold V.reach.
        -- right; left; reflexivity.
        -- right; left. rewrite Eq. reflexivity.
      * exfalso. destruct (rel_dom h0 st R v j Ev') as [Lv _].
        apply (Hold u v (V.LFit (V.fitref (V.ind_at h u))) Iu Lv); unfold V.reach.
        -- right; left; reflexivity.
        -- right; left. rewrite Eq. reflexivity.
      * exfalso. destruct (rel_dom h0 st R u i Eu') as [Lu _].
        apply (Hold v u (V.LFit (V.fitref (V.ind_at h v))) Iv Lu); unfold V.reach.
        -- right; left; reflexivity.
        -- right; left. rewrite Eq. reflexivity.
      * destruct (rel_dom h0 st R u i Eu') as [Lu _]. destruct (rel_dom h0 st R v j Ev') as [Lv _].
        rewrite (U1 u Lu), (U1 v Lv) in Eq. eapply (rel_inj h0 st R); eassumption.
  - apply Forall_forall. intros u Hu. unfold live. rewrite (Look u Hu). discriminate.
  - intros u Lu. destruct (live_some st u Lu) as [i E]. unfold live.
    rewrite (off_ok_extends st inp _ O u i E). discriminate.
Qed.

(* ------------------------------------------------------------------ *)
(* one generation of the composed model is one generation of the loop model *)

(* the selection contract: the requested number of positions, all inside the argument list (of length n) *)
Definition sel_in (n k : nat) (sel : list nat) : Prop := length sel = k /\ Forall (fun i => i < n) sel.

Lemma pop_ok_live h st l : Rel h st -> Forall (live st) l -> V.pop_ok h l.
Proof.
  intros R L. unfold V.pop_ok. eapply Forall_impl; [|exact L]. intros u Lu.
  destruct (live_some st u Lu) as [i E]. exact (proj1 (rel_dom h st R u i E)).
Qed.

Lemma live_incl (st : store) l l' : incl l l' -> Forall (live st) l' -> Forall (live st) l.
Proof. intros I Fl. apply Forall_forall. intros u Hu. rewrite Forall_forall in Fl. auto. Qed.

(* the answer of the loop model's variation oracle that a call of var_and / var_or amounts to *)
Definition var_ans (sel : list nat) (s1 : V.st G F T) (off : list nat) : ans :=
  mkans sel (contents (V.hp s1) off).

Section Distinct.
(* the hypothesis C02 needs for varAnd: toolbox.mate returns two different objects *)
Hypothesis mate_distinct : forall k x y, V.ret_distinct (V.ma_r1 (mate_o k x y)) (V.ma_r2 (mate_o k x y)).

Lemma fstep_simple_sim cxpb mutpb gen (fs : fstate) (cs : state) sel fs' :
  SRel fs cs -> sel_in (length (s_pop cs)) (length (s_pop cs)) sel ->
  fstep_simple evaluate fle ltb mate_o mut_o cxpb mutpb gen fs sel = FOk fs' ->
  exists s1 off,
    call_var_and ltb mate_o mut_o cxpb mutpb fs (select_by (f_pop fs) sel) = (s1, inr off) /\
    var_post (f_hp fs) (select_by (f_pop fs) sel) (V.hp s1) (V.lg s1) off /\
    length off = length (f_pop fs) /\
    ans_ok_simple cs (var_ans sel s1 off) /\ off_invalid_distinct (a_off (var_ans sel s1 off)) /\
    SRel fs' (step_simple evaluate fle gen cs (var_ans sel s1 off)).
Proof.
  intros S [Sl Sr] H. pose proof S as [R Ep Ec El Es Eb Lv].
  unfold fstep_simple in H.
  destruct (call_var_and ltb mate_o mut_o cxpb mutpb fs (select_by (f_pop fs) sel)) as [s1 [e0|off]] eqn:Ev;
    [discriminate|].
  inversion H; subst fs'; clear H. exists s1, off. split; [reflexivity|].
  unfold call_var_and in Ev. rewrite Ep in *.
  assert (Lsel : Forall (live (s_st cs)) (select_by (s_pop cs) sel))
    by (eapply live_incl; [apply select_by_incl; exact Sr|exact Lv]).
  destruct (var_and_post _ _ _ _ _ _ _ _ mate_distinct (rel_wf _ _ R) (pop_ok_live _ _ _ R Lsel) Ev) as [VPo Len].
  destruct (var_post_sim _ _ _ _ _ _ R Lsel VPo) as [O [D [R' [Loff Lext]]]].
  split; [exact VPo|]. split; [rewrite Len, select_by_length; exact Sl|].
  split; [|split; [exact D|]].
  - split; [split; assumption|]. split; [exact O|]. cbn. unfold contents.
    rewrite map_length, Len, select_by_length. reflexivity.
  - unfold step_simple, var_ans. cbn [a_off]. rewrite contents_fst. apply ffinish_sim; assumption.
Qed.

End Distinct.

Lemma fstep_plus_sim mu lambda_ cxpb mutpb gen (fs : fstate) (cs : state) sel fs' :
  SRel fs cs -> sel_in (length (s_pop cs) + Z.to_nat lambda_) mu sel ->
  fstep_plus evaluate fle ltb leb add one mate_o mut_o lambda_ cxpb mutpb gen fs sel = FOk fs' ->
  exists s1 off,
    call_var_or ltb leb add one mate_o mut_o lambda_ cxpb mutpb fs (f_pop fs) = (s1, inr off) /\
    var_post (f_hp fs) (f_pop fs) (V.hp s1) (V.lg s1) off /\ length off = Z.to_nat lambda_ /\
    ans_ok_plus mu (Z.to_nat lambda_) cs (var_ans sel s1 off) /\
    off_invalid_distinct (a_off (var_ans sel s1 off)) /\
    SRel fs' (step_plus evaluate fle gen cs (var_ans sel s1 off)).
Proof.
  intros S [Sl Sr] H. pose proof S as [R Ep Ec El Es Eb Lv].
  unfold fstep_plus in H.
  destruct (call_var_or ltb leb add one mate_o mut_o lambda_ cxpb mutpb fs (f_pop fs)) as [s1 [e0|off]] eqn:Ev;
    [discriminate|].
  inversion H; subst fs'; clear H. exists s1, off. split; [reflexivity|].
  unfold call_var_or in Ev. rewrite Ep in *.
  destruct (var_or_post _ _ _ _ _ _ _ _ _ (rel_wf _ _ R) (pop_ok_live _ _ _ R Lv) Ev) as [VPo Len].
  destruct (var_post_sim _ _ _ _ _ _ R Lv VPo) as [O [D [R' [Loff Lext]]]].
  assert (Sr' : Forall (fun i => i < length (s_pop cs ++ off)) sel).
  { assert (E : length (s_pop cs ++ off) = length (s_pop cs) + Z.to_nat lambda_) by (rewrite app_length; f_equal; exact Len).
    rewrite E. exact Sr. }
  split; [exact VPo|]. split; [exact Len|]. split; [|split; [exact D|]].
  - split; [exact O|]. cbn. split; [unfold contents; rewrite map_length; exact Len|].
    rewrite contents_fst. split; assumption.
  - unfold step_plus, var_ans. cbn [a_off a_sel]. rewrite contents_fst. apply ffinish_sim; try assumption.
    eapply live_incl; [apply select_by_incl; exact Sr'|].
    apply Forall_app. split; [|exact Loff]. eapply Forall_impl; [|exact Lv]. exact Lext.
Qed.

Lemma fstep_comma_sim mu lambda_ cxpb mutpb gen (fs : fstate) (cs : state) sel fs' :
  SRel fs cs -> sel_in (Z.to_nat lambda_) mu sel ->
  fstep_comma evaluate fle ltb leb add one mate_o mut_o lambda_ cxpb mutpb gen fs sel = FOk fs' ->
  exists s1 off,
    call_var_or ltb leb add one mate_o mut_o lambda_ cxpb mutpb fs (f_pop fs) = (s1, inr off) /\
    var_post (f_hp fs) (f_pop fs) (V.hp s1) (V.lg s1) off /\ length off = Z.to_nat lambda_ /\
    ans_ok_comma mu (Z.to_nat lambda_) cs (var_ans sel s1 off) /\
    off_invalid_distinct (a_off (var_ans sel s1 off)) /\
    SRel fs' (step_comma evaluate fle gen cs (var_ans sel s1 off)).
Proof.
  intros S [Sl Sr] H. pose proof S as [R Ep Ec El Es Eb Lv].
  unfold fstep_comma in H.
  destruct (call_var_or ltb leb add one mate_o mut_o lambda_ cxpb mutpb fs (f_pop fs)) as [s1 [e0|off]] eqn:Ev;
    [discriminate|].
  inversion H; subst fs'; clear H. exists s1, off. split; [reflexivity|].
  unfold call_var_or in Ev. rewrite Ep in *.
  destruct (var_or_post _ _ _ _ _ _ _ _ _ (rel_wf _ _ R) (pop_ok_live _ _ _ R Lv) Ev) as [VPo Len].
  destruct (var_post_sim _ _ _ _ _ _ R Lv VPo) as [O [D [R' [Loff Lext]]]].
  assert (Sr' : Forall (fun i => i < length off) sel).
  { rewrite <- Len in Sr. exact Sr. }
  split; [exact VPo|]. split; [exact Len|]. split; [|split; [exact D|]].
  - split; [exact O|]. cbn. split; [unfold contents; rewrite map_length; exact Len|].
    rewrite contents_fst. split; assumption.
  - unfold step_comma, var_ans. cbn [a_off a_sel]. rewrite contents_fst. apply ffinish_sim; try assumption.
    eapply live_incl; [apply select_by_incl; exact Sr'|exact Loff].
Qed.

(* tools.selBest reads the fitnesses of the members of its argument only *)
Lemma insert_desc_ext (st st' : store) x l :
  (forall y, In y (x :: l) -> st y = st' y) -> insert_desc fle st x l = insert_desc fle st' x l.
Proof.
  induction l as [|y r IH]; intro H; [reflexivity|]. cbn.
  unfold fit_lt. rewrite (H x (or_introl eq_refl)), (H y (or_intror (or_introl eq_refl))).
  rewrite IH; [reflexivity|]. intros z [Hz|Hz]; apply H; [left; exact Hz|right; right; exact Hz].
Qed.

Lemma insert_desc_incl (st : store) x l z : In z (insert_desc fle st x l) -> z = x \/ In z l.
Proof.
  induction l as [|y r IH]; cbn.
  - intros [E|[]]. left; auto.
  - destruct (fit_lt fle st x y); cbn.
    + intros [E|Hz]; [right; left; exact E|]. destruct (IH Hz) as [E|Hr]; [left; exact E|right; right; exact Hr].
    + intros [E|[E|Hz]]; [left; auto|right; left; exact E|right; right; exact Hz].
Qed.

Lemma sort_desc_sub (st : store) l z : In z (sort_desc fle st l) -> In z l.
Proof.
  induction l as [|x r IH]; [auto|]. intro H.
  change (In z (insert_desc fle st x (sort_desc fle st r))) in H. apply insert_desc_incl in H.
  destruct H as [E|H]; [left; auto|right; apply IH; exact H].
Qed.

Lemma sort_desc_ext (st st' : store) l :
  (forall u, In u l -> st u = st' u) -> sort_desc fle st l = sort_desc fle st' l.
Proof.
  induction l as [|x r IH]; intro H; [reflexivity|].
  change (insert_desc fle st x (sort_desc fle st r) = insert_desc fle st' x (sort_desc fle st' r)).
  rewrite <- IH by (intros u Hu; apply H; right; exact Hu).
  apply insert_desc_ext. intros y [E|Hy]; apply H; [left; exact E|right; eapply sort_desc_sub; exact Hy].
Qed.

Lemma sel_best_ext (st st' : store) l k :
  (forall u, In u l -> st u = st' u) -> sel_best fle st l k = sel_best fle st' l k.
Proof. intro H. unfold sel_best. rewrite (sort_desc_ext st st' l H). reflexivity. Qed.

Lemma sel_best_sub (st : store) l k : incl (sel_best fle st l k) l.
Proof.
  intros z Hz. unfold sel_best in Hz. apply (sort_desc_sub st l z).
  revert Hz. generalize (sort_desc fle st l). intro m. revert k. induction m as [|a m IH]; intros [|k]; cbn; try (intro H0; exact (False_ind _ H0)).
  intros [E|H]; [left; exact E|right; eapply IH; exact H].
Qed.

Lemma fstep_plus_best_sim mu lambda_ cxpb mutpb gen (fs : fstate) (cs : state) x fs' :
  SRel fs cs ->
  fstep_plus_best evaluate fle ltb leb add one mate_o mut_o mu lambda_ cxpb mutpb gen fs x = FOk fs' ->
  exists s1 off,
    call_var_or ltb leb add one mate_o mut_o lambda_ cxpb mutpb fs (f_pop fs) = (s1, inr off) /\
    off_ok (s_st cs) (s_pop cs) (contents (V.hp s1) off) /\ length off = Z.to_nat lambda_ /\
    SRel fs' (step_plus_best evaluate fle mu gen cs (var_ans [] s1 off)).
Proof.
  intros S H. pose proof S as [R Ep Ec El Es Eb Lv].
  unfold fstep_plus_best in H.
  destruct (call_var_or ltb leb add one mate_o mut_o lambda_ cxpb mutpb fs (f_pop fs)) as [s1 [e0|off]] eqn:Ev;
    [discriminate|].
  inversion H; subst fs'; clear H. exists s1, off. split; [reflexivity|].
  unfold call_var_or in Ev. rewrite Ep in *.
  destruct (var_or_post _ _ _ _ _ _ _ _ _ (rel_wf _ _ R) (pop_ok_live _ _ _ R Lv) Ev) as [VPo Len].
  destruct (var_post_sim _ _ _ _ _ _ R Lv VPo) as [O [D [R' [Loff Lext]]]].
  split; [exact O|]. split; [exact Len|].
  unfold step_plus_best, var_ans. cbn [a_off a_sel]. rewrite contents_fst.
  set (st1 := add_objs (s_st cs) (contents (V.hp s1) off)) in *.
  assert (Lall : Forall (live st1) (s_pop cs ++ off)).
  { apply Forall_app. split; [|exact Loff]. eapply Forall_impl; [|exact Lv]. exact Lext. }
  rewrite (invalid_of_ext (view (V.hp s1)) st1 off (rel_view_on _ _ off R' Loff)).
  assert (Linv : Forall (live st1) (invalid_of st1 off)).
  { eapply live_incl; [apply invalid_of_incl|exact Loff]. }
  destruct (eval_sim (invalid_of st1 off) _ _ R' Linv) as [R2 _].
  assert (Lall2 : Forall (live (fst (eval_list evaluate st1 (invalid_of st1 off)))) (s_pop cs ++ off)).
  { eapply Forall_impl; [|exact Lall]. intros u Hu. apply eval_list_live. exact Hu. }
  rewrite (sel_best_ext _ _ (s_pop cs ++ off) mu (rel_view_on _ _ _ R2 Lall2)).
  apply ffinish_sim; try assumption.
  eapply live_incl; [apply sel_best_sub|exact Lall].
Qed.

Lemma insert_desc_len (st : store) x l : length (insert_desc fle st x l) = S (length l).
Proof. induction l as [|y r IH]; cbn; [reflexivity|]. destruct (fit_lt fle st x y); cbn; [rewrite IH|]; reflexivity. Qed.

Lemma sort_desc_len (st : store) l : length (sort_desc fle st l) = length l.
Proof.
  induction l as [|x r IH]; [reflexivity|].
  change (length (insert_desc fle st x (sort_desc fle st r)) = S (length r)). rewrite insert_desc_len, IH. reflexivity.
Qed.

Lemma ffinish_pop gen (fs : fstate) h1 (d1 : list (V.draw T)) k1 off newpop :
  f_pop (ffinish evaluate fle gen fs h1 d1 k1 off newpop) = newpop.
Proof. unfold ffinish. destruct (eval_heap evaluate h1 (invalid_of (view h1) off)). reflexivity. Qed.

(* a generation with tools.selBest is a generation of eaMuPlusLambda for some selection answer *)
Lemma fstep_plus_best_is_plus mu lambda_ cxpb mutpb gen (fs : fstate) x fs' :
  fstep_plus_best evaluate fle ltb leb add one mate_o mut_o mu lambda_ cxpb mutpb gen fs x = FOk fs' ->
  exists sel, fstep_plus evaluate fle ltb leb add one mate_o mut_o lambda_ cxpb mutpb gen fs sel = FOk fs' /\
              length sel = length (f_pop fs') /\ length (f_pop fs') <= mu /\
              (exists s1 off, call_var_or ltb leb add one mate_o mut_o lambda_ cxpb mutpb fs (f_pop fs) = (s1, inr off) /\
                 Forall (fun i => i < length (f_pop fs) + length off) sel /\
                 length (f_pop fs') = Nat.min mu (length (f_pop fs) + length off)).
Proof.
  unfold fstep_plus_best, fstep_plus.
  destruct (call_var_or ltb leb add one mate_o mut_o lambda_ cxpb mutpb fs (f_pop fs)) as [s1 [e0|off]] eqn:Ev;
    [discriminate|].
  set (h2 := fst (eval_heap evaluate (V.hp s1) (invalid_of (view (V.hp s1)) off))).
  intro H; inversion H; subst fs'; clear H.
  destruct (incl_select_by (f_pop fs ++ off) (sel_best fle (view h2) (f_pop fs ++ off) mu) (sel_best_sub _ _ _))
    as [idxs [E Fi]].
  exists idxs. rewrite <- E.
  assert (Lb : length (sel_best fle (view h2) (f_pop fs ++ off) mu) = Nat.min mu (length (f_pop fs) + length off)).
  { unfold sel_best. rewrite firstn_length, sort_desc_len, app_length. reflexivity. }
  split; [reflexivity|]. rewrite ffinish_pop. split; [rewrite E; symmetry; apply select_by_length|].
  split; [rewrite Lb; apply Nat.le_min_l|].
  exists s1, off. split; [reflexivity|]. split; [rewrite <- app_length; exact Fi|exact Lb].
Qed.

End Compose.
