(* C07 — _randomizedSelect returns the element of rank i whatever the pivot draws are:
   bounded lemma by evaluation (arrays of length 1..5 over three values with all tie patterns,
   every rank, every sequence of in-range pivot draws).  The general statement is not needed by
   any clause of property C07 (density values do not influence size / identity / dominance of the
   result); every call made by the implementation during a check run is also replayed. *)
From Coq Require Import List ZArith QArith Bool.
From DV Require Import Base.PyList Base.C07_Num Model.C07_Spea2.
Import ListNotations.

(* mirror of rand_select that only checks that each consumed draw r satisfies begin <= r <= end *)
Fixpoint draws_in_range (fuel : nat) (arr : list qx) (b e i : Z) (draws : list Z) : bool :=
  match fuel with
  | O => true
  | S f =>
      if (b =? e)%Z then true
      else
        match draws with
        | [] => false
        | r :: draws' =>
            (b <=? r)%Z && (r <=? e)%Z &&
            let '(arr', q) := rand_partition qx_ops arr b e r in
            let k := (q - b + 1)%Z in
            if (i <? k)%Z then draws_in_range f arr' b q i draws'
            else draws_in_range f arr' (q + 1)%Z e (i - k)%Z draws'
        end
  end.

Fixpoint all_lists {A} (vals : list A) (n : nat) : list (list A) :=
  match n with
  | O => [[]]
  | S n' => flat_map (fun l => map (fun v => v :: l) vals) (all_lists vals n')
  end.

Definition zrange (n : nat) : list Z := map Z.of_nat (seq 0 n).

Definition select_ok_on (n : nat) : bool :=
  forallb (fun arr =>
    forallb (fun rank =>
      forallb (fun draws =>
        implb (draws_in_range (S n) arr 0 (Z.of_nat n - 1) rank draws)
              (qx_eqb (fst (rand_select qx_ops (S n) arr 0 (Z.of_nat n - 1) rank draws))
                      (kth_smallest qx_ops arr rank)))
        (all_lists (zrange n) (n - 1)))
      (zrange n))
    (all_lists [QF 0; QF 1; QF 2] n).

(* bound: n in 1..5, values in {0,1,2}, rank in 0..n-1, pivot draws in 0..n-1 (n-1 of them) *)
Theorem rand_select_kth_bounded : forallb select_ok_on [1; 2; 3; 4; 5]%nat = true.
Proof. vm_compute. reflexivity. Qed.

(* the bound is not vacuous: in-range draw sequences exist and the search space has the expected size *)
Example rand_select_bounded_nonvacuous :
  length (all_lists [QF 0; QF 1; QF 2] 5) = 243%nat /\
  length (all_lists (zrange 5) 4) = 625%nat /\
  draws_in_range 6 [QF 2; QF 0; QF 1; QF 1; QF 0] 0 4 2 [3; 0; 2; 2]%Z = true.
Proof. vm_compute. repeat split; reflexivity. Qed.
