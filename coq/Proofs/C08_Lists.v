(* List-level facts behind the archive model: Python del / insert, mirrored lists, the order
   on weighted fitness tuples, and bisect_right. *)
From Coq Require Import List ZArith Bool Lia Sorted.
From DV Require Import Base.PyTuple Base.PyList Model.C01_Fitness Proofs.C01_Fitness Model.C08_Archive.
Import ListNotations.
Local Open Scope Z_scope.

(* ---------- del_nth / ins_nth ---------- *)
Lemma del_nth_length {A} (l : list A) k : (k < length l)%nat -> length (del_nth l k) = (length l - 1)%nat.
Proof.
  revert k; induction l as [|x r IH]; intros k H; cbn in *; [lia|].
  destruct k; cbn; [lia|]. rewrite IH by lia. destruct r; cbn in *; lia.
Qed.

Lemma del_nth_app_r {A} (p q : list A) : del_nth (p ++ q) (length p) = p ++ del_nth q 0.
Proof. induction p as [|x p IH]; cbn; [destruct q; reflexivity|]. now rewrite IH. Qed.

Lemma del_nth_mid {A} (p : list A) x q : del_nth (p ++ x :: q) (length p) = p ++ q.
Proof. rewrite del_nth_app_r. reflexivity. Qed.

Lemma nth_split {A} (l : list A) k : (k < length l)%nat ->
  exists p x q, l = p ++ x :: q /\ length p = k.
Proof.
  revert k; induction l as [|y r IH]; intros k H; cbn in H; [lia|].
  destruct k.
  - exists [], y, r. split; reflexivity.
  - destruct (IH k) as (p & x & q & E & L); [lia|]. exists (y :: p), x, q. subst. split; reflexivity.
Qed.

Lemma del_nth_rev {A} (l : list A) k : (k < length l)%nat ->
  del_nth (rev l) (length l - 1 - k) = rev (del_nth l k).
Proof.
  intro H. destruct (nth_split l k H) as (p & x & q & -> & L). subst k.
  rewrite del_nth_mid. rewrite !rev_app_distr. cbn [rev]. rewrite <- app_assoc. cbn [app].
  replace (length (p ++ x :: q) - 1 - length p)%nat with (length (rev q)).
  - apply del_nth_mid.
  - rewrite rev_length, app_length. cbn. lia.
Qed.

Lemma del_nth_last {A} (l : list A) : l <> [] -> del_nth l (length l - 1) = removelast l.
Proof.
  intro H. destruct (exists_last H) as (p & x & ->).
  rewrite removelast_last. rewrite app_length. cbn [length].
  replace (length p + 1 - 1)%nat with (length p) by lia. rewrite del_nth_mid. apply app_nil_r.
Qed.

Lemma del_nth_In {A} (l : list A) k x : In x (del_nth l k) -> In x l.
Proof.
  revert k; induction l as [|y r IH]; intros k H; cbn in *; [assumption|].
  destruct k; cbn in H; [auto|]. destruct H as [H|H]; [auto|right; eapply IH; eassumption].
Qed.

Lemma ins_nth_app {A} (p q : list A) v : ins_nth (p ++ q) (length p) v = p ++ v :: q.
Proof. induction p as [|x p IH]; cbn; [destruct q; reflexivity|]. now rewrite IH. Qed.

(* ---------- Python index forms ---------- *)
Lemma zlen_app {A} (p q : list A) : zlen (p ++ q) = zlen p + zlen q.
Proof. unfold zlen. rewrite app_length. lia. Qed.
Lemma zlen_cons {A} (x : A) l : zlen (x :: l) = 1 + zlen l.
Proof. unfold zlen. cbn [length]. lia. Qed.
Lemma zlen_nonneg {A} (l : list A) : 0 <= zlen l.
Proof. unfold zlen. lia. Qed.
Lemma zlen_rev {A} (l : list A) : zlen (rev l) = zlen l.
Proof. unfold zlen. now rewrite rev_length. Qed.
Lemma zlen_map {A B} (f : A -> B) l : zlen (map f l) = zlen l.
Proof. unfold zlen. now rewrite map_length. Qed.

Lemma py_insert_app {A} (p q : list A) v : py_insert (p ++ q) (zlen p) v = p ++ v :: q.
Proof.
  unfold py_insert. rewrite zlen_app.
  pose proof (zlen_nonneg p). pose proof (zlen_nonneg q).
  assert (E1 : zlen p <? 0 = false) by (apply Z.ltb_ge; lia).
  assert (E2 : zlen p + zlen q <? zlen p = false) by (apply Z.ltb_ge; lia).
  cbv zeta. rewrite !E1, E2.
  replace (Z.to_nat (zlen p)) with (length p) by (unfold zlen; lia). apply ins_nth_app.
Qed.

(* del l[i] for a valid non-negative or negative index *)
Lemma py_del_nonneg {A} (l : list A) (k : nat) : (k < length l)%nat ->
  py_del l (Z.of_nat k) = Some (del_nth l k).
Proof.
  intro H. unfold py_del, zlen.
  destruct (Z.ltb_spec (Z.of_nat k) 0); [lia|].
  destruct (Z.ltb_spec (Z.of_nat k) 0); [lia|].
  destruct (Z.leb_spec (Z.of_nat (length l)) (Z.of_nat k)); [lia|].
  cbn. now rewrite Nat2Z.id.
Qed.

Lemma py_del_neg {A} (l : list A) (k : nat) : (k < length l)%nat ->
  py_del l (Z.of_nat k - zlen l) = Some (del_nth l k).
Proof.
  intro H. unfold py_del, zlen.
  destruct (Z.ltb_spec (Z.of_nat k - Z.of_nat (length l)) 0); [|lia].
  replace (Z.of_nat k - Z.of_nat (length l) + Z.of_nat (length l)) with (Z.of_nat k) by lia.
  destruct (Z.ltb_spec (Z.of_nat k) 0); [lia|].
  destruct (Z.leb_spec (Z.of_nat (length l)) (Z.of_nat k)); [lia|].
  cbn. now rewrite Nat2Z.id.
Qed.

Lemma py_get_last {A} (l : list A) (d : A) : l <> [] -> py_get l (-1) = Some (last l d).
Proof.
  intro H. destruct (exists_last H) as (p & x & ->). rewrite last_last.
  unfold py_get. rewrite zlen_app. change (zlen [x]) with 1.
  set (n := zlen p). assert (0 <= n) by apply zlen_nonneg.
  change (-1 <? 0) with true. cbv iota zeta.
  assert (E1 : -1 + (n + 1) <? 0 = false) by (apply Z.ltb_ge; lia).
  assert (E2 : n + 1 <=? -1 + (n + 1) = false) by (apply Z.leb_gt; lia).
  rewrite E1, E2. cbn [orb].
  replace (Z.to_nat (-1 + (n + 1))) with (length p) by (unfold n, zlen; lia).
  rewrite nth_error_app2 by lia. now rewrite Nat.sub_diag.
Qed.

(* ---------- the order on weighted fitness tuples ---------- *)
Lemma fit_lt_spec a b : fit_lt a b = true <-> lex_lt a b.
Proof. apply tup_lt_spec. Qed.
Lemma fit_eq_spec a b : fit_eq a b = true <-> a = b.
Proof. apply tup_eq_spec. Qed.
Lemma fit_le_spec a b : fit_le a b = true <-> (lex_lt a b \/ a = b).
Proof. apply tup_le_spec. Qed.

Lemma fit_gt_lt a b : fit_gt a b = fit_lt b a.
Proof.
  apply eq_true_iff_eq. unfold fit_gt. rewrite negb_true_iff, fit_lt_spec.
  destruct (fit_le a b) eqn:E.
  - apply fit_le_spec in E. split; [discriminate|]. intro H. destruct E as [E|E].
    + exfalso; eapply lex_lt_asym; eassumption.
    + subst. exfalso; eapply lex_lt_irrefl; eassumption.
  - split; [|reflexivity]. intros _.
    destruct (lex_trichotomy a b) as [H|[H|H]]; [| |exact H].
    + assert (fit_le a b = true) by (apply fit_le_spec; auto). congruence.
    + assert (fit_le a b = true) by (apply fit_le_spec; auto). congruence.
Qed.

Lemma fit_lt_irrefl a : fit_lt a a = false.
Proof. destruct (fit_lt a a) eqn:E; [|reflexivity]. apply fit_lt_spec in E. now apply lex_lt_irrefl in E. Qed.

Lemma fit_lt_trans a b c : fit_lt a b = true -> fit_lt b c = true -> fit_lt a c = true.
Proof. rewrite !fit_lt_spec. apply lex_lt_trans. Qed.

(* a >= b, written  fit_lt a b = false ; it is a total preorder *)
Lemma fit_ge_trans a b c : fit_lt a b = false -> fit_lt b c = false -> fit_lt a c = false.
Proof.
  intros H1 H2. destruct (fit_lt a c) eqn:E; [|reflexivity]. apply fit_lt_spec in E.
  destruct (lex_trichotomy a b) as [H|[H|H]].
  - apply fit_lt_spec in H. congruence.
  - subst. apply fit_lt_spec in E. congruence.
  - assert (lex_lt b c) by (eapply lex_lt_trans; eassumption).
    apply fit_lt_spec in H0. congruence.
Qed.

Lemma fit_lt_ge_trans a b c : fit_lt a b = true -> fit_lt c b = false -> fit_lt a c = true.
Proof.
  intros H1 H2. apply fit_lt_spec in H1. apply fit_lt_spec.
  destruct (lex_trichotomy c b) as [H|[H|H]].
  - apply fit_lt_spec in H. congruence.
  - now subst.
  - eapply lex_lt_trans; eassumption.
Qed.

Lemma fit_ge_lt_trans a b c : fit_lt b a = false -> fit_lt b c = true -> fit_lt a c = true.
Proof.
  intros H1 H2. apply fit_lt_spec in H2. apply fit_lt_spec.
  destruct (lex_trichotomy b a) as [H|[H|H]].
  - apply fit_lt_spec in H. congruence.
  - now subst.
  - eapply lex_lt_trans; eassumption.
Qed.

Lemma fit_lt_asym a b : fit_lt a b = true -> fit_lt b a = false.
Proof.
  intro H. destruct (fit_lt b a) eqn:E; [|reflexivity].
  apply fit_lt_spec in H, E. exfalso; eapply lex_lt_asym; eassumption.
Qed.

(* dominance facts re-exported from the C01 development (fit_dom is its [dom]) *)
Lemma fit_dom_is_dom a b : fit_dom a b = dom a b.
Proof. reflexivity. Qed.
Lemma fit_dom_irrefl a : fit_dom a a = false.
Proof. apply dom_irrefl. Qed.
Lemma fit_dom_trans a b c : length a = length b -> length b = length c ->
  fit_dom a b = true -> fit_dom b c = true -> fit_dom a c = true.
Proof. apply dom_trans. Qed.
Lemma fit_dom_spec a b :
  fit_dom a b = true <->
  (Forall (fun p => fst p >= snd p) (zip a b) /\ Exists (fun p => fst p > snd p) (zip a b)).
Proof. apply dom_spec. Qed.

(* ---------- bisect_right ---------- *)
(* If the list splits into a part where  x < y  fails followed by a part where it holds, the
   binary search returns the split point. *)
Lemma bisect_loop_split (x : list Z) (l1 l2 : list (list Z)) :
  (forall y, In y l1 -> fit_lt x y = false) ->
  (forall y, In y l2 -> fit_lt x y = true) ->
  forall fuel lo hi, (lo <= length l1 <= hi)%nat -> (hi <= length (l1 ++ l2))%nat -> (hi - lo < fuel)%nat ->
  bisect_loop fuel (l1 ++ l2) x lo hi = length l1.
Proof.
  intros H1 H2. induction fuel as [|f IH]; intros lo hi B Hh Hf; [lia|].
  cbn [bisect_loop]. destruct (Nat.ltb_spec lo hi) as [L|L]; [|lia].
  assert (Hm : (lo <= Nat.div2 (lo + hi) < hi)%nat).
  { rewrite Nat.div2_div. split.
    - apply Nat.div_le_lower_bound; lia.
    - apply Nat.div_lt_upper_bound; lia. }
  set (mid := Nat.div2 (lo + hi)) in *.
  destruct (nth_error (l1 ++ l2) mid) as [am|] eqn:E.
  - destruct (Nat.lt_ge_cases mid (length l1)) as [C|C].
    + rewrite nth_error_app1 in E by assumption.
      rewrite (H1 am) by (eapply nth_error_In; eassumption). apply IH; lia.
    + rewrite nth_error_app2 in E by assumption.
      rewrite (H2 am) by (eapply nth_error_In; eassumption). apply IH; lia.
  - apply nth_error_None in E. lia.
Qed.

Lemma bisect_right_split (x : list Z) (l1 l2 : list (list Z)) :
  (forall y, In y l1 -> fit_lt x y = false) ->
  (forall y, In y l2 -> fit_lt x y = true) ->
  bisect_right (l1 ++ l2) x = length l1.
Proof.
  intros H1 H2. unfold bisect_right. apply bisect_loop_split; try assumption; try lia.
  rewrite app_length. lia.
Qed.
