(* Composition of C05 with C04: the fronts produced by C04's models of sortNondominated and
   sortLogNondominated (called as selNSGA2 calls them) satisfy `fronts_correct`, for every
   well-formed non-empty population; hence every clause proved about `sel_nsga2 o fronts k` under
   the hypothesis `fronts_correct pop k fronts` holds of `sel_nsga2_full o nd pop k`
   (Model/C05_Full.v) with that hypothesis gone.

   Used from C04 (committed files, not edited): nd_leading_fronts (Proofs/C04_Spec.v),
   log_leading_fronts (Proofs/C04_LogFinal.v), nd_k0, log_k0.  The fuel of both sorters is
   discharged inside those theorems (`sort_nd ... = Some fs`, `sort_log ... = Some (LFronts fs)`).
   What is added here: the two notions of dominance coincide on tuples of equal length, C05's
   peeling `layers` is C04's `spec_fronts` under the forgetful map `to4`, and the translation
   of "shortest prefix reaching min(k, n)" into the two inequalities of `fronts_correct`. *)
From Coq Require Import List ZArith Bool Lia Permutation Arith.
From DV Require Import Base.Corr Base.PyList Base.C05_Sort Base.C05_List
     Model.C05_Nsga2 Model.C05_Spec Model.C05_Full Proofs.C05_Spec Proofs.C05_Nsga2.
From DV Require Model.C01_Fitness Model.C04_NDSort Model.C04_LogSort
     Proofs.C04_NDSort Proofs.C04_Spec Proofs.C04_LogFinal.
Import ListNotations.

Notation ind4 := C04_NDSort.ind.
Notation uid4 := C04_NDSort.uid.
Notation iw4 := C04_NDSort.iw.

(* ---------- dominance: C05's specification = Fitness.dominates as modelled by C01/C04 ---------- *)
Lemma dom_loop_eq : forall (a b : list Z) ne,
  C01_Fitness.dom_loop (zip a b) ne =
  forallb (fun p => (snd p <=? fst p)%Z) (zip a b) &&
  (ne || existsb (fun p => (snd p <? fst p)%Z) (zip a b)).
Proof.
  induction a as [|s a IH]; intros [|t b] ne; cbn [zip C01_Fitness.dom_loop forallb existsb fst snd];
    try (rewrite orb_false_r; reflexivity).
  rewrite Z.gtb_ltb.
  destruct (Z.ltb_spec t s) as [G|G].
  - rewrite IH. destruct (Z.leb_spec t s); [|lia]. cbn. rewrite !orb_true_r. reflexivity.
  - destruct (Z.ltb_spec s t) as [L|L].
    + destruct (Z.leb_spec t s); [lia|]. reflexivity.
    + rewrite IH. destruct (Z.leb_spec t s); [|lia]. cbn. reflexivity.
Qed.

Lemma dom_nd_dom (a b : list Z) : length a = length b -> dom a b = C04_NDSort.nd_dom a b.
Proof.
  intro L. unfold dom, C04_NDSort.nd_dom. rewrite dom_loop_eq, L, Nat.eqb_refl. cbn. reflexivity.
Qed.

(* ---------- small list facts ---------- *)
Lemma existsb_map_ext {X Y} (h : X -> Y) (f : X -> bool) (g : Y -> bool) l :
  (forall y, In y l -> f y = g (h y)) -> existsb f l = existsb g (map h l).
Proof.
  induction l as [|a l IH]; intro H; cbn; [reflexivity|].
  rewrite (H a (or_introl eq_refl)), IH; [reflexivity|]. intros y Iy. apply H. right; exact Iy.
Qed.

Lemma filter_map_ext {X Y} (h : X -> Y) (p : X -> bool) (q : Y -> bool) l :
  (forall x, In x l -> p x = q (h x)) -> map h (filter p l) = filter q (map h l).
Proof.
  induction l as [|a l IH]; intro H; cbn; [reflexivity|].
  rewrite <- (H a (or_introl eq_refl)).
  assert (E : map h (filter p l) = filter q (map h l)) by (apply IH; intros x Ix; apply H; right; exact Ix).
  destruct (p a); cbn; rewrite E; reflexivity.
Qed.

Lemma forall2_perm_length {X} (l1 l2 : list (list X)) :
  Forall2 (@Permutation X) l1 l2 -> length (concat l1) = length (concat l2).
Proof.
  induction 1 as [|a b l1 l2 P F IH]; cbn; [reflexivity|].
  rewrite !app_length, IH, (Permutation_length P). reflexivity.
Qed.

Lemma forall2_map_r {X Y Z'} (R : X -> Y -> Prop) (R' : Z' -> Y -> Prop) (g : X -> Z') :
  forall (l1 : list X) (l2 : list Y),
  (forall x y, In y l2 -> R x y -> R' (g x) y) ->
  Forall2 R l1 l2 -> Forall2 R' (map g l1) l2.
Proof.
  intros l1 l2 H F. induction F as [|x y l1 l2 Rxy F IH]; cbn; constructor.
  - apply H; [left; reflexivity|exact Rxy].
  - apply IH. intros x' y' Iy. apply H. right; exact Iy.
Qed.

Lemma forall2_map_r2 {X Y Y'} (R : X -> Y' -> Prop) (R' : X -> Y -> Prop) (g : Y -> Y') :
  forall (l1 : list X) (l2 : list Y),
  (forall x y, In y l2 -> R x (g y) -> R' x y) ->
  Forall2 R l1 (map g l2) -> Forall2 R' l1 l2.
Proof.
  intros l1 l2. revert l1. induction l2 as [|y l2 IH]; intros l1 H F; cbn in F; inversion F; subst; constructor.
  - apply H; [left; reflexivity|assumption].
  - apply IH; [|assumption]. intros x' y' Iy. apply H. right; exact Iy.
Qed.

Section Bridge.
  Context {A : Type}.
  Notation indA := (ind A).

  Definition same_wv (rem : list indA) : Prop :=
    forall x y, In x rem -> In y rem -> length (wv x) = length (wv y).

  Lemma same_wv_sub (l l' : list indA) : (forall x, In x l' -> In x l) -> same_wv l -> same_wv l'.
  Proof. intros S H x y Ix Iy. apply H; apply S; assumption. Qed.

  Lemma dominated_in_4 (rem : list indA) x : same_wv rem -> In x rem ->
    dominated_in rem x = negb (C04_NDSort.nondominated (map to4 rem) (to4 x)).
  Proof.
    intros SW Ix. unfold dominated_in, C04_NDSort.nondominated. rewrite negb_involutive.
    apply existsb_map_ext. intros y Iy. unfold C04_NDSort.idom, to4. cbn.
    apply dom_nd_dom. apply SW; assumption.
  Qed.

  (* C05's peeling layers are C04's peeling fronts (same order, element by element) *)
  Lemma layers_peel : forall f (rem : list indA), same_wv rem ->
    map (map to4) (layers_fuel f rem) = C04_NDSort.peel f (map to4 rem).
  Proof.
    induction f as [|f IH]; intros rem SW; [reflexivity|].
    destruct rem as [|a r]; [reflexivity|].
    remember (a :: r) as rem eqn:Er.
    assert (E1 : layers_fuel (S f) rem =
                 filter (fun x => negb (dominated_in rem x)) rem :: layers_fuel f (filter (dominated_in rem) rem))
      by (rewrite Er; reflexivity).
    assert (E2 : C04_NDSort.peel (S f) (map to4 rem) =
                 filter (C04_NDSort.nondominated (map to4 rem)) (map to4 rem)
                 :: C04_NDSort.peel f (filter (fun x => negb (C04_NDSort.nondominated (map to4 rem) x)) (map to4 rem)))
      by (rewrite Er; reflexivity).
    rewrite E1, E2. cbn [map]. f_equal.
    - apply filter_map_ext. intros x Ix. rewrite (dominated_in_4 rem x SW Ix), negb_involutive. reflexivity.
    - rewrite IH.
      + f_equal. apply filter_map_ext. intros x Ix. apply dominated_in_4; assumption.
      + eapply same_wv_sub; [|exact SW]. intros x Ix. apply filter_In in Ix. tauto.
  Qed.

  Lemma layers_spec (pop : list indA) : same_wv pop ->
    map (map to4) (layers pop) = C04_NDSort.spec_fronts (pop4 pop).
  Proof.
    intro SW. unfold layers, C04_NDSort.spec_fronts, pop4. rewrite map_length. apply layers_peel, SW.
  Qed.

  (* ---------- translating C04's hypotheses ---------- *)
  Lemma pop4_nodup (pop : list indA) : wf_pop pop -> NoDup (map uid4 (pop4 pop)).
  Proof.
    intro W. unfold pop4. rewrite map_map. cbn. change (NoDup (uids pop)). apply wf_pop_nodup, W.
  Qed.

  Lemma pop4_same_len (pop : list indA) : same_wv pop -> C04_NDSort.same_len (map iw4 (pop4 pop)).
  Proof.
    intros SW a b Ha Hb. unfold pop4 in *. rewrite map_map in *. cbn in *.
    apply in_map_iff in Ha. destruct Ha as [x [<- Ix]]. apply in_map_iff in Hb. destruct Hb as [y [<- Iy]].
    apply SW; assumption.
  Qed.

  Lemma pop4_ne (pop : list indA) : pop <> [] -> pop4 pop <> [].
  Proof. destruct pop; [congruence|discriminate]. Qed.

  Lemma pop4_two (pop : list indA) : (forall x, In x pop -> 2 <= length (wv x)) ->
    forall z, In z (pop4 pop) -> 2 <= length (iw4 z).
  Proof. intros H z Iz. apply in_map_iff in Iz. destruct Iz as [x [<- Ix]]. cbn. apply H, Ix. Qed.

  Lemma wf_uid_lt (pop : list indA) x : wf_pop pop -> In x pop -> uid x < length pop.
  Proof.
    intros W I. assert (H : In (uid x) (uids pop)) by (apply in_map, I).
    rewrite W in H. apply in_seq in H. lia.
  Qed.

  (* a front made of members of the population comes back as the same identities, in order *)
  Lemma back_uids (pop : list indA) (F : list ind4) : wf_pop pop ->
    (forall z, In z F -> In z (pop4 pop)) -> uids (back pop F) = map uid4 F.
  Proof.
    intros W H. unfold back. apply select_uids; [exact W|].
    apply forallb_forall. intros u Iu. apply in_map_iff in Iu. destruct Iu as [z [<- Iz]].
    apply H in Iz. apply in_map_iff in Iz. destruct Iz as [x [<- Ix]]. cbn.
    apply Nat.ltb_lt, wf_uid_lt; assumption.
  Qed.

  Lemma layer_members (pop : list indA) l x : In l (layers pop) -> In x l -> In x pop.
  Proof.
    intros Il Ix. eapply Permutation_in; [apply layers_perm|]. apply in_concat. exists l. split; assumption.
  Qed.

  Lemma ztotal_layers (pop : list indA) : same_wv pop -> forall n,
    C04_Spec.ztotal (firstn n (C04_NDSort.spec_fronts (pop4 pop))) = Z.of_nat (total (firstn n (layers pop))).
  Proof.
    intros SW n. rewrite <- (layers_spec pop SW), firstn_map.
    unfold C04_Spec.ztotal, zlen, total. rewrite <- concat_map, map_length. reflexivity.
  Qed.

  (* "the shortest non-empty prefix of the peeling fronts reaching min(k, n)", front by front up to
     the order inside a front (what C04 proves of both sorters) gives fronts_correct *)
  Lemma leading_fronts_correct (pop : list indA) (k : nat) (fs : list (list ind4)) (j : nat) :
    pop_ok pop -> 0 < k ->
    j < length (C04_NDSort.spec_fronts (pop4 pop)) ->
    Forall2 (@Permutation ind4) fs (firstn (S j) (C04_NDSort.spec_fronts (pop4 pop))) ->
    (forall j', 0 < j' <= j ->
       (C04_Spec.ztotal (firstn j' (C04_NDSort.spec_fronts (pop4 pop))) < Z.min (zlen (pop4 pop)) (Z.of_nat k))%Z) ->
    (Z.min (zlen (pop4 pop)) (Z.of_nat k) <= C04_Spec.ztotal fs)%Z ->
    fronts_correct pop k (map (back pop) fs).
  Proof.
    intros [W [NE SW]] K Lj F2 MIN REACH. split.
    - intros f x If Ix. apply in_map_iff in If. destruct If as [F [<- _]]. unfold back in Ix. eapply select_in, Ix.
    - destruct k as [|k0]; [lia|]. exists j.
      pose proof (layers_spec pop SW) as E.
      assert (LL : length (layers pop) = length (C04_NDSort.spec_fronts (pop4 pop)))
        by (rewrite <- E, map_length; reflexivity).
      assert (ZL : zlen (pop4 pop) = Z.of_nat (length pop)) by (unfold zlen, pop4; rewrite map_length; reflexivity).
      assert (NP : 0 < length pop) by (destruct pop; [congruence|cbn; lia]).
      split; [|split; [|split]].
      + rewrite map_length, (Forall2_length _ _ _ F2), firstn_length. lia.
      + rewrite <- E, firstn_map in F2.
        apply forall2_map_r with (R := fun F l => Permutation F (map to4 l)).
        * intros F l Il P.
          assert (Sub : forall z, In z F -> In z (pop4 pop)).
          { intros z Iz. eapply Permutation_in in Iz; [|exact P]. apply in_map_iff in Iz.
            destruct Iz as [x [<- Ix]]. apply in_map. eapply layer_members; [|exact Ix].
            eapply in_firstn; exact Il. }
          rewrite (back_uids pop F W Sub).
          replace (uids l) with (map uid4 (map to4 l)) by (rewrite map_map; reflexivity).
          apply Permutation_map, P.
        * eapply forall2_map_r2; [|exact F2]. intros x y _ H. exact H.
      + destruct j as [|j0]; [unfold total; cbn [firstn concat length]; lia|].
        specialize (MIN (S j0)). rewrite (ztotal_layers pop SW), ZL in MIN. lia.
      + assert (T : C04_Spec.ztotal fs = Z.of_nat (total (firstn (S j) (layers pop)))).
        { rewrite <- (ztotal_layers pop SW). unfold C04_Spec.ztotal, zlen.
          rewrite (forall2_perm_length _ _ F2). reflexivity. }
        rewrite T, ZL in REACH. lia.
  Qed.
End Bridge.

(* ---------- both back-ends produce fronts satisfying fronts_correct ---------- *)
Section Fronts.
  Context {A : Type}.
  Notation indA := (ind A).

  Lemma nd_fronts_k0 nd (pop : list indA) : nd <> NdOther -> nd_fronts nd pop 0 = Some [].
  Proof. destruct nd; [reflexivity|reflexivity|congruence]. Qed.

  Theorem nd_fronts_correct nd (pop : list indA) k :
    pop_ok pop -> nd_ok nd pop ->
    exists fronts, nd_fronts nd pop k = Some fronts /\ fronts_correct pop k fronts.
  Proof.
    intros OK ND. pose proof OK as [W [NE SW]].
    destruct k as [|k0].
    - exists []. split.
      + apply nd_fronts_k0. intros ->. exact ND.
      + split; [intros f x []|reflexivity].
    - assert (KZ : Z.of_nat (S k0) <> 0%Z) by lia.
      destruct nd; cbn in ND; [| |contradiction].
      + destruct (C04_Spec.nd_leading_fronts (pop4 pop) (Z.of_nat (S k0))
                    (pop4_nodup pop W) (pop4_same_len pop SW) (pop4_ne pop NE) KZ)
          as [fs [j [E [Lj [F2 [MIN REACH]]]]]].
        exists (map (back pop) fs). split; [unfold nd_fronts; rewrite E; reflexivity|].
        apply (leading_fronts_correct pop (S k0) fs j OK); [lia|assumption..].
      + destruct (C04_LogFinal.log_leading_fronts (pop4 pop) (Z.of_nat (S k0))
                    (pop4_nodup pop W) (pop4_same_len pop SW) (pop4_ne pop NE) (pop4_two pop ND) KZ)
          as [fs [j [E [Lj [F2 [MIN REACH]]]]]].
        exists (map (back pop) fs). split; [unfold nd_fronts; rewrite E; reflexivity|].
        apply (leading_fronts_correct pop (S k0) fs j OK); [lia|assumption..].
  Qed.

  (* the decision procedures of the two preconditions (used by the correspondence and the example) *)
  Lemma pop_ok_b_sound (pop : list indA) : pop_ok_b pop = true -> pop_ok pop.
  Proof.
    unfold pop_ok_b, pop_ok. intro H. apply andb_true_iff in H. destruct H as [H SL].
    apply andb_true_iff in H. destruct H as [W NE]. split; [apply wf_pop_b_sound, W|]. split.
    - intros ->. discriminate.
    - destruct pop as [|x0 r]; [intros ? ? []|]. rewrite forallb_forall in SL.
      intros x y Ix Iy. apply SL in Ix. apply SL in Iy. apply Nat.eqb_eq in Ix. apply Nat.eqb_eq in Iy. congruence.
  Qed.

  Lemma nd_ok_b_sound nd (pop : list indA) : nd_ok_b nd pop = true -> nd_ok nd pop.
  Proof.
    destruct nd; cbn; [trivial| |discriminate].
    intro H. rewrite forallb_forall in H. intros x Ix. apply Nat.leb_le, H, Ix.
  Qed.
End Fronts.

(* ---------- the end-to-end model ---------- *)
Section FullModel.
  Variable o : numops.
  Notation indV := (ind (V o)).

  Lemma full_inv nd (pop : list indV) k r :
    pop_ok pop -> nd_ok nd pop -> sel_nsga2_full o nd pop k = Some r ->
    exists fronts, nd_fronts nd pop k = Some fronts /\ fronts_correct pop k fronts /\
                   sel_nsga2 o fronts k = Some r.
  Proof.
    intros OK ND S. destruct (nd_fronts_correct nd pop k OK ND) as [fronts [E FC]].
    exists fronts. unfold sel_nsga2_full in S. rewrite E in S. auto.
  Qed.

  (* an invalid `nd` raises; an empty population: the quadratic sort returns [[]] and the selection is
     empty, the divide-and-conquer sort raises IndexError unless k = 0 *)
  Lemma full_other (pop : list indV) k : sel_nsga2_full o NdOther pop k = None.
  Proof. reflexivity. Qed.

  Lemma full_empty_std k : sel_nsga2_full o NdStandard [] k = Some [].
  Proof.
    destruct k as [|k0]; [reflexivity|].
    unfold sel_nsga2_full, nd_fronts, pop4. cbn [map].
    assert (E : C04_NDSort.sort_nd [] (Z.of_nat (S k0)) false = Some [[]]) by reflexivity.
    rewrite E. cbn [map]. change (back [] []) with (@nil indV).
    change [[]] with ([] ++ [@nil indV]). rewrite sel_snoc. cbn [concat length].
    destruct (0 <? Z.of_nat (S k0) - Z.of_nat 0)%Z; [|reflexivity].
    unfold cut_sorted, keyed. cbn. rewrite firstn_nil. reflexivity.
  Qed.

  Lemma full_empty_log k : sel_nsga2_full o NdLog [] k = if Nat.eqb k 0 then Some [] else None.
  Proof. destruct k; reflexivity. Qed.

  Section Clauses.
    Variables (nd : nd_choice) (pop : list indV) (k : nat).
    Hypothesis OK : pop_ok pop.
    Hypothesis ND : nd_ok nd pop.

    Let W : wf_pop pop := proj1 OK.

    Theorem full_defined : exists r, sel_nsga2_full o nd pop k = Some r.
    Proof.
      destruct (nd_fronts_correct nd pop k OK ND) as [fronts [E FC]].
      destruct (sel_defined_aux o pop fronts k FC) as [r S]. exists r.
      unfold sel_nsga2_full. rewrite E. exact S.
    Qed.

    Variable r : list indV.
    Hypothesis SEL : sel_nsga2_full o nd pop k = Some r.

    Theorem full_size : length r = Nat.min k (length pop).
    Proof. destruct (full_inv nd pop k r OK ND SEL) as [fr [_ [FC S]]]. exact (size_min o pop k fr r FC S). Qed.

    Theorem full_refs_nodup : (forall x, In x r -> In x pop) /\ NoDup (uids r).
    Proof.
      destruct (full_inv nd pop k r OK ND SEL) as [fr [_ [FC S]]].
      split; [exact (refs o pop k fr r FC S)|exact (nodup o pop k fr r W FC S)].
    Qed.

    Theorem full_front_priority :
      forall x y, In x r -> In y pop -> ~ In (uid y) (uids r) -> depth pop x <= depth pop y.
    Proof. destruct (full_inv nd pop k r OK ND SEL) as [fr [_ [FC S]]]. exact (front_priority o pop k fr r FC S). Qed.

    Theorem full_one_partial_front :
      exists c, forall y, In y pop ->
        (depth pop y < c -> In (uid y) (uids r)) /\ (c < depth pop y -> ~ In (uid y) (uids r)).
    Proof. destruct (full_inv nd pop k r OK ND SEL) as [fr [_ [FC S]]]. exact (one_partial_front o pop k fr r FC S). Qed.

    (* the cut front = the last front the sort produced *)
    Theorem full_crowding_cut_generic :
      forall fronts, nd_fronts nd pop k = Some fronts ->
      forall P : D o -> Prop,
      (forall a b, P a -> P b -> dltb o a b = true -> dltb o b a = false) ->
      (forall a b c, P a -> P b -> P c -> dltb o b a = false -> dltb o c b = false -> dltb o c a = false) ->
      forall lastf, lastf = last fronts [] -> Forall P (assign_crowding o lastf) ->
      forall x dx y dy,
        In (x, dx) (combine lastf (assign_crowding o lastf)) ->
        In (y, dy) (combine lastf (assign_crowding o lastf)) ->
        In (uid x) (uids r) -> ~ In (uid y) (uids r) -> dltb o dx dy = false.
    Proof.
      intros fronts E. destruct (full_inv nd pop k r OK ND SEL) as [fr [E' [FC S]]].
      rewrite E in E'. injection E' as <-. exact (crowding_cut o pop k fronts r W FC S).
    Qed.
  End Clauses.
End FullModel.
