(* The inner loop of assignCrowdingDist:
     for prev, cur, next in zip(crowd[:-2], crowd[1:-1], crowd[2:]): distances[cur[1]] += ...
   touches exactly the interior elements of `crowd`, each once, with its two neighbours.
   Generic in the arithmetic. *)
From Coq Require Import List ZArith Bool Lia Permutation Arith.
From DV Require Import Base.PyList Base.C05_Sort Base.C05_List Model.C05_Nsga2.
Import ListNotations.

Section Triples.
  Context {A : Type}.

  Fixpoint triples_rec (l : list A) : list (A * A * A) :=
    match l with
    | [] => []
    | a :: t => match t with
                | b :: c :: _ => (a, b, c) :: triples_rec t
                | _ => []
                end
    end.

  Lemma triples_rec_cons3 a b c (r : list A) :
    triples_rec (a :: b :: c :: r) = (a, b, c) :: triples_rec (b :: c :: r).
  Proof. reflexivity. Qed.

  Lemma triples_eq (l : list A) : triples l = triples_rec l.
  Proof.
    induction l as [|a l IH]; [reflexivity|].
    destruct l as [|b [|c r]]; [reflexivity|reflexivity|].
    rewrite triples_rec_cons3, <- IH. unfold triples.
    change (removelast (a :: b :: c :: r)) with (a :: removelast (b :: c :: r)).
    change (removelast (b :: c :: r)) with (b :: removelast (c :: r)).
    change (removelast (a :: b :: removelast (c :: r))) with (a :: removelast (b :: removelast (c :: r))).
    cbn [tl zip3]. reflexivity.
  Qed.

  Lemma triples_rec_mid p c x (s : list A) :
    In (p, c, x) (triples_rec s) -> exists l1 l2, s = l1 ++ p :: c :: x :: l2.
  Proof.
    induction s as [|a t IH]; [contradiction|].
    destruct t as [|b [|c' r]]; try contradiction.
    cbn [triples_rec]. intros [E|I].
    - inversion E; subst. exists [], r. reflexivity.
    - destruct (IH I) as [l1 [l2 E]]. exists (a :: l1), l2. cbn. rewrite E. reflexivity.
  Qed.
End Triples.

Section Bump.
  Variable o : numops.
  Variables (i : nat) (norm : V o).
  Notation key := (key_i o i).
  Notation mid t := (snd (snd (fst t))).

  Lemma bump_length_g d t : length (bump o i norm d t) = length d.
  Proof. destruct t as [[p c] x]. unfold bump. apply set_nth_length. Qed.

  Lemma fold_bump_untouched ts : forall d j z,
    (forall t, In t ts -> mid t <> j) ->
    nth j (fold_left (bump o i norm) ts d) z = nth j d z.
  Proof.
    induction ts as [|t ts IH]; intros d j z H; [reflexivity|]. cbn [fold_left].
    rewrite IH by (intros t' I'; apply H; right; exact I').
    destruct t as [[p c] x]. unfold bump. apply nth_set_nth_neq.
    intro E. apply (H (p, c, x)); [left; reflexivity|]. cbn. congruence.
  Qed.

  Lemma fold_bump_interior l1 : forall p c x l2 d z,
    NoDup (map snd (l1 ++ p :: c :: x :: l2)) -> snd c < length d ->
    nth (snd c) (fold_left (bump o i norm) (triples_rec (l1 ++ p :: c :: x :: l2)) d) z =
    dadd o (nth (snd c) d z) (vdiv o (vsub o (key x) (key p)) norm).
  Proof.
    induction l1 as [|a l1 IH]; intros p c x l2 d z ND L.
    - cbn [app]. rewrite triples_rec_cons3. cbn [fold_left].
      rewrite fold_bump_untouched.
      + unfold bump. rewrite nth_set_nth_eq by exact L.
        rewrite (nth_indep d z (dzero o)) by exact L. reflexivity.
      + intros [[p' c'] x'] I. cbn. apply triples_rec_mid in I. destruct I as [l1' [l2' E]].
        cbn [app map] in ND. inversion ND as [|? ? _ ND1]; subst. inversion ND1 as [|? ? Nc _]; subst.
        intro Q. apply Nc. cbn [snd fst] in Q. rewrite <- Q. change (In (snd c') (map snd (x :: l2))).
        destruct l1' as [|b l1'']; cbn [app] in E.
        * assert (E2 : x :: l2 = c' :: x' :: l2') by congruence. rewrite E2. left; reflexivity.
        * assert (E2 : x :: l2 = l1'' ++ p' :: c' :: x' :: l2') by (injection E as _ E2; exact E2).
          rewrite E2. rewrite map_app. apply in_or_app. right. right. left. reflexivity.
    - assert (E : exists b b2 r, l1 ++ p :: c :: x :: l2 = b :: b2 :: r /\ In b (l1 ++ [p])).
      { destruct l1 as [|b [|b2 l1']]; cbn.
        - exists p, c, (x :: l2). split; [reflexivity|left; reflexivity].
        - exists b, p, (c :: x :: l2). split; [reflexivity|left; reflexivity].
        - exists b, b2, (l1' ++ p :: c :: x :: l2). split; [reflexivity|left; reflexivity]. }
      destruct E as [b [b2 [r [E Ib]]]].
      cbn [app]. cbn [app] in ND. inversion ND as [|? ? _ ND']; subst.
      rewrite E, triples_rec_cons3. cbn [fold_left]. rewrite <- E.
      rewrite IH; [|exact ND'|rewrite bump_length_g; exact L].
      f_equal. unfold bump. apply nth_set_nth_neq.
      (* snd b <> snd c: b occurs before c *)
      intro Q. replace (l1 ++ p :: c :: x :: l2) with ((l1 ++ [p]) ++ c :: x :: l2) in ND'
        by (rewrite <- app_assoc; reflexivity).
      rewrite map_app in ND'. apply nodup_app_inv in ND'. destruct ND' as [_ [_ D]].
      apply (D (snd b)); [apply in_map, Ib|]. rewrite <- Q. cbn. left; reflexivity.
  Qed.
End Bump.
