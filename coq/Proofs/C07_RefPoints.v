(* C07 — proofs about uniform_reference_points: count (stars and bars via the hockey-stick
   identity), distinctness, non-negativity, coordinates summing to 1 exactly over Q, scaling. *)
From Coq Require Import List ZArith QArith Bool Lia Arith.
From DV Require Import Base.PyList Base.C07_Num Model.C07_RefPoints.
Import ListNotations.
Local Open Scope nat_scope.

(* ------------------------------------------------------------------ *)
(* binomial coefficients *)
Lemma binom_0_r n : binom n 0 = 1.
Proof. destruct n; reflexivity. Qed.

Lemma binom_gt n : forall k, n < k -> binom n k = 0.
Proof.
  induction n as [|n IH]; intros [|k] H; cbn; try lia; auto.
  rewrite !IH by lia. reflexivity.
Qed.

Lemma binom_diag n : binom n n = 1.
Proof. induction n as [|n IH]; cbn; auto. rewrite IH, binom_gt by lia. reflexivity. Qed.

Lemma binom_pascal n k : binom (S n) (S k) = binom n k + binom n (S k).
Proof. reflexivity. Qed.

(* binom is the usual binomial coefficient: C(n,k) * k! * (n-k)! = n! *)
Lemma binom_fact : forall n k, k <= n -> binom n k * (fact k * fact (n - k)) = fact n.
Proof.
  induction n as [|n IH]; intros [|k] H; try lia.
  - reflexivity.
  - rewrite binom_0_r. rewrite Nat.sub_0_r. change (fact 0) with 1. lia.
  - rewrite binom_pascal. destruct (Nat.eq_dec k n) as [->|Hne].
    + rewrite binom_diag, binom_gt by lia. rewrite Nat.sub_diag. change (fact 0) with 1. lia.
    + assert (H1 := IH k ltac:(lia)). assert (H2 := IH (S k) ltac:(lia)).
      replace (S n - S k) with (n - k) by lia.
      remember (n - S k) as m. replace (n - k) with (S m) in * by lia.
      change (fact (S n)) with (S n * fact n).
      change (fact (S k)) with (S k * fact k) in *.
      change (fact (S m)) with (S m * fact m) in *.
      assert (E : S n = S k + S m) by lia. rewrite E at 1.
      remember (binom n k) as A. remember (binom n (S k)) as B. remember (fact k) as fk. remember (fact m) as fm.

      transitivity (S k * (A * (fk * (S m * fm))) + S m * (B * (S k * fk * fm))); [ring|].
      rewrite H1, H2. ring.
Qed.

Lemma binom_sym n k : k <= n -> binom n k = binom n (n - k).
Proof.
  intro H. assert (A := binom_fact n k H). assert (B := binom_fact n (n - k) ltac:(lia)).
  replace (n - (n - k)) with k in B by lia.
  assert (P : 0 < fact k * fact (n - k)) by (pose proof (lt_O_fact k); pose proof (lt_O_fact (n - k)); nia).
  nia.
Qed.

(* hockey stick, in the "l" form: sum_{j<=l} C(j+r, j) = C(l+r+1, l) *)
Lemma hockey r : forall l,
  list_sum (map (fun j => binom (j + r) j) (seq 0 (S l))) = binom (l + r + 1) l.
Proof.
  induction l as [|l IH].
  - cbn. rewrite !binom_0_r. reflexivity.
  - rewrite seq_S, map_app, list_sum_app, IH. cbn [map list_sum].
    replace (0 + S l + r) with (l + r + 1) by lia. replace (0 + S l) with (S l) by lia.
    replace (S l + r + 1) with (S (l + r + 1)) by lia.
    rewrite binom_pascal. cbn [list_sum fold_right]. lia.
Qed.

(* the same sum in the order the recursion produces it: i = 0..l contributes C(l-i+r, l-i) *)
Lemma hockey_rev r : forall l,
  list_sum (map (fun i => binom (l - i + r) (l - i)) (seq 0 (S l))) = binom (l + r + 1) l.
Proof.
  induction l as [|l IH].
  - cbn. rewrite !binom_0_r. reflexivity.
  - change (seq 0 (S (S l))) with (0 :: seq 1 (S l)). cbn [map list_sum].
    rewrite <- seq_shift, map_map. rewrite Nat.sub_0_r.
    rewrite (map_ext (fun x => binom (S l - S x + r) (S l - S x)) (fun i => binom (l - i + r) (l - i)))
      by (intro; reflexivity).
    assert (LS : forall a t, list_sum (a :: t) = a + list_sum t) by reflexivity.
    rewrite LS, IH. replace (S l + r + 1) with (S (l + r + 1)) by lia.
    rewrite binom_pascal. replace (S l + r) with (l + r + 1) by lia. lia.
Qed.

(* ------------------------------------------------------------------ *)
(* the numerators *)
Lemma length_flat_map {A B} (f : A -> list B) l :
  length (flat_map f l) = list_sum (map (fun x => length (f x)) l).
Proof. induction l as [|x l IH]; cbn; auto. rewrite app_length, IH. reflexivity. Qed.

Lemma gen_num_length : forall rem left ref, length (gen_num rem left ref) = binom (left + rem) left.
Proof.
  induction rem as [|rem IH]; intros left ref.
  - cbn. rewrite Nat.add_0_r, binom_diag. reflexivity.
  - cbn [gen_num]. rewrite length_flat_map.
    rewrite (map_ext _ (fun i => binom (left - i + rem) (left - i))) by (intro; apply IH).
    rewrite hockey_rev. f_equal. lia.
Qed.

Theorem ref_num_length nobj p : 1 <= nobj -> length (ref_num nobj p) = binom (nobj + p - 1) p.
Proof. intro H. unfold ref_num. rewrite gen_num_length. f_equal. lia. Qed.

(* every generated row extends the assigned prefix by rem+1 numerators that sum to `left` *)
Lemma gen_num_rows : forall rem left ref row, In row (gen_num rem left ref) ->
  exists t, row = ref ++ t /\ length t = S rem /\ list_sum t = left.
Proof.
  induction rem as [|rem IH]; intros left ref row H.
  - cbn in H. destruct H as [<-|[]]. exists [left]. cbn. repeat split; lia.
  - cbn [gen_num] in H. apply in_flat_map in H. destruct H as [i [Hi H]]. apply in_seq in Hi.
    destruct (IH _ _ _ H) as [t [-> [Lt St]]]. exists (i :: t). rewrite <- app_assoc. cbn [app length].
    assert (LS : forall a t, list_sum (a :: t) = a + list_sum t) by reflexivity. rewrite LS.
    repeat split; lia.
Qed.

Lemma NoDup_flat_map_disj {A B} (f : A -> list B) l :
  NoDup l -> (forall x, In x l -> NoDup (f x)) ->
  (forall x y b, In x l -> In y l -> x <> y -> In b (f x) -> In b (f y) -> False) ->
  NoDup (flat_map f l).
Proof.
  induction l as [|a l IH]; intros ND H1 H2; cbn; [constructor|].
  inversion ND as [|? ? Ha NDl]; subst.
  apply NoDup_app_disj.
  - apply H1. now left.
  - apply IH; auto.
    + intros x Hx. apply H1. now right.
    + intros x y b Hx Hy. apply H2; now right.
  - intros b Hb Hb'. apply in_flat_map in Hb'. destruct Hb' as [y [Hy Hby]].
    apply (H2 a y b); auto; [now left|now right|]. intros ->. contradiction.
Qed.

Lemma gen_num_NoDup : forall rem left ref, NoDup (gen_num rem left ref).
Proof.
  induction rem as [|rem IH]; intros left ref.
  - cbn. constructor; [intros []|constructor].
  - cbn [gen_num]. apply NoDup_flat_map_disj.
    + apply seq_NoDup.
    + intros; apply IH.
    + intros x y b _ _ Hxy Hx Hy.
      destruct (gen_num_rows _ _ _ _ Hx) as [t [E1 _]].
      destruct (gen_num_rows _ _ _ _ Hy) as [t' [E2 _]].
      rewrite E1 in E2. rewrite <- !app_assoc in E2. apply app_inv_head in E2. cbn in E2. congruence.
Qed.

Theorem ref_num_NoDup nobj p : NoDup (ref_num nobj p).
Proof. apply gen_num_NoDup. Qed.

Theorem ref_num_rows nobj p row : 1 <= nobj -> In row (ref_num nobj p) ->
  length row = nobj /\ list_sum row = p.
Proof.
  intros H Hin. destruct (gen_num_rows _ _ _ _ Hin) as [t [-> [L S_]]]. cbn [app]. split; lia.
Qed.

(* ------------------------------------------------------------------ *)
(* the rational points *)
Definition qsum (r : list Q) : Q := fold_right Qplus 0%Q r.

Lemma qsum_map_div (p : nat) (l : list nat) :
  (qsum (map (fun i => Qred (inject_Z (Z.of_nat i) / inject_Z (Z.of_nat p))%Q) l)
  == inject_Z (Z.of_nat (list_sum l)) / inject_Z (Z.of_nat p))%Q.
Proof.
  induction l as [|i l IH].
  - cbn. unfold Qdiv. now rewrite Qmult_0_l.
  - change (list_sum (i :: l)) with (i + list_sum l). cbn [map qsum fold_right].
    fold (qsum (map (fun i => Qred (inject_Z (Z.of_nat i) / inject_Z (Z.of_nat p))%Q) l)).
    rewrite IH, Qred_correct, Nat2Z.inj_add, inject_Z_plus. unfold Qdiv. ring.
Qed.

Lemma inject_nat_pos (p : nat) : 1 <= p -> ~ (inject_Z (Z.of_nat p) == 0)%Q.
Proof. intros H E. unfold Qeq in E. cbn in E. lia. Qed.

Definition coord (p i : nat) : Q := Qred (inject_Z (Z.of_nat i) / inject_Z (Z.of_nat p))%Q.
Definition shift_of (nobj : nat) (s : Q) : Q := Qred (Qred (inject_Z 1 - s) / inject_Z (Z.of_nat nobj))%Q.

Lemma ref_points_q_none nobj p : ref_points_q nobj p None = map (map (coord p)) (ref_num nobj p).
Proof. reflexivity. Qed.

Lemma ref_points_q_some nobj p s :
  ref_points_q nobj p (Some s) =
  map (map (fun x => Qred (Qred (x * s) + shift_of nobj s)%Q)) (ref_points_q nobj p None).
Proof. reflexivity. Qed.

(* without scaling: every row has nobj non-negative coordinates that sum to exactly 1 *)
Theorem ref_points_rows nobj p row : 1 <= nobj -> 1 <= p ->
  In row (ref_points_q nobj p None) ->
  length row = nobj /\ Forall (fun x => (0 <= x)%Q) row /\ (qsum row == 1)%Q.
Proof.
  intros Hn Hp Hin. rewrite ref_points_q_none in Hin.
  apply in_map_iff in Hin. destruct Hin as [nr [<- Hnr]].
  destruct (ref_num_rows _ _ _ Hn Hnr) as [L S_]. split; [now rewrite map_length|]. split.
  - apply Forall_forall. intros x Hx. apply in_map_iff in Hx. destruct Hx as [i [<- _]].
    unfold coord. rewrite Qred_correct. apply Qle_shift_div_l.
    + unfold Qlt. cbn. lia.
    + rewrite Qmult_0_l. unfold Qle. cbn. lia.
  - unfold coord. rewrite qsum_map_div, S_. apply Qmult_inv_r. now apply inject_nat_pos.
Qed.

Theorem ref_points_count nobj p sc : 1 <= nobj ->
  length (ref_points_q nobj p sc) = binom (nobj + p - 1) p.
Proof.
  intro H. destruct sc; [rewrite ref_points_q_some, map_length|];
  rewrite ref_points_q_none, map_length; now apply ref_num_length.
Qed.

(* distinct rows are different as rational vectors (not merely as syntactic fractions) *)
Lemma div_inj (p i j : nat) : 1 <= p -> (coord p i == coord p j)%Q -> i = j.
Proof.
  intros Hp E. unfold coord in E. rewrite !Qred_correct in E.
  assert (E2 : (inject_Z (Z.of_nat i) == inject_Z (Z.of_nat j))%Q).
  { apply (Qmult_inj_r _ _ (/ inject_Z (Z.of_nat p))); [|exact E].
    intro Z0. apply (inject_nat_pos p Hp). rewrite <- (Qinv_involutive (inject_Z (Z.of_nat p))), Z0. reflexivity. }
  unfold Qeq in E2. cbn in E2. lia.
Qed.

Lemma Forall2_map_div_inj (p : nat) : 1 <= p -> forall a b,
  Forall2 Qeq (map (coord p) a) (map (coord p) b) -> a = b.
Proof.
  intros Hp. induction a as [|x a IH]; intros [|y b] H; inversion H; subst; auto.
  f_equal; [eapply div_inj; eauto|auto].
Qed.

Lemma NoDup_nth_neq {A} (l : list A) d i j : NoDup l -> i < length l -> j < length l -> i <> j ->
  nth i l d <> nth j l d.
Proof. intros ND Hi Hj Hne E. apply Hne. eapply NoDup_nth; eauto. Qed.

Theorem ref_points_distinct nobj p i j : 1 <= p ->
  let pts := ref_points_q nobj p None in
  i < length pts -> j < length pts -> i <> j -> ~ Forall2 Qeq (nth i pts []) (nth j pts []).
Proof.
  intros Hp pts Hi Hj Hne F. unfold pts in *. rewrite ref_points_q_none in *.
  rewrite map_length in Hi, Hj.
  change (@nil Q) with (map (coord p) []) in F. rewrite !map_nth in F.
  apply Forall2_map_div_inj in F; [|exact Hp].
  revert F. apply NoDup_nth_neq; auto. apply ref_num_NoDup.
Qed.

(* scaling: x*s + (1-s)/nobj keeps the sum at 1 and, for 0 <= s <= 1, the signs *)
Lemma qsum_scale (s c : Q) (r : list Q) :
  (qsum (map (fun x => Qred (Qred (x * s) + c)%Q) r) == s * qsum r + inject_Z (Z.of_nat (length r)) * c)%Q.
Proof.
  induction r as [|x r IH]; cbn [map qsum fold_right length].
  - ring.
  - fold (qsum (map (fun x => Qred (Qred (x * s) + c)%Q) r)). fold (qsum r).
    rewrite IH, !Qred_correct, Nat2Z.inj_succ. unfold Z.succ. rewrite inject_Z_plus. ring.
Qed.

Theorem ref_points_scaled_rows nobj p s row : 1 <= nobj -> 1 <= p -> (0 <= s)%Q -> (s <= 1)%Q ->
  In row (ref_points_q nobj p (Some s)) ->
  length row = nobj /\ Forall (fun x => (0 <= x)%Q) row /\ (qsum row == 1)%Q.
Proof.
  intros Hn Hp Hs0 Hs1 Hin. rewrite ref_points_q_some in Hin.
  apply in_map_iff in Hin. destruct Hin as [r0 [<- Hr0]].
  destruct (ref_points_rows nobj p r0 Hn Hp Hr0) as [L [NN S_]].
  assert (Hnz := inject_nat_pos nobj Hn).
  assert (Hsh : (shift_of nobj s == (1 - s) / inject_Z (Z.of_nat nobj))%Q).
  { unfold shift_of. rewrite !Qred_correct. reflexivity. }
  split; [now rewrite map_length|]. split.
  - apply Forall_forall. intros y Hy. apply in_map_iff in Hy. destruct Hy as [x [<- Hx]].
    rewrite Forall_forall in NN. specialize (NN x Hx). rewrite !Qred_correct, Hsh.
    assert ((0 <= (1 - s) / inject_Z (Z.of_nat nobj))%Q).
    { apply Qle_shift_div_l; [unfold Qlt; cbn; lia|]. rewrite Qmult_0_l.
      unfold Qminus. rewrite <- (Qplus_opp_r s). apply Qplus_le_l. exact Hs1. }
    assert ((0 <= x * s)%Q) by (apply Qmult_le_0_compat; auto).
    rewrite <- (Qplus_0_l 0). apply Qplus_le_compat; auto.
  - rewrite qsum_scale, S_, L, Hsh. field. exact Hnz.
Qed.

(* scaling by s <> 0 keeps the points pairwise different *)
Lemma Forall2_cons_inv {A B} (R : A -> B -> Prop) x a y b :
  Forall2 R (x :: a) (y :: b) -> R x y /\ Forall2 R a b.
Proof. intro H. inversion H; subst. auto. Qed.

Lemma Forall2_scale_inv (s c : Q) : ~ (s == 0)%Q -> forall a b,
  Forall2 Qeq (map (fun x => Qred (Qred (x * s) + c)%Q) a) (map (fun x => Qred (Qred (x * s) + c)%Q) b) ->
  Forall2 Qeq a b.
Proof.
  intros Hs. induction a as [|x a IH]; intros [|y b] H; cbn [map] in H.
  - constructor.
  - inversion H.
  - inversion H.
  - apply Forall2_cons_inv in H. destruct H as [Hxy Hrest]. constructor; [|apply IH; exact Hrest].
    rewrite !Qred_correct in Hxy.
    apply (Qmult_inj_r x y s Hs). apply (Qplus_inj_r _ _ c). exact Hxy.
Qed.

Theorem ref_points_scaled_distinct nobj p s i j : 1 <= p -> ~ (s == 0)%Q ->
  let pts := ref_points_q nobj p (Some s) in
  i < length pts -> j < length pts -> i <> j -> ~ Forall2 Qeq (nth i pts []) (nth j pts []).
Proof.
  intros Hp Hs pts Hi Hj Hne F. unfold pts in *. rewrite ref_points_q_some in *.
  rewrite map_length in Hi, Hj.
  set (f := fun x => Qred (Qred (x * s) + shift_of nobj s)%Q) in *.
  change (@nil Q) with (map f []) in F. rewrite !map_nth in F.
  apply Forall2_scale_inv in F; [|exact Hs].
  revert F. apply ref_points_distinct; assumption.
Qed.
