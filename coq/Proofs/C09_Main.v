(* C09: the property-level statements, assembled from the wp lemmas.  Props/C09.v restates them. *)
From Coq Require Import List ZArith QArith Bool Lia Permutation Arith.
From DV Require Import Base.PyList Base.C09_Lists Model.C09_SeqOps
  Proofs.C09_SeqOps Proofs.C09_Perm Proofs.C09_Ordered.
Import ListNotations.
Local Open Scope Z_scope.

Lemma always_conseq {R} (m : M R) (Q Q' : R -> Prop) : always m Q -> (forall x, Q x -> Q' x) -> always m Q'.
Proof.
  intros H HQ ds Hds. specialize (H ds Hds). destruct (run m ds); auto.
Qed.

Section Generic.
Context {A : Type}.
Implicit Types p : list A.

Lemma one_point_thm p1 p2 : 2 <= Z.min (zlen p1) (zlen p2) ->
  always (cxOnePoint p1 p2) (fun c =>
    Permutation (fst c ++ snd c) (p1 ++ p2) /\
    length (fst c) = length p2 /\ length (snd c) = length p1 /\
    exists cx : nat, (1 <= cx < Nat.min (length p1) (length p2))%nat /\
      forall i, ((i < cx)%nat -> kept_at p1 p2 (fst c) (snd c) i) /\
                ((cx <= i)%nat -> swapped_at p1 p2 (fst c) (snd c) i)).
Proof.
  intro H. eapply always_conseq; [apply wp_always, wp_cxOnePoint; exact H|].
  intros c (cx & Hcx & T). split; [eapply tails_swapped_perm; exact T|].
  assert (B1 : (cx <= length p1)%nat) by lia. assert (B2 : (cx <= length p2)%nat) by lia.
  destruct (tails_swapped_length p1 p2 (fst c) (snd c) cx cx B1 B2 T) as [E1 E2].
  split; [lia|]. split; [lia|]. exists cx. split; [exact Hcx|].
  apply tails_swapped_locus; [lia|lia|exact T].
Qed.

Lemma one_point_complete p1 p2 cx : 1 <= cx <= Z.min (zlen p1) (zlen p2) - 1 ->
  exists c, run (cxOnePoint p1 p2) [DRandint 1 (Z.min (zlen p1) (zlen p2) - 1) (Some cx)] = Ok c.
Proof.
  intro H. unfold run, cxOnePoint, bind, randint. rewrite !Z.eqb_refl. cbn. eexists; reflexivity.
Qed.

Lemma two_point_thm p1 p2 : 2 <= Z.min (zlen p1) (zlen p2) ->
  always (cxTwoPoint p1 p2) (fun c =>
    Permutation (fst c ++ snd c) (p1 ++ p2) /\
    length (fst c) = length p1 /\ length (snd c) = length p2 /\
    exists a b : nat, (1 <= a < b)%nat /\ (b <= Nat.min (length p1) (length p2))%nat /\
      forall i, ((a <= i < b)%nat -> swapped_at p1 p2 (fst c) (snd c) i) /\
                (~ (a <= i < b)%nat -> kept_at p1 p2 (fst c) (snd c) i)).
Proof.
  intro H. eapply always_conseq; [apply wp_always, wp_cxTwoPoint; exact H|].
  intros c (a & b & Hab & Hb & T). split; [eapply mids_swapped_perm; [|exact T]; lia|].
  assert (B0 : (a <= b)%nat) by lia. assert (B1 : (b <= length p1)%nat) by lia. assert (B2 : (b <= length p2)%nat) by lia.
  destruct (mids_swapped_length p1 p2 (fst c) (snd c) a b B0 B1 B2 T) as [E1 E2].
  split; [exact E1|]. split; [exact E2|]. exists a, b. split; [exact Hab|]. split; [exact Hb|].
  apply mids_swapped_locus; [lia|lia|lia|exact T].
Qed.

Lemma two_point_complete p1 p2 d1 d2 :
  exists c, run (cxTwoPoint p1 p2) [DRandint 1 (Z.min (zlen p1) (zlen p2)) (Some d1);
                                     DRandint 1 (Z.min (zlen p1) (zlen p2) - 1) (Some d2)] = Ok c.
Proof.
  unfold run, cxTwoPoint, bind, randint. rewrite !Z.eqb_refl. cbn. rewrite !Z.eqb_refl. cbn.
  destruct (two_points d1 d2). eexists; reflexivity.
Qed.

Lemma uniform_thm p1 p2 indpb :
  always (cxUniform p1 p2 indpb) (fun c =>
    Permutation (fst c ++ snd c) (p1 ++ p2) /\
    length (fst c) = length p1 /\ length (snd c) = length p2 /\
    forall i, locus_ok p1 p2 (fst c) (snd c) i /\
              ((Nat.min (length p1) (length p2) <= i)%nat -> kept_at p1 p2 (fst c) (snd c) i)).
Proof.
  eapply always_conseq; [apply wp_always, wp_cxUniform|].
  intros c (L1 & L2 & H). split; [|auto].
  apply locus_perm; [exact L1|exact L2|]. intro i. apply H.
Qed.

Lemma messy_thm p1 p2 :
  always (cxMessyOnePoint p1 p2) (fun c =>
    Permutation (fst c ++ snd c) (p1 ++ p2) /\
    exists a1 a2 : nat, (a1 <= length p1)%nat /\ (a2 <= length p2)%nat /\
      fst c = firstn a1 p1 ++ skipn a2 p2 /\ snd c = firstn a2 p2 ++ skipn a1 p1 /\
      (length (fst c) = a1 + (length p2 - a2))%nat /\ (length (snd c) = a2 + (length p1 - a1))%nat).
Proof.
  eapply always_conseq; [apply wp_always, wp_cxMessyOnePoint|].
  intros c (a1 & a2 & H1 & H2 & T). split; [eapply tails_swapped_perm; exact T|].
  exists a1, a2. destruct (tails_swapped_length _ _ _ _ a1 a2 H1 H2 T) as [E1 E2].
  destruct T as [T1 T2]. auto 10.
Qed.

Lemma shuffle_thm p indpb : zlen p <> 1 ->
  always (mutShuffleIndexes p indpb) (fun c => Permutation c p /\ length c = length p).
Proof.
  intro H. eapply always_conseq; [apply wp_always, wp_mutShuffleIndexes; exact H|].
  intros c Hc. split; [exact Hc|now apply Permutation_length].
Qed.

Lemma inversion_thm p :
  always (mutInversion p) (fun c =>
    Permutation c p /\ length c = length p /\
    exists s e : nat, (s <= e <= length p)%nat /\
      c = firstn s p ++ rev (firstn (e - s) (skipn s p)) ++ skipn e p).
Proof.
  eapply always_conseq; [apply wp_always, wp_mutInversion|].
  intros c Hc. pose proof (inversion_post_perm p c Hc) as P.
  split; [exact P|]. split; [now apply Permutation_length|exact Hc].
Qed.

End Generic.

Lemma es_two_point_thm {A B} (g1 g2 : list A) (s1 s2 : list B) :
  2 <= Z.min (zlen g1) (zlen g2) -> length s1 = length g1 -> length s2 = length g2 ->
  always (cxESTwoPoint (g1, s1) (g2, s2)) (fun c =>
    let cg1 := fst (fst c) in let cs1 := snd (fst c) in
    let cg2 := fst (snd c) in let cs2 := snd (snd c) in
    length cg1 = length g1 /\ length cs1 = length s1 /\ length cg2 = length g2 /\ length cs2 = length s2 /\
    Permutation (combine cg1 cs1 ++ combine cg2 cs2) (combine g1 s1 ++ combine g2 s2) /\
    exists a b : nat, (1 <= a < b)%nat /\ (b <= Nat.min (length g1) (length g2))%nat /\
      forall i, ((a <= i < b)%nat -> swapped_at (combine g1 s1) (combine g2 s2) (combine cg1 cs1) (combine cg2 cs2) i) /\
                (~ (a <= i < b)%nat -> kept_at (combine g1 s1) (combine g2 s2) (combine cg1 cs1) (combine cg2 cs2) i)).
Proof.
  intros H L1 L2.
  eapply always_conseq; [apply wp_always, (wp_cxESTwoPoint (g1, s1) (g2, s2)); assumption|].
  intros [[cg1 cs1] [cg2 cs2]] (a & b & Hab & Hb & TG & TS). cbn [fst snd] in *.
  assert (B0 : (a <= b)%nat) by lia. assert (B1 : (b <= length g1)%nat) by lia. assert (B2 : (b <= length g2)%nat) by lia.
  assert (B3 : (b <= length s1)%nat) by lia. assert (B4 : (b <= length s2)%nat) by lia.
  destruct (mids_swapped_length g1 g2 cg1 cg2 a b B0 B1 B2 TG) as [E1 E2].
  destruct (mids_swapped_length s1 s2 cs1 cs2 a b B0 B3 B4 TS) as [E3 E4].
  pose proof (es_pairs g1 g2 cg1 cg2 s1 s2 cs1 cs2 a b B0 B1 B2 L1 L2 TG TS) as TP.
  repeat (split; [assumption|]).
  split; [eapply mids_swapped_perm; [|exact TP]; lia|].
  exists a, b. split; [exact Hab|]. split; [exact Hb|].
  apply mids_swapped_locus; [lia| | |exact TP]; rewrite combine_length; lia.
Qed.

Lemma es_two_point_guard {A B} (ind1 ind2 : list A * list B) :
  Z.min (zlen (fst ind1)) (zlen (fst ind2)) < 2 -> only_raises (cxESTwoPoint ind1 ind2) ValueError.
Proof.
  intros H ds Hds. unfold run, cxESTwoPoint, bind, randint.
  destruct ds as [|[u|lo hi r|n r|n r] ds]; auto.
  destruct ((lo =? 1) && (hi =? Z.min (zlen (fst ind1)) (zlen (fst ind2)))) eqn:E; auto.
  apply andb_true_iff in E. destruct E as [E1 E2]. apply Z.eqb_eq in E1, E2. subst.
  inversion Hds as [|d l Hd Hl]; subst. destruct r as [v|]; cbn in Hd; [|auto].
  destruct ds as [|[u|lo hi r|n r|n r] ds]; auto.
  destruct ((lo =? 1) && (hi =? Z.min (zlen (fst ind1)) (zlen (fst ind2)) - 1)) eqn:E; auto.
  apply andb_true_iff in E. destruct E as [E1 E2]. apply Z.eqb_eq in E1, E2. subst.
  inversion Hl as [|d l' Hd' Hl']; subst. destruct r as [v'|]; cbn in Hd'; [lia|auto].
Qed.

(* ---- permutation operators ---- *)
Definition perms_kept (p1 p2 : list Z) (c : list Z * list Z) : Prop :=
  is_perm (fst c) /\ is_perm (snd c) /\ Permutation (fst c) p1 /\ Permutation (snd c) p2.

Lemma perm_post_kept p1 p2 c : is_perm p1 -> is_perm p2 -> perm_post p1 p2 c -> perms_kept p1 p2 c.
Proof.
  intros P1 P2 [H1 H2]. unfold perms_kept.
  assert (Q1 : is_perm (fst c)) by exact (is_perm_trans p1 (fst c) P1 H1).
  assert (Q2 : is_perm (snd c)) by exact (is_perm_trans p2 (snd c) P2 H2).
  tauto.
Qed.

Lemma pmx_thm p1 p2 : is_perm p1 -> is_perm p2 -> length p1 = length p2 -> (1 <= length p1)%nat ->
  always (cxPartialyMatched p1 p2) (perms_kept p1 p2).
Proof.
  intros P1 P2 E H. eapply always_conseq; [apply wp_always, wp_cxPartialyMatched; assumption|].
  intros c Hc. now apply perm_post_kept.
Qed.

Lemma upmx_thm p1 p2 indpb : is_perm p1 -> is_perm p2 -> length p1 = length p2 ->
  always (cxUniformPartialyMatched p1 p2 indpb) (perms_kept p1 p2).
Proof.
  intros P1 P2 E. eapply always_conseq; [apply wp_always, wp_cxUniformPartialyMatched; assumption|].
  intros c Hc. now apply perm_post_kept.
Qed.

Lemma ordered_thm p1 p2 : is_perm p1 -> is_perm p2 -> length p1 = length p2 -> (2 <= length p1)%nat ->
  always (cxOrdered p1 p2) (fun c =>
    perms_kept p1 p2 c /\
    exists a b : nat, (a < b < length p1)%nat /\
      forall i, (a <= i <= b)%nat -> swapped_at p1 p2 (fst c) (snd c) i).
Proof.
  intros P1 P2 E H. eapply always_conseq; [apply wp_always, wp_cxOrdered; assumption|].
  intros c [Hc Hs]. split; [now apply perm_post_kept|exact Hs].
Qed.

Lemma ordered_guard p1 p2 : Z.min (zlen p1) (zlen p2) < 2 -> only_raises (cxOrdered p1 p2) ValueError.
Proof.
  intros H ds Hds. unfold run, cxOrdered, bind, sample2.
  destruct ds as [|[u|lo hi r|n r|n r] ds]; auto.
  destruct (n =? Z.min (zlen p1) (zlen p2)) eqn:E; auto. apply Z.eqb_eq in E. subst.
  inversion Hds as [|d l Hd Hl]; subst. destruct r as [[a b]|]; cbn in Hd; [lia|auto].
Qed.

Lemma shuffle_perm_thm (p : list Z) indpb : is_perm p -> zlen p <> 1 ->
  always (mutShuffleIndexes p indpb) (fun c => is_perm c /\ Permutation c p).
Proof.
  intros P H. eapply always_conseq; [apply shuffle_thm; exact H|].
  intros c [Hc _]. split; [exact (is_perm_trans p c P Hc)|exact Hc].
Qed.

Lemma inversion_perm_thm (p : list Z) : is_perm p ->
  always (mutInversion p) (fun c => is_perm c /\ Permutation c p).
Proof.
  intro P. eapply always_conseq; [apply inversion_thm|].
  intros c [Hc _]. split; [exact (is_perm_trans p c P Hc)|exact Hc].
Qed.

(* ---- bit flip, uniform int ---- *)
Lemma flip_gene_thm g :
  same_type g (flip_gene g) /\ truthy (flip_gene g) = negb (truthy g) /\
  (is_bit g -> flip_gene g = complement g /\ is_bit (flip_gene g) /\ flip_gene (flip_gene g) = g).
Proof.
  split; [apply flip_gene_type|]. split; [apply flip_gene_truthy|].
  intro Hb. destruct (flip_gene_bit g Hb) as [E Hb']. split; [exact E|]. split; [exact Hb'|].
  destruct g as [z|b|z]; cbn in *.
  - destruct Hb as [-> | ->]; reflexivity.
  - now destruct b.
  - destruct Hb as [-> | ->]; reflexivity.
Qed.

Lemma flip_bit_thm p indpb :
  always (mutFlipBit p indpb) (fun c =>
    length c = length p /\
    forall i g, nth_error p i = Some g -> nth_error c i = Some g \/ nth_error c i = Some (flip_gene g)).
Proof.
  eapply always_conseq; [apply wp_always, wp_mutFlipBit|].
  intros c [L H]. split; [exact L|]. intros i g Hg. destruct (H i) as [E|E]; rewrite E, Hg; auto.
Qed.

Lemma uniform_int_thm p low up indpb :
  bound_covers low (length p) -> bound_covers up (length p) ->
  (forall i, (i < length p)%nat -> bound_at low i <= bound_at up i) ->
  always (mutUniformInt p low up indpb) (fun c =>
    length c = length p /\
    forall i x, nth_error p i = Some x ->
      exists y, nth_error c i = Some y /\ (y = x \/ bound_at low i <= y <= bound_at up i)).
Proof.
  intros Cl Cu Hle. apply wp_always. now apply wp_mutUniformInt.
Qed.

Lemma uniform_int_guard p low up indpb :
  ~ bound_covers low (length p) \/ ~ bound_covers up (length p) ->
  forall ds, run (mutUniformInt p low up indpb) ds = Raise IndexError.
Proof.
  intros H ds. unfold run, mutUniformInt, bind.
  destruct low as [zl|ll]; cbn [expand_bound bound_covers] in *.
  - destruct up as [zu|lu]; cbn [expand_bound bound_covers] in *; [tauto|].
    cbn [ret]. replace (zlen lu <? zlen p) with true by (unfold zlen; lia). reflexivity.
  - destruct (zlen ll <? zlen p) eqn:E; [reflexivity|].
    destruct up as [zu|lu]; cbn [expand_bound bound_covers] in *; [unfold zlen in E; lia|].
    cbn [ret]. replace (zlen lu <? zlen p) with true by (unfold zlen in *; lia). reflexivity.
Qed.
