(* C14 — _select with C04's model of sortLogNondominated (Model/C14_LogSelect.v):
   the selection theorems of Proofs/C14_MO.v for ANY list of fronts covering the candidates, and
   the composition with C04: sort_log returns, front by front, permutations of the leading
   peeling fronts of the candidates, which together are all the candidates. *)
From Coq Require Import ZArith List Permutation Lia.
From mathcomp Require Import all_ssreflect.
From DV Require Import Base.PyList Model.C14_exec Model.C04_NDSort Model.C04_LogSort Model.C14_LogSelect
  Proofs.C04_NDSort Proofs.C04_Spec Proofs.C04_LogFinal Proofs.C14_MO Proofs.C14_LogFronts.
Set Implicit Arguments. Unset Strict Implicit. Unset Printing Implicit Defensive.

(* the model of Model/C14_exec.v is the same selection on the peeled fronts *)
Lemma mo_select_is_fronts (T : Type) (Op : Ops T) mu (wvs : seq (seq T)) hv :
  mo_select Op mu wvs hv =
  if Nat.leb (length wvs) mu then (List.seq 0 (length wvs), [::], [::])
  else mo_select_fronts mu (nd_fronts Op wvs) hv.
Proof. by []. Qed.

Section SelectFronts.
Variables (mu : nat) (fronts : seq (seq nat)) (hv : seq nat).
Hypothesis lt_mu : mu < size (flatten fronts).

Theorem mo_select_fronts_spec :
  let j := nfit mu fronts 0 in
  let ch := flatten (take j fronts) in
  j < size fronts /\
  mo_select_fronts mu fronts hv =
    if size ch == mu then (ch, flatten (drop j fronts), [::])
    else let fj := nth [::] fronts j in
         let k := mu - size ch in
         let: (m', rem, seen) := hv_removals (size fj - k) fj hv [::] [::] in
         (ch ++ m', flatten (drop j.+1 fronts) ++ rem, seen).
Proof.
move=> j ch.
have szch : size ch <= mu by have := nfit_size mu fronts 0; rewrite !add0n leq0n.
have jlt : j < size fronts.
  have := nfit_le mu fronts 0; rewrite leq_eqVlt => /orP[/eqP E|//].
  by move: szch; rewrite /ch /j E take_size leqNgt lt_mu.
split=> //; rewrite /mo_select_fronts.
rewrite (@fill_fronts_spec mu fronts [::] [::] (leq0n mu)) /= -/j -/ch.
rewrite (ltn_eqF jlt); case: ltnP => lt /=; rewrite !List_lengthE ?minusE.
  rewrite (ltn_eqF lt).
  case E: (mu - size ch) => [|k']; first by move: lt; rewrite -subn_gt0 E.
  by rewrite -E.
have -> : size ch == mu by rewrite eqn_leq szch lt.
by rewrite (eqP (_ : mu - size ch == 0)) // subn_eq0.
Qed.

Theorem mo_select_fronts_exactly_mu :
  let j := nfit mu fronts 0 in
  let fj := nth [::] fronts j in
  let k := mu - size (flatten (take j fronts)) in
  hv_ok (size fj - k) fj hv ->
  let: (chosen, not_chosen, seen) := mo_select_fronts mu fronts hv in
  size chosen = mu /\ perm_eq (chosen ++ not_chosen) (flatten fronts).
Proof.
move=> j fj k ok.
have [jlt ->] := mo_select_fronts_spec; rewrite -/j -/fj -/k.
have szch : size (flatten (take j fronts)) <= mu by have := nfit_size mu fronts 0; rewrite !add0n leq0n.
case: eqP => [E|ne].
  by rewrite -flatten_cat cat_take_drop.
have lt : size (flatten (take j fronts)) < mu by rewrite ltn_neqAle szch andbT; apply/eqP.
have nxt : mu < size (flatten (take j fronts)) + size fj by have := nfit_next jlt; rewrite add0n.
have kle : k <= size fj by rewrite /k leq_subLR ltnW.
have := hv_removals_spec [::] [::] ok (leq_subr _ _).
cbv zeta; rewrite -/fj -/k.
case: (hv_removals _ _ _ _ _) => [[m' rem] seen] [sz pm ss] /=; split.
- by rewrite size_cat sz subKn // /k subnKC.
- have -> : flatten fronts = flatten (take j fronts) ++ fj ++ flatten (drop j.+1 fronts).
    by rewrite -{1}(cat_take_drop j fronts) flatten_cat (drop_nth [::] jlt) /=.
  rewrite -catA perm_cat2l perm_catCA perm_sym perm_catC perm_cat2l perm_sym.
  by move: pm; rewrite cats0.
Qed.
End SelectFronts.

(* ---- bridging Coq's list vocabulary (C04) and mathcomp's (C14) ---- *)
Lemma flattenE (A : Type) (l : seq (seq A)) : flatten l = List.concat l.
Proof. by elim: l => //= x l ->. Qed.

Lemma List_seqE s n : List.seq s n = iota s n.
Proof. by elim: n s => //= n IH s; rewrite IH. Qed.

Lemma Permutation_count (A : Type) (P : pred A) (l1 l2 : seq A) :
  Permutation l1 l2 -> count P l1 = count P l2.
Proof.
elim=> //= [x a b _ -> //|x y a|a b c _ -> _ -> //].
by rewrite addnCA.
Qed.

Lemma Permutation_perm_eq (l1 l2 : seq nat) : Permutation l1 l2 -> perm_eq l1 l2.
Proof. by move=> p; apply/permP => P; exact: Permutation_count. Qed.

(* ---- _select on the fronts of sortLogNondominated ---- *)
Section LogSelect.
Variables (mu d : nat) (wvs : seq (seq Z)) (hv : seq nat).
Hypothesis szs : forall w, List.In w wvs -> length w = d.
Hypothesis d2 : 2 <= d.
Hypothesis lt_mu : mu < size wvs.

Let pop := cand_pop wvs.
Let n := size wvs.

Lemma wvs_ne : wvs <> [::].
Proof. by move=> E; move: lt_mu; rewrite E. Qed.

(* the sorter succeeds; its fronts are permutations of the leading peeling fronts (C04's
   specification spec_fronts) and cover the candidates; _select then takes whole fronts while they
   fit and reduces the next one by the indicator *)
Theorem mo_select_log_spec :
  exists fs j0,
    [/\ sort_log pop (Z.of_nat n) false = Some (LFronts fs),
        (j0 < length (spec_fronts pop))%coq_nat,
        List.Forall2 (@Permutation ind) fs (List.firstn j0.+1 (spec_fronts pop)) &
        let fronts := List.map (List.map uid) fs in
        let j := nfit mu fronts 0 in
        let ch := flatten (take j fronts) in
        [/\ perm_eq (flatten fronts) (iota 0 n), j < size fronts &
            mo_select_log mu wvs hv = Some
              (if size ch == mu then (ch, flatten (drop j fronts), [::])
               else let fj := nth [::] fronts j in
                    let k := mu - size ch in
                    let: (m', rem, seen) := hv_removals (size fj - k) fj hv [::] [::] in
                    (ch ++ m', flatten (drop j.+1 fronts) ++ rem, seen))]].
Proof.
have d2' : (2 <= d)%coq_nat by apply/leP.
have [fs [j0 [E [Hj [P C]]]]] := @log_fronts_cover wvs d wvs_ne szs d2'.
exists fs, j0; split=> //.
move=> fronts j ch.
have pm : perm_eq (flatten fronts) (iota 0 n).
  by rewrite flattenE -List_seqE; apply: Permutation_perm_eq.
have lt' : mu < size (flatten fronts) by rewrite (perm_size pm) size_iota.
have [jlt sel] := mo_select_fronts_spec hv lt'.
split=> //.
rewrite /mo_select_log List_lengthE lebE leqNgt lt_mu /= -/n -/pop E /=.
by rewrite -/fronts sel.
Qed.

(* exactly mu survivors, and chosen ++ not_chosen is a rearrangement of all candidates *)
Theorem mo_select_log_exactly_mu :
  exists fs,
    sort_log pop (Z.of_nat n) false = Some (LFronts fs) /\
    let fronts := List.map (List.map uid) fs in
    let j := nfit mu fronts 0 in
    let fj := nth [::] fronts j in
    let k := mu - size (flatten (take j fronts)) in
    (hv_ok (size fj - k) fj hv ->
     exists chosen not_chosen seen,
       [/\ mo_select_log mu wvs hv = Some (chosen, not_chosen, seen), size chosen = mu &
           perm_eq (chosen ++ not_chosen) (iota 0 n)]).
Proof.
have d2' : (2 <= d)%coq_nat by apply/leP.
have [fs [j0 [E [Hj [P C]]]]] := @log_fronts_cover wvs d wvs_ne szs d2'.
exists fs; split=> // fronts j fj k ok.
have pm : perm_eq (flatten fronts) (iota 0 n).
  by rewrite flattenE -List_seqE; apply: Permutation_perm_eq.
have lt' : mu < size (flatten fronts) by rewrite (perm_size pm) size_iota.
have := mo_select_fronts_exactly_mu lt' ok.
rewrite /mo_select_log List_lengthE lebE leqNgt lt_mu /= -/n -/pop E /= -/fronts.
case: (mo_select_fronts _ _ _) => [[chosen not_chosen] seen] [sz pe].
exists chosen, not_chosen, seen; split=> //.
exact: perm_trans pe pm.
Qed.
End LogSelect.
