From Coq Require Import Reals ZArith List Bool Lia Lra.
From DV Require Import Base.PyList Base.C20_Num Model.C20_BenchSpec Proofs.C20_Lists Proofs.C20_Reals.
Import ListNotations.
Local Open Scope R_scope.

Lemma rev_seq_S n : rev (seq 0 (S n)) = map S (rev (seq 0 n)) ++ [0%nat].
Proof.
  change (seq 0 (S n)) with (0%nat :: seq 1 n). cbn [rev]. rewrite <- seq_shift, map_rev. reflexivity.
Qed.

(* DTLZ1: the objectives sum to r *)
Lemma simplex_sum (xc : list R) : forall r, Rsum (@simplex R NumR r xc) = r.
Proof.
  induction xc as [|a rest IH]; intro r; cbn [simplex].
  - unfold Rsum. cbn. ring.
  - rewrite Rsum_app, IH. unfold Rsum. numR. cbn. ring.
Qed.

(* DTLZ2-6: the squared objectives sum to r^2 *)
Lemma sphere_norm (angles : list R) : forall r, Rsum (map (fun f => f ^ 2) (@sphere_coords R NumR r angles)) = r ^ 2.
Proof.
  induction angles as [|t rest IH]; intro r; cbn [sphere_coords].
  - unfold Rsum. cbn. ring.
  - rewrite map_app, Rsum_app, IH. unfold Rsum. numR. cbn.
    pose proof (sin2_cos2 t) as E. unfold Rsqr in E. nra.
Qed.

(* explicit (published, index-style) form of the two shapes *)
Lemma simplex_shape (xc : list R) : forall r,
  @simplex R NumR r xc =
  (r * Rprod xc) :: map (fun m => r * Rprod (firstn m xc) * (1 - nth m xc 0)) (rev (seq 0 (length xc))).
Proof.
  induction xc as [|a rest IH]; intro r; cbn [simplex length].
  - cbn. f_equal. unfold Rprod. cbn. ring.
  - rewrite IH, rev_seq_S, map_app, map_map. numR. cbn [app map]. f_equal.
    + unfold Rprod. cbn. ring.
    + f_equal.
      * apply map_ext. intro m. cbn [firstn nth]. unfold Rprod. cbn. ring.
      * cbn. f_equal. unfold Rprod. cbn. ring.
Qed.

Lemma sphere_shape (angles : list R) : forall r,
  @sphere_coords R NumR r angles =
  (r * Rprod (map cos angles))
  :: map (fun m => r * Rprod (map cos (firstn m angles)) * sin (nth m angles 0)) (rev (seq 0 (length angles))).
Proof.
  induction angles as [|a rest IH]; intro r; cbn [sphere_coords length].
  - cbn. f_equal. unfold Rprod. cbn. ring.
  - rewrite IH, rev_seq_S, map_app, map_map. numR. cbn [app map]. f_equal.
    + unfold Rprod. cbn. ring.
    + f_equal.
      * apply map_ext. intro m. cbn [firstn nth map]. unfold Rprod. cbn. ring.
      * cbn. f_equal. unfold Rprod. cbn. ring.
Qed.
