(* Lemmas and proofs for C12 (model: Model/C12_GPPrint.v). *)
From Coq Require Import List ZArith Bool Lia String Ascii Arith.
From DV Require Import Base.C12_Str Model.C12_GPPrint.
Import ListNotations.
Local Open Scope string_scope.
Local Open Scope list_scope.

(* ------------------------------------------------------------------ trees *)
Lemma tree_ind' (P : tree -> Prop) :
  (forall n kids, Forall P kids -> P (T n kids)) -> forall tr, P tr.
Proof.
  intro H. fix IH 1. intros [n kids]. apply H.
  induction kids as [|k ks IHk]; constructor; [apply IH|exact IHk].
Qed.

Definition wf_tree (tr : tree) : Prop := wf_treeb tr = true.

Lemma wf_tree_inv n kids : wf_tree (T n kids) ->
  node_arity n = Some (List.length kids) /\ Forall wf_tree kids.
Proof.
  unfold wf_tree; cbn. rewrite andb_true_iff, forallb_forall. intros [A B]. split.
  - unfold arity_matches in A. destruct (node_arity n); [|discriminate].
    apply Nat.eqb_eq in A. now subst.
  - apply Forall_forall. exact B.
Qed.

Lemma wf_tree_intro n kids :
  node_arity n = Some (List.length kids) -> Forall wf_tree kids -> wf_tree (T n kids).
Proof.
  intros A B. unfold wf_tree; cbn. rewrite andb_true_iff, forallb_forall. split.
  - unfold arity_matches. rewrite A. apply Nat.eqb_refl.
  - apply Forall_forall. exact B.
Qed.

(* the catamorphism the stack machine is supposed to compute *)
Section Fold.
  Context {A : Type}.
  Variable F : node -> list A -> A.
  Fixpoint foldT (tr : tree) : A := match tr with T n kids => F n (map foldT kids) end.
End Fold.

(* ------------------------------------------------------------------ the stack machine on a complete tree *)
Section MachineFacts.
  Context {A : Type}.
  Variable F : node -> list A -> A.

  (* a finished value meets the stack: the body of the while loop after the pop *)
  Definition deliver (v : A) (stack : list (frame (A:=A))) : A * list frame :=
    match stack with
    | [] => (v, [])
    | (p, a) :: rest => unwind F v p (a ++ [v]) rest
    end.

  Lemma unwind_eq cur prim args rest :
    unwind F cur prim args rest =
    if arity_matches (List.length args) prim then deliver (F prim args) rest
    else (cur, (prim, args) :: rest).
  Proof. destruct rest as [|[p2 a2] rest2]; reflexivity. Qed.

  Definition tree_ok (tr : tree) : Prop :=
    forall cur stack more,
      fold_left (step F) (flatten tr ++ more) (cur, stack) =
      fold_left (step F) more (deliver (foldT F tr) stack).

  Lemma run_forest ks :
    Forall tree_ok ks -> ks <> [] ->
    forall n a cur stack more,
      node_arity n = Some (List.length a + List.length ks) ->
      fold_left (step F) (flat_map flatten ks ++ more) (cur, (n, a) :: stack) =
      fold_left (step F) more (deliver (F n (a ++ map (foldT F) ks)) stack).
  Proof.
    induction ks as [|k ks IH]; intros Hks Hne n a cur stack more Har; [congruence|].
    inversion Hks as [|? ? Hk Hrest]; subst. cbn [flat_map map].
    rewrite <- app_assoc, (Hk cur ((n, a) :: stack)). cbn [deliver]. rewrite unwind_eq.
    unfold arity_matches. rewrite Har, app_length. cbn [List.length].
    destruct ks as [|k2 ks2].
    - cbn [List.length flat_map map app]. replace (List.length a + 1) with (List.length a + 1) by reflexivity.
      rewrite Nat.eqb_refl. reflexivity.
    - match goal with |- context [Nat.eqb ?x ?y] => destruct (Nat.eqb_spec x y) as [E|_] end.
      { cbn [List.length] in E. lia. }
      rewrite (IH Hrest ltac:(discriminate) n (a ++ [foldT F k]) (foldT F k) stack more).
      + now rewrite <- app_assoc.
      + rewrite Har, app_length. cbn [List.length]. f_equal. lia.
  Qed.

  Lemma run_tree tr : wf_tree tr -> tree_ok tr.
  Proof.
    induction tr as [n kids IH] using tree_ind'. intro W.
    destruct (wf_tree_inv _ _ W) as [Har Wk]. intros cur stack more.
    cbn [flatten app fold_left]. unfold step at 2. cbn [fst snd]. rewrite unwind_eq.
    unfold arity_matches. rewrite Har. cbn [List.length].
    destruct kids as [|k ks].
    - reflexivity.
    - cbn [Nat.eqb List.length].
      assert (Forall tree_ok (k :: ks)) as Hok.
      { clear - IH Wk. induction IH as [|x l Hx _ IHl]; inversion Wk; subst; constructor; auto. }
      rewrite (run_forest (k :: ks) Hok ltac:(discriminate) n [] cur stack more Har). reflexivity.
  Qed.

  Lemma run_flatten a0 tr : wf_tree tr -> run F a0 (flatten tr) = foldT F tr.
  Proof.
    intro W. unfold run. rewrite <- (app_nil_r (flatten tr)), (run_tree tr W a0 [] []). reflexivity.
  Qed.
End MachineFacts.

(* ------------------------------------------------------------------ recursive-descent parse <-> flatten *)
Lemma parse_forest_sound fuel : forall k l ts r,
  parse_forest fuel k l = Some (ts, r) ->
  l = flat_map flatten ts ++ r /\ List.length ts = k /\ Forall wf_tree ts.
Proof.
  induction fuel as [|f IH]; intros k l ts r H.
  - destruct k; cbn in H; [|discriminate]. injection H as <- <-. auto.
  - destruct k as [|k']; cbn in H. { injection H as <- <-. auto. }
    destruct l as [|n r0]; [discriminate|].
    destruct (node_arity n) as [a|] eqn:Ea; [|discriminate].
    destruct (parse_forest f a r0) as [[kids r1]|] eqn:E1; [|discriminate].
    destruct (parse_forest f k' r1) as [[sibs r2]|] eqn:E2; [|discriminate].
    injection H as <- <-.
    destruct (IH _ _ _ _ E1) as (L1 & N1 & W1). destruct (IH _ _ _ _ E2) as (L2 & N2 & W2).
    subst. repeat split.
    + cbn. now rewrite <- app_assoc.
    + constructor; [|exact W2]. apply wf_tree_intro; auto.
Qed.

Lemma parse_forest_complete fuel : forall ts r,
  Forall wf_tree ts -> List.length (flat_map flatten ts) <= fuel ->
  parse_forest fuel (List.length ts) (flat_map flatten ts ++ r) = Some (ts, r).
Proof.
  induction fuel as [|f IH]; intros ts r W L.
  - destruct ts as [|[n kids] ts]; [reflexivity|]. cbn in L. lia.
  - destruct ts as [|[n kids] sibs]; [reflexivity|].
    inversion W as [|? ? W1 W2]; subst. destruct (wf_tree_inv _ _ W1) as [Har Wk].
    cbn [flat_map flatten List.length app] in *. rewrite ?app_length in L. cbn [List.length] in L.
    rewrite ?app_length in L. cbn [parse_forest]. rewrite Har.
    rewrite <- !app_assoc. rewrite (IH kids (flat_map flatten sibs ++ r) Wk ltac:(lia)).
    rewrite (IH sibs r W2 ltac:(lia)). reflexivity.
Qed.

Lemma parse_sound t tr : parse t = Some tr -> t = flatten tr /\ wf_tree tr.
Proof.
  unfold parse. destruct (parse_forest _ 1 t) as [[ts r]|] eqn:E; [|discriminate].
  destruct ts as [|x [|? ?]]; try discriminate. destruct r; [|discriminate].
  intro H; injection H as <-. destruct (parse_forest_sound _ _ _ _ _ E) as (L & _ & W).
  cbn in L. rewrite !app_nil_r in L. inversion W; auto.
Qed.

Lemma parse_flatten tr : wf_tree tr -> parse (flatten tr) = Some tr.
Proof.
  intro W. unfold parse.
  pose proof (parse_forest_complete (S (List.length (flatten tr))) [tr] [] (Forall_cons _ W (Forall_nil _))) as H.
  cbn [flat_map List.length] in H. rewrite !app_nil_r in H. rewrite H; [reflexivity|lia].
Qed.

(* ------------------------------------------------------------------ str = pp *)
Lemma pp_fold ps tr : pp ps tr = foldT (fmt ps) tr.
Proof.
  induction tr as [n kids IH] using tree_ind'. destruct n; cbn; try reflexivity.
  assert (map (pp ps) kids = map (foldT (fmt ps)) kids) as ->; [|reflexivity].
  induction IH as [|k ks Hk _ IHl]; cbn [map]; [reflexivity|]. now rewrite Hk, IHl.
Qed.

Lemma str_flatten ps tr : wf_tree tr -> str_tree ps (flatten tr) = pp ps tr.
Proof. intro W. unfold str_tree. rewrite run_flatten by exact W. symmetry. apply pp_fold. Qed.

Lemma str_is_pp ps t tr : parse t = Some tr -> str_tree ps t = pp ps tr.
Proof. intro H. destruct (parse_sound _ _ H) as [-> W]. now apply str_flatten. Qed.

(* ------------------------------------------------------------------ printable trees *)
(* names are Python identifiers; constants print as a separator-free atom that evaluates back *)
Definition node_ok (ps : pset) (n : node) : Prop :=
  match n with
  | NPrim name _ _ => is_ident name = true
  | NArg j _ => is_ident (nth j (ps_argvalue ps) "") = true
  | NSym name _ => is_ident name = true
  | NConst c _ => atom_ok (repr c) = true /\ lit (repr c) = Some c
  | NClass _ _ => False
  end.

Definition all_nodes (P : node -> Prop) (tr : tree) : Prop := Forall P (flatten tr).

Lemma all_nodes_inv P n kids : all_nodes P (T n kids) <-> P n /\ Forall (all_nodes P) kids.
Proof. unfold all_nodes; cbn. rewrite Forall_cons_iff, Forall_flat_map. reflexivity. Qed.

Lemma node_tok_ok ps n : node_ok ps n -> atom_ok (node_tok ps n) = true.
Proof.
  destruct n; cbn; intro H; try (apply ident_atom_ok; exact H); [tauto|contradiction].
Qed.

Lemma wf_terminal n kids : wf_tree (T n kids) -> node_arity n = Some 0 -> kids = [].
Proof.
  intros W H. destruct (wf_tree_inv _ _ W) as [A _]. rewrite H in A. injection A as A.
  destruct kids; [reflexivity|discriminate].
Qed.

(* ------------------------------------------------------------------ lexing the printed form *)
Fixpoint join_lex (l : list (list lexeme)) : list lexeme :=
  match l with
  | [] => []
  | x :: r => match r with [] => x | _ :: _ => x ++ LComma :: join_lex r end
  end.

Fixpoint lexemes (ps : pset) (tr : tree) : list lexeme :=
  match tr with
  | T (NPrim name _ _) kids => LAtom name :: LOpen :: join_lex (map (lexemes ps) kids) ++ [LClose]
  | T n _ => [LAtom (fmt ps n [])]
  end.

Lemma prim_shape (name J rest : string) :
  ((name ++ "(" ++ J ++ ")") ++ rest)%string = (name ++ String "(" (J ++ String ")" rest))%string.
Proof. rewrite app_assoc_s. f_equal. cbn. f_equal. now rewrite app_assoc_s. Qed.

Lemma comma_shape (a C R : string) :
  ((a ++ ", " ++ C) ++ R)%string = (a ++ String "," (String " " (C ++ R)))%string.
Proof. rewrite app_assoc_s. f_equal. Qed.

Definition lex_ok ps (tr : tree) : Prop :=
  wf_tree tr -> all_nodes (node_ok ps) tr ->
  forall rest, starts_sep rest = true -> lex (pp ps tr ++ rest)%string = lexemes ps tr ++ lex rest.

Lemma lex_args ps kids :
  Forall (lex_ok ps) kids -> Forall wf_tree kids -> Forall (all_nodes (node_ok ps)) kids ->
  forall rest,
    lex (String.concat ", " (map (pp ps) kids) ++ String ")" rest)%string =
    join_lex (map (lexemes ps) kids) ++ LClose :: lex rest.
Proof.
  induction kids as [|k ks IH]; intros HP HW HO rest.
  - cbn. apply lex_close.
  - inversion HP as [|? ? Pk Pks]; inversion HW as [|? ? Wk Wks]; inversion HO as [|? ? Ok Oks]; subst.
    destruct ks as [|k2 ks2].
    + cbn [map String.concat join_lex]. rewrite (Pk Wk Ok) by reflexivity. now rewrite lex_close.
    + change (String.concat ", " (map (pp ps) (k :: k2 :: ks2)))
        with (pp ps k ++ ", " ++ String.concat ", " (map (pp ps) (k2 :: ks2)))%string.
      rewrite comma_shape, (Pk Wk Ok) by reflexivity.
      rewrite lex_comma, lex_space, (IH Pks Wks Oks).
      cbn [map join_lex]. now rewrite <- app_assoc.
Qed.

Lemma lex_pp ps tr : lex_ok ps tr.
Proof.
  induction tr as [n kids IH] using tree_ind'. intros W OK rest Hr.
  apply all_nodes_inv in OK as [On Ok]. destruct (wf_tree_inv _ _ W) as [Har Wk].
  destruct n as [name args ret|j r|name r|c r|name r];
    try (cbn [pp lexemes]; rewrite lex_atom_app; [reflexivity|apply (node_tok_ok ps _ On)|exact Hr]).
  - cbn [pp lexemes]. rewrite prim_shape, lex_atom_app; [|apply ident_atom_ok; exact On|reflexivity].
    rewrite lex_open, (lex_args ps kids IH Wk Ok). cbn. now rewrite <- app_assoc.
  - contradiction.
Qed.

Lemma lex_pp0 ps tr : wf_tree tr -> all_nodes (node_ok ps) tr -> lex (pp ps tr) = lexemes ps tr.
Proof.
  intros W O. rewrite <- (app_nil_r_s (pp ps tr)), (lex_pp ps tr W O "") by reflexivity.
  cbn. apply app_nil_r.
Qed.

Lemma atoms_join ps kids :
  Forall (fun k => atoms (lexemes ps k) = map (node_tok ps) (flatten k)) kids ->
  atoms (join_lex (map (lexemes ps) kids)) = map (node_tok ps) (flat_map flatten kids).
Proof.
  induction 1 as [|k ks Hk _ IH]; [reflexivity|]. cbn [map flat_map]. rewrite map_app, <- Hk, <- IH.
  destruct ks as [|k2 ks2]; cbn [map join_lex].
  - cbn. now rewrite app_nil_r.
  - rewrite atoms_app. reflexivity.
Qed.

Lemma atoms_lexemes ps tr : wf_tree tr -> atoms (lexemes ps tr) = map (node_tok ps) (flatten tr).
Proof.
  induction tr as [n kids IH] using tree_ind'. intro W. destruct (wf_tree_inv _ _ W) as [Har Wk].
  destruct n as [name args ret|j r|name r|c r|name r];
    try (rewrite (wf_terminal _ _ W eq_refl); reflexivity); [|discriminate].
  cbn [lexemes atoms flatten map node_tok]. rewrite atoms_app. cbn [atoms]. rewrite app_nil_r. f_equal.
  apply atoms_join. clear - IH Wk. induction IH; inversion Wk; subst; constructor; auto.
Qed.

(* the tokens from_string sees for a printed tree: one per node, in prefix order *)
Lemma tokenize_pp ps tr : wf_tree tr -> all_nodes (node_ok ps) tr ->
  tokenize (pp ps tr) = map (node_tok ps) (flatten tr).
Proof. intros W O. now rewrite tokenize_lex, lex_pp0, atoms_lexemes. Qed.

(* ------------------------------------------------------------------ reading the printed form back *)
(* same terminal up to the declared type (from_string gives a constant the type of its slot) *)
Definition term_equiv (n n' : node) : Prop :=
  match n, n' with
  | NArg j _, NArg j' _ => j = j'
  | NSym a _, NSym b _ => a = b
  | NConst c _, NConst c' _ => c = c'
  | _, _ => False
  end.

Definition node_equiv (n n' : node) : Prop :=
  match n with
  | NPrim _ _ _ => n' = n
  | _ => term_equiv n n'
  end.

Inductive tree_equiv : tree -> tree -> Prop :=
| te_node n n' kids kids' :
    node_equiv n n' -> Forall2 tree_equiv kids kids' -> tree_equiv (T n kids) (T n' kids').

Lemma node_equiv_arity n n' : node_equiv n n' -> node_arity n' = node_arity n.
Proof. destruct n, n'; cbn; try contradiction; try discriminate; intro H; try reflexivity; now inversion H. Qed.

Lemma node_equiv_fmt ps n n' : node_equiv n n' -> forall a, fmt ps n' a = fmt ps n a.
Proof.
  destruct n, n'; cbn; try contradiction; try discriminate; intros H a; try reflexivity;
    try (now inversion H); now subst.
Qed.

Section ReadFacts.
  Variable sub : ty -> ty -> bool.
  Variable ps : pset.
  Hypothesis sub_refl : forall a, sub a a = true.
  Hypothesis sub_trans : forall a b c, sub a b = true -> sub b c = true -> sub a c = true.

  Notation mapping := (ps_mapping ps).

  (* the printed token of the node leads from_string back to the node: a primitive is registered under its
     name; a terminal is either registered under its printed form (possibly another terminal object that
     prints alike and is usable wherever this one is), or is a constant that evaluates back *)
  Definition resolvable (n : node) : Prop :=
    match n with
    | NPrim name _ _ => dget name mapping = Some n
    | NClass _ _ => False
    | _ => (exists n', dget (node_tok ps n) mapping = Some n' /\ term_equiv n n'
                       /\ sub (node_ret n') (node_ret n) = true)
           \/ (dget (node_tok ps n) mapping = None /\
               exists c r, n = NConst c r /\ lit (repr c) = Some c /\ sub (typeof c) r = true)
    end.

  (* every argument is acceptable where it stands (what C11 establishes for generated trees) *)
  Inductive typed : tree -> Prop :=
  | ty_node n kids :
      (forall name args ret, n = NPrim name args ret ->
         Forall2 (fun k a => sub (node_ret (root k)) a = true) kids args) ->
      Forall typed kids -> typed (T n kids).

  Definition expect_ok (n : node) (rts : list ty) : Prop :=
    match rts with [] => True | t :: _ => sub (node_ret n) t = true end.

  Lemma read_loop_cons tok r rts acc :
    read_loop sub mapping (tok :: r) rts acc =
    if negb (nonempty tok) then read_loop sub mapping r rts acc else
    let type_ := match rts with [] => None | t :: _ => Some t end in
    let rt := match rts with [] => [] | _ :: q => q end in
    match dget tok mapping with
    | Some prim =>
        if match type_ with Some t => negb (sub (node_ret prim) t) | None => false end then None
        else read_loop sub mapping r (match prim with NPrim _ args _ => args ++ rt | _ => rt end) (prim :: acc)
    | None =>
        match lit tok with
        | None => None
        | Some c =>
            let t := match type_ with Some t => t | None => typeof c end in
            if sub (typeof c) t then read_loop sub mapping r rt (NConst c t :: acc) else None
        end
    end.
  Proof. reflexivity. Qed.

  Lemma read_terminal n more rts acc :
    node_arity n = Some 0 -> (forall a b c, n <> NPrim a b c) ->
    node_ok ps n -> resolvable n -> expect_ok n rts ->
    exists n', node_equiv n n' /\
      read_loop sub mapping (node_tok ps n :: more) rts acc =
      read_loop sub mapping more (tl rts) (n' :: acc).
  Proof.
    intros Har Hnp Hok Hres Hex. rewrite read_loop_cons.
    pose proof (node_tok_ok ps n Hok) as Hat. unfold atom_ok in Hat. apply andb_true_iff in Hat as [Hne _].
    rewrite Hne. cbn [negb].
    assert (Hres' : (exists n', dget (node_tok ps n) mapping = Some n' /\ term_equiv n n'
                       /\ sub (node_ret n') (node_ret n) = true)
           \/ (dget (node_tok ps n) mapping = None /\
               exists c r, n = NConst c r /\ lit (repr c) = Some c /\ sub (typeof c) r = true)).
    { destruct n; cbn in Hres; try exact Hres; try contradiction. exfalso; eapply Hnp; reflexivity. }
    assert (Hne' : node_equiv n = term_equiv n).
    { destruct n; try reflexivity. exfalso; eapply Hnp; reflexivity. }
    destruct Hres' as [(n' & Hg & He & Hs)|(Hg & c & r & -> & Hl & Hs)].
    - exists n'. rewrite Hne'. split; [exact He|]. rewrite Hg.
      assert ((match match rts with [] => None | t :: _ => Some t end with
               | Some t => negb (sub (node_ret n') t) | None => false end) = false) as ->.
      { destruct rts as [|t q]; [reflexivity|]. cbn in Hex. rewrite (sub_trans _ _ _ Hs Hex). reflexivity. }
      destruct n, n'; cbn in He; try contradiction; try reflexivity; destruct rts; reflexivity.
    - cbn [node_tok fmt] in *. rewrite Hg, Hl.
      destruct rts as [|t q].
      + exists (NConst c (typeof c)). split; [reflexivity|]. cbn. now rewrite sub_refl.
      + exists (NConst c t). split; [reflexivity|]. cbn in Hex |- *. now rewrite (sub_trans _ _ _ Hs Hex).
  Qed.

  Definition read_ok (tr : tree) : Prop :=
    wf_tree tr -> all_nodes (node_ok ps) tr -> all_nodes resolvable tr -> typed tr ->
    forall rts more acc, expect_ok (root tr) rts ->
    exists tr', tree_equiv tr tr' /\
      read_loop sub mapping (map (node_tok ps) (flatten tr) ++ more) rts acc =
      read_loop sub mapping more (tl rts) (rev (flatten tr') ++ acc).

  Lemma read_forest ks :
    Forall read_ok ks -> Forall wf_tree ks -> Forall (all_nodes (node_ok ps)) ks ->
    Forall (all_nodes resolvable) ks -> Forall typed ks ->
    forall tys, Forall2 (fun k a => sub (node_ret (root k)) a = true) ks tys ->
    forall rt more acc,
    exists ks', Forall2 tree_equiv ks ks' /\
      read_loop sub mapping (map (node_tok ps) (flat_map flatten ks) ++ more) (tys ++ rt) acc =
      read_loop sub mapping more rt (rev (flat_map flatten ks') ++ acc).
  Proof.
    intros HP HW HO HR HT tys H2. revert HP HW HO HR HT.
    induction H2 as [|k ty ks tys Hk _ IH]; intros HP HW HO HR HT rt more acc.
    - exists []. split; [constructor|reflexivity].
    - inversion HP; inversion HW; inversion HO; inversion HR; inversion HT; subst.
      cbn [flat_map]. rewrite map_app, <- app_assoc. cbn [app].
      destruct (H1 H5 H9 H13 H17 (ty :: tys ++ rt) (map (node_tok ps) (flat_map flatten ks) ++ more) acc Hk)
        as (k' & Ek & Rk).
      rewrite Rk. cbn [tl].
      destruct (IH H2 H6 H10 H14 H18 rt more (rev (flatten k') ++ acc)) as (ks' & Eks & Rks).
      exists (k' :: ks'). split; [constructor; assumption|]. rewrite Rks. cbn [flat_map].
      now rewrite rev_app_distr, <- app_assoc.
  Qed.

  Lemma read_tree tr : read_ok tr.
  Proof.
    induction tr as [n kids IH] using tree_ind'. intros W OK RS TY rts more acc Hex.
    apply all_nodes_inv in OK as [On Ok]. apply all_nodes_inv in RS as [Rn Rk].
    destruct (wf_tree_inv _ _ W) as [Har Wk]. inversion TY as [? ? Targs Tk]; subst.
    destruct n as [name args ret|j r|name r|c r|name r].
    - (* primitive *)
      cbn [flatten map app root] in *. rewrite read_loop_cons.
      pose proof (ident_atom_ok _ On) as Hat. unfold atom_ok in Hat. apply andb_true_iff in Hat as [Hne _].
      cbn [node_tok]. rewrite Hne. cbn [negb]. cbn in Rn. rewrite Rn. cbn [node_ret].
      assert ((match match rts with [] => None | t :: _ => Some t end with
               | Some t => negb (sub ret t) | None => false end) = false) as ->.
      { destruct rts as [|t q]; [reflexivity|]. cbn in Hex. now rewrite Hex. }
      destruct (read_forest kids IH Wk Ok Rk Tk args (Targs _ _ _ eq_refl)
                  (match rts with [] => [] | _ :: q => q end) more (NPrim name args ret :: acc))
        as (ks' & Eks & Rks).
      exists (T (NPrim name args ret) ks'). split; [constructor; [reflexivity|exact Eks]|].
      rewrite Rks. cbn [flatten rev]. rewrite <- app_assoc. destruct rts; reflexivity.
    - rewrite (wf_terminal _ _ W eq_refl). cbn [flatten flat_map map app].
      destruct (read_terminal (NArg j r) more rts acc eq_refl ltac:(discriminate) On Rn Hex) as (n' & En & Rn').
      exists (T n' []). split; [constructor; [exact En|constructor]|]. exact Rn'.
    - rewrite (wf_terminal _ _ W eq_refl). cbn [flatten flat_map map app].
      destruct (read_terminal (NSym name r) more rts acc eq_refl ltac:(discriminate) On Rn Hex) as (n' & En & Rn').
      exists (T n' []). split; [constructor; [exact En|constructor]|]. exact Rn'.
    - rewrite (wf_terminal _ _ W eq_refl). cbn [flatten flat_map map app].
      destruct (read_terminal (NConst c r) more rts acc eq_refl ltac:(discriminate) On Rn Hex) as (n' & En & Rn').
      exists (T n' []). split; [constructor; [exact En|constructor]|]. exact Rn'.
    - contradiction.
  Qed.

  Lemma read_loop_filter l : forall rts acc,
    read_loop sub mapping l rts acc = read_loop sub mapping (filter nonempty l) rts acc.
  Proof.
    induction l as [|tok r IH]; intros rts acc; [reflexivity|].
    cbn [filter]. destruct (nonempty tok) eqn:E.
    - rewrite !read_loop_cons, E. cbn [negb].
      destruct (dget tok mapping) as [prim|].
      + destruct (match match rts with [] => None | t :: _ => Some t end with
                  | Some t => negb (sub (node_ret prim) t) | None => false end); [reflexivity|apply IH].
      + destruct (lit tok); [|reflexivity]. cbv zeta.
        destruct (sub (typeof c) _); [apply IH|reflexivity].
    - rewrite read_loop_cons, E. cbn [negb]. apply IH.
  Qed.

  Lemma read_print_tree tr :
    wf_tree tr -> all_nodes (node_ok ps) tr -> all_nodes resolvable tr -> typed tr ->
    exists tr', tree_equiv tr tr' /\ read sub mapping (str_tree ps (flatten tr)) = Some (flatten tr').
  Proof.
    intros W O R Ty. destruct (read_tree tr W O R Ty [] [] [] I) as (tr' & E & H).
    exists tr'. split; [exact E|]. unfold read. rewrite read_loop_filter.
    fold (tokenize (str_tree ps (flatten tr))). rewrite str_flatten, tokenize_pp by assumption.
    rewrite app_nil_r in H. rewrite H. cbn. now rewrite app_nil_r, rev_involutive.
  Qed.
End ReadFacts.

(* what the tree read back shares with the original *)
Lemma tree_equiv_wf tr : forall tr', tree_equiv tr tr' -> wf_tree tr -> wf_tree tr'.
Proof.
  induction tr as [n kids IH] using tree_ind'. intros tr' E W. inversion E as [? n' ? kids' En Ek]; subst.
  destruct (wf_tree_inv _ _ W) as [Har Wk]. apply wf_tree_intro.
  - rewrite (node_equiv_arity _ _ En), Har. f_equal. clear - Ek. induction Ek; cbn; auto.
  - clear - IH Ek Wk. induction Ek; inversion IH; inversion Wk; subst; constructor; auto.
Qed.

Lemma tree_equiv_pp ps tr : forall tr', tree_equiv tr tr' -> pp ps tr' = pp ps tr.
Proof.
  induction tr as [n kids IH] using tree_ind'. intros tr' E. inversion E as [? n' ? kids' En Ek]; subst.
  rewrite !pp_fold. cbn [foldT]. rewrite (node_equiv_fmt ps _ _ En). f_equal.
  clear - IH Ek. induction Ek; inversion IH; subst; cbn [map]; [reflexivity|].
  f_equal; [rewrite <- !pp_fold; auto|auto].
Qed.

Lemma tree_equiv_shape tr : forall tr', tree_equiv tr tr' ->
  map node_arity (flatten tr') = map node_arity (flatten tr).
Proof.
  induction tr as [n kids IH] using tree_ind'. intros tr' E. inversion E as [? n' ? kids' En Ek]; subst.
  cbn [flatten map]. rewrite (node_equiv_arity _ _ En). f_equal.
  clear - IH Ek. induction Ek; inversion IH; subst; cbn [flat_map]; [reflexivity|].
  rewrite !map_app. f_equal; auto.
Qed.

Lemma tree_equiv_eval {V} (cval : cst -> option V) ctx actuals tr :
  forall tr', tree_equiv tr tr' -> eval_tree cval ctx actuals tr' = eval_tree cval ctx actuals tr.
Proof.
  induction tr as [n kids IH] using tree_ind'. intros tr' E. inversion E as [? n' ? kids' En Ek]; subst.
  destruct n, n'; cbn in En; try contradiction; try discriminate; try (subst; reflexivity).
  injection En as -> -> ->. cbn [eval_tree]. destruct (dget name ctx) as [[v|g]|]; try reflexivity.
  match goal with |- match ?a with _ => _ end = match ?b with _ => _ end => assert (a = b) as ->; [|reflexivity] end.
  clear - IH Ek. induction Ek; inversion IH; subst; [reflexivity|].
  rewrite (H2 _ H). destruct (eval_tree cval ctx actuals x); [|reflexivity]. now rewrite IHEk.
Qed.
