(* Lemmas and proofs for C12 (model: Model/C12_GPPrint.v). *)
From Coq Require Import List ZArith Bool Lia String Ascii Arith.
From DV Require Import Base.C12_Str Model.C12_GPPrint.
Import ListNotations.
Local Open Scope string_scope.
Local Open Scope list_scope.

(* ------------------------------------------------------------------ trees *)
Lemma tree_ind' (P : tree -> Prop) :
  (forall n kids, Forall P kids -> P (T n kids)) -> forall tr, P tr.
Proof.
  intro H. fix IH 1. intros [n kids]. apply H.
  induction kids as [|k ks IHk]; constructor; [apply IH|exact IHk].
Qed.

Definition wf_tree (tr : tree) : Prop := wf_treeb tr = true.

Lemma wf_tree_inv n kids : wf_tree (T n kids) ->
  node_arity n = Some (List.length kids) /\ Forall wf_tree kids.
Proof.
  unfold wf_tree; cbn. rewrite andb_true_iff, forallb_forall. intros [A B]. split.
  - unfold arity_matches in A. destruct (node_arity n); [|discriminate].
    apply Nat.eqb_eq in A. now subst.
  - apply Forall_forall. exact B.
Qed.

Lemma wf_tree_intro n kids :
  node_arity n = Some (List.length kids) -> Forall wf_tree kids -> wf_tree (T n kids).
Proof.
  intros A B. unfold wf_tree; cbn. rewrite andb_true_iff, forallb_forall. split.
  - unfold arity_matches. rewrite A. apply Nat.eqb_refl.
  - apply Forall_forall. exact B.
Qed.

(* the catamorphism the stack machine is supposed to compute *)
Section Fold.
  Context {A : Type}.
  Variable F : node -> list A -> A.
  Fixpoint foldT (tr : tree) : A := match tr with T n kids => F n (map foldT kids) end.
End Fold.

(* ------------------------------------------------------------------ the stack machine on a complete tree *)
Section MachineFacts.
  Context {A : Type}.
  Variable F : node -> list A -> A.

  (* a finished value meets the stack: the body of the while loop after the pop *)
  Definition deliver (v : A) (stack : list (frame (A:=A))) : A * list frame :=
    match stack with
    | [] => (v, [])
    | (p, a) :: rest => unwind F v p (a ++ [v]) rest
    end.

  Lemma unwind_eq cur prim args rest :
    unwind F cur prim args rest =
    if arity_matches (List.length args) prim then deliver (F prim args) rest
    else (cur, (prim, args) :: rest).
  Proof. destruct rest as [|[p2 a2] rest2]; reflexivity. Qed.

  Definition tree_ok (tr : tree) : Prop :=
    forall cur stack more,
      fold_left (step F) (flatten tr ++ more) (cur, stack) =
      fold_left (step F) more (deliver (foldT F tr) stack).

  Lemma run_forest ks :
    Forall tree_ok ks -> ks <> [] ->
    forall n a cur stack more,
      node_arity n = Some (List.length a + List.length ks) ->
      fold_left (step F) (flat_map flatten ks ++ more) (cur, (n, a) :: stack) =
      fold_left (step F) more (deliver (F n (a ++ map (foldT F) ks)) stack).
  Proof.
    induction ks as [|k ks IH]; intros Hks Hne n a cur stack more Har; [congruence|].
    inversion Hks as [|? ? Hk Hrest]; subst. cbn [flat_map map].
    rewrite <- app_assoc, (Hk cur ((n, a) :: stack)). cbn [deliver]. rewrite unwind_eq.
    unfold arity_matches. rewrite Har, app_length. cbn [List.length].
    destruct ks as [|k2 ks2].
    - cbn [List.length flat_map map app]. replace (List.length a + 1) with (List.length a + 1) by reflexivity.
      rewrite Nat.eqb_refl. reflexivity.
    - match goal with |- context [Nat.eqb ?x ?y] => destruct (Nat.eqb_spec x y) as [E|_] end.
      { cbn [List.length] in E. lia. }
      rewrite (IH Hrest ltac:(discriminate) n (a ++ [foldT F k]) (foldT F k) stack more).
      + now rewrite <- app_assoc.
      + rewrite Har, app_length. cbn [List.length]. f_equal. lia.
  Qed.

  Lemma run_tree tr : wf_tree tr -> tree_ok tr.
  Proof.
    induction tr as [n kids IH] using tree_ind'. intro W.
    destruct (wf_tree_inv _ _ W) as [Har Wk]. intros cur stack more.
    cbn [flatten app fold_left]. unfold step at 2. cbn [fst snd]. rewrite unwind_eq.
    unfold arity_matches. rewrite Har. cbn [List.length].
    destruct kids as [|k ks].
    - reflexivity.
    - cbn [Nat.eqb List.length].
      assert (Forall tree_ok (k :: ks)) as Hok.
      { clear - IH Wk. induction IH as [|x l Hx _ IHl]; inversion Wk; subst; constructor; auto. }
      rewrite (run_forest (k :: ks) Hok ltac:(discriminate) n [] cur stack more Har). reflexivity.
  Qed.

  Lemma run_flatten a0 tr : wf_tree tr -> run F a0 (flatten tr) = foldT F tr.
  Proof.
    intro W. unfold run. rewrite <- (app_nil_r (flatten tr)), (run_tree tr W a0 [] []). reflexivity.
  Qed.
End MachineFacts.

(* ------------------------------------------------------------------ recursive-descent parse <-> flatten *)
Lemma parse_forest_sound fuel : forall k l ts r,
  parse_forest fuel k l = Some (ts, r) ->
  l = flat_map flatten ts ++ r /\ List.length ts = k /\ Forall wf_tree ts.
Proof.
  induction fuel as [|f IH]; intros k l ts r H.
  - destruct k; cbn in H; [|discriminate]. injection H as <- <-. auto.
  - destruct k as [|k']; cbn in H. { injection H as <- <-. auto. }
    destruct l as [|n r0]; [discriminate|].
    destruct (node_arity n) as [a|] eqn:Ea; [|discriminate].
    destruct (parse_forest f a r0) as [[kids r1]|] eqn:E1; [|discriminate].
    destruct (parse_forest f k' r1) as [[sibs r2]|] eqn:E2; [|discriminate].
    injection H as <- <-.
    destruct (IH _ _ _ _ E1) as (L1 & N1 & W1). destruct (IH _ _ _ _ E2) as (L2 & N2 & W2).
    subst. repeat split.
    + cbn. now rewrite <- app_assoc.
    + constructor; [|exact W2]. apply wf_tree_intro; auto.
Qed.

Lemma parse_forest_complete fuel : forall ts r,
  Forall wf_tree ts -> List.length (flat_map flatten ts) <= fuel ->
  parse_forest fuel (List.length ts) (flat_map flatten ts ++ r) = Some (ts, r).
Proof.
  induction fuel as [|f IH]; intros ts r W L.
  - destruct ts as [|[n kids] ts]; [reflexivity|]. cbn in L. lia.
  - destruct ts as [|[n kids] sibs]; [reflexivity|].
    inversion W as [|? ? W1 W2]; subst. destruct (wf_tree_inv _ _ W1) as [Har Wk].
    cbn [flat_map flatten List.length app] in *. rewrite ?app_length in L. cbn [List.length] in L.
    rewrite ?app_length in L. cbn [parse_forest]. rewrite Har.
    rewrite <- !app_assoc. rewrite (IH kids (flat_map flatten sibs ++ r) Wk ltac:(lia)).
    rewrite (IH sibs r W2 ltac:(lia)). reflexivity.
Qed.

Lemma parse_sound t tr : parse t = Some tr -> t = flatten tr /\ wf_tree tr.
Proof.
  unfold parse. destruct (parse_forest _ 1 t) as [[ts r]|] eqn:E; [|discriminate].
  destruct ts as [|x [|? ?]]; try discriminate. destruct r; [|discriminate].
  intro H; injection H as <-. destruct (parse_forest_sound _ _ _ _ _ E) as (L & _ & W).
  cbn in L. rewrite !app_nil_r in L. inversion W; auto.
Qed.

Lemma parse_flatten tr : wf_tree tr -> parse (flatten tr) = Some tr.
Proof.
  intro W. unfold parse.
  pose proof (parse_forest_complete (S (List.length (flatten tr))) [tr] [] (Forall_cons _ W (Forall_nil _))) as H.
  cbn [flat_map List.length] in H. rewrite !app_nil_r in H. rewrite H; [reflexivity|lia].
Qed.

(* ------------------------------------------------------------------ str = pp *)
Lemma pp_fold ps tr : pp ps tr = foldT (fmt ps) tr.
Proof.
  induction tr as [n kids IH] using tree_ind'. destruct n; cbn; try reflexivity.
  assert (map (pp ps) kids = map (foldT (fmt ps)) kids) as ->; [|reflexivity].
  induction IH as [|k ks Hk _ IHl]; cbn [map]; [reflexivity|]. now rewrite Hk, IHl.
Qed.

Lemma str_flatten ps tr : wf_tree tr -> str_tree ps (flatten tr) = pp ps tr.
Proof. intro W. unfold str_tree. rewrite run_flatten by exact W. symmetry. apply pp_fold. Qed.

Lemma str_is_pp ps t tr : parse t = Some tr -> str_tree ps t = pp ps tr.
Proof. intro H. destruct (parse_sound _ _ H) as [-> W]. now apply str_flatten. Qed.

(* ------------------------------------------------------------------ printable trees *)
(* names are Python identifiers; constants print as a separator-free atom that evaluates back *)
Definition node_ok (ps : pset) (n : node) : Prop :=
  match n with
  | NPrim name _ _ => is_ident name = true
  | NArg j _ => is_ident (nth j (ps_argvalue ps) "") = true
  | NSym name _ => is_ident name = true
  | NConst c _ => atom_ok (repr c) = true /\ lit (repr c) = Some c
  | NClass _ _ => False
  end.

Definition all_nodes (P : node -> Prop) (tr : tree) : Prop := Forall P (flatten tr).

Lemma all_nodes_inv P n kids : all_nodes P (T n kids) <-> P n /\ Forall (all_nodes P) kids.
Proof. unfold all_nodes; cbn. rewrite Forall_cons_iff, Forall_flat_map. reflexivity. Qed.

Lemma node_tok_ok ps n : node_ok ps n -> atom_ok (node_tok ps n) = true.
Proof.
  destruct n; cbn; intro H; try (apply ident_atom_ok; exact H); [tauto|contradiction].
Qed.

Lemma wf_terminal n kids : wf_tree (T n kids) -> node_arity n = Some 0 -> kids = [].
Proof.
  intros W H. destruct (wf_tree_inv _ _ W) as [A _]. rewrite H in A. injection A as A.
  destruct kids; [reflexivity|discriminate].
Qed.

(* ------------------------------------------------------------------ lexing the printed form *)
Fixpoint join_lex (l : list (list lexeme)) : list lexeme :=
  match l with
  | [] => []
  | x :: r => match r with [] => x | _ :: _ => x ++ LComma :: join_lex r end
  end.

Fixpoint lexemes (ps : pset) (tr : tree) : list lexeme :=
  match tr with
  | T (NPrim name _ _) kids => LAtom name :: LOpen :: join_lex (map (lexemes ps) kids) ++ [LClose]
  | T n _ => [LAtom (fmt ps n [])]
  end.

Lemma prim_shape (name J rest : string) :
  ((name ++ "(" ++ J ++ ")") ++ rest)%string = (name ++ String "(" (J ++ String ")" rest))%string.
Proof. rewrite app_assoc_s. f_equal. cbn. f_equal. now rewrite app_assoc_s. Qed.

Lemma comma_shape (a C R : string) :
  ((a ++ ", " ++ C) ++ R)%string = (a ++ String "," (String " " (C ++ R)))%string.
Proof. rewrite app_assoc_s. f_equal. Qed.

Definition lex_ok ps (tr : tree) : Prop :=
  wf_tree tr -> all_nodes (node_ok ps) tr ->
  forall rest, starts_sep rest = true -> lex (pp ps tr ++ rest)%string = lexemes ps tr ++ lex rest.

Lemma lex_args ps kids :
  Forall (lex_ok ps) kids -> Forall wf_tree kids -> Forall (all_nodes (node_ok ps)) kids ->
  forall rest,
    lex (String.concat ", " (map (pp ps) kids) ++ String ")" rest)%string =
    join_lex (map (lexemes ps) kids) ++ LClose :: lex rest.
Proof.
  induction kids as [|k ks IH]; intros HP HW HO rest.
  - cbn. apply lex_close.
  - inversion HP as [|? ? Pk Pks]; inversion HW as [|? ? Wk Wks]; inversion HO as [|? ? Ok Oks]; subst.
    destruct ks as [|k2 ks2].
    + cbn [map String.concat join_lex]. rewrite (Pk Wk Ok) by reflexivity. now rewrite lex_close.
    + change (String.concat ", " (map (pp ps) (k :: k2 :: ks2)))
        with (pp ps k ++ ", " ++ String.concat ", " (map (pp ps) (k2 :: ks2)))%string.
      rewrite comma_shape, (Pk Wk Ok) by reflexivity.
      rewrite lex_comma, lex_space, (IH Pks Wks Oks).
      cbn [map join_lex]. now rewrite <- app_assoc.
Qed.

Lemma lex_pp ps tr : lex_ok ps tr.
Proof.
  induction tr as [n kids IH] using tree_ind'. intros W OK rest Hr.
  apply all_nodes_inv in OK as [On Ok]. destruct (wf_tree_inv _ _ W) as [Har Wk].
  destruct n as [name args ret|j r|name r|c r|name r];
    try (cbn [pp lexemes]; rewrite lex_atom_app; [reflexivity|apply (node_tok_ok ps _ On)|exact Hr]).
  - cbn [pp lexemes]. rewrite prim_shape, lex_atom_app; [|apply ident_atom_ok; exact On|reflexivity].
    rewrite lex_open, (lex_args ps kids IH Wk Ok). cbn. now rewrite <- app_assoc.
  - contradiction.
Qed.

Lemma lex_pp0 ps tr : wf_tree tr -> all_nodes (node_ok ps) tr -> lex (pp ps tr) = lexemes ps tr.
Proof.
  intros W O. rewrite <- (app_nil_r_s (pp ps tr)), (lex_pp ps tr W O "") by reflexivity.
  cbn. apply app_nil_r.
Qed.

Lemma atoms_join ps kids :
  Forall (fun k => atoms (lexemes ps k) = map (node_tok ps) (flatten k)) kids ->
  atoms (join_lex (map (lexemes ps) kids)) = map (node_tok ps) (flat_map flatten kids).
Proof.
  induction 1 as [|k ks Hk _ IH]; [reflexivity|]. cbn [map flat_map]. rewrite map_app, <- Hk, <- IH.
  destruct ks as [|k2 ks2]; cbn [map join_lex].
  - cbn. now rewrite app_nil_r.
  - rewrite atoms_app. reflexivity.
Qed.

Lemma atoms_lexemes ps tr : wf_tree tr -> atoms (lexemes ps tr) = map (node_tok ps) (flatten tr).
Proof.
  induction tr as [n kids IH] using tree_ind'. intro W. destruct (wf_tree_inv _ _ W) as [Har Wk].
  destruct n as [name args ret|j r|name r|c r|name r];
    try (rewrite (wf_terminal _ _ W eq_refl); reflexivity); [|discriminate].
  cbn [lexemes atoms flatten map node_tok]. rewrite atoms_app. cbn [atoms]. rewrite app_nil_r. f_equal.
  apply atoms_join. clear - IH Wk. induction IH; inversion Wk; subst; constructor; auto.
Qed.

(* the tokens from_string sees for a printed tree: one per node, in prefix order *)
Lemma tokenize_pp ps tr : wf_tree tr -> all_nodes (node_ok ps) tr ->
  tokenize (pp ps tr) = map (node_tok ps) (flatten tr).
Proof. intros W O. now rewrite tokenize_lex, lex_pp0, atoms_lexemes. Qed.

(* ------------------------------------------------------------------ reading the printed form back *)
(* same terminal up to the declared type (from_string gives a constant the type of its slot) *)
Definition term_equiv (n n' : node) : Prop :=
  match n, n' with
  | NArg j _, NArg j' _ => j = j'
  | NSym a _, NSym b _ => a = b
  | NConst c _, NConst c' _ => c = c'
  | _, _ => False
  end.

Definition node_equiv (n n' : node) : Prop :=
  match n with
  | NPrim _ _ _ => n' = n
  | _ => term_equiv n n'
  end.

Inductive tree_equiv : tree -> tree -> Prop :=
| te_node n n' kids kids' :
    node_equiv n n' -> Forall2 tree_equiv kids kids' -> tree_equiv (T n kids) (T n' kids').

Lemma node_equiv_arity n n' : node_equiv n n' -> node_arity n' = node_arity n.
Proof. destruct n, n'; cbn; try contradiction; try discriminate; intro H; try reflexivity; now inversion H. Qed.

Lemma node_equiv_fmt ps n n' : node_equiv n n' -> forall a, fmt ps n' a = fmt ps n a.
Proof.
  destruct n, n'; cbn; try contradiction; try discriminate; intros H a; try reflexivity;
    try (now inversion H); now subst.
Qed.

Section ReadFacts.
  Variable sub : ty -> ty -> bool.
  Variable ps : pset.
  Hypothesis sub_refl : forall a, sub a a = true.
  Hypothesis sub_trans : forall a b c, sub a b = true -> sub b c = true -> sub a c = true.

  Notation mapping := (ps_mapping ps).

  (* the printed token of the node leads from_string back to the node: a primitive is registered under its
     name; a terminal is either registered under its printed form (possibly another terminal object that
     prints alike and is usable wherever this one is), or is a constant that evaluates back *)
  Definition resolvable (n : node) : Prop :=
    match n with
    | NPrim name _ _ => dget name mapping = Some n
    | NClass _ _ => False
    | _ => (exists n', dget (node_tok ps n) mapping = Some n' /\ term_equiv n n'
                       /\ sub (node_ret n') (node_ret n) = true)
           \/ (dget (node_tok ps n) mapping = None /\
               exists c r, n = NConst c r /\ lit (repr c) = Some c /\ sub (typeof c) r = true)
    end.

  (* every argument is acceptable where it stands (what C11 establishes for generated trees) *)
  Inductive typed : tree -> Prop :=
  | ty_node n kids :
      (forall name args ret, n = NPrim name args ret ->
         Forall2 (fun k a => sub (node_ret (root k)) a = true) kids args) ->
      Forall typed kids -> typed (T n kids).

  Definition expect_ok (n : node) (rts : list ty) : Prop :=
    match rts with [] => True | t :: _ => sub (node_ret n) t = true end.

  Lemma read_loop_cons tok r rts acc :
    read_loop sub mapping (tok :: r) rts acc =
    if negb (nonempty tok) then read_loop sub mapping r rts acc else
    let type_ := match rts with [] => None | t :: _ => Some t end in
    let rt := match rts with [] => [] | _ :: q => q end in
    match dget tok mapping with
    | Some prim =>
        if match type_ with Some t => negb (sub (node_ret prim) t) | None => false end then None
        else read_loop sub mapping r (match prim with NPrim _ args _ => args ++ rt | _ => rt end) (prim :: acc)
    | None =>
        match lit tok with
        | None => None
        | Some c =>
            let t := match type_ with Some t => t | None => typeof c end in
            if sub (typeof c) t then read_loop sub mapping r rt (NConst c t :: acc) else None
        end
    end.
  Proof. reflexivity. Qed.

  Lemma read_terminal n more rts acc :
    node_arity n = Some 0 -> (forall a b c, n <> NPrim a b c) ->
    node_ok ps n -> resolvable n -> expect_ok n rts ->
    exists n', node_equiv n n' /\
      read_loop sub mapping (node_tok ps n :: more) rts acc =
      read_loop sub mapping more (tl rts) (n' :: acc).
  Proof.
    intros Har Hnp Hok Hres Hex. rewrite read_loop_cons.
    pose proof (node_tok_ok ps n Hok) as Hat. unfold atom_ok in Hat. apply andb_true_iff in Hat as [Hne _].
    rewrite Hne. cbn [negb].
    assert (Hres' : (exists n', dget (node_tok ps n) mapping = Some n' /\ term_equiv n n'
                       /\ sub (node_ret n') (node_ret n) = true)
           \/ (dget (node_tok ps n) mapping = None /\
               exists c r, n = NConst c r /\ lit (repr c) = Some c /\ sub (typeof c) r = true)).
    { destruct n; cbn in Hres; try exact Hres; try contradiction. exfalso; eapply Hnp; reflexivity. }
    assert (Hne' : node_equiv n = term_equiv n).
    { destruct n; try reflexivity. exfalso; eapply Hnp; reflexivity. }
    destruct Hres' as [(n' & Hg & He & Hs)|(Hg & c & r & -> & Hl & Hs)].
    - exists n'. rewrite Hne'. split; [exact He|]. rewrite Hg.
      assert ((match match rts with [] => None | t :: _ => Some t end with
               | Some t => negb (sub (node_ret n') t) | None => false end) = false) as ->.
      { destruct rts as [|t q]; [reflexivity|]. cbn in Hex. rewrite (sub_trans _ _ _ Hs Hex). reflexivity. }
      destruct n, n'; cbn in He; try contradiction; try reflexivity; destruct rts; reflexivity.
    - cbn [node_tok fmt] in *. rewrite Hg, Hl.
      destruct rts as [|t q].
      + exists (NConst c (typeof c)). split; [reflexivity|]. cbn. now rewrite sub_refl.
      + exists (NConst c t). split; [reflexivity|]. cbn in Hex |- *. now rewrite (sub_trans _ _ _ Hs Hex).
  Qed.

  Definition read_ok (tr : tree) : Prop :=
    wf_tree tr -> all_nodes (node_ok ps) tr -> all_nodes resolvable tr -> typed tr ->
    forall rts more acc, expect_ok (root tr) rts ->
    exists tr', tree_equiv tr tr' /\
      read_loop sub mapping (map (node_tok ps) (flatten tr) ++ more) rts acc =
      read_loop sub mapping more (tl rts) (rev (flatten tr') ++ acc).

  Lemma read_forest ks :
    Forall read_ok ks -> Forall wf_tree ks -> Forall (all_nodes (node_ok ps)) ks ->
    Forall (all_nodes resolvable) ks -> Forall typed ks ->
    forall tys, Forall2 (fun k a => sub (node_ret (root k)) a = true) ks tys ->
    forall rt more acc,
    exists ks', Forall2 tree_equiv ks ks' /\
      read_loop sub mapping (map (node_tok ps) (flat_map flatten ks) ++ more) (tys ++ rt) acc =
      read_loop sub mapping more rt (rev (flat_map flatten ks') ++ acc).
  Proof.
    intros HP HW HO HR HT tys H2. revert HP HW HO HR HT.
    induction H2 as [|k ty ks tys Hk _ IH]; intros HP HW HO HR HT rt more acc.
    - exists []. split; [constructor|reflexivity].
    - inversion HP; inversion HW; inversion HO; inversion HR; inversion HT; subst.
      cbn [flat_map]. rewrite map_app, <- app_assoc. cbn [app].
      destruct (H1 H5 H9 H13 H17 (ty :: tys ++ rt) (map (node_tok ps) (flat_map flatten ks) ++ more) acc Hk)
        as (k' & Ek & Rk).
      rewrite Rk. cbn [tl].
      destruct (IH H2 H6 H10 H14 H18 rt more (rev (flatten k') ++ acc)) as (ks' & Eks & Rks).
      exists (k' :: ks'). split; [constructor; assumption|]. rewrite Rks. cbn [flat_map].
      now rewrite rev_app_distr, <- app_assoc.
  Qed.

  Lemma read_tree tr : read_ok tr.
  Proof.
    induction tr as [n kids IH] using tree_ind'. intros W OK RS TY rts more acc Hex.
    apply all_nodes_inv in OK as [On Ok]. apply all_nodes_inv in RS as [Rn Rk].
    destruct (wf_tree_inv _ _ W) as [Har Wk]. inversion TY as [? ? Targs Tk]; subst.
    destruct n as [name args ret|j r|name r|c r|name r].
    - (* primitive *)
      cbn [flatten map app root] in *. rewrite read_loop_cons.
      pose proof (ident_atom_ok _ On) as Hat. unfold atom_ok in Hat. apply andb_true_iff in Hat as [Hne _].
      cbn [node_tok]. rewrite Hne. cbn [negb]. cbn in Rn. rewrite Rn. cbn [node_ret].
      assert ((match match rts with [] => None | t :: _ => Some t end with
               | Some t => negb (sub ret t) | None => false end) = false) as ->.
      { destruct rts as [|t q]; [reflexivity|]. cbn in Hex. now rewrite Hex. }
      destruct (read_forest kids IH Wk Ok Rk Tk args (Targs _ _ _ eq_refl)
                  (match rts with [] => [] | _ :: q => q end) more (NPrim name args ret :: acc))
        as (ks' & Eks & Rks).
      exists (T (NPrim name args ret) ks'). split; [constructor; [reflexivity|exact Eks]|].
      rewrite Rks. cbn [flatten rev]. rewrite <- app_assoc. destruct rts; reflexivity.
    - rewrite (wf_terminal _ _ W eq_refl). cbn [flatten flat_map map app].
      destruct (read_terminal (NArg j r) more rts acc eq_refl ltac:(discriminate) On Rn Hex) as (n' & En & Rn').
      exists (T n' []). split; [constructor; [exact En|constructor]|]. exact Rn'.
    - rewrite (wf_terminal _ _ W eq_refl). cbn [flatten flat_map map app].
      destruct (read_terminal (NSym name r) more rts acc eq_refl ltac:(discriminate) On Rn Hex) as (n' & En & Rn').
      exists (T n' []). split; [constructor; [exact En|constructor]|]. exact Rn'.
    - rewrite (wf_terminal _ _ W eq_refl). cbn [flatten flat_map map app].
      destruct (read_terminal (NConst c r) more rts acc eq_refl ltac:(discriminate) On Rn Hex) as (n' & En & Rn').
      exists (T n' []). split; [constructor; [exact En|constructor]|]. exact Rn'.
    - contradiction.
  Qed.

  Lemma read_loop_filter l : forall rts acc,
    read_loop sub mapping l rts acc = read_loop sub mapping (filter nonempty l) rts acc.
  Proof.
    induction l as [|tok r IH]; intros rts acc; [reflexivity|].
    cbn [filter]. destruct (nonempty tok) eqn:E.
    - rewrite !read_loop_cons, E. cbn [negb].
      destruct (dget tok mapping) as [prim|].
      + destruct (match match rts with [] => None | t :: _ => Some t end with
                  | Some t => negb (sub (node_ret prim) t) | None => false end); [reflexivity|apply IH].
      + destruct (lit tok); [|reflexivity]. cbv zeta.
        destruct (sub (typeof c) _); [apply IH|reflexivity].
    - rewrite read_loop_cons, E. cbn [negb]. apply IH.
  Qed.

  Lemma read_print_tree tr :
    wf_tree tr -> all_nodes (node_ok ps) tr -> all_nodes resolvable tr -> typed tr ->
    exists tr', tree_equiv tr tr' /\ read sub mapping (str_tree ps (flatten tr)) = Some (flatten tr').
  Proof.
    intros W O R Ty. destruct (read_tree tr W O R Ty [] [] [] I) as (tr' & E & H).
    exists tr'. split; [exact E|]. unfold read. rewrite read_loop_filter.
    fold (tokenize (str_tree ps (flatten tr))). rewrite str_flatten, tokenize_pp by assumption.
    rewrite app_nil_r in H. rewrite H. cbn. now rewrite app_nil_r, rev_involutive.
  Qed.
End ReadFacts.

(* what the tree read back shares with the original *)
Lemma tree_equiv_wf tr : forall tr', tree_equiv tr tr' -> wf_tree tr -> wf_tree tr'.
Proof.
  induction tr as [n kids IH] using tree_ind'. intros tr' E W. inversion E as [? n' ? kids' En Ek]; subst.
  destruct (wf_tree_inv _ _ W) as [Har Wk]. apply wf_tree_intro.
  - rewrite (node_equiv_arity _ _ En), Har. f_equal. clear - Ek. induction Ek; cbn; auto.
  - clear - IH Ek Wk. induction Ek; inversion IH; inversion Wk; subst; constructor; auto.
Qed.

Lemma tree_equiv_pp ps tr : forall tr', tree_equiv tr tr' -> pp ps tr' = pp ps tr.
Proof.
  induction tr as [n kids IH] using tree_ind'. intros tr' E. inversion E as [? n' ? kids' En Ek]; subst.
  rewrite !pp_fold. cbn [foldT]. rewrite (node_equiv_fmt ps _ _ En). f_equal.
  clear - IH Ek. induction Ek; inversion IH; subst; cbn [map]; [reflexivity|].
  f_equal; [rewrite <- !pp_fold; auto|auto].
Qed.

Lemma tree_equiv_shape tr : forall tr', tree_equiv tr tr' ->
  map node_arity (flatten tr') = map node_arity (flatten tr).
Proof.
  induction tr as [n kids IH] using tree_ind'. intros tr' E. inversion E as [? n' ? kids' En Ek]; subst.
  cbn [flatten map]. rewrite (node_equiv_arity _ _ En). f_equal.
  clear - IH Ek. induction Ek; inversion IH; subst; cbn [flat_map]; [reflexivity|].
  rewrite !map_app. f_equal; auto.
Qed.

Lemma tree_equiv_eval {V} (cval : cst -> option V) ctx actuals tr :
  forall tr', tree_equiv tr tr' -> eval_tree cval ctx actuals tr' = eval_tree cval ctx actuals tr.
Proof.
  induction tr as [n kids IH] using tree_ind'. intros tr' E. inversion E as [? n' ? kids' En Ek]; subst.
  destruct n, n'; cbn in En; try contradiction; try discriminate; try (subst; reflexivity).
  injection En as -> -> ->. cbn [eval_tree]. destruct (dget name ctx) as [[v|g]|]; try reflexivity.
  match goal with |- match ?a with _ => _ end = match ?b with _ => _ end => assert (a = b) as ->; [|reflexivity] end.
  clear - IH Ek. induction Ek; inversion IH; subst; [reflexivity|].
  rewrite (H2 _ H). destruct (eval_tree cval ctx actuals x); [|reflexivity]. now rewrite IHEk.
Qed.

(* ------------------------------------------------------------------ the printed form as an expression *)
Fixpoint expr_of (ps : pset) (tr : tree) : expr :=
  match tr with
  | T (NPrim name _ _) kids => ECall name (map (expr_of ps) kids)
  | T (NConst c _) _ => EConst c
  | T n _ => EVar (fmt ps n [])
  end.

Definition not_open (ls : list lexeme) : Prop :=
  match ls with LOpen :: _ => False | _ => True end.

Lemma ident_not_lit s : is_ident s = true -> lit s = None.
Proof.
  unfold is_ident, lit. rewrite !andb_true_iff, negb_true_iff. intros [[Hs _] Hk]. rewrite Hs.
  cbn in Hk. rewrite !orb_false_iff in Hk. destruct Hk as (HF & _ & HT & _).
  now rewrite HT, HF.
Qed.

Lemma lexemes_head ps tr : exists a l, lexemes ps tr = LAtom a :: l.
Proof. destruct tr as [[] kids]; cbn; eauto. Qed.

Lemma atoms_length_le ls : List.length (atoms ls) <= List.length ls.
Proof. induction ls as [|[] ls IH]; cbn; lia. Qed.

Lemma flatten_nonempty tr : 1 <= List.length (flatten tr).
Proof. destruct tr; cbn; lia. Qed.

Lemma pexpr_call a f b l :
  is_ident a = true ->
  pexpr (S f) (LAtom a :: LOpen :: LAtom b :: l) =
  match pargs f (LAtom b :: l) with Some (args, r') => Some (ECall a args, r') | None => None end.
Proof. intro H. cbn. now rewrite H. Qed.

Lemma pexpr_atom a f rest e :
  not_open rest -> atom_expr a = Some e -> pexpr (S f) (LAtom a :: rest) = Some (e, rest).
Proof. intros Hn He. destruct rest as [|[] rest]; cbn in *; try contradiction; now rewrite He. Qed.

Lemma pargs_unfold f ls :
  pargs (S f) ls =
  match pexpr f ls with
  | Some (e, LComma :: r) => match pargs f r with Some (es, r') => Some (e :: es, r') | None => None end
  | Some (e, LClose :: r) => Some ([e], r)
  | _ => None
  end.
Proof. reflexivity. Qed.

Definition pexpr_ok ps (tr : tree) : Prop :=
  wf_tree tr -> all_nodes (node_ok ps) tr ->
  forall fuel rest, 2 * List.length (flatten tr) <= fuel -> not_open rest ->
    pexpr fuel (lexemes ps tr ++ rest) = Some (expr_of ps tr, rest).

Lemma pargs_ok ps ks :
  Forall (pexpr_ok ps) ks -> Forall wf_tree ks -> Forall (all_nodes (node_ok ps)) ks -> ks <> [] ->
  forall fuel rest, 2 * List.length (flat_map flatten ks) + 1 <= fuel ->
    pargs fuel (join_lex (map (lexemes ps) ks) ++ LClose :: rest) = Some (map (expr_of ps) ks, rest).
Proof.
  induction ks as [|k ks IH]; intros HP HW HO Hne fuel rest Hf; [congruence|].
  inversion HP as [|? ? Pk Pks]; inversion HW as [|? ? Wk Wks]; inversion HO as [|? ? Ok Oks]; subst.
  destruct fuel as [|f]; [lia|]. cbn [flat_map] in Hf. rewrite app_length in Hf.
  pose proof (flatten_nonempty k) as Hk1. rewrite pargs_unfold.
  destruct ks as [|k2 ks2].
  - cbn [map join_lex]. rewrite (Pk Wk Ok f (LClose :: rest)); [reflexivity|cbn in Hf; lia|exact I].
  - change (join_lex (map (lexemes ps) (k :: k2 :: ks2)))
      with (lexemes ps k ++ LComma :: join_lex (map (lexemes ps) (k2 :: ks2))).
    rewrite <- app_assoc. cbn [app].
    rewrite (Pk Wk Ok f); [|lia|exact I].
    rewrite (IH Pks Wks Oks ltac:(discriminate) f rest); [reflexivity|lia].
Qed.

Lemma pexpr_tree ps tr : pexpr_ok ps tr.
Proof.
  induction tr as [n kids IH] using tree_ind'. intros W OK fuel rest Hf Hno.
  apply all_nodes_inv in OK as [On Ok]. destruct (wf_tree_inv _ _ W) as [Har Wk].
  cbn [flatten List.length] in Hf. destruct fuel as [|f]; [lia|].
  destruct n as [name args ret|j r|name r|c r|name r].
  - cbn [lexemes expr_of]. destruct kids as [|k ks].
    + cbn. cbn in On. now rewrite On.
    + destruct (lexemes_head ps k) as (b & l & Hb).
      assert (exists l', (join_lex (map (lexemes ps) (k :: ks)) ++ [LClose]) ++ rest = LAtom b :: l') as (l' & Hl').
      { cbn [map join_lex]. rewrite Hb. destruct ks; cbn; eauto. }
      cbn [app]. rewrite Hl', pexpr_call by exact On. rewrite <- Hl', <- app_assoc. cbn [app].
      rewrite (pargs_ok ps (k :: ks) IH Wk Ok ltac:(discriminate) f rest); [reflexivity|lia].
  - cbn [lexemes expr_of app fmt]. apply pexpr_atom; [exact Hno|].
    unfold atom_expr. cbn in On. now rewrite (ident_not_lit _ On), On.
  - cbn [lexemes expr_of app fmt]. apply pexpr_atom; [exact Hno|].
    unfold atom_expr. cbn in On. now rewrite (ident_not_lit _ On), On.
  - cbn [lexemes expr_of app fmt]. apply pexpr_atom; [exact Hno|].
    unfold atom_expr. cbn in On. destruct On as [_ ->]. reflexivity.
  - contradiction.
Qed.

(* the code string of a printable tree parses to the call expression with the same shape *)
Lemma parse_expr_pp ps tr : wf_tree tr -> all_nodes (node_ok ps) tr ->
  parse_expr (pp ps tr) = Some (expr_of ps tr).
Proof.
  intros W O. unfold parse_expr. rewrite lex_pp0 by assumption.
  rewrite <- (app_nil_r (lexemes ps tr)) at 2.
  rewrite (pexpr_tree ps tr W O _ [] ); [reflexivity| |exact I].
  pose proof (atoms_length_le (lexemes ps tr)) as H. rewrite atoms_lexemes, map_length in H by exact W. lia.
Qed.

(* ------------------------------------------------------------------ compile = direct evaluation *)
Lemma nodupb_NoDup l : nodupb l = true -> NoDup l.
Proof.
  induction l as [|x r IH]; cbn; intro H; constructor; apply andb_true_iff in H as [A B]; [|auto].
  intro Hin. apply negb_true_iff in A. assert (existsb (String.eqb x) r = true); [|congruence].
  apply existsb_exists. exists x. split; [exact Hin|apply String.eqb_refl].
Qed.

Section CombineFacts.
  Context {V : Type}.

  Lemma dget_combine_none (x : string) params (actuals : list V) :
    ~ In x params -> dget x (combine params actuals) = None.
  Proof.
    revert actuals; induction params as [|p ps IH]; intros actuals H; [reflexivity|].
    destruct actuals as [|a as_]; [reflexivity|]. cbn.
    destruct (String.eqb_spec x p) as [->|_]; [exfalso; apply H; now left|].
    apply IH. intro; apply H; now right.
  Qed.

  Lemma dget_combine params : forall (actuals : list V) j x,
    NoDup params -> List.length params = List.length actuals -> nth_error params j = Some x ->
    dget x (combine params actuals) = nth_error actuals j.
  Proof.
    induction params as [|p ps IH]; intros actuals j x ND L Hj; [destruct j; discriminate|].
    destruct actuals as [|a as_]; [discriminate|]. inversion ND as [|? ? Hnin ND']; subst.
    destruct j as [|j]; cbn in *.
    - injection Hj as ->. now rewrite String.eqb_refl.
    - destruct (String.eqb_spec x p) as [->|_].
      + exfalso. apply Hnin. eapply nth_error_In; eauto.
      + apply IH; auto.
  Qed.
End CombineFacts.

(* names used by the tree are not shadowed by a parameter, argument indices exist *)
Definition name_fresh (params : list string) (n : node) : Prop :=
  match n with
  | NPrim name _ _ => ~ In name params
  | NSym name _ => ~ In name params
  | NArg j _ => j < List.length params
  | NConst _ _ => True
  | NClass _ _ => False
  end.

(* the primitive set's view of its arguments is consistent and gives a legal lambda header *)
Definition pset_ok (ps : pset) : Prop :=
  ps_argvalue ps = ps_arguments ps /\ forallb is_ident (ps_arguments ps) = true
  /\ nodupb (ps_arguments ps) = true.

Section CompileFacts.
  Context {V : Type}.
  Variable cval : cst -> option V.

  Lemma eval_expr_of ps ctx params actuals tr :
    ps_argvalue ps = params -> NoDup params -> List.length params = List.length actuals ->
    all_nodes (name_fresh params) tr ->
    eval_expr cval ctx (combine params actuals) (expr_of ps tr) = eval_tree cval ctx actuals tr.
  Proof.
    intros Hav ND L. induction tr as [n kids IH] using tree_ind'. intro NF.
    apply all_nodes_inv in NF as [Fn Fk].
    destruct n as [name args ret|j r|name r|c r|name r]; cbn [expr_of eval_expr eval_tree fmt].
    - cbn in Fn. rewrite (dget_combine_none _ _ actuals Fn).
      destruct (dget name ctx) as [[v|g]|]; try reflexivity.
      match goal with |- match ?a with _ => _ end = match ?b with _ => _ end => assert (a = b) as ->; [|reflexivity] end.
      clear - IH Fk. induction IH as [|k ks Hk _ IHl]; inversion Fk; subst; cbn [map]; [reflexivity|].
      rewrite (Hk H1). destruct (eval_tree cval ctx actuals k); [|reflexivity]. now rewrite IHl.
    - cbn in Fn. rewrite Hav.
      destruct (nth_error params j) as [x|] eqn:Ex; [|apply nth_error_None in Ex; lia].
      rewrite (nth_error_nth _ _ _ Ex), (dget_combine params actuals j x ND L Ex).
      destruct (nth_error actuals j) eqn:Ea; [reflexivity|]. apply nth_error_None in Ea. lia.
    - cbn in Fn. now rewrite (dget_combine_none _ _ actuals Fn).
    - reflexivity.
    - contradiction.
  Qed.

  Theorem compile_sem ps ctx tr actuals :
    pset_ok ps -> wf_tree tr -> all_nodes (node_ok ps) tr ->
    all_nodes (name_fresh (ps_arguments ps)) tr ->
    run_compiled cval (compile cval ps ctx (flatten tr)) actuals =
    if Nat.eqb (List.length (ps_arguments ps)) (List.length actuals)
    then eval_prefix cval ctx actuals (flatten tr) else None.
  Proof.
    intros (Hav & Hid & Hnd) W O NF. unfold compile, eval_prefix.
    rewrite str_flatten, parse_expr_pp, parse_flatten by assumption.
    destruct (ps_arguments ps) as [|p params] eqn:Ep.
    - pose proof (eval_expr_of ps ctx [] [] tr Hav (NoDup_nil _) eq_refl NF) as H. cbn [combine] in H.
      rewrite H. destruct actuals as [|a as_]; cbn [List.length Nat.eqb].
      + destruct (eval_tree cval ctx [] tr); reflexivity.
      + destruct (eval_tree cval ctx [] tr); reflexivity.
    - rewrite Hid, Hnd. cbn [andb run_compiled]. unfold call_lambda.
      destruct (Nat.eqb_spec (List.length (p :: params)) (List.length actuals)) as [L|_]; [|reflexivity].
      apply eval_expr_of; auto. apply nodupb_NoDup; exact Hnd.
  Qed.
End CompileFacts.

(* ------------------------------------------------------------------ constants that satisfy node_ok *)
Lemma repr_Z_not_ident_start z : ident_start (repr_Z z) = false.
Proof.
  pose proof (repr_Z_chars z) as H. destruct (repr_Z z) as [|c r]; [reflexivity|].
  cbn in H |- *. apply andb_true_iff in H as [H _].
  unfold is_digit_or_minus, is_digit in H. unfold is_alpha_.
  rewrite !orb_true_iff, !andb_true_iff, !Nat.leb_le, !Nat.eqb_eq in H.
  destruct (_ || _) eqn:E; [|reflexivity]. exfalso.
  rewrite !orb_true_iff, !andb_true_iff, !Nat.leb_le, !Nat.eqb_eq in E. lia.
Qed.

Lemma lit_int z : lit (repr (CInt z)) = Some (CInt z).
Proof. cbn. unfold lit. now rewrite repr_Z_not_ident_start, parse_repr_Z. Qed.

Lemma lit_bool b : lit (repr (CBool b)) = Some (CBool b).
Proof. destruct b; reflexivity. Qed.

Lemma const_int_ok ps z r : node_ok ps (NConst (CInt z) r).
Proof. split; [apply repr_Z_atom_ok|apply lit_int]. Qed.

Lemma const_bool_ok ps b r : node_ok ps (NConst (CBool b) r).
Proof. split; [destruct b; reflexivity|apply lit_bool]. Qed.

(* ------------------------------------------------------------------ compileADF *)
Lemma expr_ind' (P : expr -> Prop) :
  (forall f args, Forall P args -> P (ECall f args)) ->
  (forall c, P (EConst c)) -> (forall x, P (EVar x)) -> forall e, P e.
Proof.
  intros HC HK HV. fix IH 1. intros [f args|c|x]; [|apply HK|apply HV].
  apply HC. induction args as [|a r IHr]; constructor; [apply IH|exact IHr].
Qed.

Section AdfFacts.
  Context {V : Type}.
  Variable cval : cst -> option V.

  Definition obj_equiv (o o' : obj V) : Prop :=
    match o, o' with
    | OVal v, OVal v' => v = v'
    | OFun f, OFun g => forall vs, f vs = g vs
    | _, _ => False
    end.

  Definition entry_rel (kv kv' : string * obj V) : Prop :=
    fst kv = fst kv' /\ obj_equiv (snd kv) (snd kv').
  Definition ctx_rel (c c' : context V) : Prop := Forall2 entry_rel c c'.

  Lemma obj_equiv_refl o : obj_equiv o o.
  Proof. destruct o; cbn; auto. Qed.

  Lemma ctx_rel_refl c : ctx_rel c c.
  Proof. induction c as [|[k o] c IH]; constructor; [split; [reflexivity|apply obj_equiv_refl]|exact IH]. Qed.

  Lemma ctx_rel_dget c c' k : ctx_rel c c' ->
    match dget k c, dget k c' with
    | Some o, Some o' => obj_equiv o o'
    | None, None => True
    | _, _ => False
    end.
  Proof.
    induction 1 as [|[k1 o1] [k2 o2] c c' [Hk Ho] _ IH]; cbn; [exact I|].
    cbn in Hk, Ho. subst k2. destruct (String.eqb k k1); [exact Ho|exact IH].
  Qed.

  Lemma ctx_rel_dset c c' k o o' : ctx_rel c c' -> obj_equiv o o' -> ctx_rel (dset k o c) (dset k o' c').
  Proof.
    intros H Ho. induction H as [|[k1 o1] [k2 o2] c c' [Hk Ho1] Hc IH]; cbn.
    - constructor; [split; [reflexivity|exact Ho]|constructor].
    - cbn in Hk, Ho1. subst k2. destruct (String.eqb k k1).
      + constructor; [split; [reflexivity|exact Ho]|exact Hc].
      + constructor; [split; [reflexivity|exact Ho1]|exact IH].
  Qed.

  Lemma ctx_rel_dupdate u u' : ctx_rel u u' -> forall m m', ctx_rel m m' -> ctx_rel (dupdate m u) (dupdate m' u').
  Proof.
    unfold dupdate. induction 1 as [|[k1 o1] [k2 o2] u u' [Hk Ho] _ IH]; intros m m' Hm; cbn; [exact Hm|].
    cbn in Hk, Ho. subst k2. apply IH. now apply ctx_rel_dset.
  Qed.

  Lemma eval_expr_rel c c' env e : ctx_rel c c' -> eval_expr cval c env e = eval_expr cval c' env e.
  Proof.
    intro H. induction e as [f args IH|k|x] using expr_ind'; cbn [eval_expr].
    - destruct (dget f env); [reflexivity|].
      pose proof (ctx_rel_dget c c' f H) as Hf.
      destruct (dget f c) as [[v|g]|], (dget f c') as [[v'|g']|]; cbn in Hf; try contradiction; try reflexivity.
      match goal with |- match ?a with _ => _ end = match ?b with _ => _ end => assert (a = b) as ->; [|destruct b; auto] end.
      clear - IH. induction IH as [|a r Ha _ IHr]; [reflexivity|]. now rewrite Ha, IHr.
    - reflexivity.
    - destruct (dget x env); [reflexivity|].
      pose proof (ctx_rel_dget c c' x H) as Hx.
      destruct (dget x c) as [[v|g]|], (dget x c') as [[v'|g']|]; cbn in Hx; try contradiction; congruence.
  Qed.

  Lemma eval_tree_rel c c' actuals tr : ctx_rel c c' -> eval_tree cval c actuals tr = eval_tree cval c' actuals tr.
  Proof.
    intro H. induction tr as [n kids IH] using tree_ind'. destruct n; cbn [eval_tree]; try reflexivity.
    - pose proof (ctx_rel_dget c c' name H) as Hf.
      destruct (dget name c) as [[v|g]|], (dget name c') as [[v'|g']|]; cbn in Hf; try contradiction; try reflexivity.
      match goal with |- match ?a with _ => _ end = match ?b with _ => _ end => assert (a = b) as ->; [|destruct b; auto] end.
      clear - IH. induction IH as [|a r Ha _ IHr]; [reflexivity|]. now rewrite Ha, IHr.
    - pose proof (ctx_rel_dget c c' name H) as Hx.
      destruct (dget name c) as [[v|g]|], (dget name c') as [[v'|g']|]; cbn in Hx; try contradiction; congruence.
  Qed.

  Lemma eval_prefix_rel c c' actuals t : ctx_rel c c' -> eval_prefix cval c actuals t = eval_prefix cval c' actuals t.
  Proof. intro H. unfold eval_prefix. destruct (parse t); [now apply eval_tree_rel|reflexivity]. Qed.

  (* a definition of the family that satisfies the hypotheses of compile_sem *)
  Definition def_ok (d : adfdef V) : Prop :=
    exists tr, d_tree d = flatten tr /\ wf_tree tr /\ all_nodes (node_ok (d_ps d)) tr /\
               all_nodes (name_fresh (ps_arguments (d_ps d))) tr /\ pset_ok (d_ps d).

  (* compile evaluates a tree without argument on the spot; for an ADF (not the main tree) that must succeed *)
  Fixpoint zero_ok (rest : list (adfdef V)) : Prop :=
    match rest with
    | [] => True
    | d :: r =>
        (ps_arguments (d_ps d) <> [] \/
         eval_prefix cval (dupdate (d_ctx d) (adf_env cval r)) [] (d_tree d) <> None) /\ zero_ok r
    end.

  Fixpoint loop_st (rdefs : list (adfdef V)) (dict : context V) (func : option (compiled V))
    : option (context V * option (compiled V)) :=
    match rdefs with
    | [] => Some (dict, func)
    | d :: r =>
        match compile cval (d_ps d) (dupdate (d_ctx d) dict) (d_tree d) with
        | None => None
        | Some k => loop_st r (dset (d_name d) (adf_obj cval k) dict) (Some k)
        end
    end.

  Lemma loop_st_spec l : forall d f,
    compile_adf_loop cval l d f = match loop_st l d f with Some (_, f') => f' | None => None end.
  Proof.
    induction l as [|x l IH]; intros d f; cbn; [reflexivity|].
    destruct (compile cval _ _ _); [apply IH|reflexivity].
  Qed.

  Lemma loop_st_app l1 l2 : forall d f,
    loop_st (l1 ++ l2) d f = match loop_st l1 d f with Some (d', f') => loop_st l2 d' f' | None => None end.
  Proof.
    induction l1 as [|x l1 IH]; intros d f; cbn; [reflexivity|].
    destruct (compile cval _ _ _); [apply IH|reflexivity].
  Qed.

  Lemma adf_obj_run k vs :
    match adf_obj cval k with OFun f => f vs | OVal _ => None end = run_compiled cval (Some k) vs.
  Proof. destruct k; reflexivity. Qed.

  Lemma compile_obj d g g' :
    def_ok d -> ctx_rel g g' ->
    (ps_arguments (d_ps d) <> [] \/ eval_prefix cval g' [] (d_tree d) <> None) ->
    exists k, compile cval (d_ps d) g (d_tree d) = Some k /\ obj_equiv (adf_obj cval k) (denote cval d g').
  Proof.
    intros (tr & Et & W & O & NF & PO) R Hz.
    assert (exists k, compile cval (d_ps d) g (d_tree d) = Some k) as [k Hk].
    { destruct PO as (Hav & Hid & Hnd). unfold compile. rewrite Et, str_flatten, parse_expr_pp by assumption.
      destruct (ps_arguments (d_ps d)) as [|p params] eqn:Ep.
      - destruct Hz as [Hz|Hz]; [congruence|].
        pose proof (eval_expr_of cval (d_ps d) g [] [] tr Hav (NoDup_nil _) eq_refl NF) as H. cbn [combine] in H.
        rewrite H. rewrite Et in Hz. unfold eval_prefix in Hz. rewrite parse_flatten in Hz by exact W.
        rewrite (eval_tree_rel g g' [] tr R). destruct (eval_tree cval g' [] tr); [eauto|congruence].
      - rewrite Hid, Hnd. cbn. eauto. }
    exists k. split; [exact Hk|].
    pose proof (fun vs => compile_sem cval (d_ps d) g tr vs PO W O NF) as Hs. rewrite <- Et, Hk in Hs.
    unfold denote. destruct k as [v|p b gl]; cbn [adf_obj obj_equiv]; intro vs.
    - specialize (Hs vs). cbn [run_compiled] in Hs. rewrite Hs.
      destruct (Nat.eqb _ _); [now apply eval_prefix_rel|reflexivity].
    - specialize (Hs vs). cbn [run_compiled] in Hs. rewrite Hs.
      destruct (Nat.eqb _ _); [now apply eval_prefix_rel|reflexivity].
  Qed.

  Lemma loop_rest rest :
    Forall def_ok rest -> zero_ok rest ->
    exists dict f, loop_st (rev rest) [] None = Some (dict, f) /\ ctx_rel dict (adf_env cval rest).
  Proof.
    induction rest as [|d r IH]; intros HD HZ.
    - exists [], None. split; [reflexivity|constructor].
    - inversion HD as [|? ? Hd Hr]; subst. destruct HZ as [Hz HZr].
      destruct (IH Hr HZr) as (dict & f & Hl & Hrel).
      cbn [rev]. rewrite loop_st_app, Hl. cbn [loop_st].
      assert (ctx_rel (dupdate (d_ctx d) dict) (dupdate (d_ctx d) (adf_env cval r))) as Hu.
      { apply ctx_rel_dupdate; [exact Hrel|apply ctx_rel_refl]. }
      destruct (compile_obj d _ _ Hd Hu Hz) as (k & Hk & Ho). rewrite Hk.
      eexists _, _. split; [reflexivity|]. cbn [adf_env]. now apply ctx_rel_dset.
  Qed.

  (* compileADF: the function (or value) it returns is the main tree evaluated directly, where a call of
     ADF_i evaluates ADF_i's own prefix tree on the argument values, ADF_i seeing exactly the ADFs that
     follow it in the list *)
  Theorem compile_adf_sem defs actuals :
    Forall def_ok defs -> zero_ok (tl defs) ->
    run_compiled cval (compile_adf cval defs) actuals = adf_sem cval defs actuals.
  Proof.
    destruct defs as [|d0 rest]; [reflexivity|]. intros HD HZ. cbn [tl] in HZ.
    inversion HD as [|? ? Hd0 Hr]; subst.
    destruct (loop_rest rest Hr HZ) as (dict & f & Hl & Hrel).
    unfold compile_adf. cbn [rev]. rewrite loop_st_spec, loop_st_app, Hl. cbn [loop_st].
    assert (ctx_rel (dupdate (d_ctx d0) dict) (dupdate (d_ctx d0) (adf_env cval rest))) as Hu.
    { apply ctx_rel_dupdate; [exact Hrel|apply ctx_rel_refl]. }
    destruct Hd0 as (tr & Et & W & O & NF & PO).
    pose proof (compile_sem cval (d_ps d0) (dupdate (d_ctx d0) dict) tr actuals PO W O NF) as Hs.
    rewrite <- Et in Hs. cbn [adf_sem].
    destruct (compile cval (d_ps d0) (dupdate (d_ctx d0) dict) (d_tree d0)) as [k|] eqn:Ek.
    - rewrite Hs. destruct (Nat.eqb _ _); [now apply eval_prefix_rel|reflexivity].
    - cbn [run_compiled] in Hs |- *. rewrite Hs.
      destruct (Nat.eqb _ _); [now apply eval_prefix_rel|reflexivity].
  Qed.
End AdfFacts.

(* ------------------------------------------------------------------ the round trip, on prefix lists *)
Lemma read_print sub ps t tr :
  (forall a, sub a a = true) -> (forall a b c, sub a b = true -> sub b c = true -> sub a c = true) ->
  parse t = Some tr -> all_nodes (node_ok ps) tr -> all_nodes (resolvable sub ps) tr -> typed sub tr ->
  exists t',
    read sub (ps_mapping ps) (str_tree ps t) = Some t' /\
    str_tree ps t' = str_tree ps t /\
    List.length t' = List.length t /\
    map node_arity t' = map node_arity t /\
    (forall V (cval : cst -> option V) ctx actuals,
        eval_prefix cval ctx actuals t' = eval_prefix cval ctx actuals t) /\
    (forall V (cval : cst -> option V) ctx, compile cval ps ctx t' = compile cval ps ctx t).
Proof.
  intros Hr Ht Hp O R Ty. destruct (parse_sound _ _ Hp) as [-> W].
  destruct (read_print_tree sub ps Hr Ht tr W O R Ty) as (tr' & E & Hread).
  pose proof (tree_equiv_wf _ _ E W) as W'.
  assert (str_tree ps (flatten tr') = str_tree ps (flatten tr)) as Hs.
  { rewrite !str_flatten by assumption. now apply tree_equiv_pp. }
  exists (flatten tr'). repeat split; [exact Hread|exact Hs| |now apply tree_equiv_shape| |].
  - rewrite <- (map_length node_arity (flatten tr')), <- (map_length node_arity (flatten tr)).
    f_equal. now apply tree_equiv_shape.
  - intros V cval ctx actuals. unfold eval_prefix. rewrite !parse_flatten by assumption.
    now apply tree_equiv_eval.
  - intros V cval ctx. unfold compile. now rewrite Hs.
Qed.

Lemma tokenize_str ps t tr : parse t = Some tr -> all_nodes (node_ok ps) tr ->
  tokenize (str_tree ps t) = map (node_tok ps) t.
Proof.
  intros Hp O. destruct (parse_sound _ _ Hp) as [-> W]. rewrite str_flatten by exact W. now apply tokenize_pp.
Qed.

Lemma compile_sem_list {V} (cval : cst -> option V) ps ctx t tr actuals :
  parse t = Some tr -> pset_ok ps -> all_nodes (node_ok ps) tr ->
  all_nodes (name_fresh (ps_arguments ps)) tr ->
  run_compiled cval (compile cval ps ctx t) actuals =
  if Nat.eqb (List.length (ps_arguments ps)) (List.length actuals)
  then eval_prefix cval ctx actuals t else None.
Proof. intros Hp PO O NF. destruct (parse_sound _ _ Hp) as [-> W]. now apply compile_sem. Qed.

Lemma code_is_expr ps t tr : parse t = Some tr -> all_nodes (node_ok ps) tr ->
  parse_expr (str_tree ps t) = Some (expr_of ps tr).
Proof.
  intros Hp O. destruct (parse_sound _ _ Hp) as [-> W]. rewrite str_flatten by exact W. now apply parse_expr_pp.
Qed.

(* ------------------------------------------------------------------ renameArguments *)
Section DictFacts.
  Context {A : Type}.
  Lemma dget_dset_same k (v : A) m : dget k (dset k v m) = Some v.
  Proof.
    induction m as [|[k' v'] m IH]; cbn; [now rewrite String.eqb_refl|].
    destruct (String.eqb k k') eqn:E; cbn; rewrite E; [reflexivity|exact IH].
  Qed.
  Lemma dget_dset_other k k' (v : A) m : k <> k' -> dget k (dset k' v m) = dget k m.
  Proof.
    intro H. induction m as [|[k2 v2] m IH]; cbn.
    - apply String.eqb_neq in H. now rewrite H.
    - destruct (String.eqb k' k2) eqn:E; cbn.
      + apply String.eqb_eq in E. subst k2. apply String.eqb_neq in H. now rewrite H.
      + destruct (String.eqb k k2); [reflexivity|exact IH].
  Qed.
  Lemma dget_ddel_other k k' (m : list (string * A)) : k <> k' -> dget k (ddel k' m) = dget k m.
  Proof.
    intro H. induction m as [|[k2 v2] m IH]; cbn; [reflexivity|].
    destruct (String.eqb k' k2) eqn:E; cbn.
    - apply String.eqb_eq in E. subst k2. apply String.eqb_neq in H. now rewrite H.
    - destruct (String.eqb k k2); [reflexivity|exact IH].
  Qed.
End DictFacts.

Lemma set_nth_length {A} i (x : A) l : List.length (set_nth i x l) = List.length l.
Proof. revert i; induction l as [|y l IH]; intros [|i]; cbn; auto. Qed.

Lemma nth_error_set_nth {A} (x : A) l : forall i j,
  nth_error (set_nth i x l) j =
  if Nat.eqb j i then (if Nat.ltb i (List.length l) then Some x else None) else nth_error l j.
Proof.
  induction l as [|y l IH]; intros i j.
  - destruct i, j; cbn; try reflexivity. destruct (Nat.eqb j i); reflexivity.
  - destruct i as [|i], j as [|j]; cbn [set_nth nth_error]; try reflexivity. rewrite IH. reflexivity.
Qed.

Lemma nth_error_ext {A} (l l' : list A) : (forall j, nth_error l j = nth_error l' j) -> l = l'.
Proof.
  revert l'; induction l as [|x l IH]; intros [|y l'] H; try reflexivity;
    try (specialize (H 0); discriminate).
  f_equal; [specialize (H 0); now injection H|]. apply IH. intro j. exact (H (S j)).
Qed.

Definition new_name (kargs : list (string * string)) (a : string) : string :=
  match dget a kargs with Some n => n | None => a end.

Lemma dget_In_snd {A} k (v : A) m : dget k m = Some v -> In v (map snd m).
Proof.
  induction m as [|[k' v'] m IH]; cbn; [discriminate|].
  destruct (String.eqb k k'); [intro H; injection H as ->; now left|right; auto].
Qed.

Lemma dget_values_distinct (m : list (string * string)) : forall k1 k2 v1 v2,
  NoDup (map snd m) -> k1 <> k2 -> dget k1 m = Some v1 -> dget k2 m = Some v2 -> v1 <> v2.
Proof.
  induction m as [|[k v] m IH]; intros k1 k2 v1 v2 ND Hk H1 H2; [discriminate|].
  cbn in ND, H1, H2. inversion ND as [|? ? Hnin ND']; subst.
  destruct (String.eqb_spec k1 k) as [E1|E1], (String.eqb_spec k2 k) as [E2|E2].
  - congruence.
  - injection H1 as H1. subst v1. intro E. subst v2. apply Hnin. eapply dget_In_snd; eauto.
  - injection H2 as H2. subst v2. intro E. subst v1. apply Hnin. eapply dget_In_snd; eauto.
  - exact (IH k1 k2 v1 v2 ND' Hk H1 H2).
Qed.

Section Rename.
  Variable kargs : list (string * string).
  Variable ps0 : pset.
  Notation args0 := (ps_arguments ps0).
  Hypothesis ND0 : NoDup args0.
  Hypothesis NDk : NoDup (map snd kargs).
  Hypothesis fresh : forall n, In n (map snd kargs) -> ~ In n args0.

  Definition arg_entries (ps : pset) : Prop :=
    forall j name, nth_error (ps_arguments ps) j = Some name ->
                   exists r, dget name (ps_mapping ps) = Some (NArg j r).

  Definition Inv (i : nat) (ps : pset) : Prop :=
    (forall j, nth_error (ps_arguments ps) j =
               if Nat.ltb j i then option_map (new_name kargs) (nth_error args0 j) else nth_error args0 j) /\
    ps_argvalue ps = ps_arguments ps /\
    arg_entries ps /\
    (forall k, ~ In k args0 -> ~ In k (map snd kargs) -> dget k (ps_mapping ps) = dget k (ps_mapping ps0)).

  Lemma new_name_inj a b : In a args0 -> In b args0 -> a <> b -> new_name kargs a <> new_name kargs b.
  Proof.
    intros Ha Hb Hab. unfold new_name.
    destruct (dget a kargs) as [na|] eqn:Ea, (dget b kargs) as [nb|] eqn:Eb.
    - eapply dget_values_distinct; eauto.
    - intro; subst. eapply fresh; [eapply dget_In_snd; eauto|exact Hb].
    - intro; subst. eapply fresh; [eapply dget_In_snd; eauto|exact Ha].
    - exact Hab.
  Qed.

  Lemma inv_args_length i ps : Inv i ps -> List.length (ps_arguments ps) = List.length args0.
  Proof.
    intros (Ha & _). 
    destruct (Nat.lt_trichotomy (List.length (ps_arguments ps)) (List.length args0)) as [L|[L|L]]; [|exact L|].
    - exfalso. specialize (Ha (List.length (ps_arguments ps))).
      rewrite (proj2 (nth_error_None _ _) (Nat.le_refl _)) in Ha.
      destruct (nth_error args0 (List.length (ps_arguments ps))) eqn:E;
        [|apply nth_error_None in E; lia]. destruct (Nat.ltb _ i); discriminate.
    - exfalso. specialize (Ha (List.length args0)).
      rewrite (proj2 (nth_error_None args0 _) (Nat.le_refl _)) in Ha.
      destruct (nth_error (ps_arguments ps) (List.length args0)) eqn:E;
        [|apply nth_error_None in E; lia]. destruct (Nat.ltb _ i); discriminate.
  Qed.

  Lemma rename_loop_inv : forall n i ps,
    i + n = List.length args0 -> Inv i ps ->
    exists ps', rename_loop kargs n i ps = Some ps' /\ Inv (List.length args0) ps'.
  Proof.
    induction n as [|n IH]; intros i ps Hin HI.
    - exists ps. split; [reflexivity|]. now replace (List.length args0) with i by lia.
    - pose proof (inv_args_length i ps HI) as Hlen.
      destruct HI as (Ha & Hv & He & Ho). cbn [rename_loop].
      assert (i < List.length args0) as Hi by lia.
      destruct (nth_error args0 i) as [old|] eqn:Eold; [|apply nth_error_None in Eold; lia].
      assert (nth_error (ps_arguments ps) i = Some old) as Eold'.
      { rewrite Ha, Nat.ltb_irrefl. exact Eold. }
      rewrite (nth_error_nth _ _ _ Eold').
      destruct (dget old kargs) as [new|] eqn:Ek.
      + (* renamed *)
        destruct (He i old Eold') as (r & Hm). rewrite Hm.
        assert (Hnew_in : In new (map snd kargs)) by (eapply dget_In_snd; eauto).
        assert (Hnew_old : new <> old).
        { intro; subst. eapply fresh; eauto. eapply nth_error_In; eauto. }
        apply IH; [lia|]. repeat split; cbn [ps_arguments ps_argvalue ps_mapping].
        * intro j. rewrite nth_error_set_nth, Hlen, Ha.
          destruct (Nat.eqb_spec j i) as [->|Hji].
          -- destruct (Nat.ltb_spec i (List.length args0)); [|lia].
             destruct (Nat.ltb_spec i (S i)); [|lia]. rewrite Eold. cbn. unfold new_name. now rewrite Ek.
          -- destruct (Nat.ltb_spec j i), (Nat.ltb_spec j (S i)); try reflexivity; lia.
        * now rewrite Hv.
        * intros j name Hj. cbn [ps_arguments ps_mapping] in Hj |- *. rewrite nth_error_set_nth, Hlen in Hj.
          destruct (Nat.eqb_spec j i) as [->|Hji].
          -- destruct (Nat.ltb_spec i (List.length args0)); [|lia]. injection Hj as <-.
             exists r. rewrite dget_ddel_other by exact Hnew_old. apply dget_dset_same.
          -- destruct (He j name Hj) as (r' & Hm'). exists r'.
             assert (name <> old).
             { intro; subst. rewrite Ha in Hj, Eold'.
               assert (In old args0) by (eapply nth_error_In; eauto).
               (* both positions hold [old] in the current list: contradiction with injectivity *)
               destruct (Nat.ltb_spec j i) as [Lj|Lj]; rewrite Nat.ltb_irrefl in Eold'.
               - destruct (nth_error args0 j) as [aj|] eqn:Eaj; [|discriminate]. cbn in Hj. injection Hj as Hj.
                 assert (aj <> old).
                 { intro; subst. apply Hji. eapply (proj1 (NoDup_nth_error args0) ND0); [|congruence].
                   apply nth_error_Some. congruence. }
                 unfold new_name in Hj. destruct (dget aj kargs) eqn:Eaj'.
                 + subst. eapply fresh; [eapply dget_In_snd; eauto|exact H].
                 + contradiction.
               - apply Hji. eapply (proj1 (NoDup_nth_error args0) ND0); [|congruence].
                 apply nth_error_Some. congruence. }
             assert (name <> new).
             { intro; subst. rewrite Ha in Hj.
               destruct (Nat.ltb_spec j i) as [Lj|Lj].
               - destruct (nth_error args0 j) as [aj|] eqn:Eaj; [|discriminate]. cbn in Hj. injection Hj as Hj.
                 assert (aj <> old).
                 { intro; subst. apply Hji. eapply (proj1 (NoDup_nth_error args0) ND0); [|congruence].
                   apply nth_error_Some. congruence. }
                 unfold new_name in Hj. destruct (dget aj kargs) eqn:Eaj'.
                 + subst. eapply (dget_values_distinct kargs aj old); eauto.
                 + subst. eapply fresh; [exact Hnew_in|]. eapply nth_error_In; eauto.
               - eapply fresh; [exact Hnew_in|]. eapply nth_error_In; eauto. }
             rewrite dget_ddel_other, dget_dset_other by assumption. exact Hm'.
        * intros k Hk1 Hk2.
          assert (k <> old) by (intro; subst; apply Hk1; eapply nth_error_In; eauto).
          assert (k <> new) by (intro; subst; contradiction).
          rewrite dget_ddel_other, dget_dset_other by assumption. now apply Ho.
      + (* not renamed *)
        apply IH; [lia|]. repeat split; try assumption.
        intro j. rewrite Ha.
        destruct (Nat.ltb_spec j i), (Nat.ltb_spec j (S i)); try reflexivity; try lia.
        assert (j = i) by lia. subst j. rewrite Eold. cbn. unfold new_name. now rewrite Ek.
  Qed.

  (* renaming to fresh, pairwise distinct names: the call succeeds, pset.arguments is renamed pointwise,
     every argument terminal's value is its new name, the argument terminals sit under their new names in
     the mapping, and every other entry of the mapping is untouched *)
  Theorem rename_fresh :
    ps_argvalue ps0 = args0 -> arg_entries ps0 ->
    exists ps', rename kargs ps0 = Some ps' /\
      ps_arguments ps' = map (new_name kargs) args0 /\
      ps_argvalue ps' = ps_arguments ps' /\
      NoDup (ps_arguments ps') /\
      arg_entries ps' /\
      (forall k, ~ In k args0 -> ~ In k (map snd kargs) -> dget k (ps_mapping ps') = dget k (ps_mapping ps0)).
  Proof.
    intros Hv He. unfold rename.
    destruct (rename_loop_inv (List.length args0) 0 ps0 eq_refl) as (ps' & Hr & Ha & Hv' & He' & Ho').
    { repeat split; auto. }
    exists ps'. split; [exact Hr|].
    assert (ps_arguments ps' = map (new_name kargs) args0) as Hargs.
    { apply nth_error_ext. intro j. rewrite Ha, nth_error_map.
      destruct (Nat.ltb_spec j (List.length args0)) as [L|L]; [reflexivity|].
      now rewrite (proj2 (nth_error_None args0 j) L). }
    repeat split; auto.
    rewrite Hargs. clear - ND0 NDk fresh. 
    assert (forall l, NoDup l -> incl l args0 -> NoDup (map (new_name kargs) l)) as H.
    { induction l as [|a l IH]; intros ND Hi; cbn; constructor.
      - inversion ND; subst. intro Hin. apply in_map_iff in Hin as (b & Hb & Hbl).
        symmetry in Hb. revert Hb. apply new_name_inj; [apply Hi; now left|apply Hi; now right|].
        intro; subst; contradiction.
      - inversion ND; subst. apply IH; [assumption|]. intros x Hx. apply Hi. now right. }
    apply H; [exact ND0|apply incl_refl].
  Qed.
End Rename.

Lemma nodupb_of_NoDup l : NoDup l -> nodupb l = true.
Proof.
  induction 1 as [|x l Hn _ IH]; [reflexivity|]. cbn. rewrite IH, andb_true_r. apply negb_true_iff.
  destruct (existsb (String.eqb x) l) eqn:E; [|reflexivity]. exfalso.
  apply existsb_exists in E as (y & Hy & Exy). apply String.eqb_eq in Exy. now subst.
Qed.

(* names a tree mentions besides its arguments *)
Definition avoids (n : string) (nd : node) : Prop :=
  match nd with
  | NPrim name _ _ => name <> n
  | NSym name _ => name <> n
  | _ => True
  end.

(* "(possibly renamed) arguments": after renameArguments to fresh identifiers the same tree object still
   satisfies the hypotheses of compile_sem, hence compiles to the same function of the actual arguments *)
Theorem rename_same_function {V} (cval : cst -> option V) kargs ps0 ps' ctx t tr actuals :
  parse t = Some tr -> pset_ok ps0 -> arg_entries ps0 ->
  all_nodes (node_ok ps0) tr -> all_nodes (name_fresh (ps_arguments ps0)) tr ->
  NoDup (map snd kargs) -> (forall n, In n (map snd kargs) -> ~ In n (ps_arguments ps0)) ->
  (forall n, In n (map snd kargs) -> is_ident n = true /\ all_nodes (avoids n) tr) ->
  rename kargs ps0 = Some ps' ->
  pset_ok ps' /\
  run_compiled cval (compile cval ps' ctx t) actuals = run_compiled cval (compile cval ps0 ctx t) actuals.
Proof.
  intros Hp (Hav & Hid & Hnd) He O NF NDk Fr Hnew Hr.
  destruct (rename_fresh kargs ps0 (nodupb_NoDup _ Hnd) NDk Fr Hav He)
    as (ps2 & Hr2 & Hargs & Hv2 & ND2 & He2 & _).
  rewrite Hr in Hr2. injection Hr2 as <-.
  assert (forall a, In a (ps_arguments ps0) -> is_ident (new_name kargs a) = true) as Hidn.
  { intros a Ha. unfold new_name. destruct (dget a kargs) eqn:E.
    - apply Hnew. eapply dget_In_snd; eauto.
    - rewrite forallb_forall in Hid. now apply Hid. }
  assert (pset_ok ps') as PO'.
  { repeat split; [exact Hv2| |now apply nodupb_of_NoDup].
    rewrite Hargs. apply forallb_forall. intros x Hx. apply in_map_iff in Hx as (a & <- & Ha). now apply Hidn. }
  split; [exact PO'|].
  destruct (parse_sound _ _ Hp) as [-> W].
  assert (all_nodes (node_ok ps') tr) as O'.
  { unfold all_nodes in *. rewrite Forall_forall in *. intros nd Hin.
    specialize (O nd Hin). specialize (NF nd Hin). destruct nd; cbn in *; try assumption.
    rewrite Hv2, Hargs. destruct (nth_error (ps_arguments ps0) j) as [a|] eqn:Ea; [|apply nth_error_None in Ea; lia].
    rewrite (nth_error_nth (map (new_name kargs) (ps_arguments ps0)) j "" (map_nth_error _ _ _ Ea)).
    apply Hidn. eapply nth_error_In; eauto. }
  assert (all_nodes (name_fresh (ps_arguments ps')) tr) as NF'.
  { unfold all_nodes in *. rewrite Forall_forall in *. intros nd Hin.
    specialize (NF nd Hin).
    destruct nd; cbn in *; try assumption.
    - rewrite Hargs. intro Hi. apply in_map_iff in Hi as (a & Ea & Ha). unfold new_name in Ea.
      destruct (dget a kargs) eqn:E.
      + subst. destruct (Hnew name (dget_In_snd _ _ _ E)) as [_ Hav']. unfold all_nodes in Hav'.
        rewrite Forall_forall in Hav'. specialize (Hav' _ Hin). cbn in Hav'. congruence.
      + subst. contradiction.
    - now rewrite Hargs, map_length.
    - rewrite Hargs. intro Hi. apply in_map_iff in Hi as (a & Ea & Ha). unfold new_name in Ea.
      destruct (dget a kargs) eqn:E.
      + subst. destruct (Hnew name (dget_In_snd _ _ _ E)) as [_ Hav']. unfold all_nodes in Hav'.
        rewrite Forall_forall in Hav'. specialize (Hav' _ Hin). cbn in Hav'. congruence.
      + subst. contradiction. }
  rewrite (compile_sem cval ps' ctx tr actuals PO' W O' NF').
  rewrite (compile_sem cval ps0 ctx tr actuals (conj Hav (conj Hid Hnd)) W O NF).
  now rewrite Hargs, map_length.
Qed.

(* ------------------------------------------------------------------ building a primitive set *)
From Coq Require FinFun DecimalString DecimalZ Decimal DecimalPos.
Lemma str_app_inv_head (p a b : string) : (p ++ a)%string = (p ++ b)%string -> a = b.
Proof. induction p as [|c p IH]; cbn; intro H; [exact H|]. injection H as H. auto. Qed.

Lemma arg_name_inj prefix i j : arg_name prefix i = arg_name prefix j -> i = j.
Proof. unfold arg_name. intro H. apply str_app_inv_head, repr_Z_inj in H. lia. Qed.

Lemma repr_nat_digits i : forall_chars is_digit (repr_Z (Z.of_nat i)) = true /\ nonempty (repr_Z (Z.of_nat i)) = true.
Proof.
  split; [|apply repr_Z_nonempty]. unfold repr_Z.
  destruct (Z.of_nat i) eqn:E; cbn; try reflexivity.
  - unfold DecimalString.NilZero.string_of_uint. destruct (Pos.to_uint p) eqn:Ep; try apply uint_chars. reflexivity.
  - lia.
Qed.

Lemma keywords_no_digit : forallb (forall_chars (fun c => negb (is_digit c))) keywords = true.
Proof. reflexivity. Qed.

Lemma arg_name_ident prefix i : is_ident prefix = true -> is_ident (arg_name prefix i) = true.
Proof.
  unfold is_ident, arg_name. rewrite !andb_true_iff, !negb_true_iff. intros [[Hs Hc] _].
  destruct (repr_nat_digits i) as [Hd Hn]. repeat split.
  - destruct prefix; [discriminate|exact Hs].
  - rewrite forall_chars_app, Hc. cbn. eapply forall_chars_impl; [|exact Hd]. intros c ->. apply orb_true_r.
  - destruct (existsb _ keywords) eqn:E; [|reflexivity]. exfalso.
    apply existsb_exists in E as (kw & Hin & Heq). apply String.eqb_eq in Heq.
    pose proof keywords_no_digit as K. rewrite forallb_forall in K. specialize (K kw Hin).
    rewrite <- Heq, forall_chars_app in K. apply andb_true_iff in K as [_ K].
    destruct (repr_Z (Z.of_nat i)) as [|c r]; [discriminate|]. cbn in K, Hd.
    apply andb_true_iff in Hd as [Hc1 _]. now rewrite Hc1 in K.
Qed.

Lemma init_loop_spec prefix : forall tys i ps,
  List.length (ps_arguments ps) = i -> ps_argvalue ps = ps_arguments ps ->
  arg_entries ps ->
  (forall a, In a (ps_arguments ps) -> exists j, j < i /\ a = arg_name prefix j) ->
  let ps' := init_loop prefix i tys ps in
  ps_arguments ps' = ps_arguments ps ++ map (arg_name prefix) (seq i (List.length tys)) /\
  ps_argvalue ps' = ps_arguments ps' /\ arg_entries ps'.
Proof.
  induction tys as [|t tys IH]; intros i ps Hl Hv He Hn; cbn [init_loop List.length seq map].
  - rewrite app_nil_r. auto.
  - set (a := arg_name prefix i).
    set (ps1 := mkpset (ps_arguments ps ++ [a]) (ps_argvalue ps ++ [a]) (dset a (NArg i t) (ps_mapping ps))).
    assert (P1 : List.length (ps_arguments ps1) = S i).
    { cbn. rewrite app_length. cbn. lia. }
    assert (P2 : ps_argvalue ps1 = ps_arguments ps1).
    { cbn. now rewrite Hv. }
    assert (P3 : arg_entries ps1).
    { intros j name Hj. cbn [ps1 ps_arguments ps_mapping] in *.
      destruct (Nat.lt_ge_cases j i) as [L|L].
      * rewrite nth_error_app1 in Hj by lia. destruct (He j name Hj) as (r & Hm). exists r.
        rewrite dget_dset_other; [exact Hm|]. intro; subst name.
        destruct (Hn a (nth_error_In _ _ Hj)) as (j' & Lj' & Ej'). apply arg_name_inj in Ej'. lia.
      * rewrite nth_error_app2 in Hj by lia. rewrite Hl in Hj.
        destruct (j - i) as [|d] eqn:Ed; cbn in Hj; [|destruct d; discriminate].
        injection Hj as <-. assert (j = i) by lia. subst j. exists t. apply dget_dset_same. }
    assert (P4 : forall x, In x (ps_arguments ps1) -> exists j, j < S i /\ x = arg_name prefix j).
    { intros x Hx. cbn in Hx. apply in_app_iff in Hx as [Hx|[<-|[]]].
      * destruct (Hn x Hx) as (j & Lj & Ej). exists j. split; [lia|exact Ej].
      * exists i. split; [lia|reflexivity]. }
    destruct (IH (S i) ps1 P1 P2 P3 P4) as (A & B & C).
    cbn [ps1 ps_arguments] in A. split; [rewrite A, <- app_assoc; reflexivity|split; [exact B|exact C]].
Qed.

(* PrimitiveSetTyped.__init__: the fresh set is consistent (hypothesis pset_ok of compile_sem) and every
   argument terminal is registered under its name (hypothesis arg_entries of the rename theorems) *)
Theorem init_ok prefix tys :
  is_ident prefix = true ->
  let ps := pset_init prefix tys in
  pset_ok ps /\ arg_entries ps /\
  ps_arguments ps = map (arg_name prefix) (seq 0 (List.length tys)).
Proof.
  intro Hp. cbv zeta. unfold pset_init.
  destruct (init_loop_spec prefix tys 0 (mkpset [] [] [])) as (A & B & C); try reflexivity.
  - intros j name Hj. destruct j; discriminate.
  - intros a [].
  - cbn in A. repeat split; auto.
    + rewrite A. apply forallb_forall. intros x Hx. apply in_map_iff in Hx as (j & <- & _).
      now apply arg_name_ident.
    + rewrite A. apply nodupb_of_NoDup.
      apply FinFun.Injective_map_NoDup; [|apply seq_NoDup]. intros x y. apply arg_name_inj.
Qed.

(* registering: the added object is found under its key, other keys keep their entry, the argument
   bookkeeping is untouched *)
Definition bop_key (o : bop) : string :=
  match o with
  | BPrim n _ _ | BAdf n _ _ => n
  | BConst c _ => pystr c
  | BNamed n _ => n
  | BEph n _ => n
  end.

Definition bop_node (o : bop) : node :=
  match o with
  | BPrim n a r | BAdf n a r => NPrim n a r
  | BConst c r => NConst c r
  | BNamed n r => NSym n r
  | BEph n r => NClass n r
  end.

Theorem add_registers o ps names ps' names' :
  pset_add o (ps, names) = Some (ps', names') ->
  dget (bop_key o) (ps_mapping ps') = Some (bop_node o) /\
  (forall k, k <> bop_key o -> dget k (ps_mapping ps') = dget k (ps_mapping ps)) /\
  ps_arguments ps' = ps_arguments ps /\ ps_argvalue ps' = ps_argvalue ps.
Proof.
  destruct o; cbn [pset_add bop_key bop_node]; intro H;
    try (destruct (existsb _ names); [discriminate|]);
    try (destruct (dget name (ps_mapping ps)); [discriminate|]);
    injection H as <- <-; cbn [put ps_mapping ps_arguments ps_argvalue];
    (repeat split; [apply dget_dset_same|intros k Hk; now apply dget_dset_other]).
Qed.

(* the consistency of the set survives registrations whose key is not an argument name *)
Theorem add_keeps_ok o ps names ps' names' :
  pset_add o (ps, names) = Some (ps', names') -> ~ In (bop_key o) (ps_arguments ps) ->
  pset_ok ps -> arg_entries ps -> pset_ok ps' /\ arg_entries ps'.
Proof.
  intros H Hk (Hv & Hi & Hn) He. destruct (add_registers _ _ _ _ _ H) as (_ & Ho & Ha & Hv').
  split.
  - unfold pset_ok. now rewrite Hv', Ha.
  - intros j name Hj. rewrite Ha in Hj. destruct (He j name Hj) as (r & Hm). exists r.
    rewrite Ho; [exact Hm|]. intro; subst. apply Hk. eapply nth_error_In; eauto.
Qed.

(* ------------------------------------------------------------------ a whole construction history *)
Lemma build_other ops : forall st st' k,
  pset_build ops st = Some st' -> ~ In k (map bop_key ops) ->
  dget k (ps_mapping (fst st')) = dget k (ps_mapping (fst st)) /\
  ps_arguments (fst st') = ps_arguments (fst st) /\ ps_argvalue (fst st') = ps_argvalue (fst st).
Proof.
  induction ops as [|o r IH]; intros st st' k H Hk; cbn in H.
  - injection H as <-. auto.
  - destruct (pset_add o st) as [st1|] eqn:E; [|discriminate].
    destruct st as [ps names], st1 as [ps1 names1].
    destruct (add_registers _ _ _ _ _ E) as (_ & Ho & Ha & Hv).
    destruct (IH _ _ k H) as (A & B & C). { intro; apply Hk; now right. }
    cbn [fst] in *. rewrite A, B, C, Ha, Hv. repeat split.
    apply Ho. intro; subst. apply Hk. now left.
Qed.

(* every object registered under a key that is not reused afterwards is the entry of its key at the end:
   this is the hypothesis "resolvable" for primitives (and for terminals registered under their printed form) *)
Theorem build_lookup ops : forall st st' o,
  pset_build ops st = Some st' -> NoDup (map bop_key ops) -> In o ops ->
  dget (bop_key o) (ps_mapping (fst st')) = Some (bop_node o).
Proof.
  induction ops as [|o0 r IH]; intros st st' o H ND Hin; [contradiction|].
  cbn in H. destruct (pset_add o0 st) as [st1|] eqn:E; [|discriminate].
  inversion ND as [|? ? Hnin ND']; subst. destruct Hin as [->|Hin].
  - destruct st as [ps names], st1 as [ps1 names1].
    destruct (add_registers _ _ _ _ _ E) as (Hk & _).
    destruct (build_other r _ _ (bop_key o) H Hnin) as (A & _). cbn [fst] in *. now rewrite A.
  - eapply IH; eauto.
Qed.

Theorem build_keeps_ok ops : forall st st',
  pset_build ops st = Some st' ->
  (forall k, In k (map bop_key ops) -> ~ In k (ps_arguments (fst st))) ->
  pset_ok (fst st) -> arg_entries (fst st) -> pset_ok (fst st') /\ arg_entries (fst st').
Proof.
  induction ops as [|o r IH]; intros st st' H Hk PO AE; cbn in H.
  - injection H as <-. auto.
  - destruct (pset_add o st) as [st1|] eqn:E; [|discriminate].
    destruct st as [ps names], st1 as [ps1 names1]. cbn [fst] in *.
    destruct (add_keeps_ok _ _ _ _ _ E (Hk _ (or_introl eq_refl)) PO AE) as (PO1 & AE1).
    destruct (add_registers _ _ _ _ _ E) as (_ & _ & Ha & _).
    apply (IH (ps1, names1) st' H); cbn [fst]; auto.
    intros k Hin. rewrite Ha. apply Hk. now right.
Qed.
