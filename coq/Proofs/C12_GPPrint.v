(* Lemmas and proofs for C12 (model: Model/C12_GPPrint.v). *)
From Coq Require Import List ZArith Bool Lia String Ascii Arith.
From DV Require Import Base.C12_Str Model.C12_GPPrint.
Import ListNotations.
Local Open Scope string_scope.
Local Open Scope list_scope.

(* ------------------------------------------------------------------ trees *)
Lemma tree_ind' (P : tree -> Prop) :
  (forall n kids, Forall P kids -> P (T n kids)) -> forall tr, P tr.
Proof.
  intro H. fix IH 1. intros [n kids]. apply H.
  induction kids as [|k ks IHk]; constructor; [apply IH|exact IHk].
Qed.

Definition wf_tree (tr : tree) : Prop := wf_treeb tr = true.

Lemma wf_tree_inv n kids : wf_tree (T n kids) ->
  node_arity n = Some (List.length kids) /\ Forall wf_tree kids.
Proof.
  unfold wf_tree; cbn. rewrite andb_true_iff, forallb_forall. intros [A B]. split.
  - unfold arity_matches in A. destruct (node_arity n); [|discriminate].
    apply Nat.eqb_eq in A. now subst.
  - apply Forall_forall. exact B.
Qed.

Lemma wf_tree_intro n kids :
  node_arity n = Some (List.length kids) -> Forall wf_tree kids -> wf_tree (T n kids).
Proof.
  intros A B. unfold wf_tree; cbn. rewrite andb_true_iff, forallb_forall. split.
  - unfold arity_matches. rewrite A. apply Nat.eqb_refl.
  - apply Forall_forall. exact B.
Qed.

(* the catamorphism the stack machine is supposed to compute *)
Section Fold.
  Context {A : Type}.
  Variable F : node -> list A -> A.
  Fixpoint foldT (tr : tree) : A := match tr with T n kids => F n (map foldT kids) end.
End Fold.

(* ------------------------------------------------------------------ the stack machine on a complete tree *)
Section MachineFacts.
  Context {A : Type}.
  Variable F : node -> list A -> A.

  (* a finished value meets the stack: the body of the while loop after the pop *)
  Definition deliver (v : A) (stack : list (frame (A:=A))) : A * list frame :=
    match stack with
    | [] => (v, [])
    | (p, a) :: rest => unwind F v p (a ++ [v]) rest
    end.

  Lemma unwind_eq cur prim args rest :
    unwind F cur prim args rest =
    if arity_matches (List.length args) prim then deliver (F prim args) rest
    else (cur, (prim, args) :: rest).
  Proof. destruct rest as [|[p2 a2] rest2]; reflexivity. Qed.

  Definition tree_ok (tr : tree) : Prop :=
    forall cur stack more,
      fold_left (step F) (flatten tr ++ more) (cur, stack) =
      fold_left (step F) more (deliver (foldT F tr) stack).

  Lemma run_forest ks :
    Forall tree_ok ks -> ks <> [] ->
    forall n a cur stack more,
      node_arity n = Some (List.length a + List.length ks) ->
      fold_left (step F) (flat_map flatten ks ++ more) (cur, (n, a) :: stack) =
      fold_left (step F) more (deliver (F n (a ++ map (foldT F) ks)) stack).
  Proof.
    induction ks as [|k ks IH]; intros Hks Hne n a cur stack more Har; [congruence|].
    inversion Hks as [|? ? Hk Hrest]; subst. cbn [flat_map map].
    rewrite <- app_assoc, (Hk cur ((n, a) :: stack)). cbn [deliver]. rewrite unwind_eq.
    unfold arity_matches. rewrite Har, app_length. cbn [List.length].
    destruct ks as [|k2 ks2].
    - cbn [List.length flat_map map app]. replace (List.length a + 1) with (List.length a + 1) by reflexivity.
      rewrite Nat.eqb_refl. reflexivity.
    - match goal with |- context [Nat.eqb ?x ?y] => destruct (Nat.eqb_spec x y) as [E|_] end.
      { cbn [List.length] in E. lia. }
      rewrite (IH Hrest ltac:(discriminate) n (a ++ [foldT F k]) (foldT F k) stack more).
      + now rewrite <- app_assoc.
      + rewrite Har, app_length. cbn [List.length]. f_equal. lia.
  Qed.

  Lemma run_tree tr : wf_tree tr -> tree_ok tr.
  Proof.
    induction tr as [n kids IH] using tree_ind'. intro W.
    destruct (wf_tree_inv _ _ W) as [Har Wk]. intros cur stack more.
    cbn [flatten app fold_left]. unfold step at 2. cbn [fst snd]. rewrite unwind_eq.
    unfold arity_matches. rewrite Har. cbn [List.length].
    destruct kids as [|k ks].
    - reflexivity.
    - cbn [Nat.eqb List.length].
      assert (Forall tree_ok (k :: ks)) as Hok.
      { clear - IH Wk. induction IH as [|x l Hx _ IHl]; inversion Wk; subst; constructor; auto. }
      rewrite (run_forest (k :: ks) Hok ltac:(discriminate) n [] cur stack more Har). reflexivity.
  Qed.

  Lemma run_flatten a0 tr : wf_tree tr -> run F a0 (flatten tr) = foldT F tr.
  Proof.
    intro W. unfold run. rewrite <- (app_nil_r (flatten tr)), (run_tree tr W a0 [] []). reflexivity.
  Qed.
End MachineFacts.

(* ------------------------------------------------------------------ recursive-descent parse <-> flatten *)
Lemma parse_forest_sound fuel : forall k l ts r,
  parse_forest fuel k l = Some (ts, r) ->
  l = flat_map flatten ts ++ r /\ List.length ts = k /\ Forall wf_tree ts.
Proof.
  induction fuel as [|f IH]; intros k l ts r H.
  - destruct k; cbn in H; [|discriminate]. injection H as <- <-. auto.
  - destruct k as [|k']; cbn in H. { injection H as <- <-. auto. }
    destruct l as [|n r0]; [discriminate|].
    destruct (node_arity n) as [a|] eqn:Ea; [|discriminate].
    destruct (parse_forest f a r0) as [[kids r1]|] eqn:E1; [|discriminate].
    destruct (parse_forest f k' r1) as [[sibs r2]|] eqn:E2; [|discriminate].
    injection H as <- <-.
    destruct (IH _ _ _ _ E1) as (L1 & N1 & W1). destruct (IH _ _ _ _ E2) as (L2 & N2 & W2).
    subst. repeat split.
    + cbn. now rewrite <- app_assoc.
    + constructor; [|exact W2]. apply wf_tree_intro; auto.
Qed.

Lemma parse_forest_complete fuel : forall ts r,
  Forall wf_tree ts -> List.length (flat_map flatten ts) <= fuel ->
  parse_forest fuel (List.length ts) (flat_map flatten ts ++ r) = Some (ts, r).
Proof.
  induction fuel as [|f IH]; intros ts r W L.
  - destruct ts as [|[n kids] ts]; [reflexivity|]. cbn in L. lia.
  - destruct ts as [|[n kids] sibs]; [reflexivity|].
    inversion W as [|? ? W1 W2]; subst. destruct (wf_tree_inv _ _ W1) as [Har Wk].
    cbn [flat_map flatten List.length app] in *. rewrite ?app_length in L. cbn [List.length] in L.
    rewrite ?app_length in L. cbn [parse_forest]. rewrite Har.
    rewrite <- !app_assoc. rewrite (IH kids (flat_map flatten sibs ++ r) Wk ltac:(lia)).
    rewrite (IH sibs r W2 ltac:(lia)). reflexivity.
Qed.

Lemma parse_sound t tr : parse t = Some tr -> t = flatten tr /\ wf_tree tr.
Proof.
  unfold parse. destruct (parse_forest _ 1 t) as [[ts r]|] eqn:E; [|discriminate].
  destruct ts as [|x [|? ?]]; try discriminate. destruct r; [|discriminate].
  intro H; injection H as <-. destruct (parse_forest_sound _ _ _ _ _ E) as (L & _ & W).
  cbn in L. rewrite !app_nil_r in L. inversion W; auto.
Qed.

Lemma parse_flatten tr : wf_tree tr -> parse (flatten tr) = Some tr.
Proof.
  intro W. unfold parse.
  pose proof (parse_forest_complete (S (List.length (flatten tr))) [tr] [] (Forall_cons _ W (Forall_nil _))) as H.
  cbn [flat_map List.length] in H. rewrite !app_nil_r in H. rewrite H; [reflexivity|lia].
Qed.

(* ------------------------------------------------------------------ str = pp *)
Lemma pp_fold ps tr : pp ps tr = foldT (fmt ps) tr.
Proof.
  induction tr as [n kids IH] using tree_ind'. destruct n; cbn; try reflexivity.
  assert (map (pp ps) kids = map (foldT (fmt ps)) kids) as ->; [|reflexivity].
  induction IH as [|k ks Hk _ IHl]; cbn [map]; [reflexivity|]. now rewrite Hk, IHl.
Qed.

Lemma str_flatten ps tr : wf_tree tr -> str_tree ps (flatten tr) = pp ps tr.
Proof. intro W. unfold str_tree. rewrite run_flatten by exact W. symmetry. apply pp_fold. Qed.

Lemma str_is_pp ps t tr : parse t = Some tr -> str_tree ps t = pp ps tr.
Proof. intro H. destruct (parse_sound _ _ H) as [-> W]. now apply str_flatten. Qed.
