(* C10 at the float level: the final clamp  min(max(c, xl), xu)  of cxSimulatedBinaryBounded and
   mutPolynomialBounded, for the binary64 instance [FOps] of the model (PrimFloat), with Python's two-argument
   min / max exactly as modelled ([pymin a b = if b < a then b else a], [pymax a b = if a < b then b else a]:
   the first argument is returned unless the second is strictly smaller / larger; every comparison with NaN is false).

   For ALL binary64 c xl xu with xl <= xu (float order, so neither bound is NaN):
     - the clamped value is one of c, xl, xu;
     - if c is not NaN:  xl <= result <= xu  (float order, no tolerance);
     - if c is NaN the result is NaN (the clamp propagates it: "finite and in bounds" holds exactly when the
       pre-clamp value is not NaN).
   Lifted to the operators (any event stream: any draws, any recorded ** results): every output gene of
   [mut_poly FOps] / [cx_sbx_bounded FOps] is either the input gene, bit for bit (not selected), or a clamped
   value, hence inside its bounds or NaN.

   Uses the standard library's specification of primitive floats (FloatAxioms: ltb_spec, leb_spec, eqb_spec,
   which relate the primitive comparisons to [SFcompare] on [Prim2SF]); these are axioms of the standard
   library and show up in Print Assumptions.

   NOT proved here: that the pre-clamp value is never NaN / the operator never raises for in-bounds parents in
   binary64 -- that needs a rounding analysis of ** (an oracle in the float model).  Over R it is proved
   (Props/C10.v: C10_sbx_bounded_defined_in_bounds, C10_poly_defined_in_bounds). *)
From Coq Require Import List Bool ZArith PArith Lia.
From Coq Require Import Floats.
From DV Require Import Model.C10_RealOps.
Import ListNotations.
Local Open Scope float_scope.

(* ---------------------------------------------------------------------------------------------- *)
(* order facts on spec floats                                                                       *)
(* ---------------------------------------------------------------------------------------------- *)
Definition opp_cmp (o : option comparison) : option comparison :=
  match o with Some c => Some (CompOpp c) | None => None end.

Lemma SFcompare_antisym a b : SFcompare b a = opp_cmp (SFcompare a b).
Proof.
  destruct a as [sa|sa| |sa ma ea], b as [sb|sb| |sb mb eb]; try reflexivity;
    try (destruct sa; reflexivity); try (destruct sb; reflexivity);
    try (destruct sa, sb; reflexivity).
  cbn. destruct sa, sb; try reflexivity; cbn.
  - rewrite (Z.compare_antisym ea eb). destruct (ea ?= eb)%Z; cbn; try reflexivity.
    rewrite (Pos.compare_cont_antisym ma mb Eq). reflexivity.
  - rewrite (Z.compare_antisym ea eb). destruct (ea ?= eb)%Z; cbn; try reflexivity.
    rewrite (Pos.compare_cont_antisym ma mb Eq). reflexivity.
Qed.

Lemma SFcompare_refl a : a <> S754_nan -> SFcompare a a = Some Eq.
Proof.
  destruct a as [s|s| |s m e]; intro H; try reflexivity; try (destruct s; reflexivity); [congruence|].
  cbn. rewrite Z.compare_refl, Pos.compare_cont_refl. destruct s; reflexivity.
Qed.

Lemma SFcompare_nan_l a : SFcompare S754_nan a = None.
Proof. reflexivity. Qed.
Lemma SFcompare_nan_r a : SFcompare a S754_nan = None.
Proof. destruct a; reflexivity. Qed.

(* ---------------------------------------------------------------------------------------------- *)
(* primitive comparisons through the specification                                                  *)
(* ---------------------------------------------------------------------------------------------- *)
Definition fcmp (x y : float) : option comparison := SFcompare (Prim2SF x) (Prim2SF y).

Lemma ltb_cmp x y : (x <? y) = match fcmp x y with Some Lt => true | _ => false end.
Proof. apply ltb_spec. Qed.
Lemma leb_cmp x y : (x <=? y) = match fcmp x y with Some (Lt | Eq) => true | _ => false end.
Proof. apply leb_spec. Qed.
Lemma fcmp_antisym x y : fcmp y x = opp_cmp (fcmp x y).
Proof. apply SFcompare_antisym. Qed.

Lemma is_nan_cmp x : is_nan x = match fcmp x x with None => true | Some _ => false end.
Proof.
  unfold is_nan. rewrite eqb_spec. unfold SFeqb, fcmp.
  destruct (Prim2SF x) as [s|s| |s m e] eqn:E.
  - reflexivity.
  - destruct s; reflexivity.
  - reflexivity.
  - rewrite SFcompare_refl by discriminate. reflexivity.
Qed.

(* a NaN on either side: no order *)
Lemma fcmp_nan_l x y : is_nan x = true -> fcmp x y = None.
Proof.
  rewrite is_nan_cmp. unfold fcmp. destruct (Prim2SF x) as [s|s| |s m e]; intro H.
  - discriminate H.
  - destruct s; discriminate H.
  - reflexivity.
  - rewrite SFcompare_refl in H by discriminate. discriminate H.
Qed.
Lemma fcmp_nan_r x y : is_nan y = true -> fcmp x y = None.
Proof. intro H. rewrite (fcmp_antisym y x), (fcmp_nan_l y x H). reflexivity. Qed.

(* no NaN: comparable *)
Lemma fcmp_some x y : is_nan x = false -> is_nan y = false -> exists c, fcmp x y = Some c.
Proof.
  rewrite !is_nan_cmp. unfold fcmp.
  destruct (Prim2SF x) as [s|s| |s m e], (Prim2SF y) as [s'|s'| |s' m' e']; intros Hx Hy;
    try discriminate; try (cbn; eauto; fail).
Qed.

Lemma leb_true_not_nan x y : (x <=? y) = true -> is_nan x = false /\ is_nan y = false.
Proof.
  rewrite leb_cmp. intro H. split.
  - destruct (is_nan x) eqn:N; [|reflexivity]. rewrite (fcmp_nan_l x y N) in H. discriminate.
  - destruct (is_nan y) eqn:N; [|reflexivity]. rewrite (fcmp_nan_r x y N) in H. discriminate.
Qed.

Lemma leb_refl x : is_nan x = false -> (x <=? x) = true.
Proof. rewrite is_nan_cmp, leb_cmp. destruct (fcmp x x) as [c|] eqn:E; [|discriminate].
  intros _. unfold fcmp in E. rewrite SFcompare_refl in E; [now inversion E|].
  intro N. rewrite N in E. discriminate.
Qed.

(* not (x < y), both comparable  ->  y <= x *)
Lemma not_ltb_leb x y : is_nan x = false -> is_nan y = false -> (x <? y) = false -> (y <=? x) = true.
Proof.
  intros Hx Hy. rewrite ltb_cmp, leb_cmp, (fcmp_antisym x y).
  destruct (fcmp_some x y Hx Hy) as [c ->]. destruct c; cbn; congruence.
Qed.

Lemma leb_not_ltb x y : (x <=? y) = true -> (y <? x) = false.
Proof.
  rewrite ltb_cmp, leb_cmp, (fcmp_antisym x y). destruct (fcmp x y) as [[| |]|]; cbn; congruence.
Qed.

Lemma ltb_nan_l x y : is_nan x = true -> (x <? y) = false.
Proof. intro H. rewrite ltb_cmp, (fcmp_nan_l x y H). reflexivity. Qed.
Lemma ltb_nan_r x y : is_nan y = true -> (x <? y) = false.
Proof. intro H. rewrite ltb_cmp, (fcmp_nan_r x y H). reflexivity. Qed.

(* ---------------------------------------------------------------------------------------------- *)
(* the clamp                                                                                        *)
(* ---------------------------------------------------------------------------------------------- *)
Definition fclip (c xl xu : float) : float := clip FOps c xl xu.

Lemma fclip_unfold c xl xu :
  fclip c xl xu = let m := if c <? xl then xl else c in if xu <? m then xu else m.
Proof. reflexivity. Qed.

(* inside its bounds, or NaN *)
Definition clamped (xl xu y : float) : Prop :=
  is_nan y = true \/ ((xl <=? y) = true /\ (y <=? xu) = true).

Lemma fclip_one_of c xl xu : fclip c xl xu = c \/ fclip c xl xu = xl \/ fclip c xl xu = xu.
Proof.
  rewrite fclip_unfold. cbv zeta. destruct (c <? xl); [destruct (xu <? xl)|destruct (xu <? c)]; auto.
Qed.

Lemma fclip_in_bounds c xl xu : (xl <=? xu) = true -> is_nan c = false ->
  (xl <=? fclip c xl xu) = true /\ (fclip c xl xu <=? xu) = true.
Proof.
  intros Hb Hc. destruct (leb_true_not_nan _ _ Hb) as [Nl Nu].
  rewrite fclip_unfold. cbv zeta. destruct (c <? xl) eqn:E1.
  - rewrite (leb_not_ltb _ _ Hb). split; [apply leb_refl; exact Nl|exact Hb].
  - pose proof (not_ltb_leb c xl Hc Nl E1) as Hlc.
    destruct (xu <? c) eqn:E2.
    + split; [exact Hb|apply leb_refl; exact Nu].
    + split; [exact Hlc|apply not_ltb_leb; assumption].
Qed.

Lemma fclip_nan c xl xu : is_nan c = true -> fclip c xl xu = c.
Proof.
  intro Hc. rewrite fclip_unfold. cbv zeta. rewrite (ltb_nan_l c xl Hc), (ltb_nan_r xu c Hc). reflexivity.
Qed.

Lemma fclip_clamped c xl xu : (xl <=? xu) = true -> clamped xl xu (fclip c xl xu).
Proof.
  intro Hb. destruct (is_nan c) eqn:Hc.
  - left. rewrite (fclip_nan c xl xu Hc). exact Hc.
  - right. apply fclip_in_bounds; assumption.
Qed.

(* the whole statement about the clamp *)
Lemma fclip_spec c xl xu : (xl <=? xu) = true ->
  (fclip c xl xu = c \/ fclip c xl xu = xl \/ fclip c xl xu = xu) /\
  (is_nan c = false -> (xl <=? fclip c xl xu) = true /\ (fclip c xl xu <=? xu) = true) /\
  (is_nan c = true -> is_nan (fclip c xl xu) = true).
Proof.
  intro Hb. split; [apply fclip_one_of|]. split.
  - apply fclip_in_bounds; assumption.
  - intro Hc. rewrite (fclip_nan c xl xu Hc). exact Hc.
Qed.

(* a NaN before the clamp really comes out: the side condition is not vacuous *)
Example fclip_nan_propagates : fclip nan 0 1 = nan /\ is_nan (fclip nan 0 1) = true /\ (0 <=? 1) = true.
Proof. vm_compute. auto. Qed.

(* ---------------------------------------------------------------------------------------------- *)
(* lifting to the per-gene actions of the float model (any event stream)                            *)
(* ---------------------------------------------------------------------------------------------- *)
Local Open Scope m_scope.

Lemma bind_inv {A B} (m : M float A) (f : A -> M float B) s b s' :
  bind m f s = Ok (b, s') -> exists a s1, m s = Ok (a, s1) /\ f a s1 = Ok (b, s').
Proof. unfold bind. destruct (m s) as [[a s1]| |]; try discriminate. eauto. Qed.

Lemma ret_inv {A} (a b : A) (s s' : stream float) : ret a s = Ok (b, s') -> b = a /\ s' = s.
Proof. unfold ret. intro H. inversion H. auto. Qed.

Lemma draw_random_inv s u s' : draw_random (T:=float) s = Ok (u, s') -> s = ERandom u :: s'.
Proof. unfold draw_random. destruct s as [|[v| | |] s1]; try discriminate. intro H. inversion H. reflexivity. Qed.

(* what one call of the per-gene action can return: the gene it was given, bit for bit, or a clamped value *)
Definition gene_ok (xl xu x y : float) : Prop := y = x \/ exists c, y = fclip c xl xu.

Lemma gene_ok_clamped xl xu x y : gene_ok xl xu x y -> (xl <=? xu) = true -> y = x \/ clamped xl xu y.
Proof. intros [H|[c H]] Hb; [left; exact H|right; rewrite H; apply fclip_clamped; exact Hb]. Qed.

(* mutPolynomialBounded, one gene: the first event is the draw u of `random.random() <= indpb`;
   not selected: the gene is returned as it is and nothing else is consumed; selected: a clamped value *)
Lemma poly_gene_float eta indpb xl xu x s y s' :
  poly_gene FOps eta indpb xl xu x s = Ok (y, s') ->
  exists u s1, s = ERandom u :: s1 /\
    (((u <=? indpb) = false /\ y = x /\ s' = s1) \/
     ((u <=? indpb) = true /\ exists c, y = fclip c xl xu)).
Proof.
  unfold poly_gene. intro H.
  apply bind_inv in H. destruct H as (u & s1 & Hu & H). apply draw_random_inv in Hu.
  exists u, s1. split; [exact Hu|].
  change (o_leb float FOps u indpb) with (u <=? indpb) in H.
  destruct (u <=? indpb).
  - right. split; [reflexivity|].
    repeat (apply bind_inv in H; destruct H as (? & ? & _ & H)).
    cbv zeta in H. apply ret_inv in H. destruct H as [H _]. eexists. exact H.
  - left. apply ret_inv in H. destruct H as [H1 H2]. auto.
Qed.

(* cxSimulatedBinaryBounded, one locus *)
Lemma sbxb_gene_float eta xl xu a b s c1 c2 s' :
  sbxb_gene FOps eta xl xu a b s = Ok ((c1, c2), s') ->
  (c1 = a /\ c2 = b) \/ ((exists d, c1 = fclip d xl xu) /\ (exists d, c2 = fclip d xl xu)).
Proof.
  unfold sbxb_gene. intro H.
  apply bind_inv in H. destruct H as (u1 & s1 & _ & H).
  destruct (o_leb float FOps u1 (o_half float FOps)).
  2: { left. apply ret_inv in H. destruct H as [H _]. inversion H. auto. }
  destruct (o_ltb float FOps (o_eps float FOps) (o_abs float FOps (o_sub float FOps a b))).
  2: { left. apply ret_inv in H. destruct H as [H _]. inversion H. auto. }
  right. cbv zeta in H.
  apply bind_inv in H. destruct H as (rand & s2 & _ & H).
  apply bind_inv in H. destruct H as (bq1 & s3 & _ & H).
  apply bind_inv in H. destruct H as (bq2 & s4 & _ & H).
  apply bind_inv in H. destruct H as (u3 & s5 & _ & H).
  destruct (o_leb float FOps u3 (o_half float FOps));
    apply ret_inv in H; destruct H as [H _]; inversion H; split; eexists; reflexivity.
Qed.

(* ---------------------------------------------------------------------------------------------- *)
(* lifting to the loops                                                                             *)
(* ---------------------------------------------------------------------------------------------- *)
Fixpoint rel1 (P : float -> float -> float -> float -> Prop) (ms ss l out : list float) : Prop :=
  match ms, ss, l, out with
  | m :: ms', sg :: ss', x :: l', y :: out' => P m sg x y /\ rel1 P ms' ss' l' out'
  | _, _, _, _ => out = l
  end.

Lemma map2bM_rel (f : float -> float -> float -> M float float) (P : float -> float -> float -> float -> Prop) :
  (forall m sg x s y s', f m sg x s = Ok (y, s') -> P m sg x y) ->
  forall ms ss l s out s', map2bM f ms ss l s = Ok (out, s') -> rel1 P ms ss l out.
Proof.
  intros Hf. induction ms as [|m ms IH]; intros ss l s out s' H.
  - cbn in H. apply ret_inv in H. destruct H as [H _]. subst. destruct ss, l; reflexivity.
  - destruct ss as [|sg ss]; [cbn in H; apply ret_inv in H; destruct H as [H _]; subst; destruct l; reflexivity|].
    destruct l as [|x l]; [cbn in H; apply ret_inv in H; destruct H as [H _]; subst; reflexivity|].
    cbn [map2bM] in H.
    apply bind_inv in H. destruct H as (y & s1 & Hy & H).
    apply bind_inv in H. destruct H as (r & s2 & Hr & H).
    apply ret_inv in H. destruct H as [H _]. subst out. cbn. split; [eapply Hf; exact Hy|eapply IH; exact Hr].
Qed.

Lemma rel1_length P ms : forall ss l out, rel1 P ms ss l out -> length out = length l.
Proof.
  induction ms as [|m ms IH]; intros ss l out H.
  - cbn in H. now subst.
  - destruct ss as [|sg ss]; [cbn in H; now subst|]. destruct l as [|x l]; [cbn in H; now subst|].
    destruct out as [|y out]; [cbn in H; discriminate H|]. cbn in H. destruct H as [_ H]. cbn. f_equal. eapply IH; exact H.
Qed.

Lemma rel1_nth P ms : forall ss l out, rel1 P ms ss l out ->
  forall i, (i < length l)%nat ->
    ((i < length ms)%nat -> (i < length ss)%nat -> P (nth i ms 0) (nth i ss 0) (nth i l 0) (nth i out 0)) /\
    (((length ms <= i)%nat \/ (length ss <= i)%nat) -> nth i out 0 = nth i l 0).
Proof.
  induction ms as [|m ms IH]; intros ss l out H i Hi.
  - cbn in H. subst. split; [cbn; lia|reflexivity].
  - destruct ss as [|sg ss]; [cbn in H; subst; split; [cbn; lia|reflexivity]|].
    destruct l as [|x l]; [cbn in Hi; lia|].
    destruct out as [|y out]; [cbn in H; discriminate H|]. cbn in H. destruct H as [H0 H].
    destruct i as [|i].
    + cbn. split; [intros; exact H0|lia].
    + cbn in Hi. destruct (IH ss l out H i ltac:(lia)) as [A B]. cbn [length nth]. split.
      * intros; apply A; lia.
      * intros; apply B; lia.
Qed.

Fixpoint rel2 (P : float -> float -> float -> float -> float -> float -> Prop)
    (lows ups l1 l2 c1 c2 : list float) : Prop :=
  match lows, ups, l1, l2, c1, c2 with
  | xl :: lows', xu :: ups', a :: r1, b :: r2, x :: c1', y :: c2' => P xl xu a b x y /\ rel2 P lows' ups' r1 r2 c1' c2'
  | _, _, _, _, _, _ => c1 = l1 /\ c2 = l2
  end.

Lemma zip2bM_rel (f : float -> float -> float -> float -> M float (float * float))
    (P : float -> float -> float -> float -> float -> float -> Prop) :
  (forall xl xu a b s x y s', f xl xu a b s = Ok ((x, y), s') -> P xl xu a b x y) ->
  forall lows ups l1 l2 s c1 c2 s', zip2bM f lows ups l1 l2 s = Ok ((c1, c2), s') -> rel2 P lows ups l1 l2 c1 c2.
Proof.
  intros Hf. induction lows as [|xl lows IH]; intros ups l1 l2 s c1 c2 s' H.
  - cbn in H. apply ret_inv in H. destruct H as [H _]. inversion H. subst. cbn. auto.
  - destruct ups as [|xu ups]; [cbn in H; apply ret_inv in H; destruct H as [H _]; inversion H; subst; cbn; auto|].
    destruct l1 as [|a r1]; [cbn in H; apply ret_inv in H; destruct H as [H _]; inversion H; subst; cbn; auto|].
    destruct l2 as [|b r2]; [cbn in H; apply ret_inv in H; destruct H as [H _]; inversion H; subst; cbn; auto|].
    cbn [zip2bM] in H.
    apply bind_inv in H. destruct H as ([x y] & s1 & Hxy & H).
    apply bind_inv in H. destruct H as ([r1' r2'] & s2 & Hr & H).
    apply ret_inv in H. destruct H as [H _]. inversion H. subst c1 c2. cbn.
    split; [eapply Hf; exact Hxy|eapply IH; exact Hr].
Qed.

Lemma rel2_length P lows : forall ups l1 l2 c1 c2, rel2 P lows ups l1 l2 c1 c2 ->
  length c1 = length l1 /\ length c2 = length l2.
Proof.
  induction lows as [|xl lows IH]; intros ups l1 l2 c1 c2 H.
  - cbn in H. destruct H; subst; auto.
  - destruct ups as [|xu ups]; [cbn in H; destruct H; subst; auto|].
    destruct l1 as [|a r1]; [cbn in H; destruct H; subst; auto|].
    destruct l2 as [|b r2]; [cbn in H; destruct H; subst; auto|].
    destruct c1 as [|x c1]; [cbn in H; destruct H as [H _]; discriminate H|].
    destruct c2 as [|y c2]; [cbn in H; destruct H as [_ H]; discriminate H|].
    cbn in H. destruct H as [_ H]. destruct (IH _ _ _ _ _ H). cbn. split; f_equal; assumption.
Qed.

Definition min4n (a b c d : nat) : nat := Nat.min (Nat.min a b) (Nat.min c d).

Lemma rel2_nth P lows : forall ups l1 l2 c1 c2, rel2 P lows ups l1 l2 c1 c2 ->
  forall i,
    ((i < min4n (length lows) (length ups) (length l1) (length l2))%nat ->
       P (nth i lows 0) (nth i ups 0) (nth i l1 0) (nth i l2 0) (nth i c1 0) (nth i c2 0)) /\
    ((min4n (length lows) (length ups) (length l1) (length l2) <= i)%nat ->
       nth i c1 0 = nth i l1 0 /\ nth i c2 0 = nth i l2 0).
Proof.
  unfold min4n.
  induction lows as [|xl lows IH]; intros ups l1 l2 c1 c2 H i.
  - cbn in H. destruct H; subst. split; [cbn; lia|auto].
  - destruct ups as [|xu ups]; [cbn in H; destruct H; subst; split; [cbn; lia|auto]|].
    destruct l1 as [|a r1]; [cbn in H; destruct H; subst; split; [cbn; lia|auto]|].
    destruct l2 as [|b r2]; [cbn in H; destruct H; subst; split; [cbn; lia|auto]|].
    destruct c1 as [|x c1]; [cbn in H; destruct H as [H _]; discriminate H|].
    destruct c2 as [|y c2]; [cbn in H; destruct H as [_ H]; discriminate H|].
    cbn in H. destruct H as [H0 H]. destruct i as [|i].
    + cbn. split; [intros; exact H0|lia].
    + destruct (IH _ _ _ _ _ H i) as [A B]. cbn [length nth]. split.
      * intros L. apply A. lia.
      * intros L. apply B. lia.
Qed.

(* ---------------------------------------------------------------------------------------------- *)
(* the operators                                                                                    *)
(* ---------------------------------------------------------------------------------------------- *)
(* the bound of gene i: the scalar, or the i-th element of the sequence *)
Definition bound_at (b : bnd (T:=float)) (i : nat) : float :=
  match b with Scalar x => x | PerGene l => nth i l 0 end.

Lemma nth_repeat_lt' {A} (x d : A) n : forall i, (i < n)%nat -> nth i (repeat x n) d = x.
Proof. induction n as [|n IH]; intros [|i] Hi; cbn; try lia; [reflexivity|apply IH; lia]. Qed.

Lemma nth_firstn_lt {A} (l : list A) d : forall n i, (i < n)%nat -> nth i (firstn n l) d = nth i l d.
Proof.
  induction l as [|x l IH]; intros [|n] [|i] H; cbn; try lia; try reflexivity.
  apply IH. lia.
Qed.

Lemma expand_float_inv b n s l s' : expand (T:=float) b n s = Ok (l, s') ->
  s' = s /\ (n <= length l)%nat /\ forall i, (i < n)%nat -> nth i l 0 = bound_at b i.
Proof.
  destruct b as [x|l0]; unfold expand.
  - intro H. apply ret_inv in H. destruct H as [H1 H2]. subst. split; [reflexivity|]. split.
    + rewrite repeat_length. lia.
    + intros i Hi. apply nth_repeat_lt'. exact Hi.
  - destruct (Nat.ltb (length l0) n) eqn:E; [intro H; cbv [raise] in H; discriminate H|].
    intro H. apply ret_inv in H. destruct H as [H1 H2]. subst. apply Nat.ltb_ge in E. auto.
Qed.

(* mutPolynomialBounded on binary64, any event stream: if it returns, the length is kept and every gene is
   either returned unchanged (bit for bit) or is a clamped value: NaN or inside [low_i, up_i] whenever low_i <= up_i *)
Lemma mut_poly_float eta low up indpb ind s out s' :
  mut_poly FOps eta low up indpb ind s = Ok (out, s') ->
  length out = length ind /\
  forall i, (i < length ind)%nat ->
    let xl := bound_at low i in let xu := bound_at up i in
    nth i out 0 = nth i ind 0 \/
    ((exists c, nth i out 0 = fclip c xl xu) /\ ((xl <=? xu) = true -> clamped xl xu (nth i out 0))).
Proof.
  unfold mut_poly. intro H.
  apply bind_inv in H. destruct H as (lows & s1 & Hl & H). apply expand_float_inv in Hl. destruct Hl as (_ & Ll & Nl).
  apply bind_inv in H. destruct H as (ups & s2 & Hu & H). apply expand_float_inv in Hu. destruct Hu as (_ & Lu & Nu).
  apply (map2bM_rel _ (fun xl xu x y => gene_ok xl xu x y)) in H.
  2: { intros m sg x t y t' Hg. apply poly_gene_float in Hg. destruct Hg as (u & t1 & _ & [(_ & E & _)|(_ & c & E)]).
       - left; exact E.
       - right; exists c; exact E. }
  split; [eapply rel1_length; exact H|].
  intros i Hi. cbv zeta. set (xl := bound_at low i). set (xu := bound_at up i). destruct (rel1_nth _ _ _ _ _ H i Hi) as [A _].
  specialize (A ltac:(lia) ltac:(lia)). rewrite (Nl i Hi), (Nu i Hi) in A. fold xl xu in A.
  destruct A as [A|[c A]]; [left; exact A|right]. split; [exists c; exact A|].
  intro Hb. rewrite A. apply fclip_clamped. exact Hb.
Qed.

(* cxSimulatedBinaryBounded on binary64, any event stream: if it returns, lengths are kept, loci at or past
   size = min(len) are untouched, and at every locus below size both children are either the parents' genes
   unchanged or both clamped values: NaN or inside [low_i, up_i] whenever low_i <= up_i *)
Lemma cx_sbx_bounded_float eta low up ind1 ind2 s c1 c2 s' :
  cx_sbx_bounded FOps eta low up ind1 ind2 s = Ok ((c1, c2), s') ->
  let size := Nat.min (length ind1) (length ind2) in
  length c1 = length ind1 /\ length c2 = length ind2 /\
  (forall i, (size <= i)%nat -> nth i c1 0 = nth i ind1 0 /\ nth i c2 0 = nth i ind2 0) /\
  (forall i, (i < size)%nat ->
     let xl := bound_at low i in let xu := bound_at up i in
     (nth i c1 0 = nth i ind1 0 /\ nth i c2 0 = nth i ind2 0) \/
     ((exists d, nth i c1 0 = fclip d xl xu) /\ (exists d, nth i c2 0 = fclip d xl xu) /\
      ((xl <=? xu) = true -> clamped xl xu (nth i c1 0) /\ clamped xl xu (nth i c2 0)))).
Proof.
  unfold cx_sbx_bounded. intro H. cbv zeta in H |- *. set (size := Nat.min (length ind1) (length ind2)) in *.
  apply bind_inv in H. destruct H as (lows & s1 & Hl & H). apply expand_float_inv in Hl. destruct Hl as (_ & Ll & Nl).
  apply bind_inv in H. destruct H as (ups & s2 & Hu & H). apply expand_float_inv in Hu. destruct Hu as (_ & Lu & Nu).
  apply (zip2bM_rel _ (fun xl xu a b x y =>
           (x = a /\ y = b) \/ ((exists d, x = fclip d xl xu) /\ (exists d, y = fclip d xl xu)))) in H.
  2: { intros xl xu a b t x y t' Hg. eapply sbxb_gene_float. exact Hg. }
  destruct (rel2_length _ _ _ _ _ _ _ H) as [L1 L2].
  assert (M4 : min4n (length (firstn size lows)) (length (firstn size ups)) (length ind1) (length ind2) = size).
  { unfold min4n. rewrite !firstn_length. unfold size in *. lia. }
  split; [exact L1|]. split; [exact L2|]. split.
  - intros i Hi. destruct (rel2_nth _ _ _ _ _ _ _ H i) as [_ B]. apply B. rewrite M4. exact Hi.
  - intros i Hi. cbv zeta. set (xl := bound_at low i). set (xu := bound_at up i). destruct (rel2_nth _ _ _ _ _ _ _ H i) as [A _]. rewrite M4 in A. specialize (A Hi).
    assert (El : nth i (firstn size lows) 0 = xl).
    { unfold xl. rewrite <- (Nl i Hi). apply nth_firstn_lt. exact Hi. }
    assert (Eu : nth i (firstn size ups) 0 = xu).
    { unfold xu. rewrite <- (Nu i Hi). apply nth_firstn_lt. exact Hi. }
    rewrite El, Eu in A. destruct A as [A|[[d1 A1] [d2 A2]]]; [left; exact A|right].
    split; [exists d1; exact A1|]. split; [exists d2; exact A2|].
    intro Hb. rewrite A1, A2. split; apply fclip_clamped; exact Hb.
Qed.

(* the NaN alternative is really there at the operator level of the float model: if a recorded power is NaN
   (the model takes the results of ** from the event stream), the mutated gene is NaN although the parent
   is inside its bounds -- which is why "never NaN for in-bounds parents" needs an analysis of ** itself *)
Example mut_poly_nan_propagates :
  exists s out s', mut_poly FOps 1 (Scalar 0) (Scalar 1) 1 [0x1p-1] s = Ok (out, s') /\
                   is_nan (nth 0 out 0) = true.
Proof.
  exists [ERandom 0x1p-2; ERandom 0x1p-2; EPow 0x1p-1 2 (PVal nan); EPow nan 0x1p-1 (PVal nan)].
  eexists. eexists. split; [vm_compute; reflexivity|vm_compute; reflexivity].
Qed.
