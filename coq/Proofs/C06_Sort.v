(* Lemmas about the Python built-ins of Base/C06_Py.v: stable sort, first maximum, tuple order on
   rationals, and the state-passing combinators of the model. *)
From Coq Require Import List Bool Arith Permutation Sorted QArith Lia Lqa.
From DV Require Import Base.C06_Py.
Import ListNotations.

(* ---------- StronglySorted helpers ---------- *)
Section SS.
  Context {A : Type}.

  Lemma SS_app (R : A -> A -> Prop) l1 l2 :
    StronglySorted R l1 -> StronglySorted R l2 ->
    (forall a b, In a l1 -> In b l2 -> R a b) -> StronglySorted R (l1 ++ l2).
  Proof.
    induction l1 as [|x l1 IH]; cbn; intros H1 H2 H; [assumption|].
    inversion H1; subst. constructor.
    - apply IH; auto.
    - apply Forall_app; split; [assumption|]. apply Forall_forall; intros b Hb; apply H; auto.
  Qed.

  Lemma SS_app_inv (R : A -> A -> Prop) l1 l2 :
    StronglySorted R (l1 ++ l2) ->
    StronglySorted R l1 /\ StronglySorted R l2 /\ (forall a b, In a l1 -> In b l2 -> R a b).
  Proof.
    induction l1 as [|x l1 IH]; cbn; intros H.
    - repeat split; [constructor|assumption|intros a b []].
    - inversion H; subst. destruct (IH H2) as (S1 & S2 & C).
      apply Forall_app in H3 as [F1 F2]. repeat split.
      + constructor; assumption.
      + assumption.
      + intros a b [->|Ha] Hb; [eapply Forall_forall in F2; eauto|auto].
  Qed.

  Lemma SS_rev (R : A -> A -> Prop) l :
    StronglySorted R l -> StronglySorted (fun a b => R b a) (rev l).
  Proof.
    induction 1 as [|x l S IH F]; cbn; [constructor|].
    apply SS_app; [assumption|repeat constructor|].
    intros a b Ha [<-|[]]. apply in_rev in Ha. eapply Forall_forall in F; eauto.
  Qed.

  Lemma SS_impl (R R' : A -> A -> Prop) l :
    (forall a b, R a b -> R' a b) -> StronglySorted R l -> StronglySorted R' l.
  Proof.
    intros HR. induction 1 as [|x l S IH F]; constructor; [exact IH|].
    eapply Forall_impl; [|exact F]. intros b; apply HR.
  Qed.
End SS.

(* ---------- sorted() ---------- *)
Section SortFacts.
  Context {A : Type} (lt : A -> A -> bool).

  Lemma ins_perm x l : Permutation (ins lt x l) (x :: l).
  Proof.
    induction l as [|y r IH]; cbn; [reflexivity|].
    destruct (lt y x); [|reflexivity].
    rewrite IH. apply perm_swap.
  Qed.

  Lemma py_sorted_perm l : Permutation (py_sorted lt l) l.
  Proof.
    induction l as [|x r IH]; cbn; [reflexivity|].
    rewrite ins_perm. constructor. exact IH.
  Qed.

  Lemma py_sorted_rev_perm l : Permutation (py_sorted_rev lt l) l.
  Proof.
    unfold py_sorted_rev. rewrite <- Permutation_rev, py_sorted_perm, <- Permutation_rev. reflexivity.
  Qed.

  Lemma py_sorted_length l : length (py_sorted lt l) = length l.
  Proof. apply Permutation_length, py_sorted_perm. Qed.
  Lemma py_sorted_rev_length l : length (py_sorted_rev lt l) = length l.
  Proof. apply Permutation_length, py_sorted_rev_perm. Qed.

  (* a strict weak order: asymmetric and negatively transitive *)
  Hypothesis lt_asym : forall a b, lt a b = true -> lt b a = false.
  Hypothesis lt_negtrans : forall a b c, lt a b = false -> lt b c = false -> lt a c = false.

  Definition asc (a b : A) : Prop := lt b a = false.    (* a is not after b: a <= b *)
  Definition desc (a b : A) : Prop := lt a b = false.   (* a >= b *)

  Lemma ins_sorted x l : StronglySorted asc l -> StronglySorted asc (ins lt x l).
  Proof.
    induction 1 as [|y r S IH F]; cbn; [repeat constructor|].
    destruct (lt y x) eqn:E.
    - constructor; [exact IH|].
      eapply Permutation_Forall; [symmetry; apply ins_perm|].
      constructor; [apply lt_asym; exact E|exact F].
    - constructor; [constructor; assumption|].
      constructor; [exact E|].
      eapply Forall_impl; [|exact F]. intros z Hz. unfold asc in *.
      eapply lt_negtrans; eauto.
  Qed.

  Lemma py_sorted_sorted l : StronglySorted asc (py_sorted lt l).
  Proof. induction l as [|x r IH]; cbn; [constructor|apply ins_sorted, IH]. Qed.

  Lemma py_sorted_rev_sorted l : StronglySorted desc (py_sorted_rev lt l).
  Proof. unfold py_sorted_rev. apply (SS_rev asc). apply py_sorted_sorted. Qed.

  (* stability: the elements equivalent to a keep their input order *)
  Definition eqv (a b : A) : bool := negb (lt a b) && negb (lt b a).

  Lemma ins_stable a x l :
    StronglySorted asc l ->
    filter (eqv a) (ins lt x l) = filter (eqv a) (x :: l).
  Proof.
    induction 1 as [|y r S IH F]; [reflexivity|].
    cbn [ins]. destruct (lt y x) eqn:E; [|reflexivity].
    cbn [filter]. rewrite IH. cbn [filter].
    destruct (eqv a x) eqn:Ex, (eqv a y) eqn:Ey; try reflexivity.
    exfalso. unfold eqv in *. apply andb_prop in Ex as [X1 X2], Ey as [Y1 Y2].
    apply negb_true_iff in X1, X2, Y1, Y2.
    (* y < x but a ~ x and a ~ y *)
    assert (lt y x = false) by (eapply lt_negtrans; eauto). congruence.
  Qed.

  Lemma py_sorted_stable a l : filter (eqv a) (py_sorted lt l) = filter (eqv a) l.
  Proof.
    induction l as [|x r IH]; [reflexivity|].
    cbn [py_sorted fold_right]. change (fold_right (ins lt) [] r) with (py_sorted lt r).
    rewrite ins_stable by apply py_sorted_sorted. cbn [filter]. rewrite IH. reflexivity.
  Qed.

  Lemma filter_rev {B} (f : B -> bool) l : filter f (rev l) = rev (filter f l).
  Proof.
    induction l as [|x r IH]; [reflexivity|]. cbn. rewrite filter_app, IH. cbn.
    destruct (f x); cbn; [reflexivity|apply app_nil_r].
  Qed.

  Lemma py_sorted_rev_stable a l : filter (eqv a) (py_sorted_rev lt l) = filter (eqv a) l.
  Proof.
    unfold py_sorted_rev. rewrite filter_rev, py_sorted_stable, filter_rev, rev_involutive. reflexivity.
  Qed.
End SortFacts.

(* ---------- max(key=) ---------- *)
Section MaxFacts.
  Context {A : Type} (gt : A -> A -> bool).
  Hypothesis gt_trans : forall a b c, gt a b = true -> gt b c = true -> gt a c = true.
  Hypothesis gt_negtrans : forall a b c, gt a b = false -> gt b c = false -> gt a c = false.
  Hypothesis gt_irrefl : forall a, gt a a = false.

  Lemma max_from_spec l : forall best m, max_from gt best l = m ->
    In m (best :: l) /\ forall x, In x (best :: l) -> gt x m = false.
  Proof.
    induction l as [|x r IH]; cbn [max_from]; intros best m H.
    - subst. split; [left; reflexivity|]. intros x [<-|[]]. apply gt_irrefl.
    - destruct (IH _ _ H) as [Hin Hmax]. split.
      + destruct Hin as [E|Hin]; [|right; right; exact Hin].
        destruct (gt x best); [right; left|left]; exact E.
      + intros y Hy.
        assert (Hb : gt (if gt x best then x else best) m = false) by (apply Hmax; left; reflexivity).
        destruct Hy as [<-|[<-|Hy]].
        * destruct (gt x best) eqn:E; [|exact Hb].
          destruct (gt best m) eqn:E2; [|reflexivity].
          rewrite (gt_trans _ _ _ E E2) in Hb. discriminate.
        * destruct (gt x best) eqn:E; [exact Hb|]. eapply gt_negtrans; eauto.
        * apply Hmax. right; exact Hy.
  Qed.

  Lemma py_max_spec l m : py_max gt l = Some m -> In m l /\ forall x, In x l -> gt x m = false.
  Proof.
    destruct l as [|x r]; cbn; [discriminate|]. intros H; inversion H; subst. apply max_from_spec. reflexivity.
  Qed.

  Lemma py_max_none l : py_max gt l = None <-> l = [].
  Proof. destruct l; cbn; split; congruence. Qed.
End MaxFacts.

(* ---------- numbers ---------- *)
Lemma Qltb_lt x y : Qltb x y = true <-> x < y.
Proof.
  unfold Qltb. rewrite negb_true_iff. split.
  - intro H. apply Qnot_le_lt. intro L. apply Qle_bool_iff in L. congruence.
  - intro H. destruct (Qle_bool y x) eqn:E; [|reflexivity]. apply Qle_bool_iff in E. lra.
Qed.

Lemma Qltb_ge x y : Qltb x y = false <-> y <= x.
Proof.
  unfold Qltb. rewrite negb_false_iff. apply Qle_bool_iff.
Qed.

Lemma Qle_bool_false x y : Qle_bool x y = false <-> y < x.
Proof.
  split.
  - intro H. apply Qnot_le_lt. intro L. apply Qle_bool_iff in L. congruence.
  - intro H. destruct (Qle_bool x y) eqn:E; [|reflexivity]. apply Qle_bool_iff in E. lra.
Qed.

Lemma Qeq_bool_false x y : Qeq_bool x y = false <-> ~ x == y.
Proof.
  split; [apply Qeq_bool_neq|]. intro H. destruct (Qeq_bool x y) eqn:E; [|reflexivity].
  apply Qeq_bool_iff in E. contradiction.
Qed.

Ltac qbool :=
  repeat match goal with
  | H : Qltb _ _ = true |- _ => apply Qltb_lt in H
  | H : Qltb _ _ = false |- _ => apply Qltb_ge in H
  | H : Qle_bool _ _ = true |- _ => apply Qle_bool_iff in H
  | H : Qle_bool _ _ = false |- _ => apply Qle_bool_false in H
  | H : Qeq_bool _ _ = true |- _ => apply Qeq_bool_iff in H
  | H : Qeq_bool _ _ = false |- _ => apply Qeq_bool_false in H
  | |- Qltb _ _ = true => apply Qltb_lt
  | |- Qltb _ _ = false => apply Qltb_ge
  | |- Qle_bool _ _ = true => apply Qle_bool_iff
  | |- Qle_bool _ _ = false => apply Qle_bool_false
  | |- Qeq_bool _ _ = true => apply Qeq_bool_iff
  | |- Qeq_bool _ _ = false => apply Qeq_bool_false
  end.

(* the tuple order: specification as a relation *)
Inductive qlex_lt : list Q -> list Q -> Prop :=
| qlex_nil : forall y b, qlex_lt [] (y :: b)
| qlex_head : forall x y a b, x < y -> qlex_lt (x :: a) (y :: b)
| qlex_tail : forall x y a b, x == y -> qlex_lt a b -> qlex_lt (x :: a) (y :: b).

Lemma qtup_lt_spec a b : qtup_lt a b = true <-> qlex_lt a b.
Proof.
  revert b; induction a as [|x a IH]; destruct b as [|y b]; cbn.
  - split; [discriminate|inversion 1].
  - split; [constructor|reflexivity].
  - split; [discriminate|inversion 1].
  - destruct (Qeq_bool x y) eqn:E; qbool.
    + rewrite IH. split; [apply qlex_tail; assumption|]. inversion 1; subst; [lra|assumption].
    + rewrite Qltb_lt. split; [apply qlex_head|]. inversion 1; subst; [assumption|contradiction].
Qed.

Lemma qtup_le_lt a b : qtup_le a b = negb (qtup_lt b a).
Proof.
  revert b; induction a as [|x a IH]; destruct b as [|y b]; cbn; try reflexivity.
  destruct (Qeq_bool x y) eqn:E, (Qeq_bool y x) eqn:E'; qbool.
  - apply IH.
  - exfalso; apply E'; symmetry; exact E.
  - exfalso; apply E; symmetry; exact E'.
  - unfold Qltb. rewrite negb_involutive. reflexivity.
Qed.

Lemma qtup_lt_asym a b : qtup_lt a b = true -> qtup_lt b a = false.
Proof.
  revert b; induction a as [|x a IH]; destruct b as [|y b]; cbn; try congruence.
  destruct (Qeq_bool x y) eqn:E, (Qeq_bool y x) eqn:E'; qbool.
  - apply IH.
  - exfalso; apply E'; symmetry; exact E.
  - exfalso; apply E; symmetry; exact E'.
  - intro H; qbool. lra.
Qed.

Lemma qtup_lt_negtrans a b c : qtup_lt a b = false -> qtup_lt b c = false -> qtup_lt a c = false.
Proof.
  revert b c; induction a as [|x a IH]; destruct b as [|y b], c as [|z c]; cbn; try congruence.
  destruct (Qeq_bool x y) eqn:E1, (Qeq_bool y z) eqn:E2, (Qeq_bool x z) eqn:E3; qbool; intros H1 H2; qbool;
    try (eapply IH; eassumption); try lra;
    try (exfalso; (apply E3; lra) || (apply E1; lra) || (apply E2; lra)).
Qed.

Lemma qtup_lt_trans a b c : qtup_lt a b = true -> qtup_lt b c = true -> qtup_lt a c = true.
Proof.
  revert b c; induction a as [|x a IH]; destruct b as [|y b], c as [|z c]; cbn; try congruence.
  destruct (Qeq_bool x y) eqn:E1, (Qeq_bool y z) eqn:E2, (Qeq_bool x z) eqn:E3; qbool; intros H1 H2; qbool;
    try (eapply IH; eassumption); try lra;
    try (exfalso; (apply E3; lra) || (apply E1; lra) || (apply E2; lra)).
Qed.

Lemma qtup_lt_irrefl a : qtup_lt a a = false.
Proof.
  destruct (qtup_lt a a) eqn:E; [|reflexivity]. pose proof (qtup_lt_asym _ _ E). congruence.
Qed.
