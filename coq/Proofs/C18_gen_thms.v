(* The C18 theorems transported to the regenerated methods (Gen/C18_gen.v) through Proofs/C18_gen_equiv.v. *)
From Coq Require Import List ZArith Bool Sorting.Sorted.
From DV Require Import Base.PyList Base.C18_Lists Model.C18_Logbook Model.C18_GenRt Proofs.C18_Logbook.
From DV Require Import Gen.C18_gen Proofs.C18_gen_equiv.
Import ListNotations.
Local Open Scope Z_scope.

Lemma gen_methods_are_model :
  (forall fuel uid infos l, wf_dict infos -> opt_of (gen_record fuel uid infos l) = lb_record fuel uid infos l) /\
  (forall i l, gen_pop i l = lb_pop i l) /\
  (forall i l, gen_delitem (KInt i) l = lb_delitem i l) /\
  (forall a b c l, gen_delitem (KSlice a b c) l = lb_delslice a b c l) /\
  (forall l, gen_stream l = lb_stream l) /\
  (forall names l, gen_select names l = (l, Ok (lb_select names l))).
Proof.
  exact (conj gen_record_eq (conj gen_pop_eq (conj gen_delitem_int_eq (conj gen_delitem_slice_eq
           (conj gen_stream_eq gen_select_eq))))).
Qed.

Lemma gen_stats_methods_are_model : forall (A B C Args : Type),
  (forall nm (f : Args -> list B -> C) a (s : stats A B C), gen_st_register nm f a s = (st_register nm f a s, Ok tt)) /\
  (forall data (s : stats A B C), NoDup (map fst (s_funs s)) -> gen_st_compile data s = (s, Ok (st_compile s data))) /\
  (forall data (m : mstats A B C), NoDup (map fst m) -> funs_distinct m ->
     gen_ms_compile data m = (m, Ok (ms_compile m data))) /\
  (forall nm (f : Args -> list B -> C) a (m : mstats A B C), gen_ms_register nm f a m = (ms_register nm f a m, Ok tt)).
Proof.
  intros A B C Args.
  exact (conj (@gen_st_register_eq A B C Args) (conj (@gen_st_compile_eq A B C) (conj (@gen_ms_compile_eq A B C)
           (@gen_ms_register_eq A B C Args)))).
Qed.

(* wf_hist h: the keyword dictionaries of the record operations have distinct keys at every level (wf_dict), as
   every Python dict has *)
Lemma gen_history_is_model : forall h s, wf_hist h ->
  gen_run s h = run s h /\ gen_final s h = final s h /\ gen_outs s h = outs s h.
Proof. intros h s W. exact (conj (gen_run_eq h s W) (conj (gen_final_eq h s W) (gen_outs_eq h s W))). Qed.

Lemma gen_records_in_order : forall h : list op, wf_hist h ->
  let l := st_lb (gen_final init_state h) in
  StronglySorted lt (ids l) /\
  forall u e, In (u, e) (recs l) ->
    exists infos, nth_error (recorded h) u = Some infos /\ e = scalars infos.
Proof. intros h W. cbv zeta. rewrite gen_final_eq by auto. exact (records_in_order h). Qed.

Lemma gen_select_columns : forall (l : lb) (names : list name),
  (forall nm, names = [nm] -> gen_select names l = (l, Ok (Sel1 (column nm l)))) /\
  (length names <> 1%nat -> gen_select names l = (l, Ok (SelN (map (fun nm => column nm l) names)))).
Proof.
  intros l names. split.
  - intros nm ->. rewrite gen_select_eq. now rewrite select_one.
  - intro H. rewrite gen_select_eq. now rewrite select_many.
Qed.

Lemma gen_chapter_aligned : forall S h path c,
  wf_hist h -> uniform S h ->
  find_path path (st_lb (gen_final init_state h)) = Some c ->
  let l := st_lb (gen_final init_state h) in
  ids c = ids l /\
  (forall u e e', In (u, e) (recs l) -> In (u, e') (recs c) ->
     forall k z, lookup k e = Some z -> lookup k e' = Some z).
Proof. intros S h path c W U. cbv zeta. rewrite gen_final_eq by auto. intro F. exact (chapter_aligned S h path c U F). Qed.

Lemma gen_delete_exact_index : forall S h i,
  wf_hist h -> uniform S h ->
  let s := gen_final init_state h in
  let l := st_lb s in
  let n := zlen (recs l) in
  (- n <= i < n ->
     exists l' item, py_get (recs l) i = Some item /\
       gen_step s (ODelItem i) = (mkstate l' (st_next s), ONone) /\
       gen_step s (OPop (Some i)) = (mkstate l' (st_next s), OItem (fst item) (snd item)) /\
       recs l' = remove_nth (Z.to_nat (norm_index i n)) (recs l) /\
       aligned (st_next s) l') /\
  (~ (- n <= i < n) ->
     gen_step s (ODelItem i) = (s, OErr IndexError) /\ gen_step s (OPop (Some i)) = (s, OErr IndexError)).
Proof. intros S h i W U. cbv zeta. rewrite gen_final_eq, !gen_step_eq by (auto; exact I). exact (delete_index_exact S h i U). Qed.

Lemma gen_delete_exact_slice : forall S h a b st,
  wf_hist h -> uniform S h ->
  let s := gen_final init_state h in
  let l := st_lb s in
  (match st with Some 0 => False | _ => True end ->
     exists l', gen_step s (ODelSlice a b st) = (mkstate l' (st_next s), ONone) /\
       recs l' = del_positions (slice_idx a b (match st with None => 1 | Some x => x end) (zlen (recs l))) (recs l) /\
       aligned (st_next s) l') /\
  (st = Some 0 -> gen_step s (ODelSlice a b st) = (s, OErr ValueError)).
Proof. intros S h a b st W U. cbv zeta. rewrite gen_final_eq, !gen_step_eq by (auto; exact I). exact (delete_slice_exact S h a b st U). Qed.

Lemma gen_stream_delivers_pending : forall S h,
  wf_hist h -> uniform S h ->
  let s := gen_final init_state h in
  (forall d hf, snd (gen_step s OStream) = OText d hf ->
     d = skipn (Z.to_nat (buff (st_lb s))) (ids (st_lb s)) /\ hf = (buff (st_lb s) =? 0) && logh (st_lb s)) /\
  (recs (st_lb s) <> [] -> exists d hf, snd (gen_step s OStream) = OText d hf).
Proof.
  intros S h W U. cbv zeta. rewrite gen_final_eq, !gen_step_eq by (auto; exact I). split.
  - intros d hf H. exact (stream_delivers_pending S h d hf U H).
  - exact (stream_no_loss S h U).
Qed.

Lemma gen_compile_applies_all : forall (A B C Args : Type) (s : stats A B C) (data : list A),
  NoDup (map fst (s_funs s)) ->
  gen_st_compile data s = (s, Ok (map (fun nf => (fst nf, snd nf (map (s_key s) data))) (s_funs s))) /\
  (forall nm (f : Args -> list B -> C) a,
     exists s', gen_st_register nm f a s = (s', Ok tt) /\ NoDup (map fst (s_funs s')) /\
       exists r, gen_st_compile data s' = (s', Ok r) /\ lookup nm r = Some (f a (map (s_key s) data)) /\
         forall nm', nm' <> nm -> lookup nm' r = lookup nm' (st_compile s data)).
Proof.
  intros A B C Args s data ND. split; [now rewrite gen_st_compile_eq|].
  intros nm f a. exists (st_register nm f a s). split; [apply gen_st_register_eq|].
  assert (ND' := register_NoDup s nm f a ND). split; [exact ND'|].
  exists (st_compile (st_register nm f a s) data). split; [now apply gen_st_compile_eq|].
  split; [apply compile_register_same|intros; now apply compile_register_other].
Qed.

Lemma gen_multi_compile_per_name : forall (A B C Args : Type) (m : mstats A B C) (data : list A),
  NoDup (map fst m) -> funs_distinct m ->
  exists r, gen_ms_compile data m = (m, Ok r) /\ map fst r = map fst m /\
    (forall nm, lookup nm r = option_map (fun s => st_compile s data) (lookup nm m)) /\
    (forall nm (f : Args -> list B -> C) a,
       exists m', gen_ms_register nm f a m = (m', Ok tt) /\
         forall k, lookup k m' = option_map (st_register nm f a) (lookup k m)).
Proof.
  intros A B C Args m data ND FD. exists (ms_compile m data). split; [now apply gen_ms_compile_eq|].
  split; [apply ms_compile_names|]. split; [apply ms_compile_lookup|].
  intros nm f a. exists (ms_register nm f a m). split; [apply gen_ms_register_eq|]. intros; apply ms_register_lookup.
Qed.
