(* C13 — tie (T): the theorem about the weights of the list model at Coq's real numbers, transferred to the
   REGENERATED computeParams through Proofs/C13_gen_equiv.v. *)
From Coq Require Import List Reals.
From DV Require Import Model.C13_CMAexec Model.C13_GenRt Gen.C13_gen Proofs.C13_gen_equiv Proofs.C13_WeightsR.
Import ListNotations.

Lemma gen_weights_pos_noninc_sum1_R :
  forall (dim lambda_ : nat) (chiN : R) (k : kargs),
    let mu := getd (k_mu k) (Nat.div lambda_ 2) in
    (1 <= mu)%nat ->
    let w := p_weights (gen_computeParams RNum dim lambda_ chiN k) in
    length w = mu /\
    (forall i, (i < mu)%nat -> (0 < nth i w 0)%R) /\
    (forall i j, (i <= j < mu)%nat -> (nth j w 0 <= nth i w 0)%R) /\
    vsum RNum w = 1%R.
Proof.
  intros dim lambda_ chiN k. rewrite gen_computeParams_eq. exact (weights_pos_noninc_sum1_R dim lambda_ chiN k).
Qed.
