(* C14 — StrategyActiveOnePlusLambda over whole histories: invA stays the inverse of A through the
   covariance updates and the constraint updates (the latter under the contract of numpy.linalg.inv,
   a hypothesis on the recorded oracle values). *)
From Coq Require Import ZArith.
From mathcomp Require Import all_ssreflect all_algebra.
From DV Require Import Model.C14_exec Proofs.C14_RankOne Proofs.C14_Elitist Proofs.C14_Active Proofs.C14_MO Proofs.C14_Refine Proofs.C14_MOHistory.
Import Order.TTheory GRing.Theory Num.Theory.
Set Implicit Arguments. Unset Strict Implicit. Unset Printing Implicit Defensive.
Local Open Scope ring_scope.

Section ActiveHistory.
Variable R : rcfType.
Variable exp_ : R -> R.
Variable round_ : R -> R.
Notation RO := (ROps exp_ round_).
Variable n : nat.
Variable P : aparams (T:=R).
Hypothesis ccovp01 : 0 < ap_ccovp P < 1.
Hypothesis d_lt1 : ap_ccovp P * (1 + ap_cc P * (2%:R - ap_cc P)) < 1.
Hypothesis ccovn0 : 0 <= ap_ccovn P.
Notation aindR := (aind (T:=R)).
Notation mx := (mx_of (R:=R) n).

Definition cvecs_ok (st : astate (T:=R)) : bool :=
  match as_cvecs st with None => true | Some m => all (wfv n) m end.

Definition ainv (st : astate (T:=R)) : Prop :=
  [/\ wfm n (as_A st), wfm n (as_invA st), wfv n (as_pc st), cvecs_ok st &
      mx (as_invA st) *m mx (as_A st) = 1%:M].

Lemma all_map2_r (A B : Type) (p : pred B) (f : A -> B -> B) u v :
  (forall a b, p b -> p (f a b)) -> all p v -> all p (map2 f u v).
Proof.
move=> h; elim: u v => [|a u IH] [|b v] //= /andP[hb hv].
by rewrite h //= IH.
Qed.

Lemma all_zip_snd (A : Type) (p : pred (seq R)) (u : seq A) v :
  all p v -> all (fun bw : A * seq R => p bw.2) (zip u v).
Proof. by elim: u v => [|a u IH] [|b v] //= /andP[-> /IH ->]. Qed.

Lemma wfm_mdivs (A : seq (seq R)) c : wfm n A -> wfm n (mdivs RO A c).
Proof.
case/andP=> sA /allP h; rewrite /wfm /mdivs List_mapE size_map sA /=.
by apply/allP => r /mapP[x /h xin ->]; rewrite wfv_vdivs.
Qed.

Lemma wfm_zero : wfm n (List.repeat (zeros RO n) n).
Proof.
rewrite /wfm !List_repeatE size_nseq eqxx /=.
by apply/allP => v /nseqP[-> _]; rewrite /wfv /zeros List_repeatE size_nseq.
Qed.

Lemma wfm_fold_madd (terms : seq (seq (seq R))) S0 :
  wfm n S0 -> all (wfm n) terms -> wfm n (List.fold_left (madd RO) terms S0).
Proof.
elim: terms S0 => //= t terms IH S0 w0 /andP[wt wts].
by apply: IH => //; exact: wfm_madd.
Qed.

(* _infeasible_update: what the oracle value must satisfy *)
Definition inv_ok1 (st : astate (T:=R)) (ind : aindR) (inv : option (seq (seq R))) : Prop :=
  match inv, (infeasible_update RO n P st ind inv).2 with
  | Some iA, Some A' => wfm n iA /\ mx iA *m mx A' = 1%:M
  | _, _ => True
  end.

Lemma infeasible_update_ainv st ind inv :
  ainv st -> wfv n (ai_y ind) -> inv_ok1 st ind inv -> ainv (infeasible_update RO n P st ind inv).1.
Proof.
move=> [wA wi wpc wc ok] wy; rewrite /inv_ok1 /infeasible_update.
case: (f_cv (ai_fit ind)) => [cv|] //=.
set cvecs0 := match as_cvecs st with None => _ | Some m => m end.
have wc0 : all (wfv n) cvecs0.
  rewrite /cvecs0; move: wc; rewrite /cvecs_ok; case: (as_cvecs st) => // _.
  by rewrite List_repeatE; apply/allP => v /nseqP[-> _]; rewrite /wfv /zeros List_repeatE size_nseq.
set cvecs := map2 _ _ cvecs0.
have wcv : all (wfv n) cvecs.
  apply: all_map2_r wc0 => b v wv; case: b => //.
  by apply: wfv_map2; rewrite wfv_vscale.
set A' := msub RO _ _.
have wA' : wfm n A'.
  apply: wfm_msub => //; apply: wfm_mscale; apply: wfm_fold_madd; first exact: wfm_zero.
  rewrite !List_filterE !List_mapE !List_combineE.
  have wW : all (wfv n) [seq mv RO (as_invA st) v | v <- cvecs].
    by rewrite all_map; apply: sub_all wcv => v _; exact: wfv_mv.
  apply: (@all_map2 _ _ _ _ _ (fun bw : bool * seq R => wfv n bw.2) (wfv n)).
  - by move=> bw v wb wv; apply: wfm_mdivs; exact: wfm_outer.
  - by rewrite all_filter; apply: sub_all (all_zip_snd cv wW) => bw /= ->; rewrite implybT.
  - by rewrite all_map all_filter; apply: sub_all (all_zip_snd cv wcv) => bv /= ->; rewrite implybT.
case: inv => [iA|] /=; last by move=> _; split.
by case=> wiA okA; split.
Qed.


(* all constraint updates of one call of update *)
Fixpoint inf_ok (st : astate (T:=R)) (inds : seq aindR) (invs : seq (option (seq (seq R)))) : Prop :=
  match inds with
  | [::] => True
  | ind :: rest =>
      [/\ wfv n (ai_y ind), inv_ok1 st ind (List.hd None invs) &
          inf_ok (infeasible_update RO n P st ind (List.hd None invs)).1 rest (List.tl invs)]
  end.

Lemma infeasible_all_ainv st inds invs :
  ainv st -> inf_ok st inds invs -> ainv (infeasible_all RO n P st inds invs).1.
Proof.
elim: inds st invs => [|ind inds IH] st invs //= ai [wy ok1 rest].
have a1 := infeasible_update_ainv ai wy ok1.
move: rest a1; case: (infeasible_update _ _ _ _ _ _) => st1 ap /= rest a1.
by have := IH _ _ a1 rest; case: (infeasible_all _ _ _ _ _ _) => st2 aps.
Qed.

Lemma rank1update_cvecs st ind ps : as_cvecs (rank1update RO P st ind ps) = as_cvecs st.
Proof.
rewrite /rank1update; cbv zeta.
case: (parent_le RO st (ai_fit ind)); first by case: ifP.
by case: ifP.
Qed.

(* hypotheses on one call of update: shapes of the recorded vectors, the non-zero vector of the
   covariance branch taken, the contract of the recorded inverses *)
Definition upd_ok (st : astate (T:=R)) (pop : seq aindR) (invs : seq (option (seq (seq R)))) : Prop :=
  [/\ all (fun i : aindR => wfv n (ai_y i) && wfv n (ai_z i)) pop,
      (forall best ps w, r1_w exp_ round_ P st best ps = Some w -> nrm2 (vec_of n w) != 0) &
      inf_ok (active_update_rank1 RO P st pop) [seq i <- pop | ~~ f_valid (ai_fit i)] invs].

Lemma active_update_rank1_ainv st pop :
  ainv st -> all (fun i : aindR => wfv n (ai_y i) && wfv n (ai_z i)) pop ->
  (forall best ps w, r1_w exp_ round_ P st best ps = Some w -> nrm2 (vec_of n w) != 0) ->
  ainv (active_update_rank1 RO P st pop).
Proof.
move=> ai wpop nz; rewrite /active_update_rank1; cbv zeta; rewrite List_filterE.
set sorted := sort_desc _ _.
have sub : all (fun i : aindR => wfv n (ai_y i) && wfv n (ai_z i)) sorted.
  have h : all (fun i : aindR => wfv n (ai_y i) && wfv n (ai_z i)) [seq i <- pop | f_valid (ai_fit i)].
    by rewrite all_filter; apply: sub_all wpop => i /= ->; rewrite implybT.
  by rewrite /sorted (perm_all _ (perm_sort_desc _ _)).
case E: sorted sub => [|best rest] // /andP[/andP[wy wz] _].
case: ai => wA wi wpc wc ok.
set ps := odiv RO _ _.
have [w1 w2 w3 ok' _] := @rank1update_factors _ exp_ round_ n P st best ps wA wi wpc wy wz ok ccovp01 d_lt1 ccovn0 (nz best ps).
by split=> //; rewrite /cvecs_ok rank1update_cvecs.
Qed.


Theorem active_update_ainv st pop invs :
  ainv st -> upd_ok st pop invs -> ainv (active_update RO n P st pop invs).1.
Proof.
move=> ai [wpop nz iok]; rewrite /active_update; cbv zeta; rewrite List_filterE.
have a1 := active_update_rank1_ainv ai wpop nz.
have := infeasible_all_ainv a1 iok.
by case: (infeasible_all _ _ _ _ _ _) => st2 aps [? ? ? ? ?]; split.
Qed.

(* histories *)
Variable evalfit : seq R -> fitness (T:=R).

Fixpoint adraws_ok (st : astate (T:=R)) (draws : seq (adraws (T:=R))) : Prop :=
  match draws with
  | [::] => True
  | d :: rest =>
      match active_population RO n P evalfit st d with
      | None => True
      | Some pop =>
          upd_ok st pop (ad_invs d) /\
          adraws_ok (active_update RO n P st pop (ad_invs d)).1 rest
      end
  end.

Theorem active_history_ainv st0 draws log st log' :
  active_run RO n P evalfit st0 draws log = Some (st, log') ->
  ainv st0 -> adraws_ok st0 draws -> ainv st.
Proof.
elim: draws st0 log => [|d draws IH] st0 log /=; first by case=> <- _.
case: (active_population _ _ _ _ _ _) => [pop|] // Hrun ai [uok rest].
exact: (IH _ _ Hrun (active_update_ainv ai uok) rest).
Qed.

(* the state built by __init__ *)
Theorem active_init_ainv parent pfit sigma :
  ainv (active_init RO n P parent pfit sigma).
Proof.
rewrite /active_init; split=> //=; rewrite ?wfm_identity //.
- by rewrite /wfv /zeros List_repeatE size_nseq.
- by rewrite mx_of_identity mul1mx.
Qed.

End ActiveHistory.
