(* C14 — StrategyMultiObjective: _select (whole fronts, then removal by the indicator; exactly mu;
   partition), meaning of the fronts of the model (peeling), alignment of the per-parent lists
   after update, success rates in [0,1] and step sizes positive.  The factor identities of
   _rankOneUpdate are in Proofs/C14_RankOne.v. *)
From Coq Require Import ZArith.
From mathcomp Require Import all_ssreflect all_algebra.
From mathcomp Require Import ring.
From DV Require Import Model.C14_exec Proofs.C14_Elitist.
Import Order.TTheory GRing.Theory Num.Theory.
Set Implicit Arguments. Unset Strict Implicit. Unset Printing Implicit Defensive.

(* ======================================================================================== *)
(* _select: pure list manipulation, any scalar type                                          *)
(* ======================================================================================== *)
Section Select.

Lemma List_appE (A : Type) (a b : seq A) : (a ++ b)%list = a ++ b.
Proof. by []. Qed.
Lemma List_lengthE (A : Type) (a : seq A) : length a = size a.
Proof. by []. Qed.
Lemma List_nthE (A : Type) (d : A) l i : List.nth i l d = nth d l i.
Proof. by elim: l i => [|x l IH] [|i] //=. Qed.

Lemma lebE m n : Nat.leb m n = (m <= n).
Proof. by elim: m n => [|m IH] [|n] //=; rewrite IH. Qed.
Lemma ltbE m n : Nat.ltb m n = (m < n).
Proof. by rewrite /Nat.ltb lebE. Qed.
Lemma eqbE m n : Nat.eqb m n = (m == n).
Proof. by elim: m n => [|m IH] [|n] //=; rewrite IH. Qed.

Notation fronts_t := (seq (seq nat)).

(* once the mid front is taken, every further front is not chosen *)
Lemma fill_rest mu (fronts : fronts_t) chosen m nc :
  fill_fronts mu fronts chosen (Some m) nc true = (chosen, Some m, nc ++ flatten fronts).
Proof.
elim: fronts nc => [|f fronts IH] nc /=; first by rewrite cats0.
by rewrite andbF List_appE IH -catA.
Qed.

(* once chosen is full (and no mid front was needed), likewise *)
Lemma fill_done mu (fronts : fronts_t) chosen nc :
  size chosen = mu -> fill_fronts mu fronts chosen None nc false = (chosen, None, nc ++ flatten fronts).
Proof.
move=> sz; elim: fronts nc => [|f fronts IH] nc /=; first by rewrite cats0.
rewrite !List_lengthE !List_appE lebE ltbE plusE sz andbT.
case: f => [|x f] /=; first by rewrite addn0 leqnn cats0 IH.
by rewrite -{2}[mu]addn0 leq_add2l /= ltnn IH -catA.
Qed.

(* number of leading fronts that fit entirely *)
Fixpoint nfit (mu : nat) (fronts : fronts_t) (acc : nat) : nat :=
  match fronts with
  | [::] => 0
  | f :: r => if acc + size f <= mu then (nfit mu r (acc + size f)).+1 else 0
  end.

Lemma fill_fronts_spec mu (fronts : fronts_t) chosen nc :
  size chosen <= mu ->
  let j := nfit mu fronts (size chosen) in
  let ch := chosen ++ flatten (take j fronts) in
  fill_fronts mu fronts chosen None nc false =
    if j == size fronts then (ch, None, nc)
    else if size ch < mu then (ch, Some (nth [::] fronts j), nc ++ flatten (drop j.+1 fronts))
    else (ch, None, nc ++ flatten (drop j fronts)).
Proof.
elim: fronts chosen nc => [|f fronts IH] chosen nc le_mu /=; first by rewrite cats0.
rewrite !List_lengthE !List_appE lebE ltbE plusE andbT; case: ifP => fit.
  have le' : size (chosen ++ f) <= mu by rewrite size_cat.
  by rewrite IH // size_cat /= eqSS catA.
rewrite /= cats0 drop0 /=.
case: ltnP => lt_mu; first by rewrite fill_rest.
have sz : size chosen = mu by apply/eqP; rewrite eqn_leq le_mu lt_mu.
by rewrite (fill_done _ _ sz) catA.
Qed.

Lemma nfit_le mu fronts acc : nfit mu fronts acc <= size fronts.
Proof. by elim: fronts acc => //= f r IH acc; case: ifP => // _; rewrite ltnS; exact: IH. Qed.

Lemma nfit_size mu fronts acc : acc + size (flatten (take (nfit mu fronts acc) fronts)) <= mu = (acc <= mu).
Proof.
elim: fronts acc => [|f r IH] acc /=; first by rewrite addn0.
case: ifP => fit /=; last by rewrite addn0.
rewrite size_cat addnA IH fit.
by symmetry; apply: leq_trans fit; rewrite leq_addr.
Qed.

(* the front that does not fit really does not fit *)
Lemma nfit_next mu fronts acc : nfit mu fronts acc < size fronts ->
  mu < acc + size (flatten (take (nfit mu fronts acc) fronts)) + size (nth [::] fronts (nfit mu fronts acc)).
Proof.
elim: fronts acc => //= f r IH acc; case: ifP => fit /=.
  by rewrite ltnS => /IH; rewrite size_cat addnA.
by move=> _; rewrite addn0 ltnNge fit.
Qed.


(* ---- removal by the indicator ---- *)
Lemma size_remove_nth (A : Type) (l : seq A) i : i < size l -> size (remove_nth l i) = (size l).-1.
Proof.
elim: l i => [|x l IH] [|i] //=; rewrite ltnS => h.
by rewrite IH // prednK // (leq_ltn_trans _ h).
Qed.

Lemma perm_remove_nth (l : seq nat) i : i < size l -> perm_eq (nth 0 l i :: remove_nth l i) l.
Proof.
elim: l i => [|x l IH] [|i] //=; rewrite ltnS => /IH h.
have -> : [:: nth 0 l i, x & remove_nth l i] = [:: nth 0 l i; x] ++ remove_nth l i by [].
have -> : x :: l = [:: x] ++ l by [].
rewrite -(perm_cons x) in h.
apply: perm_trans h.
by rewrite -[_ :: _ :: remove_nth l i]/([:: x; nth 0 l i] ++ remove_nth l i) perm_cat2r
   -[[:: nth 0 l i; x]]/([:: nth 0 l i] ++ [:: x]) perm_catC.
Qed.

(* every index returned by the indicator is a position of the current mid front *)
Fixpoint hv_ok (n : nat) (mid : seq nat) (hv : seq nat) : bool :=
  match n with
  | 0 => true
  | n'.+1 => (head 0 hv < size mid) && hv_ok n' (remove_nth mid (head 0 hv)) (behead hv)
  end.

Lemma hv_removals_spec n mid hv removed seen :
  hv_ok n mid hv -> n <= size mid ->
  let: (mid', removed', seen') := hv_removals n mid hv removed seen in
  [/\ size mid' = size mid - n, perm_eq (mid' ++ removed') (mid ++ removed) &
      size seen' = size seen + n].
Proof.
elim: n mid hv removed seen => [|n IH] mid hv removed seen /=.
  by move=> _ _; rewrite subn0 addn0.
have -> : List.hd 0 hv = head 0 hv by case: hv.
have -> : List.tl hv = behead hv by case: hv.
rewrite List_nthE !List_appE.
move=> /andP[inr ok] le.
have le' : n <= size (remove_nth mid (head 0 hv)).
  by rewrite size_remove_nth // -ltnS prednK // (leq_ltn_trans _ inr).
have := IH _ _ (removed ++ [:: nth 0 mid (head 0 hv)]) (seen ++ [:: mid]) ok le'.
case: (hv_removals _ _ _ _ _) => [[mid' removed'] seen'] [sz pm ss]; split.
- by rewrite sz size_remove_nth // -subn1 -subnDA add1n.
- apply: (perm_trans pm).
  by rewrite catA perm_catC /= -cat_cons perm_cat2r perm_remove_nth.
- by rewrite ss size_cat /= addn1 addSnnS.
Qed.


Variables (T : Type) (Op : Ops T).

(* what _select returns, in terms of the fronts of the non-dominated sorting: whole fronts while
   they fit, then the next front reduced by repeatedly removing the individual designated by
   the indicator; everything else is not chosen *)
Theorem mo_select_spec mu (wvs : seq (seq T)) hv :
  mu < size wvs -> size (flatten (nd_fronts Op wvs)) = size wvs ->
  let fronts := nd_fronts Op wvs in
  let j := nfit mu fronts 0 in
  let ch := flatten (take j fronts) in
  j < size fronts /\
  mo_select Op mu wvs hv =
    if size ch == mu then (ch, flatten (drop j fronts), [::])
    else let fj := nth [::] fronts j in
         let k := mu - size ch in
         let: (m', rem, seen) := hv_removals (size fj - k) fj hv [::] [::] in
         (ch ++ m', flatten (drop j.+1 fronts) ++ rem, seen).
Proof.
move=> lt_mu part fronts j ch.
have szch : size ch <= mu by have := nfit_size mu fronts 0; rewrite !add0n leq0n.
have jlt : j < size fronts.
  have := nfit_le mu fronts 0; rewrite leq_eqVlt => /orP[/eqP E|//].
  by move: szch; rewrite /ch /j E take_size part leqNgt lt_mu.
split=> //; rewrite /mo_select List_lengthE lebE leqNgt lt_mu /=.
rewrite (@fill_fronts_spec mu (nd_fronts Op wvs) [::] [::] (leq0n mu)) /= -/fronts -/j -/ch.
rewrite (ltn_eqF jlt); case: ltnP => lt /=; rewrite !List_lengthE ?minusE.
  rewrite (ltn_eqF lt).
  case E: (mu - size ch) => [|k']; first by move: lt; rewrite -subn_gt0 E.
  by rewrite -E.
have -> : size ch == mu by rewrite eqn_leq szch lt.
by rewrite (eqP (_ : mu - size ch == 0)) // subn_eq0.
Qed.

Theorem mo_select_exactly_mu mu (wvs : seq (seq T)) hv :
  mu < size wvs -> size (flatten (nd_fronts Op wvs)) = size wvs ->
  let fronts := nd_fronts Op wvs in
  let j := nfit mu fronts 0 in
  let fj := nth [::] fronts j in
  let k := mu - size (flatten (take j fronts)) in
  hv_ok (size fj - k) fj hv ->
  let: (chosen, not_chosen, seen) := mo_select Op mu wvs hv in
  size chosen = mu /\ perm_eq (chosen ++ not_chosen) (flatten fronts).
Proof.
move=> lt_mu part fronts j fj k ok.
have [jlt ->] := mo_select_spec hv lt_mu part; rewrite -/fronts -/j -/fj -/k.
have szch : size (flatten (take j fronts)) <= mu by have := nfit_size mu fronts 0; rewrite !add0n leq0n.
case: eqP => [E|ne].
  by rewrite -flatten_cat cat_take_drop.
have lt : size (flatten (take j fronts)) < mu by rewrite ltn_neqAle szch andbT; apply/eqP.
have nxt : mu < size (flatten (take j fronts)) + size fj by have := nfit_next jlt; rewrite add0n.
have kle : k <= size fj by rewrite /k leq_subLR ltnW.
have := hv_removals_spec [::] [::] ok (leq_subr _ _).
cbv zeta; rewrite -/fj -/k.
case: (hv_removals _ _ _ _ _) => [[m' rem] seen] [sz pm ss] /=; split.
- by rewrite size_cat sz subKn // /k subnKC.
- have -> : flatten fronts = flatten (take j fronts) ++ fj ++ flatten (drop j.+1 fronts).
    by rewrite -{1}(cat_take_drop j fronts) flatten_cat (drop_nth [::] jlt) /=.
  rewrite -catA perm_cat2l perm_catCA perm_sym perm_catC perm_cat2l perm_sym.
  by move: pm; rewrite cats0.
Qed.

End Select.

(* ======================================================================================== *)
(* non-dominated sorting of the model: the fronts partition the candidates                   *)
(* ======================================================================================== *)
Section Fronts.
Variable R : rcfType.
Variable exp_ : R -> R.
Variable round_ : R -> R.
Notation RO := (ROps exp_ round_).
Notation item := (nat * seq R)%type.

Lemma count_sort_desc_gen (A : Type) (lt : A -> A -> bool) P l : count P (sort_desc lt l) = count P l.
Proof.
elim: l => //= x l <-; elim: (sort_desc lt l) => //= y s IH.
by case: ifP => //= _; rewrite IH addnCA.
Qed.

Lemma perm_sort_desc (A : eqType) (lt : A -> A -> bool) l : perm_eq (sort_desc lt l) l.
Proof. by apply/permP => P; exact: count_sort_desc_gen. Qed.

Definition sumv (v : seq R) : R := (\sum_(x <- v) x)%R.

Lemma dominates_sum (a b : seq R) s : size a = size b -> dominates RO a b s ->
  (sumv b <= sumv a)%R /\ (~~ s -> (sumv b < sumv a)%R).
Proof.
elim: a b s => [|x a IH] [|y b] s //=; first by move=> _ ->; rewrite /sumv !big_nil.
case=> sz; case: ltP => // yx /(IH _ _ sz) [le lt].
rewrite /sumv !big_cons; split; first exact: ler_add.
move=> ns; move: yx lt; rewrite le_eqVlt => /orP[/eqP -> | ylx] lt.
  by rewrite ltr_add2l; apply: lt; rewrite ltxx orbF.
exact: ltr_le_add.
Qed.

Definition sum_le (a b : item) : bool := (sumv a.2 <= sumv b.2)%R.
Lemma sum_le_total a b : sum_le a b || sum_le b a. Proof. exact: le_total. Qed.
Lemma sum_le_trans b a c : sum_le a b -> sum_le b c -> sum_le a c. Proof. exact: le_trans. Qed.

Lemma List_forallbE (A : Type) (p : A -> bool) l : List.forallb p l = all p l.
Proof. by elim: l => //= x l ->. Qed.

(* a non-empty candidate list (weighted values of one common length) has an undominated member *)
Lemma has_undominated d (rest : seq item) :
  all (fun x : item => size x.2 == d) rest -> rest != [::] -> has (undominated RO rest) rest.
Proof.
move=> szs ne.
case fm: (first_max sum_le rest) => [m|]; last by rewrite (first_max_none fm) in ne.
have [min ub] := first_max_ub sum_le_total sum_le_trans fm.
apply/hasP; exists m => //; rewrite /undominated List_forallbE; apply/allP => y yin.
apply/negP => dom.
have sz : size y.2 = size m.2 by rewrite (eqP (allP szs _ yin)) (eqP (allP szs _ min)).
have [_ /(_ isT)] := dominates_sum sz dom.
by rewrite ltNge; move: (allP ub _ yin); rewrite /sum_le => ->.
Qed.

Lemma peel_perm d fuel (rest : seq item) :
  all (fun x : item => size x.2 == d) rest -> size rest <= fuel ->
  perm_eq (flatten (peel RO fuel rest)) rest.
Proof.
elim: fuel rest => [|fuel IH] rest szs; first by rewrite leqn0 size_eq0 => /eqP ->.
case E: rest => [|x0 rest0] //; rewrite -E => le /=.
have ne : rest != [::] by rewrite E.
rewrite E -E !List_filterE /=.
set front := filter _ rest; set rest' := filter _ rest.
have szs' : all (fun x : item => size x.2 == d) rest' by rewrite all_filter; apply: sub_all szs => x /= ->; rewrite implybT.
have lt' : size rest' <= fuel.
  rewrite -ltnS (leq_trans _ le) // /rest' size_filter -(count_predC (undominated RO rest) rest).
  by rewrite -[X in X < _]add0n ltn_add2r -has_count (has_undominated szs ne).
rewrite (perm_trans (perm_cat (perm_sort_desc _ _) (IH _ szs' lt'))) //.
by rewrite /front /rest' perm_filterC.
Qed.

Lemma List_seqE a n : List.seq a n = iota a n.
Proof. by elim: n a => //= n IH a; rewrite IH. Qed.
Lemma List_combineE (A B : Type) (l : seq A) (m : seq B) : List.combine l m = zip l m.
Proof. by elim: l m => [|x l IH] [|y m] //=; rewrite IH. Qed.

(* the fronts of the model's sorting partition the candidate indices *)
Theorem nd_fronts_perm d (wvs : seq (seq R)) :
  all (fun w => size w == d) wvs -> perm_eq (flatten (nd_fronts RO wvs)) (iota 0 (size wvs)).
Proof.
move=> szs; rewrite /nd_fronts /index_list !List_mapE List_seqE List_combineE List_lengthE.
have -> : flatten [seq [seq i.1 | i <- f] | f <- peel RO (size wvs) (zip (iota 0 (size wvs)) wvs)] =
          [seq i.1 | i <- flatten (peel RO (size wvs) (zip (iota 0 (size wvs)) wvs))].
  by elim: (peel _ _ _) => //= f l ->; rewrite map_cat.
have szs' : all (fun x : item => size x.2 == d) (zip (iota 0 (size wvs)) wvs).
  elim: wvs (0%N) szs => [|w wvs IH] k //= /andP[-> /IH h] /=; exact: h.
have le : size (zip (iota 0 (size wvs)) wvs) <= size wvs by rewrite size_zip size_iota minnn.
rewrite (perm_trans (perm_map _ (peel_perm szs' le))) //.
by rewrite -/(unzip1 _) unzip1_zip // size_iota.
Qed.


(* meaning of the fronts: front i consists of candidates not dominated by any member of fronts
   >= i, and every member of a later front is dominated by some member of fronts >= i
   (peeling = non-domination rank) *)
Lemma peel_sound d fuel (rest : seq item) :
  all (fun x : item => size x.2 == d) rest -> size rest <= fuel ->
  forall i, i < size (peel RO fuel rest) ->
    let later := flatten (drop i (peel RO fuel rest)) in
    (forall x, x \in nth [::] (peel RO fuel rest) i -> undominated RO later x) /\
    (forall y, y \in flatten (drop i.+1 (peel RO fuel rest)) -> ~~ undominated RO later y).
Proof.
elim: fuel rest => [|fuel IH] rest szs //.
case E: rest => [|x0 rest0] //; rewrite -E => le.
have ne : rest != [::] by rewrite E.
rewrite [peel _ _ _]/= E -E !List_filterE.
set front := filter _ rest; set rest' := filter _ rest.
have szs' : all (fun x : item => size x.2 == d) rest' by rewrite all_filter; apply: sub_all szs => x /= ->; rewrite implybT.
have lt' : size rest' <= fuel.
  rewrite -ltnS (leq_trans _ le) // /rest' size_filter -(count_predC (undominated RO rest) rest).
  by rewrite -[X in X < _]add0n ltn_add2r -has_count (has_undominated szs ne).
have pm : perm_eq (sort_desc (fun a b : item => lex_lt RO a.2 b.2) front ++ flatten (peel RO fuel rest')) rest.
  rewrite (perm_trans (perm_cat (perm_sort_desc _ _) (peel_perm szs' lt'))) //.
  by rewrite /front /rest' perm_filterC.
have und_ext (l1 l2 : seq item) z : l1 =i l2 -> undominated RO l1 z = undominated RO l2 z.
  by move=> eq12; rewrite /undominated !List_forallbE; apply: eq_all_r.
case=> [_|i] /=.
  rewrite drop0 /=; split=> [x|y].
    by rewrite (perm_mem (perm_sort_desc _ _)) mem_filter (und_ext _ _ _ (perm_mem pm)) => /andP[].
  rewrite (perm_mem (peel_perm szs' lt')) mem_filter (und_ext _ _ _ (perm_mem pm)).
  by case/andP.
by rewrite ltnS => /(IH _ szs' lt').
Qed.

(* exactly mu survivors, for the model's own sorting *)
Theorem mo_select_exactly_mu_R d mu (wvs : seq (seq R)) hv :
  all (fun w => size w == d) wvs -> mu < size wvs ->
  let fronts := nd_fronts RO wvs in
  let j := nfit mu fronts 0 in
  let fj := nth [::] fronts j in
  let k := mu - size (flatten (take j fronts)) in
  hv_ok (size fj - k) fj hv ->
  let: (chosen, not_chosen, seen) := mo_select RO mu wvs hv in
  size chosen = mu /\ perm_eq (chosen ++ not_chosen) (iota 0 (size wvs)).
Proof.
move=> szs lt fronts j fj k ok.
have pm := nd_fronts_perm szs.
have part : size (flatten (nd_fronts RO wvs)) = size wvs by rewrite (perm_size pm) size_iota.
have := mo_select_exactly_mu lt part ok.
case: (mo_select _ _ _ _) => [[chosen not_chosen] seen] [sz pm2]; split=> //.
exact: perm_trans pm2 pm.
Qed.

End Fronts.

(* ======================================================================================== *)
(* update keeps the per-parent lists aligned with the surviving parents                      *)
(* ======================================================================================== *)
Section Aligned.
Variables (T : Type) (Op : Ops T).
Notation mindT := (mind (T:=T)).

(* the parameter record of a chosen offspring: a function of the pre-update state and of the
   offspring (its genotype and the index of its parent) only *)
Definition offspring_rec (P : mparams (T:=T)) (st : mstate (T:=T)) (ind : mindT) : mrec (T:=T) :=
  let p := mi_pidx ind in
  let cp := mp_cp P in let cc := mp_cc P in let ccov := mp_ccov P in
  let last_step := List.nth p (ms_sigmas st) (c0 Op) in
  let psucc := oadd Op (omul Op (osub Op (c1 Op) cp) (List.nth p (ms_psucc st) (c0 Op))) cp in
  let sigma := omul Op (List.nth p (ms_sigmas st) (c0 Op)) (mo_sig_factor Op P psucc) in
  let pc0 := List.nth p (ms_pc st) [::] in
  let: (pc, (invC, A)) :=
    if oltb Op psucc (mp_pthresh P) then
      let pc := vadd Op (vscale Op (osub Op (c1 Op) cc) pc0)
                     (vdivs Op (vscale Op (osqrt Op (omul Op cc (osub Op (c2 Op) cc)))
                                       (vsub Op (mi_x ind) (List.nth p (ms_parents st) [::])))
                            last_step) in
      (pc, mo_rank_one Op (List.nth p (ms_invC st) [::]) (List.nth p (ms_A st) [::]) (osub Op (c1 Op) ccov) ccov pc)
    else
      let pc := vscale Op (osub Op (c1 Op) cc) pc0 in
      let pc_weight := omul Op cc (osub Op (c2 Op) cc) in
      (pc, mo_rank_one Op (List.nth p (ms_invC st) [::]) (List.nth p (ms_A st) [::])
                       (oadd Op (osub Op (c1 Op) ccov) pc_weight) ccov pc) in
  mkMR sigma invC A pc psucc.

Lemma mo_loop_chosen_recs P st (chosen : seq mindT) psL sgL :
  (mo_loop_chosen Op P st chosen psL sgL).1.1 =
  [seq if mi_off ind then Some (offspring_rec P st ind) else None | ind <- chosen].
Proof.
elim: chosen psL sgL => //= ind chosen IH psL sgL.
case: (mi_off ind).
  rewrite /offspring_rec; cbv zeta.
  case: (if oltb Op _ _ then _ else _) => pc [invC A].
  set psL1 := set_nth _ _ _; set sgL1 := set_nth _ _ _.
  by have := IH psL1 sgL1; case: (mo_loop_chosen _ _ _ _ _ _) => [[recs p2] s2] /= ->.
by have := IH psL sgL; case: (mo_loop_chosen _ _ _ _ _ _) => [[recs p2] s2] /= ->.
Qed.

Lemma map2_map_r (A B C : Type) (h : A -> B -> C) (g : A -> B) l :
  map2 h l [seq g x | x <- l] = [seq h x (g x) | x <- l].
Proof. by elim: l => //= x l ->. Qed.

(* entry of a per-parent list for the surviving individual ind: the updated copy for an
   offspring ("o", p), the entry of parent p of the old list for a parent ("p", p) *)
Definition entry (P : mparams (T:=T)) (st : mstate (T:=T)) (X : Type) (f : mrec (T:=T) -> X)
                 (old : seq X) (d : X) (ind : mindT) : X :=
  if mi_off ind then f (offspring_rec P st ind) else List.nth (mi_pidx ind) old d.

(* the state after update, list by list: every per-parent list has one entry per surviving
   individual, in the order of the new parents, and entry i is determined by the tag of parent i *)
Theorem mo_update_core_aligned P st (chosen not_chosen : seq mindT) :
  let st' := mo_update_core Op P st chosen not_chosen in
  let: (recs, psL1, sgL1) := mo_loop_chosen Op P st chosen (ms_psucc st) (ms_sigmas st) in
  let: (psL, sgL) := mo_loop_not_chosen Op P not_chosen psL1 sgL1 in
  [/\ ms_parents st' = [seq mi_x ind | ind <- chosen] /\ ms_pfits st' = [seq mi_wv ind | ind <- chosen],
      ms_A st' = [seq entry P st (@mr_A T) (ms_A st) [::] ind | ind <- chosen] /\
      ms_invC st' = [seq entry P st (@mr_invC T) (ms_invC st) [::] ind | ind <- chosen],
      ms_pc st' = [seq entry P st (@mr_pc T) (ms_pc st) [::] ind | ind <- chosen],
      ms_psucc st' = [seq entry P st (@mr_psucc T) psL (c0 Op) ind | ind <- chosen] &
      ms_sigmas st' = [seq entry P st (@mr_sigma T) sgL (c0 Op) ind | ind <- chosen]].
Proof.
rewrite /mo_update_core.
have := mo_loop_chosen_recs P st chosen (ms_psucc st) (ms_sigmas st).
case: (mo_loop_chosen _ _ _ _ _ _) => [[recs psL1] sgL1] /= ->.
case: (mo_loop_not_chosen _ _ _ _ _) => psL sgL /=.
rewrite /pick /entry !map2_map_r !List_mapE.
by split=> //; try split; apply: eq_map => ind; case: (mi_off ind).
Qed.

Corollary mo_update_core_sizes P st (chosen not_chosen : seq mindT) :
  let st' := mo_update_core Op P st chosen not_chosen in
  [/\ size (ms_parents st') = size chosen, size (ms_sigmas st') = size chosen,
      size (ms_A st') = size chosen /\ size (ms_invC st') = size chosen,
      size (ms_pc st') = size chosen & size (ms_psucc st') = size chosen].
Proof.
move=> st'; have := mo_update_core_aligned P st chosen not_chosen; rewrite -/st'.
case: (mo_loop_chosen _ _ _ _ _ _) => [[recs psL1] sgL1].
case: (mo_loop_not_chosen _ _ _ _ _) => psL sgL [[-> _] [-> ->] -> -> ->].
by rewrite !size_map.
Qed.

End Aligned.

(* ======================================================================================== *)
(* success rates in [0,1] and step sizes positive in the multi-objective strategy            *)
(* ======================================================================================== *)
Section MORanges.
Local Open Scope ring_scope.
Variable R : rcfType.
Variable exp_ : R -> R.
Variable round_ : R -> R.
Hypothesis exp_pos : forall x, 0 < exp_ x.
Notation RO := (ROps exp_ round_).
Notation mindR := (mind (T:=R)).

Definition in01 (x : R) := 0 <= x <= 1.
Definition pos (x : R) := 0 < x.

Lemma all_set_nth (p : pred R) l i x : all p l -> ((i < size l)%nat -> p x) -> all p (set_nth l i x).
Proof.
elim: l i => [|y l IH] [|i] //= /andP[py pl] h; first by rewrite h.
by rewrite py IH.
Qed.

Lemma size_set_nth (A : Type) (l : seq A) i x : size (set_nth l i x) = size l.
Proof. by elim: l i => [|y l IH] [|i] //=; rewrite IH. Qed.

Lemma all_nth (p : pred R) l i : all p l -> (i < size l)%nat -> p (List.nth i l (c0 RO)).
Proof. by rewrite List_nthE => /all_nthP h lt; exact: h. Qed.

Lemma in01_nth l i : all in01 l -> in01 (List.nth i l (c0 RO)).
Proof.
move=> al; case: (ltnP i (size l)) => [lt|ge]; first exact: all_nth.
by rewrite List_nthE nth_default // /in01 c0E lexx ler01.
Qed.

Lemma one_nat : PtoR R 1 = 1.
Proof. by []. Qed.

Lemma succ01 (cp p : R) : 0 <= cp <= 1 -> in01 p -> in01 ((1 - cp) * p + cp).
Proof. by move=> c h; have := convex01 c h (_ : 0 <= 1 <= 1); rewrite mulr1 lexx ler01; apply. Qed.

Lemma fail01 (cp p : R) : 0 <= cp <= 1 -> in01 p -> in01 ((1 - cp) * p).
Proof. by move=> c h; have := convex01 c h (_ : 0 <= 0 <= 1); rewrite mulr0 addr0 lexx ler01; apply. Qed.

Section Loops.
Variables (P : mparams (T:=R)) (st : mstate (T:=R)).
Hypothesis cp01 : 0 <= mp_cp P <= 1.

Lemma sig_factor_pos ps : 0 < mo_sig_factor RO P ps.
Proof. by rewrite /mo_sig_factor /=. Qed.

Lemma mo_loop_chosen_ranges (chosen : seq mindR) psL sgL :
  all in01 psL -> all pos sgL -> size sgL = size psL ->
  let: (recs, psL', sgL') := mo_loop_chosen RO P st chosen psL sgL in
  [/\ all in01 psL', all pos sgL' & size sgL' = size psL' /\ size psL' = size psL].
Proof.
elim: chosen psL sgL => [|ind chosen IH] psL sgL //= a01 apos sz.
case: (mi_off ind); last first.
  by have := IH _ _ a01 apos sz; case: (mo_loop_chosen _ _ _ _ _ _) => [[recs p2] s2].
case: (if oltb RO _ _ then _ else _) => pc [invC A].
set psL1 := set_nth psL _ _; set sgL1 := set_nth sgL _ _.
have a1 : all in01 psL1.
  by apply: all_set_nth => // _; rewrite ?one_nat; apply: succ01 => //; exact: in01_nth.
have p1 : all pos sgL1.
  apply: all_set_nth => // lt; rewrite /pos /= mulr_gt0 ?sig_factor_pos //.
  exact: (all_nth apos lt).
have s1 : size sgL1 = size psL1 by rewrite !size_set_nth.
have := IH _ _ a1 p1 s1; case: (mo_loop_chosen _ _ _ _ _ _) => [[recs p2] s2] [? ? [? e]].
by split=> //; split=> //; rewrite e size_set_nth.
Qed.

Lemma mo_loop_not_chosen_ranges (not_chosen : seq mindR) psL sgL :
  all in01 psL -> all pos sgL -> size sgL = size psL ->
  let: (psL', sgL') := mo_loop_not_chosen RO P not_chosen psL sgL in
  [/\ all in01 psL', all pos sgL' & size sgL' = size psL' /\ size psL' = size psL].
Proof.
elim: not_chosen psL sgL => [|ind nc IH] psL sgL //= a01 apos sz.
case: (mi_off ind); last exact: IH.
set psL1 := set_nth psL _ _; set sgL1 := set_nth sgL _ _.
have a1 : all in01 psL1.
  by apply: all_set_nth => // _; rewrite ?one_nat; apply: fail01 => //; exact: in01_nth.
have p1 : all pos sgL1.
  apply: all_set_nth => // lt; rewrite /pos /= mulr_gt0 ?sig_factor_pos //.
  exact: (all_nth apos lt).
have s1 : size sgL1 = size psL1 by rewrite !size_set_nth.
have := IH _ _ a1 p1 s1; case: (mo_loop_not_chosen _ _ _ _ _) => p2 s2 [? ? [? e]].
by split=> //; split=> //; rewrite e size_set_nth.
Qed.

(* after update every success rate is in [0,1] and every step size positive *)
Theorem mo_update_core_ranges (chosen not_chosen : seq mindR) :
  all in01 (ms_psucc st) -> all pos (ms_sigmas st) -> size (ms_sigmas st) = size (ms_psucc st) ->
  all (fun ind : mindR => (mi_pidx ind < size (ms_sigmas st))%nat) chosen ->
  let st' := mo_update_core RO P st chosen not_chosen in
  all in01 (ms_psucc st') /\ all pos (ms_sigmas st').
Proof.
move=> a01 apos sz inr st'.
have := mo_update_core_aligned RO P st chosen not_chosen; rewrite -/st'.
have := mo_loop_chosen_ranges chosen a01 apos sz.
case: (mo_loop_chosen _ _ _ _ _ _) => [[recs psL1] sgL1] [a1 p1 [s1 e1]].
have := mo_loop_not_chosen_ranges not_chosen a1 p1 s1.
case: (mo_loop_not_chosen _ _ _ _ _) => psL sgL [a2 p2 [s2 e2]] [_ _ _ -> ->].
split; rewrite all_map.
  apply: (@sub_all _ predT) (all_predT _) => ind _ /=; rewrite /entry.
  case: ifP => _; last exact: in01_nth.
  rewrite /offspring_rec; cbv zeta; case: (if oltb RO _ _ then _ else _) => pc [invC A] /=.
  by rewrite ?c1E ?one_nat; apply: succ01 => //; exact: in01_nth.
apply: sub_all inr => ind lt /=; rewrite /entry.
case: ifP => _; last by apply: (all_nth p2); rewrite s2 e2 e1 -sz.
rewrite /offspring_rec; cbv zeta; case: (if oltb RO _ _ then _ else _) => pc [invC A] /=.
by rewrite /pos mulr_gt0 ?sig_factor_pos //; exact: (all_nth apos lt).
Qed.

End Loops.
End MORanges.
