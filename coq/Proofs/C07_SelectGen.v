(* C07 — _randomizedSelect returns an element of rank i, for EVERY sequence of in-range pivot
   draws, every array and every segment: general proof (Hoare partition invariant).
   Rank is stated by counting, so no sorting function is involved:
     #{u in [b,e] | a[u] < v}  <=  i  <  #{u in [b,e] | not (v < a[u])}.
   Generic in the numeric instance; needs < to be a strict weak order (irreflexive, transitive,
   "not <" transitive), which holds for the exact instance qx_ops (proved at the end). *)
From Coq Require Import List ZArith Bool Lia Permutation.
From DV Require Import Base.PyList Base.C07_Num Model.C07_Spea2.
Import ListNotations.
Local Open Scope Z_scope.

(* counting over an index range [b, b+n) *)
Fixpoint cntf (g : Z -> bool) (b : Z) (n : nat) : nat :=
  match n with
  | O => O
  | S n' => ((if g b then 1 else 0) + cntf g (b + 1) n')%nat
  end.

Lemma cntf_ext g h : forall n b, (forall u, b <= u < b + Z.of_nat n -> g u = h u) -> cntf g b n = cntf h b n.
Proof.
  induction n as [|n IH]; intros b H; cbn [cntf]; [reflexivity|].
  rewrite (H b) by lia. rewrite (IH (b + 1)); [reflexivity|]. intros u Hu. apply H. lia.
Qed.

Lemma cntf_split g : forall n1 n2 b, cntf g b (n1 + n2) = (cntf g b n1 + cntf g (b + Z.of_nat n1) n2)%nat.
Proof.
  induction n1 as [|n1 IH]; intros n2 b; cbn [cntf plus].
  - now rewrite Z.add_0_r.
  - rewrite IH. replace (b + 1 + Z.of_nat n1) with (b + Z.of_nat (S n1)) by lia. lia.
Qed.

Lemma cntf_le g h : forall n b, (forall u, b <= u < b + Z.of_nat n -> g u = true -> h u = true) -> (cntf g b n <= cntf h b n)%nat.
Proof.
  induction n as [|n IH]; intros b H; cbn [cntf]; [lia|].
  assert (IHn := IH (b + 1) ltac:(intros u Hu; apply H; lia)).
  destruct (g b) eqn:E; [rewrite (H b ltac:(lia) E); lia|destruct (h b); lia].
Qed.

Lemma cntf_all g : forall n b, (forall u, b <= u < b + Z.of_nat n -> g u = true) -> cntf g b n = n.
Proof.
  induction n as [|n IH]; intros b H; cbn [cntf]; [reflexivity|].
  rewrite (H b) by lia. rewrite IH; [reflexivity|]. intros u Hu. apply H. lia.
Qed.

Lemma cntf_none g : forall n b, (forall u, b <= u < b + Z.of_nat n -> g u = false) -> cntf g b n = O.
Proof.
  induction n as [|n IH]; intros b H; cbn [cntf]; [reflexivity|].
  rewrite (H b) by lia. rewrite IH; [reflexivity|]. intros u Hu. apply H. lia.
Qed.


Lemma cntf_split5 g n1 n2 n3 b :
  cntf g b (n1 + S (n2 + S n3)) =
  (cntf g b n1 + ((if g (b + Z.of_nat n1)%Z then 1 else 0) +
   (cntf g (b + Z.of_nat n1 + 1)%Z n2 + ((if g (b + Z.of_nat n1 + 1 + Z.of_nat n2)%Z then 1 else 0) +
    cntf g (b + Z.of_nat n1 + 1 + Z.of_nat n2 + 1)%Z n3))))%nat.
Proof.
  rewrite (cntf_split g n1). cbn [cntf]. rewrite (cntf_split g n2). cbn [cntf]. reflexivity.
Qed.

Lemma cntf_swap g g' b n i j :
  b <= i -> i < j -> j < b + Z.of_nat n ->
  g' i = g j -> g' j = g i -> (forall u, b <= u < b + Z.of_nat n -> u <> i -> u <> j -> g' u = g u) ->
  cntf g' b n = cntf g b n.
Proof.
  intros Hbi Hij Hjn Ei Ej Eo.
  remember (Z.to_nat (i - b)) as n1. remember (Z.to_nat (j - i - 1)) as n2. remember (Z.to_nat (b + Z.of_nat n - j - 1)) as n3.
  assert (En : n = (n1 + S (n2 + S n3))%nat) by (subst; lia).
  assert (A : b + Z.of_nat n1 = i) by (subst; lia).
  assert (B : i + 1 + Z.of_nat n2 = j) by (subst; lia).
  clear Heqn1 Heqn2 Heqn3. subst n.
  rewrite !cntf_split5. rewrite A, B.
  rewrite (cntf_ext g' g n1 b) by (intros u Hu; apply Eo; lia).
  rewrite (cntf_ext g' g n2 (i + 1)) by (intros u Hu; apply Eo; lia).
  rewrite (cntf_ext g' g n3 (j + 1)) by (intros u Hu; apply Eo; lia).
  rewrite Ei, Ej. destruct (g i), (g j); lia.
Qed.

Section SelectGen.
Context {T : Type} (Op : numops T).
Local Notation ltb := (n_ltb Op).
Local Notation zero := (n_ofZ Op 0%Z).
Hypothesis lt_irrefl : forall x, ltb x x = false.
Hypothesis lt_trans : forall x y z, ltb x y = true -> ltb y z = true -> ltb x z = true.
Hypothesis nlt_trans : forall x y z, ltb x y = false -> ltb y z = false -> ltb x z = false.

(* a <= b *)
Definition le (a b : T) : Prop := ltb b a = false.

Lemma lt_le a b : ltb a b = true -> le a b.
Proof.
  intro H. unfold le. destruct (ltb b a) eqn:E; [|reflexivity].
  assert (X := lt_trans a b a H E). rewrite lt_irrefl in X. discriminate.
Qed.

Lemma le_trans a b c : le a b -> le b c -> le a c.
Proof. unfold le. intros H1 H2. eapply nlt_trans; eauto. Qed.

Lemma le_refl a : le a a.
Proof. apply lt_irrefl. Qed.

(* ---- arrays ---- *)
Definition len (arr : list T) : Z := Z.of_nat (length arr).

Lemma set_nth_len {A} (l : list A) k v : length (set_nth l k v) = length l.
Proof. apply set_nth_length. Qed.

Lemma nth_set_eq {A} (l : list A) k v d : (k < length l)%nat -> nth k (set_nth l k v) d = v.
Proof. revert k; induction l as [|x r IH]; intros [|k] H; cbn in *; try lia; auto. apply IH. lia. Qed.

Lemma nth_set_neq {A} (l : list A) k j v d : k <> j -> nth j (set_nth l k v) d = nth j l d.
Proof. revert k j; induction l as [|x r IH]; intros [|k] [|j] H; cbn; auto; try lia. Qed.

Lemma swapz_len arr i j : length (swapz Op arr i j) = length arr.
Proof. unfold swapz. now rewrite !set_nth_len. Qed.

Lemma getz_swapz arr i j u : 0 <= i < len arr -> 0 <= j < len arr -> 0 <= u ->
  getz Op (swapz Op arr i j) u = if u =? i then getz Op arr j else if u =? j then getz Op arr i else getz Op arr u.
Proof.
  intros Hi Hj Hu. unfold swapz, getz, len in *.
  destruct (Z.eqb_spec u j) as [->|Huj].
  - rewrite nth_set_eq by (rewrite set_nth_len; lia).
    destruct (Z.eqb_spec j i) as [->|]; reflexivity.
  - rewrite nth_set_neq by lia.
    destruct (Z.eqb_spec u i) as [->|Hui].
    + rewrite nth_set_eq by lia. reflexivity.
    + rewrite nth_set_neq by lia. reflexivity.
Qed.

Definition cnt (P : T -> bool) (arr : list T) (b e : Z) : nat :=
  cntf (fun u => P (getz Op arr u)) b (Z.to_nat (e - b + 1)).

Lemma cnt_swapz P arr b e i j : 0 <= b -> e < len arr -> b <= i <= e -> b <= j <= e ->
  cnt P (swapz Op arr i j) b e = cnt P arr b e.
Proof.
  intros Hb He Hi Hj. unfold cnt.
  assert (G : forall u, 0 <= u -> getz Op (swapz Op arr i j) u =
               if u =? i then getz Op arr j else if u =? j then getz Op arr i else getz Op arr u)
    by (intros; apply getz_swapz; lia).
  destruct (Z.lt_trichotomy i j) as [L|[->|L]].
  - apply (cntf_swap _ _ b _ i j); try lia.
    + rewrite G by lia. now rewrite Z.eqb_refl.
    + rewrite G by lia. destruct (Z.eqb_spec j i); [lia|]. now rewrite Z.eqb_refl.
    + intros u Hu H1 H2. rewrite G by lia. destruct (Z.eqb_spec u i); [lia|]. destruct (Z.eqb_spec u j); [lia|]. reflexivity.
  - apply cntf_ext. intros u Hu. rewrite G by lia. destruct (Z.eqb_spec u j) as [->|]; reflexivity.
  - apply (cntf_swap _ _ b _ j i); try lia.
    + rewrite G by lia. destruct (Z.eqb_spec j i); [lia|]. now rewrite Z.eqb_refl.
    + rewrite G by lia. now rewrite Z.eqb_refl.
    + intros u Hu H1 H2. rewrite G by lia. destruct (Z.eqb_spec u i); [lia|]. destruct (Z.eqb_spec u j); [lia|]. reflexivity.
Qed.

Lemma cnt_split P arr b q e : b <= q + 1 -> q <= e ->
  cnt P arr b e = (cnt P arr b q + cnt P arr (q + 1) e)%nat.
Proof.
  intros H1 H2. unfold cnt.
  replace (Z.to_nat (e - b + 1)) with (Z.to_nat (q - b + 1) + Z.to_nat (e - (q + 1) + 1))%nat by lia.
  rewrite cntf_split. do 2 f_equal. lia.
Qed.


(* ---- the two inner scans ---- *)
Lemma scan_down_spec arr x : forall fuel j lo, lo <= j -> j - lo + 1 <= Z.of_nat fuel -> le (getz Op arr lo) x ->
  let j1 := scan_down Op fuel arr x j in
  lo <= j1 <= j /\ le (getz Op arr j1) x /\ forall u, j1 < u <= j -> ltb x (getz Op arr u) = true.
Proof.
  induction fuel as [|f IH]; intros j lo Hlo Hf Hs; [lia|]. cbn [scan_down].
  destruct (ltb x (getz Op arr j)) eqn:E.
  - assert (j <> lo) by (intros ->; unfold le in Hs; congruence).
    destruct (IH (j - 1) lo ltac:(lia) ltac:(lia) Hs) as [A [B C]]. cbn zeta in *.
    split; [lia|]. split; [exact B|]. intros u Hu. destruct (Z.eq_dec u j) as [->|]; [exact E|apply C; lia].
  - cbn zeta. split; [lia|]. split; [exact E|]. intros u Hu. lia.
Qed.

Lemma scan_up_spec arr x : forall fuel i hi, i <= hi -> hi - i + 1 <= Z.of_nat fuel -> le x (getz Op arr hi) ->
  let i1 := scan_up Op fuel arr x i in
  i <= i1 <= hi /\ le x (getz Op arr i1) /\ forall u, i <= u < i1 -> ltb (getz Op arr u) x = true.
Proof.
  induction fuel as [|f IH]; intros i hi Hhi Hf Hs; [lia|]. cbn [scan_up].
  destruct (ltb (getz Op arr i) x) eqn:E.
  - assert (i <> hi) by (intros ->; unfold le in Hs; congruence).
    destruct (IH (i + 1) hi ltac:(lia) ltac:(lia) Hs) as [A [B C]]. cbn zeta in *.
    split; [lia|]. split; [exact B|]. intros u Hu. destruct (Z.eq_dec u i) as [->|]; [exact E|apply C; lia].
  - cbn zeta. split; [lia|]. split; [exact E|]. intros u Hu. lia.
Qed.

(* ---- Hoare partition ---- *)
Section Partition.
Variables (arr0 : list T) (x : T) (b e : Z).
Hypothesis Hb : 0 <= b.
Hypothesis Hbe : b < e.
Hypothesis He : e < len arr0.

Record pinv (arr : list T) (i j : Z) : Prop := {
  pi_len : length arr = length arr0;
  pi_cnt : forall P, cnt P arr b e = cnt P arr0 b e;
  pi_out : forall u, 0 <= u -> (u < b \/ e < u) -> getz Op arr u = getz Op arr0 u;
  pi_rng : b - 1 <= i /\ j <= e + 1 /\ i < j;
  pi_lo : forall u, b <= u <= i -> le (getz Op arr u) x;
  pi_hi : forall v, j <= v <= e -> le x (getz Op arr v);
  pi_sd : exists lo, b <= lo /\ i <= lo /\ lo <= j - 1 /\ le (getz Op arr lo) x;
  pi_su : exists hi, hi <= e /\ hi <= j /\ i + 1 <= hi /\ le x (getz Op arr hi);
  pi_first : j = e + 1 -> i = b - 1 /\ ltb (getz Op arr b) x = false
}.

(* result: (arr', q) with the segment [b,e] rearranged so that [b,q] <= [q+1,e] *)
Definition ppost (arr' : list T) (q : Z) : Prop :=
  length arr' = length arr0 /\ (forall P, cnt P arr' b e = cnt P arr0 b e) /\
  (forall u, 0 <= u -> (u < b \/ e < u) -> getz Op arr' u = getz Op arr0 u) /\
  b <= q < e /\
  forall u v, b <= u <= q -> q + 1 <= v <= e -> le (getz Op arr' u) (getz Op arr' v).

Lemma part_loop_spec : forall fuel arr i j, pinv arr i j -> j - i <= Z.of_nat fuel ->
  let '(arr', q) := part_loop Op fuel arr x i j in ppost arr' q.
Proof.
  induction fuel as [|fuel IH]; intros arr i j I Hf.
  - destruct (pi_rng _ _ _ I) as [_ [_ H]]. lia.
  - cbn [part_loop].
    destruct I as [Ilen Icnt Iout [Ir1 [Ir2 Ir3]] Ilo Ihi [lo [L1 [L2 [L3 L4]]]] [hi [H1 [H2 [H3 H4]]]] Ifirst].
    assert (Hlen : len arr = len arr0) by (unfold len; now rewrite Ilen).
    destruct (scan_down_spec arr x (S (length arr)) (j - 1) lo L3 ltac:(unfold len in *; lia) L4) as [D1 [D2 D3]].
    destruct (scan_up_spec arr x (S (length arr)) (i + 1) hi H3 ltac:(unfold len in *; lia) H4) as [U1 [U2 U3]].
    cbn zeta in *.
    set (j1 := scan_down Op (S (length arr)) arr x (j - 1)) in *.
    set (i1 := scan_up Op (S (length arr)) arr x (i + 1)) in *.
    destruct (Z.ltb_spec i1 j1) as [Lt|Ge].
    + (* swap and continue *)
      apply IH; [|lia].
      assert (Gs : forall u, 0 <= u -> getz Op (swapz Op arr i1 j1) u =
                  if u =? i1 then getz Op arr j1 else if u =? j1 then getz Op arr i1 else getz Op arr u)
        by (intros; apply getz_swapz; lia).
      constructor.
      * now rewrite swapz_len.
      * intros P. rewrite cnt_swapz by lia. apply Icnt.
      * intros u Hu Hout. rewrite Gs by exact Hu.
        destruct (Z.eqb_spec u i1); [lia|]. destruct (Z.eqb_spec u j1); [lia|]. apply Iout; assumption.
      * lia.
      * intros u Hu. rewrite Gs by lia. destruct (Z.eqb_spec u i1) as [->|]; [exact D2|].
        destruct (Z.eqb_spec u j1); [lia|].
        destruct (Z_le_gt_dec u i) as [Le|Gt]; [apply Ilo; lia|]. apply lt_le. apply U3. lia.
      * intros v Hv. rewrite Gs by lia. destruct (Z.eqb_spec v i1); [lia|].
        destruct (Z.eqb_spec v j1) as [->|]; [exact U2|].
        destruct (Z_lt_ge_dec v j) as [Lv|Gv]; [|apply Ihi; lia]. apply lt_le. apply D3. lia.
      * exists i1. repeat split; try lia. rewrite Gs by lia. rewrite Z.eqb_refl. exact D2.
      * exists j1. repeat split; try lia. rewrite Gs by lia. destruct (Z.eqb_spec j1 i1); [lia|]. rewrite Z.eqb_refl. exact U2.
      * intros Ej. lia.
    + (* return j1 *)
      assert (Hq : b <= j1 < e).
      { split; [lia|]. destruct (Z.eq_dec j (e + 1)) as [Ej|Nj]; [|lia].
        destruct (Ifirst Ej) as [Ei Fb]. subst i.
        (* the up-scan stops immediately at b *)
        assert (i1 = b).
        { unfold i1. replace (b - 1 + 1) with b by lia. cbn [scan_up]. now rewrite Fb. }
        lia. }
      split; [exact Ilen|]. split; [exact Icnt|]. split; [exact Iout|]. split; [exact Hq|].
      intros u v Hu Hv. apply (le_trans _ x).
      * destruct (Z_le_gt_dec u i) as [Le|Gt]; [apply Ilo; lia|].
        destruct (Z.eq_dec u j1) as [->|Nu]; [exact D2|]. apply lt_le. apply U3. lia.
      * destruct (Z_lt_ge_dec v j) as [Lv|Gv]; [|apply Ihi; lia]. apply lt_le. apply D3. lia.
Qed.

End Partition.


Lemma partition_spec arr b e : 0 <= b -> b < e -> e < len arr ->
  let '(arr', q) := partition Op arr b e in ppost arr b e arr' q.
Proof.
  intros Hb Hbe He. unfold partition.
  apply (part_loop_spec arr (getz Op arr b) b e Hb Hbe He); [|unfold len in *; lia].
  constructor; try reflexivity; try lia.
  - exists b. repeat split; try lia. apply le_refl.
  - exists b. repeat split; try lia. apply le_refl.
  - intros _. split; [reflexivity|apply lt_irrefl].
Qed.

Lemma rand_partition_spec arr b e r : 0 <= b -> b < e -> e < len arr -> b <= r <= e ->
  let '(arr', q) := rand_partition Op arr b e r in ppost arr b e arr' q.
Proof.
  intros Hb Hbe He Hr. unfold rand_partition.
  assert (Hl : len (swapz Op arr b r) = len arr) by (unfold len; now rewrite swapz_len).
  assert (S := partition_spec (swapz Op arr b r) b e Hb Hbe ltac:(lia)).
  destruct (partition Op (swapz Op arr b r) b e) as [arr' q].
  destruct S as [L [C [O [Q Pp]]]]. split; [now rewrite L, swapz_len|]. split; [|split; [|split; [exact Q|exact Pp]]].
  - intros P. rewrite C. apply cnt_swapz; lia.
  - intros u Hu Hout. rewrite O by assumption. rewrite getz_swapz by lia.
    destruct (Z.eqb_spec u b); [lia|]. destruct (Z.eqb_spec u r); [lia|]. reflexivity.
Qed.

(* ---- _randomizedSelect ---- *)
(* every explicitly given pivot draw lies in [begin, end] (an exhausted list reads as begin) *)
Fixpoint draws_valid (fuel : nat) (arr : list T) (b e i : Z) (draws : list Z) : bool :=
  match fuel with
  | O => true
  | S f =>
      if (b =? e) then true
      else
        let ok := match draws with r :: _ => (b <=? r) && (r <=? e) | [] => true end in
        let '(r, draws') := match draws with r :: d => (r, d) | [] => (b, []) end in
        ok &&
        let '(arr', q) := rand_partition Op arr b e r in
        let k := q - b + 1 in
        if i <? k then draws_valid f arr' b q i draws' else draws_valid f arr' (q + 1) e (i - k) draws'
  end.

Lemma cntf_bound g : forall n b, (cntf g b n <= n)%nat.
Proof. induction n as [|n IH]; intros b; cbn [cntf]; [lia|]. specialize (IH (b + 1)). destruct (g b); lia. Qed.

Lemma cntf_lt_exists g h : forall n b, (cntf g b n < cntf h b n)%nat ->
  exists u, b <= u < b + Z.of_nat n /\ h u = true /\ g u = false.
Proof.
  induction n as [|n IH]; intros b H; cbn [cntf] in H; [lia|].
  destruct (h b) eqn:Eh, (g b) eqn:Eg.
  - destruct (IH (b + 1) ltac:(lia)) as [u [Hu Hx]]. exists u. split; [lia|exact Hx].
  - exists b. split; [lia|auto].
  - destruct (IH (b + 1) ltac:(lia)) as [u [Hu Hx]]. exists u. split; [lia|exact Hx].
  - destruct (IH (b + 1) ltac:(lia)) as [u [Hu Hx]]. exists u. split; [lia|exact Hx].
Qed.

Definition rank_ok (arr : list T) (b e i : Z) (v : T) : Prop :=
  (Z.of_nat (cnt (fun a => ltb a v) arr b e) <= i < Z.of_nat (cnt (fun a => negb (ltb v a)) arr b e)).

Theorem rand_select_rank : forall fuel arr b e i draws,
  0 <= b -> b <= e -> e < len arr -> 0 <= i <= e - b -> e - b + 1 <= Z.of_nat fuel ->
  draws_valid fuel arr b e i draws = true ->
  rank_ok arr b e i (fst (rand_select Op fuel arr b e i draws)).
Proof.
  induction fuel as [|fuel IH]; intros arr b e i draws Hb Hbe He Hi Hf Hd; [lia|].
  cbn [rand_select draws_valid] in *. destruct (Z.eqb_spec b e) as [->|Hne].
  - (* a single element *)
    cbn [fst]. unfold rank_ok, cnt. replace (Z.to_nat (e - e + 1)) with 1%nat by lia. cbn [cntf].
    rewrite lt_irrefl. cbn. lia.
  - set (r := match draws with r :: _ => r | [] => b end).
    set (draws' := match draws with _ :: d => d | [] => [] end).
    assert (Er : (match draws with r :: d => (r, d) | [] => (b, []) end) = (r, draws')) by (destruct draws; reflexivity).
    rewrite Er in *.
    assert (Hr : b <= r <= e).
    { unfold r. destruct draws as [|r0 d]; [lia|]. apply andb_true_iff in Hd. destruct Hd as [Hd _].
      apply andb_true_iff in Hd. destruct Hd as [A B]. apply Z.leb_le in A. apply Z.leb_le in B. lia. }
    apply andb_true_iff in Hd. destruct Hd as [_ Hd].
    assert (PS := rand_partition_spec arr b e r Hb ltac:(lia) He Hr).
    destruct (rand_partition Op arr b e r) as [arr' q].
    destruct PS as [L [C [_ [Q Pp]]]].
    assert (Hl : len arr' = len arr) by (unfold len; now rewrite L).
    unfold rank_ok. rewrite <- !C.
    rewrite !(cnt_split _ arr' b q e) by lia.
    destruct (Z.ltb_spec i (q - b + 1)) as [Li|Gi].
    + (* left part *)
      specialize (IH arr' b q i draws' Hb ltac:(lia) ltac:(lia) ltac:(lia) ltac:(lia) Hd).
      set (v := fst (rand_select Op fuel arr' b q i draws')) in *. destruct IH as [R1 R2].
      destruct (cntf_lt_exists (fun u => ltb (getz Op arr' u) v) (fun u => negb (ltb v (getz Op arr' u)))
                  (Z.to_nat (q - b + 1)) b ltac:(unfold cnt in R1, R2; lia)) as [u [Hu [Eu1 Eu2]]].
      apply negb_true_iff in Eu1.
      assert (Z0 : cnt (fun a => ltb a v) arr' (q + 1) e = 0%nat).
      { unfold cnt. apply cntf_none. intros w Hw. apply (le_trans v (getz Op arr' u)); [exact Eu2|]. apply Pp; lia. }
      rewrite Z0. lia.
    + (* right part *)
      specialize (IH arr' (q + 1) e (i - (q - b + 1)) draws' ltac:(lia) ltac:(lia) ltac:(lia) ltac:(lia) ltac:(lia) Hd).
      set (v := fst (rand_select Op fuel arr' (q + 1) e (i - (q - b + 1)) draws')) in *. destruct IH as [R1 R2].
      destruct (cntf_lt_exists (fun u => ltb (getz Op arr' u) v) (fun u => negb (ltb v (getz Op arr' u)))
                  (Z.to_nat (e - (q + 1) + 1)) (q + 1) ltac:(unfold cnt in R1, R2; lia)) as [w [Hw [Ew1 Ew2]]].
      apply negb_true_iff in Ew1.
      assert (Zk : cnt (fun a => negb (ltb v a)) arr' b q = Z.to_nat (q - b + 1)).
      { unfold cnt. apply cntf_all. intros u Hu. apply negb_true_iff.
        apply (le_trans (getz Op arr' u) (getz Op arr' w)); [apply Pp; lia|exact Ew1]. }
      assert (Bk : (cnt (fun a => ltb a v) arr' b q <= Z.to_nat (q - b + 1))%nat) by apply cntf_bound.
      rewrite Zk. lia.
Qed.


(* ---- rank determines the value up to equivalence; the sorted list's i-th element has rank i ---- *)
Lemma rank_unique arr b e i v v' : rank_ok arr b e i v -> rank_ok arr b e i v' -> le v v' /\ le v' v.
Proof.
  assert (H : forall v v', rank_ok arr b e i v -> rank_ok arr b e i v' -> ltb v v' = false).
  { clear v v'. intros v v' [_ R2] [R1' _]. destruct (ltb v v') eqn:E; [|reflexivity]. exfalso.
    assert (C : (cnt (fun a => negb (ltb v a)) arr b e <= cnt (fun a => ltb a v') arr b e)%nat).
    { unfold cnt. apply cntf_le. intros u _ Hu. apply negb_true_iff in Hu.
      destruct (ltb (getz Op arr u) v') eqn:E2; [reflexivity|].
      (* v' <= a <= v, against v < v' *)
      assert (X := nlt_trans _ _ _ Hu E2). congruence. }
    lia. }
  intros R R'. split; unfold le; auto.
Qed.

Lemma cnt_filter P : forall arr, cnt P arr 0 (len arr - 1) = length (filter P arr).
Proof.
  unfold cnt, len. intros arr. replace (Z.to_nat (Z.of_nat (length arr) - 1 - 0 + 1)) with (length arr) by lia.
  assert (G : forall arr (k : Z), 0 <= k ->
            cntf (fun u => P (nth (Z.to_nat (u - k)) arr zero)) k (length arr) = length (filter P arr)).
  { clear arr. induction arr as [|a arr IH]; intros k Hk; cbn [cntf length filter]; [reflexivity|].
    replace (Z.to_nat (k - k)) with O by lia. cbn [nth].
    rewrite (cntf_ext _ (fun u => P (nth (Z.to_nat (u - (k + 1))) arr zero))).
    - rewrite IH by lia. destruct (P a); reflexivity.
    - intros u Hu. replace (Z.to_nat (u - k)) with (S (Z.to_nat (u - (k + 1)))) by lia. reflexivity. }
  rewrite <- (G arr 0 ltac:(lia)). apply cntf_ext. intros u Hu. unfold getz. now rewrite Z.sub_0_r.
Qed.


Lemma filter_perm_length {A} (P : A -> bool) l l' : Permutation l l' -> length (filter P l) = length (filter P l').
Proof.
  induction 1; cbn; auto.
  - destruct (P x); cbn; congruence.
  - destruct (P x), (P y); reflexivity.
  - congruence.
Qed.

Lemma ins_t_perm x : forall l, Permutation (ins_t Op x l) (x :: l).
Proof. induction l as [|y l IH]; cbn; auto. destruct (ltb x y); auto. rewrite IH. apply perm_swap. Qed.

Lemma sort_t_perm l : Permutation (sort_t Op l) l.
Proof. induction l as [|x l IH]; cbn; auto. rewrite ins_t_perm. now constructor. Qed.

(* sortedness: every later element is not smaller *)
Inductive sorted : list T -> Prop :=
| sorted_nil : sorted []
| sorted_cons x l : (forall y, In y l -> le x y) -> sorted l -> sorted (x :: l).

Lemma ins_t_sorted x : forall l, sorted l -> sorted (ins_t Op x l).
Proof.
  induction l as [|y l IH]; intros H; cbn.
  - constructor; [intros y []|constructor].
  - inversion H as [|? ? Hy Hs]; subst. destruct (ltb x y) eqn:E.
    + constructor; [|exact H]. intros z [<-|Hz]; [apply lt_le; exact E|].
      apply (le_trans x y z); [apply lt_le; exact E|apply Hy; exact Hz].
    + constructor; [|apply IH; exact Hs]. intros z Hz. apply (Permutation_in _ (ins_t_perm x l)) in Hz.
      destruct Hz as [<-|Hz]; [exact E|apply Hy; exact Hz].
Qed.

Lemma sort_t_sorted l : sorted (sort_t Op l).
Proof. induction l as [|x l IH]; cbn; [constructor|]. apply ins_t_sorted. exact IH. Qed.

Lemma filter_none {A} (P : A -> bool) : forall l, (forall a, In a l -> P a = false) -> filter P l = [].
Proof.
  induction l as [|x l IH]; intros H; cbn; [reflexivity|].
  rewrite (H x (or_introl eq_refl)). apply IH. intros a Ha. apply H. now right.
Qed.

Lemma sorted_rank : forall l, sorted l -> forall i, (i < length l)%nat ->
  let v := nth i l zero in
  (length (filter (fun a => ltb a v) l) <= i)%nat /\ (i < length (filter (fun a => negb (ltb v a)) l))%nat.
Proof.
  induction l as [|x l IH]; intros Hs i Hi; [cbn in Hi; lia|].
  inversion Hs as [|? ? Hx Hl]; subst. destruct i as [|i]; cbn [nth] in *; cbn zeta.
  - cbn [filter]. rewrite lt_irrefl. cbn [negb length]. split; [|lia].
    rewrite filter_none; [cbn; lia|]. intros a Ha. apply Hx. exact Ha.
  - destruct (IH Hl i ltac:(cbn in Hi; lia)) as [A B]. cbn zeta in *.
    set (v := nth i l zero) in *.
    assert (Hv : In v l) by (apply nth_In; cbn in Hi; lia).
    cbn [filter]. assert (E : ltb v x = false) by (apply Hx; exact Hv). rewrite E. cbn [negb length].
    split; [destruct (ltb x v); cbn [length]; lia|lia].
Qed.

(* the reference semantics used by the correspondence (nth of the sorted array) has rank i too,
   hence _randomizedSelect and kth_smallest agree up to equivalence for every draw sequence *)
Theorem kth_smallest_rank arr i : 0 <= i < len arr ->
  rank_ok arr 0 (len arr - 1) i (kth_smallest Op arr i).
Proof.
  intros Hi. unfold rank_ok. rewrite !cnt_filter. unfold kth_smallest.
  assert (P := sort_t_perm arr).
  rewrite (filter_perm_length _ _ _ (Permutation_sym P)).
  rewrite (filter_perm_length (fun a => negb (ltb (nth (Z.to_nat i) (sort_t Op arr) zero) a)) _ _ (Permutation_sym P)).
  destruct (sorted_rank (sort_t Op arr) (sort_t_sorted arr) (Z.to_nat i)) as [A B].
  { rewrite (Permutation_length P). unfold len in Hi. lia. }
  cbn zeta in *. lia.
Qed.

Theorem rand_select_is_kth arr i draws : 0 <= i < len arr ->
  draws_valid (S (length arr)) arr 0 (len arr - 1) i draws = true ->
  let v := fst (rand_select Op (S (length arr)) arr 0 (len arr - 1) i draws) in
  le v (kth_smallest Op arr i) /\ le (kth_smallest Op arr i) v.
Proof.
  intros Hi Hd. apply (rank_unique arr 0 (len arr - 1) i).
  - apply rand_select_rank; try lia; [unfold len in *; lia|exact Hd].
  - apply kth_smallest_rank. exact Hi.
Qed.

End SelectGen.



(* ------------------------------------------------------------------ *)
(* the exact instance is a strict weak order *)
From Coq Require Import QArith.

Lemma qx_lt_irrefl x : qx_ltb x x = false.
Proof.
  destruct x as [x|]; cbn; [|reflexivity].
  assert (E : (x ?= x)%Q = Eq) by (apply Qeq_alt; reflexivity). now rewrite E.
Qed.

Lemma qx_ltb_QF x y : qx_ltb (QF x) (QF y) = true <-> (x < y)%Q.
Proof. cbn. rewrite Qlt_alt. destruct (x ?= y)%Q; split; congruence. Qed.

Lemma qx_lt_trans x y z : qx_ltb x y = true -> qx_ltb y z = true -> qx_ltb x z = true.
Proof.
  destruct x as [x|], y as [y|], z as [z|]; try (cbn; congruence).
  rewrite !qx_ltb_QF. apply Qlt_trans.
Qed.

Lemma qx_nlt_trans x y z : qx_ltb x y = false -> qx_ltb y z = false -> qx_ltb x z = false.
Proof.
  destruct x as [x|], y as [y|], z as [z|]; try (cbn; congruence).
  intros H1 H2. destruct (qx_ltb (QF x) (QF z)) eqn:E; [|reflexivity].
  apply qx_ltb_QF in E.
  assert (N1 : ~ (x < y)%Q) by (intro L; apply qx_ltb_QF in L; congruence).
  assert (N2 : ~ (y < z)%Q) by (intro L; apply qx_ltb_QF in L; congruence).
  apply Qnot_lt_le in N1. apply Qnot_lt_le in N2.
  exfalso. apply (Qlt_irrefl x). eapply Qlt_le_trans; [exact E|]. eapply Qle_trans; eauto.
Qed.

(* the call made by selSPEA2: _randomizedSelect(distances, 0, N-1, sqrt(N)) for N >= 2 *)
Lemma rank_of_range N : (2 <= N)%nat -> (0 <= rank_of N <= Z.of_nat N - 1)%Z.
Proof.
  intro H. unfold rank_of. split; [apply Z.sqrt_nonneg|].
  assert (S := Z.sqrt_spec (Z.of_nat N) ltac:(lia)). cbn zeta in S.
  assert (P := Z.sqrt_nonneg (Z.of_nat N)). nia.
Qed.
