(* Facts about the peeling specification (spec_fronts / cut_reach / spec_sort) and the
   corollaries of sort_nd_correct that the property statement lists one by one. *)
From Coq Require Import List ZArith Bool Lia Permutation.
From DV Require Import Base.PyTuple Base.PyList Model.C01_Fitness Proofs.C01_Fitness Model.C04_NDSort
  Proofs.C04_NDSort Proofs.C04_NDLoop.
Import ListNotations.
Local Open Scope Z_scope.

Lemma filter_partition_perm {A} (P : A -> bool) (l : list A) :
  Permutation (filter P l ++ filter (fun x => negb (P x)) l) l.
Proof.
  induction l as [|x l IH]; cbn; [constructor|]. destruct (P x); cbn.
  - constructor. assumption.
  - apply Permutation_sym. apply Permutation_cons_app. apply Permutation_sym. assumption.
Qed.

Lemma NoDup_map_filter {A B} (f : A -> B) (P : A -> bool) (l : list A) :
  NoDup (map f l) -> NoDup (map f (filter P l)).
Proof.
  induction l as [|a l IH]; cbn; intro ND; [constructor|]. inversion ND as [|? ? N1 N2]; subst.
  destruct (P a); [|apply IH; assumption]. cbn. constructor; [|apply IH; assumption].
  intro H. apply N1. apply in_map_iff in H. destruct H as [z [Ez Hz]]. apply filter_In in Hz.
  rewrite <- Ez. apply in_map. tauto.
Qed.

(* ---- the fronts of the peeling partition the population ---- *)
Lemma peel_concat n : forall rem,
  same_len (map iw rem) -> (length rem <= n)%nat -> Permutation (concat (peel n rem)) rem.
Proof.
  induction n as [|n IH]; intros rem SL L.
  - destruct rem; [constructor|cbn in L; lia].
  - destruct rem as [|x r] eqn:E; [constructor|]. rewrite <- E in *.
    assert (NE : rem <> []) by (rewrite E; discriminate).
    replace (peel (S n) rem) with
      (filter (nondominated rem) rem :: peel n (filter (fun x => negb (nondominated rem x)) rem))
      by (rewrite E; reflexivity).
    cbn [concat].
    destruct (front_nonempty rem NE SL) as [y Hy]. apply filter_In in Hy. destruct Hy as [Hy1 Hy2].
    assert (LT : (length (filter (fun x => negb (nondominated rem x)) rem) < length rem)%nat).
    { apply filter_length_lt with (x := y); [assumption|]. rewrite Hy2. reflexivity. }
    eapply Permutation_trans; [|apply (filter_partition_perm (nondominated rem) rem)].
    apply Permutation_app_head. apply IH; [apply same_len_filter; assumption|lia].
Qed.

Theorem spec_fronts_partition pop :
  same_len (map iw pop) -> Permutation (concat (spec_fronts pop)) pop.
Proof. intro SL. apply peel_concat; [assumption|lia]. Qed.

Lemma peel_nonempty n : forall rem, same_len (map iw rem) -> Forall (fun F => F <> []) (peel n rem).
Proof.
  induction n as [|n IH]; intros rem SL; [constructor|].
  destruct rem as [|x r] eqn:E; [constructor|]. rewrite <- E in *.
  assert (NE : rem <> []) by (rewrite E; discriminate).
  replace (peel (S n) rem) with
    (filter (nondominated rem) rem :: peel n (filter (fun x => negb (nondominated rem x)) rem))
    by (rewrite E; reflexivity).
  constructor.
  - destruct (front_nonempty rem NE SL) as [y Hy]. intro H. rewrite H in Hy. destruct Hy.
  - apply IH. apply same_len_filter. assumption.
Qed.

Lemma peel_incl n : forall rem F x, In F (peel n rem) -> In x F -> In x rem.
Proof.
  induction n as [|n IH]; intros rem F x HF Hx; [destruct HF|].
  destruct rem as [|x0 r] eqn:E; [destruct HF|]. rewrite <- E in *.
  replace (peel (S n) rem) with
    (filter (nondominated rem) rem :: peel n (filter (fun x => negb (nondominated rem x)) rem)) in HF
    by (rewrite E; reflexivity).
  destruct HF as [<-|HF].
  - apply filter_In in Hx. tauto.
  - apply (IH _ F x HF) in Hx. apply filter_In in Hx. tauto.
Qed.

(* ---- the characterisation in the words of the property: front i = the elements dominated by
        nobody once fronts 0..i-1 are removed ---- *)
Fixpoint is_peeling (rem : list ind) (fs : list (list ind)) : Prop :=
  match fs with
  | [] => True
  | F :: r =>
      (forall x, In x F <-> In x rem /\ forall y, In y rem -> idom y x = false) /\
      is_peeling (filter (fun x => negb (existsb (fun z => Nat.eqb (uid z) (uid x)) F)) rem) r
  end.

Lemma nondominated_same_iw rem x y : iw x = iw y -> nondominated rem x = nondominated rem y.
Proof. intro E. unfold nondominated, idom. rewrite E. reflexivity. Qed.

Lemma uid_mem_front rem x :
  NoDup (map uid rem) -> In x rem ->
  existsb (fun z => Nat.eqb (uid z) (uid x)) (filter (nondominated rem) rem) = nondominated rem x.
Proof.
  intros ND Hx. apply eq_true_iff_eq. rewrite existsb_exists. split.
  - intros [z [Hz E]]. apply Nat.eqb_eq in E. apply filter_In in Hz. destruct Hz as [Hz1 Hz2].
    assert (z = x) as <-; [|assumption].
    clear - ND Hx Hz1 E. induction rem as [|a rem IH]; [destruct Hx|]. cbn in ND. inversion ND as [|? ? N1 N2]; subst.
    destruct Hx as [->|Hx]; destruct Hz1 as [->|Hz1]; auto.
    + exfalso. apply N1. rewrite <- E. apply in_map. assumption.
    + exfalso. apply N1. rewrite E. apply in_map. assumption.
  - intro H. exists x. split; [apply filter_In; auto|apply Nat.eqb_refl].
Qed.

Lemma peel_is_peeling n : forall rem, NoDup (map uid rem) -> is_peeling rem (peel n rem).
Proof.
  induction n as [|n IH]; intros rem ND; [exact I|].
  destruct rem as [|x0 r] eqn:E; [exact I|]. rewrite <- E in *.
  replace (peel (S n) rem) with
    (filter (nondominated rem) rem :: peel n (filter (fun x => negb (nondominated rem x)) rem))
    by (rewrite E; reflexivity).
  cbn [is_peeling]. split.
  - intro x. rewrite filter_In, nondominated_true. reflexivity.
  - replace (filter (fun x => negb (existsb (fun z => Nat.eqb (uid z) (uid x)) (filter (nondominated rem) rem))) rem)
      with (filter (fun x => negb (nondominated rem x)) rem).
    + apply IH. apply NoDup_map_filter. assumption.
    + apply filter_ext_in. intros x Hx. rewrite uid_mem_front by assumption. reflexivity.
Qed.

Theorem spec_fronts_is_peeling pop : NoDup (map uid pop) -> is_peeling pop (spec_fronts pop).
Proof. apply peel_is_peeling. Qed.

(* depth: every member of front i+1 has a dominator in front i; nobody in the same or a later
   front dominates a member of front i *)
Lemma peel_dominator n : forall rem i F x,
  nth_error (peel n rem) (S i) = Some F -> In x F ->
  exists G y, nth_error (peel n rem) i = Some G /\ In y G /\ idom y x = true.
Proof.
  induction n as [|n IH]; intros rem i F x HF Hx; [destruct i; discriminate|].
  destruct rem as [|x0 r] eqn:E; [discriminate|]. rewrite <- E in *.
  replace (peel (S n) rem) with
    (filter (nondominated rem) rem :: peel n (filter (fun x => negb (nondominated rem x)) rem)) in *
    by (rewrite E; reflexivity).
  set (R := filter (fun x => negb (nondominated rem x)) rem) in *.
  cbn [nth_error] in HF. destruct i as [|i].
  - (* F is the first front of R *)
    destruct n as [|n]; [discriminate|]. destruct R as [|r0 R'] eqn:ER; [discriminate|]. rewrite <- ER in *.
    replace (peel (S n) R) with (filter (nondominated R) R :: peel n (filter (fun x => negb (nondominated R x)) R)) in HF
      by (rewrite ER; reflexivity).
    cbn in HF. inversion HF; subst F. apply filter_In in Hx. destruct Hx as [Hx1 Hx2].
    unfold R in Hx1. apply filter_In in Hx1. destruct Hx1 as [Hx0 Hx3]. apply negb_true_iff in Hx3.
    unfold nondominated in Hx3. apply negb_false_iff, existsb_exists in Hx3. destruct Hx3 as [y [Hy D]].
    exists (filter (nondominated rem) rem), y. split; [reflexivity|]. split; [|assumption].
    apply filter_In. split; [assumption|].
    destruct (nondominated rem y) eqn:NY; [reflexivity|exfalso].
    assert (In y R) as HyR by (apply filter_In; rewrite NY; auto).
    rewrite nondominated_true in Hx2. rewrite (Hx2 y HyR) in D. discriminate.
  - destruct (IH R i F x HF Hx) as [G [y [HG [Hy D]]]]. exists G, y. cbn [nth_error]. auto.
Qed.

Lemma peel_no_later_dominator n : forall rem i j F G x y,
  nth_error (peel n rem) i = Some F -> nth_error (peel n rem) j = Some G -> (i <= j)%nat ->
  In x F -> In y G -> idom y x = false.
Proof.
  induction n as [|n IH]; intros rem i j F G x y HF HG LE Hx Hy; [destruct i; discriminate|].
  destruct rem as [|x0 r] eqn:E; [destruct i; discriminate|]. rewrite <- E in *.
  replace (peel (S n) rem) with
    (filter (nondominated rem) rem :: peel n (filter (fun x => negb (nondominated rem x)) rem)) in *
    by (rewrite E; reflexivity).
  destruct i as [|i].
  - cbn in HF. inversion HF; subst F. apply filter_In in Hx. destruct Hx as [_ Hx]. rewrite nondominated_true in Hx.
    apply Hx. apply nth_error_In in HG. apply (peel_incl (S n) rem G y); [|assumption].
    rewrite E. rewrite E in HG. exact HG.
  - destruct j as [|j]; [lia|]. cbn [nth_error] in HF, HG. apply (IH _ i j F G x y HF HG); [lia|assumption|assumption].
Qed.

Lemma peel_same_fit n : forall rem F x y,
  In F (peel n rem) -> In x F -> In y rem -> iw x = iw y -> In y F.
Proof.
  induction n as [|n IH]; intros rem F x y HF Hx Hy EQ; [destruct HF|].
  destruct rem as [|x0 r] eqn:E; [destruct HF|]. rewrite <- E in *.
  replace (peel (S n) rem) with
    (filter (nondominated rem) rem :: peel n (filter (fun x => negb (nondominated rem x)) rem)) in *
    by (rewrite E; reflexivity).
  destruct HF as [<-|HF].
  - apply filter_In in Hx. apply filter_In. split; [assumption|]. rewrite <- (nondominated_same_iw rem x y EQ). tauto.
  - apply (IH _ F x y HF Hx); [|assumption].
    apply filter_In. split; [assumption|]. rewrite <- (nondominated_same_iw rem x y EQ).
    apply (peel_incl n _ F x HF) in Hx. apply filter_In in Hx. tauto.
Qed.

(* ---- cut_reach returns the shortest non-empty prefix whose size reaches the target ---- *)
Definition ztotal {A} (fs : list (list A)) : Z := zlen (concat fs).

Lemma ztotal_cons {A} (F : list A) r : ztotal (F :: r) = zlen F + ztotal r.
Proof. unfold ztotal. cbn [concat]. apply zlen_app. Qed.

Lemma cut_reach_prefix {A} (t : Z) (fs : list (list A)) : forall acc,
  fs <> [] ->
  exists j, (j < length fs)%nat /\ cut_reach t acc fs = firstn (S j) fs /\
            (forall j', (0 < j' <= j)%nat -> acc + ztotal (firstn j' fs) < t) /\
            (t <= acc + ztotal (firstn (S j) fs) \/ S j = length fs).
Proof.
  induction fs as [|F r IH]; intros acc NE; [congruence|]. cbn [cut_reach].
  destruct (Z.ltb_spec (acc + zlen F) t) as [LT|GE].
  - destruct r as [|F2 r2].
    + exists O. cbn. split; [lia|]. split; [reflexivity|]. split; [intros; lia|right; reflexivity].
    + destruct (IH (acc + zlen F)) as [j [Hj [E [MIN REACH]]]]; [discriminate|].
      exists (S j). split; [cbn [length] in *; lia|]. split; [rewrite E; reflexivity|]. split.
      * intros j' Hj'. destruct j' as [|j']; [lia|]. cbn [firstn]. rewrite ztotal_cons.
        destruct j' as [|j'']; [unfold ztotal; cbn; lia|]. specialize (MIN (S j'')). lia.
      * cbn [firstn length] in *. rewrite ztotal_cons. destruct REACH as [R|R]; [left; lia|right; lia].
  - exists O. split; [cbn; lia|]. split; [reflexivity|]. split; [intros; lia|].
    left. cbn [firstn]. rewrite ztotal_cons. unfold ztotal at 1. cbn. lia.
Qed.

Lemma cut_reach_incl {A} (t : Z) (fs : list (list A)) : forall acc F, In F (cut_reach t acc fs) -> In F fs.
Proof.
  induction fs as [|G r IH]; intros acc F H; [destruct H|]. cbn [cut_reach] in H.
  destruct (acc + zlen G <? t); destruct H as [<-|H]; try (left; reflexivity); [right; eapply IH; eassumption|destruct H].
Qed.

Lemma spec_sort_incl pop k ffo F : In F (spec_sort pop k ffo) -> In F (spec_fronts pop).
Proof.
  unfold spec_sort. destruct (k =? 0); [intros []|]. destruct ffo.
  - destruct (spec_fronts pop); cbn; [intros []|intros [<-|[]]; left; reflexivity].
  - apply cut_reach_incl.
Qed.

(* ---- consequences of being, front by front, a permutation of spec_sort (used for both procedures) ---- *)
Section Corollaries.
  Variables (pop : list ind) (k : Z) (ffo : bool) (fs : list (list ind)).
  Hypothesis NDu : NoDup (map uid pop).
  Hypothesis SL : same_len (map iw pop).
  Hypothesis NE : pop <> [].
  Hypothesis res_perm : Forall2 (@Permutation ind) fs (spec_sort pop k ffo).

  Lemma forall2_in_l {A B} (R : A -> B -> Prop) l1 l2 a : Forall2 R l1 l2 -> In a l1 -> exists b, In b l2 /\ R a b.
  Proof. induction 1; intros []; subst; [eexists; split; [left; reflexivity|assumption]|]. destruct (IHForall2 H1) as [b [? ?]]. exists b; split; [right|]; assumption. Qed.

  Lemma forall2_concat_perm {A} (l1 l2 : list (list A)) : Forall2 (@Permutation A) l1 l2 -> Permutation (concat l1) (concat l2).
  Proof. induction 1; cbn; [constructor|]. apply Permutation_app; assumption. Qed.

  (* every returned element is an input individual, each uid at most once over all fronts *)
  Theorem gen_elements_are_inputs x : In x (concat fs) -> In x pop.
  Proof.
    intro H. apply (Permutation_in _ (forall2_concat_perm _ _ res_perm)) in H.
    apply in_concat in H. destruct H as [F [HF Hx]]. apply spec_sort_incl in HF.
    apply (peel_incl _ _ F x HF Hx).
  Qed.

  Lemma sublist_concat_nodup {A} (f : A -> nat) (t : Z) : forall (gs : list (list A)) acc,
    NoDup (map f (concat gs)) -> NoDup (map f (concat (cut_reach t acc gs))).
  Proof.
    induction gs as [|G r IH]; intros acc H; [constructor|]. cbn [cut_reach].
    cbn [concat] in H. rewrite map_app in H. destruct (NoDup_app_inv _ _ H) as [N1 [N2 D]].
    destruct (acc + zlen G <? t); cbn [concat]; rewrite map_app.
    - apply NoDup_app_intro; [assumption|apply IH; assumption|].
      intros x Hx Hx2. apply (D x Hx). apply in_map_iff in Hx2. destruct Hx2 as [z [Ez Hz]].
      apply in_concat in Hz. destruct Hz as [F [HF Hz]]. apply cut_reach_incl in HF.
      apply in_map_iff. exists z. split; [assumption|]. apply in_concat. eauto.
    - cbn. rewrite app_nil_r. assumption.
  Qed.

  Theorem gen_each_once : NoDup (map uid (concat fs)).
  Proof.
    apply (Permutation_NoDup (l := map uid (concat (spec_sort pop k ffo)))).
    - apply Permutation_map, Permutation_sym, forall2_concat_perm, res_perm.
    - assert (NDall : NoDup (map uid (concat (spec_fronts pop)))).
      { apply (Permutation_NoDup (l := map uid pop)); [|assumption].
        apply Permutation_map, Permutation_sym, spec_fronts_partition. assumption. }
      unfold spec_sort. destruct (k =? 0); [constructor|]. destruct ffo.
      + destruct (spec_fronts pop) as [|F r]; cbn; [constructor|]. cbn in NDall. rewrite app_nil_r.
        rewrite map_app in NDall. apply NoDup_app_inv in NDall. tauto.
      + apply sublist_concat_nodup. assumption.
  Qed.

  (* equal-fitness individuals share a front: a returned front contains every individual of the
     population whose fitness equals that of one of its members *)
  Theorem gen_same_fitness_same_front F x y :
    In F fs -> In x F -> In y pop -> iw x = iw y -> In y F.
  Proof.
    intros HF Hx Hy E. destruct (forall2_in_l _ _ _ F res_perm HF) as [G [HG P]].
    apply (Permutation_in _ (Permutation_sym P)). apply spec_sort_incl in HG.
    apply (peel_same_fit _ pop G x y HG); [apply (Permutation_in _ P); assumption|assumption|assumption].
  Qed.

  Theorem gen_fronts_nonempty : Forall (fun F => F <> []) fs.
  Proof.
    apply Forall_forall. intros F HF E. destruct (forall2_in_l _ _ _ F res_perm HF) as [G [HG P]].
    subst F. apply Permutation_nil in P. subst G. apply spec_sort_incl in HG.
    pose proof (peel_nonempty (length pop) pop SL) as NEF. rewrite Forall_forall in NEF. apply (NEF [] HG). reflexivity.
  Qed.
End Corollaries.

Lemma nd_res_perm pop k ffo fs :
  NoDup (map uid pop) -> same_len (map iw pop) -> pop <> [] -> sort_nd pop k ffo = Some fs ->
  Forall2 (@Permutation ind) fs (spec_sort pop k ffo).
Proof. intros NDu SL NE RES. destruct (sort_nd_correct pop k ffo NDu SL NE) as [fs' [E F]]. rewrite RES in E. inversion E; subst. exact F. Qed.

Theorem nd_elements_are_inputs pop k ffo fs :
  NoDup (map uid pop) -> same_len (map iw pop) -> pop <> [] -> sort_nd pop k ffo = Some fs ->
  forall x, In x (concat fs) -> In x pop.
Proof. intros NDu SL NE RES. apply (gen_elements_are_inputs pop k ffo fs). eapply nd_res_perm; eassumption. Qed.

Theorem nd_each_once pop k ffo fs :
  NoDup (map uid pop) -> same_len (map iw pop) -> pop <> [] -> sort_nd pop k ffo = Some fs ->
  NoDup (map uid (concat fs)).
Proof. intros NDu SL NE RES. apply (gen_each_once pop k ffo fs NDu SL). eapply nd_res_perm; eassumption. Qed.

Theorem nd_same_fitness_same_front pop k ffo fs :
  NoDup (map uid pop) -> same_len (map iw pop) -> pop <> [] -> sort_nd pop k ffo = Some fs ->
  forall F x y, In F fs -> In x F -> In y pop -> iw x = iw y -> In y F.
Proof. intros NDu SL NE RES. apply (gen_same_fitness_same_front pop k ffo fs). eapply nd_res_perm; eassumption. Qed.

Theorem nd_fronts_nonempty pop k ffo fs :
  NoDup (map uid pop) -> same_len (map iw pop) -> pop <> [] -> sort_nd pop k ffo = Some fs ->
  Forall (fun F => F <> []) fs.
Proof. intros NDu SL NE RES. apply (gen_fronts_nonempty pop k ffo fs SL). eapply nd_res_perm; eassumption. Qed.


Theorem nd_k0 pop ffo : sort_nd pop 0 ffo = Some [].
Proof. reflexivity. Qed.

(* first_front_only: exactly one front, the non-dominated set *)
Theorem gen_first_front_only pop k fs :
  NoDup (map uid pop) -> pop <> [] -> k <> 0 ->
  Forall2 (@Permutation ind) fs (spec_sort pop k true) ->
  exists F, fs = [F] /\ NoDup (map uid F) /\
            forall x, In x F <-> In x pop /\ forall y, In y pop -> idom y x = false.
Proof.
  intros NDu NE K P.
  unfold spec_sort in P. destruct (Z.eqb_spec k 0); [congruence|].
  rewrite (spec_fronts_unfold pop NE) in P. cbn [firstn] in P.
  inversion P as [|F G l1 l2 PF P2]; subst. inversion P2; subst.
  exists F. split; [reflexivity|]. split.
  - apply (Permutation_NoDup (l := map uid (filter (nondominated pop) pop))); [apply Permutation_map, Permutation_sym; assumption|].
    apply NoDup_map_filter. assumption.
  - intro x. split.
    + intro H. apply (Permutation_in _ PF) in H. apply filter_In in H. rewrite nondominated_true in H. exact H.
    + intro H. apply (Permutation_in _ (Permutation_sym PF)). apply filter_In. rewrite nondominated_true. exact H.
Qed.

Theorem nd_first_front_only pop k :
  NoDup (map uid pop) -> same_len (map iw pop) -> pop <> [] -> k <> 0 ->
  exists F, sort_nd pop k true = Some [F] /\ NoDup (map uid F) /\
            forall x, In x F <-> In x pop /\ forall y, In y pop -> idom y x = false.
Proof.
  intros NDu SL NE K. destruct (sort_nd_correct pop k true NDu SL NE) as [fs [E P]].
  destruct (gen_first_front_only pop k fs NDu NE K P) as [F [-> R]]. exists F. split; assumption.
Qed.

(* asked for k individuals: the fronts are, front by front, the shortest non-empty prefix of the
   peeling fronts whose size reaches min(k, n) *)
Theorem gen_leading_fronts pop k fs :
  same_len (map iw pop) -> pop <> [] -> k <> 0 ->
  Forall2 (@Permutation ind) fs (spec_sort pop k false) ->
  exists j,
    (j < length (spec_fronts pop))%nat /\
    Forall2 (@Permutation ind) fs (firstn (S j) (spec_fronts pop)) /\
    (forall j', (0 < j' <= j)%nat -> ztotal (firstn j' (spec_fronts pop)) < Z.min (zlen pop) k) /\
    Z.min (zlen pop) k <= ztotal fs.
Proof.
  intros SL NE K P.
  unfold spec_sort in P. destruct (Z.eqb_spec k 0); [congruence|].
  assert (NEF : spec_fronts pop <> []) by (rewrite (spec_fronts_unfold pop NE); discriminate).
  destruct (cut_reach_prefix (Z.min (zlen pop) k) (spec_fronts pop) 0 NEF) as [j [Hj [EC [MIN REACH]]]].
  exists j. rewrite EC in P. split; [assumption|]. split; [assumption|]. split.
  - intros j' Hj'. specialize (MIN j' Hj'). lia.
  - assert (T : ztotal fs = ztotal (firstn (S j) (spec_fronts pop))).
    { unfold ztotal, zlen. rewrite (Permutation_length (forall2_concat_perm _ _ P)). reflexivity. }
    rewrite T. destruct REACH as [R|R]; [lia|].
    rewrite R, firstn_all. unfold ztotal, zlen. rewrite (Permutation_length (spec_fronts_partition pop SL)). lia.
Qed.

Theorem nd_leading_fronts pop k :
  NoDup (map uid pop) -> same_len (map iw pop) -> pop <> [] -> k <> 0 ->
  exists fs j, sort_nd pop k false = Some fs /\
    (j < length (spec_fronts pop))%nat /\
    Forall2 (@Permutation ind) fs (firstn (S j) (spec_fronts pop)) /\
    (forall j', (0 < j' <= j)%nat -> ztotal (firstn j' (spec_fronts pop)) < Z.min (zlen pop) k) /\
    Z.min (zlen pop) k <= ztotal fs.
Proof.
  intros NDu SL NE K. destruct (sort_nd_correct pop k false NDu SL NE) as [fs [E P]].
  destruct (gen_leading_fronts pop k fs SL NE K P) as [j R]. exists fs, j. split; assumption.
Qed.
