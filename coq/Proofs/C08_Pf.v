(* ParetoFront.update: the flag/shortcut loop equals "unchanged if dominated or twin, else drop
   everything dominated and insert" on mutually non-dominated archives; invariant and theorems. *)
From Coq Require Import List ZArith Bool Lia Sorted.
From DV Require Import Base.PyTuple Base.PyList Model.C01_Fitness Model.C08_Archive
  Proofs.C08_Lists Proofs.C08_Refine.
Import ListNotations.
Local Open Scope Z_scope.

Section Pf.
  Variable ind : Type.
  Variable fitness : ind -> list Z.
  Variable similar : ind -> ind -> bool.

  Notation desc := (desc ind fitness).
  Notation ins := (ins ind fitness).
  Notation pstep := (pstep ind fitness similar).
  Notation pf_scan := (pf_scan ind fitness similar).
  Notation del_all := (del_all ind).

  Definition dominates (a b : ind) : bool := fit_dom (fitness a) (fitness b).
  Definition twin (x h : ind) : bool := fit_eq (fitness x) (fitness h) && similar x h.

  (* what the update does on a mutually non-dominated archive *)
  Definition pspec (its : list ind) (x : ind) : list ind :=
    if existsb (fun h => dominates h x) its then its
    else if existsb (twin x) its then its
    else ins x (filter (fun h => negb (dominates x h)) its).

  (* ---------- the scan ---------- *)
  Lemma scan_quiet x : forall hs i tr,
    (forall h, In h hs -> dominates x h = false) ->
    exists isd tw, pf_scan x hs i false tr = (isd, tw, tr) /\
                   isd || tw = existsb (fun h => dominates h x || twin x h) hs.
  Proof.
    induction hs as [|h r IH]; intros i tr Hq; cbn [pf_scan existsb].
    - exists false, false. split; reflexivity.
    - assert (Hh : dominates x h = false) by (apply Hq; now left).
      unfold dominates, twin in *. cbn [negb andb].
      destruct (fit_dom (fitness h) (fitness x)) eqn:E1.
      + exists true, false. split; reflexivity.
      + rewrite Hh. destruct (fit_eq (fitness x) (fitness h) && similar x h) eqn:E2.
        * exists false, true. split; reflexivity.
        * cbn [orb]. apply IH. intros h' Hh'. apply Hq. now right.
  Qed.

  Fixpoint dom_idx (x : ind) (hs : list ind) (i : Z) : list Z :=
    match hs with
    | [] => []
    | h :: r => if dominates x h then i :: dom_idx x r (i + 1) else dom_idx x r (i + 1)
    end.

  Lemma scan_full x : forall hs i d1 tr,
    (forall h, In h hs -> dominates h x = false /\ twin x h = false) ->
    pf_scan x hs i d1 tr = (false, false, tr ++ dom_idx x hs i).
  Proof.
    induction hs as [|h r IH]; intros i d1 tr Hq; cbn [pf_scan dom_idx].
    - now rewrite app_nil_r.
    - destruct (Hq h (or_introl eq_refl)) as [H1 H2]. unfold dominates, twin in *.
      rewrite H1, andb_false_r.
      destruct (fit_dom (fitness x) (fitness h)).
      + rewrite IH by (intros h' Hh'; apply Hq; now right). now rewrite <- app_assoc.
      + rewrite H2. apply IH. intros h' Hh'. apply Hq. now right.
  Qed.

  Lemma del_all_dom_idx x : forall hs p,
    del_all (p ++ hs) (rev (dom_idx x hs (zlen p))) = p ++ filter (fun h => negb (dominates x h)) hs.
  Proof.
    induction hs as [|h r IH]; intro p; cbn [dom_idx filter]; [reflexivity|].
    assert (E : p ++ h :: r = (p ++ [h]) ++ r) by (now rewrite <- app_assoc).
    assert (Z1 : zlen p + 1 = zlen (p ++ [h])) by (rewrite zlen_app; reflexivity).
    destruct (dominates x h); cbn [negb rev].
    - unfold C08_Refine.del_all. rewrite fold_left_app. cbn [fold_left].
      fold (del_all (p ++ h :: r) (rev (dom_idx x r (zlen p + 1)))).
      rewrite E, Z1, IH. rewrite <- app_assoc. cbn [app].
      replace (Z.to_nat (zlen p)) with (length p) by (unfold zlen; lia). apply del_nth_mid.
    - rewrite E, Z1, IH. now rewrite <- app_assoc.
  Qed.

  Lemma filter_all {A} (f : A -> bool) l : (forall a, In a l -> f a = true) -> filter f l = l.
  Proof.
    induction l as [|a l IH]; intro H; cbn; [reflexivity|].
    rewrite (H a) by now left. f_equal. apply IH. intros b Hb. apply H. now right.
  Qed.

  Lemma existsb_false {A} (f : A -> bool) l : existsb f l = false -> forall a, In a l -> f a = false.
  Proof.
    intros E a Ha. destruct (f a) eqn:F; [|reflexivity].
    assert (existsb f l = true) by (apply existsb_exists; eauto). congruence.
  Qed.

  Lemma existsb_orb {A} (f g : A -> bool) l :
    existsb (fun a => f a || g a) l = existsb f l || existsb g l.
  Proof.
    induction l as [|a l IH]; cbn; [reflexivity|]. rewrite IH.
    destruct (f a), (g a), (existsb f l), (existsb g l); reflexivity.
  Qed.

  Definition mutual (its : list ind) : Prop := forall a b, In a its -> In b its -> dominates a b = false.
  Definition all_len (n : nat) (l : list ind) : Prop := forall a, In a l -> length (fitness a) = n.

  (* the  not dominates_one and ...  shortcut and the early breaks never change the outcome *)
  Lemma pstep_spec n its x : mutual its -> all_len n its -> length (fitness x) = n ->
    pstep its x = pspec its x.
  Proof.
    intros M Ln Lx. unfold C08_Refine.pstep, pspec.
    destruct (existsb (fun h => dominates h x) its) eqn:E1.
    { (* a member dominates x: then x dominates no member *)
      apply existsb_exists in E1. destruct E1 as (h & Hh & Dh).
      assert (Q : forall m, In m its -> dominates x m = false).
      { intros m Hm. destruct (dominates x m) eqn:Dm; [|reflexivity].
        assert (dominates h m = true).
        { unfold dominates in *. eapply fit_dom_trans; [| |exact Dh|exact Dm]; rewrite ?Lx; auto.
          symmetry; auto. }
        rewrite M in H by assumption. discriminate. }
      destruct (scan_quiet x its 0 [] Q) as (isd & tw & -> & O). cbn [rev].
      unfold C08_Refine.del_all. cbn [fold_left].
      assert (isd || tw = true).
      { rewrite O. apply existsb_exists. exists h. split; [assumption|]. now rewrite Dh. }
      destruct isd, tw; try discriminate; reflexivity. }
    destruct (existsb (twin x) its) eqn:E2.
    { (* a twin exists: x dominates no member either *)
      apply existsb_exists in E2. destruct E2 as (h & Hh & Th).
      assert (Q : forall m, In m its -> dominates x m = false).
      { intros m Hm. unfold twin in Th. apply andb_true_iff in Th. destruct Th as [Ef _].
        apply fit_eq_spec in Ef. unfold dominates in *. rewrite Ef. now apply M. }
      destruct (scan_quiet x its 0 [] Q) as (isd & tw & -> & O). cbn [rev].
      unfold C08_Refine.del_all. cbn [fold_left].
      assert (isd || tw = true).
      { rewrite O. apply existsb_exists. exists h. split; [assumption|]. rewrite Th. apply orb_true_r. }
      destruct isd, tw; try discriminate; reflexivity. }
    (* neither: full scan, every dominated member is removed *)
    rewrite scan_full.
    - cbn [app negb andb]. f_equal. apply (del_all_dom_idx x its []).
    - intros h Hh. split; [eapply existsb_false in E1|eapply existsb_false in E2]; eauto.
  Qed.

  Lemma all_len_app n l x : all_len n (l ++ [x]) -> all_len n l.
  Proof. intros H a Ha. apply H, in_or_app. auto. Qed.

  Lemma pspec_In its x y : In y (pspec its x) -> y = x \/ In y its.
  Proof.
    unfold pspec. destruct (existsb _ its); [auto|]. destruct (existsb _ its); [auto|].
    intro H. apply ins_In in H. destruct H as [->|H]; [auto|]. apply filter_In in H. tauto.
  Qed.

  Lemma mutual_pspec its x : mutual its -> mutual (pspec its x).
  Proof.
    intro M. unfold pspec.
    destruct (existsb (fun h => dominates h x) its) eqn:E1; [assumption|].
    destruct (existsb (twin x) its); [assumption|].
    pose proof (existsb_false _ _ E1) as ND. cbn beta in ND.
    intros a b Ha Hb. apply ins_In in Ha. apply ins_In in Hb.
    destruct Ha as [->|Ha], Hb as [->|Hb].
    - apply fit_dom_irrefl.
    - apply filter_In in Hb. destruct Hb as [_ Hb]. now apply negb_true_iff in Hb.
    - apply filter_In in Ha. apply ND. tauto.
    - apply filter_In in Ha. apply filter_In in Hb. apply M; tauto.
  Qed.

  Theorem mutual_run n xs : all_len n xs ->
    mutual (fold_left pstep xs []) /\ incl (fold_left pstep xs []) xs.
  Proof.
    induction xs as [|x xs IH] using rev_ind; intro L.
    - split; [intros ? ? []|intros ? []].
    - rewrite fold_left_app. cbn [fold_left].
      destruct (IH (all_len_app _ _ _ L)) as [M I].
      rewrite (pstep_spec n); [split| | |].
      + now apply mutual_pspec.
      + intros y Hy. apply pspec_In in Hy. apply in_or_app. destruct Hy as [->|Hy]; [right; now left|left; auto].
      + assumption.
      + intros a Ha. apply L, in_or_app. left. apply I, Ha.
      + apply L, in_or_app. right. now left.
  Qed.

  (* no assumption on the similarity operator *)
  Section HistoryShape.
    Variable batches : list (list ind).
    Variable nobj : nat.
    Let seen := concat batches.
    Hypothesis same_len : forall s, In s seen -> length (fitness s) = nobj.

    Theorem pf_inv_thm :
      exists h, pf_run ind fitness similar batches = Some h /\
        keys h = rev (map fitness (items h)) /\
        (forall i j a b, (i < j)%nat -> nth_error (items h) i = Some a -> nth_error (items h) j = Some b ->
                         fit_lt (fitness a) (fitness b) = false) /\
        (forall a b, In a (items h) -> In b (items h) -> fit_dom (fitness a) (fitness b) = false).
    Proof.
      destruct (pf_run_refine ind fitness similar batches) as [E D].
      destruct (mutual_run nobj seen same_len) as [H _].
      eexists. split; [exact E|]. cbn [keys items C08_Refine.mirror]. split; [reflexivity|]. split.
      - intros i j a b Hij Ha Hb. revert i j a b Hij Ha Hb.
        assert (G : forall l, desc l -> forall i j a b, (i < j)%nat -> nth_error l i = Some a -> nth_error l j = Some b ->
                       fit_lt (fitness a) (fitness b) = false).
        { induction l as [|y r IH]; intros Dl i j a b Hij Ha Hb; [destruct i; discriminate|].
          inversion Dl as [|? ? D' F]; subst. destruct j; [exfalso; lia|]. destruct i; cbn in *.
          - inversion Ha; subst. rewrite Forall_forall in F. apply F. eapply nth_error_In; eassumption.
          - apply (IH D' i j a b); [lia|assumption|assumption]. }
        apply G, D.
      - exact H.
    Qed.

  End HistoryShape.

  (* ---------- the invariant ---------- *)
  Hypothesis sim_refl : forall x, similar x x = true.
  Hypothesis sim_sym : forall x y, similar x y = similar y x.

  Lemma twin_sym a b : twin a b = twin b a.
  Proof.
    unfold twin. rewrite (sim_sym a b). f_equal. apply eq_true_iff_eq.
    rewrite !fit_eq_spec. split; congruence.
  Qed.

  Fixpoint notwin (l : list ind) : Prop :=
    match l with
    | [] => True
    | x :: r => (forall y, In y r -> twin x y = false) /\ notwin r
    end.

  Lemma notwin_filter f l : notwin l -> notwin (filter f l).
  Proof.
    induction l as [|a l IH]; cbn; [auto|]. intros [Ha Hl]. destruct (f a); cbn; [|auto].
    split; [|auto]. intros y Hy. apply filter_In in Hy. apply Ha, Hy.
  Qed.

  Lemma notwin_ins x its : (forall h, In h its -> twin x h = false) -> notwin its -> notwin (ins x its).
  Proof.
    induction its as [|h r IH]; intros Hx N; cbn.
    - split; [intros ? []|exact I].
    - destruct N as [Nh Nr]. destruct (fit_lt (fitness x) (fitness h)).
      + cbn. split.
        * intros y Hy. apply ins_In in Hy. destruct Hy as [->|Hy]; [|auto].
          rewrite twin_sym. apply Hx. now left.
        * apply IH; [|assumption]. intros h' Hh'. apply Hx. now right.
      + cbn. repeat split; auto.
  Qed.

  Lemma notwin_nth l : notwin l -> forall i j a b, i <> j ->
    nth_error l i = Some a -> nth_error l j = Some b -> twin a b = false.
  Proof.
    induction l as [|x r IH]; intros N i j a b Hij Ha Hb; [destruct i; discriminate|].
    destruct N as [Nx Nr]. destruct i, j; cbn in *; try congruence.
    - inversion Ha; subst. apply Nx. eapply nth_error_In; eassumption.
    - inversion Hb; subst. rewrite twin_sym. apply Nx. eapply nth_error_In; eassumption.
    - apply (IH Nr i j a b); [intro E; apply Hij; now f_equal|assumption|assumption].
  Qed.

  Record PInv (its seen : list ind) : Prop := {
    pi_mutual : mutual its;
    pi_cover : forall s, In s seen ->
        exists h, In h its /\ (dominates h s = true \/ (fitness s = fitness h /\ similar s h = true));
    pi_incl : incl its seen;
    pi_undominated : forall t a, In t seen -> In a its -> dominates t a = false;
    pi_notwin : notwin its;
    pi_desc : desc its
  }.

  Lemma PInv_init : PInv [] [].
  Proof. constructor; try (intros ? []); try (intros ? ? []); try exact I. constructor. Qed.

  Lemma PInv_step n its seen x : PInv its seen -> all_len n (seen ++ [x]) ->
    PInv (pspec its x) (seen ++ [x]).
  Proof.
    intros H Ln.
    assert (Hin_seen : forall s, In s seen -> In s (seen ++ [x])) by (intros; apply in_or_app; auto).
    assert (Hin_x : In x (seen ++ [x])) by (apply in_or_app; right; now left).
    destruct H as [M C I U T D].
    assert (Li : forall a, In a its -> length (fitness a) = n) by (intros a Ha; apply Ln, Hin_seen, I, Ha).
    assert (Lx : length (fitness x) = n) by (apply Ln, Hin_x).
    assert (Ls : forall s, In s seen -> length (fitness s) = n) by (intros s Hs; apply Ln, Hin_seen, Hs).
    assert (TR : forall a b c, length (fitness a) = n -> length (fitness b) = n -> length (fitness c) = n ->
                 dominates a b = true -> dominates b c = true -> dominates a c = true).
    { intros a b c La Lb Lc. unfold dominates. apply fit_dom_trans; congruence. }
    unfold pspec.
    destruct (existsb (fun h => dominates h x) its) eqn:E1.
    { apply existsb_exists in E1. destruct E1 as (h & Hh & Dh).
      constructor; try assumption.
      - intros s Hs. apply in_app_or in Hs. destruct Hs as [Hs|[<-|[]]]; [auto|]. exists h. auto.
      - intros y Hy. apply Hin_seen, I, Hy.
      - intros t a Ht Ha. apply in_app_or in Ht. destruct Ht as [Ht|[<-|[]]]; [auto|].
        destruct (dominates x a) eqn:Dx; [|reflexivity].
        assert (dominates h a = true) by (eapply (TR h x a); auto).
        rewrite M in H by assumption. discriminate. }
    destruct (existsb (twin x) its) eqn:E2.
    { apply existsb_exists in E2. destruct E2 as (h & Hh & Th).
      unfold twin in Th. apply andb_true_iff in Th. destruct Th as [Ef Sh]. apply fit_eq_spec in Ef.
      constructor; try assumption.
      - intros s Hs. apply in_app_or in Hs. destruct Hs as [Hs|[<-|[]]]; [auto|]. exists h. auto.
      - intros y Hy. apply Hin_seen, I, Hy.
      - intros t a Ht Ha. apply in_app_or in Ht. destruct Ht as [Ht|[<-|[]]]; [auto|].
        unfold dominates. rewrite Ef. now apply M. }
    pose proof (existsb_false _ _ E1) as ND. pose proof (existsb_false _ _ E2) as NT. cbn beta in ND.
    set (f := fun h => negb (dominates x h)).
    assert (Hf : forall a, In a (filter f its) <-> In a its /\ dominates x a = false).
    { intro a. rewrite filter_In. unfold f. rewrite negb_true_iff. tauto. }
    constructor.
    - intros a b Ha Hb. apply ins_In in Ha. apply ins_In in Hb.
      destruct Ha as [->|Ha], Hb as [->|Hb].
      + apply fit_dom_irrefl.
      + apply Hf in Hb. tauto.
      + apply Hf in Ha. apply ND. tauto.
      + apply Hf in Ha. apply Hf in Hb. apply M; tauto.
    - intros s Hs. apply in_app_or in Hs. destruct Hs as [Hs|[<-|[]]].
      + destruct (C s Hs) as (h & Hh & Cov).
        destruct (dominates x h) eqn:Dx.
        * (* the covering member is removed: x dominates s *)
          exists x. split; [apply ins_In; auto|]. left. destruct Cov as [Dh|[Ef _]].
          -- eapply (TR x h s); auto.
          -- unfold dominates in *. now rewrite Ef.
        * exists h. split; [apply ins_In; right; apply Hf; auto|exact Cov].
      + exists x. split; [apply ins_In; auto|]. right. split; [reflexivity|apply sim_refl].
    - intros y Hy. apply ins_In in Hy. destruct Hy as [->|Hy]; [exact Hin_x|].
      apply Hf in Hy. apply Hin_seen, I. tauto.
    - intros t a Ht Ha. apply ins_In in Ha. apply in_app_or in Ht.
      destruct Ht as [Ht|[<-|[]]], Ha as [->|Ha].
      + (* something shown earlier cannot dominate x: its cover would dominate x *)
        destruct (dominates t x) eqn:Dt; [|reflexivity].
        destruct (C t Ht) as (h & Hh & [Dh|[Ef _]]).
        * assert (dominates h x = true) by (eapply (TR h t x); auto).
          rewrite ND in H by assumption. discriminate.
        * unfold dominates in *. rewrite Ef in Dt. rewrite ND in Dt by assumption. discriminate.
      + apply Hf in Ha. apply U; tauto.
      + apply fit_dom_irrefl.
      + apply Hf in Ha. tauto.
    - apply notwin_ins.
      + intros h Hh. apply Hf in Hh. apply NT. tauto.
      + now apply notwin_filter.
    - apply ins_desc. now apply desc_filter.
  Qed.

  Theorem PInv_run n xs : all_len n xs -> PInv (fold_left pstep xs []) xs.
  Proof.
    induction xs as [|x xs IH] using rev_ind; intro L.
    - apply PInv_init.
    - rewrite fold_left_app. cbn [fold_left].
      pose proof (IH (all_len_app _ _ _ L)) as H.
      rewrite (pstep_spec n).
      + eapply PInv_step; eassumption.
      + apply (pi_mutual _ _ H).
      + intros a Ha. apply L, in_or_app. left. apply (pi_incl _ _ H), Ha.
      + apply L, in_or_app. right. now left.
  Qed.

  (* ---------- theorems about the raw model ---------- *)
  Section History.
    Variable batches : list (list ind).
    Variable nobj : nat.
    Let seen := concat batches.
    Hypothesis same_len : forall s, In s seen -> length (fitness s) = nobj.

    Theorem pf_exact_thm :
      exists h, pf_run ind fitness similar batches = Some h /\
        (* every member is a copy of something shown that nothing shown dominates *)
        (forall a, In a (items h) -> In a seen /\ forall t, In t seen -> fit_dom (fitness t) (fitness a) = false) /\
        (* every non-dominated individual shown has a copy in the archive *)
        (forall s, In s seen -> (forall t, In t seen -> fit_dom (fitness t) (fitness s) = false) ->
                   exists a, In a (items h) /\ fitness s = fitness a /\ similar s a = true) /\
        (* one copy each *)
        (forall i j a b, i <> j -> nth_error (items h) i = Some a -> nth_error (items h) j = Some b ->
                         fitness a = fitness b -> similar a b = false).
    Proof.
      destruct (pf_run_refine ind fitness similar batches) as [E D].
      pose proof (PInv_run nobj seen same_len) as H.
      eexists. split; [exact E|]. cbn [items mirror]. split; [|split].
      - intros a Ha. split; [apply (pi_incl _ _ H), Ha|]. intros t Ht. apply (pi_undominated _ _ H); assumption.
      - intros s Hs ND. destruct (pi_cover _ _ H s Hs) as (h & Hh & [Dh|[Ef Sh]]).
        + unfold dominates in Dh. rewrite ND in Dh; [discriminate|]. apply (pi_incl _ _ H), Hh.
        + exists h. auto.
      - intros i j a b Hij Ha Hb Ef.
        pose proof (notwin_nth _ (pi_notwin _ _ H) i j a b Hij Ha Hb) as Tw.
        unfold twin in Tw. apply andb_false_iff in Tw. destruct Tw as [Tw|Tw]; [|exact Tw].
        assert (fit_eq (fitness a) (fitness b) = true) by (apply fit_eq_spec; exact Ef). congruence.
    Qed.
  End History.
End Pf.
