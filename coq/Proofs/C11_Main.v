(* C11 — the statements of Props/C11.v assembled from the lemma files. *)
From Coq Require Import List ZArith NArith Bool Lia.
From DV Require Import Model.C11_GPTree Proofs.C11_Tree Proofs.C11_Gen Proofs.C11_Ops Proofs.C11_Cx.
Import ListNotations.
Local Open Scope Z_scope.

Lemma search_subtree_span c u : wft (plug c u) ->
  let b := length (cpre c) in
  search_subtree (flatten (plug c u)) b = Ok (b, (b + size u)%nat) /\
  get_slice (flatten (plug c u)) b (b + size u) = flatten u /\
  nth_error (flatten (plug c u)) b = Some (root u).
Proof. intro H. cbv zeta. split; [apply search_plug; auto|]. split; [apply get_slice_plug|apply nth_plug]. Qed.

(* the same through Python's index convention: b or b - len *)
Lemma search_subtree_py_span c u : wft (plug c u) ->
  let l := flatten (plug c u) in let b := length (cpre c) in
  search_subtree_py l (Z.of_nat b) = Ok (b, (b + size u)%nat) /\
  search_subtree_py l (Z.of_nat b - zlen l) = Ok (b, (b + size u)%nat) /\
  (forall i, i < - zlen l -> search_subtree_py l i = Err EIndex).
Proof.
  intro H. cbv zeta. pose proof (search_plug c u H) as S.
  assert (L : (length (cpre c) < length (flatten (plug c u)))%nat).
  { rewrite flatten_plug, !app_length, length_flatten. pose proof (size_pos u). lia. }
  unfold search_subtree_py, zlen. repeat split.
  - replace (Z.of_nat (length (cpre c)) <? 0) with false by (symmetry; apply Z.ltb_ge; lia).
    replace (Z.of_nat (length (cpre c)) <? 0) with false by (symmetry; apply Z.ltb_ge; lia).
    rewrite Nat2Z.id. exact S.
  - replace (Z.of_nat (length (cpre c)) - Z.of_nat (length (flatten (plug c u))) <? 0) with true
      by (symmetry; apply Z.ltb_lt; lia).
    replace (Z.of_nat (length (cpre c)) - Z.of_nat (length (flatten (plug c u))) + Z.of_nat (length (flatten (plug c u))))
      with (Z.of_nat (length (cpre c))) by lia.
    replace (Z.of_nat (length (cpre c)) <? 0) with false by (symmetry; apply Z.ltb_ge; lia).
    rewrite Nat2Z.id. exact S.
  - intros i Hi. replace (i <? 0) with true by (symmetry; apply Z.ltb_lt; lia).
    replace (i + Z.of_nat (length (flatten (plug c u))) <? 0) with true by (symmetry; apply Z.ltb_lt; lia).
    reflexivity.
Qed.

Lemma every_index_roots_a_subtree t i : (i < length (flatten t))%nat ->
  exists c u, t = plug c u /\ length (cpre c) = i.
Proof. rewrite length_flatten. apply decompose. Qed.

Lemma height_is_depth t : wft t ->
  height (flatten t) = Ok (theight t) /\
  Forall (fun d => 0 <= d <= theight t) (node_depths 0 t) /\ In (theight t) (node_depths 0 t).
Proof.
  intro H. split; [apply height_flatten; auto|]. split.
  - pose proof (node_depths_bound t 0) as B. eapply Forall_impl; [|exact B]. cbn. intros; lia.
  - pose proof (node_depths_attained t 0) as A. exact A.
Qed.

(* a wrapped operator: closure of the operator gives closure of the wrapped one *)
Lemma static_limit_closed (P : list node -> Prop) k maxv op inputs ds res ds' :
  Forall P inputs ->
  (forall outs ds1, op inputs ds = Ok (outs, ds1) -> Forall P outs) ->
  static_limit k maxv op inputs ds = Ok (res, ds') -> Forall P res.
Proof.
  intros Hin Hop H. apply static_limit_spec in H. destruct H as (outs & ds1 & Ho & HF).
  specialize (Hop _ _ Ho). rewrite Forall_forall in Hin. clear Ho. revert Hop.
  induction HF as [|o r outs res Hor _ IH]; intro Hop; constructor.
  - inversion Hop; subst. destruct Hor as [[-> _]|Hk]; auto.
  - inversion Hop; subst. auto.
Qed.
