(* Tie (T) of property C10: every definition regenerated from deap/tools/crossover.py and
   deap/tools/mutation.py (coq/Gen/C10_gen.v, written by harness/c10_py2coq.py on every run) equals the
   hand-written model the C10 theorems are stated about -- for every number record [O : ops T], every
   argument and every event stream:      Gen.<f> O args s = Model.<f> O args s.
   Compiled on every run, after regeneration.

   Structure
   * the loops: the regenerated code iterates [for_list] over indices / zipped bounds and reads and writes
     the lists by position ([getitem] / [setitem]); the model recurses on the lists.  For each loop shape one
     lemma, by induction, generic in the loop body [body], under a hypothesis that says what [body] does at
     one position (what it reads there, which per-gene action of the model it performs, that it writes the
     results back at that position and nowhere else);
   * [mcrush]: decides  lhs s = rhs s  between two monadic programs by case analysis on what the programs
     themselves inspect, in execution order (the next event of the stream, the result of a division / power /
     comparison, scalar-or-sequence arguments), after the loops have been rewritten with these lemmas.  It does
     not depend on the names of locals, on pure subexpressions being named or inlined, on the nesting of
     `if`/`else` against early `continue`, or on index loops against zip loops: such rewrites of the source
     still go through.  Reordering of effects (draws, powers, divisions), changed comparisons, constants or
     formulas do not. *)
From Coq Require Import List Bool Arith Lia PrimFloat.
From DV Require Import Model.C10_RealOps Model.C10_PyRt Gen.C10_gen.
Import ListNotations.
Local Open Scope m_scope.

(* ---------------------------------------------------------------------------------------------- *)
(* positions                                                                                        *)
(* ---------------------------------------------------------------------------------------------- *)
Lemma upd_app {A} (p : list A) x r v : upd (p ++ x :: r) (length p) v = p ++ v :: r.
Proof. induction p as [|y p IH]; cbn; [reflexivity|]. now rewrite IH. Qed.

Lemma nth_error_mid {A} (p : list A) x r : nth_error (p ++ x :: r) (length p) = Some x.
Proof. induction p as [|y p IH]; cbn; [reflexivity|exact IH]. Qed.

Lemma upd_same {A} (l : list A) i x : nth_error l i = Some x -> upd l i x = l.
Proof.
  revert i; induction l as [|y l IH]; intros [|i] H; cbn in *; try discriminate.
  - now inversion H.
  - now rewrite IH.
Qed.

Lemma length_upd {A} (l : list A) i v : length (upd l i v) = length l.
Proof. revert i; induction l as [|y l IH]; intros [|i]; cbn; auto. Qed.

Lemma nth_error_upd_same {A} (l : list A) i v :
  nth_error (upd l i v) i = match nth_error l i with Some _ => Some v | None => None end.
Proof. revert i; induction l as [|y l IH]; intros [|i]; cbn; auto. Qed.

Lemma upd_upd {A} (l : list A) i v w : upd (upd l i v) i w = upd l i w.
Proof. revert i; induction l as [|y l IH]; intros [|i]; cbn; auto. now rewrite IH. Qed.

Lemma app_cons_assoc {A} (p : list A) x r : p ++ x :: r = (p ++ [x]) ++ r.
Proof. now rewrite <- app_assoc. Qed.

Lemma length_snoc {A} (p : list A) x : length (p ++ [x]) = S (length p).
Proof. rewrite app_length; cbn; lia. Qed.

(* ---------------------------------------------------------------------------------------------- *)
(* the one law of the number record that is used (only for mutESLogNormal): a division either returns *)
(* or raises ZeroDivisionError -- so two adjacent divisions may be written in either order.  It holds *)
(* for the float and the real instance ([div_lawful_FOps] below, [div_lawful_ROps] in C10_gen_props).  *)
(* ---------------------------------------------------------------------------------------------- *)
Definition div_lawful {T} (O : ops T) : Prop :=
  forall a b, match o_div T O a b with Ok _ => True | Raise e => e = ZeroDiv | Stuck => False end.

Lemma div_lawful_FOps : div_lawful FOps.
Proof. intros a b. cbn. unfold fdiv. destruct (PrimFloat.eqb b 0); exact I || reflexivity. Qed.

(* after a case analysis with equation E: if E is about a division and the law is among the hypotheses, use it *)
Ltac div_law_on E :=
  lazymatch type of E with
  | o_div _ ?O ?a ?b = Raise ?e =>
      match goal with
      | DL : div_lawful O |- _ =>
          let L := fresh "L" in pose proof (DL a b) as L; rewrite E in L; cbv beta iota in L; subst e
      end
  | o_div _ ?O ?a ?b = Stuck =>
      match goal with
      | DL : div_lawful O |- _ =>
          let L := fresh "L" in pose proof (DL a b) as L; rewrite E in L; cbv beta iota in L; destruct L
      end
  | _ => idtac
  end.

(* ---------------------------------------------------------------------------------------------- *)
(* mcrush                                                                                           *)
(* ---------------------------------------------------------------------------------------------- *)
(* the scrutinee the term inspects first: [t] is a match (possibly applied to arguments, as monadic actions
   are functions of the stream) whose scrutinee is again such a match, ... *)
Ltac match_head t kyes kno :=
  lazymatch t with
  | match ?x with _ => _ end => kyes x
  | ?f _ => match_head f kyes kno
  | _ => kno tt
  end.

Ltac head_scrut t k := match_head t ltac:(fun x => head_scrut x k) ltac:(fun _ => k t).

Ltac destruct_head t :=
  match_head t
    ltac:(fun x => head_scrut x ltac:(fun y => first [ is_var y; destruct y
                                                      | let E := fresh "E" in destruct y eqn:E; try div_law_on E ]))
    ltac:(fun _ => fail).

Ltac use_eqns :=
  repeat match goal with
         | E : ?x = _ |- context [match ?x with _ => _ end] => rewrite E
         end.

Ltac mnorm :=
  cbv beta iota zeta delta [negb andb orb];
  rewrite ?nth_error_upd_same, ?length_upd;
  use_eqns;
  cbv beta iota zeta delta [negb andb orb].

Ltac mfinish :=
  rewrite ?upd_upd;
  repeat (erewrite upd_same by eassumption);
  first [ reflexivity | congruence ].

Ltac munfold :=
  unfold getitem, setitem, draw_random, draw_gauss, expand, clip, pymin, pymax, bind, ret, raise, lift, stuck.

Ltac mcrush_with rew :=
  munfold;
  repeat (mnorm;
          lazymatch goal with
          | |- ?l = ?r => first [ progress rew | destruct_head l | destruct_head r ]
          end);
  lazymatch goal with
  | |- _ = _ => mnorm; mfinish
  | _ => idtac            (* a side condition of a loop lemma: left to the caller *)
  end.

(* [lem]: a loop lemma applied to the model's per-gene action, still expecting the loop body and its
   characterisation; [unf]: unfolds that per-gene action.  The characterisation of the body is proved once, up
   front, when the body does not depend on anything computed by effects before the loop; otherwise wherever the
   loop is reached. *)
Ltac loop_equiv lem unf :=
  first [ match goal with
          | |- context [for_list _ ?b _] =>
              let H := fresh "Hloop" in
              pose proof (lem b) as H;
              match type of H with
              | ?P -> _ => let HP := fresh "HP" in
                           assert (HP : P); [ | specialize (H HP); clear HP; mcrush_with ltac:(rewrite H) ]
              end
          end
        | mcrush_with ltac:(rewrite lem) ];
  intros; unf; mcrush_with idtac.

Section Equiv.
  Context {T : Type} (O : ops T).
  Local Notation M := (M T).

  (* ---- two lists, by index:  for i, (x1, x2) in enumerate(zip(ind1, ind2))  /  for i in range(min(len, len)) -- *)
  Section Idx2.
    Variable f : T -> T -> M (T * T).
    Variable body : nat -> list T * list T -> M (list T * list T).
    Hypothesis body_at : forall i l1 l2 a b s, nth_error l1 i = Some a -> nth_error l2 i = Some b ->
      body i (l1, l2) s = ('(c1, c2) <- f a b ;; ret (upd l1 i c1, upd l2 i c2)) s.

    Lemma for_idx2_gen : forall r1 r2 p1 p2 s, length p1 = length p2 ->
      for_list (seq (length p1) (Nat.min (length r1) (length r2))) body (p1 ++ r1, p2 ++ r2) s =
      ('(c1, c2) <- zip2M f r1 r2 ;; ret (p1 ++ c1, p2 ++ c2)) s.
    Proof.
      induction r1 as [|a r1 IH]; intros [|b r2] p1 p2 s L; try reflexivity.
      cbn [length Nat.min seq for_list zip2M].
      unfold bind at 1. rewrite (body_at _ _ _ a b).
      2: apply nth_error_mid. 2: rewrite L; apply nth_error_mid.
      unfold bind, ret in *. destruct (f a b s) as [[[c1 c2] s1]| |]; try reflexivity.
      rewrite upd_app, L, upd_app, <- L.
      rewrite (app_cons_assoc p1), (app_cons_assoc p2), <- (length_snoc p1 c1).
      rewrite IH by (rewrite !length_snoc; now f_equal).
      destruct (zip2M f r1 r2 s1) as [[[d1 d2] s2]| |]; try reflexivity.
      now rewrite <- !app_cons_assoc.
    Qed.

    Lemma for_idx2 l1 l2 s :
      for_list (seq 0 (Nat.min (length l1) (length l2))) body (l1, l2) s = zip2M f l1 l2 s.
    Proof.
      change (for_list (seq (length (@nil T)) (Nat.min (length l1) (length l2))) body ([] ++ l1, [] ++ l2) s = zip2M f l1 l2 s).
      rewrite (for_idx2_gen l1 l2 [] [] s eq_refl). unfold bind, ret.
      destruct (zip2M f l1 l2 s) as [[[d1 d2] s2]| |]; reflexivity.
    Qed.
  End Idx2.

  (* ---- two lists under zipped bounds:  for i, xl, xu in zip(range(size), low, up)  with size = min(len, len) ---- *)
  Section Zip3_2.
    Variable f : T -> T -> T -> T -> M (T * T).
    Variable body : nat * T * T -> list T * list T -> M (list T * list T).
    Hypothesis body_at : forall i xl xu l1 l2 a b s, nth_error l1 i = Some a -> nth_error l2 i = Some b ->
      body (i, xl, xu) (l1, l2) s = ('(c1, c2) <- f xl xu a b ;; ret (upd l1 i c1, upd l2 i c2)) s.

    Lemma for_zip3_2_gen : forall r1 r2 lows ups p1 p2 s, length p1 = length p2 ->
      for_list (zip3 (seq (length p1) (Nat.min (length r1) (length r2))) lows ups) body (p1 ++ r1, p2 ++ r2) s =
      ('(c1, c2) <- zip2bM f (firstn (Nat.min (length r1) (length r2)) lows)
                             (firstn (Nat.min (length r1) (length r2)) ups) r1 r2 ;;
       ret (p1 ++ c1, p2 ++ c2)) s.
    Proof.
      induction r1 as [|a r1 IH]; intros [|b r2] lows ups p1 p2 s L; try reflexivity.
      cbn [length Nat.min seq].
        destruct lows as [|xl lows]; [reflexivity|]. destruct ups as [|xu ups]; [reflexivity|].
        cbn [zip3 combine firstn for_list zip2bM]. fold (zip3 (seq (S (length p1)) (Nat.min (length r1) (length r2))) lows ups).
        unfold bind at 1. rewrite (body_at _ _ _ _ _ a b).
        2: apply nth_error_mid. 2: rewrite L; apply nth_error_mid.
        unfold bind, ret in *. destruct (f xl xu a b s) as [[[c1 c2] s1]| |]; try reflexivity.
        rewrite upd_app, L, upd_app, <- L.
        rewrite (app_cons_assoc p1), (app_cons_assoc p2), <- (length_snoc p1 c1).
        rewrite IH by (rewrite !length_snoc; now f_equal).
        destruct (zip2bM f _ _ r1 r2 s1) as [[[d1 d2] s2]| |]; try reflexivity.
        now rewrite <- !app_cons_assoc.
    Qed.

    Lemma for_zip3_2 l1 l2 lows ups s :
      for_list (zip3 (seq 0 (Nat.min (length l1) (length l2))) lows ups) body (l1, l2) s =
      zip2bM f (firstn (Nat.min (length l1) (length l2)) lows) (firstn (Nat.min (length l1) (length l2)) ups) l1 l2 s.
    Proof.
      change (for_list (zip3 (seq (length (@nil T)) (Nat.min (length l1) (length l2))) lows ups) body ([] ++ l1, [] ++ l2) s = 
              zip2bM f (firstn (Nat.min (length l1) (length l2)) lows) (firstn (Nat.min (length l1) (length l2)) ups) l1 l2 s).
      rewrite (for_zip3_2_gen l1 l2 lows ups [] [] s eq_refl). unfold bind, ret.
      destruct (zip2bM f _ _ l1 l2 s) as [[[d1 d2] s2]| |]; reflexivity.
    Qed.
  End Zip3_2.

  (* ---- one list under zipped parameters:  for i, m, s in zip(range(len(individual)), mu, sigma) ---- *)
  Section Zip3_1.
    Variable f : T -> T -> T -> M T.
    Variable body : nat * T * T -> list T -> M (list T).
    Hypothesis body_at : forall i m sg l x s, nth_error l i = Some x ->
      body (i, m, sg) l s = (y <- f m sg x ;; ret (upd l i y)) s.

    Lemma for_zip3_1_gen : forall r ms ss p s,
      for_list (zip3 (seq (length p) (length r)) ms ss) body (p ++ r) s =
      (c <- map2bM f ms ss r ;; ret (p ++ c)) s.
    Proof.
      induction r as [|x r IH]; intros ms ss p s.
      - destruct ms, ss; reflexivity.
      - cbn [length seq].
        destruct ms as [|m ms]; [reflexivity|]. destruct ss as [|sg ss]; [reflexivity|].
        cbn [zip3 combine for_list map2bM]. fold (zip3 (seq (S (length p)) (length r)) ms ss).
        unfold bind at 1. rewrite (body_at _ _ _ _ x) by apply nth_error_mid.
        unfold bind, ret in *. destruct (f m sg x s) as [[y s1]| |]; try reflexivity.
        rewrite upd_app, (app_cons_assoc p), <- (length_snoc p y), IH.
        destruct (map2bM f ms ss r s1) as [[d s2]| |]; try reflexivity.
        now rewrite <- !app_cons_assoc.
    Qed.

    Lemma for_zip3_1 l ms ss s :
      for_list (zip3 (seq 0 (length l)) ms ss) body l s = map2bM f ms ss l s.
    Proof.
      change (for_list (zip3 (seq (length (@nil T)) (length l)) ms ss) body ([] ++ l) s = map2bM f ms ss l s).
      rewrite (for_zip3_1_gen l ms ss [] s). unfold bind, ret.
      destruct (map2bM f ms ss l s) as [[d s2]| |]; reflexivity.
    Qed.
  End Zip3_1.

  (* ---- four lists by index (cxESBlend): zip(ind1, ind1.strategy, ind2, ind2.strategy) ---- *)
  Section Idx4.
    Variable alpha : T.
    Variable body : nat -> list T * list T * list T * list T -> M (list T * list T * list T * list T).
    Hypothesis body_at : forall i g1 s1 g2 s2 x1 t1 x2 t2 s,
      nth_error g1 i = Some x1 -> nth_error s1 i = Some t1 -> nth_error g2 i = Some x2 -> nth_error s2 i = Some t2 ->
      body i (g1, s1, g2, s2) s =
      ('(c1, c2) <- blend_gene O alpha x1 x2 ;; '(d1, d2) <- blend_gene O alpha t1 t2 ;;
       ret (upd g1 i c1, upd s1 i d1, upd g2 i c2, upd s2 i d2)) s.

    Definition min4len (a b c d : list T) : nat :=
      Nat.min (Nat.min (Nat.min (length a) (length b)) (length c)) (length d).

    Lemma for_idx4_gen : forall g1 s1 g2 s2 pg1 ps1 pg2 ps2 s,
      length ps1 = length pg1 -> length pg2 = length pg1 -> length ps2 = length pg1 ->
      for_list (seq (length pg1) (min4len g1 s1 g2 s2)) body (pg1 ++ g1, ps1 ++ s1, pg2 ++ g2, ps2 ++ s2) s =
      ('(a, b, c, d) <- cx_es_blend O alpha g1 s1 g2 s2 ;; ret (pg1 ++ a, ps1 ++ b, pg2 ++ c, ps2 ++ d)) s.
    Proof.
      unfold min4len.
      induction g1 as [|x1 g1 IH]; intros s1 g2 s2 pg1 ps1 pg2 ps2 s L1 L2 L3; [reflexivity|].
      destruct s1 as [|t1 s1]; [reflexivity|]. destruct g2 as [|x2 g2]; [reflexivity|].
      destruct s2 as [|t2 s2]; [cbn [length Nat.min]; rewrite ?Nat.min_0_r; reflexivity|].
      cbn [length Nat.min seq for_list cx_es_blend].
      unfold bind at 1. rewrite (body_at _ _ _ _ _ x1 t1 x2 t2).
      2: apply nth_error_mid. 2: rewrite <- L1; apply nth_error_mid.
      2: rewrite <- L2; apply nth_error_mid. 2: rewrite <- L3; apply nth_error_mid.
      unfold bind, ret in *.
      destruct (blend_gene O alpha x1 x2 s) as [[[c1 c2] s']| |]; try reflexivity.
      destruct (blend_gene O alpha t1 t2 s') as [[[d1 d2] s'']| |]; try reflexivity.
      rewrite upd_app, <- L1, upd_app, L1, <- L2, upd_app, L2, <- L3, upd_app, L3.
      rewrite (app_cons_assoc pg1), (app_cons_assoc ps1), (app_cons_assoc pg2), (app_cons_assoc ps2),
        <- (length_snoc pg1 c1).
      rewrite IH by (rewrite !length_snoc; now f_equal).
      destruct (cx_es_blend O alpha g1 s1 g2 s2 s'') as [[[[[a b] c] d] s3]| |]; try reflexivity.
      now rewrite <- !app_cons_assoc.
    Qed.

    Lemma for_idx4 g1 s1 g2 s2 s :
      for_list (seq 0 (Nat.min (Nat.min (Nat.min (length g1) (length s1)) (length g2)) (length s2))) body (g1, s1, g2, s2) s =
      cx_es_blend O alpha g1 s1 g2 s2 s.
    Proof.
      change (for_list (seq (length (@nil T)) (min4len g1 s1 g2 s2)) body ([] ++ g1, [] ++ s1, [] ++ g2, [] ++ s2) s =
              cx_es_blend O alpha g1 s1 g2 s2 s).
      rewrite (for_idx4_gen g1 s1 g2 s2 [] [] [] [] s eq_refl eq_refl eq_refl). unfold bind, ret.
      destruct (cx_es_blend O alpha g1 s1 g2 s2 s) as [[[[[a b] c] d] s3]| |]; reflexivity.
    Qed.
  End Idx4.

  (* ---- mutESLogNormal: for indx in range(len(individual)), genes and strategies by index; the strategy
     list may be shorter than the individual (IndexError at the first selected gene past its end) ---- *)
  Section ESLog.
    Variables t t0n indpb : T.
    Variable body : nat -> list T * list T -> M (list T * list T).
    Hypothesis body_at : forall i g st x s, nth_error g i = Some x ->
      body i (g, st) s =
      (u <- draw_random ;;
       if o_ltb T O u indpb then
         match nth_error st i with
         | None => raise IndexErr
         | Some sg =>
             n1 <- draw_gauss O (o_c0 T O) (o_one T O) ;;
             e <- o_exp T O (o_add T O t0n (o_mul T O t n1)) ;;
             n2 <- draw_gauss O (o_c0 T O) (o_one T O) ;;
             ret (upd g i (o_add T O x (o_mul T O (o_mul T O sg e) n2)), upd st i (o_mul T O sg e))
         end
       else ret (g, st)) s.

    Lemma nth_error_past {A} (p : list A) k : length p <= k -> nth_error (p ++ []) k = None.
    Proof. intro L. apply nth_error_None. rewrite app_nil_r. exact L. Qed.

    Lemma for_eslog_gen : forall rg rs pg ps s,
      (length ps = length pg \/ (rs = [] /\ length ps <= length pg)) ->
      for_list (seq (length pg) (length rg)) body (pg ++ rg, ps ++ rs) s =
      ('(g', s') <- eslog_loop O t t0n indpb rg rs ;; ret (pg ++ g', ps ++ s')) s.
    Proof.
      induction rg as [|x rg IH]; intros rs pg ps s L; [reflexivity|].
      cbn [length seq for_list eslog_loop].
      unfold bind at 1. rewrite (body_at _ _ _ x) by apply nth_error_mid.
      unfold draw_random, bind, ret, raise in *.
      destruct s as [|[u| | |] s]; try reflexivity.
      destruct (o_ltb T O u indpb).
      - (* selected *)
        destruct rs as [|sg rs].
        + destruct L as [L|[_ L]]; [rewrite nth_error_past by lia|rewrite nth_error_past by exact L]; reflexivity.
        + destruct L as [L|[L _]]; [|discriminate L].
          rewrite <- L, nth_error_mid.
          destruct (draw_gauss O (o_c0 T O) (o_one T O) s) as [[n1 s1]| |]; try reflexivity.
          destruct (o_exp T O _ s1) as [[e s2]| |]; try reflexivity.
          destruct (draw_gauss O (o_c0 T O) (o_one T O) s2) as [[n2 s3]| |]; try reflexivity.
          rewrite upd_app, L, upd_app.
          rewrite (app_cons_assoc pg), (app_cons_assoc ps).
          match goal with |- context [pg ++ [?v]] => rewrite <- (length_snoc pg v) end.
          rewrite IH by (left; rewrite !length_snoc; now f_equal).
          destruct (eslog_loop O t t0n indpb rg rs s3) as [[[g' s'] s4]| |]; try reflexivity.
          now rewrite <- !app_cons_assoc.
      - (* not selected *)
        rewrite (app_cons_assoc pg), <- (length_snoc pg x).
        destruct rs as [|sg rs].
        + rewrite IH by (right; split; [reflexivity|]; rewrite length_snoc; destruct L as [L|[_ L]]; lia).
          destruct (eslog_loop O t t0n indpb rg [] s) as [[[g' s'] s4]| |]; try reflexivity.
          now rewrite <- !app_cons_assoc.
        + destruct L as [L|[L _]]; [|discriminate L].
          rewrite (app_cons_assoc ps).
          rewrite IH by (left; rewrite !length_snoc; now f_equal).
          destruct (eslog_loop O t t0n indpb rg rs s) as [[[g' s'] s4]| |]; try reflexivity.
          now rewrite <- !app_cons_assoc.
    Qed.

    Lemma for_eslog g st s :
      for_list (seq 0 (length g)) body (g, st) s = eslog_loop O t t0n indpb g st s.
    Proof.
      change (for_list (seq (length (@nil T)) (length g)) body ([] ++ g, [] ++ st) s = eslog_loop O t t0n indpb g st s).
      rewrite (for_eslog_gen g st [] [] s (or_introl eq_refl)). unfold bind, ret.
      destruct (eslog_loop O t t0n indpb g st s) as [[[g' s'] s4]| |]; reflexivity.
    Qed.
  End ESLog.

  (* ---------------- cxBlend ---------------- *)
  Lemma gen_cxBlend ind1 ind2 alpha s : cxBlend O ind1 ind2 alpha s = cx_blend O alpha ind1 ind2 s.
  Proof.
    unfold cxBlend, cx_blend.
    loop_equiv (for_idx2 (blend_gene O alpha)) ltac:(unfold blend_gene).
  Qed.

  (* ---------------- cxSimulatedBinary ---------------- *)
  Lemma gen_cxSimulatedBinary ind1 ind2 eta s :
    cxSimulatedBinary O ind1 ind2 eta s = cx_sbx O eta ind1 ind2 s.
  Proof.
    unfold cxSimulatedBinary, cx_sbx.
    loop_equiv (for_idx2 (sbx_gene O eta)) ltac:(unfold sbx_gene).
  Qed.

  (* ---------------- cxSimulatedBinaryBounded ---------------- *)
  Lemma gen_cxSimulatedBinaryBounded ind1 ind2 eta low up s :
    cxSimulatedBinaryBounded O ind1 ind2 eta low up s = cx_sbx_bounded O eta low up ind1 ind2 s.
  Proof.
    unfold cxSimulatedBinaryBounded, cx_sbx_bounded.
    loop_equiv (for_zip3_2 (sbxb_gene O eta)) ltac:(unfold sbxb_gene, sbxb_betaq, clip).
  Qed.

  (* ---------------- mutGaussian ---------------- *)
  Lemma gen_mutGaussian individual mu sigma indpb s :
    mutGaussian O individual mu sigma indpb s = mut_gaussian O mu sigma indpb individual s.
  Proof.
    unfold mutGaussian, mut_gaussian.
    loop_equiv (for_zip3_1 (gauss_gene O indpb)) ltac:(unfold gauss_gene).
  Qed.

  (* ---------------- mutPolynomialBounded ---------------- *)
  Lemma gen_mutPolynomialBounded individual eta low up indpb s :
    mutPolynomialBounded O individual eta low up indpb s = mut_poly O eta low up indpb individual s.
  Proof.
    unfold mutPolynomialBounded, mut_poly.
    loop_equiv (for_zip3_1 (poly_gene O eta indpb)) ltac:(unfold poly_gene, clip).
  Qed.

  (* ---------------- cxESBlend ---------------- *)
  Lemma gen_cxESBlend ind1 st1 ind2 st2 alpha s :
    cxESBlend O ind1 st1 ind2 st2 alpha s = cx_es_blend O alpha ind1 st1 ind2 st2 s.
  Proof.
    unfold cxESBlend.
    loop_equiv (for_idx4 alpha) ltac:(unfold blend_gene).
  Qed.

  (* ---------------- mutESLogNormal ---------------- *)
  Lemma gen_mutESLogNormal individual st c indpb s : div_lawful O ->
    mutESLogNormal O individual st c indpb s = mut_es_lognormal O c indpb individual st s.
  Proof.
    intro DL. unfold mutESLogNormal, mut_es_lognormal.
    mcrush_with ltac:(idtac; match goal with
                      | |- context [eslog_loop O ?t ?t0n ?p _ _ _] => rewrite (for_eslog t t0n p)
                      end).
    all: intros; mcrush_with idtac.
  Qed.
End Equiv.
