(* C13 — the population sort of the executable model at Coq's real numbers: CPython's tuple
   comparison on real tuples is a strict total order, so the hypotheses of
   sort_pop_order_independent hold and order independence needs only pairwise distinct fitnesses. *)
From Coq Require Import Reals List Lra Lia Permutation Bool.
From DV Require Import Model.C13_CMAexec Proofs.C13_CMAexec Proofs.C13_WeightsR.
Import ListNotations.
Local Open Scope R_scope.

Definition lexR := lex_ltb RNum.

Lemma ltbR x y : n_ltb RNum x y = true <-> x < y.
Proof. cbn. destruct (Rlt_dec x y); split; auto; discriminate. Qed.
Lemma eqbR x y : n_eqb RNum x y = true <-> x = y.
Proof. cbn. destruct (Req_EM_T x y); split; auto; discriminate. Qed.

Lemma lexR_cons x a y b :
  lexR (x :: a) (y :: b) = if n_eqb RNum x y then lexR a b else n_ltb RNum x y.
Proof. reflexivity. Qed.

Lemma lexR_irrefl a : lexR a a = false.
Proof.
  induction a as [|x a IH]; [reflexivity|]. rewrite lexR_cons.
  destruct (n_eqb RNum x x) eqn:E; [exact IH|].
  destruct (n_ltb RNum x x) eqn:L; [|reflexivity]. apply ltbR in L. lra.
Qed.

Lemma lexR_trichotomy a b : lexR a b = true \/ a = b \/ lexR b a = true.
Proof.
  revert b; induction a as [|x a IH]; intros [|y b]; cbn; auto.
  fold lexR. change (lex_ltb RNum a b) with (lexR a b). change (lex_ltb RNum b a) with (lexR b a).
  destruct (Req_EM_T x y) as [->|N].
  - destruct (Req_EM_T y y) as [_|N']; [|congruence].
    destruct (IH b) as [H|[->|H]]; auto.
  - destruct (Req_EM_T y x) as [E|_]; [congruence|].
    destruct (Rlt_dec x y); auto. destruct (Rlt_dec y x); auto. lra.
Qed.

Lemma lexR_trans a b c : lexR a b = true -> lexR b c = true -> lexR a c = true.
Proof.
  revert b c; induction a as [|x a IH]; intros [|y b] [|z c]; try discriminate; auto.
  rewrite !lexR_cons.
  destruct (n_eqb RNum x y) eqn:Exy; destruct (n_eqb RNum y z) eqn:Eyz.
  - apply eqbR in Exy, Eyz. subst. rewrite (proj2 (eqbR z z) eq_refl). apply IH.
  - apply eqbR in Exy. subst. rewrite Eyz. auto.
  - apply eqbR in Eyz. subst. rewrite Exy. auto.
  - intros H1 H2. apply ltbR in H1, H2.
    destruct (n_eqb RNum x z) eqn:Exz; [apply eqbR in Exz; lra|]. apply ltbR. lra.
Qed.

Lemma lexR_asym a b : lexR a b = true -> lexR b a = false.
Proof.
  intro H. destruct (lexR b a) eqn:E; [|reflexivity].
  pose proof (lexR_trans _ _ _ H E) as C. rewrite lexR_irrefl in C. discriminate.
Qed.

Lemma lexR_negtrans a b c : lexR a b = false -> lexR b c = false -> lexR a c = false.
Proof.
  intros H1 H2. destruct (lexR a c) eqn:E; [|reflexivity].
  destruct (lexR_trichotomy a b) as [H|[->|H]]; [congruence|congruence|].
  pose proof (lexR_trans _ _ _ H E). congruence.
Qed.

(* order independence with no hypothesis on the comparison: any two arrangements of a population
   whose fitness tuples are pairwise distinct sort to the same list, hence give the same update *)
Theorem sort_pop_order_independent_R (pop1 pop2 : list (list R * list R)) :
  Permutation pop1 pop2 ->
  (forall a b, In a pop1 -> In b pop1 -> fst a = fst b -> a = b) ->
  sort_pop RNum pop1 = sort_pop RNum pop2.
Proof.
  intros Hp Hd. apply sort_pop_order_independent; auto.
  - intros a b c. apply lexR_negtrans.
  - intros a b. apply lexR_asym.
  - intros a b Ha Hb H1 H2. apply Hd; auto.
    destruct (lexR_trichotomy (fst a) (fst b)) as [H|[H|H]]; auto; unfold lexR in H; congruence.
Qed.

Theorem update_order_independent_R eigh P st (pop1 pop2 : list (list R * list R)) :
  Permutation pop1 pop2 ->
  (forall a b, In a pop1 -> In b pop1 -> fst a = fst b -> a = b) ->
  update RNum eigh P st pop1 = update RNum eigh P st pop2.
Proof. intros Hp Hd. unfold update. now rewrite (sort_pop_order_independent_R pop1 pop2 Hp Hd). Qed.
