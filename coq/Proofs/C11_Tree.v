(* C11 — inductive trees behind the prefix lists: flattening, well-formedness, typing, one-hole
   contexts, and the two loops of PrimitiveTree (searchSubtree, height) on flattened trees. *)
From Coq Require Import List ZArith NArith Bool Lia.
From DV Require Import Model.C11_GPTree.
From DV Require Export Model.C11_Spec.
Import ListNotations.
Local Open Scope Z_scope.

Section tree_ind.
  Variable P : tree -> Prop.
  Hypothesis H : forall n ks, Forall P ks -> P (T n ks).
  Fixpoint tree_ind' (t : tree) : P t :=
    match t with
    | T n ks => H n ks ((fix go (ks : list tree) : Forall P ks :=
                           match ks with
                           | [] => Forall_nil P
                           | k :: r => Forall_cons k (tree_ind' k) (go r)
                           end) ks)
    end.
End tree_ind.

Definition root (t : tree) : node := match t with T n _ => n end.
Definition kids (t : tree) : list tree := match t with T _ ks => ks end.

Fixpoint flatten (t : tree) : list node :=
  match t with T n ks => n :: flat_map flatten ks end.
Definition ff (ks : list tree) : list node := flat_map flatten ks.

Fixpoint size (t : tree) : nat :=
  match t with T n ks => S (list_sum (map size ks)) end.
Definition sizes (ks : list tree) : nat := list_sum (map size ks).

(* complete: every node has exactly `arity` children *)
Fixpoint wft (t : tree) : Prop :=
  match t with
  | T n ks => length ks = arity n /\
              (fix all (ks : list tree) : Prop :=
                 match ks with [] => True | k :: r => wft k /\ all r end) ks
  end.

Lemma wft_unfold n ks : wft (T n ks) <-> length ks = arity n /\ Forall wft ks.
Proof.
  cbn [wft]. split; intros [H1 H2]; split; auto; clear H1.
  - induction ks as [|k r IH]; [constructor|]. destruct H2. constructor; auto.
  - induction H2; auto.
Qed.

(* height = depth of the deepest node (root at depth 0) *)
Fixpoint theight (t : tree) : Z :=
  match t with T n ks => fold_right Z.max 0 (map (fun k => 1 + theight k) ks) end.

(* depths of all nodes, in prefix order, for a tree whose root sits at depth d *)
Fixpoint node_depths (d : Z) (t : tree) : list Z :=
  match t with T n ks => d :: flat_map (node_depths (d + 1)) ks end.
(* depths of the leaves *)
Fixpoint leaf_depths (d : Z) (t : tree) : list Z :=
  match t with
  | T n [] => [d]
  | T n ks => flat_map (leaf_depths (d + 1)) ks
  end.

Lemma ff_cons k ks : ff (k :: ks) = flatten k ++ ff ks.
Proof. reflexivity. Qed.
Lemma ff_app a b : ff (a ++ b) = ff a ++ ff b.
Proof. unfold ff. apply flat_map_app. Qed.
Lemma sizes_cons k ks : sizes (k :: ks) = (size k + sizes ks)%nat.
Proof. reflexivity. Qed.
Lemma sizes_app a b : sizes (a ++ b) = (sizes a + sizes b)%nat.
Proof. unfold sizes. rewrite map_app, list_sum_app. reflexivity. Qed.

Lemma length_flatten t : length (flatten t) = size t.
Proof.
  induction t as [n ks IH] using tree_ind'. cbn [flatten size length]. f_equal.
  induction IH as [|k r Hk _ IHr]; [reflexivity|].
  cbn [flat_map map list_sum]. rewrite app_length, Hk, IHr. reflexivity.
Qed.
Lemma length_ff ks : length (ff ks) = sizes ks.
Proof.
  induction ks as [|k r IH]; [reflexivity|].
  rewrite ff_cons, app_length, length_flatten, IH. reflexivity.
Qed.
Lemma size_pos t : (0 < size t)%nat.
Proof. destruct t; cbn; lia. Qed.

Lemma Forall2_len {A B} (R : A -> B -> Prop) l l' : Forall2 R l l' -> length l = length l'.
Proof. induction 1; cbn; auto. Qed.

(* ------------------------------------------------------------------ typing *)
Section Typed.
  Variable sub : ty -> ty -> bool.

  (* the root is accepted at e, and every child at the corresponding argument type *)
  Fixpoint typed (e : ty) (t : tree) : Prop :=
    match t with
    | T n ks => sub (nret n) e = true /\
                (fix go (ks : list tree) (tys : list ty) : Prop :=
                   match ks, tys with
                   | [], [] => True
                   | k :: ks', a :: tys' => typed a k /\ go ks' tys'
                   | _, _ => False
                   end) ks (nargs n)
    end.

  Lemma typed_unfold e n ks :
    typed e (T n ks) <-> sub (nret n) e = true /\ Forall2 (fun k a => typed a k) ks (nargs n).
  Proof.
    cbn [typed]. generalize (nargs n) as tys. intro tys.
    split; intros [H1 H2]; split; auto.
    - revert tys H2. induction ks as [|k r IH]; destruct tys as [|a tys]; intros H2; try contradiction.
      + constructor.
      + destruct H2. constructor; auto.
    - induction H2; auto.
  Qed.

  Lemma typed_wft e t : typed e t -> wft t.
  Proof.
    revert e. induction t as [n ks IH] using tree_ind'. intros e H.
    apply typed_unfold in H. destruct H as [_ H]. apply wft_unfold. split.
    - unfold arity. eapply Forall2_len; eauto.
    - revert IH. induction H; intro IH; constructor; inversion IH; subst; eauto.
  Qed.

  Hypothesis sub_trans : forall a b c, sub a b = true -> sub b c = true -> sub a c = true.

  (* only the root's return type is compared with the expected type *)
  Lemma typed_weaken e e' t : typed e t -> sub (nret (root t)) e' = true -> typed e' t.
  Proof. destruct t as [n ks]. rewrite !typed_unfold. cbn. intros [_ H] H'. auto. Qed.

  Lemma typed_sub e e' t : typed e t -> sub e e' = true -> typed e' t.
  Proof.
    intros H S. eapply typed_weaken; eauto. destruct t as [n ks]. apply typed_unfold in H.
    cbn. destruct H. eauto.
  Qed.

  Lemma typed_root e t : typed e t -> sub (nret (root t)) e = true.
  Proof. destruct t. cbn. tauto. Qed.
End Typed.

(* ------------------------------------------------------------------ one-hole contexts *)
Inductive ctx := Hole | CNode (n : node) (l : list tree) (c : ctx) (r : list tree).

Fixpoint plug (c : ctx) (u : tree) : tree :=
  match c with
  | Hole => u
  | CNode n l c' r => T n (l ++ plug c' u :: r)
  end.
Fixpoint cpre (c : ctx) : list node :=
  match c with Hole => [] | CNode n l c' r => n :: ff l ++ cpre c' end.
Fixpoint cpost (c : ctx) : list node :=
  match c with Hole => [] | CNode n l c' r => cpost c' ++ ff r end.
Fixpoint cdepth (c : ctx) : Z :=
  match c with Hole => 0 | CNode _ _ c' _ => 1 + cdepth c' end.

Lemma flatten_plug c u : flatten (plug c u) = cpre c ++ flatten u ++ cpost c.
Proof.
  induction c as [|n l c IH r]; cbn [plug cpre cpost flatten].
  - rewrite app_nil_r. reflexivity.
  - fold (ff (l ++ plug c u :: r)). rewrite ff_app, ff_cons, IH.
    cbn. rewrite <- !app_assoc. reflexivity.
Qed.

Lemma size_plug c u s : (size (plug c u) + size s = size (plug c s) + size u)%nat.
Proof.
  induction c as [|n l c IH r]; cbn [plug size]; [lia|].
  fold (sizes (l ++ plug c u :: r)). fold (sizes (l ++ plug c s :: r)).
  rewrite !sizes_app, !sizes_cons. lia.
Qed.

(* every index of the prefix list is the root of a subtree: t = plug c u with |cpre c| = i *)
Lemma forest_split : forall ks i, (i < sizes ks)%nat ->
  exists l k r, ks = l ++ k :: r /\ (sizes l <= i < sizes l + size k)%nat.
Proof.
  induction ks as [|k ks IH]; intros i Hi; [cbn in Hi; lia|].
  rewrite sizes_cons in Hi.
  destruct (Nat.ltb i (size k)) eqn:E.
  - apply Nat.ltb_lt in E. exists [], k, ks. cbn. split; auto. lia.
  - apply Nat.ltb_ge in E. destruct (IH (i - size k)%nat) as (l & k' & r & -> & Hr); [lia|].
    exists (k :: l), k', r. split; [reflexivity|]. rewrite sizes_cons. lia.
Qed.

Lemma decompose : forall t i, (i < size t)%nat ->
  exists c u, t = plug c u /\ length (cpre c) = i.
Proof.
  induction t as [n ks IH] using tree_ind'. intros i Hi.
  destruct i as [|i].
  - exists Hole, (T n ks). auto.
  - cbn [size] in Hi. fold (sizes ks) in Hi.
    destruct (forest_split ks i) as (l & k & r & -> & Hr); [lia|].
    apply Forall_app in IH. destruct IH as [_ IH]. inversion IH as [|? ? Hk _]; subst.
    destruct (Hk (i - sizes l)%nat) as (c & u & -> & Hc); [lia|].
    exists (CNode n l c r), u. split; [reflexivity|].
    cbn [cpre length]. rewrite app_length, length_ff, Hc. lia.
Qed.

Lemma wft_plug c u : wft (plug c u) -> wft u /\ forall s, wft s -> wft (plug c s).
Proof.
  induction c as [|n l c IH r]; cbn [plug]; [tauto|].
  rewrite wft_unfold. intros [HL HF].
  apply Forall_app in HF. destruct HF as [Hl HF]. inversion HF as [|? ? Hk Hr]; subst.
  destruct (IH Hk) as [Hu Hs]. split; auto.
  intros s Hws. apply wft_unfold. split.
  - rewrite app_length in *. cbn in *. lia.
  - apply Forall_app. split; auto.
Qed.

Section TypedCtx.
  Variable sub : ty -> ty -> bool.
  (* a hole expects some type e: what sits there is typed at e, and anything typed at e fits *)
  Lemma typed_plug top c u : typed sub top (plug c u) ->
    exists e, typed sub e u /\ forall s, typed sub e s -> typed sub top (plug c s).
  Proof.
    revert top. induction c as [|n l c IH r]; intros top; cbn [plug].
    - intro H. exists top. auto.
    - rewrite typed_unfold. intros [HS HF].
      apply Forall2_app_inv_l in HF. destruct HF as (al & ar' & Hl & HF & Eargs).
      inversion HF as [|? a ? ar Hk Hr]; subst.
      destruct (IH a Hk) as (e & Hu & Hs). exists e. split; auto.
      intros s Hts. apply typed_unfold. split; auto. rewrite Eargs.
      apply Forall2_app; auto.
  Qed.
End TypedCtx.

(* ------------------------------------------------------------------ searchSubtree *)
Lemma span_tree : forall t r c e, 0 <= c -> wft t ->
  span_loop (flatten t ++ r) (1 + c) e = span_loop r c (e + size t)%nat.
Proof.
  induction t as [n ks IH] using tree_ind'. intros r c e Hc Hw.
  apply wft_unfold in Hw. destruct Hw as [HL HF].
  cbn [flatten app span_loop]. fold (ff ks).
  replace (0 <? 1 + c) with true by (symmetry; apply Z.ltb_lt; lia).
  replace (1 + c + zarity n - 1) with (Z.of_nat (length ks) + c) by (unfold zarity; lia).
  cbn [size]. fold (sizes ks).
  replace (e + S (sizes ks))%nat with (S e + sizes ks)%nat by lia.
  generalize (S e) as e'. clear HL e.
  revert c Hc. induction ks as [|k ks IHks]; intros c Hc e'.
  - cbn. f_equal. lia.
  - inversion IH as [|? ? Hk IH']; subst. inversion HF as [|? ? Hwk HF']; subst.
    rewrite ff_cons, <- app_assoc.
    replace (Z.of_nat (length (k :: ks)) + c) with (1 + (Z.of_nat (length ks) + c)) by (cbn [length]; lia).
    rewrite Hk by (auto; lia). rewrite IHks by auto.
    rewrite sizes_cons. f_equal. lia.
Qed.

(* the returned slice is exactly [|pre|, |pre| + size u) for a complete subtree u laid out after pre *)
Lemma search_subtree_flat pre u post : wft u ->
  search_subtree (pre ++ flatten u ++ post) (length pre) = Ok (length pre, (length pre + size u)%nat).
Proof.
  intro Hw. unfold search_subtree.
  destruct u as [n ks]. cbn [flatten].
  rewrite nth_error_app2 by lia. rewrite Nat.sub_diag. cbn [nth_error app]. fold (ff ks).
  replace (skipn (S (length pre)) (pre ++ n :: ff ks ++ post)) with (ff ks ++ post).
  2:{ change (pre ++ n :: ff ks ++ post) with (pre ++ [n] ++ (ff ks ++ post)).
      rewrite app_assoc. rewrite skipn_app.
      rewrite skipn_all2 by (rewrite app_length; cbn; lia).
      rewrite app_length. cbn [length]. replace (S (length pre) - (length pre + 1))%nat with 0%nat by lia.
      reflexivity. }
  pose proof (span_tree (T n ks) post 0 (length pre) (Z.le_refl 0) Hw) as H.
  cbn [flatten app span_loop] in H. fold (ff ks) in H.
  replace (0 <? 1 + 0) with true in H by reflexivity.
  replace (1 + 0 + zarity n - 1) with (zarity n) in H by lia.
  rewrite H. destruct post; reflexivity.
Qed.

(* ------------------------------------------------------------------ height *)
Lemma theight_nonneg t : 0 <= theight t.
Proof.
  destruct t as [n ks]. cbn [theight]. generalize (map (fun k => 1 + theight k) ks) as l.
  induction l; cbn [fold_right]; lia.
Qed.

(* maximum over the children *)
Definition hmax (ks : list tree) : Z := fold_right Z.max 0 (map (fun k => 1 + theight k) ks).
Lemma theight_T n ks : theight (T n ks) = hmax ks.
Proof. reflexivity. Qed.
Lemma hmax_nonneg ks : 0 <= hmax ks.
Proof. unfold hmax. induction ks; cbn [map fold_right]; lia. Qed.
Lemma hmax_ge ks k : In k ks -> 1 + theight k <= hmax ks.
Proof.
  unfold hmax. induction ks as [|a ks IH]; [contradiction|]. cbn [map fold_right].
  intros [->|H]; [lia|]. specialize (IH H). lia.
Qed.
Lemma hmax_attained ks : ks <> [] -> exists k, In k ks /\ hmax ks = 1 + theight k.
Proof.
  unfold hmax. induction ks as [|a ks IH]; [congruence|]. intros _. cbn [map fold_right].
  destruct ks as [|b ks].
  - exists a. split; [left; reflexivity|]. cbn [map fold_right]. pose proof (theight_nonneg a). lia.
  - destruct IH as (k & Hin & E); [congruence|].
    destruct (Z_le_gt_dec (1 + theight k) (1 + theight a)).
    + exists a. split; [left; reflexivity|]. lia.
    + exists k. split; [right; exact Hin|]. lia.
Qed.

Lemma height_tree : forall t r d st m, wft t ->
  height_loop (flatten t ++ r) (d :: st) m = height_loop r st (Z.max m (d + theight t)).
Proof.
  induction t as [n ks IH] using tree_ind'. intros r d st m Hw.
  apply wft_unfold in Hw. destruct Hw as [HL HF].
  cbn [flatten app height_loop]. fold (ff ks). rewrite <- HL. clear HL. rewrite theight_T.
  assert (G : forall m', d <= m' ->
     height_loop (ff ks ++ r) (repeat (d + 1) (length ks) ++ st) m' =
     height_loop r st (Z.max m' (d + hmax ks))).
  { induction ks as [|k ks IHks]; intros m' Hm.
    - cbn. f_equal. lia.
    - inversion IH as [|? ? Hk IH']; subst. inversion HF as [|? ? Hwk HF']; subst.
      rewrite ff_cons, <- app_assoc. cbn [length repeat app].
      rewrite Hk by auto. rewrite IHks by (auto; lia).
      f_equal. unfold hmax. cbn [map fold_right]. pose proof (theight_nonneg k). lia. }
  rewrite G by lia. f_equal. pose proof (hmax_nonneg ks). lia.
Qed.

Theorem height_flatten t : wft t -> height (flatten t) = Ok (theight t).
Proof.
  intro Hw. unfold height. rewrite <- (app_nil_r (flatten t)).
  rewrite height_tree by auto. cbn [height_loop]. f_equal. pose proof (theight_nonneg t). lia.
Qed.

(* theight is the maximum of the node depths *)
Lemma node_depths_bound : forall t d, Forall (fun x => d <= x <= d + theight t) (node_depths d t).
Proof.
  induction t as [n ks IH] using tree_ind'. intro d. cbn [node_depths]. rewrite theight_T.
  pose proof (hmax_nonneg ks). constructor; [lia|].
  apply Forall_flat_map. rewrite Forall_forall in *. intros k Hk.
  eapply Forall_impl; [|apply (IH k Hk (d + 1))]. cbn beta. intros x Hx.
  pose proof (hmax_ge ks k Hk). lia.
Qed.

Lemma node_depths_attained : forall t d, In (d + theight t) (node_depths d t).
Proof.
  induction t as [n ks IH] using tree_ind'. intro d. cbn [node_depths]. rewrite theight_T.
  destruct ks as [|k0 ks0].
  - left. cbn. lia.
  - destruct (hmax_attained (k0 :: ks0)) as (k & Hin & E); [congruence|]. rewrite E.
    right. apply in_flat_map. exists k. split; auto.
    rewrite Forall_forall in IH. replace (d + (1 + theight k)) with (d + 1 + theight k) by lia. apply IH; auto.
Qed.

(* the deepest node is a leaf *)
Lemma leaf_depths_bound : forall t d, Forall (fun x => d <= x <= d + theight t) (leaf_depths d t).
Proof.
  induction t as [n ks IH] using tree_ind'. intro d. rewrite theight_T.
  destruct ks as [|k0 ks0]; [constructor; [cbn; lia|constructor]|].
  change (leaf_depths d (T n (k0 :: ks0))) with (flat_map (leaf_depths (d + 1)) (k0 :: ks0)).
  apply Forall_flat_map. rewrite Forall_forall in *. intros k Hk.
  eapply Forall_impl; [|apply (IH k Hk (d + 1))]. cbn beta. intros x Hx.
  pose proof (hmax_ge _ k Hk). lia.
Qed.

Lemma leaf_depths_attained : forall t d, In (d + theight t) (leaf_depths d t).
Proof.
  induction t as [n ks IH] using tree_ind'. intro d. rewrite theight_T.
  destruct ks as [|k0 ks0]; [left; cbn; lia|].
  change (leaf_depths d (T n (k0 :: ks0))) with (flat_map (leaf_depths (d + 1)) (k0 :: ks0)).
  destruct (hmax_attained (k0 :: ks0)) as (k & Hin & E); [congruence|]. rewrite E.
  apply in_flat_map. exists k. split; auto.
  rewrite Forall_forall in IH. replace (d + (1 + theight k)) with (d + 1 + theight k) by lia. apply IH; auto.
Qed.

Lemma leaf_depths_range t lo hi :
  Forall (fun x => lo <= x <= hi) (leaf_depths 0 t) -> lo <= theight t <= hi.
Proof.
  intro H. rewrite Forall_forall in H. apply (H (0 + theight t)). apply leaf_depths_attained.
Qed.
