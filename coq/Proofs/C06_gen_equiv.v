(* Tie (T) of property C06: every definition regenerated on this run from the source text of
   deap/tools/selection.py / deap/tools/emo.py (coq/Gen/C06_gen.v, written by harness/c06_py2coq.py)
   equals the hand-written model the C06 theorems are stated about -- for all arguments and all
   draw lists (fully applied: no functional extensionality).  Compiled on every run, after
   regeneration.

   Each proof first tries `reflexivity` (the placeholder of a function the translator refused IS the
   model) and otherwise goes through the characterising lemmas of Proofs/C06_GenRt.v, so that
   renamed locals, hoisted pure subexpressions (`let`), an index loop instead of a comprehension
   and similar rewrites of the source do not break it. *)
From Coq Require Import List Bool Arith ZArith QArith Qround Lia Permutation Sorted.
From DV Require Import Base.PyList Base.C06_Py Model.C06_Select Model.C06_GenRt.
From DV Require Import Proofs.C06_Sort Proofs.C06_Basic Proofs.C06_Roulette Proofs.C06_SUS Proofs.C06_Lexicase
  Proofs.C06_DCD Proofs.C06_Safety Proofs.C06_GenRt.
From DV Require Import Gen.C06_gen.
Import ListNotations.
Local Open Scope nat_scope.

(* straight-line monadic code: split on every intermediate result *)
Ltac mcase :=
  repeat (cbv beta zeta; cbn [fst snd];
          match goal with
          | |- ?x = ?x => reflexivity
          | |- context [match ?m ?d with Ok _ _ => _ | Raise _ => _ | Mismatch => _ end] =>
              destruct (m d) as [? ?|?|] eqn:?
          | |- context [if ?c then _ else _] => destruct c eqn:?
          | |- context [let '(_, _) := ?p in _] => destruct p
          end); try reflexivity.

(* ------------------------------------------------------------------ selRandom *)
Lemma gen_selRandom_eq inds k ds : gen_selRandom inds k ds = selRandom inds k ds.
Proof.
  first [reflexivity | unfold gen_selRandom, selRandom; apply mapM_const_seq
        | unfold gen_selRandom, selRandom; cbv zeta; rewrite for_each_append_nil with (f := fun _ => choice inds);
          [apply mapM_const_seq | intros; unfold bind, ret; mcase]].
Qed.

(* ------------------------------------------------------------------ selBest / selWorst *)
Lemma gen_selBest_eq inds k ds : gen_selBest inds k ds = Ok (selBest inds k) ds.
Proof. reflexivity. Qed.

Lemma gen_selWorst_eq inds k ds : gen_selWorst inds k ds = Ok (selWorst inds k) ds.
Proof. reflexivity. Qed.

(* ------------------------------------------------------------------ selTournament *)
Lemma tournament_body_eq inds ts ds :
  (aspirants <- gen_selRandom inds ts ;; py_maxM aspirants) ds = (aspirants <- selRandom inds ts ;; best_of aspirants) ds.
Proof. apply bind_ext2; [apply gen_selRandom_eq|]. intros; apply py_maxM_best_of. Qed.

Lemma gen_selTournament_eq inds k ts ds : gen_selTournament inds k ts ds = selTournament inds k ts ds.
Proof.
  first [ reflexivity
        | unfold gen_selTournament, selTournament; cbv zeta;
          rewrite for_each_append_nil with (f := fun _ : nat => aspirants <- selRandom inds ts ;; best_of aspirants);
          [ apply mapM_const_seq
          | intros i acc d _;
            rewrite <- (bind_ext2 _ _ _ _ d (tournament_body_eq inds ts d) (fun a d' => eq_refl));
            unfold bind, ret; mcase ]
        | (* the comprehension form [max(selRandom(..), key=..) for _ in range(k)] *)
          unfold gen_selTournament, selTournament; cbv zeta;
          rewrite (mapM_ext _ (fun _ : nat => aspirants <- selRandom inds ts ;; best_of aspirants) _
                     (fun i d _ => tournament_body_eq inds ts d));
          apply mapM_const_seq ].
Qed.

(* ------------------------------------------------------------------ selRoulette *)
(* the inner loop `for ind in s_inds: sum_ += f(ind); if sum_ > u: chosen.append(ind); break`,
   for any loop body that does this on individuals with a first objective *)
Lemma roulette_inner w u (body : ind -> Q * list ind -> M (ctl (Q * list ind))) :
  (forall x acc ch d, has_val0 w x = true ->
     body x (acc, ch) d = Ok (if Qltb u (acc + val0 w x) then Break (acc + val0 w x, ch ++ [x])
                              else Next (acc + val0 w x, ch))%Q d) ->
  forall l, forallb (has_val0 w) l = true ->
  forall acc ch d, exists acc',
    for_break l body (acc, ch) d = Ok (acc', ch ++ opt_list (spin w l acc u)) d.
Proof.
  intros Hb l. induction l as [|x r IH]; intros Hl acc ch d.
  - exists acc. cbn. unfold ret. rewrite app_nil_r. reflexivity.
  - cbn [forallb] in Hl. apply andb_prop in Hl as [Hx Hr]. cbn [for_break spin].
    unfold bind at 1. rewrite (Hb x acc ch d Hx).
    destruct (Qltb u (acc + val0 w x)%Q).
    + eexists. reflexivity.
    + apply IH. exact Hr.
Qed.

Lemma forallb_perm {A} (f : A -> bool) l l' : Permutation l l' -> forallb f l = forallb f l'.
Proof.
  induction 1; cbn; try congruence.
  - destruct (f x), (f y); reflexivity.
Qed.

(* the threshold only matters up to == *)
Lemma Qltb_Qeq_l u u' a : (u == u')%Q -> Qltb u a = Qltb u' a.
Proof.
  intro E. unfold Qltb. f_equal.
  destruct (Qle_bool a u) eqn:A, (Qle_bool a u') eqn:B; try reflexivity.
  - apply Qle_bool_iff in A. rewrite E in A. apply Qle_bool_iff in A. congruence.
  - apply Qle_bool_iff in B. rewrite <- E in B. apply Qle_bool_iff in B. congruence.
Qed.

Lemma spin_Qeq w l : forall acc u u', (u == u')%Q -> spin w l acc u = spin w l acc u'.
Proof.
  induction l as [|x r IH]; intros acc u u' E; [reflexivity|]. cbn [spin].
  rewrite (Qltb_Qeq_l u u' _ E). destruct (Qltb u' (acc + val0 w x)); [reflexivity|]. apply IH. exact E.
Qed.

(* the total may be summed over the population or over any rearrangement of it (the sorted list):
   the sums are equal as rationals, and the spin depends on the threshold only up to == *)
Lemma roulette_equiv w inds l' k (body : Q -> ind -> Q * list ind -> M (ctl (Q * list ind))) :
  Permutation l' inds ->
  (forall u x acc ch d, has_val0 w x = true ->
     body u x (acc, ch) d = Ok (if Qltb u (acc + val0 w x) then Break (acc + val0 w x, ch ++ [x])
                                else Next (acc + val0 w x, ch))%Q d) ->
  forall ds,
    (t <- mapM (fun x => index (values w x) 0) l' ;;
     chosen <- for_each (seq 0 k) (fun _ chosen =>
                 t3 <- random01 ;;
                 bind (for_break (py_sorted_rev f_lt inds) (body (t3 * qsum t)%Q) (0 # 1, chosen))
                      (fun '(_, chosen) => ret chosen)) [] ;;
     ret chosen) ds = selRoulette w inds k ds.
Proof.
  intros Hp Hb ds. unfold selRoulette.
  unfold bind at 1.
  rewrite (mapM_raise _ (val0 w) (has_val0 w) IndexError l'
             (fun x d => index_values0_ok w x d)
             (fun x d H => eq_trans (index_values0 w x d) (f_equal (fun b : bool => if b then _ else _) H))).
  rewrite (forallb_perm _ _ _ Hp).
  destruct (forallb (has_val0 w) inds) eqn:Hall; [|reflexivity]. cbn [negb].
  assert (Hs : forallb (has_val0 w) (py_sorted_rev f_lt inds) = true).
  { rewrite (forallb_perm _ _ _ (py_sorted_rev_perm f_lt inds)). exact Hall. }
  assert (HS : (qsum (map (val0 w) l') == sum_fits w inds)%Q).
  { change (qsum (map (val0 w) l')) with (sum_fits w l'). rewrite !sum_fits_tot. apply tot_perm. exact Hp. }
  match goal with |- context [for_each ?l ?b] =>
    assert (E : forall acc d, for_each l b acc d =
              (ys <- mapM (fun _ => u <- random01 ;; ret (spin w (py_sorted_rev f_lt inds) 0 (u * sum_fits w inds)%Q)) l ;;
               ret (acc ++ flat_map (@opt_list ind) ys)) d)
  end.
  { apply for_each_collect. intros i acc d _. unfold bind, ret. destruct (random01 d) as [u d1| |]; try reflexivity.
    destruct (roulette_inner w _ _ (Hb (u * qsum (map (val0 w) l'))%Q) _ Hs (0 # 1) acc d1) as [acc' E].
    rewrite E. rewrite (spin_Qeq w _ 0 (u * qsum (map (val0 w) l'))%Q (u * sum_fits w inds)%Q); [reflexivity|].
    rewrite HS. reflexivity. }
  unfold bind at 1. rewrite E. fold (bind (A := list ind) (B := list ind)).
  unfold bind, ret. rewrite mapM_const_seq. destruct (repeatM k _ ds); reflexivity.
Qed.

Lemma gen_selRoulette_eq w inds k ds : gen_selRoulette w inds k ds = selRoulette w inds k ds.
Proof.
  first [ reflexivity
        | unfold gen_selRoulette; cbv zeta;
          first [ apply (roulette_equiv w inds inds k (fun u x '(sum_, chosen) =>
                           t4 <- index (values w x) 0 ;;
                           if Qltb u (sum_ + t4) then ret (Break ((sum_ + t4)%Q, chosen ++ [x]))
                           else ret (Next ((sum_ + t4)%Q, chosen))) (Permutation_refl inds))
                | (* the total summed over the sorted list *)
                  apply (roulette_equiv w inds (py_sorted_rev f_lt inds) k (fun u x '(sum_, chosen) =>
                           t4 <- index (values w x) 0 ;;
                           if Qltb u (sum_ + t4) then ret (Break ((sum_ + t4)%Q, chosen ++ [x]))
                           else ret (Next ((sum_ + t4)%Q, chosen))) (py_sorted_rev_perm f_lt inds)) ];
          intros u x acc ch d Hx; unfold bind; rewrite (index_values0_ok w x d Hx); mcase ].
Qed.

(* ------------------------------------------------------------------ selStochasticUniversalSampling *)
(* the walk `while sum_ < p: i += 1; sum_ += f(s_inds[i])` from position |pre| of s = pre ++ cur :: r,
   followed by `s_inds[i]`: it is sus_walk, and the fuel |s| + 1 suffices *)
Lemma sus_while w p (body : nat * Q -> M (nat * Q)) s :
  (forall i acc d,
     body (i, acc) d = match nth_error s (i + 1) with
                       | Some x => if has_val0 w x then Ok (i + 1, (acc + val0 w x)%Q) d else Raise IndexError
                       | None => Raise IndexError
                       end) ->
  forall {A} (K : ind -> M A) r pre cur acc fuel d,
    s = pre ++ cur :: r -> forallb (has_val0 w) r = true -> length r < fuel ->
    bind (while_fuel fuel (fun '(_, sum_) => Qltb sum_ p) body (length pre, acc))
         (fun '(i, _) => t <- index s i ;; K t) d
    = match sus_walk w r acc p cur with Some x => K x d | None => Raise IndexError end.
Proof.
  intros Hb A K r. induction r as [|x r IH]; intros pre cur acc fuel d Hs Hr Hf.
  - destruct fuel as [|f]; [lia|]. cbn [while_fuel sus_walk]. destruct (Qltb acc p).
    + unfold bind at 1 2. rewrite Hb. subst s.
      rewrite (proj2 (nth_error_None (pre ++ [cur]) (length pre + 1))) by (rewrite app_length; cbn; lia).
      reflexivity.
    + unfold bind at 1, ret. unfold bind. subst s. unfold index.
      rewrite nth_error_app2, Nat.sub_diag by lia. reflexivity.
  - destruct fuel as [|f]; [cbn in Hf; lia|]. cbn [while_fuel sus_walk]. destruct (Qltb acc p).
    + cbn [forallb] in Hr. apply andb_prop in Hr as [Hx Hr].
      unfold bind at 1 2. rewrite Hb.
      assert (E : nth_error s (length pre + 1) = Some x).
      { subst s. rewrite nth_error_app2 by lia. replace (length pre + 1 - length pre) with 1 by lia. reflexivity. }
      rewrite E, Hx.
      specialize (IH (pre ++ [cur]) x (acc + val0 w x)%Q f d).
      rewrite app_length in IH. cbn [length] in IH. unfold bind in IH at 1. rewrite IH; [reflexivity| |exact Hr|cbn in Hf; lia].
      subst s. rewrite <- app_assoc. reflexivity.
    + unfold bind at 1, ret. unfold bind. subst s. unfold index.
      rewrite nth_error_app2, Nat.sub_diag by lia. reflexivity.
Qed.

(* one pointer: `i = 0; sum_ = f(s_inds[0]); while ...; chosen.append(s_inds[i])` is sus_pick *)
Lemma sus_pointer w p s (body : nat * Q -> M (nat * Q)) :
  forallb (has_val0 w) s = true ->
  (forall i acc d,
     body (i, acc) d = match nth_error s (i + 1) with
                       | Some x => if has_val0 w x then Ok (i + 1, (acc + val0 w x)%Q) d else Raise IndexError
                       | None => Raise IndexError
                       end) ->
  forall {A} (K : ind -> M A) d,
    (t5 <- index s 0 ;; sum_ <- index (values w t5) 0 ;;
     bind (while_fuel (S (length s)) (fun '(_, sum_) => Qltb sum_ p) body (0, sum_))
          (fun '(i, _) => t <- index s i ;; K t)) d
    = (x <- sus_pick w s p ;; K x) d.
Proof.
  intros Hs Hb A K d. destruct s as [|x0 r]; [reflexivity|].
  cbn [forallb] in Hs. apply andb_prop in Hs as [H0 Hr].
  unfold bind at 1. cbn [index nth_error]. unfold ret at 1. unfold bind at 1. rewrite (index_values0_ok w x0 d H0).
  refine (eq_trans (sus_while w p body (x0 :: r) Hb K r [] x0 (val0 w x0) (S (length (x0 :: r))) d eq_refl Hr _) _);
    [cbn; lia|].
  unfold sus_pick, bind. destruct (sus_walk w r (val0 w x0) p x0); reflexivity.
Qed.

Lemma sus_equiv w inds k
      (body : nat * Q -> M (nat * Q)) :
  (forall i acc d,
     body (i, acc) d = match nth_error (py_sorted_rev f_lt inds) (i + 1) with
                       | Some x => if has_val0 w x then Ok (i + 1, (acc + val0 w x)%Q) d else Raise IndexError
                       | None => Raise IndexError
                       end) ->
  forall ds,
    (t <- mapM (fun x => index (values w x) 0) inds ;;
     if Nat.eqb k 0 then ret [] else
     distance <- qdivM (qsum t) (Qnat k) ;;
     start <- uniformM (0 # 1) distance ;;
     chosen <- for_each (map (fun i => start + Qnat i * distance)%Q (seq 0 k)) (fun p chosen =>
                 t5 <- index (py_sorted_rev f_lt inds) 0 ;; sum_ <- index (values w t5) 0 ;;
                 bind (while_fuel (S (length (py_sorted_rev f_lt inds))) (fun '(_, sum_) => Qltb sum_ p) body (0, sum_))
                      (fun '(i, _) => t9 <- index (py_sorted_rev f_lt inds) i ;; ret (chosen ++ [t9]))) [] ;;
     ret chosen) ds = selSUS w inds k ds.
Proof.
  intros Hb ds. unfold selSUS. unfold bind at 1.
  rewrite (mapM_raise _ (val0 w) (has_val0 w) IndexError inds
             (fun x d => index_values0_ok w x d)
             (fun x d H => eq_trans (index_values0 w x d) (f_equal (fun b : bool => if b then _ else _) H))).
  destruct (forallb (has_val0 w) inds) eqn:Hall; [|reflexivity]. cbn [negb].
  assert (Hs : forallb (has_val0 w) (py_sorted_rev f_lt inds) = true).
  { rewrite (forallb_perm _ _ _ (py_sorted_rev_perm f_lt inds)). exact Hall. }
  destruct (Nat.eqb_spec k 0) as [->|Hk]; [reflexivity|].
  unfold bind at 1. rewrite (qdivM_ok _ _ ds (Qnat_neq0 k Hk)).
  unfold uniformM. rewrite bind_assoc. apply bind_ext. intros u d. rewrite bind_ret_l.
  rewrite for_each_append_nil with (f := sus_pick w (py_sorted_rev f_lt inds)); [reflexivity|].
  intros p acc d' _. apply (sus_pointer w p _ body Hs Hb).
Qed.

(* the same with the pointer computed inside the loop: `for n in range(k): p = start + n * distance` *)
Lemma sus_equiv_idx w inds k
      (body : nat * Q -> M (nat * Q)) :
  (forall i acc d,
     body (i, acc) d = match nth_error (py_sorted_rev f_lt inds) (i + 1) with
                       | Some x => if has_val0 w x then Ok (i + 1, (acc + val0 w x)%Q) d else Raise IndexError
                       | None => Raise IndexError
                       end) ->
  forall ds,
    (t <- mapM (fun x => index (values w x) 0) inds ;;
     if Nat.eqb k 0 then ret [] else
     distance <- qdivM (qsum t) (Qnat k) ;;
     start <- uniformM (0 # 1) distance ;;
     chosen <- for_each (seq 0 k) (fun n chosen =>
                 let p := (start + Qnat n * distance)%Q in
                 t5 <- index (py_sorted_rev f_lt inds) 0 ;; sum_ <- index (values w t5) 0 ;;
                 bind (while_fuel (S (length (py_sorted_rev f_lt inds))) (fun '(_, sum_) => Qltb sum_ p) body (0, sum_))
                      (fun '(i, _) => t9 <- index (py_sorted_rev f_lt inds) i ;; ret (chosen ++ [t9]))) [] ;;
     ret chosen) ds = selSUS w inds k ds.
Proof.
  intros Hb ds. unfold selSUS. unfold bind at 1.
  rewrite (mapM_raise _ (val0 w) (has_val0 w) IndexError inds
             (fun x d => index_values0_ok w x d)
             (fun x d H => eq_trans (index_values0 w x d) (f_equal (fun b : bool => if b then _ else _) H))).
  destruct (forallb (has_val0 w) inds) eqn:Hall; [|reflexivity]. cbn [negb].
  assert (Hs : forallb (has_val0 w) (py_sorted_rev f_lt inds) = true).
  { rewrite (forallb_perm _ _ _ (py_sorted_rev_perm f_lt inds)). exact Hall. }
  destruct (Nat.eqb_spec k 0) as [->|Hk]; [reflexivity|].
  unfold bind at 1. rewrite (qdivM_ok _ _ ds (Qnat_neq0 k Hk)).
  unfold uniformM. rewrite bind_assoc. apply bind_ext. intros u d. rewrite bind_ret_l.
  cbv zeta.
  rewrite for_each_append_nil with
    (f := fun n => sus_pick w (py_sorted_rev f_lt inds)
                     (0 + (qsum (map (val0 w) inds) / Qnat k - 0) * u + Qnat n * (qsum (map (val0 w) inds) / Qnat k))%Q).
  - unfold sus_points. cbv zeta. symmetry. apply mapM_map.
  - intros n acc d' _. apply (sus_pointer w _ _ body Hs Hb).
Qed.

Lemma gen_selSUS_eq w inds k ds : gen_selStochasticUniversalSampling w inds k ds = selSUS w inds k ds.
Proof.
  first [ reflexivity
        | unfold gen_selStochasticUniversalSampling; cbv zeta;
          first [ apply (sus_equiv w inds k (fun '(i, sum_) =>
                     t7 <- index (py_sorted_rev f_lt inds) (i + 1) ;; t8 <- index (values w t7) 0 ;; ret (i + 1, (sum_ + t8)%Q)))
                | apply (sus_equiv_idx w inds k (fun '(i, sum_) =>
                     t7 <- index (py_sorted_rev f_lt inds) (i + 1) ;; t8 <- index (values w t7) 0 ;; ret (i + 1, (sum_ + t8)%Q))) ];
          intros i acc d; unfold index, bind, ret, raise;
          destruct (nth_error (py_sorted_rev f_lt inds) (i + 1)) as [x|]; [|reflexivity];
          unfold has_val0, val0, val; destruct (values w x); reflexivity ].
Qed.

(* ------------------------------------------------------------------ selDoubleTournament *)
(* one round of the two nested tournaments of the model *)
Definition fit_round (fs : nat) (select : nat -> M (list ind)) : M ind :=
  aspirants <- select fs ;; best_of aspirants.

Definition size_round (psize : Q) (select : nat -> M (list ind)) : M ind :=
  pr <- select 2 ;;
  match pr with
  | [i1; i2] =>
      let '(a, b, prob) :=
        if Nat.ltb (size i2) (size i1) then (i2, i1, psize / 2)%Q
        else if Nat.eqb (size i1) (size i2) then (i1, i2, 1 # 2)
        else (i1, i2, psize / 2)%Q in
      u <- random01 ;; ret (if Qltb u prob then a else b)
  | _ => raise ValueError
  end.

Lemma fitTournament_rounds fs select k ds : fitTournament fs select k ds = repeatM k (fit_round fs select) ds.
Proof. reflexivity. Qed.

Lemma sizeTournament_rounds ps select k ds : sizeTournament ps select k ds = repeatM k (size_round ps select) ds.
Proof. reflexivity. Qed.

(* `chosen = []; for i in range(k): <one round>; chosen.append(..)`; return chosen` *)
Lemma rounds_loop {B} (round : M B) k (body : nat -> list B -> M (list B)) ds :
  (forall i acc d, body i acc d = (y <- round ;; ret (acc ++ [y])) d) ->
  (acc <- for_each (seq 0 k) body [] ;; ret acc) ds = repeatM k round ds.
Proof.
  intro H. rewrite for_each_append_nil with (f := fun _ : nat => round); [apply mapM_const_seq|].
  intros; apply H.
Qed.

(* the generated round bodies: the first statement is the call of `select` (tac proves that it is the
   model's selection function), the rest is straight-line code *)
Ltac round_tail :=
  intros ? ?; unfold unpack2, py_maxM, best_of, bind, ret, raise;
  repeat (cbv beta zeta;
          match goal with
          | |- ?x = ?x => reflexivity
          | |- context [match ?l with [] => _ | _ :: _ => _ end] => destruct l
          | |- context [match py_max ?g ?l with Some _ => _ | None => _ end] => destruct (py_max g l)
          | |- context [if ?c then _ else _] => destruct c
          | |- context [match random01 ?d with Ok _ _ => _ | Raise _ => _ | Mismatch => _ end] => destruct (random01 d)
          end).

Ltac round_with tac :=
  intros ? ? ?; unfold fit_round, size_round; refine (eq_trans _ (eq_sym (bind_assoc _ _ _ _)));
  apply bind_ext2; [tac | round_tail].

(* the comprehension form `[<one round> for i in range(k)]` *)
Lemma rounds_mapM {B} (round : M B) k (body : nat -> M B) ds :
  (forall i d, body i d = round d) -> mapM body (seq 0 k) ds = repeatM k round ds.
Proof.
  intro H. rewrite (mapM_ext body (fun _ => round) _ (fun i d _ => H i d)). apply mapM_const_seq.
Qed.

Ltac round_with_m tac :=
  intros ? ?; unfold fit_round, size_round; apply bind_ext2; [tac | round_tail].

(* a loop of rounds in either form; tac proves that the `select` the round calls is the model's *)
Ltac rounds tac :=
  first [ apply rounds_loop; round_with tac
        | apply rounds_mapM; round_with_m tac ].

Lemma gen_selDoubleTournament_eq inds k fs ps ff ds :
  gen_selDoubleTournament inds k fs ps ff ds = selDoubleTournament inds k fs ps ff ds.
Proof.
  first [ reflexivity
        | unfold gen_selDoubleTournament, selDoubleTournament;
          destruct (negb (Qle_bool 1 ps && Qle_bool ps 2)); [reflexivity|];
          (* `if fitness_first: A else: B` or `if not fitness_first: B ... A`: decide the flag, then whichever nesting the model has *)
          destruct ff; cbv beta iota zeta delta [negb];
          first [ rewrite sizeTournament_rounds;
                  rounds ltac:(rewrite fitTournament_rounds; rounds ltac:(apply gen_selRandom_eq))
                | rewrite fitTournament_rounds;
                  rounds ltac:(rewrite sizeTournament_rounds; rounds ltac:(apply gen_selRandom_eq)) ] ].
Qed.

(* ------------------------------------------------------------------ selTournamentDCD *)
(* the four tournaments of one group of the model *)
Definition dcd_group (l1 l2 : list ind) (i : nat) : M (list ind) :=
  a <- tourn_at l1 i (i + 1) ;; b <- tourn_at l1 (i + 2) (i + 3) ;;
  c <- tourn_at l2 i (i + 1) ;; d <- tourn_at l2 (i + 2) (i + 3) ;; ret [a; b; c; d].

Lemma dcd_loop_groups l1 l2 iters : forall i ds,
  dcd_loop iters i l1 l2 ds =
  (gs <- mapM (dcd_group l1 l2) (map (fun j => i + j * 4) (seq 0 iters)) ;; ret (flat_map (fun g => g) gs)) ds.
Proof.
  induction iters as [|it IH]; intros i ds; [reflexivity|].
  cbn [dcd_loop seq map mapM]. rewrite <- seq_shift, map_map.
  replace (i + 0 * 4) with i by lia.
  unfold dcd_group at 1. unfold bind, ret.
  destruct (tourn_at l1 i (i + 1) ds) as [a d1| |]; try reflexivity.
  destruct (tourn_at l1 (i + 2) (i + 3) d1) as [b d2| |]; try reflexivity.
  destruct (tourn_at l2 i (i + 1) d2) as [c d3| |]; try reflexivity.
  destruct (tourn_at l2 (i + 2) (i + 3) d3) as [d d4| |]; try reflexivity.
  specialize (IH (i + 4) d4). unfold bind, ret in IH. rewrite IH.
  rewrite (map_ext (fun j => i + S j * 4) (fun j => i + 4 + j * 4)) by (intro; lia).
  destruct (mapM (dcd_group l1 l2) _ d4); reflexivity.
Qed.

Lemma dcd_equiv l1 l2 k (body : nat -> list ind -> M (list ind)) :
  (forall i acc d, body i acc d = (g <- dcd_group l1 l2 i ;; ret (acc ++ g)) d) ->
  forall ds, (chosen <- for_each (range_step 0 k 4) body [] ;; ret chosen) ds = dcd_loop ((k + 3) / 4) 0 l1 l2 ds.
Proof.
  intros Hb ds. rewrite bind_ret_r.
  rewrite (for_each_collect _ body (dcd_group l1 l2) (fun g => g) (fun i acc d _ => Hb i acc d)).
  rewrite dcd_loop_groups. unfold range_step. rewrite Nat.sub_0_r. reflexivity.
Qed.

(* the same loop over group numbers, `for j in range((k + 3) // 4): i = 4 * j` *)
Lemma dcd_equiv_idx l1 l2 k (idx : nat -> nat) (body : nat -> list ind -> M (list ind)) :
  (forall j, idx j = j * 4) ->
  (forall j acc d, body j acc d = (g <- dcd_group l1 l2 (idx j) ;; ret (acc ++ g)) d) ->
  forall ds, (chosen <- for_each (seq 0 ((k + 3) / 4)) body [] ;; ret chosen) ds = dcd_loop ((k + 3) / 4) 0 l1 l2 ds.
Proof.
  intros Hi Hb ds. rewrite bind_ret_r.
  rewrite (for_each_collect _ body (fun j => dcd_group l1 l2 (idx j)) (fun g => g) (fun i acc d _ => Hb i acc d)).
  rewrite dcd_loop_groups. apply bind_ext2; [|reflexivity].
  rewrite mapM_map. apply mapM_ext. intros j d _. rewrite Hi. reflexivity.
Qed.

(* the pair rule, whatever the order of the tests in the source as long as the decisions agree *)
Ltac tourn_rule :=
  unfold tourn, bind, ret;
  repeat (cbv beta zeta;
          match goal with
          | |- ?x = ?x => reflexivity
          | |- context [if ?c then _ else _] => destruct c eqn:?
          | |- context [match random01 ?d with Ok _ _ => _ | Raise _ => _ | Mismatch => _ end] => destruct (random01 d)
          end); try congruence.

(* the inlined pair function applied to a draw list is the model's tourn on the two individuals it
   mentions, in one of the two orders *)
Ltac fold_tourn c X Y d :=
  let E := fresh "E" in
  lazymatch c with
  | dominates ?a ?b =>
      first [ assert (E : (if c then X else Y) d = tourn a b d) by tourn_rule
            | assert (E : (if c then X else Y) d = tourn b a d) by tourn_rule ]
  | cd_lt (cd ?a) (cd ?b) =>
      first [ assert (E : (if c then X else Y) d = tourn a b d) by tourn_rule
            | assert (E : (if c then X else Y) d = tourn b a d) by tourn_rule ]
  end; rewrite E; clear E.

(* one group of the generated loop body *)
Ltac dcd_body :=
  unfold dcd_group, tourn_at, index, bind, raise; unfold ret at 1;
  repeat (cbv beta zeta;
          match goal with
          | |- ?x = ?x => reflexivity
          | |- context [match nth_error ?l ?j with Some _ => _ | None => _ end] => destruct (nth_error l j)
          | |- context [match ret ?x ?d with Ok _ _ => _ | Raise _ => _ | Mismatch => _ end] => unfold ret at 1
          | |- context [match (if ?c then ?X else ?Y) ?d with Ok _ _ => _ | Raise _ => _ | Mismatch => _ end] =>
              fold_tourn c X Y d
          | |- context [match tourn ?a ?b ?d with Ok _ _ => _ | Raise _ => _ | Mismatch => _ end] =>
              destruct (tourn a b d)
          end); unfold ret; rewrite <- ?app_assoc; try reflexivity.

Lemma gen_selTournamentDCD_eq inds k ds : gen_selTournamentDCD inds k ds = selTournamentDCD inds k ds.
Proof.
  first [ reflexivity
        | unfold gen_selTournamentDCD, selTournamentDCD; cbv beta zeta;
          destruct (Nat.ltb (length inds) k); [reflexivity|];
          destruct (Nat.eqb k (length inds) && negb (Nat.eqb (k mod 4) 0)); [reflexivity|];
          apply bind_ext; intros l1 d1; apply bind_ext; intros l2 d2;
          first [ apply dcd_equiv; intros i acc d; dcd_body
                | apply (dcd_equiv_idx l1 l2 k (fun j => 4 * j)); [intro; lia | intros j acc d; dcd_body]
                | apply (dcd_equiv_idx l1 l2 k (fun j => j * 4)); [reflexivity | intros j acc d; dcd_body] ] ].
Qed.

(* ------------------------------------------------------------------ lexicase family *)
(* every individual has one value per weight (what `uniform` gives), so x.fitness.values[c] and
   fit_weights[c] do not raise for the cases c < |w| that the shuffled list contains *)
Definition unif (w : list Q) (l : list ind) : Prop := Forall (fun x => length (values w x) = length w) l.

Lemma uniform_unif w l : uniform w l -> unif w l.
Proof. apply Forall_impl. intros x H. apply values_length. exact H. Qed.

Lemma unif_sub w l l' : (forall x, In x l' -> In x l) -> unif w l -> unif w l'.
Proof. unfold unif. rewrite !Forall_forall. auto. Qed.

Lemma index_val w x c ds : length (values w x) = length w -> c < length w -> index (values w x) c ds = Ok (val w x c) ds.
Proof. intros H Hc. unfold val. apply index_nth. lia. Qed.

Lemma map_nonempty {A B} (f : A -> B) l : 1 < length l -> map f l <> [].
Proof. destruct l; cbn; [lia|discriminate]. Qed.

(* straight-line monadic code whose steps all return: run it step by step *)
Ltac ok_solve :=
  lazymatch goal with
  | |- ret _ _ = Ok _ _ => reflexivity
  | |- index (_ :: _) 0 _ = Ok _ _ => apply index_cons0
  | |- pop0 (_ :: _) _ = Ok _ _ => apply pop0_cons
  | |- index (values _ _) _ _ = Ok _ _ =>
      apply index_val; [ match goal with U : unif _ ?l, I : In _ ?l |- _ => exact (proj1 (Forall_forall _ _) U _ I) end
                       | assumption ]
  | |- index _ _ _ = Ok _ _ => apply (index_nth _ _ 0%Q); assumption
  | |- qmaxM _ _ = Ok _ _ => apply qmaxM_ok; apply map_nonempty; assumption
  | |- qminM _ _ = Ok _ _ => apply qminM_ok; apply map_nonempty; assumption
  | |- mapM _ _ _ = Ok _ _ => eapply mapM_pure; intros ? ? ?; run_ok
  | |- filterM _ _ _ = Ok _ _ => eapply filterM_pure; intros ? ? ?; run_ok
  end
with run_ok :=
  repeat (cbv beta zeta; cbn [fst snd];
          lazymatch goal with
          | |- bind ?m ?f ?d = _ => erewrite (bind_Ok_eq m f d) by ok_solve
          end);
  cbv beta zeta; try ok_solve.

Ltac run :=
  repeat (cbv beta iota zeta; cbn [fst snd];
          match goal with
          | |- context [if ?b then _ else _] => destruct b eqn:?
          | |- bind (bind _ _) _ _ = _ => rewrite bind_assoc
          | |- bind ?m ?f ?d = _ => erewrite (bind_Ok_eq m f d) by ok_solve
          end).

Section LexLoop.
  Variable w : list Q.
  Variable step : nat -> list ind -> list ind.
  Hypothesis step_sub : forall c cands x, In x (step c cands) -> In x cands.

  (* `while len(cases) > 0 and len(candidates) > 1: candidates = step(cases[0]); cases.pop(0)` *)
  Lemma lex_while (body : list ind * list nat -> M (list ind * list nat)) :
    (forall c cs cands d, c < length w -> unif w cands -> 1 < length cands ->
       body (cands, c :: cs) d = Ok (step c cands, cs) d) ->
    forall cases cands fuel d, Forall (fun c => c < length w) cases -> unif w cands -> length cases < fuel ->
      exists cs',
        while_fuel fuel (fun '(candidates, cases) => Nat.ltb 0 (length cases) && Nat.ltb 1 (length candidates)) body
                   (cands, cases) d = Ok (lex_filter step cases cands, cs') d.
  Proof.
    intros Hb cases. induction cases as [|c cs IH]; intros cands fuel d Hc U Hf.
    - exists []. destruct fuel; reflexivity.
    - destruct fuel as [|f]; [lia|]. cbn [while_fuel lex_filter]. inversion Hc; subst.
      change (Nat.ltb 0 (length (c :: cs))) with true. cbn [andb].
      destruct (Nat.leb_spec (length cands) 1) as [E|E]; destruct (Nat.ltb_spec 1 (length cands)) as [E'|E']; try lia.
      + eexists. reflexivity.
      + rewrite (bind_Ok_eq _ _ _ _ _ (Hb c cs cands d H1 U E)).
        apply IH; [assumption| |cbn in Hf; lia]. eapply unif_sub; [apply step_sub|exact U].
  Qed.

  (* the same loop written `for case in cases: if len(candidates) <= 1: break; candidates = step(case)` *)
  Lemma lex_for (body : nat -> list ind -> M (ctl (list ind))) :
    (forall c cands d, c < length w -> unif w cands ->
       body c cands d = if Nat.leb (length cands) 1 then Ok (Break cands) d else Ok (Next (step c cands)) d) ->
    forall cases cands d, Forall (fun c => c < length w) cases -> unif w cands ->
      for_break cases body cands d = Ok (lex_filter step cases cands) d.
  Proof.
    intros Hb cases. induction cases as [|c cs IH]; intros cands d Hc U; [reflexivity|].
    inversion Hc; subst. cbn [for_break lex_filter]. unfold bind at 1. rewrite (Hb c cands d H1 U).
    destruct (Nat.leb (length cands) 1); [reflexivity|]. apply IH; [assumption|].
    eapply unif_sub; [apply step_sub|exact U].
  Qed.

End LexLoop.

Lemma shuffled_cases w x0 d cases d1 :
  length (wv x0) = length w -> shuffle (seq 0 (length (values w x0))) d = Ok cases d1 ->
  Forall (fun c => c < length w) cases.
Proof.
  intros H Hs. apply shuffle_Ok in Hs as (p & _ & _ & ->). apply Forall_forall. intros c Hc.
  apply pick_In in Hc. apply in_seq in Hc. rewrite (values_length w x0 H) in Hc. lia.
Qed.

Ltac lex_finish :=
  rewrite ?filter_zip_map, ?filter_combine_map;
  unfold ret, step_auto, step_eps, step_plain, mad, maximised; cbv zeta;
  repeat match goal with H : Qltb _ _ = _ |- _ => rewrite H end; reflexivity.

(* one selection of the generated loop is one selection of lexicase_gen: the population is read
   (IndexError when empty), the cases are shuffled, the filter loop is lex_filter, one choice *)
Ltac lex_round step step_sub :=
  let i := fresh "i" in let acc := fresh "acc" in let d := fresh "d" in
  intros i acc d;
  match goal with U : uniform ?w ?inds |- _ =>
    destruct inds as [|x0 r]; [reflexivity|];
    repeat (cbv beta zeta; rewrite (bind_Ok_eq _ _ _ _ _ (index_cons0 x0 r _)));
    cbv beta zeta; refine (eq_trans _ (eq_sym (bind_assoc _ _ _ _)));
    apply bind_ext_ok; intros cases d1 Hs;
    pose proof (shuffled_cases w x0 d cases d1 (Forall_inv U) Hs) as Hcases;
    first
      [ (* while shape *)
        match goal with |- context [while_fuel ?fuel ?cond ?body (_, cases)] =>
          let E := fresh "E" in
          destruct (lex_while w step step_sub body
                      ltac:(intros c cs cands d' Hc Hu Hl; run; lex_finish)
                      cases (x0 :: r) fuel d1 Hcases (uniform_unif w _ U) ltac:(cbn [length]; lia)) as [cs' E];
          rewrite (bind_Ok_eq _ _ _ _ _ E); reflexivity
        end
      | (* for ... break shape *)
        match goal with |- context [for_break cases ?body (x0 :: r)] =>
          let E := fresh "E" in
          pose proof (lex_for w step step_sub body
                        ltac:(intros c cands d' Hc Hu; cbv beta; destruct (Nat.leb_spec (length cands) 1); [reflexivity|]; run; lex_finish)
                        cases (x0 :: r) d1 Hcases (uniform_unif w _ U)) as E;
          rewrite (bind_Ok_eq _ _ _ _ _ E); reflexivity
        end ]
  end.

Lemma gen_selLexicase_eq w inds k ds : uniform w inds -> gen_selLexicase w inds k ds = selLexicase w inds k ds.
Proof.
  intro U.
  first [ reflexivity
        | unfold gen_selLexicase, selLexicase, lexicase_gen; cbv zeta; apply rounds_loop;
          lex_round (step_plain w) (step_plain_sub w) ].
Qed.

Lemma gen_selEpsilonLexicase_eq w inds k eps ds :
  uniform w inds -> gen_selEpsilonLexicase w inds k eps ds = selEpsilonLexicase w inds k eps ds.
Proof.
  intro U.
  first [ reflexivity
        | unfold gen_selEpsilonLexicase, selEpsilonLexicase, lexicase_gen; cbv zeta; apply rounds_loop;
          lex_round (step_eps eps w) (step_eps_sub w eps) ].
Qed.

Lemma gen_selAutomaticEpsilonLexicase_eq w inds k ds :
  uniform w inds -> gen_selAutomaticEpsilonLexicase w inds k ds = selAutomaticEpsilonLexicase w inds k ds.
Proof.
  intro U.
  first [ reflexivity
        | unfold gen_selAutomaticEpsilonLexicase, selAutomaticEpsilonLexicase, lexicase_gen; cbv zeta; apply rounds_loop;
          lex_round (step_auto w) (step_auto_sub w) ].
Qed.

(* ================================================================== the source is the model *)
Theorem source_is_model :
  (forall inds k ds, gen_selRandom inds k ds = selRandom inds k ds) /\
  (forall inds k ds, gen_selBest inds k ds = Ok (selBest inds k) ds) /\
  (forall inds k ds, gen_selWorst inds k ds = Ok (selWorst inds k) ds) /\
  (forall inds k ts ds, gen_selTournament inds k ts ds = selTournament inds k ts ds) /\
  (forall w inds k ds, gen_selRoulette w inds k ds = selRoulette w inds k ds) /\
  (forall w inds k ds, gen_selStochasticUniversalSampling w inds k ds = selSUS w inds k ds) /\
  (forall inds k fs ps ff ds, gen_selDoubleTournament inds k fs ps ff ds = selDoubleTournament inds k fs ps ff ds) /\
  (forall w inds k ds, uniform w inds -> gen_selLexicase w inds k ds = selLexicase w inds k ds) /\
  (forall w inds k eps ds, uniform w inds ->
     gen_selEpsilonLexicase w inds k eps ds = selEpsilonLexicase w inds k eps ds) /\
  (forall w inds k ds, uniform w inds ->
     gen_selAutomaticEpsilonLexicase w inds k ds = selAutomaticEpsilonLexicase w inds k ds) /\
  (forall inds k ds, gen_selTournamentDCD inds k ds = selTournamentDCD inds k ds).
Proof.
  repeat match goal with |- _ /\ _ => split end; intros.
  - apply gen_selRandom_eq.
  - apply gen_selBest_eq.
  - apply gen_selWorst_eq.
  - apply gen_selTournament_eq.
  - apply gen_selRoulette_eq.
  - apply gen_selSUS_eq.
  - apply gen_selDoubleTournament_eq.
  - apply gen_selLexicase_eq; assumption.
  - apply gen_selEpsilonLexicase_eq; assumption.
  - apply gen_selAutomaticEpsilonLexicase_eq; assumption.
  - apply gen_selTournamentDCD_eq.
Qed.

(* ================================================================== the C06 theorems on the regenerated definitions *)
Lemma gen_selRandom_spec inds k ds out rest :
  gen_selRandom inds k ds = Ok out rest -> length out = k /\ Forall (fun x => In x inds) out.
Proof. rewrite gen_selRandom_eq. apply selRandom_spec. Qed.

Lemma gen_selBest_spec inds k ds out rest :
  gen_selBest inds k ds = Ok out rest ->
  rest = ds /\ length out = Nat.min k (length inds) /\
  StronglySorted (fun a b => f_le b a = true) out /\
  exists others, Permutation inds (out ++ others) /\ forall x y, In x others -> In y out -> f_le x y = true.
Proof.
  rewrite gen_selBest_eq. intro H. inversion H; subst. split; [reflexivity|]. apply (selBest_spec inds k).
Qed.

Lemma gen_selWorst_spec inds k ds out rest :
  gen_selWorst inds k ds = Ok out rest ->
  rest = ds /\ length out = Nat.min k (length inds) /\
  StronglySorted (fun a b => f_le a b = true) out /\
  exists others, Permutation inds (out ++ others) /\ forall x y, In x others -> In y out -> f_le y x = true.
Proof.
  rewrite gen_selWorst_eq. intro H. inversion H; subst. split; [reflexivity|]. apply (selWorst_spec inds k).
Qed.

Lemma gen_selTournament_spec inds k tournsize ds out rest :
  gen_selTournament inds k tournsize ds = Ok out rest ->
  length out = k /\
  Forall (fun w => In w inds /\
     exists aspirants d d',
       gen_selRandom inds tournsize d = Ok aspirants d' /\
       length aspirants = tournsize /\ Forall (fun a => In a inds) aspirants /\
       In w aspirants /\ forall a, In a aspirants -> f_le a w = true) out.
Proof.
  rewrite gen_selTournament_eq. intro H. destruct (selTournament_spec _ _ _ _ _ _ H) as [L F]. split; [exact L|].
  eapply Forall_impl; [|exact F]. intros x [Hx (asp & d & d' & Hs & R)]. split; [exact Hx|].
  exists asp, d, d'. rewrite gen_selRandom_eq. split; assumption.
Qed.

Lemma gen_selDoubleTournament_spec inds k fitness_size parsimony_size fitness_first ds out rest :
  gen_selDoubleTournament inds k fitness_size parsimony_size fitness_first ds = Ok out rest ->
  (1 <= parsimony_size)%Q /\ (parsimony_size <= 2)%Q /\ length out = k /\
  (fitness_first = true ->
     Forall (size_winner parsimony_size (fit_winner fitness_size (fun x => In x inds))) out) /\
  (fitness_first = false ->
     Forall (fit_winner fitness_size (size_winner parsimony_size (fun x => In x inds))) out).
Proof. rewrite gen_selDoubleTournament_eq. apply selDoubleTournament_spec. Qed.

Lemma gen_selRoulette_spec w inds k ds out rest :
  Forall (fun x => 0 < val0 w x)%Q inds -> inds <> [] ->
  gen_selRoulette w inds k ds = Ok out rest ->
  let s := py_sorted_rev f_lt inds in
  let S := sum_fits w inds in
  (0 < S /\ S == tot w s)%Q /\ length out = k /\ Forall (fun x => In x inds) out /\
  exists us, ds = map DRandom us ++ rest /\
    Forall2 (fun u x => (0 <= u /\ u < 1)%Q /\
               exists j, nth_error s j = Some x /\
                         (cum w s j <= u * S /\ u * S < cum w s (Datatypes.S j))%Q) us out.
Proof.
  intros P N. rewrite gen_selRoulette_eq. intro H.
  destruct (selRoulette_spec w inds k ds out rest P N H) as (A & B & C & D & us & E & F).
  cbv zeta. split; [split; assumption|]. split; [assumption|]. split; [assumption|].
  exists us. split; [assumption|]. eapply Forall2_weaken; [|exact F].
  cbv beta. intros u x (U0 & U1 & R). split; [split; assumption|exact R].
Qed.

Lemma gen_selSUS_k0 w inds ds :
  forallb (has_val0 w) inds = true -> gen_selStochasticUniversalSampling w inds 0 ds = Ok [] ds.
Proof. rewrite gen_selSUS_eq. apply selSUS_k0. Qed.

Lemma gen_selSUS_spec w inds k u ds out rest :
  Forall (fun x => 0 < val0 w x)%Q inds -> inds <> [] -> NoDup (map uid inds) -> (0 < k)%nat ->
  gen_selStochasticUniversalSampling w inds k (DRandom u :: ds) = Ok out rest -> (0 < u)%Q ->
  let S := sum_fits w inds in
  rest = ds /\ (u < 1)%Q /\ (0 < S)%Q /\ length out = k /\ Forall (fun x => In x inds) out /\
  forall x, In x inds ->
    let share := (inject_Z (Z.of_nat k) * val0 w x / S)%Q in
    (Qfloor share <= Z.of_nat (count_uid (uid x) out))%Z /\
    (Z.of_nat (count_uid (uid x) out) <= Qceiling share)%Z.
Proof. intros P N D K. rewrite gen_selSUS_eq. apply selSUS_spec; assumption. Qed.

Lemma gen_selLexicase_undominated w inds k ds out rest :
  uniform w inds -> gen_selLexicase w inds k ds = Ok out rest ->
  length out = k /\
  Forall (fun win => In win inds /\ forall y, In y inds -> ~ case_dominates w (length w) y win) out.
Proof. intro U. rewrite (gen_selLexicase_eq w inds k ds U). apply selLexicase_undominated. exact U. Qed.

Lemma gen_selEpsilonLexicase_partial w inds k eps ds out rest :
  uniform w inds -> (0 <= eps)%Q -> gen_selEpsilonLexicase w inds k eps ds = Ok out rest ->
  length out = k /\
  Forall (fun win => In win inds /\
            forall y, In y inds -> ~ case_dominates_beyond w (length w) eps y win) out.
Proof. intros U E. rewrite (gen_selEpsilonLexicase_eq w inds k eps ds U). apply selEpsilonLexicase_partial; assumption. Qed.

Lemma gen_eps_survivor w inds k eps ds out rest :
  uniform w inds -> gen_selEpsilonLexicase w inds k eps ds = Ok out rest ->
  length out = k /\ Forall (survivor_round w (step_eps eps w) (fun _ _ => eps) inds) out.
Proof.
  intros U. rewrite (gen_selEpsilonLexicase_eq w inds k eps ds U). intro H.
  eapply (lexicase_gen_survivor w (step_eps eps w) (fun _ _ => eps)); eauto.
  - apply step_eps_sub.
  - intros; eapply step_eps_tol; eauto.
Qed.

Lemma gen_auto_eps_survivor w inds k ds out rest :
  uniform w inds -> gen_selAutomaticEpsilonLexicase w inds k ds = Ok out rest ->
  length out = k /\ Forall (survivor_round w (step_auto w) (mad_of w) inds) out.
Proof.
  intros U. rewrite (gen_selAutomaticEpsilonLexicase_eq w inds k ds U). intro H.
  eapply (lexicase_gen_survivor w (step_auto w) (mad_of w)); eauto.
  - apply step_auto_sub.
  - apply step_auto_tol.
Qed.

Lemma gen_selTournamentDCD_spec inds k ds out rest :
  NoDup (map uid inds) -> (k mod 4 = 0)%nat ->
  gen_selTournamentDCD inds k ds = Ok out rest ->
  (k <= length inds)%nat /\ length out = k /\ Forall (fun x => In x inds) out /\
  forall u, (count_uid u out <= 2)%nat.
Proof. intros N K. rewrite gen_selTournamentDCD_eq. apply selTournamentDCD_spec; assumption. Qed.

(* no exception on in-scope inputs, for the regenerated definitions *)
Lemma gen_no_raise :
  (forall inds k ds e, inds <> [] -> gen_selRandom inds k ds <> Raise e) /\
  (forall inds k ts ds e, inds <> [] -> (1 <= ts)%nat -> gen_selTournament inds k ts ds <> Raise e) /\
  (forall inds k fs ps ff ds e, inds <> [] -> (1 <= fs)%nat -> (1 <= ps)%Q -> (ps <= 2)%Q ->
     gen_selDoubleTournament inds k fs ps ff ds <> Raise e) /\
  (forall w inds k ds e, Forall (fun x => 0 < val0 w x)%Q inds -> gen_selRoulette w inds k ds <> Raise e) /\
  (forall w inds k ds e, Forall (fun x => 0 < val0 w x)%Q inds -> inds <> [] ->
     gen_selStochasticUniversalSampling w inds k ds <> Raise e) /\
  (forall inds k ds e, (k <= length inds)%nat -> (k mod 4 = 0)%nat -> gen_selTournamentDCD inds k ds <> Raise e).
Proof.
  repeat match goal with |- _ /\ _ => split end; intros.
  - rewrite gen_selRandom_eq. apply selRandom_no_raise; assumption.
  - rewrite gen_selTournament_eq. apply selTournament_no_raise; assumption.
  - rewrite gen_selDoubleTournament_eq. apply selDoubleTournament_no_raise; assumption.
  - rewrite gen_selRoulette_eq. apply selRoulette_no_raise; assumption.
  - rewrite gen_selSUS_eq. apply selSUS_no_raise; assumption.
  - rewrite gen_selTournamentDCD_eq. apply selTournamentDCD_no_raise; assumption.
Qed.
