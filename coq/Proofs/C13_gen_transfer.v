(* C13 — tie (T): the refinement theorems of Proofs/C13_CMArefine.v (list model at a real closed field =
   algebraic model of Props/C13.v = published equations) transferred to the REGENERATED definitions through
   Proofs/C13_gen_equiv.v. *)
From mathcomp Require Import all_ssreflect fingroup perm all_algebra.
From DV Require Import Proofs.C13_CMArefine Proofs.C13_CMAsort.
From DV Require Model.C13_GenRt Gen.C13_gen Proofs.C13_gen_equiv.
Set Implicit Arguments.
Unset Strict Implicit.
Unset Printing Implicit Defensive.
Import GRing.Theory Num.Theory.
Local Open Scope ring_scope.
Module G := DV.Gen.C13_gen.
Module GE := DV.Proofs.C13_gen_equiv.

Section Transfer.
Variable R : rcfType.
Variables exp ln : R -> R.
Local Notation RN := (RNum exp ln).

(* the regenerated computeParams, read through the abstraction, is the algebraic computeParams: every theorem of
   Props/C13.v about compute_params (weights, documented defaults, admissible rates) is about the current source *)
Lemma gen_compute_params_refines (n dim lambda_ : nat) (chiN : R) (k : E.kargs) :
  dim = n ->
  let mu := E.getd (E.k_mu k) (Nat.div lambda_ 2) in
  let P := G.gen_computeParams RN dim lambda_ chiN k in
  wfP n mu P /\ absP mu P = A.compute_params n mu ln chiN (absK k).
Proof. by move=> dn; rewrite /= GE.gen_computeParams_eq; exact: exec_compute_params_refines. Qed.

(* the regenerated step-size statement, on the path the executable update computes, is the published sigma' *)
Lemma gen_sigma_is_published (n mu : nat)
      (eighL : seq (seq R) -> seq R * seq (seq R)) (eighA : 'M_n -> 'rV_n * 'M_n)
      (P : E.params) (st : E.state) (pop : seq (seq R * seq R)) :
  (forall C : seq (seq R), mshape n n C ->
     [/\ size (eighL C).1 = n, mshape n n (eighL C).2
       & eighA (mxL n n C) = (rvL n (eighL C).1, mxL n n (eighL C).2)]) ->
  wfP n mu P -> wfS n st ->
  let spop := List.map snd (E.sort_pop RN pop) in
  (mu <= size spop)%N -> all (fun x : seq R => size x == n) spop ->
  E.s_sigma st != 0 -> \sum_(i < mu) (rvL mu (E.p_weights P)) 0 i = 1 ->
  let ps' := E.new_ps RN P st (E.vsub RN (E.new_centroid RN P spop) (E.s_centroid st)) in
  G.gen_sigma RN P st ps'
  = (S.cma_update exp (absP mu P) (absS n st) (mxL mu n (take mu spop))).2.
Proof.
move=> He wP wS spop Hmu Hall s0 sw ps'.
rewrite /ps' /spop -(exec_update_is_published He wP wS Hmu Hall s0 sw) /=.
by rewrite (GE.gen_update_sigma RN eighL P st pop).
Qed.

End Transfer.
