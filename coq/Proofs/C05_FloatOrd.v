(* `<` on IEEE binary64 floats is a strict weak order away from NaN (from the standard library's
   specification axioms ltb_spec / eqb_spec), so the crowding-cut theorem also holds for the
   float instance of the model -- the instance that is compared bit for bit with CPython. *)
From Coq Require Import List ZArith Bool Lia Floats.
From DV Require Import Model.C05_Nsga2.
Import ListNotations.

Definition rk (f : spec_float) : Z * Z * Z :=
  match f with
  | S754_zero _ => (0, 0, 0)
  | S754_infinity true => (-2, 0, 0)
  | S754_infinity false => (2, 0, 0)
  | S754_nan => (0, 0, 0)
  | S754_finite true m e => (-1, - e, - Zpos m)
  | S754_finite false m e => (1, e, Zpos m)
  end%Z.

Definition lt3 (a b : Z * Z * Z) : Prop :=
  let '(a1, a2, a3) := a in let '(b1, b2, b3) := b in
  (a1 < b1 \/ (a1 = b1 /\ (a2 < b2 \/ (a2 = b2 /\ a3 < b3))))%Z.

Lemma SFltb_rk f1 f2 : f1 <> S754_nan -> f2 <> S754_nan ->
  (SFltb f1 f2 = true <-> lt3 (rk f1) (rk f2)).
Proof.
  intros N1 N2. unfold SFltb.
  destruct f1 as [s1|s1| |s1 m1 e1], f2 as [s2|s2| |s2 m2 e2]; try congruence;
    try destruct s1; try destruct s2; cbn [SFcompare rk lt3];
    try (split; [intro; lia|intro; lia || reflexivity]);
    try (split; [discriminate|intro; lia]).
  - (* both negative *)
    destruct (Z.compare_spec e1 e2) as [E|L|G].
    + subst. change (Pcompare m1 m2 Eq) with (Pos.compare m1 m2).
      destruct (Pos.compare_spec m1 m2) as [E|L|G]; cbn; split; try discriminate; try (intro; lia); reflexivity.
    + split; [discriminate|intro; lia].
    + split; [intro; lia|reflexivity].
  - (* both positive *)
    destruct (Z.compare_spec e1 e2) as [E|L|G].
    + subst. change (Pcompare m1 m2 Eq) with (Pos.compare m1 m2).
      destruct (Pos.compare_spec m1 m2) as [E|L|G]; cbn; split; try discriminate; try (intro; lia); reflexivity.
    + split; [intro; lia|reflexivity].
    + split; [discriminate|intro; lia].
Qed.

Definition not_nan (x : float) : Prop := PrimFloat.is_nan x = false.

Lemma not_nan_sf x : not_nan x -> Prim2SF x <> S754_nan.
Proof.
  unfold not_nan, PrimFloat.is_nan. rewrite eqb_spec. intros H E. rewrite E in H. cbn in H. discriminate.
Qed.

Lemma fltb_rk x y : not_nan x -> not_nan y ->
  (PrimFloat.ltb x y = true <-> lt3 (rk (Prim2SF x)) (rk (Prim2SF y))).
Proof. intros Nx Ny. rewrite ltb_spec. apply SFltb_rk; apply not_nan_sf; assumption. Qed.

Lemma fltb_asym a b : not_nan a -> not_nan b -> PrimFloat.ltb a b = true -> PrimFloat.ltb b a = false.
Proof.
  intros Na Nb H. apply (fltb_rk a b Na Nb) in H.
  destruct (PrimFloat.ltb b a) eqn:E; [|reflexivity]. apply (fltb_rk b a Nb Na) in E.
  destruct (rk (Prim2SF a)) as [[a1 a2] a3], (rk (Prim2SF b)) as [[b1 b2] b3]. cbn in *. lia.
Qed.

Lemma fltb_ntrans a b c : not_nan a -> not_nan b -> not_nan c ->
  PrimFloat.ltb b a = false -> PrimFloat.ltb c b = false -> PrimFloat.ltb c a = false.
Proof.
  intros Na Nb Nc H1 H2. destruct (PrimFloat.ltb c a) eqn:E; [|reflexivity].
  apply (fltb_rk c a Nc Na) in E.
  assert (G1 : ~ lt3 (rk (Prim2SF b)) (rk (Prim2SF a))) by (intro X; apply (fltb_rk b a Nb Na) in X; congruence).
  assert (G2 : ~ lt3 (rk (Prim2SF c)) (rk (Prim2SF b))) by (intro X; apply (fltb_rk c b Nc Nb) in X; congruence).
  destruct (rk (Prim2SF a)) as [[a1 a2] a3], (rk (Prim2SF b)) as [[b1 b2] b3], (rk (Prim2SF c)) as [[c1 c2] c3].
  cbn in *. lia.
Qed.
