(* Loop theorems of property C03 (Proofs/C03_Compose.v: the loop invariant InvC at the end of a run of the
   composed models) transported to the loops REGENERATED from the current source text
   (coq/Gen/C02_gen_loops.v), through Proofs/C02_gen_loops_equiv.v.  Props/C02_gen_loops.v lists them. *)
From Coq Require Import List ZArith Bool Arith Lia.
From DV Require Model.C02_Variation.
From DV Require Import Base.PyList Model.C02_GenRt Model.C03_Loops Proofs.C03_Loops Model.C03_Full Proofs.C03_Compose
                       Model.C02_GenLoopsRt.
From DV Require Import Gen.C02_gen_loops Proofs.C02_gen_loops_equiv.
Import ListNotations.
Local Open Scope nat_scope.

Lemma sel_in_length n k sels : Forall (sel_in n k) sels -> Forall (fun sel => length sel = k) sels.
Proof. apply Forall_impl. intros sel [H _]. exact H. Qed.

Lemma pres_sel_in_length {n : nat -> nat} k sels : forall g,
  pres (fun gen => sel_in (n gen) k) g sels -> Forall (fun sel => length sel = k) sels.
Proof.
  induction sels as [|sel r IH]; intros g H; [constructor|].
  cbn in H. destruct H as [[H _] Hr]. constructor; [exact H|exact (IH _ Hr)].
Qed.

Section P.
Context {G F T : Type}.
Variable evaluate : G -> F.
Variable fle : F -> F -> bool.
Variables ltb leb : T -> T -> bool.
Variable add : T -> T -> T.
Variable one : T.
Variable mate_o : nat -> G * option F -> G * option F -> V.mate_ans G F.
Variable mut_o : nat -> G * option F -> V.mut_ans G F.
Notation fstate := (@fstate G F T).

Lemma gen_simple_loop_inv cxpb mutpb h0 d pop sels (e : fstate) :
  (forall k x y, V.ret_distinct (V.ma_r1 (mate_o k x y)) (V.ma_r2 (mate_o k x y))) ->
  finit_ok evaluate h0 pop -> Forall (sel_in (length pop) (length pop)) sels ->
  to_fres (gen_eaSimple evaluate fle ltb leb add one mate_o mut_o cxpb mutpb (Z.of_nat (length sels))
                        (mkl (finit h0 d pop) sels)) = FOk e ->
  InvC evaluate (fview e) /\ length (f_log e) = S (length sels) /\ length (f_pop e) = length pop.
Proof.
  intros Md Hi Hs H. rewrite gen_eaSimple_eq in H by (exact (sel_in_length _ _ _ Hs)).
  destruct (full_simple_every_boundary evaluate fle ltb mate_o mut_o Md cxpb mutpb h0 d pop sels [] e Hi)
    as (b & Hb & I & L & P & _); [rewrite app_nil_r; exact Hs | rewrite app_nil_r; exact H |].
  rewrite H in Hb. inversion Hb; subst b. auto.
Qed.

Lemma gen_plus_loop_inv mu lambda_ cxpb mutpb h0 d pop sels (e : fstate) :
  finit_ok evaluate h0 pop -> sels_plus (length pop) mu (Z.to_nat lambda_) sels ->
  to_fres (gen_eaMuPlusLambda evaluate fle ltb leb add one mate_o mut_o (Z.of_nat mu) lambda_ cxpb mutpb
                              (Z.of_nat (length sels)) (mkl (finit h0 d pop) sels)) = FOk e ->
  InvC evaluate (fview e) /\ length (f_log e) = S (length sels) /\
  length (f_pop e) = match sels with [] => length pop | _ => mu end.
Proof.
  intros Hi Hs H. rewrite gen_eaMuPlusLambda_eq in H by (exact (@pres_sel_in_length (fun gen => plus_size (length pop) mu gen + Z.to_nat lambda_) mu sels 1 Hs)).
  destruct (full_plus_every_boundary evaluate fle ltb leb add one mate_o mut_o mu lambda_ cxpb mutpb h0 d pop sels [] e Hi)
    as (b & Hb & I & L & P & _); [rewrite app_nil_r; exact Hs | rewrite app_nil_r; exact H |].
  rewrite H in Hb. inversion Hb; subst b. auto.
Qed.

Lemma gen_comma_loop_inv mu lambda_ cxpb mutpb h0 d pop sels (e : fstate) :
  finit_ok evaluate h0 pop -> Forall (sel_in (Z.to_nat lambda_) mu) sels ->
  to_fres (gen_eaMuCommaLambda evaluate fle ltb leb add one mate_o mut_o (Z.of_nat mu) lambda_ cxpb mutpb
                               (Z.of_nat (length sels)) (mkl (finit h0 d pop) sels)) = FOk e ->
  InvC evaluate (fview e) /\ length (f_log e) = S (length sels) /\
  length (f_pop e) = match sels with [] => length pop | _ => mu end.
Proof.
  intros Hi Hs H. rewrite gen_eaMuCommaLambda_eq in H by (exact (sel_in_length _ _ _ Hs)).
  destruct (full_comma_every_boundary evaluate fle ltb leb add one mate_o mut_o mu lambda_ cxpb mutpb h0 d pop sels [] e Hi)
    as (b & Hb & I & L & P & _); [rewrite app_nil_r; exact Hs | rewrite app_nil_r; exact H |].
  rewrite H in Hb. inversion Hb; subst b. auto.
Qed.

End P.
