(* C20: theorems about the published formulas (Model/C20_BenchSpec.v) over the reals:
   tabulated optima (exact: lra/field with cos 0 = 1, exp 0 = 1; approximate: interval arithmetic),
   front identities of the DTLZ and ZDT families for every input, what the decorators feed the
   wrapped function, the moving-peaks maximum and the peak-count invariant.
   Props/C20.v transports them to the definitions regenerated from the source (Proofs/C20_GenEq.v). *)
From Coq Require Import Reals ZArith List Bool Lia Lra.
From Interval Require Import Tactic.
From DV Require Import Base.PyList Base.C20_Num Model.C20_BenchSpec Proofs.C20_Lists Proofs.C20_Reals Proofs.C20_Shapes.
Import ListNotations.
Local Open Scope R_scope.

(* ================= tabulated optima ================= *)

Definition zeros (n : nat) : list R := repeat 0 n.
Definition ones_R (n : nat) : list R := repeat 1 n.

Lemma Rsum_map_zero {A} (f : A -> R) l : (forall a, In a l -> f a = 0) -> Rsum (map f l) = 0.
Proof.
  intro H. unfold Rsum. induction l as [|a l IH]; [reflexivity|]. cbn. rewrite H by (left; reflexivity).
  rewrite IH; [ring|]. intros b Hb. apply H. right. exact Hb.
Qed.

Lemma in_repeat {A} (a b : A) n : In a (repeat b n) -> a = b.
Proof. apply repeat_spec. Qed.

Lemma tl_repeat {A} (a : A) n : tl (repeat a n) = repeat a (n - 1).
Proof. destruct n; cbn; [reflexivity|]. rewrite Nat.sub_0_r. reflexivity. Qed.

Lemma consec_repeat (a : R) n : @consec R (repeat a n) = repeat (a, a) (n - 1).
Proof.
  unfold consec. rewrite tl_repeat. destruct n as [|n]; [reflexivity|].
  cbn [Nat.sub]. rewrite Nat.sub_0_r. cbn [repeat].
  revert a; induction n as [|n IH]; intro a; [reflexivity|]. cbn [repeat zip]. f_equal. apply IH.
Qed.

Lemma nth_repeat' {A} (a d : A) n i : (i < n)%nat -> nth i (repeat a n) d = a.
Proof. revert i; induction n; intros [|i] H; cbn; try lia; auto. apply IHn. lia. Qed.

Lemma x_zeros n i : @x_ R NumR (zeros n) i = 0.
Proof.
  unfold x_, zeros. numR. destruct (Nat.lt_ge_cases i n).
  - apply nth_repeat'. assumption.
  - apply nth_overflow. rewrite repeat_length. assumption.
Qed.

Theorem opt_plane n : spec_bm_plane (zeros n) = [0].
Proof. unfold spec_bm_plane. rewrite x_zeros. reflexivity. Qed.

Theorem opt_sphere n : spec_bm_sphere (zeros n) = [0].
Proof.
  unfold spec_bm_sphere. numR. f_equal. apply Rsum_map_zero. intros a Ha. apply in_repeat in Ha. subst. ring.
Qed.

Theorem opt_cigar n : spec_bm_cigar (zeros n) = [0].
Proof.
  unfold spec_bm_cigar. f_equal. rewrite x_zeros. numR. unfold zeros. rewrite tl_repeat.
  rewrite Rsum_map_zero; [ring|]. intros a Ha. apply in_repeat in Ha. subst. ring.
Qed.

Theorem opt_rosenbrock n : spec_bm_rosenbrock (ones_R n) = [0].
Proof.
  unfold spec_bm_rosenbrock, ones_R. rewrite consec_repeat. numR. f_equal.
  apply Rsum_map_zero. intros a Ha. apply in_repeat in Ha. subst. cbn [fst snd]. ring.
Qed.

Lemma Rsum_map_all {A} (f : A -> R) l c : (forall a, In a l -> f a = c) -> Rsum (map f l) = INR (length l) * c.
Proof.
  intro H. unfold Rsum. induction l as [|a l IH]; [cbn; ring|]. cbn [map fold_right length].
  rewrite H by (left; reflexivity). rewrite IH by (intros b Hb; apply H; right; exact Hb). rewrite S_INR. ring.
Qed.

Lemma Rsum_map_const_repeat {A} (f : A -> R) (a : A) n : Rsum (map f (repeat a n)) = INR n * f a.
Proof.
  rewrite (Rsum_map_all f _ (f a)); [rewrite repeat_length; reflexivity|].
  intros b Hb. apply in_repeat in Hb. subst. reflexivity.
Qed.

Theorem opt_ackley n : (1 <= n)%nat -> spec_bm_ackley (zeros n) = [0].
Proof.
  intro Hn. unfold spec_bm_ackley, zeros. norm_dec. numR. rewrite repeat_length, IZR_of_nat. f_equal.
  rewrite !Rsum_map_const_repeat.
  assert (INR n <> 0) by (apply not_0_INR; lia).
  replace (1 / INR n * (INR n * 0 ^ 2)) with 0 by (field; assumption).
  replace (1 / INR n * (INR n * cos (2 * PI * 0))) with 1.
  - rewrite sqrt_0, Rmult_0_r, exp_0. ring.
  - rewrite Rmult_0_r, cos_0. field. assumption.
Qed.

Theorem opt_bohachevsky n : spec_bm_bohachevsky (zeros n) = [0].
Proof.
  unfold spec_bm_bohachevsky, zeros. rewrite consec_repeat. norm_dec. numR. f_equal.
  apply Rsum_map_zero. intros a Ha. apply in_repeat in Ha. subst. cbn [fst snd].
  rewrite !Rmult_0_r, cos_0. lra.
Qed.

Lemma Rprod_map_one {A} (f : A -> R) l : (forall a, In a l -> f a = 1) -> fold_right Rmult 1 (map f l) = 1.
Proof.
  intro H. induction l as [|a l IH]; [reflexivity|]. cbn. rewrite H by (left; reflexivity).
  rewrite IH; [ring|]. intros b Hb. apply H. right. exact Hb.
Qed.

Theorem opt_griewank n : spec_bm_griewank (zeros n) = [0].
Proof.
  unfold spec_bm_griewank, zeros, indexed. numR. f_equal.
  rewrite Rsum_map_zero by (intros a Ha; apply in_repeat in Ha; subst; ring).
  rewrite Rprod_map_one; [ring|]. intros [i v] Hi. apply in_combine_r in Hi. apply in_repeat in Hi. subst.
  cbn [fst snd]. unfold Rdiv. rewrite Rmult_0_l. apply cos_0.
Qed.

Theorem opt_rastrigin n : spec_bm_rastrigin (zeros n) = [0].
Proof.
  unfold spec_bm_rastrigin, zeros. numR. rewrite repeat_length, IZR_of_nat. f_equal.
  rewrite Rsum_map_const_repeat, Rmult_0_r, cos_0. ring.
Qed.

Theorem opt_rastrigin_skew n : spec_bm_rastrigin_skew (zeros n) = [0].
Proof.
  unfold spec_bm_rastrigin_skew, zeros. numR. rewrite repeat_length, IZR_of_nat. f_equal. cbv zeta.
  rewrite Rsum_map_const_repeat. rewrite (Rltb_false 0 0) by lra. rewrite Rmult_0_r, cos_0. ring.
Qed.

Theorem opt_rastrigin_scaled n : spec_bm_rastrigin_scaled (zeros n) = [0].
Proof.
  unfold spec_bm_rastrigin_scaled, zeros, indexed. numR. rewrite repeat_length, IZR_of_nat. f_equal. cbv zeta.
  rewrite (Rsum_map_all _ _ (-10)).
  - rewrite combine_length, seq_length, repeat_length, Nat.min_id. ring.
  - intros [i v] Hi. apply in_combine_r in Hi. apply in_repeat in Hi. subst. cbn [fst snd].
    rewrite !Rmult_0_r, cos_0. ring.
Qed.

Theorem opt_schaffer n : spec_bm_schaffer (zeros n) = [0].
Proof.
  unfold spec_bm_schaffer, zeros. rewrite consec_repeat. norm_dec. numR. f_equal.
  apply Rsum_map_zero. intros a Ha. apply in_repeat in Ha. subst. cbn [fst snd]. cbv zeta.
  replace (0 ^ 2 + 0 ^ 2) with 0 by ring. rewrite Rpow_total_0 by lra. ring.
Qed.

Theorem opt_himmelblau_1 : spec_bm_himmelblau [3; 2] = [0].
Proof. unfold spec_bm_himmelblau. numR. cbn [nth]. f_equal. ring. Qed.

(* the three other documented minima are 6-digit decimals: the value there is below 1e-9 *)
Definition himmelblau_R (x y : R) : R := (x ^ 2 + y - 11) ^ 2 + (x + y ^ 2 - 7) ^ 2.
Lemma himmelblau_spec x y : spec_bm_himmelblau [x; y] = [himmelblau_R x y].
Proof. reflexivity. Qed.
Theorem opt_himmelblau_234 :
  0 <= himmelblau_R (-2805118 / 1000000) (3131312 / 1000000) <= 1 / 1000000000 /\
  0 <= himmelblau_R (-3779310 / 1000000) (-3283186 / 1000000) <= 1 / 1000000000 /\
  0 <= himmelblau_R (3584428 / 1000000) (-1848126 / 1000000) <= 1 / 1000000000.
Proof. unfold himmelblau_R. repeat split; lra. Qed.

(* ================= front identities ================= *)

Definition sumsq (f : list R) : R := Rsum (map (fun v => v ^ 2) f).
Definition enorm (f : list R) : R := sqrt (sumsq f).

(* ---- g functions are non-negative ---- *)
Lemma g2_nonneg xm : 0 <= @dtlz_g2 R NumR xm.
Proof. unfold dtlz_g2. norm_dec. numR. apply Rsum_map_sq_nonneg. Qed.

Lemma g13_nonneg xm : 0 <= @dtlz_g13 R NumR xm.
Proof.
  unfold dtlz_g13. norm_dec. numR. rewrite IZR_of_nat.
  assert (H : 0 <= INR (length xm) + Rsum (map (fun xi => (xi - 1 / 2) ^ 2 - cos (20 * PI * (xi - 1 / 2))) xm)).
  { induction xm as [|a l IH]; [unfold Rsum; cbn; lra|].
    cbn [length map]. rewrite S_INR. unfold Rsum in *. cbn [fold_right].
    pose proof (pow2_ge_0 (a - 1 / 2)). pose proof (COS_bound (20 * PI * (a - 1 / 2))). lra. }
  lra.
Qed.

Lemma Rpow_total_nonneg x y : 0 <= Rpow_total x y.
Proof.
  unfold Rpow_total. destruct (Rlt_dec 0 x); [unfold Rpower; left; apply exp_pos|].
  destruct (Req_EM_T x 0); [destruct (Req_EM_T y 0); lra|lra].
Qed.

Lemma g6_nonneg xm : 0 <= @dtlz_g6 R NumR xm.
Proof.
  unfold dtlz_g6. numR. apply Rsum_nonneg. apply Forall_forall. intros y Hy.
  apply in_map_iff in Hy. destruct Hy as (x & <- & _). apply Rpow_total_nonneg.
Qed.

(* ---- DTLZ1: the objectives sum to (1+g)/2 ---- *)
Theorem dtlz1_sum (x : list R) M : Rsum (spec_bm_dtlz1 x M) = (1 + dtlz_g13 (dtlz_xm x M)) / 2.
Proof. unfold spec_bm_dtlz1. rewrite simplex_sum. norm_dec. numR. lra. Qed.

(* ---- DTLZ2-6: the objective vector has Euclidean norm 1+g ---- *)
Lemma enorm_sphere r angles : 0 <= r -> enorm (@sphere_coords R NumR r angles) = r.
Proof. intro Hr. unfold enorm, sumsq. rewrite sphere_norm. replace (r ^ 2) with (r * r) by ring. apply sqrt_square. exact Hr. Qed.

Theorem dtlz2_norm (x : list R) M : enorm (spec_bm_dtlz2 x M) = 1 + dtlz_g2 (dtlz_xm x M).
Proof.
  unfold spec_bm_dtlz2. apply enorm_sphere. pose proof (g2_nonneg (dtlz_xm x M)).
  change (0 <= 1 + dtlz_g2 (dtlz_xm x M)). lra.
Qed.
Theorem dtlz3_norm (x : list R) M : enorm (spec_bm_dtlz3 x M) = 1 + dtlz_g13 (dtlz_xm x M).
Proof.
  unfold spec_bm_dtlz3. apply enorm_sphere. pose proof (g13_nonneg (dtlz_xm x M)).
  change (0 <= 1 + dtlz_g13 (dtlz_xm x M)). lra.
Qed.
Theorem dtlz4_norm (x : list R) M alpha : enorm (spec_bm_dtlz4 x M alpha) = 1 + dtlz_g2 (dtlz_xm x M).
Proof.
  unfold spec_bm_dtlz4. apply enorm_sphere. pose proof (g2_nonneg (dtlz_xm x M)).
  change (0 <= 1 + dtlz_g2 (dtlz_xm x M)). lra.
Qed.
Theorem dtlz5_norm (x : list R) M : enorm (spec_bm_dtlz5 x M) = 1 + dtlz_g2 (dtlz_xm x M).
Proof.
  unfold spec_bm_dtlz5. cbv zeta. apply enorm_sphere. pose proof (g2_nonneg (dtlz_xm x M)).
  change (0 <= 1 + dtlz_g2 (dtlz_xm x M)). lra.
Qed.
Theorem dtlz6_norm (x : list R) M : enorm (spec_bm_dtlz6 x M) = 1 + dtlz_g6 (dtlz_xm x M).
Proof.
  unfold spec_bm_dtlz6. cbv zeta. apply enorm_sphere. pose proof (g6_nonneg (dtlz_xm x M)).
  change (0 <= 1 + dtlz_g6 (dtlz_xm x M)). lra.
Qed.

(* the squared form needs no sign condition *)
Theorem dtlz_sumsq r angles : sumsq (@sphere_coords R NumR r angles) = r ^ 2.
Proof. apply sphere_norm. Qed.

(* ---- one entry per objective ---- *)
Lemma simplex_length (xc : list R) : forall r, length (@simplex R NumR r xc) = S (length xc).
Proof. induction xc as [|a l IH]; intro r; cbn [simplex]; [reflexivity|]. rewrite app_length, IH. cbn. lia. Qed.
Lemma sphere_length (a : list R) : forall r, length (@sphere_coords R NumR r a) = S (length a).
Proof. induction a as [|t l IH]; intro r; cbn [sphere_coords]; [reflexivity|]. rewrite app_length, IH. cbn. lia. Qed.

Lemma xc_length (x : list R) M : (1 <= M)%Z -> (M - 1 <= zlen x)%Z -> length (dtlz_xc x M) = Z.to_nat (M - 1).
Proof. intros. unfold dtlz_xc. apply firstn_length_le. unfold zlen in *. lia. Qed.

Theorem dtlz_lengths (x : list R) M alpha : (2 <= M)%Z -> (M - 1 <= zlen x)%Z ->
  length (spec_bm_dtlz1 x M) = Z.to_nat M /\ length (spec_bm_dtlz2 x M) = Z.to_nat M /\
  length (spec_bm_dtlz3 x M) = Z.to_nat M /\ length (spec_bm_dtlz4 x M alpha) = Z.to_nat M /\
  length (spec_bm_dtlz5 x M) = Z.to_nat M /\ length (spec_bm_dtlz6 x M) = Z.to_nat M /\
  length (spec_bm_dtlz7 x M) = Z.to_nat M.
Proof.
  intros H1 H2. pose proof (xc_length x M ltac:(lia) H2) as L.
  unfold spec_bm_dtlz1, spec_bm_dtlz2, spec_bm_dtlz3, spec_bm_dtlz4, spec_bm_dtlz5, spec_bm_dtlz6, spec_bm_dtlz7. cbv zeta.
  rewrite simplex_length, !sphere_length, !map_length, app_length, L.
  assert (length (dtlz56_angles (dtlz_g2 (dtlz_xm x M)) (dtlz_xc x M)) = Z.to_nat (M - 1)
          /\ length (dtlz56_angles (dtlz_g6 (dtlz_xm x M)) (dtlz_xc x M)) = Z.to_nat (M - 1)) as [E1 E2].
  { destruct (dtlz_xc x M) as [|a l]; cbn [dtlz56_angles length] in *; [split; exact L|]. rewrite !map_length. split; exact L. }
  rewrite E1, E2. cbn [length]. repeat split; lia.
Qed.

(* ---- ZDT: second objective = g * h(f1, g) ---- *)
Theorem zdt_f2 (x : list R) :
  nth 1 (spec_bm_zdt1 x) 0 = zdt_g x * zdt1_h (nth 0 (spec_bm_zdt1 x) 0) (zdt_g x) /\
  nth 1 (spec_bm_zdt2 x) 0 = zdt_g x * zdt2_h (nth 0 (spec_bm_zdt2 x) 0) (zdt_g x) /\
  nth 1 (spec_bm_zdt3 x) 0 = zdt_g x * zdt3_h (nth 0 (spec_bm_zdt3 x) 0) (zdt_g x) /\
  nth 1 (spec_bm_zdt4 x) 0 = zdt4_g x * zdt1_h (nth 0 (spec_bm_zdt4 x) 0) (zdt4_g x) /\
  nth 1 (spec_bm_zdt6 x) 0 = zdt6_g x * zdt2_h (nth 0 (spec_bm_zdt6 x) 0) (zdt6_g x).
Proof. repeat split; reflexivity. Qed.

(* on the optimal front of ZDT1 (x_2..x_n = 0): g = 1 and f2 = 1 - sqrt f1 *)
Theorem zdt1_front (x1 : R) n : (1 <= n)%nat -> spec_bm_zdt1 (x1 :: repeat 0 n) = [x1; 1 - sqrt x1].
Proof.
  intro Hn. unfold spec_bm_zdt1, zdt_g, zdt1_h. numR. cbn [tl nth length].
  rewrite map_id. rewrite Rsum_repeat. rewrite Nat2Z.inj_succ, succ_IZR, IZR_of_nat, repeat_length.
  assert (INR n <> 0) by (apply not_0_INR; lia).
  replace (1 + 9 * (INR n * 0) / (INR n + 1 - 1)) with 1 by (field; lra).
  f_equal. f_equal. unfold Rdiv. rewrite Rinv_1, Rmult_1_r. ring.
Qed.


(* ---------------- decorators ---------------- *)
Lemma nth_zip_map {A B C} (f : A * B -> C) (a : list A) (b : list B) da db dc i :
  (i < length a)%nat -> (i < length b)%nat -> nth i (map f (zip a b)) dc = f (nth i a da, nth i b db).
Proof.
  revert b i; induction a as [|x a IH]; intros [|y b] [|i] Ha Hb; cbn in *; try lia; try reflexivity.
  apply IH; lia.
Qed.

Theorem translate_feeds (t x : list R) : length t = length x ->
  length (spec_translate_arg t x) = length x /\
  forall i, (i < length x)%nat -> nth i (spec_translate_arg t x) 0 = nth i x 0 - nth i t 0.
Proof.
  intro H. unfold spec_translate_arg. split.
  - rewrite map_length, zip_length, H, Nat.min_id. reflexivity.
  - intros i Hi. rewrite (nth_zip_map _ x t 0 0) by lia. reflexivity.
Qed.

(* translating the individual by +t and evaluating the decorated function evaluates the original at the individual *)
Theorem translate_inverse (t y : list R) : length t = length y ->
  spec_translate_arg t (map2 Rplus y t) = y.
Proof.
  unfold spec_translate_arg. revert t; induction y as [|a y IH]; intros [|b t] H; cbn in *; try lia; [reflexivity|].
  numR. f_equal; [ring|]. apply IH. lia.
Qed.

Theorem scale_feeds (s x : list R) : length s = length x ->
  length (spec_scale_arg (spec_scale_factor s) x) = length x /\
  forall i, (i < length x)%nat -> nth i (spec_scale_arg (spec_scale_factor s) x) 0 = nth i x 0 / nth i s 1.
Proof.
  intro H. unfold spec_scale_arg, spec_scale_factor. split.
  - rewrite map_length, zip_length, map_length, H, Nat.min_id. reflexivity.
  - intros i Hi. rewrite (nth_zip_map _ x _ 0 (1 / 1)) by (rewrite ?map_length; lia).
    cbn [fst snd]. numR. change (1 / 1) with ((fun si => 1 / si) 1). rewrite map_nth. unfold Rdiv. ring.
Qed.

Theorem scale_inverse (s y : list R) : length s = length y -> Forall (fun v => v <> 0) s ->
  spec_scale_arg (spec_scale_factor s) (map2 Rmult y s) = y.
Proof.
  unfold spec_scale_arg, spec_scale_factor. intros H F. revert y H; induction F as [|b s Hb F IH]; intros [|a y] H; cbn in *; try lia; [reflexivity|].
  numR. f_equal; [field; exact Hb|]. apply IH. lia.
Qed.

(* rotate: given the contract of numpy.linalg.inv (Minv is a left inverse of M as a linear map on R^n),
   the wrapped function is fed the y with M y = individual, i.e. M^-1 individual *)
Theorem rotate_feeds (M Minv : list (list R)) n (x y : list R) :
  (forall z, length z = n -> matvec Minv (matvec M z) = z) ->
  length y = n -> matvec M y = x -> spec_rotate_arg Minv x = y.
Proof. intros Hinv Hy <-. unfold spec_rotate_arg. apply Hinv. exact Hy. Qed.

Theorem noise_feeds (fs : list (option R)) (x : list R) : spec_noise_arg fs x = x.
Proof. reflexivity. Qed.

Theorem noise_adds (fs : list (option R)) (x r : list R) i : (i < length r)%nat -> (i < length fs)%nat ->
  nth i (spec_noise_post fs x r) 0 = match nth i fs None with None => nth i r 0 | Some d => nth i r 0 + d end.
Proof. intros H1 H2. unfold spec_noise_post. rewrite (nth_zip_map _ r fs 0 None) by lia. reflexivity. Qed.

(* ---------------- bin2float ---------------- *)

Lemma bv_acc (l : list Z) : forall acc,
  (fold_left (fun a v => 2 * a + v) l acc = acc * 2 ^ zlen l + fold_left (fun a v => 2 * a + v) l 0)%Z.
Proof.
  induction l as [|v r IH]; intro acc.
  - cbn. unfold zlen. cbn. lia.
  - cbn [fold_left]. rewrite (IH (2 * acc + v)%Z), (IH (2 * 0 + v)%Z).
    unfold zlen. cbn [length]. rewrite Nat2Z.inj_succ, Z.pow_succ_r by lia. lia.
Qed.

Lemma bits_value_bound (l : list Z) : Forall is_bit l -> (0 <= bits_value l <= 2 ^ zlen l - 1)%Z.
Proof.
  unfold bits_value. induction 1 as [|v r Hv Hr IH].
  - cbn. unfold zlen. cbn. lia.
  - cbn [fold_left]. rewrite bv_acc. unfold zlen in *. cbn [length]. rewrite Nat2Z.inj_succ, Z.pow_succ_r by lia.
    assert (0 < 2 ^ Z.of_nat (length r))%Z by (apply Z.pow_pos_nonneg; lia).
    destruct Hv as [-> | ->]; lia.
Qed.

Lemma In_firstn' {A} (v : A) n l : In v (firstn n l) -> In v l.
Proof. revert l; induction n as [|n IH]; intros [|x l] H; cbn in *; try contradiction; auto. destruct H; auto. Qed.
Lemma In_skipn' {A} (v : A) n l : In v (skipn n l) -> In v l.
Proof. revert l; induction n as [|n IH]; intros [|x l] H; cbn in *; try contradiction; auto. Qed.

Lemma nth_map_seq {A} (f : nat -> A) n i d : (i < n)%nat -> nth i (map f (seq 0 n)) d = f i.
Proof.
  intro H. rewrite (nth_indep (map f (seq 0 n)) d (f 0%nat)) by (rewrite map_length, seq_length; exact H).
  rewrite (map_nth f (seq 0 n) 0%nat i), seq_nth by exact H. reflexivity.
Qed.

(* every decoded gene is min + k/(2^nbits - 1) * (max - min) with 0 <= k <= 2^nbits - 1: it lies between min and max *)
Theorem bin2float_feeds (mn mx : R) nbits (b : list Z) i : (1 <= nbits)%Z -> Forall is_bit b ->
  (i < length b / Z.to_nat nbits)%nat ->
  let k := bits_value (block b (i * Z.to_nat nbits) (Z.to_nat nbits)) in
  nth i (spec_bin2float_arg mn mx nbits b) 0 = mn + IZR k / IZR (2 ^ nbits - 1) * (mx - mn) /\
  (0 <= k <= 2 ^ nbits - 1)%Z /\
  (mn <= mx -> mn <= nth i (spec_bin2float_arg mn mx nbits b) 0 <= mx).
Proof.
  intros Hn Hb Hi k. unfold spec_bin2float_arg.
  set (w := Z.to_nat nbits) in *.
  assert (E : nth i (map (fun i0 : nat => nadd mn (nmul (ndiv (int (bits_value (block b (i0 * w) w))) (int (2 ^ nbits - 1))) (nsub mx mn)))
                      (seq 0 (length b / w))) 0 = mn + IZR k / IZR (2 ^ nbits - 1) * (mx - mn)).
  { rewrite nth_map_seq by exact Hi. reflexivity. }
  assert (K : (0 <= k <= 2 ^ nbits - 1)%Z).
  { unfold k. pose proof (bits_value_bound (block b (i * w) w)) as B.
    assert (L : zlen (block b (i * w) w) = nbits).
    { unfold zlen, block. rewrite firstn_length_le; [unfold w; lia|]. rewrite skipn_length.
      pose proof (Nat.mul_div_le (length b) w ltac:(unfold w; lia)). nia. }
    rewrite L in B. apply B. unfold block. rewrite Forall_forall in *. intros v Hv. apply Hb.
    eapply In_skipn', In_firstn'. exact Hv. }
  split; [exact E|]. split; [exact K|]. intro Hm. rewrite E.
  assert (P : (2 <= 2 ^ nbits)%Z) by (change 2%Z with (2 ^ 1)%Z at 1; apply Z.pow_le_mono_r; lia).
  assert (D : 0 < IZR (2 ^ nbits - 1)) by (apply IZR_lt; lia).
  assert (F : 0 <= IZR k / IZR (2 ^ nbits - 1) <= 1).
  { split.
    - apply Rmult_le_pos; [apply IZR_le; lia|left; apply Rinv_0_lt_compat; exact D].
    - apply Rmult_le_reg_r with (IZR (2 ^ nbits - 1)); [exact D|]. unfold Rdiv. rewrite Rmult_assoc, Rinv_l, Rmult_1_r, Rmult_1_l by lra.
      apply IZR_le. lia. }
  nra.
Qed.

(* ---------------- moving peaks ---------------- *)
Lemma pymax_spec (d : R) (l : list R) : l <> [] -> In (pymax d l) l /\ forall v, In v l -> v <= pymax d l.
Proof.
  destruct l as [|x r]; [congruence|]. intros _. unfold pymax. numR.
  revert x. induction r as [|y r IH]; intro x.
  - cbn. split; [left; reflexivity|]. intros v [<-|[]]. lra.
  - cbn [fold_left]. destruct (IH (if Rltb x y then y else x)) as [I M]. split.
    + destruct I as [E|I]; [|right; right; exact I]. rewrite <- E.
      destruct (Rltb x y); [right; left; reflexivity|left; reflexivity].
    + intros v [E|[E|Hv]].
      * subst v. eapply Rle_trans; [|apply M; left; reflexivity]. unfold Rltb. destruct (Rlt_dec x y); lra.
      * subst v. eapply Rle_trans; [|apply M; left; reflexivity]. unfold Rltb. destruct (Rlt_dec x y); lra.
      * apply M. right. exact Hv.
Qed.

(* evaluation returns the maximum over the peak functions (and the basis function, if any) *)
Theorem mp_eval_is_max fs ps hs ws basis (x : list R) :
  let vals := peak_values fs ps hs ws x ++ match basis with Some b => [b x] | None => [] end in
  vals <> [] ->
  exists m, spec_mp_call fs ps hs ws basis x = [m] /\ In m vals /\ forall v, In v vals -> v <= m.
Proof.
  intros vals Hne. exists (pymax 0 vals). split; [reflexivity|]. apply pymax_spec. exact Hne.
Qed.

(* the number of peaks stays within its configured limits: one change, any draws, any severity, any Num instance *)
Theorem mp_count_step {T} `{Num T} (minp maxp : Z) (sev : T) (n : Z) (u1 u2 : T) :
  (minp <= n <= maxp)%Z -> (minp <= spec_mp_cp_count minp maxp sev n u1 u2 <= maxp)%Z.
Proof. intro Hn. unfold spec_mp_cp_count. cbv zeta. destruct (nltb u1 _); lia. Qed.

Definition mp_count_after {T} `{Num T} (minp maxp : Z) (sev : T) (n0 : Z) (draws : list (T * T)) : Z :=
  fold_left (fun n d => spec_mp_cp_count minp maxp sev n (fst d) (snd d)) draws n0.

Theorem mp_count_in_limits {T} `{Num T} (minp maxp : Z) (sev : T) (n0 : Z) (draws : list (T * T)) :
  (minp <= n0 <= maxp)%Z -> (minp <= mp_count_after minp maxp sev n0 draws <= maxp)%Z.
Proof.
  unfold mp_count_after. revert n0; induction draws as [|d r IH]; intros n0 Hn; cbn [fold_left]; [exact Hn|].
  apply IH. apply mp_count_step. exact Hn.
Qed.

(* ---------------- approximate optima (interval arithmetic) ---------------- *)
Lemma schwefel_term :
  Rabs (4189828872724339 / 10000000000000 - 42096874636 / 100000000 * sin (sqrt (Rabs (42096874636 / 100000000)))) <= 1 / 10000.
Proof. rewrite (Rabs_pos_eq (42096874636 / 100000000)) by lra. interval with (i_prec 80). Qed.

Theorem opt_schwefel n :
  exists v, spec_bm_schwefel (repeat (42096874636 / 100000000) n) = [v] /\ Rabs v <= INR n * (1 / 10000).
Proof.
  eexists. split; [reflexivity|]. norm_dec. numR. rewrite repeat_length, IZR_of_nat.
  set (c := 42096874636 / 100000000).
  assert (E : Rsum (map (fun xi => xi * sin (sqrt (Rabs xi))) (repeat c n)) = INR n * (c * sin (sqrt (Rabs c)))).
  { induction n as [|n IH]; [unfold Rsum; cbn; ring|]. cbn [repeat map]. unfold Rsum in *. cbn [fold_right].
    rewrite IH, S_INR. ring. }
  rewrite E.
  replace (4189828872724339 / 10000000000000 * INR n - INR n * (c * sin (sqrt (Rabs c))))
    with (INR n * (4189828872724339 / 10000000000000 - c * sin (sqrt (Rabs c)))) by ring.
  rewrite Rabs_mult, (Rabs_pos_eq (INR n)) by apply pos_INR.
  apply Rmult_le_compat_l; [apply pos_INR|]. exact schwefel_term.
Qed.

Theorem opt_h1 : exists v, spec_bm_h1 [86998 / 10000; 67665 / 10000] = [v] /\ Rabs (v - 2) <= 1 / 1000.
Proof.
  eexists. split; [reflexivity|]. norm_dec. numR. cbn [nth].
  replace ((86998 / 10000 - 43499 / 5000) ^ 2 + (67665 / 10000 - 13533 / 2000) ^ 2) with 0 by lra.
  rewrite sqrt_0.
  replace ((sin (86998 / 10000 - 67665 / 10000 / 8) ^ 2 + sin (67665 / 10000 + 86998 / 10000 / 8) ^ 2) / (0 + 1) - 2)
    with (sin (86998 / 10000 - 67665 / 10000 / 8) ^ 2 + sin (67665 / 10000 + 86998 / 10000 / 8) ^ 2 - 2) by field.
  interval with (i_prec 60).
Qed.


(* ================= the tabulated values are global optima: lower (h1: upper) bounds for every input ================= *)
Lemma Rsum_map_nonneg {A} (f : A -> R) l : (forall a, In a l -> 0 <= f a) -> 0 <= Rsum (map f l).
Proof.
  intro H. apply Rsum_nonneg. apply Forall_forall. intros y Hy. apply in_map_iff in Hy.
  destruct Hy as (a & <- & Ha). apply H. exact Ha.
Qed.

Definition lower_bounded (f : list R) (v : R) : Prop := exists y, f = [y] /\ v <= y.

Theorem min_sphere (x : list R) : lower_bounded (spec_bm_sphere x) 0.
Proof. eexists. split; [reflexivity|]. numR. apply Rsum_map_nonneg. intros. apply pow2_ge_0. Qed.

Theorem min_cigar (x : list R) : lower_bounded (spec_bm_cigar x) 0.
Proof.
  eexists. split; [reflexivity|]. numR.
  pose proof (pow2_ge_0 (nth 0 x 0)). pose proof (Rsum_map_nonneg (fun a : R => a ^ 2) (tl x) (fun a _ => pow2_ge_0 a)). nra.
Qed.

Theorem min_rosenbrock (x : list R) : lower_bounded (spec_bm_rosenbrock x) 0.
Proof.
  eexists. split; [reflexivity|]. numR. apply Rsum_map_nonneg. intros [a b] _. cbn [fst snd].
  pose proof (pow2_ge_0 (1 - a)). pose proof (pow2_ge_0 (b - a ^ 2)). lra.
Qed.

Theorem min_himmelblau (x : list R) : lower_bounded (spec_bm_himmelblau x) 0.
Proof.
  eexists. split; [reflexivity|]. numR.
  match goal with |- 0 <= ?a ^ 2 + ?b ^ 2 => pose proof (pow2_ge_0 a); pose proof (pow2_ge_0 b); lra end.
Qed.

Lemma ten_N_as_sum {A} (l : list A) (f : A -> R) :
  10 * INR (length l) + Rsum (map f l) = Rsum (map (fun a => 10 + f a) l).
Proof. rewrite Rsum_map_plus, Rsum_map_const. ring. Qed.

Theorem min_rastrigin (x : list R) : lower_bounded (spec_bm_rastrigin x) 0.
Proof.
  eexists. split; [reflexivity|]. numR. rewrite IZR_of_nat, ten_N_as_sum. apply Rsum_map_nonneg. intros a _.
  pose proof (pow2_ge_0 a). pose proof (COS_bound (2 * PI * a)). lra.
Qed.

Theorem min_rastrigin_skew (x : list R) : lower_bounded (spec_bm_rastrigin_skew x) 0.
Proof.
  eexists. split; [reflexivity|]. numR. cbv zeta. rewrite IZR_of_nat, ten_N_as_sum. apply Rsum_map_nonneg. intros a _.
  set (y := if Rltb 0 a then 10 * a else a). pose proof (pow2_ge_0 y). pose proof (COS_bound (2 * PI * y)). lra.
Qed.

Theorem min_rastrigin_scaled (x : list R) : lower_bounded (spec_bm_rastrigin_scaled x) 0.
Proof.
  eexists. split; [reflexivity|]. unfold indexed. numR. cbv zeta. rewrite IZR_of_nat.
  replace (length x) with (length (combine (seq 0 (length x)) x)) at 1
    by (rewrite combine_length, seq_length, Nat.min_id; reflexivity).
  rewrite ten_N_as_sum. apply Rsum_map_nonneg. intros [i a] _. cbn [fst snd].
  match goal with |- 0 <= 10 + (?u ^ 2 - 10 * cos ?v) => pose proof (pow2_ge_0 u); pose proof (COS_bound v); lra end.
Qed.

Theorem min_bohachevsky (x : list R) : lower_bounded (spec_bm_bohachevsky x) 0.
Proof.
  eexists. split; [reflexivity|]. norm_dec. numR. apply Rsum_map_nonneg. intros [a b] _. cbn [fst snd].
  pose proof (pow2_ge_0 a). pose proof (pow2_ge_0 b).
  pose proof (COS_bound (3 * PI * a)). pose proof (COS_bound (4 * PI * b)). lra.
Qed.

Theorem min_schaffer (x : list R) : lower_bounded (spec_bm_schaffer x) 0.
Proof.
  eexists. split; [reflexivity|]. norm_dec. numR. apply Rsum_map_nonneg. intros [a b] _. cbn [fst snd]. cbv zeta.
  apply Rmult_le_pos; [apply Rpow_total_nonneg|].
  match goal with |- 0 <= ?s ^ 2 + 1 => pose proof (pow2_ge_0 s); lra end.
Qed.

Lemma Rprod_abs_le_1 l : Forall (fun c => Rabs c <= 1) l -> Rabs (fold_right Rmult 1 l) <= 1.
Proof.
  induction 1 as [|c l Hc Hl IH]; cbn [fold_right]; [rewrite Rabs_R1; lra|].
  rewrite Rabs_mult. pose proof (Rabs_pos c). pose proof (Rabs_pos (fold_right Rmult 1 l)). nra.
Qed.

Theorem min_griewank (x : list R) : lower_bounded (spec_bm_griewank x) 0.
Proof.
  eexists. split; [reflexivity|]. numR.
  pose proof (Rsum_map_nonneg (fun a : R => a ^ 2) x (fun a _ => pow2_ge_0 a)) as S.
  match goal with |- 0 <= _ - ?p + 1 => assert (P : Rabs p <= 1) end.
  { apply Rprod_abs_le_1. apply Forall_forall. intros c Hc. apply in_map_iff in Hc. destruct Hc as (q & <- & _).
    apply Rabs_le. apply COS_bound. }
  unfold Rabs in P. destruct (Rcase_abs _) in P; lra.
Qed.

Lemma Rsum_map_le_const {A} (f : A -> R) l c : (forall a, In a l -> f a <= c) -> Rsum (map f l) <= INR (length l) * c.
Proof.
  intro H. unfold Rsum. induction l as [|a l IH]; [cbn; lra|]. cbn [map fold_right length]. rewrite S_INR.
  pose proof (H a (or_introl eq_refl)). assert (fold_right Rplus 0 (map f l) <= INR (length l) * c) by (apply IH; intros; apply H; right; assumption).
  lra.
Qed.

Lemma exp_le_mono a b : a <= b -> exp a <= exp b.
Proof. intros [H|H]; [left; apply exp_increasing; exact H|right; rewrite H; reflexivity]. Qed.

Theorem min_ackley (x : list R) : (1 <= length x)%nat -> lower_bounded (spec_bm_ackley x) 0.
Proof.
  intro Hn. eexists. split; [reflexivity|]. norm_dec. numR. rewrite IZR_of_nat.
  assert (N : 0 < INR (length x)) by (apply lt_0_INR; lia).
  set (s := sqrt _).
  assert (E1 : exp (- (1 / 5) * s) <= 1).
  { assert (Hp : 0 <= s) by apply sqrt_pos. pose proof (exp_le_mono (- (1 / 5) * s) 0 ltac:(lra)) as E.
    rewrite exp_0 in E. exact E. }
  set (m := 1 / INR (length x) * _).
  assert (M : m <= 1).
  { unfold m. pose proof (Rsum_map_le_const (fun xi : R => cos (2 * PI * xi)) x 1 (fun a _ => proj2 (COS_bound _))) as B.
    apply Rmult_le_reg_l with (INR (length x)); [exact N|].
    replace (INR (length x) * (1 / INR (length x) * Rsum (map (fun xi : R => cos (2 * PI * xi)) x)))
      with (Rsum (map (fun xi : R => cos (2 * PI * xi)) x)) by (field; lra). lra. }
  pose proof (exp_le_mono m 1 M) as E2.
  lra.
Qed.

(* h1 is maximised: its values never exceed the tabulated 2 *)
Theorem max_h1 (x : list R) : exists y, spec_bm_h1 x = [y] /\ y <= 2.
Proof.
  eexists. split; [reflexivity|]. norm_dec. numR. cbv zeta.
  set (a := sin _). set (b := sin _). set (d := sqrt _).
  assert (0 <= d) by apply sqrt_pos.
  assert (A : 0 <= a ^ 2 <= 1).
  { pose proof (SIN_bound (nth 0 x 0 - nth 1 x 0 / 8)). fold a in H0. split; [apply pow2_ge_0|nra]. }
  assert (B : 0 <= b ^ 2 <= 1).
  { pose proof (SIN_bound (nth 1 x 0 + nth 0 x 0 / 8)). fold b in H0. split; [apply pow2_ge_0|nra]. }
  apply Rmult_le_reg_r with (d + 1); [lra|].
  unfold Rdiv. rewrite Rmult_assoc, Rinv_l, Rmult_1_r by lra. nra.
Qed.

(* on the Pareto-optimal front of DTLZ2 (x_M.. = 1/2) the objective vector lies on the unit sphere *)
Theorem dtlz2_front_unit (x : list R) M : Forall (fun v => v = 1 / 2) (dtlz_xm x M) -> enorm (spec_bm_dtlz2 x M) = 1.
Proof.
  intro H. rewrite dtlz2_norm. unfold dtlz_g2. norm_dec. numR.
  rewrite Rsum_map_zero; [ring|]. intros a Ha. rewrite Forall_forall in H. rewrite (H a Ha). lra.
Qed.


(* ---- list-of-rows matrices over R: enough linear algebra to state the contract of numpy.linalg.inv as a
   matrix equation (Minv . M = I) and derive what the rotate decorator feeds the wrapped function ---- *)
Definition dotR (r v : list R) : R := Rsum (map (fun p => fst p * snd p) (zip r v)).
Definition vadd (u v : list R) : list R := map2 Rplus u v.
Definition vscale (a : R) (u : list R) : list R := map (Rmult a) u.
(* sum_i r_i * B_i  (rows of length n) *)
Fixpoint lincomb (r : list R) (B : list (list R)) (n : nat) : list R :=
  match r, B with
  | a :: r', row :: B' => vadd (vscale a row) (lincomb r' B' n)
  | _, _ => repeat 0 n
  end.
Definition matmul (A B : list (list R)) (n : nat) : list (list R) := map (fun r => lincomb r B n) A.
Definition identity (n : nat) : list (list R) :=
  map (fun i => map (fun j => if Nat.eqb i j then 1 else 0) (seq 0 n)) (seq 0 n).

Lemma fold_left_Rplus l acc : fold_left Rplus l acc = acc + Rsum l.
Proof. revert acc; induction l as [|x l IH]; intro acc; cbn; [unfold Rsum; cbn; ring|]. rewrite IH. unfold Rsum. cbn. ring. Qed.

Lemma dotv_dotR r v : @dotv R NumR r v = dotR r v.
Proof. unfold dotv, dotR. numR. rewrite fold_left_Rplus. ring. Qed.

Lemma matvec_dotR (M : list (list R)) v : matvec M v = map (fun r => dotR r v) M.
Proof. unfold matvec. apply map_ext. intro r. apply dotv_dotR. Qed.

Lemma dotR_nil_l v : dotR [] v = 0. Proof. reflexivity. Qed.
Lemma dotR_nil_r r : dotR r [] = 0. Proof. destruct r; reflexivity. Qed.
Lemma dotR_cons a r b v : dotR (a :: r) (b :: v) = a * b + dotR r v.
Proof. unfold dotR, Rsum. cbn. reflexivity. Qed.

Lemma dotR_vadd u : forall v y, length u = length v -> dotR (vadd u v) y = dotR u y + dotR v y.
Proof.
  induction u as [|a u IH]; intros [|b v] y H; cbn in H; try lia.
  - unfold vadd, dotR, Rsum. cbn. ring.
  - destruct y as [|c y]; [rewrite !dotR_nil_r; ring|].
    unfold vadd. cbn [map2]. rewrite !dotR_cons. fold (vadd u v). rewrite IH by lia. ring.
Qed.

Lemma dotR_vscale a u : forall y, dotR (vscale a u) y = a * dotR u y.
Proof.
  induction u as [|b u IH]; intro y; [unfold vscale, dotR, Rsum; cbn; ring|].
  destruct y as [|c y]; [rewrite !dotR_nil_r; ring|]. unfold vscale. cbn [map]. rewrite !dotR_cons.
  fold (vscale a u). rewrite IH. ring.
Qed.

Lemma dotR_zeros n y : dotR (repeat 0 n) y = 0.
Proof.
  revert y; induction n as [|n IH]; intro y; [reflexivity|]. destruct y as [|c y]; [apply dotR_nil_r|].
  cbn [repeat]. rewrite dotR_cons, IH. ring.
Qed.

Lemma lincomb_length r : forall B n, Forall (fun row => length row = n) B -> length (lincomb r B n) = n.
Proof.
  induction r as [|a r IH]; intros B n HB; [cbn; apply repeat_length|].
  destruct B as [|row B]; [cbn; apply repeat_length|]. inversion HB; subst.
  cbn [lincomb]. unfold vadd. rewrite map2_length. unfold vscale. rewrite map_length, IH by assumption. apply Nat.min_id.
Qed.

(* associativity: (r . B) . y = r . (B y) *)
Lemma dotR_lincomb r : forall B n y, Forall (fun row => length row = n) B ->
  dotR (lincomb r B n) y = dotR r (map (fun row => dotR row y) B).
Proof.
  induction r as [|a r IH]; intros B n y HB; [cbn; apply dotR_zeros|].
  destruct B as [|row B]; [cbn [lincomb map]; rewrite dotR_zeros, dotR_nil_r; reflexivity|].
  inversion HB; subst. cbn [lincomb map]. rewrite dotR_cons.
  rewrite dotR_vadd by (unfold vscale; rewrite map_length, lincomb_length by assumption; reflexivity).
  rewrite dotR_vscale, IH by assumption. reflexivity.
Qed.

Lemma matvec_matmul (A B : list (list R)) n y : Forall (fun row => length row = n) B ->
  matvec (matmul A B n) y = matvec A (matvec B y).
Proof.
  intro HB. rewrite !matvec_dotR. unfold matmul. rewrite map_map. apply map_ext. intro r.
  apply dotR_lincomb. exact HB.
Qed.

Lemma dotR_unit i : forall m k y, length y = m ->
  dotR (map (fun j => if Nat.eqb i j then 1 else 0) (seq k m)) y = if (k <=? i)%nat && (i <? k + m)%nat then nth (i - k) y 0 else 0.
Proof.
  induction m as [|m IH]; intros k y Hy.
  - change (dotR [] y = if (k <=? i)%nat && (i <? k + 0)%nat then nth (i - k) y 0 else 0).
    destruct ((k <=? i)%nat && (i <? k + 0)%nat) eqn:E; [|reflexivity].
    apply andb_true_iff in E. rewrite Nat.leb_le, Nat.ltb_lt in E. lia.
  - destruct y as [|c y]; [cbn in Hy; lia|]. cbn [seq map]. rewrite dotR_cons, IH by (cbn in Hy; lia).
    destruct ((S k <=? i)%nat && (i <? S k + m)%nat) eqn:E1; destruct ((k <=? i)%nat && (i <? k + S m)%nat) eqn:E2;
      try (apply andb_true_iff in E1; rewrite Nat.leb_le, Nat.ltb_lt in E1);
      try (apply andb_true_iff in E2; rewrite Nat.leb_le, Nat.ltb_lt in E2);
      try (apply andb_false_iff in E1; rewrite Nat.leb_gt, Nat.ltb_ge in E1);
      try (apply andb_false_iff in E2; rewrite Nat.leb_gt, Nat.ltb_ge in E2);
      destruct (Nat.eqb_spec i k) as [Ek|Ek]; try lia.
    + replace (i - k)%nat with (S (i - S k)) by lia. cbn [nth]. ring.
    + subst i. rewrite Nat.sub_diag. cbn [nth]. ring.
    + ring.
Qed.

Lemma map_nth_seq {A} (y : list A) d : map (fun i => nth i y d) (seq 0 (length y)) = y.
Proof.
  induction y as [|c y IH]; [reflexivity|]. cbn [length seq map nth]. f_equal.
  rewrite <- seq_shift, map_map. exact IH.
Qed.

Lemma matvec_identity y : matvec (identity (length y)) y = y.
Proof.
  rewrite matvec_dotR. unfold identity. rewrite map_map.
  transitivity (map (fun i => nth i y 0) (seq 0 (length y))); [|apply map_nth_seq]. apply map_ext_in. intros i Hi. apply in_seq in Hi.
  rewrite dotR_unit by reflexivity. destruct (Nat.leb_spec 0 i); [|lia]. destruct (Nat.ltb_spec i (0 + length y)); [|lia].
  cbn [andb]. rewrite Nat.sub_0_r. reflexivity.
Qed.

(* rotate: the decorator stores Minv = numpy.linalg.inv(M) and feeds matvec Minv x.  Under the contract of inv,
   Minv . M = I (as n x n matrices), the wrapped function receives exactly the y with M y = x, i.e. M^-1 x. *)
Theorem rotate_feeds_matrix (M Minv : list (list R)) (x y : list R) :
  Forall (fun row => length row = length y) M ->
  matmul Minv M (length y) = identity (length y) ->
  matvec M y = x -> spec_rotate_arg Minv x = y.
Proof.
  intros HM Hinv <-. unfold spec_rotate_arg.
  rewrite <- matvec_matmul with (n := length y) by exact HM. rewrite Hinv. apply matvec_identity.
Qed.
