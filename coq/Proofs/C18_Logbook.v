(* Lemmas about the Logbook / Statistics model (Model/C18_Logbook.v). *)
From Coq Require Import List ZArith Bool Lia.
From DV Require Import Base.PyList Model.C18_Logbook.
Import ListNotations.
Local Open Scope Z_scope.

Lemma st_compile_spec {A B C} (s : stats A B C) data :
  st_compile s data = map (fun nf => (fst nf, snd nf (map (s_key s) data))) (s_funs s).
Proof. reflexivity. Qed.
